/-
  Properties/C13World.lean — C13 at the level of whole scripts: where the `RET` lines of a transcript come from,
  why `run()` returned, and that nothing is written after it returned.

  C13: "connect()/authorize() return the server's CONNACK as ConnectRsp when its reason is < 0x80, ConnectError
  with that reason when it is >= 0x80, AuthRsp for an AUTH challenge, and SocketClosed if the transport ends
  first. run() returns Ok(()) once the user's DISCONNECT has been written (writing nothing after it) or a server
  DISCONNECT with reason 0 arrives, Disconnected carrying the server's reason and properties for any other
  server DISCONNECT, SocketClosed on end-of-stream or transport error, HandleClosed once every handle is dropped,
  and an error for undecodable input; it does not return while none of these has happened."

  Vocabulary (Lemmas/WorldRet.lean)
    `World.W7.Reaches a b`      `b` is reached from `a` by elementary transitions (`a` is an earlier moment)
    `World.W7.During cfg w`     `w` is a state the client is in at some moment of the execution of a script under `cfg`
                             (initially; or one elementary transition — one poll of one task, one script event, … —
                             after such a moment). `World.W7.during_run`: the world a script ends in is one.
    `World.W7.taskCall t`       the call (`connect` / `authorize` / `run`) the context task `t` is executing
    `World.W7.isCallEv e`       the call the script event `e` starts
    `World.W7.retCount c out`   number of `RET c _` lines, `World.W7.callCount c out` number of logged events starting `c`
    `World.W7.ReturnCause w s fin r`   why the poll of `run()` from `w` returned `r` (see `World.W7.EndCause`)
    `World.sent w`           all bytes handed to the transport so far
-/
import PosterModel.Lemmas.WorldRet
import PosterModel.Lemmas.WorldEx
import PosterModel.Lemmas.WorldOpsEx

set_option linter.unusedVariables false
set_option linter.unusedSimpArgs false

namespace Poster
open Framing World World.W7

/-! ## 1. `RET` lines come only from a poll of the context task, and each one ends the call -/

/-- **Only a poll of the context task logs a `RET`.** In any world: polling a handle future or a stream logs no
    `RET` line; no script event other than `poll` logs one; and one poll of the context task either lets the call go
    on (the task is the same up to its "polled before" flag and only `W` / `WRAW` lines are appended) or ends it:
    then the task is gone, and `W` / `WRAW` lines followed by exactly one last line are appended, which is the `RET`
    of the call that was executing (or a panic of the context task). -/
theorem ret_logged_only_by_context_poll (w : World) :
    (∀ t, t ≠ .ctx → OutExtP NoRet w (w.pollTask t)) ∧
    (∀ e, (∀ t, e ≠ .poll t) → OutExtP NoRet w (w.apply e)) ∧
    ((TaskNext w.task w.pollCtx.task ∧ OutExt w w.pollCtx) ∨
     (w.pollCtx.task = .none ∧ ∃ pre last, Quiet pre ∧ w.pollCtx.out = w.out ++ pre ++ [last] ∧
       ((∃ c r, last = .ret c r ∧ taskCall w.task = some c) ∨ ∃ cls, last = .panic .ctx cls))) := by
  refine ⟨fun t ht => ?_, fun e he => ?_, pollCtx_shape w⟩
  · exact outExtP_mono (pollTask_user w t ht).2 (fun _ h => noRet_of_plain (plain_of_userObs h))
  · rcases apply_cases w e with ⟨t, rfl, _⟩ | ⟨tk, _, _, _, h⟩ | hp
    · exact absurd rfl (he t)
    · exact outExtP_of_eq (by rw [h]; simp)
    · exact outExtP_mono hp.out (fun _ h => noRet_of_plain (plain_of_dull h))

/-- **A call is accepted only while no call is executing**: a `connect` / `authorize` / `run` event that arrives
    while the context task exists is a script error (nothing is started; the script stops). -/
theorem call_event_refused_while_call_in_flight (w : World) (e : Ev) (c : Call) (hc : isCallEv e = some c)
    (ht : w.task ≠ .none) : w.apply e = w.badScript := by
  cases e <;> simp [isCallEv, startTask] at hc <;> simp [World.apply, ht]

/-- **Returns are bounded by calls, in every reachable world.** For each of `connect`, `authorize`, `run`: the `RET`
    lines logged so far for that call, plus one if that call is still executing, do not exceed the events logged so
    far that start it. So between an accepted call event and its `RET` (or the `dropFut` / `dropCtx` that cancels it)
    exactly that one call is in flight, and it returns at most once. -/
theorem returns_bounded_by_calls (cfg : Cfg) (evs : List Ev) (c : Call) :
    let w := evs.foldl World.step { cfg := cfg }
    retCount c w.out + inFlight w c ≤ callCount c w.out :=
  during_callInv (during_run cfg evs) c

/-- **Each call returns at most once.** In the transcript of any script, for each of `connect`, `authorize`, `run`,
    the number of `RET` lines of that call is at most the number of events that start it. -/
theorem each_call_returns_at_most_once (cfg : Cfg) (evs : List Ev) (c : Call) :
    retCount c (World.run cfg evs) ≤ callCount c (World.run cfg evs) := by
  have := during_callInv (during_script cfg evs).1 c
  rw [(during_script cfg evs).2]
  omega

/-- **Every `RET` line of a transcript was logged by a poll of the context task that ended the call.** If the
    transcript of a script is `pre ++ RET c r :: post`, there was a moment `w0` of the execution at which the call `c`
    was executing, the poll of the context task from `w0` produced exactly the transcript `pre ++ [RET c r]` and
    left no context task behind, and the end of the script is reached from there by elementary transitions. -/
theorem ret_comes_from_a_context_poll (cfg : Cfg) (evs : List Ev) (pre post : List Obs) (c : Call) (r : RetRes)
    (h : World.run cfg evs = pre ++ .ret c r :: post) :
    ∃ w0, During cfg w0 ∧ taskCall w0.task = some c ∧ w0.pollCtx.task = .none ∧
      w0.pollCtx.out = pre ++ [.ret c r] ∧ Reaches w0.pollCtx (evs.foldl World.step { cfg := cfg }).finishScript :=
  during_ret_origin (during_script cfg evs).1 h

/-! ## 2. why `run()` returned -/

/-- **Every `RET run r` of a transcript has a documented cause.** If the transcript of a script is
    `pre ++ RET run r :: post`, there was a moment `w0` of the execution at which `run()` was executing (`started`: it
    had been polled before), the poll of the context task from `w0` produced exactly the transcript
    `pre ++ [RET run r]`, and `r` is justified by `ReturnCause`: on a first poll the transport failed while the
    unfinished handshakes were re-sent (`SocketClosed`); or, after iterations of the loop that went on, the iteration
    starting in some world `wm` ended the call for one of the causes of `EndCause` (see `run_result_causes`). -/
theorem run_returns_only_for_a_cause (cfg : Cfg) (evs : List Ev) (pre post : List Obs) (r : RetRes)
    (h : World.run cfg evs = pre ++ .ret .run r :: post) :
    ∃ w0 started, During cfg w0 ∧ w0.task = .running started ∧ w0.pollCtx.task = .none ∧
      w0.pollCtx.out = pre ++ [.ret .run r] ∧ ReturnCause w0 started w0.pollCtx r ∧
      Reaches w0.pollCtx (evs.foldl World.step { cfg := cfg }).finishScript := by
  obtain ⟨w0, hd, hc, hn, ho, hr⟩ := during_ret_origin (during_script cfg evs).1 h
  obtain ⟨s, ht⟩ := running_of_call_run (during_taskOk hd) hc
  refine ⟨w0, s, hd, ht, hn, ho, ?_, hr⟩
  rcases pollRun_cause w0 s ht hn with ⟨r', pre', ho', hc'⟩ | ⟨pre', ho'⟩
  · rw [ho] at ho'
    have := List.append_inj' ho' rfl
    simp only [List.cons.injEq, Obs.ret.injEq, true_and, and_true] at this
    rw [this.2]; exact hc'
  · rw [ho] at ho'
    have := List.append_inj' ho' rfl
    simp at this

/-- **The causes, result by result.** If the poll of `run()` from `w` (`fin` = the world after it) returned `r` for
    the cause `ReturnCause w started fin r`, then, with `wm` the world at the start of the last iteration of that poll
    (`InPoll w started wm`: reached from `w` — on a first poll from `w.resent` — by iterations that go on):
    * `r = Ok` only if the user's DISCONNECT (a fire-and-forget message whose packet has type 14, within the size limit)
      was at the head of the queue in `wm` and the transport took it — then `fin` is `wm` with that packet written, its
      caller notified and `RET run Ok` logged right after the write — or nothing was queued and the next frame decoded
      to a server DISCONNECT with reason 0;
    * `r = Disconnected d` only if nothing was queued and the next frame decoded to the server DISCONNECT `d` itself,
      with `d.reason ≠ 0`;
    * `r = HandleClosed` only if no sender of the message queue existed when the poll started (`w.senders = 0`: every
      handle and every pending handle future was gone) and everything queued had been handled (`fin.queue = []`);
    * `r = SocketClosed` only if the transport failed while unfinished handshakes were re-sent (first poll), or the framing
      layer reported the end of the stream (end of stream, read error, malformed length), or a write was due — the
      request at the head of the queue, or the acknowledgement of the inbound packet just decoded — and the transport
      refused it;
    * a codec error only if nothing was queued and the next complete frame did not decode. -/
theorem run_result_causes {w fin : World} {started : Bool} {r : RetRes} (h : ReturnCause w started fin r) :
    (r = .ok → ∃ wm : World, InPoll w started wm ∧
      ((∃ pkt slot q, wm.queue = .ff pkt slot :: q ∧ pktType pkt = 14 ∧ wm.c.sizeOk pkt = true ∧
        wm.canWrite pkt.length = true ∧
        fin = ((({ wm with queue := q }).writeBytes pkt).sendSlot slot .unit).finish .run .ok) ∨
      (∃ rx' rd' fr d, wm.queue = [] ∧ wm.senders ≠ 0 ∧ pollNext wm.rx wm.reader = (rx', rd', .item fr) ∧
        decodeRx fr = .ok (.disconnect d) ∧ d.reason = 0))) ∧
    (∀ d, r = .disconnected d → ∃ (wm : World) (rx' : Rx) (rd' : List ReadEv) (fr : Bytes), InPoll w started wm ∧
      wm.queue = [] ∧ wm.senders ≠ 0 ∧ pollNext wm.rx wm.reader = (rx', rd', .item fr) ∧
      decodeRx fr = .ok (.disconnect d) ∧ d.reason ≠ 0) ∧
    (r = .err .handleClosed → w.senders = 0 ∧ fin.queue = [] ∧ fin.senders = 0) ∧
    (r = .err .socketClosed →
      (started = false ∧ w.resumed.canWrite ((w.c.resume.2.2.map List.length).sum) = false) ∨
      ∃ wm : World, InPoll w started wm ∧
        ((∃ rx' rd', wm.queue = [] ∧ wm.senders ≠ 0 ∧ pollNext wm.rx wm.reader = (rx', rd', .none)) ∨
        (∃ m q, wm.queue = m :: q ∧ wm.canWrite (writeNeed (wm.c.handleMsg m true).2.1) = false ∧
          writesOf (wm.c.handleMsg m false).2.1 ≠ []) ∨
        (∃ rx' rd' fr p, wm.queue = [] ∧ wm.senders ≠ 0 ∧ pollNext wm.rx wm.reader = (rx', rd', .item fr) ∧
          decodeRx fr = .ok p ∧ wm.canWrite (writeNeed (wm.c.handlePkt wm.chanRxAlive p true).2.1) = false ∧
          writesOf (wm.c.handlePkt wm.chanRxAlive p false).2.1 ≠ []))) ∧
    (r = .err .codecError → ∃ (wm : World) (rx' : Rx) (rd' : List ReadEv) (fr : Bytes), InPoll w started wm ∧
      wm.queue = [] ∧ wm.senders ≠ 0 ∧ pollNext wm.rx wm.reader = (rx', rd', .item fr) ∧ decodeRx fr = .err) := by
  cases h with
  | resendFailed h1 h2 =>
    refine ⟨nofun, nofun, nofun, fun _ => Or.inl ⟨h1, h2⟩, nofun⟩
  | loop w1 wm r h1 h2 hs hc =>
    have hin : InPoll w started wm := ⟨w1, h1, h2, hs⟩
    have hsend : wm.senders = w.senders := by
      rw [serve_senders hs]
      cases started with
      | true => rw [h1 rfl]
      | false =>
        obtain ⟨_, rfl⟩ := h2 rfl
        obtain ⟨_, _, _, a4, a5, _⟩ := foldl_writeBytes_frame w.c.resume.2.2 w.resumed
        show (w.c.resume.2.2.foldl (fun w p => w.writeBytes p) w.resumed).senders = _
        simp only [senders, a4, a5]; simp [resumed]
    cases hc with
    | userDisconnect pkt slot q a1 a2 a3 a4 a5 =>
      exact ⟨fun _ => ⟨wm, hin, Or.inl ⟨pkt, slot, q, a1, a2, a3, a4, a5⟩⟩, nofun, nofun, nofun, nofun⟩
    | serverDisconnect0 rx' rd' fr d a1 a2 a3 a4 a5 =>
      exact ⟨fun _ => ⟨wm, hin, Or.inr ⟨rx', rd', fr, d, a1, a2, a3, a4, a5⟩⟩, nofun, nofun, nofun, nofun⟩
    | serverDisconnect rx' rd' fr d a1 a2 a3 a4 a5 =>
      refine ⟨nofun, fun d' hd => ?_, nofun, nofun, nofun⟩
      cases hd
      exact ⟨wm, rx', rd', fr, hin, a1, a2, a3, a4, a5⟩
    | handleClosed a1 a2 a3 =>
      refine ⟨nofun, nofun, fun _ => ⟨by rw [← hsend]; exact a2, by rw [a3]; exact a1, by rw [a3]; exact a2⟩, nofun,
        nofun⟩
    | streamEnded rx' rd' a1 a2 a3 =>
      exact ⟨nofun, nofun, nofun, fun _ => Or.inr ⟨wm, hin, Or.inl ⟨rx', rd', a1, a2, a3⟩⟩, nofun⟩
    | requestWriteFailed m q a1 a2 a3 =>
      exact ⟨nofun, nofun, nofun, fun _ => Or.inr ⟨wm, hin, Or.inr (Or.inl ⟨m, q, a1, a2, a3⟩)⟩, nofun⟩
    | ackWriteFailed rx' rd' fr p a1 a2 a3 a4 a5 a6 =>
      exact ⟨nofun, nofun, nofun,
        fun _ => Or.inr ⟨wm, hin, Or.inr (Or.inr ⟨rx', rd', fr, p, a1, a2, a3, a4, a5, a6⟩)⟩, nofun⟩
    | undecodable rx' rd' fr a1 a2 a3 a4 =>
      exact ⟨nofun, nofun, nofun, nofun, fun _ => ⟨wm, rx', rd', fr, hin, a1, a2, a3, a4⟩⟩

/-- **`run()` does not return while none of the causes holds.** At any moment of an execution at which `run()` is
    executing: if a poll of the context task leaves the future pending, then at the last iteration of that poll (world
    `wm`) nothing was queued, a sender of the message queue was alive (`senders ≠ 0`, also when the poll started) and
    the framing layer had neither a complete frame nor an end of stream to report (`pollNext` returned `pending`);
    after the poll the future is still `running`, the queue is empty, its waker is armed, and either the transport
    waker is armed (nothing left to read) or the context task is flagged to be polled again. -/
theorem run_pending_only_without_cause (cfg : Cfg) (w : World) (hd : During cfg w) (s : Bool)
    (ht : w.task = .running s) (hn : w.pollCtx.task ≠ .none) :
    w.pollCtx.task = .running true ∧ w.pollCtx.queue = [] ∧ w.pollCtx.queueReg = true ∧ w.senders ≠ 0 ∧
    ((w.pollCtx.reader = [] ∧ w.pollCtx.readerReg = true) ∨ .ctx ∈ w.pollCtx.woken) ∧
    ∃ wm : World, InPoll w s wm ∧ wm.queue = [] ∧ wm.senders ≠ 0 ∧
      pollNext wm.rx wm.reader = (w.pollCtx.rx, w.pollCtx.reader, .pending) :=
  run_pending_facts w s ht (reach_ok (during_reach hd)) hn

/-! ## 3. nothing is written after the return -/

/-- **After a return nothing is written until the next call.** If the transcript of a script is
    `pre ++ RET c r :: mid` and `mid` contains no `connect` / `authorize` / `run` event, then `mid` contains no `W`
    line, no call is executing at the end of the script, and the bytes handed to the transport at the end of the script
    are exactly those handed to it when the `RET` was logged (by the poll of the context task from the moment `w0`). -/
theorem nothing_written_after_return (cfg : Cfg) (evs : List Ev) (pre mid : List Obs) (c : Call) (r : RetRes)
    (h : World.run cfg evs = pre ++ .ret c r :: mid)
    (hmid : ∀ o ∈ mid, ∀ e, o = .ev e → isCallEv e = none) :
    (∀ o ∈ mid, ∀ bs, o ≠ .wire bs) ∧ (evs.foldl World.step { cfg := cfg }).finishScript.task = .none ∧
    ∃ w0, During cfg w0 ∧ taskCall w0.task = some c ∧ w0.pollCtx.out = pre ++ [.ret c r] ∧
      (evs.foldl World.step { cfg := cfg }).finishScript.sent = w0.pollCtx.sent ∧
      Reaches w0.pollCtx (evs.foldl World.step { cfg := cfg }).finishScript := by
  obtain ⟨h1, h2, w0, h3, h4, _, h6, h7, h8⟩ := during_after_ret (during_script cfg evs).1 h hmid
  exact ⟨h2, h1, w0, h3, h4, h6, h7, h8⟩

/-- **Nothing is written after the user's DISCONNECT.** If the transcript of a script is `pre ++ RET run Ok :: mid`
    with no `connect` / `authorize` / `run` event in `mid`, then `mid` contains no `W` line; the `RET` was logged by a
    poll of `run()` (from the moment `w0`) for a cause `ReturnCause … Ok`; and whenever that cause is the user's
    DISCONNECT — packet `pkt` at the head of the queue in the world `wm` of the last iteration — the `RET` immediately
    follows the write of `pkt`, and all the bytes handed to the transport up to the end of the script are those handed
    to it before that iteration followed by `pkt`: the DISCONNECT is the last thing written. -/
theorem nothing_written_after_user_disconnect (cfg : Cfg) (evs : List Ev) (pre mid : List Obs)
    (h : World.run cfg evs = pre ++ .ret .run .ok :: mid)
    (hmid : ∀ o ∈ mid, ∀ e, o = .ev e → isCallEv e = none) :
    (∀ o ∈ mid, ∀ bs, o ≠ .wire bs) ∧
    ∃ w0 started, During cfg w0 ∧ w0.task = .running started ∧ w0.pollCtx.out = pre ++ [.ret .run .ok] ∧
      ReturnCause w0 started w0.pollCtx .ok ∧
      Reaches w0.pollCtx (evs.foldl World.step { cfg := cfg }).finishScript ∧
      ∀ (wm : World) (pkt : Bytes) (slot : Nat) (q : List Msg), wm.canWrite pkt.length = true →
        w0.pollCtx = ((({ wm with queue := q }).writeBytes pkt).sendSlot slot .unit).finish .run .ok →
        (evs.foldl World.step { cfg := cfg }).finishScript.sent = wm.sent ++ pkt ∧
        pre = (({ wm with queue := q } : World).writeBytes pkt).out := by
  obtain ⟨_, h2, w0, h3, h4, h5, h6, h7, h8⟩ := during_after_ret (during_script cfg evs).1 h hmid
  obtain ⟨s, ht⟩ := running_of_call_run (during_taskOk h3) h4
  refine ⟨h2, w0, s, h3, ht, h6, ?_, h8, ?_⟩
  · rcases pollRun_cause w0 s ht h5 with ⟨r', pre', ho', hc'⟩ | ⟨pre', ho'⟩
    · rw [h6] at ho'
      have := List.append_inj' ho' rfl
      simp only [List.cons.injEq, Obs.ret.injEq, true_and, and_true] at this
      rw [this.2]; exact hc'
    · rw [h6] at ho'
      have := List.append_inj' ho' rfl
      simp at this
  · intro wm pkt slot q hw hf
    obtain ⟨a1, a2⟩ := userDisconnect_last_write hw hf
    refine ⟨by rw [h7, a1], ?_⟩
    rw [h6] at a2
    exact (List.append_inj' a2 rfl).1

/-! ## 4. why `connect()` / `authorize()` returned -/

/-- **Every `RET connect r` / `RET authorize r` of a transcript has a documented cause.** If the transcript of a script
    is `pre ++ RET c r :: post` with `c` = `connect` or `authorize`, there was a moment `w0` of the execution at which
    that call was executing (`t`, `a`: the CONNECT resp. AUTH request; `started`: the request had been written by an
    earlier poll), the poll of the context task from `w0` produced exactly the transcript `pre ++ [RET c r]`, and `r`
    is justified by `ConnectCause` (see `connect_result_causes`). -/
theorem connect_returns_only_for_a_cause (cfg : Cfg) (evs : List Ev) (pre post : List Obs) (c : Call) (r : RetRes)
    (hc : c ≠ .run) (h : World.run cfg evs = pre ++ .ret c r :: post) :
    ∃ w0 t a started, During cfg w0 ∧ w0.task = .connecting c t a started ∧ w0.pollCtx.task = .none ∧
      w0.pollCtx.out = pre ++ [.ret c r] ∧ ConnectCause w0 c t a started r ∧
      Reaches w0.pollCtx (evs.foldl World.step { cfg := cfg }).finishScript := by
  obtain ⟨w0, hd, hcall, hn, ho, hr⟩ := during_ret_origin (during_script cfg evs).1 h
  obtain ⟨t, a, s, ht⟩ := connecting_of_call hcall hc
  refine ⟨w0, t, a, s, hd, ht, hn, ho, ?_, hr⟩
  rcases pollConnect_cause w0 c t a s ht hn with ⟨r', pre', ho', hc'⟩ | ⟨pre', cls, ho'⟩
  · rw [ho] at ho'
    have := List.append_inj' ho' rfl
    simp only [List.cons.injEq, Obs.ret.injEq, true_and, and_true] at this
    rw [this.2]; exact hc'
  · rw [ho] at ho'
    have := List.append_inj' ho' rfl
    simp at this

/-- **The causes, result by result.** If the poll of `connect()` / `authorize()` from `w` returned `r` for the cause
    `ConnectCause w call t a started r`, then (the first response is awaited with the framing state and the reader of `w`
    — writing the request does not touch them):
    * `r = ConnectRsp k` only if the first frame decoded to the CONNACK `k` itself, with `k.reason < 0x80`;
    * `r = ConnectError k` only if the first frame decoded to the CONNACK `k` itself, with `k.reason ≥ 0x80`;
    * `r = AuthRsp au` only if the first frame decoded to the AUTH packet `au` itself;
    * `r = SocketClosed` only if the transport refused the request (first poll) or ended before a complete first frame
      arrived (end of stream, read error, malformed length);
    * a codec error only if the request could not be encoded (first poll; nothing written), or the first frame did not
      decode, or decoded to a packet that is neither CONNACK nor AUTH. -/
theorem connect_result_causes {w : World} {call : Call} {t : ConnectTx} {a : AuthTx} {started : Bool} {r : RetRes}
    (h : ConnectCause w call t a started r) :
    (∀ k, r = .connack k → ∃ (rx' : Rx) (rd' : List ReadEv) (fr : Bytes),
      pollNext w.rx w.reader = (rx', rd', .item fr) ∧ decodeRx fr = .ok (.connack k) ∧ k.reason < 128) ∧
    (∀ k, r = .connectError k → ∃ (rx' : Rx) (rd' : List ReadEv) (fr : Bytes),
      pollNext w.rx w.reader = (rx', rd', .item fr) ∧ decodeRx fr = .ok (.connack k) ∧ k.reason ≥ 128) ∧
    (∀ au, r = .auth au → ∃ (rx' : Rx) (rd' : List ReadEv) (fr : Bytes),
      pollNext w.rx w.reader = (rx', rd', .item fr) ∧ decodeRx fr = .ok (.auth au)) ∧
    (r = .err .socketClosed →
      (started = false ∧ reqValid call t a = true ∧ w.canWrite (reqBytes call t a).length = false) ∨
      ∃ (rx' : Rx) (rd' : List ReadEv), pollNext w.rx w.reader = (rx', rd', .none)) ∧
    (r = .err .codecError →
      (started = false ∧ reqValid call t a = false) ∨
      ∃ (rx' : Rx) (rd' : List ReadEv) (fr : Bytes), pollNext w.rx w.reader = (rx', rd', .item fr) ∧
        (decodeRx fr = .err ∨ ∃ p, decodeRx fr = .ok p ∧ (∀ k, p ≠ .connack k) ∧ (∀ au, p ≠ .auth au))) := by
  cases h with
  | invalid h1 h2 => exact ⟨(fun _ h => by cases h), (fun _ h => by cases h), (fun _ h => by cases h), (fun h => by cases h), fun _ => Or.inl ⟨h1, h2⟩⟩
  | writeFailed h1 h2 h3 => exact ⟨(fun _ h => by cases h), (fun _ h => by cases h), (fun _ h => by cases h), fun _ => Or.inl ⟨h1, h2, h3⟩, (fun h => by cases h)⟩
  | response w0 r h1 h2 hc =>
    have hrx : w0.rx = w.rx ∧ w0.reader = w.reader := by
      cases started with
      | true => rw [h1 rfl]; exact ⟨rfl, rfl⟩
      | false => exact ⟨(h2 rfl).2.2.1, (h2 rfl).2.2.2.1⟩
    rw [← hrx.1, ← hrx.2]
    cases hc with
    | connack rx' rd' fr k a1 a2 a3 a4 =>
      refine ⟨fun k' hk => ?_, (fun _ h => by cases h), (fun _ h => by cases h), (fun h => by cases h), (fun h => by cases h)⟩
      cases hk; exact ⟨rx', rd', fr, a1, a2, a3⟩
    | refused rx' rd' fr k a1 a2 a3 =>
      refine ⟨(fun _ h => by cases h), fun k' hk => ?_, (fun _ h => by cases h), (fun h => by cases h), (fun h => by cases h)⟩
      cases hk; exact ⟨rx', rd', fr, a1, a2, a3⟩
    | auth rx' rd' fr au a1 a2 =>
      refine ⟨(fun _ h => by cases h), (fun _ h => by cases h), fun au' hk => ?_, (fun h => by cases h), (fun h => by cases h)⟩
      cases hk; exact ⟨rx', rd', fr, a1, a2⟩
    | unexpected rx' rd' fr p a1 a2 a3 a4 =>
      exact ⟨(fun _ h => by cases h), (fun _ h => by cases h), (fun _ h => by cases h), (fun h => by cases h), fun _ => Or.inr ⟨rx', rd', fr, a1, Or.inr ⟨p, a2, a3, a4⟩⟩⟩
    | undecodable rx' rd' fr a1 a2 =>
      exact ⟨(fun _ h => by cases h), (fun _ h => by cases h), (fun _ h => by cases h), (fun h => by cases h), fun _ => Or.inr ⟨rx', rd', fr, a1, Or.inl a2⟩⟩
    | streamEnded rx' rd' a1 =>
      exact ⟨(fun _ h => by cases h), (fun _ h => by cases h), (fun _ h => by cases h), fun _ => Or.inr ⟨rx', rd', a1⟩, (fun h => by cases h)⟩

/-! ## non-vacuity -/
section NonVacuity

/-- a script in which the user's DISCONNECT ends `run()`: the transcript has the shape required by
    `run_returns_only_for_a_cause`, `nothing_written_after_return` and `nothing_written_after_user_disconnect` (with
    `mid` = the completion of the DISCONNECT operation and a later `ping` request, no call event) -/
example :
    World.run {} [.setup, .op 1 0 (.disconnect {}), .run, .op 2 0 .ping] =
      [.ev .setup, .ev (.op 1 0 (.disconnect {})), .ev .run, .wire [224, 2, 0, 0]] ++
        .ret .run .ok :: [.done 1 .ok, .ev (.op 2 0 .ping)] := by decide

example : ∀ o ∈ [Obs.done 1 .ok, .ev (.op 2 0 .ping)], ∀ e, o = .ev e → isCallEv e = none := by
  intro o ho e he
  subst he
  simp only [List.mem_cons, List.not_mem_nil, or_false, reduceCtorEq, false_or, Obs.ev.injEq] at ho
  subst ho
  rfl

/-- a script in which every handle is dropped: `run()` returns `HandleClosed` -/
example :
    World.run {} [.setup, .dropHandle 0, .run] =
      [.ev .setup, .ev (.dropHandle 0), .ev .run] ++ .ret .run (.err .handleClosed) :: [] := by decide

/-- calls and returns are counted on a transcript with two `run` events and two returns -/
example :
    retCount .run (World.run {} [.setup, .dropHandle 0, .run, .run]) = 2 ∧
    callCount .run (World.run {} [.setup, .dropHandle 0, .run, .run]) = 2 := by decide

/-- the hypotheses of `run_pending_only_without_cause` are satisfiable: after `setup, run` the future is pending
    (`World.s2` of Lemmas/WorldOpsEx.lean is that world) -/
example : During {} World.s2 ∧ World.s2.task = .running true ∧ World.s2.pollCtx.task ≠ .none := by
  have h : [Ev.setup, .run].foldl World.step {} = World.s2 := by
    simp only [List.foldl_cons, List.foldl_nil]; rw [World.stage1, World.stage2]
  refine ⟨h ▸ during_run {} _, rfl, ?_⟩
  have : World.s2.pollCtx = World.s2 := by
    show World.runLoop World.s2.loopFuel World.s2 = _
    rw [World.runLoop_idle _ _ (by decide) (by decide) (by decide) (by decide) (by decide)]
    rfl
  rw [this]; decide

/-- a call event while a call is executing is a script error -/
example : isCallEv .run = some .run ∧ World.s2.task ≠ .none := by decide

/-- a script in which `authorize()` is refused before anything is written (the AUTH request cannot be encoded): the
    transcript has the shape required by `connect_returns_only_for_a_cause` -/
example :
    World.run {} [.setup, .authorize { reason := some 24 }] =
      [.ev .setup, .ev (.authorize { reason := some 24 })] ++ .ret .authorize (.err .codecError) :: [] := by decide

/-- a script in which the transport refuses the CONNECT: `connect()` returns `SocketClosed` -/
example :
    (World.run { wlimit := some 3 } [.setup, .connect {}]).drop 2 =
      [.ret .connect (.err .socketClosed), .wraw [16, 13, 0]] := by decide

/-- the causes are inhabited: in the world `wBye` of Lemmas/WorldEx.lean (the user's DISCONNECT at the head of the
    queue) the iteration ends `run()` with `Ok` for the cause "user DISCONNECT written" -/
example : EndCause Ex.wBye (Ex.wBye.runLoop 3) .ok :=
  .userDisconnect [0xE0, 0] 4 _ rfl (by decide) (by decide) (by decide)
    (user_disconnect_returns_ok 2 Ex.wBye [0xE0, 0] 4 _ rfl (by decide) (by decide) (by decide))

/-- … and a CONNACK with reason 0 waiting at the transport makes `connect()` return it -/
example : FirstCause (Ex.wConn Ex.connackOk) (.connack Ex.kOk) :=
  .connack {} [] Ex.connackOk Ex.kOk Ex.pn_connackOk Ex.dec_connackOk (by decide) (by decide)

/-- … a CONNACK with reason 0x87 makes it return `ConnectError` -/
example : FirstCause (Ex.wConn Ex.connackRefused) (.connectError Ex.kRefused) :=
  .refused {} [] Ex.connackRefused Ex.kRefused Ex.pn_connackRefused Ex.dec_connackRefused (by decide)

end NonVacuity

#print axioms ret_logged_only_by_context_poll
#print axioms call_event_refused_while_call_in_flight
#print axioms returns_bounded_by_calls
#print axioms each_call_returns_at_most_once
#print axioms ret_comes_from_a_context_poll
#print axioms run_returns_only_for_a_cause
#print axioms run_result_causes
#print axioms run_pending_only_without_cause
#print axioms nothing_written_after_return
#print axioms nothing_written_after_user_disconnect
#print axioms connect_returns_only_for_a_cause
#print axioms connect_result_causes

end Poster
