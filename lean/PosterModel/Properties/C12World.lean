/-
  Properties/C12World.lean — C12 for whole executions of the client: the server's Maximum Packet Size is honoured exactly.

  C12: "For every Maximum Packet Size M announced in CONNACK and every publish, subscribe, unsubscribe, ping or disconnect
  request whose encoded packet is L bytes long: if L > M the operation fails with MaximumPacketSizeExceeded, not one byte
  of it is written, and no quota slot, stream registration or pending acknowledgement is left behind; if L <= M, or no M
  was announced, the packet is written in full (QoS>0 publishes remaining subject to the send quota)."

  Properties/C12.lean proves the facts about `handle_message` / `handle_connack` alone. This file states them for the
  whole-client machine `World` (PosterModel/World.lean) and for whole scripts.

  Vocabulary (Lemmas/WorldIds.lean, Lemmas/WorldIdsMax.lean)
    `TooBig c pkt`            a Maximum Packet Size `M` is in force in the context state `c` (`c.maxPkt = some M`) and
                              `pkt` is longer than `M`
    `refusalEffs m`           what a refused request causes: `MaximumPacketSizeExceeded` is sent to the oneshot of the
                              request's future; for a SUBSCRIBE the sender of its (not yet registered) stream is dropped
    `QuotaRefused c m`        `m` is a QoS>0 PUBLISH and the send quota is exhausted (property C10)
    `World.W10.headStep w m q`  the world and the flow after the loop of `run()` has popped the message `m` from the head of
                              the queue (rest `q`) and `handle_message` has run on it: this IS the message branch of
                              one iteration of the loop (`World.W10.runIter_msg`)
    `World.sent w`            all bytes handed to the transport so far
    `World.W10.announcedMax out`  the limit the transcript `out` tells: the Maximum Packet Size of the last logged CONNACK
                              that carried one (`RET connect/authorize` with a CONNACK, accepted or refused), `none`
                              if there was none or the context was dropped since
    `World.W10.subidPanic`    the line `PANIC ctx assert-subid`: the CONNACK that made `connect()` panic was handled but is
                              not in the transcript, so after it the transcript no longer tells the limit
    `World.W7.During cfg w`   `w` is a moment of some execution under `cfg`; `World.W7.InPoll w started wm`: `wm` is the
                              world at the start of an iteration of the poll of `run()` that starts in `w`
    `World.W10.RefusedAt wm s`  the iteration starting in `wm` refuses the request at the head of the queue, whose oneshot
                              is `s`, for its size
-/
import PosterModel.Lemmas.WorldIdsMax
import PosterModel.Lemmas.WorldIdsErr
import PosterModel.Lemmas.WorldIdsEx
import PosterModel.Lemmas.WorldStreamStep
import PosterModel.Lemmas.WorldWire
import PosterModel.Properties.C01
import PosterModel.Properties.C06World

set_option linter.unusedVariables false
set_option linter.unusedSimpArgs false

namespace Poster
open Framing World World.W7 World.W10

/-! ## 1. the refusal is exact (`handle_message`) -/

/-- **A request is refused with `MaximumPacketSizeExceeded` iff a limit `M` is in force and its packet is longer than
    `M`.** For every context state, every request message and whatever the transport would do with a write: the handler
    tells somebody `MaximumPacketSizeExceeded` iff `c.maxPkt = some M` with `M < pkt.length`; and then it returns the
    context unchanged (send quota, pending acknowledgements, subscription table, retransmit queue, inbound QoS 2 state:
    all as before), its effects are exactly `refusalEffs m` — the error on the caller's oneshot, plus, for a SUBSCRIBE, the
    drop of the stream sender the message carried — and `run()` goes on. A packet of exactly `M` bytes is not refused. -/
theorem refused_iff_too_big (c : Ctx) (m : Msg) (wok : Bool) :
    ((∃ s, (s, SlotVal.errSize) ∈ sendsOf (c.handleMsg m wok).2.1) ↔ ∃ M, c.maxPkt = some M ∧ M < m.pkt.length) ∧
    ((∃ M, c.maxPkt = some M ∧ M < m.pkt.length) → c.handleMsg m wok = (c, refusalEffs m, .cont)) ∧
    (∀ M, c.maxPkt = some M → m.pkt.length = M → ∀ s, (s, SlotVal.errSize) ∉ sendsOf (c.handleMsg m wok).2.1) :=
  ⟨handleMsg_errSize_iff c m wok, handleMsg_tooBig c m wok,
    fun M hM hL => handleMsg_fits_no_errSize c m wok (by rintro ⟨M', e, h⟩; rw [hM] at e; cases e; omega)⟩

/-- the effects of a refusal, spelled out -/
theorem refusal_effects (pkt : Bytes) (aid sid s ch : Nat) :
    refusalEffs (.ff pkt s) = [.send s .errSize] ∧ refusalEffs (.awaitAck aid pkt s) = [.send s .errSize] ∧
    refusalEffs (.subscribe aid sid pkt s ch) = [.send s .errSize, .dropChan ch] := ⟨rfl, rfl, rfl⟩

/-! ## 2. in the world: one iteration of the loop of `run()` on a queued request -/

/-- the message branch of an iteration of the loop is `headStep`: the loop goes on with `(headStep w m q).1` if the
    handler says so, and otherwise `run()` returns from that world -/
theorem loop_iteration_on_a_request (w : World) (m : Msg) (q : List Msg) (hq : w.queue = m :: q) :
    ((headStep w m q).2 = .cont → RunCont w (headStep w m q).1) ∧
    ((headStep w m q).2 ≠ .cont → RunEnd w ((headStep w m q).1.finish .run (flowRet (headStep w m q).2))) :=
  ⟨headStep_runCont w m q hq, headStep_runEnd w m q hq⟩

/-- **Too big: refused without a trace, in any world.** When the loop of `run()` takes a request whose packet exceeds the
    limit in force from the queue — in any world, whatever the transport limit —: the loop goes on; the context afterwards
    is the context before (no quota slot taken, no pending acknowledgement, no stream registration, nothing kept for
    retransmission); NOT ONE BYTE is handed to the transport (`sent` and the transport's byte counter are unchanged) and
    nothing is logged; the message is gone from the queue; the operation table is untouched; the oneshot of the request,
    if its receiver is still waiting, now holds `MaximumPacketSizeExceeded`, and no other oneshot changes. -/
theorem too_big_request_in_world (w : World) (m : Msg) (q : List Msg) (M : Nat) (hM : w.c.maxPkt = some M)
    (hL : M < m.pkt.length) :
    (headStep w m q).2 = .cont ∧ (headStep w m q).1.c = w.c ∧ (headStep w m q).1.sent = w.sent ∧
    (headStep w m q).1.written = w.written ∧ (headStep w m q).1.out = w.out ∧ (headStep w m q).1.queue = q ∧
    (headStep w m q).1.ops = w.ops ∧
    (w.slot m.slot = some .empty → (headStep w m q).1.slot m.slot = some (.full .errSize)) ∧
    (∀ s, s ≠ m.slot → (headStep w m q).1.slot s = w.slot s) := by
  obtain ⟨e, a1, a2, a3, a4, a5, a6, a7, a8⟩ := headStep_tooBig w m q ⟨M, hM, hL⟩
  exact ⟨by rw [e], a1, a2, a4, a3, a5, a6, a7, a8⟩

/-- … and the stream of a refused SUBSCRIBE ends: the sender the message carried is dropped (the channel, if it still
    exists, has no sender afterwards) -/
theorem too_big_subscribe_drops_stream_sender (w : World) (aid sid : Nat) (pkt : Bytes) (s ch : Nat) (q : List Msg)
    (h : TooBig w.c pkt) :
    (headStep w (.subscribe aid sid pkt s ch) q).1 =
      ((({ w with queue := q } : World).sendSlot s .errSize).dropChanTx ch) := by
  rw [(headStep_tooBig w (.subscribe aid sid pkt s ch) q h).1]
  rfl

/-- **Fits: handed to the transport whole, in any world.** When the loop of `run()` takes from the queue a request whose
    packet passes the size check (no limit in force, or `pkt.length ≤ M`): either it is a QoS>0 PUBLISH that finds the
    send quota exhausted — then it is refused with `QuotaExceeded`, context and transport untouched (C10) —, or its
    packet is handed to the transport: if the transport can take `pkt.length` more bytes, exactly the bytes of the packet
    are appended to what the transport was handed before, and `run()` does not end with a socket error; if the transport's
    write limit is hit, a proper prefix of the packet is handed over and `run()` ends with `SocketClosed`. -/
theorem fitting_request_in_world (w : World) (m : Msg) (q : List Msg)
    (h : w.c.maxPkt = none ∨ ∃ M, w.c.maxPkt = some M ∧ m.pkt.length ≤ M) :
    (QuotaRefused w.c m ∧ (headStep w m q).1.c = w.c ∧ (headStep w m q).1.sent = w.sent ∧
      (headStep w m q).2 = .cont) ∨
    (¬ QuotaRefused w.c m ∧
      (w.canWrite m.pkt.length = true →
        (headStep w m q).1.sent = w.sent ++ m.pkt ∧ (headStep w m q).2 ≠ .exitSocket) ∧
      (w.canWrite m.pkt.length = false →
        (∃ k, (m.pkt ≠ [] → k < m.pkt.length) ∧ (headStep w m q).1.sent = w.sent ++ m.pkt.take k) ∧
        (headStep w m q).2 = .exitSocket)) := by
  apply headStep_fits
  rintro ⟨M, e, hl⟩
  rcases h with h | ⟨M', h, hle⟩
  · rw [h] at e; cases e
  · rw [h] at e; cases e; omega

/-- on a transport without a write limit every fitting request other than a quota-refused PUBLISH is written in full -/
theorem fitting_request_written_whole (w : World) (m : Msg) (q : List Msg) (hl : w.cfg.wlimit = none)
    (h : ¬ TooBig w.c m.pkt) (hq : ¬ QuotaRefused w.c m) : (headStep w m q).1.sent = w.sent ++ m.pkt := by
  rcases headStep_fits w m q h with ⟨h1, _⟩ | ⟨_, h2, _⟩
  · exact absurd h1 hq
  · exact (h2 (canWrite_unlimited w hl _)).1

/-! ## 3. the operation fails with `MaximumPacketSizeExceeded` and leaves the table -/

/-- **The future of a refused request.** In a world with a well-formed operation table (every reachable world,
    `opsInv_reachable`): a handle future that waits on the oneshot `s` — for whatever acknowledgement — and finds
    `MaximumPacketSizeExceeded` in it, when polled, logs exactly `DONE id MaximumPacketSizeExceeded`, leaves the operation
    table for good, consumes its oneshot, queues nothing, allocates no identifier, and touches neither the context nor the
    transport. -/
theorem refused_request_future (w : World) (hi : OpsInv w) (id s : Nat) (k : Wait)
    (hop : w.opSt id = some (.wait s k)) (hs : w.slot s = some (.full .errSize)) :
    (w.pollOp id).out = w.out ++ [.done id (.err .maximumPacketSizeExceeded)] ∧
    (w.pollOp id).opSt id = none ∧ (w.pollOp id).queue = w.queue ∧ (w.pollOp id).c = w.c ∧
    (w.pollOp id).sent = w.sent ∧ (w.pollOp id).pidCtr = w.pidCtr := by
  obtain ⟨e, a1, a2, a3, a4, a5, a6⟩ := pollOp_errSize w id s k hop hs
  refine ⟨a1, ?_, a3, a4, a5, a6⟩
  show lookupFirst id (w.pollOp id).ops = none
  rw [a2]
  exact User.lookupFirst_eraseFirst_self id w.ops hi.nodup

/-! ## 4. `L` is the length of the encoded request -/

/-- `packet_len()` is the number of bytes of the encoding, for every request (C01 `*_packetLen`) -/
theorem reqBytes_length (r : Req) : r.bytes.length = reqPacketLen r := by
  cases r with
  | publish t => exact (publish_packetLen t).symm
  | subscribe t => exact (subscribe_packetLen t).symm
  | unsubscribe t => exact (unsubscribe_packetLen t).symm
  | ping => rfl
  | disconnect t => exact (disconnect_packetLen t).symm

/-- **From the caller's request to the refusal.** When a handle future is first polled in a world `w` whose context is
    alive and the request — completed with the identifiers the library assigns (`w.completeReq req`) — has its mandatory
    parts: exactly one message is queued, carrying the oneshot `2 * id` and the encoding of the completed request, whose
    length is `L = reqPacketLen (w.completeReq req)` (the library's `packet_len()`); and whenever `run()` later handles that
    message in a context state `c`, it is refused with `MaximumPacketSizeExceeded` iff `c.maxPkt = some M` with `M < L`
    — then with exactly the refusal effects and the context unchanged — and otherwise nobody is told
    `MaximumPacketSizeExceeded`. -/
theorem request_refused_iff_longer_than_limit (w : World) (id : Nat) (req : Req) (hc : w.hasCtx = true)
    (hv : (w.completeReq req).accepted = true) :
    ∃ m : Msg, (w.startOp id req).queue = w.queue ++ [m] ∧ m.slot = 2 * id ∧ m.pkt = (w.completeReq req).bytes ∧
      m.pkt.length = reqPacketLen (w.completeReq req) ∧
      ∀ (c : Ctx) (wok : Bool),
        ((∃ s, (s, SlotVal.errSize) ∈ sendsOf (c.handleMsg m wok).2.1) ↔
          ∃ M, c.maxPkt = some M ∧ M < reqPacketLen (w.completeReq req)) ∧
        ((∃ M, c.maxPkt = some M ∧ M < reqPacketLen (w.completeReq req)) →
          c.handleMsg m wok = (c, refusalEffs m, .cont)) := by
  obtain ⟨m, h1, h2, h3⟩ := startOp_queues w id req hc hv
  have hl : m.pkt.length = reqPacketLen (w.completeReq req) := by rw [h2]; exact reqBytes_length _
  refine ⟨m, h1, h3, h2, hl, fun c wok => ?_⟩
  rw [← hl]
  exact ⟨handleMsg_errSize_iff c m wok, handleMsg_tooBig c m wok⟩

/-! ## 5. whole scripts: every handler call, and where `M` comes from -/

/-- **Every handler call of every script refuses exactly the requests that are too big.** For every configuration and
    every script, the execution is a sequence of moves (`STrace`, Lemmas/WorldStream.lean) whose `ctx (handler c i)` labels
    record every call of `handle_message` / `handle_packet` with the context state `c` it was called in; for every such
    call on a request message `m`: `MaximumPacketSizeExceeded` is among the values it sends iff `TooBig c m.pkt`; in that
    case the context state after the call is `c` and the effects are exactly `refusalEffs m` (nothing written); otherwise
    the call writes nothing (quota refusal) or exactly `m.pkt`. -/
theorem every_handler_call_refuses_exactly_the_too_big (cfg : Cfg) (evs : List Ev) :
    ∃ tr, STrace { cfg := cfg } tr (evs.foldl World.step { cfg := cfg }) ∧
      ∀ c m wok, SLab.ctx (.handler c (.msg m wok)) ∈ tr →
        ((∃ s, (s, SlotVal.errSize) ∈ sendsOf (CtxSrc.handler c (.msg m wok)).effs) ↔ TooBig c m.pkt) ∧
        (TooBig c m.pkt → (CtxSrc.handler c (.msg m wok)).after = c ∧
          (CtxSrc.handler c (.msg m wok)).effs = refusalEffs m) ∧
        (¬ TooBig c m.pkt → writesOf (CtxSrc.handler c (.msg m wok)).effs = [] ∨
          writesOf (CtxSrc.handler c (.msg m wok)).effs = [m.pkt]) := by
  obtain ⟨tr, st, _⟩ := steps_dec evs { cfg := cfg } (OpsInv.init cfg)
  refine ⟨tr, st, fun c m wok _ => ⟨handleMsg_errSize_iff c m wok, fun h => ?_, fun _ => handleMsg_writes c m wok⟩⟩
  have := handleMsg_tooBig c m wok h
  exact ⟨by simp [CtxSrc.after, Ctx.stepIn, this], by simp [CtxSrc.effs, Ctx.stepIn, CObs.effs, this]⟩

/-- **Where `M` comes from: the most recent CONNACK that carried a Maximum Packet Size.** At every moment `w` of every
    execution whose transcript so far has no `assert-subid` panic: the limit in force, `w.c.maxPkt`
    (`remote_max_packet_size`), is `announcedMax w.out` — the Maximum Packet Size of the last CONNACK logged (as the
    result of `connect()` / `authorize()`, accepted or refused with a reason ≥ 0x80) that carried one; `none` if no CONNACK
    carried one since the context was created, or the context was dropped. A CONNACK WITHOUT the property means NO limit
    for that connection, whatever an earlier connection of the same context announced (`handle_connack` assigns the
    CONNACK's value unconditionally since the repair `fix: a CONNACK without Maximum Packet Size lifts the limit`). Nothing else enters: `announcedMax` does not look at the client's own CONNECT
    options (the `connect` event), at any request, or at any other inbound packet. Also: a call is executing only on an
    existing context, and without a context no limit is in force. -/
theorem limit_in_force_is_last_announced (cfg : Cfg) (w : World) (hd : During cfg w) :
    (subidPanic ∉ w.out → w.c.maxPkt = announcedMax w.out) ∧ (w.task ≠ .none → w.hasCtx = true) ∧
    (w.hasCtx = false → w.c.maxPkt = none) :=
  ⟨(during_maxInv hd).max, (during_maxInv hd).hasCtx, (during_maxInv hd).noCtx⟩

/-- the same for the world a script ends in, in terms of the transcript `World.run cfg evs` -/
theorem limit_in_force_is_last_announced_script (cfg : Cfg) (evs : List Ev) (hp : subidPanic ∉ World.run cfg evs) :
    (evs.foldl World.step { cfg := cfg }).c.maxPkt = announcedMax (World.run cfg evs) := by
  have hd := (during_script cfg evs).1
  rw [(during_script cfg evs).2] at hp ⊢
  rw [← (during_maxInv hd).max hp]
  show _ = (evs.foldl World.step { cfg := cfg }).flushRaw.c.maxPkt
  rw [flushRaw_c]

/-- how the transcript's limit is computed, line by line -/
theorem announcedMax_snoc (out : List Obs) (o : Obs) : announcedMax (out ++ [o]) = maxStep (announcedMax out) o := by
  simp [announcedMax, List.foldl_append]

/-- a CONNACK sets the limit to what it announces (nothing announced = no limit), the client's CONNECT leaves it alone,
    dropping the context forgets it -/
theorem announcedMax_lines (out : List Obs) (call : Call) (k : ConnackRx) (t : ConnectTx) :
    announcedMax (out ++ [.ret call (.connack k)]) = k.maxPacketSize ∧
    announcedMax (out ++ [.ret call (.connectError k)]) = k.maxPacketSize ∧
    announcedMax (out ++ [.ev (.connect t)]) = announcedMax out ∧
    announcedMax (out ++ [.ev .dropCtx]) = none := by
  simp only [announcedMax_snoc]
  exact ⟨rfl, rfl, rfl, rfl⟩

/-- **What the client announces in CONNECT never becomes the limit for its own packets**: the `connect` event and the
    first poll of `connect()` up to the point where the response is awaited (the session expiry is recorded, the CONNECT is
    written) leave `remote_max_packet_size` alone, whatever `t.maxPacketSize` is. -/
theorem connect_options_do_not_set_the_limit (w : World) (t : ConnectTx) (a : AuthTx) :
    (w.apply (.connect t)).c.maxPkt = w.c.maxPkt ∧
    (({ w with c := { w.c with sei := t.sessionExpiry.getD 0 } } : World).writeBytes t.encode).c.maxPkt = w.c.maxPkt := by
  refine ⟨?_, by simp⟩
  simp only [World.apply]
  split
  · rfl
  · simp

/-- **Serving and session resumption never change the limit**: a poll of `run()` — first (session resumed or reset,
    unfinished handshakes re-sent) or later — leaves `remote_max_packet_size` as it was. -/
theorem run_keeps_the_limit (w : World) (s : Bool) : (w.pollRun s).c.maxPkt = w.c.maxPkt := pollRun_maxPkt w s

/-! ## 6. the `DONE` line and its cause -/

/-- **`DONE id MaximumPacketSizeExceeded` ⇒ the future found that value in its oneshot.** If the transcript of a script is
    `pre ++ DONE id MaximumPacketSizeExceeded :: post`, there was a moment `w0` of the execution, with transcript `pre`,
    at which the future of `id` was waiting on a oneshot `s` that held `MaximumPacketSizeExceeded`; the poll of the future
    from `w0` logged exactly this line, and the end of the script is reached from there. -/
theorem size_error_reported_only_from_oneshot (cfg : Cfg) (evs : List Ev) (pre post : List Obs) (id : Nat)
    (h : World.run cfg evs = pre ++ .done id (.err .maximumPacketSizeExceeded) :: post) :
    ∃ w0 s k, During cfg w0 ∧ w0.out = pre ∧ w0.opSt id = some (.wait s k) ∧ w0.slot s = some (.full .errSize) ∧
      (w0.pollOp id).out = pre ++ [.done id (.err .maximumPacketSizeExceeded)] ∧
      Reaches (w0.pollOp id) (evs.foldl World.step { cfg := cfg }).finishScript := by
  obtain ⟨w0, hd, ho, hp, hr, hc⟩ := done_has_a_documented_cause cfg evs pre post id _ h
  rcases hc with ⟨hh, req, _, h1 | ⟨h1, _⟩⟩ | ⟨s, k, hop, ⟨_, h1⟩ | ⟨v, hs, _, hres⟩⟩
  · cases h1
  · cases h1
  · cases h1
  · refine ⟨w0, s, k, hd, ho, hop, ?_, hp, hr⟩
    generalize w0.hasCtx = b0 at hres
    cases hres with
    | tooLarge k b => exact hs

/-- **A poll of the context task puts `MaximumPacketSizeExceeded` into a oneshot only by refusing a request for its
    size.** In any world: if after a poll of the context task the oneshot `s` holds `MaximumPacketSizeExceeded` and did
    not before, then `run()` was executing and an iteration of that poll (starting in the world `wm`) found at the head of
    the queue a request carrying the oneshot `s` whose packet was longer than the limit in force in `wm`. -/
theorem size_error_sent_only_by_refusal (w : World) (s : Nat)
    (h1 : w.pollCtx.slot s = some (.full .errSize)) (h0 : w.slot s ≠ some (.full .errSize)) :
    ∃ started wm m q M, w.task = .running started ∧ InPoll w started wm ∧ wm.queue = m :: q ∧ m.slot = s ∧
      wm.c.maxPkt = some M ∧ M < m.pkt.length := by
  obtain ⟨started, wm, ht, hin, m, q, hq, hs, M, hM, hL⟩ := pollCtx_errSize w s ⟨h1, h0⟩
  exact ⟨started, wm, m, q, M, ht, hin, hq, hs, hM, hL⟩

/-- **`DONE id MaximumPacketSizeExceeded` ⇒ a request was refused for its size** (script level, end to end). If the
    transcript of a script is `pre ++ DONE id MaximumPacketSizeExceeded :: post`: at the moment `w1` the line was logged
    (transcript `pre`) the future of `id` was waiting on a oneshot `s` holding `MaximumPacketSizeExceeded`; and that value
    was put there at an earlier moment `w0` of the same execution, at which `run()` was executing: in the poll of the
    context task from `w0`, the iteration starting in `wm` found at the head of the queue a request `m` carrying the oneshot
    `s` whose packet was longer than the limit `M` in force in `wm` — the refusal of `too_big_request_in_world`. Nothing
    else (no handle future, no stream, no script event, no other handler) ever puts this value into a oneshot. -/
theorem size_error_stems_from_a_refusal (cfg : Cfg) (evs : List Ev) (pre post : List Obs) (id : Nat)
    (h : World.run cfg evs = pre ++ .done id (.err .maximumPacketSizeExceeded) :: post) :
    ∃ w1 s k w0 started wm m q M, During cfg w1 ∧ w1.out = pre ∧ w1.opSt id = some (.wait s k) ∧
      w1.slot s = some (.full .errSize) ∧
      During cfg w0 ∧ w0.task = .running started ∧ InPoll w0 started wm ∧ wm.queue = m :: q ∧ m.slot = s ∧
      wm.c.maxPkt = some M ∧ M < m.pkt.length ∧ Reaches w0.pollCtx w1 := by
  obtain ⟨w1, s, k, hd1, ho, hop, hs, _, _⟩ := size_error_reported_only_from_oneshot cfg evs pre post id h
  obtain ⟨w0, st, wm, hd0, ht, hin, ⟨m, q, hq, hms, M, hM, hL⟩, hr⟩ := during_errSize_origin hd1 s (errIn_of_slot hs)
  exact ⟨w1, s, k, w0, st, wm, m, q, M, hd1, ho, hop, hs, hd0, ht, hin, hq, hms, hM, hL, hr⟩

/-- **Refusal ⇒ `DONE`.** The converse, step by step: the iteration refuses (`too_big_request_in_world`: the waiting
    future's oneshot receives the value), and the future's next poll reports it (`refused_request_future`). Combined for a
    world in which the operation `id` waits on the oneshot of the message at the head of the queue: after the iteration
    and one poll of the future, the transcript has grown by exactly `DONE id MaximumPacketSizeExceeded`, the operation
    is gone, nothing was handed to the transport and the context is as before. -/
theorem refusal_then_done (w : World) (hi : OpsInv w) (m : Msg) (q : List Msg) (id : Nat) (k : Wait)
    (h : TooBig w.c m.pkt) (hop : w.opSt id = some (.wait m.slot k)) (hs : w.slot m.slot = some .empty) :
    let w1 := (headStep w m q).1
    (w1.pollOp id).out = w.out ++ [.done id (.err .maximumPacketSizeExceeded)] ∧ (w1.pollOp id).opSt id = none ∧
    (w1.pollOp id).sent = w.sent ∧ (w1.pollOp id).c = w.c := by
  obtain ⟨e, a1, a2, a3, a4, a5, a6, a7, a8⟩ := headStep_tooBig w m q h
  have hi1 : OpsInv (headStep w m q).1 := by
    refine ⟨by rw [a6]; exact hi.nodup, fun id' s' k' hm => ?_, by rw [e]; simpa using hi.pid⟩
    rw [a6] at hm
    obtain ⟨h1, h2⟩ := hi.shape id' s' k' hm
    refine ⟨h1, ?_⟩
    by_cases hs' : s' = m.slot
    · rw [hs', a7 hs]; rfl
    · rw [a8 s' hs']; exact h2
  have hop1 : (headStep w m q).1.opSt id = some (.wait m.slot k) := by
    show lookupFirst id (headStep w m q).1.ops = _
    rw [a6]; exact hop
  obtain ⟨b1, b2, b3, b4, b5, b6⟩ := refused_request_future _ hi1 id m.slot k hop1 (a7 hs)
  exact ⟨by rw [b1, a3], b2, by rw [b5, a2], by rw [b4, a1]⟩

/-! ## 7. non-vacuity -/

section NonVacuity
namespace C12Ex

/-- the hypotheses of `too_big_request_in_world` / `refusal_then_done` hold for it, and the conclusions are what one
    computes: nothing written, `DONE 1 MaximumPacketSizeExceeded` -/
example : wBig.c.maxPkt = some 4 ∧ 4 < (Msg.ff [0xC0, 3, 0, 0, 0] 2).pkt.length ∧ wBig.slot 2 = some .empty ∧
    wBig.opSt 1 = some (.wait 2 .ff) ∧
    (headStep wBig (.ff [0xC0, 3, 0, 0, 0] 2) []).1.slot 2 = some (.full .errSize) ∧
    (headStep wBig (.ff [0xC0, 3, 0, 0, 0] 2) []).1.sent = [] ∧
    (((headStep wBig (.ff [0xC0, 3, 0, 0, 0] 2) []).1).pollOp 1).out = [.done 1 (.err .maximumPacketSizeExceeded)] := by
  decide

example : OpsInv wBig := by
  refine ⟨by decide, ?_, ⟨by decide, by decide⟩⟩
  intro id s k h
  simp only [wBig, List.mem_cons, Prod.mk.injEq, OpSt.wait.injEq, List.not_mem_nil, or_false] at h
  obtain ⟨rfl, rfl, rfl⟩ := h
  exact ⟨Or.inl ⟨rfl, by decide⟩, rfl⟩

/-- a 4-byte packet under the same limit fits (`M` itself is allowed) and is written whole -/
example : ¬ TooBig wBig.c [0xC0, 2, 0, 0] ∧
    (headStep { wBig with queue := [.ff [0xC0, 2, 0, 0] 2] } (.ff [0xC0, 2, 0, 0] 2) []).1.sent = [0xC0, 2, 0, 0] := by
  decide

/-- `connect()` awaiting its first response reads that CONNACK: the poll returns it, logs it, and the limit in force
    becomes 4 — the transcript's `announcedMax` agrees -/
example : (Ex.wConn connackMax4).pollCtx.c.maxPkt = some 4 ∧
    (Ex.wConn connackMax4).pollCtx.out = [.ret .connect (.connack kMax4)] ∧
    announcedMax (Ex.wConn connackMax4).pollCtx.out = some 4 := by
  have e : (Ex.wConn connackMax4).pollCtx =
      ({ Ex.wConn connackMax4 with rx := {}, reader := [], c := ({} : Ctx).handleConnack kMax4 } : World).finish
        .connect (.connack kMax4) := by
    simp [World.pollCtx, Ex.wConn, World.pollConnect, World.awaitFirst, pn_connackMax4, dec_connackMax4, kMax4]
  rw [e]
  decide

set_option maxRecDepth 100000 in
/-- `scrNoLimit` (Lemmas/WorldIdsEx.lean): a script without inbound traffic — a QoS 1 publish and a DISCONNECT issued before
    `run()`; no limit is ever announced, no `assert-subid` panic, both packets are written whole -/
example : subidPanic ∉ World.run {} scrNoLimit ∧ announcedMax (World.run {} scrNoLimit) = none ∧
    (scrNoLimit.foldl World.step {}).c.maxPkt = none ∧
    wires (World.run {} scrNoLimit) = [[0x32, 9, 0, 1, 0x61, 0, 1, 0, 1, 2, 3], [0xE0, 2, 0, 0]] := by
  decide

/-- **a whole script** (evaluated stage by stage in Lemmas/WorldIdsEx.lean): `setup`, `connect`, the broker's CONNACK
    announcing Maximum Packet Size 4, `run`, then a QoS 1 publish whose PUBLISH packet is 11 bytes long. Its transcript
    contains `DONE 1 MaximumPacketSizeExceeded` (hypothesis of `size_error_stems_from_a_refusal` and
    `size_error_reported_only_from_oneshot`), no `assert-subid` panic, the limit in force at the end is 4 = what the
    transcript tells, and the only packet on the wire is the CONNECT: not one byte of the PUBLISH was written. The packet
    identifier 1 was consumed all the same. -/
example :
    (∃ pre post, World.run {} scrBig = pre ++ .done 1 (.err .maximumPacketSizeExceeded) :: post) ∧
    subidPanic ∉ World.run {} scrBig ∧ announcedMax (World.run {} scrBig) = some 4 ∧
    (scrBig.foldl World.step {}).c.maxPkt = some 4 ∧ wires (World.run {} scrBig) = [connectBytes] ∧
    (scrBig.foldl World.step {}).pidCtr = 2 ∧ (scrBig.foldl World.step {}).queue = [] ∧
    (scrBig.foldl World.step {}).c.awaiting = [] := by
  rw [scrBig_run, scrBig_foldl]
  refine ⟨⟨l4.out ++ [.ev (.op 1 0 pubBig)], [], ?_⟩, ?_⟩
  · show l4.out ++ [.ev (.op 1 0 pubBig), .done 1 (.err .maximumPacketSizeExceeded)] = _
    simp
  · decide

/-- the transcript's limit follows the CONNACKs: set by one that carries the property, lifted by one that does not -/
example :
    announcedMax [.ret .connect (.connack { sessionPresent := false, reason := 0, maxPacketSize := some 4 }),
      .ret .connect (.connack { sessionPresent := false, reason := 0 })] = none ∧
    announcedMax [.ret .connect (.connack { sessionPresent := false, reason := 0, maxPacketSize := some 4 })] = some 4 ∧
    announcedMax [.ret .connect (.connack { sessionPresent := false, reason := 0, maxPacketSize := some 4 }),
      .ev .dropCtx] = none := by decide

end C12Ex
end NonVacuity

#print axioms refused_iff_too_big
#print axioms refusal_effects
#print axioms loop_iteration_on_a_request
#print axioms too_big_request_in_world
#print axioms too_big_subscribe_drops_stream_sender
#print axioms fitting_request_in_world
#print axioms fitting_request_written_whole
#print axioms refused_request_future
#print axioms reqBytes_length
#print axioms request_refused_iff_longer_than_limit
#print axioms every_handler_call_refuses_exactly_the_too_big
#print axioms limit_in_force_is_last_announced
#print axioms limit_in_force_is_last_announced_script
#print axioms announcedMax_snoc
#print axioms announcedMax_lines
#print axioms connect_options_do_not_set_the_limit
#print axioms run_keeps_the_limit
#print axioms size_error_reported_only_from_oneshot
#print axioms size_error_sent_only_by_refusal
#print axioms size_error_stems_from_a_refusal
#print axioms refusal_then_done

end Poster
