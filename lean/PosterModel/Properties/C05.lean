/-
  Properties/C05.lean — C05: each operation completes exactly once, with the acknowledgement addressed to it.

  The context keeps `awaiting : List (action id × oneshot)`; a handle method registers its oneshot under
  `actionId kind pid` when its packet is written (`handleMsg`) and an inbound acknowledgement completes the FIRST
  entry registered under the action identifier computed from its own type and packet identifier (`handlePkt`,
  `rxActionId`). On the user side the suspended future (`World.pollOp` / `resumeOp`) turns the value found in its
  oneshot into the result of the call and disappears.
-/
import PosterModel.Lemmas.UserCtx

namespace Poster
open World User

/-! ## action identifiers and the waiter list -/

/-- An action identifier determines the packet type and the packet identifier it was built from: acknowledgements
    of different types, or with different identifiers, never address the same waiter. -/
theorem actionId_injective (k k' p p' : Nat) (_hk : k < 256) (_hk' : k' < 256) (hp : p < 65536) (hp' : p' < 65536) :
    actionId k p = actionId k' p' → k = k' ∧ p = p' := by
  unfold actionId; omega

/-- `removeFirst k l` finds and removes the FIRST entry with key `k`, keeping every other entry in order;
    it fails exactly when no entry has that key. -/
theorem removeFirst_spec {β} (k : Nat) (l : List (Nat × β)) :
    (∀ v l', removeFirst k l = some (v, l') ↔
      ∃ pre post, l = pre ++ (k, v) :: post ∧ k ∉ pre.map (·.1) ∧ l' = pre ++ post) ∧
    (removeFirst k l = none ↔ k ∉ l.map (·.1)) :=
  ⟨fun v l' => removeFirst_some_iff k l l' v, removeFirst_none_iff k l⟩

/-- What handling one inbound packet does to the waiters: either nothing is completed and `awaiting` is unchanged
    (the packet is not an acknowledgement, or is a PUBREL, or nobody is registered under its action identifier),
    or the packet is an acknowledgement, the first waiter registered under its action identifier is removed and is
    sent exactly this packet, and nothing else is sent. -/
theorem ack_completion_cases (c : Ctx) (alive : Nat → Bool) (p : RxPacket) (wok : Bool) :
    (sendsOf (c.handlePkt alive p wok).2.1 = [] ∧ (c.handlePkt alive p wok).1.awaiting = c.awaiting ∧
      (rxActionId p = none ∨ (∃ a, p = .pubrel a) ∨
        ∃ aid, rxActionId p = some aid ∧ removeFirst aid c.awaiting = none)) ∨
    (∃ aid slot rest, rxActionId p = some aid ∧ removeFirst aid c.awaiting = some (slot, rest) ∧
      sendsOf (c.handlePkt alive p wok).2.1 = [(slot, .pkt p)] ∧ (c.handlePkt alive p wok).1.awaiting = rest) := by
  have key : ∀ (c1 : Ctx) (aid : Nat) (r : Ctx × List Eff × Flow), c1.awaiting = c.awaiting →
      rxActionId p = some aid → r = ((c1.complete aid p).1, (c1.complete aid p).2, Flow.cont) →
      (sendsOf r.2.1 = [] ∧ r.1.awaiting = c.awaiting ∧
        (rxActionId p = none ∨ (∃ a, p = .pubrel a) ∨
          ∃ aid, rxActionId p = some aid ∧ removeFirst aid c.awaiting = none)) ∨
      (∃ aid slot rest, rxActionId p = some aid ∧ removeFirst aid c.awaiting = some (slot, rest) ∧
        sendsOf r.2.1 = [(slot, .pkt p)] ∧ r.1.awaiting = rest) := by
    intro c1 aid r h1 h2 hr
    subst hr
    rcases complete_cases c1 aid p with ⟨hn, ha, he⟩ | ⟨slot, rest, hr, ha, he⟩
    · left; rw [h1] at hn
      refine ⟨by simp only [he]; rfl, by simp only [ha, h1], Or.inr (Or.inr ⟨aid, h2, hn⟩)⟩
    · right; rw [h1] at hr; exact ⟨aid, slot, rest, h2, hr, by simp only [he]; rfl, ha⟩
  cases p with
  | publish pb =>
    left
    simp only [Ctx.handlePkt]
    split <;> split <;> split <;> simp [(dispatch_sendsOf _ _ _ _).1, rxActionId]
  | puback a =>
    exact key { c.bump with retx := eraseFirst (actionId 4 a.packetId) c.retx } _ _ (by simp) rfl rfl
  | pubrec a =>
    exact key { (if a.reason ≥ 128 then c.bump else c) with
                retx := eraseFirst (actionId 5 a.packetId) (if a.reason ≥ 128 then c.bump else c).retx } _ _
      (by simp only []; split <;> simp) rfl rfl
  | pubcomp a =>
    exact key { c.bump with retx := eraseFirst (actionId 7 a.packetId) c.retx } _ _ (by simp) rfl rfl
  | suback a => exact key c _ _ rfl rfl rfl
  | unsuback a => exact key c _ _ rfl rfl rfl
  | pingresp => exact key c _ _ rfl rfl rfl
  | pubrel a => left; simp [Ctx.handlePkt]
  | connack k => left; simp [Ctx.handlePkt, rxActionId]
  | auth a => left; simp [Ctx.handlePkt, rxActionId]
  | disconnect d => left; simp [Ctx.handlePkt, rxActionId]

/-- **Only the acknowledgement addressed to an operation completes it.** Handling an inbound packet `p` sends at
    most one value; if it sends `v` to oneshot `slot`, then `v` is `p` itself, `p` is an acknowledgement whose
    action identifier `aid` (its type and packet identifier) is the key under which `slot` was registered, that
    entry is the first one registered under `aid`, and exactly that entry leaves `awaiting` (all others stay, in
    order). If nothing is sent, `awaiting` is unchanged: operations whose acknowledgement has not arrived stay
    registered. -/
theorem only_own_ack_completes (c : Ctx) (alive : Nat → Bool) (p : RxPacket) (wok : Bool) :
    (sendsOf (c.handlePkt alive p wok).2.1).length ≤ 1 ∧
    (sendsOf (c.handlePkt alive p wok).2.1 = [] → (c.handlePkt alive p wok).1.awaiting = c.awaiting) ∧
    ∀ slot v, (slot, v) ∈ sendsOf (c.handlePkt alive p wok).2.1 →
      v = .pkt p ∧ sendsOf (c.handlePkt alive p wok).2.1 = [(slot, v)] ∧
      ∃ aid pre post, rxActionId p = some aid ∧ c.awaiting = pre ++ (aid, slot) :: post ∧
        aid ∉ pre.map (·.1) ∧ (c.handlePkt alive p wok).1.awaiting = pre ++ post := by
  rcases ack_completion_cases c alive p wok with ⟨hs, ha, _⟩ | ⟨aid, slot, rest, hid, hr, hs, ha⟩
  · rw [hs]; exact ⟨by simp, fun _ => ha, by simp⟩
  · rw [hs]
    refine ⟨by simp, by simp, ?_⟩
    intro slot' v hm
    simp only [List.mem_singleton, Prod.mk.injEq] at hm
    obtain ⟨rfl, rfl⟩ := hm
    obtain ⟨pre, post, h1, h2, h3⟩ := (removeFirst_some_iff _ _ _ _).1 hr
    exact ⟨rfl, rfl, aid, pre, post, hid, h1, h2, by rw [ha, h3]⟩

/-- A message from a handle is answered, if at all, on its own oneshot and never with a packet: the only values
    `handle_message` sends are "written" (`unit`, only for a fire-and-forget message whose write succeeded),
    "too large" and "quota exceeded". -/
theorem msg_replies_only_to_its_own_slot (c : Ctx) (m : Msg) (wok : Bool) :
    ∀ slot v, (slot, v) ∈ sendsOf (c.handleMsg m wok).2.1 →
      slot = m.slot ∧ (v = .unit ∨ v = .errSize ∨ v = .errQuota) ∧
      (v = .unit → (∃ pkt s, m = .ff pkt s) ∧ wok = true ∧ writesOf (c.handleMsg m wok).2.1 = [m.pkt]) := by
  intro slot v
  cases m with
  | ff pkt s =>
    simp only [Ctx.handleMsg]
    split
    · intro h; simp at h; obtain ⟨rfl, rfl⟩ := h; simp [Msg.slot]
    · split
      · simp
      · next hw =>
        intro h; simp at h; obtain ⟨rfl, rfl⟩ := h
        simp [Msg.slot, Msg.pkt]; simpa using hw
  | awaitAck aid pkt s =>
    simp only [Ctx.handleMsg]
    split
    · intro h; simp at h; obtain ⟨rfl, rfl⟩ := h; simp [Msg.slot]
    · split
      · split
        · intro h; simp at h; obtain ⟨rfl, rfl⟩ := h; simp [Msg.slot]
        · split <;> simp
      · split <;> split <;> simp
  | subscribe aid sid pkt s ch =>
    simp only [Ctx.handleMsg]
    split
    · intro h; simp at h; obtain ⟨rfl, rfl⟩ := h; simp [Msg.slot]
    · simp

/-- the waiter list after a message: unchanged, or the message's own `(aid, slot)` appended at the end -/
theorem handleMsg_awaiting_cases (c : Ctx) (m : Msg) (wok : Bool) :
    (c.handleMsg m wok).1.awaiting = c.awaiting ∨
    ∃ aid, m.aid = some aid ∧ (c.handleMsg m wok).1.awaiting = c.awaiting ++ [(aid, m.slot)] := by
  cases m with
  | ff pkt s =>
    left; simp only [Ctx.handleMsg]
    split
    · rfl
    · split <;> rfl
  | awaitAck aid pkt s =>
    simp only [Ctx.handleMsg, Msg.aid, Msg.slot]
    split
    · left; rfl
    · split
      · split
        · left; rfl
        · split
          · left; rfl
          · right; exact ⟨aid, rfl, rfl⟩
      · split <;> split <;> first | (left; rfl) | (right; exact ⟨aid, rfl, rfl⟩)
  | subscribe aid sid pkt s ch =>
    simp only [Ctx.handleMsg, Msg.aid, Msg.slot]
    split
    · left; rfl
    · right; exact ⟨aid, rfl, rfl⟩

/-- **Registered when sent (acknowledged operations).** A message that expects an acknowledgement and is accepted
    (size within the broker's limit, send quota not exhausted if it is a PUBLISH, write succeeded) appends its
    `(aid, slot)` at the END of `awaiting` — waiters are kept in issue order. -/
theorem registered_on_send (c : Ctx) (aid : Nat) (pkt : Bytes) (slot : Nat)
    (hs : c.sizeOk pkt = true) (hq : pktType pkt = 3 → c.quota ≠ 0) :
    (c.handleMsg (.awaitAck aid pkt slot) true).1.awaiting = c.awaiting ++ [(aid, slot)] := by
  simp only [Ctx.handleMsg, hs]
  by_cases h3 : pktType pkt = 3
  · simp [h3, hq h3]
  · by_cases h6 : pktType pkt = 6 <;> simp [h3, h6]

/-- **Registered when sent (subscribe).** An accepted SUBSCRIBE appends its waiter at the end of `awaiting`
    (whether or not the write then succeeds). -/
theorem registered_on_send_subscribe (c : Ctx) (aid sid : Nat) (pkt : Bytes) (slot ch : Nat) (wok : Bool)
    (hs : c.sizeOk pkt = true) :
    (c.handleMsg (.subscribe aid sid pkt slot ch) wok).1.awaiting = c.awaiting ++ [(aid, slot)] := by
  simp [Ctx.handleMsg, hs]

/-- **Pings complete in issue order.** All pings share the key `actionId 13 0`; with two of them registered
    (`s₁` before `s₂`, no ping before `s₁`), a PINGRESP completes `s₁` with that PINGRESP, leaves `s₂` and every
    other waiter registered in order, sends nothing else and writes nothing. -/
theorem pings_fifo (c : Ctx) (alive : Nat → Bool) (wok : Bool) (pre mid post : List (Nat × Nat)) (s₁ s₂ : Nat)
    (hpre : actionId 13 0 ∉ pre.map (·.1))
    (haw : c.awaiting = pre ++ (actionId 13 0, s₁) :: (mid ++ (actionId 13 0, s₂) :: post)) :
    c.handlePkt alive .pingresp wok =
      ({ c with awaiting := pre ++ (mid ++ (actionId 13 0, s₂) :: post) }, [.send s₁ (.pkt .pingresp)], .cont) := by
  have h : removeFirst (actionId 13 0) c.awaiting = some (s₁, pre ++ (mid ++ (actionId 13 0, s₂) :: post)) :=
    (removeFirst_some_iff _ _ _ _).2 ⟨pre, _, haw, hpre, rfl⟩
  simp [Ctx.handlePkt, complete_some c _ _ _ _ h]

/-- **Identifier uniqueness is an invariant of `awaiting`.** If the non-ping keys of `awaiting` are pairwise
    distinct and the action identifier of a new message is not among the registered keys (packet identifiers of
    outstanding operations are unique — C11 — and `actionId_injective`), they are still pairwise distinct after
    the context handled any input. -/
theorem awaiting_keys_nodup_preserved (c : Ctx) (i : CIn)
    (hinv : (nonPingKeys c.awaiting).Nodup)
    (hnew : ∀ m wok aid, i = .msg m wok → m.aid = some aid → aid ≠ actionId 13 0 → aid ∉ c.awaiting.map (·.1)) :
    (nonPingKeys (c.stepIn i).1.awaiting).Nodup := by
  cases i with
  | msg m wok =>
    simp only [Ctx.stepIn]
    rcases handleMsg_awaiting_cases c m wok with h | ⟨aid, ha, h⟩
    · rw [h]; exact hinv
    · rw [h, nonPingKeys_append]
      by_cases hp : aid = actionId 13 0
      · simpa [nonPingKeys, hp] using hinv
      · have := hnew m wok aid rfl ha hp
        simp only [nonPingKeys, List.map_cons, List.map_nil, ne_eq, hp, not_false_eq_true, decide_true,
          List.filter_cons_of_pos, List.filter_nil]
        rw [List.nodup_append]
        refine ⟨hinv, by simp, ?_⟩
        intro a ha' b hb
        simp only [List.mem_singleton] at hb; subst hb
        intro e; subst e
        exact this (List.mem_filter.1 ha').1
  | pkt p dead wok =>
    simp only [Ctx.stepIn]
    rcases ack_completion_cases c (fun ch => ch ∉ dead) p wok with ⟨_, ha, _⟩ | ⟨aid, slot, rest, _, hr, _, ha⟩
    · rw [ha]; exact hinv
    · rw [ha]
      obtain ⟨pre, post, h1, _, h3⟩ := (removeFirst_some_iff _ _ _ _).1 hr
      have hsub : rest.Sublist c.awaiting := by
        rw [h1, h3]; exact List.Sublist.append (List.Sublist.refl _) (List.sublist_cons_self _ _)
      exact List.Nodup.sublist (nonPingKeys_sublist hsub) hinv

/-- **A packet completes THE operation registered with its type and identifier.** Under the invariant of
    `awaiting_keys_nodup_preserved`, if `slot` is registered under the non-ping action identifier of the
    acknowledgement `p` (any acknowledgement the context completes waiters for, i.e. not a PUBREL), then handling
    `p` completes exactly `slot`, with `p`, wherever in the list it is and whatever else is outstanding. -/
theorem own_ack_completes_the_registered_operation (c : Ctx) (alive : Nat → Bool) (p : RxPacket) (wok : Bool)
    (aid slot : Nat) (hinv : (nonPingKeys c.awaiting).Nodup) (hreg : (aid, slot) ∈ c.awaiting)
    (haid : rxActionId p = some aid) (hnp : aid ≠ actionId 13 0) (hrel : ∀ a, p ≠ .pubrel a) :
    sendsOf (c.handlePkt alive p wok).2.1 = [(slot, .pkt p)] ∧
    (aid, slot) ∉ (c.handlePkt alive p wok).1.awaiting := by
  have hkey : aid ∈ c.awaiting.map (·.1) := List.mem_map.2 ⟨(aid, slot), hreg, rfl⟩
  cases hr : removeFirst aid c.awaiting with
  | none => exact absurd hkey ((removeFirst_none_iff _ _).1 hr)
  | some r =>
    obtain ⟨slot', rest⟩ := r
    obtain ⟨pre, post, h1, h2, h3⟩ := (removeFirst_some_iff _ _ _ _).1 hr
    -- `aid` occurs only once among the keys
    have hpost : aid ∉ post.map (·.1) := by
      rw [h1] at hinv
      simp only [nonPingKeys, List.map_append, List.map_cons, List.filter_append, ne_eq, hnp,
        not_false_eq_true, decide_true, List.filter_cons_of_pos] at hinv
      rw [List.nodup_append] at hinv
      have := (List.nodup_cons.1 hinv.2.1).1
      intro hm; exact this (List.mem_filter.2 ⟨hm, by simpa using hnp⟩)
    have hslot : slot' = slot := by
      rw [h1] at hreg
      simp only [List.mem_append, List.mem_cons, Prod.mk.injEq] at hreg
      rcases hreg with h | ⟨_, h⟩ | h
      · exact absurd (List.mem_map.2 ⟨_, h, rfl⟩) h2
      · exact h.symm
      · exact absurd (List.mem_map.2 ⟨_, h, rfl⟩) hpost
    subst hslot
    rcases ack_completion_cases c alive p wok with ⟨hs, ha, hno⟩ | ⟨aid', slot'', rest', hid, hr', hs, ha⟩
    · -- impossible: an acknowledgement (other than PUBREL) with a registered key completes it
      exfalso
      rcases hno with h | ⟨a, rfl⟩ | ⟨aid', h, hn⟩
      · rw [haid] at h; cases h
      · exact hrel a rfl
      · rw [haid] at h; cases h; rw [hr] at hn; cases hn
    · rw [haid] at hid; cases hid
      rw [hr] at hr'; cases hr'
      refine ⟨hs, ?_⟩
      rw [ha, h3]
      simp only [List.mem_append, not_or]
      exact ⟨fun h => h2 (List.mem_map.2 ⟨_, h, rfl⟩), fun h => hpost (List.mem_map.2 ⟨_, h, rfl⟩)⟩

/-! ## the user side: the suspended future -/

/-- **Pending operations stay pending.** Polling a future whose oneshot has no value yet produces no `DONE`
    (nothing is emitted at all) and changes nothing but the registration of its waker. -/
theorem pending_stays_pending (w : World) (id s : Nat) (k : Wait)
    (hop : w.opSt id = some (.wait s k)) (hs : w.slot s = some .empty) :
    w.pollOp id = { w with slotReg := if s ∈ w.slotReg then w.slotReg else w.slotReg ++ [s] } ∧
    (w.pollOp id).out = w.out ∧ (w.pollOp id).ops = w.ops ∧ (w.pollOp id).slots = w.slots ∧
    (w.pollOp id).queue = w.queue ∧ (w.pollOp id).c = w.c := by
  have : w.pollOp id = { w with slotReg := if s ∈ w.slotReg then w.slotReg else w.slotReg ++ [s] } := by
    simp [pollOp, hop, hs]
  rw [this]; exact ⟨rfl, rfl, rfl, rfl, rfl, rfl⟩

/-- **The value sent by the context is the value the future is resumed with.** The effect `send slot v` on an
    empty oneshot stores `v` (a second send into the same oneshot changes nothing: a oneshot carries one value);
    the next poll of the future waiting on that oneshot is `resumeOp` with exactly `v`. -/
theorem completion_reaches_the_future (w : World) (id s : Nat) (k : Wait) (v : SlotVal)
    (hop : w.opSt id = some (.wait s k)) (hs : w.slot s = some .empty) :
    (w.sendSlot s v).slot s = some (.full v) ∧
    (∀ v', ((w.sendSlot s v).sendSlot s v') = w.sendSlot s v) ∧
    (w.sendSlot s v).pollOp id = (w.sendSlot s v).resumeOp id s k v := by
  obtain ⟨wk, sr, e⟩ := sendSlot_shape w s v hs
  have h1 : (w.sendSlot s v).slot s = some (.full v) := by rw [e]; exact lookupFirst_setAssoc_self _ _ _
  have h2 : (w.sendSlot s v).opSt id = some (.wait s k) := by rw [e]; exact hop
  refine ⟨h1, fun v' => sendSlot_noop _ s v' (by rw [h1]; simp), ?_⟩
  simp [pollOp, h1, h2]

/-- **The result carries the acknowledgement's content.** A future resumed with the acknowledgement it waits for
    emits exactly one `DONE`, built from that packet: success, or the error of its kind with the packet's reason
    code, reason string and user properties, or (SUBACK/UNSUBACK) the packet's reason string, user properties and
    reason codes; and the operation leaves `ops`. -/
theorem resumeOp_content (w : World) (id s : Nat) :
    (∀ a : AckRx, (w.resumeOp id s .puback (.pkt (.puback a))).out = w.out ++ [.done id
        (if a.reason ≥ 128 then .errAck .pubackError a.reason a.reasonString a.userProps else .ok)]) ∧
    (∀ a : AckRx, (w.resumeOp id s .pubcomp (.pkt (.pubcomp a))).out = w.out ++ [.done id
        (if a.reason ≥ 128 then .errAck .pubcompError a.reason a.reasonString a.userProps else .ok)]) ∧
    (∀ a : AckRx, a.reason ≥ 128 → (w.resumeOp id s .pubrec (.pkt (.pubrec a))).out = w.out ++ [.done id
        (.errAck .pubrecError a.reason a.reasonString a.userProps)]) ∧
    (∀ a : SubackRx, (w.resumeOp id s .suback (.pkt (.suback a))).out = w.out ++ [.done id
        (.okAck false a.reasonString a.userProps a.payload)]) ∧
    (∀ a : SubackRx, (w.resumeOp id s .unsuback (.pkt (.unsuback a))).out = w.out ++ [.done id
        (.okAck true a.reasonString a.userProps a.payload)]) ∧
    ((w.resumeOp id s .pingresp (.pkt .pingresp)).out = w.out ++ [.done id .ok]) := by
  refine ⟨?_, ?_, ?_, ?_, ?_, ?_⟩
  · intro a; simp only [resumeOp, ackErr]; split <;> simp [clearSlot]
  · intro a; simp only [resumeOp, ackErr]; split <;> simp [clearSlot]
  · intro a h; simp [resumeOp, ackErr, h, clearSlot]
  · intro a; simp [resumeOp, clearSlot]
  · intro a; simp [resumeOp, clearSlot]
  · simp [resumeOp, clearSlot]

/-- In each of those cases the operation is removed from `ops` (and its oneshot from `slots`). -/
theorem resumeOp_removes_op (w : World) (id s : Nat) :
    (∀ a : AckRx, (w.resumeOp id s .puback (.pkt (.puback a))).ops = eraseFirst id w.ops) ∧
    (∀ a : AckRx, (w.resumeOp id s .pubcomp (.pkt (.pubcomp a))).ops = eraseFirst id w.ops) ∧
    (∀ a : AckRx, a.reason ≥ 128 → (w.resumeOp id s .pubrec (.pkt (.pubrec a))).ops = eraseFirst id w.ops) ∧
    (∀ a : SubackRx, (w.resumeOp id s .suback (.pkt (.suback a))).ops = eraseFirst id w.ops) ∧
    (∀ a : SubackRx, (w.resumeOp id s .unsuback (.pkt (.unsuback a))).ops = eraseFirst id w.ops) ∧
    ((w.resumeOp id s .pingresp (.pkt .pingresp)).ops = eraseFirst id w.ops) := by
  refine ⟨?_, ?_, ?_, ?_, ?_, ?_⟩
  · intro a; simp only [resumeOp, ackErr]; split <;> simp [clearSlot]
  · intro a; simp only [resumeOp, ackErr]; split <;> simp [clearSlot]
  · intro a h; simp [resumeOp, ackErr, h, clearSlot]
  · intro a; simp [resumeOp, clearSlot]
  · intro a; simp [resumeOp, clearSlot]
  · simp [resumeOp, clearSlot]

/-- **Never twice.** A future that is no longer in `ops` does nothing when polled: no second `DONE`. -/
theorem pollOp_absent (w : World) (id : Nat) (h : w.opSt id = none) : w.pollOp id = w := by
  simp [pollOp, h]

/-- …and a finished operation is absent: operation ids are unique in `ops` (the `op` event refuses an id in use),
    so removing the entry leaves none. -/
theorem finishOp_opSt_none (w : World) (id : Nat) (r : DoneRes) (hn : (w.ops.map (·.1)).Nodup) :
    (w.finishOp id r).opSt id = none := by
  simp [opSt, lookupFirst_eraseFirst_self id w.ops hn]

/-! ## non-vacuity -/

/-- two outstanding QoS 1 publishes, acknowledged in reverse order: each PUBACK completes its own oneshot -/
example :
    let c : Ctx := { awaiting := [(actionId 4 1, 10), (actionId 4 2, 12)] }
    sendsOf (c.handlePkt (fun _ => true) (.puback { packetId := 2 }) true).2.1 = [(12, .pkt (.puback { packetId := 2 }))] ∧
    (c.handlePkt (fun _ => true) (.puback { packetId := 2 }) true).1.awaiting = [(actionId 4 1, 10)] := by
  decide

/-- a SUBACK with the identifier of an outstanding publish completes nothing -/
example :
    let c : Ctx := { awaiting := [(actionId 4 1, 10)] }
    sendsOf (c.handlePkt (fun _ => true) (.suback { packetId := 1 }) true).2.1 = [] := by decide

/-- the hypotheses of `pings_fifo` are satisfiable -/
example : ∃ c : Ctx, c.awaiting = [] ++ (actionId 13 0, 2) :: ([(actionId 4 7, 4)] ++ (actionId 13 0, 6) :: []) :=
  ⟨{ awaiting := [(actionId 13 0, 2), (actionId 4 7, 4), (actionId 13 0, 6)] }, rfl⟩

#print axioms actionId_injective
#print axioms removeFirst_spec
#print axioms ack_completion_cases
#print axioms only_own_ack_completes
#print axioms msg_replies_only_to_its_own_slot
#print axioms handleMsg_awaiting_cases
#print axioms registered_on_send
#print axioms registered_on_send_subscribe
#print axioms pings_fifo
#print axioms awaiting_keys_nodup_preserved
#print axioms own_ack_completes_the_registered_operation
#print axioms pending_stays_pending
#print axioms completion_reaches_the_future
#print axioms resumeOp_content
#print axioms resumeOp_removes_op
#print axioms pollOp_absent
#print axioms finishOp_opSt_none

end Poster
