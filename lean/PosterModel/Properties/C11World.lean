/-
  Properties/C11World.lean — C11 for whole executions of the client: packet identifiers (and subscription identifiers)
  are non-zero and unique among the operations in flight.

  C11: "Every PUBLISH (QoS>0), SUBSCRIBE and UNSUBSCRIBE the client sends carries a non-zero packet identifier that
  differs from the identifier of every other such operation still outstanding, including operations issued concurrently
  from different clones of the handle, and every subscribe() call gets its own subscription identifier. This keeps holding
  after more than 65535 operations on one client (identifier wrap-around), provided fewer than 65535 identifiers are
  allocated while any single operation is outstanding, and allocating an identifier never panics."

  Properties/C11.lean proves the arithmetic of the two counters in isolation. This file follows the identifiers through the
  whole-client machine `World` (PosterModel/World.lean): from the first poll of the future that allocates them, through the
  message queue and `awaiting_ack`, to the PUBREL of a QoS 2 publish — for every script, every interleaving, every clone of
  the handle (all futures run `startOp` on the one shared `World.pidCtr`; the handle a request came through plays no role).

  Vocabulary (Lemmas/WorldIdsOut.lean, WorldIdsPath.lean, WorldIdsSub.lean; namespace `Poster.World.W10`)
    `msgPid m`          the packet identifier the queued message `m` carries (from its action identifier
                        `actionId kind pid`): `none` for fire-and-forget messages and for PINGREQ (kind 13)
    `Outstanding w`     **the packet identifiers in flight in `w`**: those of the queued messages (`qpids`), those registered
                        in `awaiting_ack` (`apids`; PUBLISH QoS 1: kind 4, QoS 2: kind 5 and, after the PUBREL was written, kind
                        7; SUBSCRIBE 9; UNSUBSCRIBE 11), and those of the QoS 2 publishes whose future holds a PUBREC with
                        reason < 0x80 in its oneshot and has not yet queued the PUBREL (`ppids`) — the PUBREL will carry the
                        SAME identifier, so the identifier stays in use across that gap. Identifiers leave when the
                        acknowledgement is handled, the request is refused, the session is reset or the context dropped
                        — whether or not the caller still holds the future.
    `IdStep w w'`       the counter stands still or advances by one `nextPid` step, and the multiset of outstanding
                        identifiers grows by at most one element, namely the counter's old value, only if it advances
    `World.W7.Micro` / `During cfg w`   elementary transitions / the moments of an execution (Lemmas/WorldRet.lean)
    `Exec cfg ws`       `ws` is an execution: the list of its moments, most recent first, consecutive ones a `Micro` apart
    `allocCount ws`     number of identifiers allocated along `ws`; `allocated ws` the values handed out
    `allocAge p ws`     number of identifiers allocated since the value `p` was last handed out (that allocation included)
    `WindowOk ws`       at every moment of `ws`, for every outstanding identifier `p`: `allocAge p < 65535` — "fewer than
                        65535 identifiers are allocated while any single operation is outstanding"
    `consEv e`          `e` is an `op` event whose request takes a packet identifier (PUBLISH QoS>0, SUBSCRIBE, UNSUBSCRIBE)
    `SubOk w`, `psids w`   subscription identifiers in flight (queued SUBSCRIBEs, subscription table) and their range
-/
import PosterModel.Lemmas.WorldIdsPath
import PosterModel.Lemmas.WorldIdsSub
import PosterModel.Lemmas.WorldIdsForm
import PosterModel.Lemmas.WorldIdsEx
import PosterModel.Properties.C07World
import PosterModel.Properties.C12
import PosterModel.Lemmas.WorldWire

set_option linter.unusedVariables false
set_option linter.unusedSimpArgs false

namespace Poster
open Framing World World.W7 World.W10

/-! ## 1. every identifier is the counter's value at the first poll -/

/-- **The first poll of a handle future stamps the request with the counter's value.** In any world whose counter is in
    range (every reachable world): the first poll of the future of a request that takes a packet identifier (PUBLISH with
    QoS > 0, SUBSCRIBE, UNSUBSCRIBE) advances the shared counter by exactly one step of the cycle 1, 2, …, 65535, 1, …
    — whether or not the request is then accepted —, and any other request leaves it alone; the queue gains at most one
    message; and the message queued, if any, carries exactly the value the counter had before the poll (`msgPid m = some
    w.pidCtr`, a value in 1..65535) resp. no identifier at all. Which handle (clone) the request came through plays no role:
    `startOp` does not take it. -/
theorem first_poll_takes_the_counter_value (w : World) (id : Nat) (req : Req) (hp : 1 ≤ w.pidCtr ∧ w.pidCtr ≤ 65535) :
    (w.startOp id req).pidCtr = (if Req.consumes req then nextPid w.pidCtr else w.pidCtr) ∧
    ((w.startOp id req).queue = w.queue ∨
      ∃ m, (w.startOp id req).queue = w.queue ++ [m] ∧
        msgPid m = (if Req.consumes req then some w.pidCtr else none)) :=
  startOp_ids w id req hp

/-- the message forms: an accepted QoS > 0 PUBLISH / SUBSCRIBE / UNSUBSCRIBE on a live context is queued under
    `actionId kind w.pidCtr` with `kind` = 4 (QoS 1), 5 (QoS 2), 9, 11, and its packet is the request encoded with
    `packetId := w.pidCtr` (and, for SUBSCRIBE, `subId := w.subCtr`) -/
theorem first_poll_message_forms (w : World) (id : Nat) (hc : w.hasCtx = true) :
    (∀ t : PublishTx, t.qos ≠ 0 → ({ t with packetId := some w.pidCtr } : PublishTx).valid = true →
      (w.startOp id (.publish t)).queue = w.queue ++
        [.awaitAck (actionId (if t.qos = 1 then 4 else 5) w.pidCtr)
          ({ t with packetId := some w.pidCtr } : PublishTx).encode (2 * id)]) ∧
    (∀ t : SubscribeTx, ({ t with packetId := w.pidCtr, subId := some w.subCtr } : SubscribeTx).valid = true →
      (w.startOp id (.subscribe t)).queue = w.queue ++
        [.subscribe (actionId 9 w.pidCtr) w.subCtr
          ({ t with packetId := w.pidCtr, subId := some w.subCtr } : SubscribeTx).encode (2 * id) id]) ∧
    (∀ t : UnsubscribeTx, ({ t with packetId := w.pidCtr } : UnsubscribeTx).valid = true →
      (w.startOp id (.unsubscribe t)).queue = w.queue ++
        [.awaitAck (actionId 11 w.pidCtr) ({ t with packetId := w.pidCtr } : UnsubscribeTx).encode (2 * id)]) := by
  refine ⟨fun t hq hv => ?_, fun t hv => (subscribe_creates_channel_and_queues_registration w id t hv hc).2.1,
    fun t hv => ?_⟩
  · rw [User.startOp_publish12 w id t hq]
    simp only [hv, Bool.not_true, Bool.false_eq_true, ↓reduceIte]
    exact sendAwait_queue _ _ _ _ _ hc
  · rw [User.startOp_unsubscribe]
    simp only [hv, Bool.not_true, Bool.false_eq_true, ↓reduceIte]
    exact sendAwait_queue _ _ _ _ _ hc

/-- **The PUBREL of a QoS 2 publish reuses the identifier of the PUBREC it answers.** A resumed future never touches the
    counter; it queues nothing, or — a future waiting for its PUBREC, resumed with a PUBREC of reason < 0x80 — exactly
    one message, whose packet identifier is the one that PUBREC stands for (`relPid`: the identifier of `actionId 7
    a.packetId`, i.e. the PUBREC's own packet identifier). -/
theorem pubrel_reuses_the_identifier (w : World) (id s : Nat) (k : Wait) (v : SlotVal) :
    (w.resumeOp id s k v).pidCtr = w.pidCtr ∧
    ((w.resumeOp id s k v).queue = w.queue ∨
      ∃ m, (w.resumeOp id s k v).queue = w.queue ++ [m] ∧ k = .pubrec ∧ msgPid m = relPid (some (.full v))) :=
  resumeOp_ids w id s k v

/-- **Every identifier in flight is a real packet identifier, at every moment of every execution**: all outstanding
    identifiers and the counter itself lie in 1..65535 — never 0, never beyond the 16-bit field — also after the counter
    has wrapped around. -/
theorem identifiers_in_flight_are_in_range (cfg : Cfg) (w : World) (hd : During cfg w) :
    (1 ≤ w.pidCtr ∧ w.pidCtr ≤ 65535) ∧ ∀ p ∈ Outstanding w, 1 ≤ p ∧ p ≤ 65535 :=
  ⟨(during_opsInv hd).pid, during_outstanding_range hd⟩

/-- **Every action identifier the client holds is `actionId kind pid` with a packet identifier in 1..65535, at every moment
    of every execution**: the action identifier of every queued message, every key of `awaiting_ack` and every key of the
    retransmit queue is `actionId kind pid` with `kind` ∈ {4 (PUBACK), 5 (PUBREC), 7 (PUBCOMP), 9 (SUBACK), 11 (UNSUBACK)}
    and `1 ≤ pid ≤ 65535`, or the key `actionId 13 0` all PINGREQs share (`AidForm`); and every packet stored in a oneshot
    is decoder output (`RxPacket.wf`), so the PUBREL built from a stored PUBREC carries an identifier in 1..65535. -/
theorem held_action_identifiers_have_the_right_form (cfg : Cfg) (w : World) (hd : During cfg w) :
    (∀ m ∈ w.queue, ∀ aid, m.aid = some aid → AidForm aid) ∧ (∀ e ∈ w.c.awaiting, AidForm e.1) ∧
    (∀ e ∈ w.c.retx, AidForm e.1) ∧ ∀ s p, w.slot s = some (.full (.pkt p)) → p.wf :=
  ⟨(during_keyForm hd).queue, (during_keyForm hd).awaiting, (during_keyForm hd).retx,
    fun s p h => during_slotWf hd s p (User.lookupFirst_mem s _ w.slots h)⟩

/-! ## 2. identifiers become outstanding only by allocation -/

/-- **One elementary transition.** At every moment `w` of every execution, for every elementary transition `w → w'` (one
    poll of the context task, of a handle future — through whichever clone of the handle it was issued —, of a stream; a
    script event; …): the counter stands still or advances by one step; an identifier `p` outstanding afterwards was
    outstanding before — with at least the same multiplicity —, or it is the value `w.pidCtr` the counter had, the counter
    has advanced, and `p` has gained exactly one occurrence. In particular the context task never makes an identifier
    outstanding: handling a request moves its identifier from the queue to `awaiting_ack`, handling a PUBREC moves it to
    the future's oneshot, the PUBREL moves it back into the queue. -/
theorem identifiers_enter_only_by_allocation (cfg : Cfg) (w w' : World) (hd : During cfg w) (hm : Micro w w') :
    (w'.pidCtr = w.pidCtr ∨ w'.pidCtr = nextPid w.pidCtr) ∧
    (∀ p, (Outstanding w').count p ≤
      (Outstanding w).count p + (if w'.pidCtr ≠ w.pidCtr ∧ p = w.pidCtr then 1 else 0)) ∧
    (∀ p ∈ Outstanding w', p ∈ Outstanding w ∨ (p = w.pidCtr ∧ w'.pidCtr = nextPid w.pidCtr)) :=
  ⟨(micro_idStep (during_opsInv hd) hm).ctr, (micro_idStep (during_opsInv hd) hm).cnt,
    fun _ hp => (micro_idStep (during_opsInv hd) hm).mem hp⟩

/-- a poll of the context task lets no identifier become outstanding and leaves the counter alone -/
theorem context_never_makes_an_identifier_outstanding (cfg : Cfg) (w : World) (hd : During cfg w) :
    w.pollCtx.pidCtr = w.pidCtr ∧ ∀ p, (Outstanding w.pollCtx).count p ≤ (Outstanding w).count p :=
  shrinks_of_moves_ctx (during_opsInv hd) (pollCtx_moves w)

/-! ## 3. uniqueness within the allocation window -/

/-- every moment of every execution lies on a path, and every script's end does -/
theorem execution_paths_exist (cfg : Cfg) (evs : List Ev) :
    ∃ ws, Exec cfg ((evs.foldl World.step { cfg := cfg }) :: ws) :=
  exec_of_during (during_run cfg evs)

/-- **What `allocAge` measures.** Along an execution, if `allocAge p ws = some a` then `a ≥ 1` and the counter now stands
    where `a` steps of the cycle from `p` lead (`iter nextPid a p`); so for `a < 65535` the counter is NOT `p` — the next
    allocation cannot return `p` (`alloc_unique_window`) — while at `a = 65535` it is `p` again (`alloc_period`): the
    window cannot be enlarged. -/
theorem allocAge_is_the_distance_to_the_counter (cfg : Cfg) (w : World) (ws : List World) (h : Exec cfg (w :: ws))
    (p a : Nat) (ha : allocAge p (w :: ws) = some a) (hp : 1 ≤ p ∧ p ≤ 65535) :
    1 ≤ a ∧ w.pidCtr = iter nextPid a p ∧ (a < 65535 → w.pidCtr ≠ p) ∧ (a = 65535 → w.pidCtr = p) := by
  obtain ⟨h1, h2⟩ := exec_age_counter h w ws rfl p a ha
  refine ⟨h1, h2, fun hlt e => ?_, fun e => ?_⟩
  · have := alloc_unique_window p 0 a hp (by omega) (by omega)
    apply this
    rw [← h2, e]; rfl
  · rw [h2, e]
    have := alloc_period p 0 hp
    rw [Nat.zero_add] at this
    exact this

/-- every outstanding identifier has an age: it was handed out along the path -/
theorem outstanding_identifiers_were_allocated (cfg : Cfg) (w : World) (ws : List World) (h : Exec cfg (w :: ws)) :
    ∀ p ∈ Outstanding w, ∃ a, allocAge p (w :: ws) = some a :=
  exec_outstanding_allocated h w ws rfl

/-- **Uniqueness among the outstanding, for as long as the window hypothesis holds.** Along any execution `ws` (any
    script, any interleaving, any number of handle clones, any broker behaviour) in which at every moment every outstanding
    identifier was handed out fewer than 65535 allocations ago (`WindowOk ws`): at every moment of `ws` the outstanding
    packet identifiers are pairwise distinct. No bound on the total number of operations: the counter may have wrapped
    around any number of times. -/
theorem outstanding_identifiers_pairwise_distinct (cfg : Cfg) (ws : List World) (h : Exec cfg ws) (hw : WindowOk ws) :
    ∀ w ∈ ws, (Outstanding w).Nodup :=
  exec_unique h hw

/-- **The identifier being written differs from every other outstanding identifier.** At a moment `w` at which the
    outstanding identifiers are pairwise distinct (previous theorem), let `m` be the request at the head of the queue,
    carrying the packet identifier `p`. Then `p` is not the identifier of any other queued request, of any operation
    awaiting its acknowledgement, or of any QoS 2 publish about to send its PUBREL; and what `run()` hands to the transport
    for `m`, if anything, is `m`'s own packet, unchanged (`fits_written_whole`: nothing, or exactly `[m.pkt]`). -/
theorem written_identifier_differs_from_all_others (w : World) (hn : (Outstanding w).Nodup) (m : Msg) (q : List Msg)
    (hq : w.queue = m :: q) (p : Nat) (hp : msgPid m = some p) :
    p ∉ qpids q ∧ p ∉ apids w.c.awaiting ∧ p ∉ ppids w ∧
    ∀ wok, writesOf (w.c.handleMsg m wok).2.1 = [] ∨ writesOf (w.c.handleMsg m wok).2.1 = [m.pkt] := by
  have e : Outstanding w = p :: (qpids q ++ apids w.c.awaiting ++ ppids w) := by
    simp [Outstanding, hq, qpids_cons, hp]
  rw [e, List.nodup_cons] at hn
  have := hn.1
  simp only [List.mem_append, not_or] at this
  exact ⟨this.1.1, this.1.2, this.2, fun wok => handleMsg_writes w.c m wok⟩

/-- … and when the message is handled and registered, its identifier is still unique among those awaiting their
    acknowledgements: `Outstanding` stays duplicate-free (one step of `identifiers_enter_only_by_allocation`). -/
theorem uniqueness_is_kept_by_steps_without_allocation (cfg : Cfg) (w w' : World) (hd : During cfg w) (hm : Micro w w')
    (hn : (Outstanding w).Nodup) (hc : w'.pidCtr = w.pidCtr ∨ w.pidCtr ∉ Outstanding w) : (Outstanding w').Nodup := by
  rw [List.nodup_iff_count] at hn ⊢
  intro p
  have h1 := (micro_idStep (during_opsInv hd) hm).cnt p
  have h2 := hn p
  by_cases hx : w'.pidCtr ≠ w.pidCtr ∧ p = w.pidCtr
  · rcases hc with hc | hc
    · exact absurd hc hx.1
    · rw [if_pos hx] at h1
      obtain ⟨_, rfl⟩ := hx
      have : (Outstanding w).count w.pidCtr = 0 := List.count_eq_zero.mpr hc
      omega
  · rw [if_neg hx] at h1; omega

/-! ## 4. the unconditional corollary: fewer than 65535 identifier-taking operations -/

/-- **Allocations are bounded by requests.** Along every execution: identifiers allocated so far + identifier-taking
    futures not yet polled ≤ identifier-taking `op` events logged so far. An identifier is taken only by the first poll
    of the future of such an event, once. -/
theorem allocations_bounded_by_requests (cfg : Cfg) (w : World) (ws : List World) (h : Exec cfg (w :: ws)) :
    allocCount (w :: ws) + freshC w ≤ w.out.countP consObs :=
  exec_alloc_bound h w ws rfl

/-- **A script with fewer than 65535 identifier-taking operations never repeats an identifier.** If the script issues
    at most 65534 `op` events whose request is a PUBLISH with QoS > 0, a SUBSCRIBE or an UNSUBSCRIBE (any number of other
    operations), then along every execution path to its end: the window hypothesis holds; at every moment the outstanding
    identifiers are pairwise distinct; moreover ALL identifiers ever handed out are pairwise distinct, each lies in
    1..65534, and every identifier outstanding at the end is one of them. -/
theorem few_operations_all_identifiers_distinct (cfg : Cfg) (evs : List Ev) (hn : evs.countP consEv < 65535)
    (ws : List World) (h : Exec cfg ((evs.foldl World.step { cfg := cfg }) :: ws)) :
    WindowOk ((evs.foldl World.step { cfg := cfg }) :: ws) ∧
    (∀ w ∈ (evs.foldl World.step { cfg := cfg }) :: ws, (Outstanding w).Nodup) ∧
    (allocated ((evs.foldl World.step { cfg := cfg }) :: ws)).Nodup ∧
    (∀ p ∈ allocated ((evs.foldl World.step { cfg := cfg }) :: ws), 1 ≤ p ∧ p ≤ 65534) ∧
    ∀ p ∈ Outstanding (evs.foldl World.step { cfg := cfg }),
      p ∈ allocated ((evs.foldl World.step { cfg := cfg }) :: ws) := by
  have hb := exec_alloc_bound h _ ws rfl
  have hc := consObs_script cfg evs
  have hlt : allocCount ((evs.foldl World.step { cfg := cfg }) :: ws) < 65535 := by omega
  have hw := windowOk_of_count _ hlt
  obtain ⟨_, h2, h3, h4⟩ := exec_allocated_nodup h hlt _ ws rfl
  exact ⟨hw, exec_unique h hw, h2, fun p hp => ⟨(h3 p hp).1, by have := (h3 p hp).2; omega⟩, h4⟩

/-- the same without mentioning paths: at the end of such a script the outstanding identifiers are pairwise distinct -/
theorem few_operations_outstanding_distinct (cfg : Cfg) (evs : List Ev) (hn : evs.countP consEv < 65535) :
    (Outstanding (evs.foldl World.step { cfg := cfg })).Nodup := by
  obtain ⟨ws, h⟩ := execution_paths_exist cfg evs
  exact (few_operations_all_identifiers_distinct cfg evs hn ws h).2.1 _ (by simp)

/-! ## 5. subscription identifiers -/

/-- **Subscription identifiers are non-zero and encodable, in every reachable world.** After any script: the counter and
    every subscription identifier in flight — carried by a queued SUBSCRIBE or registered in the context's subscription
    table — lie in 1..268435455: the `NonZero` conversion in the SUBSCRIBE builder cannot fail, and the value fits a
    variable byte integer. No hypothesis on the script. -/
theorem subscription_identifiers_nonzero (cfg : Cfg) (evs : List Ev) : SubOk (evs.foldl World.step { cfg := cfg }) := by
  obtain ⟨tr, st, _⟩ := steps_dec evs { cfg := cfg } (OpsInv.init cfg)
  exact strace_subOk st (subOk_init cfg)

/-- **Every `subscribe()` call gets its own subscription identifier.** For every script with pairwise distinct `OP`
    identifiers and fewer operations than the counter has values: the execution is a trace of moves in which the `k`-th
    `subscribe()` future first polled (`k` counted from 0) finds the counter at `iter nextSub k 1 = k + 1` and is given
    exactly that value — the counter then advances, and nothing but that value newly comes in flight; these values are
    pairwise distinct (`sub_unique_window`); and in the world reached the subscription identifiers in flight are pairwise
    distinct, non-zero and below the counter. -/
theorem every_subscribe_gets_its_own_identifier (cfg : Cfg) (evs : List Ev) (hn : (opIds evs).Nodup)
    (hlen : (opIds evs).length + 1 < 268435455) :
    ∃ tr, STrace { cfg := cfg } tr (evs.foldl World.step { cfg := cfg }) ∧
      (startedOf tr).length < 268435455 ∧
      (∀ t1 l t2, tr = t1 ++ l :: t2 → l.started ≠ none →
        ∃ wa wb, STrace { cfg := cfg } t1 wa ∧ SMove l wa wb ∧
          wa.subCtr = (startedOf t1).length + 1 ∧ wb.subCtr = wa.subCtr + 1 ∧
          ∀ s ∈ psids wb, s ∈ psids wa ∨ s = wa.subCtr) ∧
      (∀ i j, i < j → j < 268435455 → iter nextSub i 1 ≠ iter nextSub j 1) ∧
      (psids (evs.foldl World.step { cfg := cfg })).Nodup ∧
      ∀ s ∈ psids (evs.foldl World.step { cfg := cfg }), 1 ≤ s ∧ s < (evs.foldl World.step { cfg := cfg }).subCtr := by
  obtain ⟨tr, st, hnd, hs, _⟩ := script_is_a_trace cfg evs hn
  obtain ⟨a, b⟩ := st.started (fun _ => False) (fun n h => absurd rfl h) hnd (fun _ _ h => h)
  have hsub : startedOf tr ⊆ issuedOf tr := by
    intro n hm
    rcases b n hm with h | h
    · exact h.elim
    · exact h
  have hl : (startedOf tr).length ≤ (opIds evs).length :=
    Nat.le_trans (a.length_le_of_subset hsub) hs.length_le
  obtain ⟨x, _, _⟩ := st.sidInv (sidInv_init cfg) (by show 1 + _ < _; omega)
  have hok := strace_subOk st (subOk_init cfg)
  refine ⟨tr, st, by omega, fun t1 l t2 e hl' => ?_, fun i j hij hj => ?_, x.nodup,
    fun s hs' => ⟨(hok.ids s hs').1, x.lt s hs'⟩⟩
  · obtain ⟨wa, wb, s1, m, s2, h1, h2, h3⟩ := strace_started_gets_counter st t1 t2 l e hl'
    have hlen1 : (startedOf t1).length < (startedOf tr).length := by
      rw [e]
      simp only [startedOf, List.filterMap_append, List.filterMap_cons, List.length_append]
      cases hst : l.started with
      | none => exact absurd hst hl'
      | some y => simp
    have hc : wa.subCtr = (startedOf t1).length + 1 := by
      rw [h1]
      show iter nextSub _ 1 = _
      rw [sub_closed_form 1 _ (by omega)]
      have hlt' : 1 - 1 + (startedOf t1).length < 268435455 := by omega
      have : (1 - 1 + (startedOf t1).length) % 268435455 = (startedOf t1).length := by
        rw [Nat.mod_eq_of_lt hlt']; omega
      rw [this]
    refine ⟨wa, wb, s1, m, hc, ?_, h3⟩
    rw [h2, hc]; unfold nextSub; split <;> omega
  · exact sub_unique_window 1 i j (by omega) hij (by omega)

/-- **A SUBSCRIBE enters the message queue only at the first poll of its `subscribe()` future, carrying the counter's
    value** (any world, any elementary transition): a queued message carrying a subscription identifier `sid` was already
    queued before the transition, or the transition is the first poll of the future of a `subscribe()` operation, `sid` is
    the value the counter had, and the counter has advanced. The context writes a queued packet exactly as given
    (`handleMsg_writes`), so every SUBSCRIBE handed to the transport carries an identifier that was allocated for it. -/
theorem subscribe_enters_queue_only_at_first_poll {w w' : World} (hm : Micro w w') :
    ∀ m ∈ w'.queue, ∀ sid, m.sid? = some sid → m ∈ w.queue ∨
      ∃ id h t, w' = w.pollTask (.op id) ∧ w.opSt id = some (.fresh h (.subscribe t)) ∧ sid = w.subCtr ∧
        w'.subCtr = nextSub w.subCtr :=
  subscribe_queue_origin hm

/-- **Subscription identifiers are handed out once, and all SUBSCRIBEs carry handed-out identifiers** (across time). If the
    script issues fewer than 268435455 identifier-taking operations, then along every execution path to its end: the
    subscription identifiers handed out (`subAllocated`: the counter's values at the first polls of `subscribe()` futures)
    are `1, 2, …, n` — pairwise distinct and non-zero —; the counter stands at `n + 1`; and every SUBSCRIBE message in the
    queue carries one of them. With `subscribe_enters_queue_only_at_first_poll` (each message is queued once, at its own
    allocation) and the FIFO queue: no two SUBSCRIBE packets ever handed to the transport carry the same subscription
    identifier. -/
theorem subscription_identifiers_handed_out_once (cfg : Cfg) (evs : List Ev) (hn : evs.countP consEv < 268435455)
    (ws : List World) (h : Exec cfg ((evs.foldl World.step { cfg := cfg }) :: ws)) :
    (subAllocated ((evs.foldl World.step { cfg := cfg }) :: ws)).Nodup ∧
    (∀ s ∈ subAllocated ((evs.foldl World.step { cfg := cfg }) :: ws),
      1 ≤ s ∧ s ≤ (subAllocated ((evs.foldl World.step { cfg := cfg }) :: ws)).length) ∧
    (evs.foldl World.step { cfg := cfg }).subCtr =
      (subAllocated ((evs.foldl World.step { cfg := cfg }) :: ws)).length + 1 ∧
    ∀ m ∈ (evs.foldl World.step { cfg := cfg }).queue, ∀ sid, m.sid? = some sid →
      sid ∈ subAllocated ((evs.foldl World.step { cfg := cfg }) :: ws) := by
  have hb := exec_alloc_bound h _ ws rfl
  have hc := consObs_script cfg evs
  have hlt : allocCount ((evs.foldl World.step { cfg := cfg }) :: ws) < 268435455 := by omega
  obtain ⟨h1, _, h3, h4, h5⟩ := exec_subAllocated_nodup h hlt _ ws rfl
  exact ⟨h3, h4, h1, h5⟩

/-! ## 6. allocating an identifier never panics -/

/-- **The first poll of a handle future never panics**, in any world: it logs nothing (the request was queued) or exactly
    one `DONE id (err …)` line (the request cannot be encoded, or the context is gone). The allocation itself is a total
    function returning a value in 1..65535 resp. 1..268435455 (`alloc_in_range`, `sub_nonzero`), so the `NonZero`
    conversions of the option builders always succeed. No hypothesis on the world — in particular none on operation
    identifiers. -/
theorem first_poll_never_panics (w : World) (id : Nat) (req : Req) :
    (∀ t cls, Obs.panic t cls ∈ (w.startOp id req).out → Obs.panic t cls ∈ w.out) ∧
    ((w.startOp id req).out = w.out ∨ ∃ k, (w.startOp id req).out = w.out ++ [.done id (.err k)]) := by
  refine ⟨fun t cls h => ?_, startOp_out w id req⟩
  rcases startOp_out w id req with e | ⟨k, e⟩
  · rw [e] at h; exact h
  · rw [e] at h
    rcases List.mem_append.mp h with h | h
    · exact h
    · simp at h

/-- the allocators themselves: total, in range from a counter in range, whatever else is going on -/
theorem allocators_total_and_in_range (w : World) (hp : 1 ≤ w.pidCtr ∧ w.pidCtr ≤ 65535)
    (hs : 1 ≤ w.subCtr ∧ w.subCtr ≤ 268435455) :
    (1 ≤ w.allocPid.1 ∧ w.allocPid.1 ≤ 65535) ∧ (1 ≤ w.allocPid.2.pidCtr ∧ w.allocPid.2.pidCtr ≤ 65535) ∧
    (1 ≤ w.allocSub.1 ∧ w.allocSub.1 ≤ 268435455) ∧ (1 ≤ w.allocSub.2.subCtr ∧ w.allocSub.2.subCtr ≤ 268435455) :=
  ⟨hp, User.nextPid_range _, hs, User.nextSub_range _⟩

/-! ## 7. non-vacuity -/

section NonVacuity
namespace C11Ex

/-- its hypothesis for `few_operations_all_identifiers_distinct` holds, and its outstanding identifiers are 1, 2, 3 —
    the ping took none —, the counter stands at 4 -/
example : scrIds.countP consEv < 65535 ∧ Outstanding (scrIds.foldl World.step {}) = [1, 2, 3] ∧
    (scrIds.foldl World.step {}).pidCtr = 4 ∧ (scrIds.foldl World.step {}).subCtr = 2 ∧
    psids (scrIds.foldl World.step {}) = [1] := by decide

example : (Outstanding (scrIds.foldl World.step {})).Nodup := few_operations_outstanding_distinct {} scrIds (by decide)

/-- the hypotheses of `outstanding_identifiers_pairwise_distinct` are satisfiable: the end of `scrIds` lies on a path along
    which the window hypothesis holds -/
example : ∃ ws, Exec {} ((scrIds.foldl World.step {}) :: ws) ∧ WindowOk ((scrIds.foldl World.step {}) :: ws) := by
  obtain ⟨ws, h⟩ := execution_paths_exist {} scrIds
  exact ⟨ws, h, (few_operations_all_identifiers_distinct {} scrIds (by decide) ws h).1⟩

/-- the wrap-around: the next allocation returns 65535 and wraps the counter to 1 — the identifier 1 is then about to be
    handed out again while outstanding: the window hypothesis is what excludes this -/
example : Outstanding wWrap = [1] ∧ (wWrap.pollOp 9).pidCtr = 1 ∧ Outstanding (wWrap.pollOp 9) = [1, 65535] := by
  decide

/-- the identifier 7 is outstanding although it is neither queued nor registered; the poll of the future queues the PUBREL
    with the same identifier, and 7 is still outstanding, once -/
example : Outstanding wGap = [7] ∧ (wGap.pollOp 1).queue = [.awaitAck (actionId 7 7) (ackBytes 0x62 7) 3] ∧
    Outstanding (wGap.pollOp 1) = [7] ∧ (wGap.pollOp 1).pidCtr = 8 := by decide

/-- `allocAge` on a two-step path: after one allocation the identifier 1 has age 1 -/
example :
    let w0 : World := {}
    let w1 : World := { pidCtr := 2 }
    allocAge 1 [w1, w0] = some 1 ∧ allocCount [w1, w0] = 1 ∧ allocated [w1, w0] = [1] := by decide

/-- the form of the identifiers a reachable world holds: the end of `scrIds` (`held_action_identifiers_have_the_right_form`
    applies by `during_run`); its queue carries the action identifiers 4/1, 13/0, 9/2, 5/3 -/
example : During {} (scrIds.foldl World.step {}) ∧
    (scrIds.foldl World.step {}).queue.map Msg.aid =
      [some (actionId 4 1), some (actionId 13 0), some (actionId 9 2), some (actionId 5 3)] :=
  ⟨during_run {} scrIds, by decide⟩

/-- a script satisfying the hypotheses of `every_subscribe_gets_its_own_identifier` -/
example : (opIds scrIds).Nodup ∧ (opIds scrIds).length + 1 < 268435455 := by decide

end C11Ex
end NonVacuity

#print axioms first_poll_takes_the_counter_value
#print axioms first_poll_message_forms
#print axioms pubrel_reuses_the_identifier
#print axioms identifiers_in_flight_are_in_range
#print axioms held_action_identifiers_have_the_right_form
#print axioms identifiers_enter_only_by_allocation
#print axioms context_never_makes_an_identifier_outstanding
#print axioms execution_paths_exist
#print axioms allocAge_is_the_distance_to_the_counter
#print axioms outstanding_identifiers_were_allocated
#print axioms outstanding_identifiers_pairwise_distinct
#print axioms written_identifier_differs_from_all_others
#print axioms uniqueness_is_kept_by_steps_without_allocation
#print axioms allocations_bounded_by_requests
#print axioms few_operations_all_identifiers_distinct
#print axioms few_operations_outstanding_distinct
#print axioms subscription_identifiers_nonzero
#print axioms every_subscribe_gets_its_own_identifier
#print axioms subscribe_enters_queue_only_at_first_poll
#print axioms subscription_identifiers_handed_out_once
#print axioms first_poll_never_panics
#print axioms allocators_total_and_in_range

end Poster
