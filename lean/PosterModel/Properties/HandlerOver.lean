/-
  Properties/HandlerOver.lean — `handle_message` over every transport (TxHandler.lean): the clause of C01 "however the transport
  fragments or delays writes" and the clause of C14 "no future stays pending / reports something that did not happen" at the one
  place where the context can be suspended in the middle of a request.

    * whatever the transport does, what it has taken is a prefix of the request's own packet (nothing else reaches the wire, a
      refused request leaves the transport untouched) — `handler_puts_a_prefix_of_its_packet_on_the_wire`;
    * the caller is told "written" (`Ok(())` of publish QoS 0 / disconnect) only when EVERY byte of the packet is with the
      transport, for every cut and every number of suspensions — `told_written_means_written`;
    * a handler parked inside the write has told nobody anything, a proper prefix of the packet is on the wire, and its context
      is the one the code has at that statement — `suspended_handler_has_told_nobody` (seeded change C14-i, which replied before
      writing, breaks exactly this; the `c14-midwrite` scripts exercise it on the implementation);
    * over a fault-free transport that keeps accepting the handler ends with the model's `wok = true` result, over a failing
      one with its `wok = false` result: the Boolean of `World` loses nothing but the suspension
      (`handler_over_a_good_transport_is_the_model`, `handler_over_a_failing_transport_is_the_model`);
    * for an inbound packet (`handlePktOver`): whatever becomes of the acknowledgement's write — taken, cut, delayed for
      good, failed — the client's bookkeeping is that of the successful handler (`inbound_bookkeeping_independent_of_the_transport`)
      and the wire holds a prefix of the acknowledgement, all of it exactly when the write completed (`inbound_ack_on_the_wire`);
    * `World.runHandler` with an unlimited model transport IS the good-transport instance: same context, same effects in the
      same order, same flow (`world_handler_is_the_good_transport_instance`, `world_packet_handler_is_the_good_transport_instance`).
-/
import PosterModel.Properties.ActionOrder
import PosterModel.Lemmas.TxStream
import PosterModel.World

namespace Poster
open Poster.TxStream

/-- **Whatever the transport does, the bytes it has taken are a prefix of the request's packet** — nothing else, nothing
    twice, nothing out of order; and a request refused locally leaves the transport untouched. -/
theorem handler_puts_a_prefix_of_its_packet_on_the_wire (c : Ctx) (m : Msg) (evs : List WEv) :
    (handleMsgOver c m evs).2.1 <+: m.pkt := by
  unfold handleMsgOver
  split
  · exact List.nil_prefix
  · have hc := writeAll_conserves_aux evs m.pkt
    cases ho : (writeAll m.pkt evs).1.out <;> simp only [handleMsgAfter, ho] <;> exact ⟨_, hc⟩

/-- **The caller is told "written" only when every byte of its packet is with the transport** — for every transport:
    however the packet was cut, however often the write was suspended. (`Ok(())` of a fire-and-forget request: PUBLISH QoS 0,
    DISCONNECT.) -/
theorem told_written_means_written (c : Ctx) (m : Msg) (evs : List WEv) (c' : Ctx) (effs : List Eff) (fl : Flow) (s : Nat)
    (h : (handleMsgOver c m evs).1 = .finished c' effs fl) (hs : Eff.send s .unit ∈ effs) :
    (handleMsgOver c m evs).2.1 = m.pkt := by
  unfold handleMsgOver at h ⊢
  split at h
  · rename_i hnw
    exfalso
    simp only [HOut.finished.injEq] at h
    obtain ⟨_, rfl, _⟩ := h
    have := (success_reply_follows_the_write c m true s hs).1
    rw [this] at hnw
    simp [Eff.isWrite] at hnw
  · rename_i hw
    simp only [hw]
    cases ho : (writeAll m.pkt evs).1.out with
    | done =>
      simp only [handleMsgAfter, ho]
      have hc := writeAll_conserves_aux evs m.pkt
      rwa [writeAll_done_aux evs m.pkt ho, List.append_nil] at hc
    | err =>
      exfalso
      simp only [handleMsgAfter, ho, HOut.finished.injEq] at h
      obtain ⟨_, rfl, _⟩ := h
      exact (failed_write_reports_no_success c m).1 s hs
    | pending =>
      simp [handleMsgAfter, ho] at h

/-- **A handler parked inside a write has told nobody anything and has put a PROPER prefix of its packet on the wire**; its
    context is the one the code has at that statement. Dropping the Context at that moment leaves the caller's oneshot
    unanswered (it completes with ContextExited: C14) — seeded change C14-i, which replied before writing, breaks exactly this. -/
theorem suspended_handler_has_told_nobody (c : Ctx) (m : Msg) (evs : List WEv) (c' : Ctx)
    (h : (handleMsgOver c m evs).1 = .suspended c') :
    (writeAll m.pkt evs).1.out = .pending ∧ (handleMsgOver c m evs).2.1.length < m.pkt.length ∧
    c' = (c.handleMsg m false).1 := by
  unfold handleMsgOver at h ⊢
  split at h
  · exact absurd h (by simp)
  · rename_i hw
    simp only [hw]
    cases ho : (writeAll m.pkt evs).1.out with
    | done => simp [handleMsgAfter, ho] at h
    | err => simp [handleMsgAfter, ho] at h
    | pending =>
      simp only [handleMsgAfter, ho, HOut.suspended.injEq, Bool.false_eq_true, if_false] at h ⊢
      refine ⟨trivial, ?_, h.symm⟩
      have hc := writeAll_conserves_aux evs m.pkt
      have hr := writeAll_notdone_aux evs m.pkt (by rw [ho]; simp)
      have := congrArg List.length hc
      have hpos : 0 < (writeAll m.pkt evs).1.rest.length := List.length_pos_iff.2 hr
      simp only [List.length_append] at this
      omega

/-- a fault-free transport that keeps accepting lets every handler run to its end with the model's (`wok = true`) result:
    the whole-packet transport of `World` is the special case, and nothing else can come out -/
theorem handler_over_a_good_transport_is_the_model (c : Ctx) (m : Msg) (evs : List WEv)
    (hf : ∀ e ∈ evs, e.isFault = false) (hl : m.pkt.length ≤ (evs.filter WEv.isAccept).length) :
    (handleMsgOver c m evs).1 = .finished (c.handleMsg m true).1 (c.handleMsg m true).2.1 (c.handleMsg m true).2.2 := by
  unfold handleMsgOver
  split
  · rfl
  · simp only [handleMsgAfter, writeAll_completes_aux evs m.pkt hf hl]

/-- a transport that fails takes the model's failing-write exit (`wok = false`) -/
theorem handler_over_a_failing_transport_is_the_model (c : Ctx) (m : Msg) (evs : List WEv)
    (hw : ((c.handleMsg m true).2.1.filter Eff.isWrite).isEmpty = false) (he : (writeAll m.pkt evs).1.out = .err) :
    (handleMsgOver c m evs).1 = .finished (c.handleMsg m false).1 (c.handleMsg m false).2.1 (c.handleMsg m false).2.2 := by
  unfold handleMsgOver
  simp only [hw, Bool.false_eq_true, if_false, handleMsgAfter, he]


/-! ## inbound packets: the acknowledgement over every transport -/

/-- **Whatever the transport does with the acknowledgement — takes it, cuts it, delays it for good, fails — the client's
    bookkeeping is the same**: inbound QoS 2 identifiers, subscriptions, quota, waiters are those of the handler that wrote
    successfully. (The deliveries to the streams precede the write: `publish_ack_is_written_last`.) -/
theorem inbound_bookkeeping_independent_of_the_transport (c : Ctx) (alive : Nat → Bool) (p : RxPacket) (evs : List WEv) :
    (handlePktOver c alive p evs).1.ctx = (c.handlePkt alive p true).1 := by
  unfold handlePktOver
  have hf := (ack_write_fault_changes_only_the_outcome c alive p).1
  split
  · rfl
  · rename_i ack _
    cases ho : (writeAll ack evs).1.out <;> simp only [ho, HOut.ctx, hf]

/-- the wire gets a prefix of the acknowledgement, all of it exactly when the write completed -/
theorem inbound_ack_on_the_wire (c : Ctx) (alive : Nat → Bool) (p : RxPacket) (evs : List WEv) (ack : Bytes)
    (h : ackOf c alive p = some ack) :
    (handlePktOver c alive p evs).2.1 <+: ack ∧
    ((writeAll ack evs).1.out = .done → (handlePktOver c alive p evs).2.1 = ack) := by
  unfold handlePktOver
  simp only [h]
  have hc := writeAll_conserves_aux evs ack
  refine ⟨⟨_, hc⟩, fun hd => ?_⟩
  rwa [writeAll_done_aux evs ack hd, List.append_nil] at hc

/-! ## the link to `World` -/

/-- **`World`'s handler step is the good-transport instance of `handleMsgOver`**: with an unlimited model transport, what
    `World.runHandler` does for a request is exactly what the handler does over ANY fault-free transport that keeps accepting —
    the same context, the same effects in the same order, the same flow. -/
theorem world_handler_is_the_good_transport_instance (w : World) (m : Msg) (hl : w.cfg.wlimit = none) (evs : List WEv)
    (hf : ∀ e ∈ evs, e.isFault = false) (hlen : m.pkt.length ≤ (evs.filter WEv.isAccept).length) :
    (handleMsgOver w.c m evs).1 = .finished (w.c.handleMsg m true).1 (w.c.handleMsg m true).2.1 (w.c.handleMsg m true).2.2 ∧
    w.runHandler (fun wok => w.c.handleMsg m wok) =
      (({ w with c := (w.c.handleMsg m true).1 }).applyEffs (w.c.handleMsg m true).2.1, (w.c.handleMsg m true).2.2) := by
  refine ⟨handler_over_a_good_transport_is_the_model w.c m evs hf hlen, ?_⟩
  simp [World.runHandler, World.canWrite, hl]

/-- the same for an inbound packet -/
theorem world_packet_handler_is_the_good_transport_instance (w : World) (p : RxPacket) (hl : w.cfg.wlimit = none) :
    w.runHandler (fun wok => w.c.handlePkt w.chanRxAlive p wok) =
      (({ w with c := (w.c.handlePkt w.chanRxAlive p true).1 }).applyEffs (w.c.handlePkt w.chanRxAlive p true).2.1,
        (w.c.handlePkt w.chanRxAlive p true).2.2) := by
  simp [World.runHandler, World.canWrite, hl]

/-! ## non-vacuity -/
example : (handleMsgOver {} (.ff [0xc0, 0x00] 4) [.accept 0, .pending, .accept 0]).1 matches .finished _ _ _ := by decide
example : (handleMsgOver {} (.ff [0xc0, 0x00] 4) [.accept 0, .pending]).2.1 = [0xc0] := by decide
example : (handleMsgOver {} (.ff [0xc0, 0x00] 4) [.accept 0, .pending]).1 matches .suspended _ := by decide
example : (handleMsgOver { maxPkt := some 1 } (.ff [0xc0, 0x00] 4) [.err]).2 = ([], [.err]) := by decide

end Poster
#print axioms Poster.handler_puts_a_prefix_of_its_packet_on_the_wire
#print axioms Poster.told_written_means_written
#print axioms Poster.suspended_handler_has_told_nobody
#print axioms Poster.handler_over_a_good_transport_is_the_model
#print axioms Poster.handler_over_a_failing_transport_is_the_model
#print axioms Poster.inbound_bookkeeping_independent_of_the_transport
#print axioms Poster.inbound_ack_on_the_wire
#print axioms Poster.world_handler_is_the_good_transport_instance
#print axioms Poster.world_packet_handler_is_the_good_transport_instance
