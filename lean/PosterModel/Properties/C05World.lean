/-
  Properties/C05World.lean — C05 / C06 end to end, at the level of whole scripts (`World.run`): the table of
  handle operations is well formed in every reachable world, every issued operation completes at most once and
  only through a poll of its own future, and — when the script issues every operation id at most once — whatever
  the context owns on behalf of an operation has that operation's kind, so that a future is only ever resumed
  with the acknowledgement of its own type and the `unreachable!()` of the handle futures is dead code.

  Model note (id reuse). Oneshot channels are named `2 * id` / `2 * id + 1` after the operation id. The script
  language allows an id to be issued again once the earlier operation has completed or was dropped, while a
  message of the earlier operation may still be owned by the context; the two uses then share the *name* of their
  oneshot (in the implementation they are different channel objects). The ownership / kind statements below are
  therefore stated for *clean* scripts (`World.Clean`): scripts that do not issue an id while the context still
  owns a oneshot of an earlier use of it — in particular all scripts whose `op` events carry pairwise distinct
  ids. The theorems `reused_id_shares_a_oneshot` and `reused_id_reaches_unreachable` show that the hypothesis
  cannot be dropped in the model.
-/
import PosterModel.Lemmas.WorldOps
import PosterModel.Lemmas.WorldEx
import PosterModel.Lemmas.WorldOpsEx

namespace Poster
open World

/-! ## 1. structure of the operation table (every script) -/

/-- **The operation table is well formed in every reachable world.** Whatever the script does: no two entries of
    `ops` have the same operation id; an operation that waits does so on the oneshot `2 * id` — or on `2 * id + 1`
    exactly when it is the QoS 2 publish waiting for its PUBCOMP — and that oneshot exists (its sender is alive,
    or it holds a value, or it is closed; it has not been taken); and the packet-identifier counter stays within
    1..=65535. -/
theorem operation_table_well_formed (cfg : Cfg) (evs : List Ev) :
    let w := evs.foldl World.step { cfg := cfg }
    (w.ops.map (·.1)).Nodup ∧
    (∀ id s k, (id, OpSt.wait s k) ∈ w.ops →
      (s = 2 * id ∧ k ≠ .pubcomp ∨ s = 2 * id + 1 ∧ k = .pubcomp) ∧ (w.slot s).isSome) ∧
    1 ≤ w.pidCtr ∧ w.pidCtr ≤ 65535 := by
  have h := (OpsInv.init cfg).steps evs
  exact ⟨h.nodup, h.shape, h.pid.1, h.pid.2⟩

/-- the same, as the invariant structure used by the other theorems -/
theorem opsInv_reachable (cfg : Cfg) (evs : List Ev) : OpsInv (evs.foldl World.step { cfg := cfg }) :=
  (OpsInv.init cfg).steps evs

/-! ## 2. at most once (every script) -/

/-- **Each issued operation completes at most once.** In the transcript of any script, for every operation id,
    the number of `DONE id _` lines is at most the number of `op id _ _` events: a future never resolves twice,
    and nothing resolves that was not issued. -/
theorem each_operation_completes_at_most_once (cfg : Cfg) (evs : List Ev) (id : Nat) :
    doneCount id (World.run cfg evs) ≤ opCount id (World.run cfg evs) := by
  have hi := opsInv_reachable cfg evs
  have hc := (CountInv.init cfg).steps (OpsInv.init cfg) evs
  have := (hc.move hi (flushRaw_move _)) id
  unfold World.run finishScript
  omega

/-- …more precisely, in every reachable world the completions logged so far for `id`, plus one if `id` is still
    in the table, do not exceed the `op id` events logged so far: an operation that is still pending has not
    completed yet. -/
theorem completions_bounded_by_issues (cfg : Cfg) (evs : List Ev) (id : Nat) :
    let w := evs.foldl World.step { cfg := cfg }
    doneCount id w.out + (if id ∈ w.ops.map (·.1) then 1 else 0) ≤ opCount id w.out :=
  (CountInv.init cfg).steps (OpsInv.init cfg) evs id

/-- **Only a poll of its own future completes an operation.** In a world with a well-formed operation table:
    polling any other task (the context, a stream, another operation) logs no `DONE id`; polling the future of
    `id` logs at most one, and when it does, the operation was in the table before the poll and is gone after. -/
theorem done_logged_only_by_own_poll (w : World) (hi : OpsInv w) (id : Nat) :
    (∀ t, t ≠ .op id → doneCount id (w.pollTask t).out = doneCount id w.out) ∧
    (doneCount id (w.pollTask (.op id)).out = doneCount id w.out ∨
      (doneCount id (w.pollTask (.op id)).out = doneCount id w.out + 1 ∧ (w.opSt id).isSome ∧
        (w.pollTask (.op id)).opSt id = none)) := by
  constructor
  · intro t ht
    refine (pollTask_moves w t).doneCount_other id ?_
    cases t with
    | ctx => intro h; cases h
    | st n => intro h; cases h
    | op n =>
      intro h
      rcases h with h | h
      · cases h
      · simp only [Option.some.injEq] at h; subst h; exact ht rfl
  · have hu : doneCount id (w.unwake (.op id)).out = doneCount id w.out := rfl
    have hiu : OpsInv (w.unwake (.op id)) := ⟨hi.nodup, hi.shape, hi.pid⟩
    have hop : (w.unwake (.op id)).opSt id = w.opSt id := rfl
    show doneCount id ((w.unwake (.op id)).pollOp id).out = _ ∨ _
    rcases pollOp_one (w.unwake (.op id)) id with h | h | h
    · left; rw [h]; exact hu
    · left; rw [h.doneCount_other id (by intro e; cases e)]; exact hu
    · rcases h.doneCount_own hiu with h1 | ⟨h1, h2, h3⟩
      · left; rw [h1]; exact hu
      · right; exact ⟨h1.trans (by rw [hu]), hop ▸ h2, h3⟩

/-- Script events other than `poll` log no completion either (dropping a future removes it silently). -/
theorem events_log_no_done (w : World) (e : Ev) (he : ∀ t, e ≠ .poll t) (id : Nat) :
    doneCount id (w.apply e).out = doneCount id w.out := by
  rcases apply_decomp w e with ⟨j, h, req, _, ha⟩ | hm
  · rw [ha.out]
  · cases e with
    | poll t => exact absurd rfl (he t)
    | drop t =>
      cases t with
      | op n => show doneCount id (w.dropOp n).out = _; rw [(dropOp_rx_out w n).2]
      | ctx => exact hm.doneCount_other id (by intro h; cases h)
      | st n => exact hm.doneCount_other id (by intro h; cases h)
    | _ => exact hm.doneCount_other id (by intro h; cases h)

/-! ## 3. ownership and kinds (scripts that do not reuse an id the context still works for)

  `Clean w evs`: run from `w`, the script never issues `op id` while a queued message or an `awaiting_ack` entry
  still carries a oneshot of an earlier use of `id` (`2 * id` or `2 * id + 1`). Ids may be reused after the earlier
  operation completed or was dropped, once the context owns nothing of it. A script whose `op` events carry
  pairwise distinct ids is clean (`clean_of_distinct_ids`). -/

/-- a script that issues every operation id at most once never reuses an id the context still works for -/
theorem clean_of_distinct_ids (cfg : Cfg) (evs : List Ev) (hn : (opIds evs).Nodup) : Clean { cfg := cfg } evs :=
  clean_of_nodup (Good.init (fun _ => False) cfg) evs hn (fun _ _ h => h)

/-- **What the context owns belongs to exactly one operation, and has its kind.** For a clean script, in every
    reachable world:
    * `own`: if a oneshot `s` is carried by a queued message or registered in `awaiting_ack` and the operation
      `s / 2` is in the table, that operation waits on `s` or on a later oneshot (it is not a fresh future);
    * `nodup`: no two queued messages / `awaiting_ack` entries carry the same oneshot;
    * `qmsg`, `awt`: a queued message, resp. an `awaiting_ack` entry `(aid, s)`, whose oneshot a waiting operation
      waits on for `k`, is of the kind of `k`: fire-and-forget exactly for `k = ff`, otherwise registered under
      `actionId (type of k's acknowledgement) pid` with `pid < 65536`;
    * `full`: a packet stored in the oneshot of a waiting operation is well formed and of the type it waits for. -/
theorem owned_oneshots_have_their_operations_kind (cfg : Cfg) (evs : List Ev) (hc : Clean { cfg := cfg } evs) :
    KInv (fun _ => True) (evs.foldl World.step { cfg := cfg }) :=
  ((Good.init (fun _ => True) cfg).steps_clean evs hc).kind

/-- …and when the ids are pairwise distinct, every oneshot the context owns was created by an operation the script
    has issued (`own` with `U = (· ∈ opIds evs)`) -/
theorem owned_oneshots_of_issued_operations (cfg : Cfg) (evs : List Ev) (hn : (opIds evs).Nodup) :
    KInv (· ∈ opIds evs) (evs.foldl World.step { cfg := cfg }) := by
  have := (Good.init (fun _ => False) cfg).steps evs hn (fun _ _ h => h)
  exact (this.kind).mono (by rintro x (h | h); exact h.elim; exact h)

/-- the oneshots the context owns are pairwise distinct (deliverable 1c) -/
theorem owned_oneshots_distinct (cfg : Cfg) (evs : List Ev) (hc : Clean { cfg := cfg } evs) :
    let w := evs.foldl World.step { cfg := cfg }
    (w.queue.map Msg.slot ++ w.c.awaiting.map (·.2)).Nodup :=
  (owned_oneshots_have_their_operations_kind cfg evs hc).nodup

/-- **A future is only ever resumed with an acknowledgement of its own type.** For a clean script, in every
    reachable world, whenever the oneshot of a waiting operation holds a packet, the packet is well formed and is
    the acknowledgement that operation waits for (PUBACK for a QoS 1 publish, PUBREC then PUBCOMP for QoS 2,
    SUBACK, UNSUBACK, PINGRESP; never a packet for a fire-and-forget operation). -/
theorem filled_oneshot_matches_its_operation (cfg : Cfg) (evs : List Ev) (hc : Clean { cfg := cfg } evs)
    (id s : Nat) (k : Wait) (p : RxPacket) :
    let w := evs.foldl World.step { cfg := cfg }
    w.opSt id = some (.wait s k) → w.slot s = some (.full (.pkt p)) → Wait.accepts k p = true ∧ p.wf := by
  intro w hop hs
  exact (owned_oneshots_have_their_operations_kind cfg evs hc).full id s k p (mem_of_opSt hop) hs

/-- **The `unreachable!()` of the handle futures is dead code.** For a clean script no handle future ever panics
    with `unreachable`: the transcript contains no `PANIC op id unreachable` line, for any broker behaviour,
    interleaving, executor mode or transport limit. -/
theorem no_unreachable_panic (cfg : Cfg) (evs : List Ev) (hc : Clean { cfg := cfg } evs) (id : Nat) :
    Obs.panic (.op id) "unreachable" ∉ World.run cfg evs :=
  (((Good.init (fun _ => True) cfg).steps_clean evs hc).move (flushRaw_move _)).noUnr id

/-- in particular for every script that issues each operation id at most once -/
theorem no_unreachable_panic_of_distinct_ids (cfg : Cfg) (evs : List Ev) (hn : (opIds evs).Nodup) (id : Nat) :
    Obs.panic (.op id) "unreachable" ∉ World.run cfg evs :=
  no_unreachable_panic cfg evs (clean_of_distinct_ids cfg evs hn) id

/-! ## 4. only after its own acknowledgement reached its oneshot -/

/-- **A successful completion needs the operation's own acknowledgement in its oneshot.** In any world, if a poll
    of the future of `id` logs `DONE id r` where `r` is not a local failure (`r` is `ok`, `okAck …` or an
    acknowledgement error `errAck …`), then the operation was waiting (`wait s k`), its oneshot `s` held a value
    `v`, the future was resumed with exactly that value, and `v` is either "written" for a fire-and-forget
    operation or a packet of the type the operation waits for (its content then determines `r`:
    `resumeOp_content`). -/
theorem completion_needs_filled_oneshot (w : World) (id : Nat) (r : DoneRes)
    (h : (w.pollOp id).out = w.out ++ [.done id r]) (hr : ∀ k, r ≠ .err k) :
    ∃ s k v, w.opSt id = some (.wait s k) ∧ w.slot s = some (.full v) ∧ w.pollOp id = w.resumeOp id s k v ∧
      ((v = .unit ∧ k = .ff) ∨ ∃ p, v = .pkt p ∧ Wait.accepts k p = true) := by
  rcases pollOp_out_cases w id with e | ⟨k, e⟩ | hfull | e
  · rw [e] at h
    have := congrArg List.length h
    simp at this
  · rw [e] at h
    have := List.append_cancel_left h
    simp only [List.cons.injEq, Obs.done.injEq, true_and, and_true] at this
    exact absurd this.symm (hr k)
  · exact hfull
  · rw [e] at h
    have := List.append_cancel_left h
    simp at this

/-- **The context fills a oneshot with a packet only for the waiter registered under that packet's own action
    identifier.** If a poll of the context task turns the empty oneshot `s` into one holding the packet `p`, then at
    some point `w1` of that poll (reached by context moves only) `p` was a well-formed inbound acknowledgement,
    `s` was registered in `awaiting_ack` under `aid = rxActionId p` — the action identifier built from `p`'s own
    packet type and packet identifier — and it was the first waiter under that identifier. Together with `awt` of
    `owned_oneshots_have_their_operations_kind` (the entry `(aid, s)` has the kind of the operation waiting on `s`)
    and `actionId_injective`, this is "only its own acknowledgement completes an operation" end to end. -/
theorem oneshot_filled_only_by_own_acknowledgement (w : World) (s : Nat) (p : RxPacket)
    (hs : w.slot s = some .empty) (hs' : w.pollCtx.slot s = some (.full (.pkt p))) :
    ∃ w1 aid pre post, Moves CtxTag w w1 ∧ p.wf ∧ rxActionId p = some aid ∧
      w1.c.awaiting = pre ++ (aid, s) :: post ∧ aid ∉ pre.map (·.1) ∧ w1.slot s = some .empty :=
  Moves.filled (fun _ h => h) (pollCtx_moves w) s p hs hs'

/-! ## non-vacuity and the id-reuse caveat -/

/-- a script with two outstanding pings (distinct ids) satisfies the hypotheses of section 3 -/
example : (opIds evsTwoPings).Nodup := by decide
example : Clean {} evsTwoPings := by decide

/-- a clean script that does reuse an id: operation 1 is dropped before its first poll (nothing was queued), then
    the id is issued again -/
example :
    let evs : List Ev := [.setup, .hold (.op 1), .op 1 0 .ping, .drop (.op 1), .release (.op 1), .op 1 0 .ping]
    Clean {} evs ∧ opIds evs = [1, 1] := by decide

/-- …and in the world it reaches both futures wait on their own oneshots, with their PINGREQ messages queued
    (the context has not been started): the invariants speak about a non-trivial world -/
example :
    let w := evsTwoPings.foldl World.step {}
    w.ops = [(1, .wait 2 .pingresp), (2, .wait 4 .pingresp)] ∧ ctxSlots w = [2, 4] ∧
    w.slot 2 = some .empty ∧ w.slot 4 = some .empty := by decide

/-- a completion is logged, once, for an issued operation (here: the context was dropped, the ping fails) -/
example :
    doneCount 1 (World.run {} [.setup, .dropCtx, .op 1 0 .ping]) = 1 ∧
    opCount 1 (World.run {} [.setup, .dropCtx, .op 1 0 .ping]) = 1 := by decide

/-- the serving world of `Lemmas/WorldEx.lean` has a well-formed operation table: `done_logged_only_by_own_poll`
    applies to it -/
example : OpsInv Ex.wRun := by
  refine ⟨by decide, ?_, ⟨by decide, by decide⟩⟩
  intro id s k h
  simp only [Ex.wRun, List.mem_cons, Prod.mk.injEq, OpSt.wait.injEq, List.not_mem_nil, or_false, reduceCtorEq,
    and_false] at h
  obtain ⟨rfl, rfl, rfl⟩ := h
  exact ⟨Or.inl ⟨rfl, by decide⟩, rfl⟩

/-- a future resumed with its own PUBACK: the hypotheses of `completion_needs_filled_oneshot` are satisfiable -/
example :
    let w : World := { Ex.wRun with slots := [(2, .full (.pkt (.puback { packetId := 1 })))] }
    (w.pollOp 1).out = w.out ++ [.done 1 .ok] := by decide

/-- a poll of the context that reads the PINGRESP fills the oneshot of the registered ping: the hypotheses of
    `oneshot_filled_only_by_own_acknowledgement` are satisfiable -/
example : wPing.slot 2 = some .empty ∧ wPing.pollCtx.slot 2 = some (.full (.pkt .pingresp)) := by
  have it1 : runIter wPing = .inl wPing1 := by
    unfold runIter
    simp [wPing, Ex.wServe, senders, Ex.pn_pingresp, Ex.dec_pingresp]
    rfl
  have it2 : runIter wPing1 = .inr { wPing1 with queueReg := true, readerReg := true } := by
    unfold runIter
    simp [wPing1, wPing, Ex.wServe, senders, pollNext_idle_nil]
  refine ⟨by decide, ?_⟩
  have h0 : wPing.pollCtx = runLoop wPing.loopFuel wPing := rfl
  have hf : wPing.loopFuel = 8 + 1 + 1 := by decide
  rw [h0, hf, runLoop_succ, it1]
  simp only
  rw [runLoop_succ, it2]
  rfl

/-- a clean script (a ping whose future is held back while the PINGRESP arrives) reaches a world in which the
    oneshot of the waiting operation is filled: the hypotheses of `filled_oneshot_matches_its_operation` are
    satisfiable, at script level, and its conclusion is the non-trivial "PINGRESP for a ping" -/
example :
    Clean {} evsFill ∧
    (evsFill.foldl World.step {}).opSt 1 = some (.wait 2 .pingresp) ∧
    (evsFill.foldl World.step {}).slot 2 = some (.full (.pkt .pingresp)) := by
  refine ⟨evsFill_clean, ?_, ?_⟩ <;> rw [evsFill_foldl] <;> decide

/-- **Id reuse (model caveat), 1.** If the script issues the id 1 again after dropping the first operation 1 whose
    PINGREQ is still queued, the two messages carry the same oneshot name: without the cleanliness hypothesis the
    oneshots the context owns are not pairwise distinct. -/
theorem reused_id_shares_a_oneshot :
    let evs : List Ev := [.setup, .op 1 0 .ping, .drop (.op 1), .op 1 0 .ping]
    ¬ Clean {} evs ∧ ctxSlots (evs.foldl World.step {}) = [2, 2] := by decide

/-- **Id reuse (model caveat), 2: the unconditional "`unreachable` is dead" is false in the model.** The script
    `setup, run, op 1 ping, drop (op 1), op 1 (QoS 1 publish), feed PINGRESP` is not clean — the publish is issued
    under id 1 while the dropped ping's waiter is still registered on oneshot 2 — and the PINGRESP completes
    oneshot 2, which now belongs to the publish: its future finds a PINGRESP where it expects a PUBACK and logs
    `PANIC op 1 unreachable`. (In the implementation the two uses of "oneshot 2" are different channel objects and
    the first one's receiver is gone; this is an artefact of naming oneshots after reusable script ids, not a
    defect of the client.) -/
theorem reused_id_reaches_unreachable :
    ¬ Clean {} evsReuse ∧ Obs.panic (.op 1) "unreachable" ∈ World.run {} evsReuse :=
  ⟨evsReuse_not_clean, evsReuse_unreachable⟩

#print axioms operation_table_well_formed
#print axioms opsInv_reachable
#print axioms each_operation_completes_at_most_once
#print axioms completions_bounded_by_issues
#print axioms done_logged_only_by_own_poll
#print axioms events_log_no_done
#print axioms clean_of_distinct_ids
#print axioms owned_oneshots_have_their_operations_kind
#print axioms owned_oneshots_of_issued_operations
#print axioms owned_oneshots_distinct
#print axioms filled_oneshot_matches_its_operation
#print axioms no_unreachable_panic
#print axioms no_unreachable_panic_of_distinct_ids
#print axioms completion_needs_filled_oneshot
#print axioms oneshot_filled_only_by_own_acknowledgement
#print axioms reused_id_shares_a_oneshot
#print axioms reused_id_reaches_unreachable

end Poster
