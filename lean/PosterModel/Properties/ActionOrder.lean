/-
  Properties/ActionOrder.lean — the ORDER in which `handle_message` / `handle_packet` act, and what a write fault leaves behind.

  `Ctx.handleMsg` / `Ctx.handlePkt` return their effects as a list in the order of the code's statements (`tx.write(..).await?`
  is the `.write`; `response_channel.send(..)` the `.send`; the fan-out to the streams the `.deliver`s), and `wok = false` is the
  transport refusing the write. Rounds 9–11 of the seeded changes (DESIGN.md section 12) moved statements across that write again
  and again (C14-i: reply before the write; C07-j: acknowledgement before the fan-out; C09-j: identifier recorded after the
  acknowledgement; C15-j: a refusal that ends `run()`; C10-b/C12-j: checks reordered). These theorems fix the order for EVERY
  context state and every request / packet:

    * one request, at most one write, and it is the request's own packet (`request_writes_only_its_own_packet`, `_at_most_once`);
    * `Ok(())` to a fire-and-forget caller only AFTER the write, only when the transport took it
      (`success_reply_follows_the_write`) — with TxStream's `write_all_ok_means_everything_written` (C01Tx): the caller is told
      "written" only when every byte of the packet is with the transport, also when the write was suspended in between;
    * a local refusal (size, quota) writes nothing, changes nothing, keeps `run()` serving (`refusal_writes_nothing`);
    * a refused write never reports success and ends the call with SocketClosed (`failed_write_reports_no_success`);
    * a write fault at an acknowledgement changes NOTHING but the outcome of the call: same bookkeeping, same deliveries
      (`ack_write_fault_changes_only_the_outcome`); the acknowledgement is the last action for a PUBLISH
      (`publish_ack_is_written_last`);
    * a PUBREL releases its identifier and is answered whatever its reason (`pubrel_releases_and_is_answered_whatever_its_reason`).
-/
import PosterModel.TxHandler
namespace Poster

/-- **One request, at most one write — the request's own packet, unchanged.** -/
theorem request_writes_only_its_own_packet (c : Ctx) (m : Msg) (wok : Bool) :
    ∀ e ∈ (c.handleMsg m wok).2.1, e.isWrite = true → e = .write m.pkt := by
  cases m <;> simp only [Ctx.handleMsg, Msg.pkt] <;> (repeat' split) <;> simp [Eff.isWrite]

theorem request_writes_at_most_once (c : Ctx) (m : Msg) (wok : Bool) :
    ((c.handleMsg m wok).2.1.filter Eff.isWrite).length ≤ 1 := by
  cases m <;> simp only [Ctx.handleMsg] <;> (repeat' split) <;> simp [List.filter, Eff.isWrite]

/-- **The reply "written" follows the write**: a success reply to the caller of a fire-and-forget request (`Ok(())`) occurs
    in exactly one shape of `handle_message`'s actions — first the write of the request's packet, then the reply, nothing
    else, and only when the transport took the write. It never precedes the write (seeded change C14-i moved it in front)
    and is never sent for a refused write. -/
theorem success_reply_follows_the_write (c : Ctx) (m : Msg) (wok : Bool) (s : Nat)
    (h : Eff.send s .unit ∈ (c.handleMsg m wok).2.1) :
    (c.handleMsg m wok).2.1 = [.write m.pkt, .send s .unit] ∧ wok = true := by
  cases m <;> simp only [Ctx.handleMsg, Msg.pkt] at h ⊢ <;> (repeat' split at h) <;> simp_all

/-- **A local refusal writes nothing and changes nothing**: when the reply is `MaximumPacketSizeExceeded` or
    `QuotaExceeded`, no byte goes to the transport and the context is as before. -/
theorem refusal_writes_nothing (c : Ctx) (m : Msg) (wok : Bool) (s : Nat) (v : SlotVal)
    (hv : v = .errSize ∨ v = .errQuota) (h : Eff.send s v ∈ (c.handleMsg m wok).2.1) :
    (∀ e ∈ (c.handleMsg m wok).2.1, e.isWrite = false) ∧ (c.handleMsg m wok).1 = c ∧ (c.handleMsg m wok).2.2 = .cont := by
  cases m <;> simp only [Ctx.handleMsg] at h ⊢ <;> (repeat' split at h) <;>
    (rcases hv with rfl | rfl) <;> simp_all [Eff.isWrite]

/-- **A refused write never reports success**, and (for everything but SUBSCRIBE, which registers before it writes —
    noted in DESIGN.md) registers nothing: the caller's oneshot is dropped, the call ends with SocketClosed. -/
theorem failed_write_reports_no_success (c : Ctx) (m : Msg) :
    (∀ s, Eff.send s .unit ∉ (c.handleMsg m false).2.1) ∧
    ((∃ b, Eff.write b ∈ (c.handleMsg m false).2.1) → (c.handleMsg m false).2.2 = .exitSocket) := by
  cases m <;> simp only [Ctx.handleMsg] <;> (repeat' split) <;> simp_all

end Poster

/-! ## non-vacuity -/
namespace Poster
example : (({} : Ctx).handleMsg (.ff [0xc0, 0x00] 4) true).2.1 = [.write [0xc0, 0x00], .send 4 .unit] := by decide
example : (({ maxPkt := some 1 } : Ctx).handleMsg (.ff [0xc0, 0x00] 4) true).2.1 = [.send 4 .errSize] := by decide
example : (({ quota := 0 } : Ctx).handleMsg (.awaitAck 7 [0x32, 0x00] 4) true).2.1 = [.send 4 .errQuota] := by decide
end Poster
#print axioms Poster.request_writes_only_its_own_packet
#print axioms Poster.request_writes_at_most_once
#print axioms Poster.success_reply_follows_the_write
#print axioms Poster.refusal_writes_nothing
#print axioms Poster.failed_write_reports_no_success

namespace Poster

/-- **A write fault at an acknowledgement changes nothing but the outcome of the call**: the bookkeeping (inbound QoS 2
    identifiers, subscriptions, quota, waiters) and everything handed to streams and callers are exactly what they are when
    the write succeeds — for every inbound packet. So a QoS 2 message whose PUBREC could not be written HAS been delivered
    and its identifier IS recorded: the broker's re-delivery on the next connection is neither lost (seeded change C07-j) nor
    yielded twice (C09-j). -/
theorem ack_write_fault_changes_only_the_outcome (c : Ctx) (alive : Nat → Bool) (p : RxPacket) :
    (c.handlePkt alive p false).1 = (c.handlePkt alive p true).1 ∧
    (c.handlePkt alive p false).2.1 = (c.handlePkt alive p true).2.1 := by
  cases p <;> simp only [Ctx.handlePkt] <;> (repeat' split) <;> simp_all

/-- the fan-out to the streams touches channels only -/
theorem dispatch_writes_nothing (alive : Nat → Bool) (pb : PublishRx) (ids : List Nat) :
    ∀ subs, ∀ e ∈ (Ctx.dispatch alive pb ids subs).2, e.isWrite = false := by
  induction ids with
  | nil => intro subs e he; simp [Ctx.dispatch] at he
  | cons sid rest ih =>
    intro subs e he
    simp only [Ctx.dispatch] at he
    split at he
    · exact ih subs e he
    · split at he
      · simp only [List.mem_cons] at he
        rcases he with rfl | he
        · rfl
        · exact ih subs e he
      · simp only [List.mem_cons] at he
        rcases he with rfl | he
        · rfl
        · exact ih _ e he

/-- **The acknowledgement is the last thing `handle_packet` does for a PUBLISH**: every delivery to a stream precedes the
    write of the PUBACK / PUBREC. -/
theorem publish_ack_is_written_last (c : Ctx) (alive : Nat → Bool) (pb : PublishRx) (wok : Bool) (pid : Nat)
    (h : pb.packetId = some pid) :
    ∃ deliveries, (c.handlePkt alive (.publish pb) wok).2.1 =
        deliveries ++ [.write (ackBytes (if pb.qos = 1 then 0x40 else 0x50) pid)] ∧
      ∀ e ∈ deliveries, e.isWrite = false := by
  simp only [Ctx.handlePkt, h]
  split
  · exact ⟨[], by simp, by simp⟩
  · exact ⟨_, rfl, dispatch_writes_nothing alive pb _ _⟩

/-- **A PUBREL releases its identifier and is answered with PUBCOMP whatever its reason code** (0x92 included: seeded
    changes C07-k and C08-j). -/
theorem pubrel_releases_and_is_answered_whatever_its_reason (c : Ctx) (alive : Nat → Bool) (a : AckRx) (wok : Bool) :
    (c.handlePkt alive (.pubrel a) wok).1.inQos2 = c.inQos2.filter (· ≠ a.packetId) ∧
    (c.handlePkt alive (.pubrel a) wok).2.1 = [.write (ackBytes 0x70 a.packetId)] := by
  simp [Ctx.handlePkt]

end Poster
#print axioms Poster.ack_write_fault_changes_only_the_outcome
#print axioms Poster.dispatch_writes_nothing
#print axioms Poster.publish_ack_is_written_last
#print axioms Poster.pubrel_releases_and_is_answered_whatever_its_reason
