/-
  Properties/C14World.lean — C14 end to end, over every script.

  C14: "Once the Context has been dropped (normally right after run() returned), every operation still pending
  on any handle completes with ContextExited, every operation started afterwards fails with ContextExited
  immediately, and every subscription stream yields the messages it had already received and then ends. No
  future obtained from the library stays pending forever after that point."

  Properties/C14.lean proves the single-step facts. This file proves that they compose: the sender-ownership
  invariant `World.OwnInv` (Lemmas/WorldOwn.lean) holds in every world reachable by any script, so that at the
  moment the context is dropped every oneshot an operation still waits on, and every subscription channel with a
  live sender, IS one of the senders `DROPCTX` drops; and afterwards nothing can be left waiting.
  Model: `World.step`, `World.apply .dropCtx`, `World.pollOp`, `World.startOp`, `World.pollStream`, `World.pick`.
  Helper lemmas: Lemmas/WorldOwnAct.lean, WorldOwnCtx.lean, WorldOwn.lean, WorldOwnDrop.lean.
-/
import PosterModel.Lemmas.WorldOwnDrop
import PosterModel.Lemmas.WorldOwnFuel
import PosterModel.Lemmas.WorldOwnStream
import PosterModel.Lemmas.WorldOwnIds
import PosterModel.Lemmas.WorldOwnEx
import PosterModel.Properties.C14
import PosterModel.Lemmas.WorldEx

set_option linter.unusedVariables false
set_option linter.unusedSimpArgs false

namespace Poster
open Framing World

/-- **While the context exists, every sender somebody still waits for is inside the context.** In every world
    `w` reachable by any script in which the context exists: an operation waiting on a oneshot that has no
    value yet has its waker registered on that oneshot, the oneshot is one of the operation's own two
    (`s / 2 = id`, so the waker wakes this very operation), and the oneshot's sender sits in a queued message or
    in `awaiting_ack`; an operation whose oneshot already has a value (or is closed) is flagged for the executor;
    every subscription channel whose sending half is alive has it in a queued SUBSCRIBE or in `subscriptions`. -/
theorem senders_are_owned (cfg : Cfg) (evs : List Ev) (w : World) (hw : w = evs.foldl World.step { cfg := cfg }) :
    (∀ id s k, (id, OpSt.wait s k) ∈ w.ops → s / 2 = id ∧ w.slot s ≠ none) ∧
    (∀ id s k, (id, OpSt.wait s k) ∈ w.ops → w.slot s = some .empty →
      w.hasCtx = true ∧ s ∈ w.slotReg ∧ OwnsSlot w s) ∧
    (∀ id s k, (id, OpSt.wait s k) ∈ w.ops → w.slot s ≠ some .empty → Task.op id ∈ w.woken) ∧
    (∀ id hd req, (id, OpSt.fresh hd req) ∈ w.ops → Task.op id ∈ w.woken) ∧
    (∀ ch c0, w.chan ch = some c0 → c0.txAlive = true → w.hasCtx = true ∧ OwnsChan w ch) := by
  have h : OwnInv w := hw ▸ ownInv_script cfg evs
  refine ⟨fun id s k hm => ?_, fun id s k hm he => ?_, fun id s k hm hne => ?_, fun id hd req hm => ?_, h.chanOwn⟩
  · have hop := h.opSt_of_mem hm
    exact ⟨(h.slotOf id s k hop).half, h.slotSome id s k hop⟩
  · have hop := h.opSt_of_mem hm
    exact ⟨(h.waitOwn id s k hop he).1, h.waitReg id s k hop he, (h.waitOwn id s k hop he).2⟩
  · exact h.waitDone id s k (h.opSt_of_mem hm) hne
  · exact h.freshWoken id hd req (h.opSt_of_mem hm)

/-- **After the context is dropped no sender is left anywhere.** In every reachable world in which the context
    has been dropped: the context does not exist (it cannot come back); every oneshot a pending operation waits
    on is closed or already holds its value — none is still `empty`; every pending operation (waiting, or not
    yet polled) is flagged for the executor; every subscription channel has lost its sending half. -/
theorem after_drop_all_senders_gone (cfg : Cfg) (evs : List Ev) (w : World)
    (hw : w = evs.foldl World.step { cfg := cfg }) (hd : w.ctxDropped = true) :
    w.hasCtx = false ∧
    (∀ id s k, (id, OpSt.wait s k) ∈ w.ops → w.slot s = some .closed ∨ ∃ v, w.slot s = some (.full v)) ∧
    (∀ id st, (id, st) ∈ w.ops → Task.op id ∈ w.woken) ∧
    (∀ ch c0, w.chan ch = some c0 → c0.txAlive = false) := by
  have h : OwnInv w := hw ▸ ownInv_script cfg evs
  have hc := h.dropped hd
  exact ⟨hc, fun id s k hm => h.wait_settled hc id s k (h.opSt_of_mem hm),
    fun id st hm => h.op_flagged hc id st (h.opSt_of_mem hm), fun ch c0 hch => h.chan_shut hc ch c0 hch⟩

/-- **No operation hangs once the context is gone.** For every script and every world `w` it reaches in which
    the context has been dropped, and every operation `id` still pending in `w`:
    * its task is flagged for the executor (so the executor polls it unless the script holds it) — and if the
      executor is quiescent (`pick = none`) the script does hold it;
    * a single poll completes it: afterwards the operation is gone, and exactly one observation was appended:
      - an operation that was never polled fails with `ContextExited` (or `CodecError` for a request that is
        refused before it would be sent);
      - a waiting operation whose oneshot was closed completes with `ContextExited`;
      - a waiting operation whose acknowledgement had already reached its oneshot is resumed with that value, as
        if the context were alive, and completes in that same poll (a QoS 2 publish whose PUBREC was good then
        fails with `ContextExited` when it tries to send the PUBREL: `resume_after_drop`). -/
theorem no_op_hangs_after_drop (cfg : Cfg) (evs : List Ev) (w : World)
    (hw : w = evs.foldl World.step { cfg := cfg }) (hd : w.ctxDropped = true)
    (id : Nat) (st : OpSt) (hm : (id, st) ∈ w.ops) :
    Task.op id ∈ w.woken ∧ (w.pick = none → Task.op id ∈ w.held) ∧
    (w.pollOp id).opSt id = none ∧ (w.pollOp id).ops = eraseFirst id w.ops ∧
    (match st with
     | .fresh _ _ => ∃ k, (k = ErrKind.contextExited ∨ k = ErrKind.codecError) ∧
         (w.pollOp id).out = w.out ++ [.done id (.err k)]
     | .wait s k =>
        (w.slot s = some .closed ∧ (w.pollOp id).out = w.out ++ [.done id (.err .contextExited)]) ∨
        (∃ v, w.slot s = some (.full v) ∧ w.pollOp id = w.resumeOp id s k v ∧
          ∃ o, OpEnd id o ∧ (w.pollOp id).out = w.out ++ [o])) := by
  have h : OwnInv w := hw ▸ ownInv_script cfg evs
  have hc := h.dropped hd
  have hop := h.opSt_of_mem hm
  have hfl := h.op_flagged hc id st hop
  obtain ⟨a1, a2, o, a3, a4⟩ := pollOp_no_ctx w h hc id st hop
  refine ⟨hfl, fun hp => pick_none_held w _ hp hfl (by simp [taskLive, hop]), a2, a1, ?_⟩
  cases st with
  | fresh hd' req =>
    obtain ⟨k, hk, e1, _⟩ := fresh_op_after_drop w id hd' req hop hc
    exact ⟨k, hk, e1⟩
  | wait s k =>
    rcases h.wait_settled hc id s k hop with e | ⟨v, e⟩
    · exact Or.inl ⟨e, (closed_slot_completes w id s k hop e).2.1⟩
    · exact Or.inr ⟨v, e, by simp [pollOp, hop, e], o, a3, a4⟩

/-- **When the executor has run to quiescence after the drop, every operation that is still there is one the
    script holds back.** In other words every operation the executor was allowed to poll has completed. -/
theorem ops_held_when_quiescent (cfg : Cfg) (evs : List Ev) (w : World)
    (hw : w = evs.foldl World.step { cfg := cfg }) (hd : w.ctxDropped = true) (hq : w.pick = none) :
    ∀ id st, (id, st) ∈ w.ops → Task.op id ∈ w.held :=
  fun id st hm => (no_op_hangs_after_drop cfg evs w hw hd id st hm).2.1 hq

/-- **The executor's fuel suffices once the context is gone.** After every step of every script, if the context
    has been dropped the executor has run to quiescence: no flagged live task that the script does not hold is
    left. (Every poll of an operation completes it, every poll of a stream takes an item, ends the stream or uses
    up its flag, so a potential bounded by `drainFuel` decreases with every poll; an event the script is not
    allowed to issue changes nothing but the log.) -/
theorem executor_quiescent_after_drop (cfg : Cfg) (evs : List Ev) (w : World)
    (hw : w = evs.foldl World.step { cfg := cfg }) (hd : w.ctxDropped = true) :
    w.pick = none := by
  subst hw; exact quiet_script cfg evs hd

/-- **No future stays pending after the drop: every operation the script does not hold back has completed.**
    After every step of every script, if the context has been dropped, the only operations still
    present are those whose task the script holds (`HOLD op id`); all others have been polled by the executor
    and — by `no_op_hangs_after_drop` — completed in that poll. As soon as the script releases a held
    operation, the next step's drain completes it as well. -/
theorem no_op_left_after_drop (cfg : Cfg) (evs : List Ev) (w : World)
    (hw : w = evs.foldl World.step { cfg := cfg }) (hd : w.ctxDropped = true) :
    ∀ id st, (id, st) ∈ w.ops → Task.op id ∈ w.held :=
  ops_held_when_quiescent cfg evs w hw hd (executor_quiescent_after_drop cfg evs w hw hd)

/-- … in particular, with nothing held, no operation is left at all -/
theorem no_op_left_after_drop_unheld (cfg : Cfg) (evs : List Ev) (w : World)
    (hw : w = evs.foldl World.step { cfg := cfg }) (hd : w.ctxDropped = true)
    (hh : w.held = []) : w.ops = [] := by
  cases ho : w.ops with
  | nil => rfl
  | cons x t =>
    obtain ⟨id, st⟩ := x
    have := no_op_left_after_drop cfg evs w hw hd id st (by rw [ho]; exact List.mem_cons_self)
    rw [hh] at this; cases this

/-- **An operation started after the drop fails at once.** In every reachable world in which the context has
    been dropped, the first poll of a new operation (any request) emits `DONE id Err(ContextExited)` — or
    `Err(CodecError)` for a request refused before it would be sent — and removes the operation: it never waits. -/
theorem op_started_after_drop_fails_at_once (cfg : Cfg) (evs : List Ev) (w : World)
    (hw : w = evs.foldl World.step { cfg := cfg }) (hd : w.ctxDropped = true) (id : Nat) (req : Req) :
    ∃ k, (k = ErrKind.contextExited ∨ k = ErrKind.codecError) ∧
      (w.startOp id req).out = w.out ++ [.done id (.err k)] ∧
      (w.startOp id req).ops = eraseFirst id w.ops ∧ (w.startOp id req).opSt id = none := by
  have h : OwnInv w := hw ▸ ownInv_script cfg evs
  obtain ⟨k, hk, e1, e2⟩ := start_after_drop w id req (h.dropped hd)
  refine ⟨k, hk, e1, e2, ?_⟩
  simp only [opSt, e2]
  exact lookupFirst_eraseFirst_self _ _ h.nodup

/-- **Every subscription stream drains, then ends** (the part that does not depend on who polls it). In every
    reachable world in which the context has been dropped, every existing subscription channel has lost its
    sender; hence a stream with `n` buffered messages, polled `n + 1` times, yields exactly those messages in
    order, then `END`, and is gone — it never returns `Pending` again.
    (That the executor does poll it — the stream's task being flagged — additionally needs that the script does
    not start a new operation under the identifier of a stream that is still alive, an artefact of the model's
    identifier scheme; see the report.) -/
theorem streams_end_after_drop_partial (cfg : Cfg) (evs : List Ev) (w : World)
    (hw : w = evs.foldl World.step { cfg := cfg }) (hd : w.ctxDropped = true)
    (id : Nat) (ch : Chan) (hst : id ∈ w.streams) (hc : w.chan id = some ch) :
    ch.txAlive = false ∧
    (World.pollStreamTimes id (ch.buf.length + 1) w).out = w.out ++ ch.buf.map (Obs.item id) ++ [.endStream id] ∧
    id ∉ (World.pollStreamTimes id (ch.buf.length + 1) w).streams := by
  have h : OwnInv w := hw ▸ ownInv_script cfg evs
  have ht := h.chan_shut (h.dropped hd) id ch hc
  obtain ⟨a, b, _⟩ := stream_ends_after_n_plus_one w id ch hst hc ht
  exact ⟨ht, a, b⟩

/-- **Every live stream is polled after the drop** (general form: from any world in which the two invariants
    hold). Along a script that never starts an operation under the identifier of a response or stream that is
    still alive (`GoodFrom`: the model names the response channel of a `subscribe` after the operation's
    identifier, so such a re-use would overwrite a live stream's channel — no real client can do that), in every
    world in which the context has been dropped, every stream still has its channel, the channel's sending half
    is gone, and the stream's task is flagged for the executor — so the executor polls it, and each poll yields a
    buffered message or ends the stream (`stream_ends_after_n_plus_one`); if the executor is quiescent, the
    stream is one the script holds back. -/
theorem streams_flagged_after_drop_from (w0 : World) (h0 : World.Both w0) (evs : List Ev)
    (hg : World.GoodFrom w0 evs) (w : World) (hw : w = evs.foldl World.step w0) (hd : w.ctxDropped = true) :
    ∀ id, id ∈ w.streams → ∃ ch, w.chan id = some ch ∧ ch.txAlive = false ∧ Task.st id ∈ w.woken ∧
      (w.pick = none → Task.st id ∈ w.held) := by
  have hb : World.Both w := hw ▸ World.both_steps evs w0 h0 hg
  intro id hid
  obtain ⟨ch, hch, hfl⟩ := hb.str.strOk id hid
  have ht := hb.own.chan_shut (hb.own.dropped hd) id ch hch
  have hwk : Task.st id ∈ w.woken := by
    rcases hfl with hfl | ⟨_, _, hfl⟩
    · exact hfl
    · rw [ht] at hfl; cases hfl
  exact ⟨ch, hch, ht, hwk, fun hp => pick_none_held w _ hp hwk (by simp [taskLive, hid])⟩

/-- **Every subscription stream yields what it had received and then ends.** For every script that does not
    re-use the identifier of a live response or stream, and every world `w` it reaches in which the context has
    been dropped: every stream in `w` has its channel with the sending half gone and is flagged for the
    executor; polling it `n + 1` times, `n` the number of buffered messages, yields exactly those messages in
    order, then `END`, after which the stream is gone. -/
theorem streams_end_after_drop (cfg : Cfg) (evs : List Ev) (w : World)
    (hw : w = evs.foldl World.step { cfg := cfg }) (hg : World.GoodFrom { cfg := cfg } evs)
    (hd : w.ctxDropped = true) (id : Nat) (hid : id ∈ w.streams) :
    ∃ ch, w.chan id = some ch ∧ ch.txAlive = false ∧ Task.st id ∈ w.woken ∧
      (w.pick = none → Task.st id ∈ w.held) ∧
      (World.pollStreamTimes id (ch.buf.length + 1) w).out = w.out ++ ch.buf.map (Obs.item id) ++ [.endStream id] ∧
      id ∉ (World.pollStreamTimes id (ch.buf.length + 1) w).streams := by
  obtain ⟨ch, a, b, c, d⟩ := streams_flagged_after_drop_from { cfg := cfg }
    ⟨ownInv_init cfg, strInv_init cfg⟩ evs hg w hw hd id hid
  obtain ⟨e1, e2, _⟩ := stream_ends_after_n_plus_one w id ch hid a b
  exact ⟨ch, a, b, c, d, e1, e2⟩

/-- **No stream stays pending after the drop.** After every step of every script that does not re-use
    the identifier of a live response or stream, if the context has been dropped, the only streams still present
    are those whose task the script holds back; every other stream has been polled to its end by the executor:
    it yielded its buffered messages and `END` (`stream_ends_after_n_plus_one`). -/
theorem no_stream_left_after_drop (cfg : Cfg) (evs : List Ev) (w : World)
    (hw : w = evs.foldl World.step { cfg := cfg }) (hg : World.GoodFrom { cfg := cfg } evs)
    (hd : w.ctxDropped = true) : ∀ id, id ∈ w.streams → Task.st id ∈ w.held := by
  intro id hid
  obtain ⟨_, _, _, _, h, _⟩ := streams_end_after_drop cfg evs w hw hg hd id hid
  exact h (executor_quiescent_after_drop cfg evs w hw hd)

/-- **A script that uses every operation identifier once is a good one**: it never starts an operation under the
    identifier of a response or stream that is still alive (identifiers get into `rsps` / `streams` only from
    `OP` events). -/
theorem distinct_ids_good (cfg : Cfg) (evs : List Ev) (hn : (World.opIds evs).Nodup) :
    World.GoodFrom { cfg := cfg } evs := World.goodFrom_script cfg evs hn

/-- **C14, end to end: nothing obtained from the library stays pending once the context is gone.** For every
    script whose `OP` events use pairwise distinct identifiers, after every step, if the context has been dropped:
    every operation and every subscription stream still present is one the script explicitly holds back
    (`HOLD`); every other operation has completed (with `ContextExited`, or with the result that had already
    reached it — `no_op_hangs_after_drop`), every other stream has yielded its buffered messages and ended
    (`streams_end_after_drop`); and the executor is quiescent. -/
theorem nothing_pending_after_drop (cfg : Cfg) (evs : List Ev) (w : World)
    (hw : w = evs.foldl World.step { cfg := cfg }) (hn : (World.opIds evs).Nodup) (hd : w.ctxDropped = true) :
    w.pick = none ∧ (∀ id st, (id, st) ∈ w.ops → Task.op id ∈ w.held) ∧
    (∀ id, id ∈ w.streams → Task.st id ∈ w.held) :=
  ⟨executor_quiescent_after_drop cfg evs w hw hd, no_op_left_after_drop cfg evs w hw hd,
    no_stream_left_after_drop cfg evs w hw (distinct_ids_good cfg evs hn) hd⟩

/-! ## Non-vacuity -/
section NonVacuity
open Ex

/-- the transcript: the pending publish completes with `ContextExited` in the very step of the drop -/
example : World.run {} scrDrop =
    [.ev .setup, .ev (.op 1 0 (.publish { topic := some [0x61], qos := 1 })), .ev .dropCtx,
     .done 1 (.err .contextExited)] := by decide

/-- before the drop the hypotheses of `senders_are_owned` are met non-trivially: operation 1 waits on the empty,
    registered oneshot 2 whose sender sits in the queued message -/
example : (scrDrop.dropLast.foldl World.step {}).ops = [(1, .wait 2 .puback)] ∧
    (scrDrop.dropLast.foldl World.step {}).slot 2 = some .empty ∧
    (scrDrop.dropLast.foldl World.step {}).slotReg = [2] ∧
    (scrDrop.dropLast.foldl World.step {}).queue.map Msg.slot = [2] := by decide

/-- `Ex.scrHeld` (the same with the operation held back): after the drop the operation is still there
    (`no_op_hangs_after_drop` applies to it), its oneshot is closed, it is flagged, held, the executor is
    quiescent, and a poll completes it with `ContextExited` -/
example : (scrHeld.foldl World.step {}).ctxDropped = true ∧
    (scrHeld.foldl World.step {}).ops = [(1, .wait 2 .puback)] ∧
    (scrHeld.foldl World.step {}).slot 2 = some .closed ∧
    Task.op 1 ∈ (scrHeld.foldl World.step {}).woken ∧ Task.op 1 ∈ (scrHeld.foldl World.step {}).held ∧
    (scrHeld.foldl World.step {}).pick = none ∧
    ((scrHeld.foldl World.step {}).pollOp 1).out =
      (scrHeld.foldl World.step {}).out ++ [.done 1 (.err .contextExited)] := by decide

/-- an operation started after the drop fails in the same step (`op_started_after_drop_fails_at_once`) -/
example : World.run {} (scrDrop ++ [.op 2 0 .ping]) =
    [.ev .setup, .ev (.op 1 0 (.publish { topic := some [0x61], qos := 1 })), .ev .dropCtx,
     .done 1 (.err .contextExited), .ev (.op 2 0 .ping), .done 2 (.err .contextExited)] := by decide

/-- `Ex.scrThree`: three operations pending (a QoS 1 publish waiting for its PUBACK, a subscribe, a ping not yet
    polled and held), then the drop; the two the executor may poll complete with `ContextExited`, the held one
    remains; released, it completes in the next step -/
example : (scrThree.foldl World.step {}).bad = false ∧ (scrThree.foldl World.step {}).ctxDropped = true ∧
    (scrThree.foldl World.step {}).ops = [(3, .fresh 0 .ping)] ∧
    (scrThree.foldl World.step {}).held = [.op 3] ∧ (scrThree.foldl World.step {}).pick = none ∧
    (World.run {} scrThree).drop 6 = [.done 1 (.err .contextExited), .done 2 (.err .contextExited)] ∧
    (World.run {} (scrThree ++ [.release (.op 3)])).drop 8 =
      [.ev (.release (.op 3)), .done 3 (.err .contextExited)] := by decide

/-- the drop, with the stream held back: the stream is still there, its channel's sender is gone, it is flagged
    and held, the executor is quiescent (`streams_flagged_after_drop_from` applies non-trivially) … -/
example : World.GoodFrom wSub [.hold (.st 1), .dropCtx] ∧
    ([Ev.hold (.st 1), .dropCtx].foldl World.step wSub).ctxDropped = true ∧
    ([Ev.hold (.st 1), .dropCtx].foldl World.step wSub).streams = [1] ∧
    ([Ev.hold (.st 1), .dropCtx].foldl World.step wSub).chan 1 = some { buf := [], txAlive := false, reg := false } ∧
    Task.st 1 ∈ ([Ev.hold (.st 1), .dropCtx].foldl World.step wSub).woken ∧
    Task.st 1 ∈ ([Ev.hold (.st 1), .dropCtx].foldl World.step wSub).held ∧
    ([Ev.hold (.st 1), .dropCtx].foldl World.step wSub).pick = none := by
  refine ⟨⟨trivial, trivial, trivial⟩, ?_⟩
  decide

/-- … released, it ends in that step; and without the hold it ends in the very step of the drop -/
example : ([Ev.hold (.st 1), .dropCtx, .release (.st 1)].foldl World.step wSub).out =
      [.ev (.hold (.st 1)), .ev .dropCtx, .ev (.release (.st 1)), .endStream 1] ∧
    ([Ev.hold (.st 1), .dropCtx, .release (.st 1)].foldl World.step wSub).streams = [] ∧
    ([Ev.dropCtx].foldl World.step wSub).out = [.ev .dropCtx, .endStream 1] ∧
    ([Ev.dropCtx].foldl World.step wSub).streams = [] := by decide

/-- **`GoodFrom` is needed** (an artefact of the model's identifier scheme, not of the client): with the context
    task held back, a second `subscribe` under the identifier 1 of the live stream replaces the stream's channel
    by a fresh one on which the stream is not registered; the drop then closes that channel without waking the
    stream, which is left in the world, neither flagged nor held, with the executor quiescent -/
example : ¬ World.GoodFrom wSub [.hold .ctx, .op 1 0 (.subscribe { packetId := 0, filters := [([0x61], {})] }), .dropCtx] ∧
    ([Ev.hold .ctx, .op 1 0 (.subscribe { packetId := 0, filters := [([0x61], {})] }), .dropCtx].foldl
      World.step wSub).streams = [1] ∧
    Task.st 1 ∉ ([Ev.hold .ctx, .op 1 0 (.subscribe { packetId := 0, filters := [([0x61], {})] }), .dropCtx].foldl
      World.step wSub).woken ∧
    Task.st 1 ∉ ([Ev.hold .ctx, .op 1 0 (.subscribe { packetId := 0, filters := [([0x61], {})] }), .dropCtx].foldl
      World.step wSub).held ∧
    ([Ev.hold .ctx, .op 1 0 (.subscribe { packetId := 0, filters := [([0x61], {})] }), .dropCtx].foldl
      World.step wSub).pick = none := by
  refine ⟨fun h => ?_, by decide⟩
  have := h.2.1.2
  revert this
  decide

/-- the script `scrThree` uses distinct identifiers (hypothesis of `nothing_pending_after_drop`) … -/
example : (World.opIds scrThree).Nodup := by decide

/-- … so the theorem applies to it: whatever is left after the drop is held by the script -/
example : ∀ id st, (id, st) ∈ (scrThree.foldl World.step {}).ops → Task.op id ∈ (scrThree.foldl World.step {}).held :=
  (nothing_pending_after_drop {} scrThree _ rfl (by decide) (by decide)).2.1

/-- the scripts of the examples above do not re-use a live stream identifier -/
example : World.GoodFrom {} scrThree := by
  refine ⟨trivial, ⟨by decide, by decide⟩, ⟨by decide, by decide⟩, trivial, ⟨by decide, by decide⟩, trivial, trivial⟩

end NonVacuity

#print axioms senders_are_owned
#print axioms after_drop_all_senders_gone
#print axioms no_op_hangs_after_drop
#print axioms ops_held_when_quiescent
#print axioms executor_quiescent_after_drop
#print axioms no_op_left_after_drop
#print axioms no_op_left_after_drop_unheld
#print axioms op_started_after_drop_fails_at_once
#print axioms streams_end_after_drop_partial
#print axioms streams_flagged_after_drop_from
#print axioms streams_end_after_drop
#print axioms no_stream_left_after_drop
#print axioms distinct_ids_good
#print axioms nothing_pending_after_drop

end Poster
