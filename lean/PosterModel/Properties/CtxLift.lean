/-
  Properties/CtxLift.lean — the context-level properties C08, C09, C10, C12, C17 hold for whole executions of the client.

  The property files C08–C17 prove their statements for every history `Ctx.serve c is` of the serving loop. Here they are
  transported to the whole-client machine `World` (PosterModel/World.lean):

    * per poll: one poll of the `select!` loop of `run()` (`World.runLoop f w`, any fuel, any world) drives the context
      through exactly the served history `World.loopHist f w` (Lemmas/WorldCtx.lean, `runLoop_pollServe`), whose inputs are
      well formed (inbound packets are what the decoder produced); so every per-history theorem applies to it, and with an
      unlimited transport the bytes the poll hands to the transport are exactly the writes of that history;
    * per script: along every script the context moves only by the transitions `CtxTrans` (`run_ctxTrans`), so every
      invariant of those transitions holds in every reachable world (`ctx_invariant_lifts`).

  Vocabulary
    `World.loopHist f w`   the inputs (`CIn`) the iterations of one poll of the loop hand to `handle_message` /
                           `handle_packet`, in order: a queued message `m` as `.msg m wok`, a decoded inbound packet `p` as
                           `.pkt p w.deadOf wok`, where `wok` = the transport can take the handler's write and `w.deadOf` =
                           the registered subscription channels whose receiver is gone
    `World.sent w`         all bytes handed to the transport so far (the `W` / `WRAW` lines of the log and the bytes of the
                           packet not yet complete)
    `World.histWrites t`   the byte strings written while serving the history `t`, in order
    `obsWire o`            for a handled inbound packet the acknowledgement owed, for a handled request what it wrote
-/
import PosterModel.Lemmas.WorldCtx
import PosterModel.Lemmas.WorldEx
import PosterModel.Properties.C08
import PosterModel.Properties.C09
import PosterModel.Properties.C10
import PosterModel.Properties.C12
import PosterModel.Properties.C17

set_option linter.unusedVariables false
set_option linter.unusedSimpArgs false

namespace Poster
open Framing

/-! ## whole scripts -/

/-- **Every script moves the context only by the documented transitions.** Whatever the configuration and whatever the
    script (setup, connect, authorize, run, feeding bytes, requests, polls, drops, …), the context of the world reached is
    obtained from the fresh context by: handling one well-formed input of the serving loop, handling a CONNACK, recording
    the session expiry interval of a CONNECT, recording the disconnection time, resuming the session, or starting afresh.
    Nothing else — no handle future, no stream, no executor step — ever touches the context. -/
theorem world_ctx_transitions (cfg : Cfg) (evs : List Ev) :
    CtxTrans {} (evs.foldl World.step { cfg := cfg }).c :=
  World.run_ctxTrans cfg evs

/-- **The send quota never exceeds Receive Maximum, in every reachable world** (C10 `quota_bounded`, lifted): after any
    script the number of free QoS>0 publish slots is at most the Receive Maximum announced by the broker (65535 before any
    CONNACK) — the guarded increment never overflows, even when the broker acknowledges things twice, across reconnects and
    session resets. -/
theorem world_quota_bounded (cfg : Cfg) (evs : List Ev) :
    let w := evs.foldl World.step { cfg := cfg }
    w.c.quota ≤ w.c.recvMax := by
  refine World.ctx_invariant_lifts (fun c => c.quota ≤ c.recvMax) (by decide) (fun c i _ h => quota_bounded c i h)
    ?_ (fun c n h => h) (fun c n h => h) ?_ cfg evs
  · intro c k _; simp [Ctx.handleConnack]
  · intro c h
    rcases Ctx.resume_fst_cases c with e | e | e <;> rw [e] <;> exact h

/-- inbound QoS 2 bookkeeping keeps its identifiers distinct through one handled input -/
theorem step_inQos2_nodup (c : Ctx) (i : CIn) (h : c.inQos2.Nodup) : (c.stepIn i).1.inQos2.Nodup := by
  rw [step_inQos2]
  cases i with
  | msg m wok => simpa [Ctx.stepIn, q2Step] using h
  | pkt p dead wok =>
    simp only [Ctx.stepIn]
    cases p with
    | publish pb =>
      simp only [q2Step]
      split
      · rename_i hq
        exact List.nodup_append.mpr ⟨h, by simp, by
          intro a ha b hb; simp at hb; subst hb; intro hab; subst hab; exact hq.2 ha⟩
      · exact h
    | pubrel a => simp only [q2Step]; exact h.filter _
    | _ => simpa [q2Step] using h

/-- **`inbound_qos2` never holds an identifier twice, in every reachable world** (C09, lifted): the list of QoS 2 packet
    identifiers answered with PUBREC and not yet released has no duplicates after any script — so a PUBREL removes the
    identifier completely and the next PUBLISH carrying it is delivered as a new message. -/
theorem world_inQos2 (cfg : Cfg) (evs : List Ev) : (evs.foldl World.step { cfg := cfg }).c.inQos2.Nodup := by
  refine World.ctx_invariant_lifts (fun c => c.inQos2.Nodup) (by simp) (fun c i _ h => step_inQos2_nodup c i h)
    ?_ (fun c n h => h) (fun c n h => h) ?_ cfg evs
  · intro c k h; rw [(Ctx.handleConnack_frame c k).1]; exact h
  · intro c h
    rcases Ctx.resume_fst_cases c with e | e | e <;> rw [e]
    · exact h
    · exact h
    · simp

/-! ## one poll of `run()` -/

/-- **One poll of the loop is a served history.** For every world and every fuel, the poll hands the inputs
    `World.loopHist f w` to the handlers: each is well formed, none is skipped, all but possibly the last let the loop go on,
    the context afterwards is the one `Ctx.serve` computes; if the last one ends `run()` the task is over and returns the
    result of that flow; and with an unlimited transport the bytes handed to the transport by the poll are exactly the
    writes of the history, in order. -/
theorem world_poll_is_serve (f : Nat) (w : World) :
    World.PollServe w (World.runLoop f w) (World.loopHist f w) :=
  World.runLoop_pollServe f w

/-- under `RxPacket.wf` the writes of a history are what the protocol expects for each handled input -/
theorem histWrites_eq_wire (c : Ctx) (is : List CIn) (h : ∀ i ∈ is, i.wf) :
    World.histWrites (c.serve is).2 = (c.serve is).2.flatMap obsWire := by
  have hall : ∀ o ∈ (c.serve is).2, writesOf o.effs = obsWire o := by
    intro o ho
    obtain ⟨c', i, hi, rfl⟩ := Ctx.serve_obs c is o ho
    have hs := step_acks c' i (h i hi)
    cases i with
    | msg m wok => rfl
    | pkt p dead wok => simpa [Ctx.stepIn, CObs.effs, obsWire] using hs
  unfold World.histWrites
  generalize (c.serve is).2 = t at hall
  induction t with
  | nil => rfl
  | cons o t ih =>
    simp only [List.flatMap_cons]
    rw [hall o (by simp), ih (fun o' ho' => hall o' (by simp [ho']))]

/-- **Acknowledgements are exact in every poll of `run()`, down to the bytes on the transport** (C08, lifted). For every
    world and fuel, with `t` the history the poll serves: every handled inbound packet is answered with exactly the
    acknowledgement owed and every handled request with nothing or its own packet (`P_C08`); the acknowledgements written
    are the ones owed, in arrival order; and if the transport is unlimited, the bytes the poll hands to the transport are
    exactly, in order, for each handled packet its owed acknowledgement and for each handled request what it wrote. -/
theorem world_poll_acks_exact (f : Nat) (w : World) :
    let t := (w.c.serve (World.loopHist f w)).2
    (World.runLoop f w).c = (w.c.serve (World.loopHist f w)).1 ∧
    P_C08 t = true ∧ pktWrites t = pktOwed t ∧
    (w.cfg.wlimit = none → (World.runLoop f w).sent = w.sent ++ (t.flatMap obsWire).flatten) := by
  have h := World.runLoop_pollServe f w
  refine ⟨h.c_eq, acks_exact _ _ h.wf, acks_in_arrival_order _ _ h.wf, fun hl => ?_⟩
  rw [h.sent_eq hl, histWrites_eq_wire _ _ h.wf]

/-- **The bytes of a poll under a write limit.** Whatever the write limit of the transport: if the transport took the write of
    every handler of the poll (every input of the history has `wok = true`), the bytes the poll hands to the transport are
    exactly, in order, the acknowledgement owed for each handled packet and what each handled request wrote; and in any case
    (a write cut short by the limit) the poll only appends to what the transport was handed before. -/
theorem world_poll_bytes (f : Nat) (w : World) :
    ((∀ i ∈ World.loopHist f w, i.wok = true) →
      (World.runLoop f w).sent = w.sent ++ ((w.c.serve (World.loopHist f w)).2.flatMap obsWire).flatten) ∧
    ∃ more, (World.runLoop f w).sent = w.sent ++ more := by
  have h := World.runLoop_pollServe f w
  refine ⟨fun hk => ?_, h.sent_prefix⟩
  rw [h.sent_eq_wok hk, histWrites_eq_wire _ _ h.wf]

/-- **The send quota is respected in every poll of `run()`** (C10, lifted). For every world, every fuel and every monitor
    state `m` that accounts for the context (`QRel`: free slots + outstanding publishes = Receive Maximum), the monitor
    accepts the history the poll serves: no QoS>0 PUBLISH is written while Receive Maximum are outstanding, and
    `QuotaExceeded` is returned only to a QoS>0 PUBLISH and only then. -/
theorem world_poll_quota (f : Nat) (w : World) (m : QMon) (h : QRel w.c m) :
    m.scan (w.c.serve (World.loopHist f w)).2 = true :=
  serve_sim w.c m _ h

/-- the same from a context whose quota is full (e.g. right after CONNACK): C10 itself for the poll -/
theorem world_poll_quota_fresh (f : Nat) (w : World) (R : Nat) (hq : w.c.quota = R) (hr : w.c.recvMax = R) :
    P_C10 R (w.c.serve (World.loopHist f w)).2 = true :=
  quota_invariant R w.c hq hr _

/-- **`inbound_qos2` after a poll is what the history says** (C09, lifted): the identifiers pending after the poll are
    obtained from those pending before by adding each handled QoS 2 PUBLISH identifier not yet pending and removing each
    handled PUBREL identifier. -/
theorem world_poll_inQos2 (f : Nat) (w : World) :
    (World.runLoop f w).c.inQos2 = (w.c.serve (World.loopHist f w)).2.foldl q2Step w.c.inQos2 := by
  rw [(World.runLoop_pollServe f w).c_eq]
  exact (inQos2_is_pending w.c _).1

/-- **The retransmit queue after a poll is the unfinished handshakes of its history** (C17, lifted). -/
theorem world_poll_retx (f : Nat) (w : World) :
    (World.runLoop f w).c.retx = unfinishedFrom w.c.retx (w.c.serve (World.loopHist f w)).2 := by
  rw [(World.runLoop_pollServe f w).c_eq]
  exact (retx_is_unfinished w.c _).1

/-- **Serving never changes the packet-size limit** (C12, lifted): after a poll of the loop it is still the one of the last
    CONNACK. -/
theorem world_poll_maxPkt (f : Nat) (w : World) : (World.runLoop f w).c.maxPkt = w.c.maxPkt := by
  rw [(World.runLoop_pollServe f w).c_eq]
  exact maxPkt_constant w.c _

/-- **Every poll of the `run()` task** — the first one (`started = false`: session resumption, the retransmit queue is
    re-sent, then the loop) or a later one (`started = true`: the loop) — drives the context through a served history of
    well-formed inputs, starting from the resumed context resp. the current one; that history satisfies C08 (every packet
    answered with exactly the acknowledgement owed, in arrival order); and with an unlimited transport the bytes the poll
    hands to the transport are exactly: the re-sent packets of the retransmit queue (first poll only), then for each
    handled input, in order, the acknowledgement owed resp. what the request wrote. -/
theorem world_run_poll_is_serve (w : World) (started : Bool) (ht : w.task = .running started) :
    ∃ is : List CIn, (∀ i ∈ is, i.wf) ∧
      let c0 := if started then w.c else w.c.resume.1
      let t := (c0.serve is).2
      w.pollCtx.c = (c0.serve is).1 ∧ is.length = t.length ∧ (∀ o ∈ t.dropLast, o.flow = .cont) ∧
      P_C08 t = true ∧ pktWrites t = pktOwed t ∧
      (w.cfg.wlimit = none → w.pollCtx.sent =
        w.sent ++ (if started then [] else w.c.resume.2.2.flatten) ++ (t.flatMap obsWire).flatten) := by
  have hp : w.pollCtx = w.pollRun started := by simp [World.pollCtx, ht]
  rw [hp]
  cases started with
  | true =>
    have h := World.pollRun_started_pollServe w
    refine ⟨_, h.wf, h.c_eq, h.len_eq.symm, h.cont, acks_exact _ _ h.wf, acks_in_arrival_order _ _ h.wf, fun hl => ?_⟩
    simp only [↓reduceIte, List.append_nil]
    rw [h.sent_eq hl, histWrites_eq_wire _ _ h.wf]
  | false =>
    obtain ⟨is, h1, h2, h3, h4, h5⟩ := World.pollRun_first_is_serve w
    refine ⟨is, h1, h2, h3, h4, acks_exact _ _ h1, acks_in_arrival_order _ _ h1, fun hl => ?_⟩
    simp only [Bool.false_eq_true, ↓reduceIte]
    rw [h5 hl, histWrites_eq_wire _ _ h1]

/-- one handled well-formed input keeps the pending inbound QoS 2 identifiers in 1..65535 -/
theorem step_inQos2_range (c : Ctx) (i : CIn) (hi : i.wf) (h : ∀ x ∈ c.inQos2, 0 < x ∧ x < 65536) :
    ∀ x ∈ (c.stepIn i).1.inQos2, 0 < x ∧ x < 65536 := by
  rw [step_inQos2]
  cases i with
  | msg m wok => simpa [Ctx.stepIn, q2Step] using h
  | pkt p dead wok =>
    simp only [Ctx.stepIn]
    cases p with
    | publish pb =>
      simp only [q2Step]
      split
      · rename_i hq
        obtain ⟨_, hiff, hrange⟩ : pb.wf := hi
        intro x hx
        simp only [List.mem_append, List.mem_singleton] at hx
        rcases hx with hx | rfl
        · exact h x hx
        · cases hp : pb.packetId with
          | none => have := hiff.mpr hp; omega
          | some pid => simpa using hrange pid hp
      · exact h
    | pubrel a =>
      simp only [q2Step]
      intro x hx
      exact h x (List.mem_filter.mp hx).1
    | _ => simpa [q2Step] using h

/-- **Every pending inbound QoS 2 identifier is a real packet identifier, in every reachable world**: after any script all
    entries of `inbound_qos2` are in 1..65535 (this uses that the inputs of the serving loop are decoder output). -/
theorem world_inQos2_range (cfg : Cfg) (evs : List Ev) :
    ∀ x ∈ (evs.foldl World.step { cfg := cfg }).c.inQos2, 0 < x ∧ x < 65536 := by
  refine World.ctx_invariant_lifts (fun c => ∀ x ∈ c.inQos2, 0 < x ∧ x < 65536) (by simp)
    (fun c i hi h => step_inQos2_range c i hi h) ?_ (fun c n h => h) (fun c n h => h) ?_ cfg evs
  · intro c k h; rw [(Ctx.handleConnack_frame c k).1]; exact h
  · intro c h
    rcases Ctx.resume_fst_cases c with e | e | e <;> rw [e]
    · exact h
    · exact h
    · simp

section NonVacuity
open Ex

/-- a poll with a non-trivial history: the user's DISCONNECT is queued (and a PINGREQ behind it); the history of the poll
    is exactly that DISCONNECT with a successful write — the loop ends with it -/
example : World.loopHist 3 wBye = [.msg (.ff [0xE0, 0] 4) true] := by decide

/-- and the bytes of that poll on an unlimited transport are the DISCONNECT packet -/
example : (World.runLoop 3 wBye).sent = [0xE0, 0] := by
  rw [(world_poll_acks_exact 3 wBye).2.2.2 rfl]
  decide

/-- the hypothesis of `world_poll_bytes` holds for that poll although the transport accepts only 2 more bytes -/
example : ∀ i ∈ World.loopHist 3 { wBye with cfg := { wlimit := some 2 } }, i.wok = true := by decide

/-- a poll that handles an inbound packet: a PINGRESP arrives, the history is that packet (no dead channel, write fine) -/
example : (wServe [.data pingresp]).iterIn = some (.pkt .pingresp [] true) := by
  simp [World.iterIn, wServe, World.senders, pn_pingresp, dec_pingresp]
  rfl

/-- a poll that handles an inbound QoS 2 PUBLISH (identifier 9): the history is that packet; the identifier becomes pending;
    on an unlimited transport the poll hands exactly the PUBREC to the transport -/
example :
    World.loopHist 5 (wServe [.data q2frame]) = [.pkt (.publish q2pub) [] true] ∧
    (World.runLoop 5 (wServe [.data q2frame])).c.inQos2 = [9] ∧
    (World.runLoop 5 (wServe [.data q2frame])).sent = [0x50, 2, 0, 9] := by
  have h : World.loopHist 5 (wServe [.data q2frame]) = [.pkt (.publish q2pub) [] true] :=
    World.loopHist_one_frame 3 _ q2frame _ rfl (by decide) pn_q2 dec_q2
  refine ⟨h, ?_, ?_⟩
  · rw [world_poll_inQos2, h]; decide
  · rw [(world_poll_acks_exact 5 _).2.2.2 rfl, h]; decide

/-- a script in which `run()` serves a request and the context moves: with a transport that accepts nothing, a QoS 1
    PUBLISH takes a quota slot, its write fails, `run()` returns `SocketClosed` and the caller gets `ContextExited` -/
example :
    let w := [Ev.setup, .op 1 0 (.publish { topic := some [0x61], qos := 1 }), .run].foldl World.step
      { cfg := { wlimit := some 0 } }
    w.c.quota = 65534 ∧ w.c.recvMax = 65535 ∧
    w.out.drop 3 = [.ret .run (.err .socketClosed), .done 1 (.err .contextExited)] := by decide

/-- a script that moves the context: the disconnection time is recorded by `markDisc` -/
example : ([Ev.setup, .markDisc 5].foldl World.step {}).c.disc = some 5 := by decide

/-- a first poll of `run()` after a reconnect within the session: the QoS 1 PUBLISH in flight is re-sent (context `cFlight`
    disconnected 5 s ago, session expiry 60 s), then the queued DISCONNECT is served -/
example :
    let w : World := { wBye with task := .running false, c := { cFlight with disc := some 5, sei := 60 } }
    w.c.resume.2.2 = [[0x32, 0]] ∧ w.c.resume.1.disc = none ∧
    World.loopHist w.resent.loopFuel w.resent = [.msg (.ff [0xE0, 0] 4) true] := by decide

/-- the monitor relation of `world_poll_quota` holds for a concrete world: nothing outstanding, quota full -/
example : QRel wBye.c { R := 65535 } := ⟨by decide, by decide⟩

end NonVacuity

#print axioms world_ctx_transitions
#print axioms world_quota_bounded
#print axioms step_inQos2_nodup
#print axioms world_inQos2
#print axioms world_poll_is_serve
#print axioms histWrites_eq_wire
#print axioms world_poll_acks_exact
#print axioms world_poll_bytes
#print axioms world_poll_quota
#print axioms world_poll_quota_fresh
#print axioms world_poll_inQos2
#print axioms world_poll_retx
#print axioms world_poll_maxPkt
#print axioms world_run_poll_is_serve
#print axioms step_inQos2_range
#print axioms world_inQos2_range

end Poster
