/-
  Properties/SelectWorld.lean — the `select!` of `run()` in EITHER order.

  `run()` (src/client/context.rs) is a loop around `futures::select! { packet = pck_fut => …, msg = msg_fut => … }`.
  When both branches are ready `select!` picks one pseudo-randomly; `World.runLoop` fixes "messages first". This file
  removes that assumption: the properties are proved for EVERY resolution of every choice.

  Vocabulary (Lemmas/WorldSelect.lean, WorldSelectHist.lean, WorldSelectScript.lean)
    `sched : Nat → Bool`          a scheduler for one poll of the loop: `sched i = true` — in the iteration with `i`
                                  iterations of fuel left the packet branch is polled first.
    `World.runLoopS sched f w`    one poll of the loop under `sched` (`runLoop f w` is `sched = fun _ => false`).
                                  Corner cases, as in `futures::select!`: the branch polled first wins if it is Ready and
                                  the other branch is then not polled at all; so "packets first" at end of stream returns
                                  `SocketClosed` although messages are queued, and `HandleClosed` needs the message branch
                                  to be polled. A packet branch that is `Pending` has advanced the framing state and armed
                                  the reader's waker (or the transport has flagged the task: `armReader`) before the
                                  message branch is polled in the same round.
    `World.loopHistS sched f w`   the inputs (`CIn`) that poll hands to `handle_message` / `handle_packet`, in order.
    `World.pollCtxS`, `pollTaskS` the context task / any task polled once, the `select!` resolved by `sched`.
    `World.StepAny w e w'`        `w'` is a possible result of the script event `e` in `w` (apply, drain, (sweep, drain),
                                  stall check — as `World.step`), every poll of `run()` resolved by its own scheduler.
    `World.StepsAny w evs w'`     … of the script `evs`;  `World.RunAny cfg evs out`: `out` is a possible transcript.
    `RxPacket.silent`             an inbound packet whose handler writes nothing and never ends the loop (everything but
                                  QoS>0 PUBLISH, PUBREL, DISCONNECT); `RxPacket.neutral`: … and leaves the send quota alone.
    `Ctx.NoRace c m p`            the queued message `m` and the ready packet `p` do not race in the context `c`.
-/
import PosterModel.Lemmas.WorldSelectEx
import PosterModel.Lemmas.WorldSelectCommute
import PosterModel.Lemmas.WorldSelectFuel
import PosterModel.Properties.CtxLift
import PosterModel.Properties.C04World
import PosterModel.Properties.C14World

set_option linter.unusedVariables false
set_option linter.unusedSimpArgs false

namespace Poster
open Framing

/-! ## 1. the loop with an arbitrary scheduler -/

/-- **`World.runLoop` is one resolution of the choice**: the scheduler that always polls the message branch first. -/
theorem select_runLoop_is_a_resolution (f : Nat) (w : World) :
    World.runLoopS (fun _ => false) f w = World.runLoop f w :=
  World.runLoop_is_a_resolution f w

/-- … and so is every poll of every task, every step and every run of the model: the transcript `World.run cfg evs` is
    one of the possible transcripts. -/
theorem select_model_run_is_a_resolution (cfg : Cfg) (evs : List Ev) :
    (∀ (w : World) (t : Task), World.PollTaskAny w t (w.pollTask t)) ∧
    (∀ (w : World) (e : Ev), World.StepAny w e (w.step e)) ∧
    World.RunAny cfg evs (World.run cfg evs) :=
  ⟨World.pollTaskAny_pollTask, World.stepAny_step, World.runAny_run cfg evs⟩

/-- **End of stream against a queued message** (the corner case of `select!`): if the packet branch is polled first and
    the packet stream has ended (`pollNext` yields `none`), `run()` returns `SocketClosed` at once — whatever is queued,
    nothing is handled, nothing is written; if the message branch is polled first, the first queued message is handled
    (the transport is not looked at in that round). -/
theorem select_end_of_stream_corner (w : World) :
    (∀ rx' rd', pollNext w.rx w.reader = (rx', rd', .none) →
      World.runIterS true w = .inr (({ w with rx := rx', reader := rd' } : World).finish .run (.err .socketClosed))) ∧
    (∀ m q, w.queue = m :: q → World.runIterS false w = World.msgBranch w m q) :=
  ⟨fun rx' rd' hp => World.runIterS_true_none w rx' rd' hp, fun m q hq => World.runIterS_false_msg w m q hq⟩

/-- **`HandleClosed` needs the message branch**: under every scheduler, the final step of a poll returns `HandleClosed`
    only from a world with nothing queued and no sender left (the message stream has ENDED, which only a poll of the message
    branch observes) — never because the packet branch won. -/
theorem select_handle_closed_needs_message_branch (w r : World) (h : World.SEnd w r) (pre : List Obs)
    (ho : r.out = w.out ++ pre ++ [.ret .run (.err .handleClosed)]) : w.queue = [] ∧ w.senders = 0 := by
  have last_eq : ∀ (a b : List Obs) (x y : Obs), a ++ [x] = b ++ [y] → x = y := by
    intro a b x y hxy
    have := List.append_inj_right' hxy rfl
    simpa using this
  have fl_ne : ∀ fl : Flow, Obs.ret .run (World.flowRet fl) ≠ .ret .run (.err .handleClosed) := by
    intro fl hfl; cases fl <;> simp [World.flowRet] at hfl
  cases h with
  | msgExit m q w1 fl hq hr hne =>
    exfalso
    have : (w1.finish .run (World.flowRet fl)).out = w1.out ++ [.ret .run (World.flowRet fl)] := rfl
    rw [this] at ho
    exact fl_ne fl (last_eq _ _ _ _ ho)
  | closed hq hs => exact ⟨hq, hs⟩
  | pktExit rx' rd' fr p w1 fl hp hd hr hne =>
    exfalso
    have : (w1.finish .run (World.flowRet fl)).out = w1.out ++ [.ret .run (World.flowRet fl)] := rfl
    rw [this] at ho
    exact fl_ne fl (last_eq _ _ _ _ ho)
  | codec rx' rd' fr hp hd =>
    exfalso
    have := last_eq w.out (w.out ++ pre) _ _ (by simpa [World.finish, World.emit] using ho)
    simp at this
  | panic rx' rd' fr hp hd =>
    exfalso
    have := last_eq w.out (w.out ++ pre) _ _ (by simpa [World.emit] using ho)
    simp at this
  | sock rx' rd' hp =>
    exfalso
    have := last_eq w.out (w.out ++ pre) _ _ (by simpa [World.finish, World.emit] using ho)
    simp at this
  | park rx' rd' hq hs hp =>
    exfalso
    have h1 : (World.armReader { w with rx := rx', reader := rd', queueReg := true }).out = w.out := by simp
    rw [h1] at ho
    have := congrArg List.length ho
    simp at this

/-- **Every poll under every scheduler decomposes into steps**: zero or more steps after which the loop goes on (a queued
    message handled; an inbound packet handled — now whatever the queue holds; the packet branch `Pending`, which arms the
    reader), then — the fuel `loopFuel` always suffices from a sane framing state — one final step (`World.SEnd`: a handler
    ends `run()`, `HandleClosed`, a frame that does not decode, end of stream, or both branches `Pending`: the task parks
    with both wakers armed). -/
theorem select_poll_decomposes (sched : Nat → Bool) (w : World) (hok : w.rx.Ok) :
    ∃ wm, World.SServe w wm ∧ World.SEnd wm (World.runLoopS sched w.loopFuel w) :=
  World.runLoopS_full sched w hok

/-! ## 2. every resolution is a served history -/

/-- **One poll of the loop is a served history, under every scheduler.** For every scheduler, fuel and world, the poll
    hands the inputs `loopHistS sched f w` to the handlers: each is well formed (inbound packets are decoder output), none
    is skipped, all but possibly the last let the loop go on, the context afterwards is the one `Ctx.serve` computes; if the
    last one ends `run()` the task is over and returns the result of that flow; with an unlimited transport (or whenever
    every handler's write was taken) the bytes handed to the transport are exactly the writes of the history, in order. -/
theorem select_poll_is_serve (sched : Nat → Bool) (f : Nat) (w : World) :
    World.PollServe w (World.runLoopS sched f w) (World.loopHistS sched f w) :=
  World.runLoopS_pollServe sched f w

/-- the history of the model's own order is the history of `CtxLift` -/
theorem select_hist_messages_first (f : Nat) (w : World) :
    World.loopHistS (fun _ => false) f w = World.loopHist f w :=
  World.loopHistS_false f w

/-- **Acknowledgements are exact under every scheduler** (C08): with `t` the history the poll serves, every handled
    inbound packet is answered with exactly the acknowledgement owed and every handled request with nothing or its own
    packet; the acknowledgements written are the ones owed, in arrival order of the PACKETS; and on an unlimited transport
    the bytes of the poll are, in order, for each handled packet its owed acknowledgement and for each handled request
    what it wrote. -/
theorem select_poll_acks_exact (sched : Nat → Bool) (f : Nat) (w : World) :
    let t := (w.c.serve (World.loopHistS sched f w)).2
    (World.runLoopS sched f w).c = (w.c.serve (World.loopHistS sched f w)).1 ∧
    P_C08 t = true ∧ pktWrites t = pktOwed t ∧
    (w.cfg.wlimit = none → (World.runLoopS sched f w).sent = w.sent ++ (t.flatMap obsWire).flatten) := by
  have h := World.runLoopS_pollServe sched f w
  refine ⟨h.c_eq, acks_exact _ _ h.wf, acks_in_arrival_order _ _ h.wf, fun hl => ?_⟩
  rw [h.sent_eq hl, histWrites_eq_wire _ _ h.wf]

/-- **The send quota is respected under every scheduler** (C10): for every monitor state that accounts for the context
    (free slots + outstanding = Receive Maximum) the monitor accepts the history of the poll — in whichever order the
    requests and the acknowledgements were interleaved. -/
theorem select_poll_quota (sched : Nat → Bool) (f : Nat) (w : World) (m : QMon) (h : QRel w.c m) :
    m.scan (w.c.serve (World.loopHistS sched f w)).2 = true :=
  serve_sim w.c m _ h

theorem select_poll_quota_fresh (sched : Nat → Bool) (f : Nat) (w : World) (R : Nat) (hq : w.c.quota = R)
    (hr : w.c.recvMax = R) : P_C10 R (w.c.serve (World.loopHistS sched f w)).2 = true :=
  quota_invariant R w.c hq hr _

/-- **`inbound_qos2` after a poll is what its history says, under every scheduler** (C09). -/
theorem select_poll_inQos2 (sched : Nat → Bool) (f : Nat) (w : World) :
    (World.runLoopS sched f w).c.inQos2 = (w.c.serve (World.loopHistS sched f w)).2.foldl q2Step w.c.inQos2 := by
  rw [(World.runLoopS_pollServe sched f w).c_eq]
  exact (inQos2_is_pending w.c _).1

/-- **The retransmit queue after a poll is the unfinished handshakes of its history, under every scheduler** (C17). -/
theorem select_poll_retx (sched : Nat → Bool) (f : Nat) (w : World) :
    (World.runLoopS sched f w).c.retx = unfinishedFrom w.c.retx (w.c.serve (World.loopHistS sched f w)).2 := by
  rw [(World.runLoopS_pollServe sched f w).c_eq]
  exact (retx_is_unfinished w.c _).1

/-- **Serving never changes the packet-size limit, under every scheduler** (C12). -/
theorem select_poll_maxPkt (sched : Nat → Bool) (f : Nat) (w : World) :
    (World.runLoopS sched f w).c.maxPkt = w.c.maxPkt := by
  rw [(World.runLoopS_pollServe sched f w).c_eq]
  exact maxPkt_constant w.c _

/-- **The first poll of `run()` under any scheduler**: session resumption and the re-sent retransmit queue are not
    affected by the scheduler (they precede the loop); then the loop is a served history from the resumed context. -/
theorem select_first_poll_is_serve (sched : Nat → Bool) (w : World)
    (h : w.resumed.canWrite ((w.c.resume.2.2.map List.length).sum) = true) :
    World.PollServe w.resent (w.pollRunS sched false) (World.loopHistS sched w.resent.loopFuel w.resent) := by
  simp only [World.pollRunS, Bool.false_eq_true, ↓reduceIte, h]
  exact World.runLoopS_pollServe _ _ _

/-- **Under any resolution of every `select!`, along every script, the context moves only by the documented
    transitions** — so every inductive invariant of those transitions holds in every world reachable under any
    resolution. -/
theorem select_ctx_invariant_lifts (P : Ctx → Prop) (h0 : P {}) (hserve : ∀ c i, i.wf → P c → P (c.stepIn i).1)
    (hconnack : ∀ c k, P c → P (c.handleConnack k)) (hsei : ∀ c n, P c → P { c with sei := n })
    (hdisc : ∀ c n, P c → P { c with disc := some n }) (hresume : ∀ c, P c → P c.resume.1)
    (cfg : Cfg) (evs : List Ev) (w : World) (hw : World.StepsAny { cfg := cfg } evs w) : P w.c :=
  CtxTrans.inv P h0 hserve hconnack hsei hdisc hresume (World.stepsAny_ctxTrans hw) h0

/-- e.g. the send quota never exceeds Receive Maximum in any world reachable under any resolution -/
theorem select_quota_bounded (cfg : Cfg) (evs : List Ev) (w : World) (hw : World.StepsAny { cfg := cfg } evs w) :
    w.c.quota ≤ w.c.recvMax := by
  refine select_ctx_invariant_lifts (fun c => c.quota ≤ c.recvMax) (by decide) (fun c i _ h => quota_bounded c i h)
    ?_ (fun c n h => h) (fun c n h => h) ?_ cfg evs w hw
  · intro c k _; simp [Ctx.handleConnack]
  · intro c h
    rcases Ctx.resume_fst_cases c with e | e | e <;> rw [e] <;> exact h

/-! ## 3. what does not depend on the scheduler -/

/-- **(a) The messages handled by a poll are a prefix of the queue, in queue order, under every scheduler**, and what the
    poll leaves in the queue is the rest. In particular two resolutions that leave the same queue (e.g. both park: the
    queue is empty) have handled the same messages in the same order. -/
theorem select_messages_in_queue_order (sched : Nat → Bool) (f : Nat) (w : World) :
    histMsgs (World.loopHistS sched f w) ++ (World.runLoopS sched f w).queue = w.queue :=
  World.loopHistS_msgs sched f w

/-- **(a) The inbound packets handled by a poll are a prefix of the decoded frames, in frame order, under every
    scheduler**: whatever the scheduler, the packets the poll hands to `handle_packet` are an initial segment of ONE reference
    sequence, `pktStream f w.rx w.reader` — what repeated `poll_next` calls decode from the framing state and the transport
    — so for any two schedulers one sequence of handled packets is a prefix of the other. (They need not be equal: a
    `Pending` of the transport that has flagged the task splits the packets between this poll and the next one differently,
    and a handler that ends the loop cuts the sequence short.) -/
theorem select_packets_in_frame_order (s1 s2 : Nat → Bool) (f : Nat) (w : World) :
    histPkts (World.loopHistS s1 f w) <+: World.pktStream f w.rx w.reader ∧
    (histPkts (World.loopHistS s1 f w) <+: histPkts (World.loopHistS s2 f w) ∨
     histPkts (World.loopHistS s2 f w) <+: histPkts (World.loopHistS s1 f w)) :=
  ⟨World.loopHistS_pkts s1 f w, World.loopHistS_pkts_comparable s1 s2 f w⟩

/-- a poll that leaves `run()` pending has handled the whole queue, under every scheduler -/
theorem select_parked_handled_all (sched : Nat → Bool) (w : World) (hok : w.rx.Ok)
    (h : (World.runLoopS sched w.loopFuel w).task ≠ .none) :
    histMsgs (World.loopHistS sched w.loopFuel w) = w.queue := by
  have h1 := World.loopHistS_msgs sched w.loopFuel w
  rw [(World.runLoopS_alive_facts sched w hok h).2.2.2.1, List.append_nil] at h1
  exact h1

/-- **(b) What a poll writes when its inbound packets are silent — explicit, and free of the scheduler.** On an
    unlimited transport, if every inbound packet the poll handles writes nothing and does not end the loop (acknowledgements,
    SUBACK, UNSUBACK, PINGRESP, QoS 0 PUBLISH, …) and the send quota cannot tell the orders apart — `nb = true`: the packets
    leave the quota alone; `nb = false`: the quota covers every queued QoS>0 PUBLISH — then the bytes the poll hands to the
    transport are exactly what the handled messages (a prefix of the queue) write when served ALONE, in queue order, from
    the context before the poll. -/
theorem select_sent_of_silent_poll (nb : Bool) (sched : Nat → Bool) (f : Nat) (w : World) (hl : w.cfg.wlimit = none)
    (hs : Ctx.SilentHist nb (World.loopHistS sched f w))
    (hq : nb = false → pubCountM w.queue ≤ w.c.quota) :
    (World.runLoopS sched f w).sent = w.sent ++ (World.histWrites
      (w.c.serve ((histMsgs (World.loopHistS sched f w)).map (fun m => CIn.msg m true))).2).flatten :=
  World.sent_of_silent_poll nb sched f w hl hs hq

/-- **(b) The bytes do not depend on the scheduler** — the justification of the `coincide` correspondence scripts. Two
    resolutions of the same poll (any schedulers, any fuels) on an unlimited transport, in both of which every inbound
    packet handled is silent and the quota cannot tell orders apart, and which leave the same messages in the queue, hand
    the same bytes to the transport. -/
theorem select_sent_scheduler_independent (nb : Bool) (s1 s2 : Nat → Bool) (f1 f2 : Nat) (w : World)
    (hl : w.cfg.wlimit = none)
    (h1 : Ctx.SilentHist nb (World.loopHistS s1 f1 w)) (h2 : Ctx.SilentHist nb (World.loopHistS s2 f2 w))
    (hq : nb = false → pubCountM w.queue ≤ w.c.quota)
    (hleft : (World.runLoopS s1 f1 w).queue = (World.runLoopS s2 f2 w).queue) :
    (World.runLoopS s1 f1 w).sent = (World.runLoopS s2 f2 w).sent :=
  World.sent_scheduler_independent nb s1 s2 f1 f2 w hl h1 h2 hq hleft

/-- … in particular for two resolutions of a whole poll that both leave `run()` pending -/
theorem select_sent_independent_when_parked (nb : Bool) (s1 s2 : Nat → Bool) (w : World) (hok : w.rx.Ok)
    (hl : w.cfg.wlimit = none)
    (h1 : Ctx.SilentHist nb (World.loopHistS s1 w.loopFuel w)) (h2 : Ctx.SilentHist nb (World.loopHistS s2 w.loopFuel w))
    (hq : nb = false → pubCountM w.queue ≤ w.c.quota)
    (p1 : (World.runLoopS s1 w.loopFuel w).task ≠ .none) (p2 : (World.runLoopS s2 w.loopFuel w).task ≠ .none) :
    (World.runLoopS s1 w.loopFuel w).sent = (World.runLoopS s2 w.loopFuel w).sent :=
  World.sent_scheduler_independent nb s1 s2 _ _ w hl h1 h2 hq
    ((World.runLoopS_alive_facts s1 w hok p1).2.2.2.1.trans (World.runLoopS_alive_facts s2 w hok p2).2.2.2.1.symm)

/-- the `Ctx`-level core of (b): silent packets can be deleted from a served history without changing what the message
    handlers do -/
theorem select_silent_packets_can_be_deleted (nb : Bool) (is : List CIn) (c c' : Ctx) (hs : Ctx.SilentHist nb is)
    (h : Ctx.QSim nb (pubCount is) c c') : msgObs (c.serve is).2 = (c'.serve (msgIns is)).2 :=
  Ctx.serve_msgObs_indep nb is c c' hs h

/-- **(c) Commutation.** If the queued message `m` and the ready inbound packet `p` do not race in `c` — the packet is not
    addressed to the action identifier this very request registers, is not a PUBLISH for the subscription identifier it
    registers, and, if the request is a QoS>0 PUBLISH, the packet leaves the send quota alone or the quota is strictly
    between 0 and Receive Maximum — then handling them in either order leads to the same context, and each handler performs
    the same effects and returns the same flow in both orders. In particular every request that is not a QoS>0 PUBLISH
    commutes with every packet that does not answer it. -/
theorem select_handle_commute (c : Ctx) (m : Msg) (p : RxPacket) (alive : Nat → Bool) (wm wp : Bool)
    (h : Ctx.NoRace c m p) :
    ((c.handleMsg m wm).1.handlePkt alive p wp).1 = ((c.handlePkt alive p wp).1.handleMsg m wm).1 ∧
    (c.handleMsg m wm).2 = ((c.handlePkt alive p wp).1.handleMsg m wm).2 ∧
    ((c.handleMsg m wm).1.handlePkt alive p wp).2 = (c.handlePkt alive p wp).2 :=
  Ctx.handle_commute c m p alive wm wp h

/-- the same for the two-input histories the serving loop sees: same final context whichever input is handled first
    (when neither handler ends the loop) -/
theorem select_serve_commute (c : Ctx) (m : Msg) (p : RxPacket) (dead : List Nat) (wm wp : Bool)
    (h : Ctx.NoRace c m p) (hm : (c.handleMsg m wm).2.2 = .cont)
    (hp : (c.handlePkt (fun ch => ch ∉ dead) p wp).2.2 = .cont) :
    (c.serve [.msg m wm, .pkt p dead wp]).1 = (c.serve [.pkt p dead wp, .msg m wm]).1 := by
  obtain ⟨e1, e2, e3⟩ := Ctx.handle_commute c m p (fun ch => ch ∉ dead) wm wp h
  have hm' : (c.stepIn (.msg m wm)).2.flow = .cont := hm
  have hp' : (c.stepIn (.pkt p dead wp)).2.flow = .cont := hp
  have single : ∀ (c0 : Ctx) (i : CIn), (c0.serve [i]).1 = (c0.stepIn i).1 := by
    intro c0 i
    rw [Ctx.serve_cons]
    split <;> rfl
  have L : (c.serve [.msg m wm, .pkt p dead wp]).1 = ((c.stepIn (.msg m wm)).1.stepIn (.pkt p dead wp)).1 := by
    rw [Ctx.serve_cons, if_pos hm']
    exact single _ _
  have R : (c.serve [.pkt p dead wp, .msg m wm]).1 = ((c.stepIn (.pkt p dead wp)).1.stepIn (.msg m wm)).1 := by
    rw [Ctx.serve_cons, if_pos hp']
    exact single _ _
  rw [L, R]
  exact e1

/-- **The hypotheses of the commutation cannot be dropped, 1: the answer overtaking its request.** A PINGREQ is queued and
    a PINGRESP is ready while nobody waits for one: handled after the request the PINGRESP completes the new waiter,
    handled before it completes nothing. (A real broker has not seen the request yet; the model allows it.) -/
theorem select_race_answer_overtakes_request :
    let c : Ctx := {}
    let m : Msg := .awaitAck (actionId 13 0) pingreqBytes 2
    ((c.handleMsg m true).1.handlePkt (fun _ => true) .pingresp true).1.awaiting = [] ∧
    ((c.handlePkt (fun _ => true) .pingresp true).1.handleMsg m true).1.awaiting = [(actionId 13 0, 2)] := by
  decide

/-- **2: a duplicate acknowledgement at full quota.** Quota = Receive Maximum (nothing outstanding), a QoS 1 PUBLISH queued
    and a (spurious) PUBACK ready: the guarded increment makes the order visible. -/
theorem select_race_full_quota :
    let c : Ctx := { quota := 5, recvMax := 5 }
    let m : Msg := .awaitAck (actionId 4 2) Ex.pub2 4
    ((c.handleMsg m true).1.handlePkt (fun _ => true) (.puback { packetId := 1 }) true).1.quota = 5 ∧
    ((c.handlePkt (fun _ => true) (.puback { packetId := 1 }) true).1.handleMsg m true).1.quota = 4 := by
  decide

/-- **(c) The one real race**: the send quota is exactly 0, the PUBACK that frees the slot is ready and a QoS 1 PUBLISH is
    queued (`Ex.wRace`). With the messages first (`World.runLoop`) the PUBLISH is refused with `QuotaExceeded`, nothing is
    written, and the quota ends at 1; with the packets first the PUBACK frees the slot, the PUBLISH takes it and is written,
    and the quota ends at 0. Both histories are legal under C10: the send-quota monitor (Receive Maximum 1, packet 1
    outstanding) accepts both, and both satisfy C08. -/
theorem select_quota_race (f : Nat) :
    -- messages first
    World.loopHistS (fun _ => false) (f + 3) Ex.wRace = [Ex.raceMsg, Ex.racePkt] ∧
    (World.runLoopS (fun _ => false) (f + 3) Ex.wRace).slot 4 = some (.full .errQuota) ∧
    (World.runLoopS (fun _ => false) (f + 3) Ex.wRace).sent = [] ∧
    (World.runLoopS (fun _ => false) (f + 3) Ex.wRace).c.quota = 1 ∧
    -- packets first
    World.loopHistS (fun _ => true) (f + 3) Ex.wRace = [Ex.racePkt, Ex.raceMsg] ∧
    (World.runLoopS (fun _ => true) (f + 3) Ex.wRace).slot 4 = some .empty ∧
    (World.runLoopS (fun _ => true) (f + 3) Ex.wRace).sent = Ex.pub2 ∧
    (World.runLoopS (fun _ => true) (f + 3) Ex.wRace).c.quota = 0 ∧
    (World.runLoopS (fun _ => true) (f + 3) Ex.wRace).c.awaiting = [(actionId 4 2, 4)] ∧
    -- both are legal
    (∀ sched, ({ R := 1, out := [(1, 1)] } : QMon).scan
      (Ex.wRace.c.serve (World.loopHistS sched (f + 3) Ex.wRace)).2 = true) ∧
    (∀ sched, P_C08 (Ex.wRace.c.serve (World.loopHistS sched (f + 3) Ex.wRace)).2 = true) := by
  refine ⟨Ex.race_hist_msgs_first f, ?_, ?_, ?_, Ex.race_hist_pkts_first f, ?_, ?_, ?_, ?_, fun sched => ?_, fun sched => ?_⟩
  · rw [Ex.race_msgs_first]; decide
  · rw [Ex.race_msgs_first]; decide
  · rw [Ex.race_msgs_first]; decide
  · rw [Ex.race_pkts_first]; decide
  · rw [Ex.race_pkts_first]; decide
  · rw [Ex.race_pkts_first]; decide
  · rw [Ex.race_pkts_first]; decide
  · exact select_poll_quota sched _ _ _ ⟨by decide, by decide⟩
  · exact (select_poll_acks_exact sched _ _).2.1

/-! ## 4. the invariants and the headline theorems under every resolution -/

/-- **One poll of the context task under any scheduler** keeps the sender-ownership invariant `OwnInv`, the operation
    table invariant `OpsInv` and the registration invariant `RegInv`, keeps the framing state reachable, adds no
    observation other than `W` lines, one `RET` and the panics of `CtxObs` (the documented assertion — only from
    `connect()` / `authorize()` — or a decoder panic, which reachable framing states exclude), and leaves the context
    future alive only with everything read and the transport waker registered, or flagged. -/
theorem select_poll_preserves (sched : Nat → Bool) (w : World) :
    (World.OwnInv w → World.OwnInv (w.pollCtxS sched)) ∧
    (World.OpsInv w → World.OpsInv (w.pollCtxS sched)) ∧
    (World.RegInv w → World.RegInv (w.pollCtxS sched)) ∧
    (Reach w.rx → Reach (w.pollCtxS sched).rx) ∧
    World.OutExtP (World.CtxObs w) w (w.pollCtxS sched) ∧
    (Reach w.rx → Obs.panic .ctx "other" ∉ (w.pollCtxS sched).out.drop w.out.length) ∧
    (w.rx.Ok → (w.pollCtxS sched).task ≠ .none →
      ((w.pollCtxS sched).reader = [] ∧ (w.pollCtxS sched).readerReg = true) ∨ Task.ctx ∈ (w.pollCtxS sched).woken) := by
  refine ⟨World.own_pollCtxS sched w, fun h => h.moves (World.pollCtxS_moves sched w),
    fun h => (World.w14_regSub_pollCtxS sched w).regInv h, World.pollCtxS_reach sched w,
    World.pollCtxS_panics sched w, fun hr => ?_, World.pollCtxS_parked sched w⟩
  obtain ⟨added, e, hP⟩ := World.pollCtxS_panics sched w
  rw [e, List.drop_left]
  intro hm
  rcases hP _ hm with hc | ⟨he, _⟩ | ⟨_, rx, rd, rx', rd', fr, h1, h2, h3⟩
  · exact hc _ _ rfl
  · simp at he
  · exact absurd h3 (World.no_decoder_panic (h1 hr) h2)

/-- **The whole-client invariants hold in every world reachable under any resolution of every `select!`**: sender
    ownership (`OwnInv`, C14), the operation table (`OpsInv`, C05), waker registrations (`RegInv`), a reachable framing
    state, and "a context future that is alive and not flagged has nothing left to read and the transport waker
    registered". -/
theorem select_invariants_reachable (cfg : Cfg) (evs : List Ev) (w : World)
    (hw : World.StepsAny { cfg := cfg } evs w) :
    World.OwnInv w ∧ World.OpsInv w ∧ World.RegInv w ∧ Reach w.rx ∧
    (w.task ≠ .none → Task.ctx ∉ w.woken → w.reader = [] ∧ w.readerReg = true) := by
  obtain ⟨h1, h3⟩ := World.ownReg_stepsAny hw (World.ownInv_init cfg) (World.regInv_init cfg)
  have h4 := World.stepsAny_tinv hw (World.W5.w5s_tinv_init cfg)
  exact ⟨h1, (World.OpsInv.init cfg).stepsAny hw, h3, h4.reach, h4.st⟩

/-- **Headline, C04 under every resolution: the only panic a client can log is the documented assertion.** For every
    configuration, every script whose operations carry pairwise distinct ids, and EVERY resolution of every `select!` of
    `run()`: every `PANIC` line of the transcript is `PANIC ctx assert-subid`. -/
theorem select_only_documented_panic (cfg : Cfg) (evs : List Ev) (hn : (World.opIds evs).Nodup) (out : List Obs)
    (h : World.RunAny cfg evs out) :
    ∀ o ∈ out, (∃ t cls, o = .panic t cls) → o = .panic .ctx "assert-subid" := by
  obtain ⟨w, hs, rfl⟩ := h
  have hdoc : ∀ o ∈ w.finishScript.out, World.PanicDoc o := by
    obtain ⟨added, e, hP⟩ := World.outExtP_trans (World.stepsAny_doc hs) (World.w5_flushRaw_doc w)
    unfold World.finishScript
    rw [e]; simpa using hP
  have hother : Obs.panic .ctx "other" ∉ w.finishScript.out := by
    have h1 := World.stepsAny_safe hs Reach.init
    obtain ⟨added, e, hP⟩ := (World.safe_trans h1 (World.flushRaw_safe _ h1.1)).2
    unfold World.finishScript
    rw [e]
    simp only [List.nil_append]
    intro hmem
    exact hP _ hmem rfl
  have hunr : ∀ id, Obs.panic (.op id) "unreachable" ∉ w.finishScript.out := by
    intro id hmem
    have hg := (World.Good.init (fun _ => False) cfg).stepsAny hs hn (fun _ _ hx => hx)
    unfold World.finishScript World.flushRaw at hmem
    split at hmem
    · exact hg.noUnr id hmem
    · simp only [World.emit, List.mem_append, List.mem_singleton] at hmem
      rcases hmem with hmem | hmem
      · exact hg.noUnr id hmem
      · cases hmem
  rintro o ho ⟨t, cls, rfl⟩
  rcases hdoc _ ho t cls rfl with ⟨rfl, rfl | rfl⟩ | ⟨id, rfl, rfl⟩
  · rfl
  · exact absurd ho hother
  · exact absurd ho (hunr id)

/-- **Headline, C14 under every resolution: no operation hangs once the context is gone.** In every world reachable under
    any resolution in which the context has been dropped, every pending operation is flagged for the executor (and if the
    executor is quiescent the script holds it), and a single poll completes it with exactly one observation: a never-polled
    operation fails with `ContextExited` (or `CodecError`), a waiting one whose oneshot was closed completes with
    `ContextExited`, one whose acknowledgement had already arrived is resumed with it. -/
theorem select_no_op_hangs_after_drop (cfg : Cfg) (evs : List Ev) (w : World)
    (hw : World.StepsAny { cfg := cfg } evs w) (hd : w.ctxDropped = true)
    (id : Nat) (st : OpSt) (hm : (id, st) ∈ w.ops) :
    Task.op id ∈ w.woken ∧ (w.pick = none → Task.op id ∈ w.held) ∧
    (w.pollOp id).opSt id = none ∧ (w.pollOp id).ops = eraseFirst id w.ops ∧
    (match st with
     | .fresh _ _ => ∃ k, (k = ErrKind.contextExited ∨ k = ErrKind.codecError) ∧
         (w.pollOp id).out = w.out ++ [.done id (.err k)]
     | .wait s k =>
        (w.slot s = some .closed ∧ (w.pollOp id).out = w.out ++ [.done id (.err .contextExited)]) ∨
        (∃ v, w.slot s = some (.full v) ∧ w.pollOp id = w.resumeOp id s k v ∧
          ∃ o, World.OpEnd id o ∧ (w.pollOp id).out = w.out ++ [o])) := by
  have h : World.OwnInv w := World.ownInv_stepsAny hw (World.ownInv_init cfg)
  have hc := h.dropped hd
  have hop := h.opSt_of_mem hm
  have hfl := h.op_flagged hc id st hop
  obtain ⟨a1, a2, o, a3, a4⟩ := World.pollOp_no_ctx w h hc id st hop
  refine ⟨hfl, fun hp => World.pick_none_held w _ hp hfl (by simp [World.taskLive, hop]), a2, a1, ?_⟩
  cases st with
  | fresh hd' req =>
    obtain ⟨k, hk, e1, _⟩ := fresh_op_after_drop w id hd' req hop hc
    exact ⟨k, hk, e1⟩
  | wait s k =>
    rcases h.wait_settled hc id s k hop with e | ⟨v, e⟩
    · exact Or.inl ⟨e, (closed_slot_completes w id s k hop e).2.1⟩
    · exact Or.inr ⟨v, e, by simp [World.pollOp, hop, e], o, a3, a4⟩

/-- **The executor's fuel suffices under every resolution**: after every step of every script, whatever the schedulers, the
    executor has run to quiescence (no flagged live task that the script does not hold is left) — or the script was refused
    as malformed. (No poll of `run()` increases the potential `W5.phi` whatever the scheduler: a packet branch that is
    `Pending` and flags the task again has consumed a `pending` read event.) -/
theorem select_executor_idle_after_every_step (cfg : Cfg) (evs : List Ev) (w : World)
    (hw : World.StepsAny { cfg := cfg } evs w) : w.bad = true ∨ w.pick = none :=
  World.quiet_any hw (World.ownInv_init cfg) (World.regInv_init cfg) (World.W5.quiet_init cfg)

/-- **Headline, C04 under every resolution: the client never stalls with unread input.** Under any resolution of every
    `select!`, a script that never holds the context task back never logs a stall — whatever the configuration, the bytes
    fed, the operations and their identifiers. -/
theorem select_never_stalls (cfg : Cfg) (evs : List Ev) (hh : ∀ e ∈ evs, e ≠ .hold .ctx) (out : List Obs)
    (h : World.RunAny cfg evs out) : Obs.stall ∉ out :=
  World.no_stall_any cfg evs hh out h

/-! ## 5. non-vacuity -/
section NonVacuity
open Ex

/-- the race world satisfies the hypotheses used above: a sane framing state, an unlimited transport, the monitor relation;
    and its two resolutions really differ -/
example : wRace.rx.Ok ∧ wRace.cfg.wlimit = none ∧ QRel wRace.c { R := 1, out := [(1, 1)] } ∧
    (World.runLoopS (fun _ => false) 3 wRace).sent ≠ (World.runLoopS (fun _ => true) 3 wRace).sent := by
  refine ⟨ok_init, rfl, ⟨by decide, by decide⟩, ?_⟩
  rw [race_msgs_first 0, race_pkts_first 0]; decide

/-- the race is exactly what `select_sent_scheduler_independent` excludes: the PUBACK is silent but not neutral, and the
    quota (0) does not cover the queued publish (1) -/
example : (RxPacket.puback { packetId := 1 }).silent = true ∧ (RxPacket.puback { packetId := 1 }).neutral = false ∧
    ¬ pubCountM wRace.queue ≤ wRace.c.quota := by decide

/-- … and what `Ctx.NoRace` excludes -/
example : ¬ Ctx.NoRace wRace.c (.awaitAck (actionId 4 2) pub2 4) (.puback { packetId := 1 }) := by
  intro h
  rcases h.quota (by decide) with h1 | h1
  · exact absurd h1 (by decide)
  · exact absurd h1.1 (by decide)

/-- the commutation applies to the same request and acknowledgement as soon as a slot is free: quota 1 of 2 -/
example : Ctx.NoRace { wRace.c with quota := 1, recvMax := 2 } (.awaitAck (actionId 4 2) pub2 4)
    (.puback { packetId := 1 }) :=
  ⟨fun id h1 h2 => by
      simp only [Msg.aid, Option.some.injEq] at h1; subst h1
      simp only [rxActionId, Option.some.injEq, actionId] at h2; omega,
    fun sid pb h1 => by simp [Msg.subId?] at h1, fun _ => Or.inr ⟨by decide, by decide⟩⟩

/-- a request that is not a QoS>0 PUBLISH (a PINGREQ) commutes with the PUBACK even at quota 0 -/
example : Ctx.NoRace wRace.c (.awaitAck (actionId 13 0) pingreqBytes 6) (.puback { packetId := 1 }) :=
  ⟨fun id h1 h2 => by
      simp only [Msg.aid, Option.some.injEq] at h1; subst h1
      simp only [rxActionId, Option.some.injEq, actionId] at h2; omega,
    fun sid pb h1 => by simp [Msg.subId?] at h1, fun h => by simp [Msg.isPub, pingreqBytes, pktType] at h⟩

/-- the silent-packet theorem applies to a non-trivial poll: the race world with one more slot (`wRace2`, quota 1 of 2),
    packets first — the history contains the (silent) PUBACK and the PUBLISH request, the quota covers the one queued
    publish, and the theorem computes the bytes of the poll: the PUBLISH packet -/
example :
    Ctx.SilentHist false (World.loopHistS (fun _ => true) 3 wRace2) ∧ pubCountM wRace2.queue ≤ wRace2.c.quota ∧
    (World.runLoopS (fun _ => true) 3 wRace2).sent = pub2 := by
  have hs : Ctx.SilentHist false (World.loopHistS (fun _ => true) 3 wRace2) := by
    rw [race2_hist_pkts_first 0]
    intro p d wok hm
    simp only [racePkt, raceMsg, List.mem_cons, CIn.pkt.injEq, List.not_mem_nil, or_false, reduceCtorEq] at hm
    obtain ⟨rfl, _, _⟩ := hm
    exact ⟨rfl, fun h => by cases h⟩
  refine ⟨hs, by decide, ?_⟩
  rw [select_sent_of_silent_poll false _ _ _ rfl hs (fun _ => by decide), race2_hist_pkts_first 0]
  decide

/-- end of stream with the DISCONNECT queued: packets first returns `SocketClosed` and leaves the queue alone; messages
    first writes the DISCONNECT and returns `Ok` -/
example :
    (World.runLoopS (fun _ => true) 1 wByeEof).out = [.ret .run (.err .socketClosed)] ∧
    (World.runLoopS (fun _ => true) 1 wByeEof).queue = wByeEof.queue ∧
    (World.runLoopS (fun _ => false) 1 wByeEof).out = [.wire [0xE0, 0], .ret .run .ok] := by
  rw [eof_pkts_first 0, eof_msgs_first 0]; decide

/-- the reference packet sequence of the race world is the PUBACK; the packets-first poll handles all of it -/
example : World.pktStream 3 wRace.rx wRace.reader = [.puback { packetId := 1 }] ∧
    histPkts (World.loopHistS (fun _ => true) 3 wRace) = [.puback { packetId := 1 }] ∧
    histMsgs (World.loopHistS (fun _ => true) 3 wRace) = wRace.queue := by
  refine ⟨?_, ?_, ?_⟩
  · rw [World.pktStream_succ]
    have : pollNext wRace.rx wRace.reader = ({}, [], .item puback1) := pn_puback1
    rw [this]
    simp only [dec_puback1]
    rw [World.pktStream_succ, World.pn_nil]
    simp only
    rw [World.pktStream_succ, World.pn_nil]
    rfl
  · rw [race_hist_pkts_first 0]; rfl
  · rw [race_hist_pkts_first 0]; rfl

/-- the script-level statements are about a non-trivial relation: a script with a request and a reply, run by the model, is
    one of the resolutions, and the reachable world has a pending operation, so the invariants say something -/
example :
    World.StepsAny {} [.setup, .op 1 0 .ping] (([.setup, .op 1 0 .ping] : List Ev).foldl World.step {}) ∧
    (([.setup, .op 1 0 .ping] : List Ev).foldl World.step {}).ops = [(1, .wait 2 .pingresp)] :=
  ⟨World.stepsAny_foldl _ _, by decide⟩

end NonVacuity

#print axioms select_runLoop_is_a_resolution
#print axioms select_model_run_is_a_resolution
#print axioms select_end_of_stream_corner
#print axioms select_handle_closed_needs_message_branch
#print axioms select_poll_decomposes
#print axioms select_poll_is_serve
#print axioms select_hist_messages_first
#print axioms select_poll_acks_exact
#print axioms select_poll_quota
#print axioms select_poll_quota_fresh
#print axioms select_poll_inQos2
#print axioms select_poll_retx
#print axioms select_poll_maxPkt
#print axioms select_first_poll_is_serve
#print axioms select_ctx_invariant_lifts
#print axioms select_quota_bounded
#print axioms select_messages_in_queue_order
#print axioms select_packets_in_frame_order
#print axioms select_parked_handled_all
#print axioms select_sent_of_silent_poll
#print axioms select_sent_scheduler_independent
#print axioms select_sent_independent_when_parked
#print axioms select_silent_packets_can_be_deleted
#print axioms select_handle_commute
#print axioms select_serve_commute
#print axioms select_race_answer_overtakes_request
#print axioms select_race_full_quota
#print axioms select_quota_race
#print axioms select_poll_preserves
#print axioms select_invariants_reachable
#print axioms select_only_documented_panic
#print axioms select_no_op_hangs_after_drop
#print axioms select_executor_idle_after_every_step
#print axioms select_never_stalls

end Poster
