/-
  Properties/C07World.lean — C07 end to end: every stream yields exactly what was delivered to it, in order.

  C07: "Every inbound PUBLISH is yielded exactly once by the stream of each subscribe() call whose subscription
  identifier it carries, and by no other stream, in arrival order and with topic, payload, QoS, flags and properties
  unchanged; this includes messages arriving after the SUBSCRIBE was written but before its SUBACK or before stream() is
  called. Streams are unaffected by unsubscribe(), by other streams being dropped or lagging, and end only when the
  context is gone."

  Properties/C07.lean proves the single-step facts (the dispatch loop, the FIFO channel). This file composes them over
  whole executions of the client machine `World` (PosterModel/World.lean).

  Vocabulary (Lemmas/WorldStream.lean)
    `itemsOf id out`      the messages stream `id` has yielded: the `ITEM id p` lines of the log `out`, in order
    `w.chan id`           the subscription channel of `subscribe()` call `id` (created when its future is first polled —
                          before the SUBSCRIBE is written, before SUBACK, before `stream()`), with its buffer `buf`, its
                          sending half `txAlive` (held by the context) and its receiving half (the entry itself)
    `SMove l w w'`        one *move* of the machine with its label `l`: `tau` (nothing that concerns channels or stream
                          lines), `ctx src` (the context applies a batch of effects: `handler c i` = the effects of
                          `handle_message` / `handle_packet` called in context state `c` on input `i` — the first queued
                          message, or the packet decoded from the next frame of the transport, `SrcOk`; `resume c` =
                          session resumption; `dropCtx q c` = the context is dropped; `fresh` = a new context is created),
                          `addOp id` (the script issues operation `id`), `new id` (`subscribe()` first polled: the channel
                          of `id` is created), `alloc id` (`subscribe()` first polled but refused before anything is sent),
                          `dropRx id` (its receiver is dropped), `pop id p` (stream `id` yields `p`), `park id`, `endS id`
    `STrace w tr w'`      a sequence of moves from `w` to `w'` with the labels `tr`
    `delivered id tr`     **the ghost**: all messages the `deliver id _` effects of the `ctx` labels of `tr` carry, in order
    `deliversTo id es`    the messages the effects `es` push into channel `id`
    `EndCause id src`     the batches of context effects that drop the sender of `id`: the context is dropped while it owns
                          it, an expired session is reset while `id` is registered, the SUBSCRIBE is refused for its size

  Scripts name channels after operation identifiers, so the script-level theorems assume `(World.opIds evs).Nodup`
  (pairwise distinct `OP` identifiers), see Lemmas/ScriptIds.lean.
-/
import PosterModel.Lemmas.WorldStreamSid
import PosterModel.Lemmas.WorldStreamEx
import PosterModel.Properties.C05World

set_option linter.unusedVariables false
set_option linter.unusedSimpArgs false

namespace Poster
open Framing World

/-! ## 0. every execution is a trace of stream moves -/

/-- **One script step is a sequence of moves.** From any world with a well-formed operation table, a script step (the
    event, the executor's drain, the optional sweep) is a trace of the moves listed above; the only identifier it can
    issue is that of its own `OP` event. -/
theorem step_is_a_trace (w : World) (e : Ev) (hi : OpsInv w) :
    ∃ tr, STrace w tr (w.step e) ∧ (issuedOf tr = [] ∨ ∃ id, evOpId e = some id ∧ issuedOf tr = [id]) :=
  step_dec w e hi

/-- **A whole script is a sequence of moves**, and with pairwise distinct `OP` identifiers it issues every identifier
    at most once and reaches a world in which the channel table is well formed and every existing channel belongs to
    an issued operation whose future has been polled (`SInv`). -/
theorem script_is_a_trace (cfg : Cfg) (evs : List Ev) (hn : (opIds evs).Nodup) :
    ∃ tr, STrace { cfg := cfg } tr (evs.foldl World.step { cfg := cfg }) ∧ (issuedOf tr).Nodup ∧
      (issuedOf tr).Sublist (opIds evs) ∧ SInv (· ∈ issuedOf tr) (evs.foldl World.step { cfg := cfg }) := by
  obtain ⟨tr, st, hs⟩ := steps_dec evs { cfg := cfg } (OpsInv.init cfg)
  have hnd : (issuedOf tr).Nodup := hs.nodup hn
  refine ⟨tr, st, hnd, hs, ?_⟩
  exact ((sInv_init (fun _ => False) cfg).trace st hnd (fun _ _ h => h)).mono (by rintro x (h | h); exact h.elim; exact h)

/-- **Subscription identifiers are registered once.** If moreover the script issues fewer operations than the
    subscription-identifier counter has values (it wraps after 268 435 455 allocations), then at every handler call of the
    trace the subscription identifiers in the context's table are pairwise distinct (`subsOnce`), and in the world
    reached so are the identifiers in flight (queued SUBSCRIBEs and the table), all below the counter. -/
theorem script_registers_identifiers_once (cfg : Cfg) (evs : List Ev) (hn : (opIds evs).Nodup)
    (hlen : (opIds evs).length + 1 < 268435455) :
    ∃ tr, STrace { cfg := cfg } tr (evs.foldl World.step { cfg := cfg }) ∧ (issuedOf tr).Nodup ∧
      (issuedOf tr).Sublist (opIds evs) ∧ (∀ l ∈ tr, l.subsOnce) ∧ SidInv (evs.foldl World.step { cfg := cfg }) := by
  obtain ⟨tr, st, hnd, hs, _⟩ := script_is_a_trace cfg evs hn
  obtain ⟨a, b⟩ := st.started (fun _ => False) (fun n h => absurd rfl h) hnd (fun _ _ h => h)
  have hsub : startedOf tr ⊆ issuedOf tr := by
    intro n hm
    rcases b n hm with h | h
    · exact h.elim
    · exact h
  have hl : (startedOf tr).length ≤ (opIds evs).length :=
    Nat.le_trans (a.length_le_of_subset hsub) hs.length_le
  obtain ⟨x, _, z⟩ := st.sidInv (sidInv_init cfg) (by show 1 + _ < _; omega)
  exact ⟨tr, st, hnd, hs, z, x⟩

/-! ## 1. the conservation law -/

/-- **Conservation, one move.** For a channel `id` that exists before and after a move (other than its own creation):
    what its stream has yielded so far followed by what is buffered is, afterwards, what it was before followed by the
    messages the move delivers into `id` — the history only grows at its end, by exactly the delivered messages;
    nothing is lost, duplicated or reordered. -/
theorem move_conservation {l : SLab} {w w' : World} (m : SMove l w w') (wf : ChanWf w) (id : Nat) (ch ch' : Chan)
    (h : w.chan id = some ch) (h' : w'.chan id = some ch') (hn : l ≠ .new id) :
    itemsOf id w'.out ++ ch'.buf = itemsOf id w.out ++ ch.buf ++ deliversTo id l.effs :=
  m.hist_alive wf id ch ch' h h' hn

/-- **Conservation, any trace.** Along any sequence of moves that does not re-create channel `id`:
    * if the channel exists at both ends, yielded ++ buffered at the end = yielded ++ buffered at the start ++ everything
      delivered into `id` in between, in order;
    * if it exists at the start, what the stream has yielded at the end is a prefix of that (the rest is still
      buffered, or was when the receiver was dropped);
    * if it does not exist at the start, it does not exist at the end, its stream yields nothing and nothing is
      delivered into it. -/
theorem trace_conservation {tr : List SLab} {w w' : World} (t : STrace w tr w') (wf : ChanWf w) (id : Nat)
    (hn : .new id ∉ tr) :
    (∀ ch ch', w.chan id = some ch → w'.chan id = some ch' →
      itemsOf id w'.out ++ ch'.buf = itemsOf id w.out ++ ch.buf ++ delivered id tr) ∧
    (∀ ch, w.chan id = some ch → ∃ rest, itemsOf id w'.out ++ rest = itemsOf id w.out ++ ch.buf ++ delivered id tr) ∧
    (w.chan id = none → w'.chan id = none ∧ itemsOf id w'.out = itemsOf id w.out ∧ delivered id tr = []) :=
  ⟨fun ch ch' h h' => t.hist_alive wf id ch ch' h h' hn, fun ch h => t.hist_prefix wf id ch h hn,
    fun h => t.none_quiet id h hn⟩

/-- **Conservation, one script step** (`step_conservation`). In a world `w` in which the invariants of the moves hold
    (`SInv U w` — in particular every world a script with distinct identifiers reaches, `script_is_a_trace`) and for an
    event that does not re-issue an identifier already used: the step is a trace `tr` of moves such that for every
    channel `id` that exists in `w`, what its stream has yielded after the step, followed by what is then buffered (if
    the channel still exists), equals what it had yielded before, followed by what was buffered, followed by exactly the
    messages of the `deliver id` effects of the handlers run in the step (`delivered id tr`), in order. -/
theorem step_conservation (w : World) (hi : OpsInv w) (U : Nat → Prop) (hs : SInv U w) (e : Ev)
    (hnew : ∀ n, evOpId e = some n → ¬ U n) (id : Nat) (ch : Chan) (hch : w.chan id = some ch) :
    ∃ tr, STrace w tr (w.step e) ∧
      (∀ ch', (w.step e).chan id = some ch' →
        itemsOf id (w.step e).out ++ ch'.buf = itemsOf id w.out ++ ch.buf ++ delivered id tr) ∧
      (∃ rest, itemsOf id (w.step e).out ++ rest = itemsOf id w.out ++ ch.buf ++ delivered id tr) := by
  obtain ⟨tr, st, hiss⟩ := step_dec w e hi
  obtain ⟨hU, hnf⟩ := hs.polled id (by rw [hch]; simp)
  have hnot : id ∉ issuedOf tr := by
    rcases hiss with h | ⟨n, h1, h2⟩
    · rw [h]; simp
    · rw [h2]; simp only [List.mem_singleton]; intro e'; subst e'; exact hnew id h1 hU
  have hn : .new id ∉ tr := st.no_new id hnf hnot
  exact ⟨tr, st, fun ch' h' => st.hist_alive hs.wf id ch ch' hch h' hn, st.hist_prefix hs.wf id ch hch hn⟩

/-- **Conservation, any script from any world** in which the invariants of the moves hold and whose identifiers the
    script does not re-issue: for every channel `id` that exists at the start, after the script what its stream has
    yielded followed by what is buffered (if the channel still exists) is what it was at the start followed by exactly
    the messages delivered into `id` during the script, in order; if the receiver was dropped on the way, what it had
    yielded is a prefix of that. -/
theorem script_conservation_from (w0 : World) (hi : OpsInv w0) (U : Nat → Prop) (hs : SInv U w0) (evs : List Ev)
    (hnew : ∀ n ∈ opIds evs, ¬ U n) (id : Nat) (ch : Chan) (hch : w0.chan id = some ch) :
    ∃ tr, STrace w0 tr (evs.foldl World.step w0) ∧
      (∀ ch', (evs.foldl World.step w0).chan id = some ch' →
        itemsOf id (evs.foldl World.step w0).out ++ ch'.buf = itemsOf id w0.out ++ ch.buf ++ delivered id tr) ∧
      (∃ rest, itemsOf id (evs.foldl World.step w0).out ++ rest = itemsOf id w0.out ++ ch.buf ++ delivered id tr) := by
  obtain ⟨tr, st, hsub⟩ := steps_dec evs w0 hi
  obtain ⟨hU, hnf⟩ := hs.polled id (by rw [hch]; simp)
  have hn : .new id ∉ tr := st.no_new id hnf (fun hm => hnew id (hsub.subset hm) hU)
  exact ⟨tr, st, fun ch' h' => st.hist_alive hs.wf id ch ch' hch h' hn, st.hist_prefix hs.wf id ch hch hn⟩

/-- **Every stream yields exactly what was delivered to it, in order** (script level). For every script with pairwise
    distinct `OP` identifiers there is a trace `tr` of moves from the initial world to the world reached such that for
    every channel `id`:
    * if the channel (still) exists: the messages its stream has yielded so far, followed by the messages still
      buffered, are exactly — same messages, same order, same multiplicity, unchanged — the messages the context's
      handlers delivered into `id` during the whole execution (`delivered id tr`);
    * in any case the messages yielded so far are a prefix of those (a receiver dropped with messages still buffered
      never yields them; nothing else is ever missing, and nothing is yielded that was not delivered).
    This covers messages delivered before the SUBACK arrived and before `stream()` was called: the channel exists from
    the first poll of the `subscribe()` future on, and deliveries are buffered in it. -/
theorem stream_yields_exactly_what_was_delivered (cfg : Cfg) (evs : List Ev) (hn : (opIds evs).Nodup) :
    ∃ tr, STrace { cfg := cfg } tr (evs.foldl World.step { cfg := cfg }) ∧ ∀ id,
      (∀ ch, (evs.foldl World.step { cfg := cfg }).chan id = some ch →
        itemsOf id (evs.foldl World.step { cfg := cfg }).out ++ ch.buf = delivered id tr) ∧
      (∃ rest, itemsOf id (evs.foldl World.step { cfg := cfg }).out ++ rest = delivered id tr) := by
  obtain ⟨tr, st, hnd, _, _⟩ := script_is_a_trace cfg evs hn
  exact ⟨tr, st, fun id => st.conservation (fun _ => False) id (chanWf_init cfg) (fun n h => absurd rfl h) rfl rfl hnd
    (fun _ _ h => h)⟩

/-- the end-of-script flush logs no stream line: the same holds for the transcript `World.run` -/
theorem itemsOf_run (cfg : Cfg) (evs : List Ev) (id : Nat) :
    itemsOf id (World.run cfg evs) = itemsOf id (evs.foldl World.step { cfg := cfg }).out := by
  unfold World.run finishScript flushRaw
  split
  · rfl
  · simp [emit, itemsOf]

/-! ## 2. who gets delivered what -/

/-- **What one handler call delivers into channel `id`** (context level, input `i` handled in state `c`).
    * a request from a handle (`handle_message`) delivers nothing; so does every inbound packet other than a PUBLISH;
    * every message a handled PUBLISH `pb` puts into `id` is `pb` itself, unchanged; it puts one there only if it is
      not a QoS 2 re-delivery, the receiver of `id` is alive and `id` is registered under a subscription identifier
      `pb` carries — no other channel gets anything;
    * when every subscription identifier is registered once, exactly: nothing for a QoS 2 re-delivery, otherwise one
      copy of `pb` for each occurrence of a subscription identifier in `pb` that is registered to `id`, provided
      `id`'s receiver is alive (`pubDelivers`). -/
theorem who_gets_delivered_what (c : Ctx) (id : Nat) :
    (∀ m wok, deliversTo id (c.stepIn (.msg m wok)).2.effs = []) ∧
    (∀ p dead wok, (∀ pb, p ≠ .publish pb) → deliversTo id (c.stepIn (.pkt p dead wok)).2.effs = []) ∧
    (∀ pb dead wok,
      (∀ q ∈ deliversTo id (c.stepIn (.pkt (.publish pb) dead wok)).2.effs, q = pb) ∧
      (deliversTo id (c.stepIn (.pkt (.publish pb) dead wok)).2.effs ≠ [] →
        ¬ (pb.qos = 2 ∧ pb.packetId.getD 0 ∈ c.inQos2) ∧ id ∉ dead ∧ ∃ sid ∈ pb.subIds, (sid, id) ∈ c.subs)) ∧
    (∀ pb dead wok, (c.subs.map (·.1)).Nodup →
      deliversTo id (c.stepIn (.pkt (.publish pb) dead wok)).2.effs = pubDelivers id c pb dead) :=
  ⟨fun m wok => deliversTo_stepIn_msg c m wok id, fun p dead wok hp => deliversTo_stepIn_other c p dead wok id hp,
    fun pb dead wok => deliversTo_stepIn_publish_sound c pb dead wok id,
    fun pb dead wok hn => deliversTo_stepIn_publish c pb dead wok id hn⟩

/-- **… in the world**: the handler the loop calls in world `w` on an inbound PUBLISH `pb` (`w.inPkt`: the receivers
    counted as dead are those of registered channels that no longer exist). With the channel table well formed and
    every subscription identifier registered once: if channel `id` does not exist nothing is delivered into it; if it
    exists — whether or not its SUBACK has arrived, whether or not `stream()` has been called, however many messages
    it has buffered — it gets one copy of `pb` for each subscription identifier `pb` carries that is registered to
    `id`, unless `pb` is a QoS 2 re-delivery. -/
theorem publish_delivers_in_world (w : World) (wf : ChanWf w) (hn : (w.c.subs.map (·.1)).Nodup) (pb : PublishRx)
    (id : Nat) :
    (w.chan id = none → deliversTo id (w.c.stepIn (w.inPkt (.publish pb))).2.effs = []) ∧
    (w.chan id ≠ none → deliversTo id (w.c.stepIn (w.inPkt (.publish pb))).2.effs =
      if pb.qos = 2 ∧ pb.packetId.getD 0 ∈ w.c.inQos2 then []
      else (pb.subIds.filter fun sid => lookupFirst sid w.c.subs == some id).map fun _ => pb) := by
  have e : deliversTo id (w.c.stepIn (w.inPkt (.publish pb))).2.effs = pubDelivers id w.c pb w.deadOf :=
    deliversTo_stepIn_publish w.c pb w.deadOf _ id hn
  rw [e]
  unfold pubDelivers
  constructor
  · intro hnone
    split
    · rfl
    · rw [List.map_eq_nil_iff, List.filter_eq_nil_iff]
      intro sid _
      simp only [Bool.and_eq_true, beq_iff_eq, decide_eq_true_eq, not_and]
      intro hl hnd
      apply hnd
      simp only [deadOf, List.mem_filter, List.mem_map, Bool.not_eq_true', Bool.not_eq_false]
      exact ⟨⟨(sid, id), User.lookupFirst_mem _ _ _ hl, rfl⟩, by simp [chanRxAlive, hnone]⟩
  · intro hsome
    have : decide (id ∉ w.deadOf) = true := by simpa using not_dead_of_chan w wf id hsome
    simp [this]

/-- **The channel exists, and the registration is on its way, from the first poll of `subscribe()`.** If the request
    can be encoded and the context exists, the first poll of the future of `subscribe()` call `id` creates the channel
    `id` (empty, both halves alive), allocates the subscription identifier `w.subCtr` and queues the SUBSCRIBE message
    that carries exactly this identifier and this channel; nothing is logged. When the context handles that message
    (`registered_when_subscribe_is_sent`, Properties/C07.lean) it writes the SUBSCRIBE and registers
    `(w.subCtr, id)` — before any SUBACK, and whether or not the caller ever polls the future again. -/
theorem subscribe_creates_channel_and_queues_registration (w : World) (id : Nat) (t : SubscribeTx)
    (hv : ({ t with packetId := w.pidCtr, subId := some w.subCtr } : SubscribeTx).valid = true)
    (hc : w.hasCtx = true) :
    (w.startOp id (.subscribe t)).chan id = some {} ∧
    (w.startOp id (.subscribe t)).queue = w.queue ++
      [.subscribe (actionId 9 w.pidCtr) w.subCtr
        ({ t with packetId := w.pidCtr, subId := some w.subCtr } : SubscribeTx).encode (2 * id) id] ∧
    (w.startOp id (.subscribe t)).out = w.out := by
  rw [User.startOp_subscribe]
  simp only [hv, Bool.not_true, Bool.false_eq_true, ↓reduceIte]
  obtain ⟨wk, qr, e⟩ := User.sendMsg_shape (((w.allocPid.2).allocSub.2).setChan id {})
    (.subscribe (actionId 9 w.pidCtr) w.subCtr
      ({ t with packetId := w.pidCtr, subId := some w.subCtr } : SubscribeTx).encode (2 * id) id)
    (by simpa [setChan, allocPid, allocSub] using hc)
  rw [e]
  refine ⟨?_, ?_, ?_⟩
  · simp [chan, awaitSlot, setChan, allocPid, allocSub, User.lookupFirst_setAssoc_self]
  · simp [awaitSlot, setChan, allocPid, allocSub]
  · simp [awaitSlot, setChan, allocPid, allocSub]

/-- **`stream()` moves nothing.** Taking the stream out of the response of `subscribe()` (the script event `STREAM id`)
    changes no channel, no buffer, nothing in the context and logs no stream line: the messages delivered before the
    call are in the channel's buffer and are yielded, in order, by the polls that follow (`trace_conservation`). -/
theorem stream_call_moves_nothing (w : World) (id : Nat) :
    (w.apply (.stream id)).chans = w.chans ∧ (w.apply (.stream id)).c = w.c ∧
    (∀ j, itemsOf j (w.apply (.stream id)).out = itemsOf j w.out) := by
  simp only [apply]
  split
  · exact ⟨rfl, rfl, fun j => by simp [badScript, emit, itemsOf]⟩
  · exact ⟨by simp, by simp, fun j => by simp⟩

/-- **A PUBLISH is delivered whether or not the SUBACK has arrived or `stream()` has been called.** In any world in
    which `sid` is registered to channel `id` and the channel exists (its receiver — the pending future, the response, or
    the stream — has not been dropped), an inbound PUBLISH carrying `sid` that is not a QoS 2 re-delivery is delivered
    into `id`, exactly once and unchanged. The hypotheses mention neither the operation table (has the SUBACK arrived? has
    the future been polled again?) nor `rsps` / `streams` (has `stream()` been called?) nor the buffer (is the stream
    lagging?). -/
theorem publish_delivered_before_suback_and_before_stream (w : World) (wf : ChanWf w)
    (hn : (w.c.subs.map (·.1)).Nodup) (pb : PublishRx) (sid id : Nat)
    (hreg : lookupFirst sid w.c.subs = some id) (hch : w.chan id ≠ none) (hsid : pb.subIds = [sid])
    (hnew : ¬ (pb.qos = 2 ∧ pb.packetId.getD 0 ∈ w.c.inQos2)) :
    deliversTo id (w.c.stepIn (w.inPkt (.publish pb))).2.effs = [pb] := by
  rw [(publish_delivers_in_world w wf hn pb id).2 hch, if_neg hnew, hsid]
  simp [hreg]

/-- **"Dead" means dropped.** The receivers the loop reports to the handler as gone (`w.deadOf`, the `dead` of the
    handler's input) are exactly the channels registered in the subscription table whose entry no longer exists —
    i.e. whose receiving half (the pending `subscribe()` future, its response, or the stream) was dropped or has ended. -/
theorem dead_receivers_are_dropped_channels (w : World) (wf : ChanWf w) (id : Nat) :
    id ∈ w.deadOf ↔ (∃ sid, (sid, id) ∈ w.c.subs) ∧ w.chan id = none := by
  simp only [deadOf, List.mem_filter, List.mem_map, Bool.not_eq_true', Bool.not_eq_false]
  have h := wf.rxAlive_iff id
  constructor
  · rintro ⟨⟨e, he, rfl⟩, hd⟩
    refine ⟨⟨e.1, he⟩, ?_⟩
    cases hc : w.chan e.2 with
    | none => rfl
    | some c0 => rw [h.mpr (by rw [hc]; simp)] at hd; cases hd
  · rintro ⟨⟨sid, hs⟩, hn⟩
    refine ⟨⟨(sid, id), hs, rfl⟩, ?_⟩
    cases hr : w.chanRxAlive id with
    | false => rfl
    | true => exact absurd hn (h.mp hr)

/-- **A lagging stream changes nothing for the others**: what a PUBLISH delivers into `id` depends on the context
    state, the packet and on *which* channels exist — not on how many messages any channel (including `id`) has
    buffered, nor on whether its stream has been polled. Two worlds with the same context state and the same set of
    existing channels deliver the same messages into `id`. -/
theorem delivery_independent_of_buffers (w1 w2 : World) (wf1 : ChanWf w1) (wf2 : ChanWf w2) (hc : w1.c = w2.c)
    (hex : ∀ ch, w1.chan ch = none ↔ w2.chan ch = none) (p : RxPacket) (id : Nat) :
    deliversTo id (w1.c.stepIn (w1.inPkt p)).2.effs = deliversTo id (w2.c.stepIn (w2.inPkt p)).2.effs := by
  have hd : w1.deadOf = w2.deadOf := by
    unfold deadOf
    rw [hc]
    apply List.filter_congr
    intro ch _
    have a1 := wf1.rxAlive_iff ch
    have a2 := wf2.rxAlive_iff ch
    have := hex ch
    cases h1 : w1.chanRxAlive ch <;> cases h2 : w2.chanRxAlive ch <;> simp_all
  by_cases hp : ∃ pb, p = .publish pb
  · obtain ⟨pb, rfl⟩ := hp
    show deliversTo id (w1.c.handlePkt _ (.publish pb) _).2.1 = deliversTo id (w2.c.handlePkt _ (.publish pb) _).2.1
    rw [deliversTo_handlePkt_publish, deliversTo_handlePkt_publish, hc, hd]
  · have e1 : deliversTo id (w1.c.stepIn (w1.inPkt p)).2.effs = [] :=
      deliversTo_stepIn_other _ _ _ _ _ (fun pb e => hp ⟨pb, e⟩)
    have e2 : deliversTo id (w2.c.stepIn (w2.inPkt p)).2.effs = [] :=
      deliversTo_stepIn_other _ _ _ _ _ (fun pb e => hp ⟨pb, e⟩)
    rw [e1, e2]

/-- **The ghost in closed form.** Along a trace in which, at every handled inbound packet, every subscription
    identifier is registered once or no registered receiver is gone (`subsOnce`), the messages delivered into `id` are,
    in handling order, for each handled inbound PUBLISH `pb` that is not a QoS 2 re-delivery, one copy of `pb` per
    subscription identifier it carries that was registered to `id` at that moment with `id`'s receiver alive
    (`pubDelivers id c pb dead`, `c` = the context state and `dead` = the dead receivers at that moment) — and nothing
    else: requests, other packets, session resumption and dropping the context deliver nothing. -/
theorem delivered_in_closed_form (id : Nat) (tr : List SLab) (h : ∀ l ∈ tr, l.subsOnce) :
    delivered id tr = tr.flatMap (SLab.publishes id) :=
  delivered_eq_publishes id tr h

/-- **C07, composed** (script level). For every script with pairwise distinct `OP` identifiers (fewer than the
    268 435 455 values of the subscription-identifier counter) there is a trace `tr` of moves from the initial world to
    the world reached such that for every channel `id`: what its stream has yielded so far followed by what is still
    buffered is — same messages, same order, each exactly as often, unchanged — the handled inbound PUBLISH packets,
    in handling order, QoS 2 re-deliveries excluded, once per carried subscription identifier that was registered to `id`
    at that moment with `id`'s receiver alive (`SLab.publishes id`, i.e. `pubDelivers`); if the receiver has been dropped
    (with messages still buffered) what it had yielded is a prefix of that. -/
theorem stream_yields_the_publishes_registered_for_it (cfg : Cfg) (evs : List Ev) (hn : (opIds evs).Nodup)
    (hlen : (opIds evs).length + 1 < 268435455) :
    ∃ tr, STrace { cfg := cfg } tr (evs.foldl World.step { cfg := cfg }) ∧ ∀ id,
      (∀ ch, (evs.foldl World.step { cfg := cfg }).chan id = some ch →
        itemsOf id (evs.foldl World.step { cfg := cfg }).out ++ ch.buf = tr.flatMap (SLab.publishes id)) ∧
      (∃ rest, itemsOf id (evs.foldl World.step { cfg := cfg }).out ++ rest = tr.flatMap (SLab.publishes id)) := by
  obtain ⟨tr, st, hnd, _, hs, _⟩ := script_registers_identifiers_once cfg evs hn hlen
  refine ⟨tr, st, fun id => ?_⟩
  rw [← delivered_in_closed_form id tr hs]
  exact st.conservation (fun _ => False) id (chanWf_init cfg) (fun n h => absurd rfl h) rfl rfl hnd (fun _ _ h => h)

/-! ## 3. a stream ends only when the context let go of its sender -/

/-- **Why a channel is without sender** (any trace from any world with a well-formed channel table). If at the end of
    a trace channel `id` exists and has lost its sender, then it had already lost it at the start, or the trace contains
    a batch `src` of context effects with an `EndCause`: applied while the channel existed with its sender alive, it is
    the context being dropped while it owned that sender (in a queued SUBSCRIBE or in its subscription table), the reset
    of an expired session in which `id` was registered, or the refusal of `id`'s own SUBSCRIBE for its size. Nothing
    else — no handler for any packet, no handle future, no stream, no other subscription — closes a channel whose
    receiver is alive. -/
theorem sender_lost_only_by_end_cause {tr : List SLab} {w w' : World} (t : STrace w tr w') (wf : ChanWf w) (id : Nat)
    (ch' : Chan) (h' : w'.chan id = some ch') (ht : ch'.txAlive = false) :
    (∃ ch, w.chan id = some ch ∧ ch.txAlive = false) ∨
    (∃ t1 src t2, tr = t1 ++ .ctx src :: t2 ∧ EndCause id src) := by
  rcases t.closed wf id ch' h' ht with h | ⟨t1, src, t2, a, b, ch, e, s1, mv, s2, ha, hat, hmem⟩
  · exact Or.inl h
  · exact Or.inr ⟨t1, src, t2, e, mv.endCause (wf.trace s1) id (by rw [ha]; simp) hmem⟩

/-- **`END` is logged only for a drained channel whose sender the context has let go.** For every script with pairwise
    distinct `OP` identifiers: if the transcript contains `END id`, the execution is a trace
    `t1 ++ ctx src :: t2 ++ endS id :: t3` where `src` is an `EndCause` for `id` (the context was dropped, an expired
    session was reset, or the SUBSCRIBE was refused for its size) — and at the `END` the buffer was empty: the channel
    is gone afterwards, and the stream has yielded exactly everything that was ever delivered into it
    (`itemsOf id = delivered id tr`): a stream never ends with messages unread, and never yields anything after `END`. -/
theorem stream_ends_only_after_end_cause (cfg : Cfg) (evs : List Ev) (hn : (opIds evs).Nodup) (id : Nat)
    (h : Obs.endStream id ∈ World.run cfg evs) :
    ∃ tr t1 src t2 t3, STrace { cfg := cfg } tr (evs.foldl World.step { cfg := cfg }) ∧
      tr = t1 ++ .ctx src :: t2 ++ .endS id :: t3 ∧ EndCause id src ∧
      (evs.foldl World.step { cfg := cfg }).chan id = none ∧
      itemsOf id (World.run cfg evs) = delivered id tr := by
  obtain ⟨tr, st, hnd, _, _⟩ := script_is_a_trace cfg evs hn
  -- the `END` line is in the log of the world reached
  have hout : Obs.endStream id ∈ (evs.foldl World.step { cfg := cfg }).out := by
    unfold World.run finishScript flushRaw at h
    split at h
    · exact h
    · simp only [emit, List.mem_append, List.mem_singleton] at h
      rcases h with h | h
      · exact h
      · cases h
  have hmem : SLab.endS id ∈ tr := by
    rcases st.end_logged id hout with h0 | h0
    · simp at h0
    · exact h0
  obtain ⟨p, t3, rfl⟩ := List.append_of_mem hmem
  obtain ⟨a, b, s1, m, s3⟩ := st.split_at
  have hndp : (issuedOf p).Nodup := by
    rw [issuedOf_append] at hnd; exact (List.nodup_append.mp hnd).1
  have wfa : ChanWf a := (chanWf_init cfg).trace s1
  have inva := (sInv_init (fun _ => False) cfg).trace s1 hndp (fun _ _ h => h)
  cases m with
  | endS _ ch hch hbuf htx chans c_eq ops out =>
    -- why the sender was gone
    rcases sender_lost_only_by_end_cause s1 (chanWf_init cfg) id ch hch htx with ⟨c0, h0, _⟩ | ⟨t1, src, t2, e, hc⟩
    · simp [chan, lookupFirst] at h0
    · -- everything delivered had been yielded
      have hcons := (s1.conservation (fun _ => False) id (chanWf_init cfg) (fun n h => absurd rfl h) rfl rfl hndp
        (fun _ _ h => h)).1 ch hch
      rw [hbuf, List.append_nil] at hcons
      -- afterwards the channel is gone for good
      have hb : b.chan id = none := chan_erase_self chans wfa.nodup
      have hib : itemsOf id b.out = itemsOf id a.out := by rw [out, itemsOf_append]; simp [itemsOf]
      obtain ⟨hU, hnf⟩ := inva.polled id (by rw [hch]; simp)
      have hidp : id ∈ issuedOf p := by rcases hU with hU | hU; exact hU.elim; exact hU
      have hnot : id ∉ issuedOf t3 := by
        rw [issuedOf_append, issuedOf_cons] at hnd
        intro hm
        exact (List.nodup_append.mp hnd).2.2 id hidp id (List.mem_append_right _ hm) rfl
      have hnfb : NotFresh id b := by
        intro hd r
        rcases ops id with e' | ⟨_, e'⟩
        · rw [e']; exact hnf hd r
        · exact e' hd r
      obtain ⟨x, y, z⟩ := s3.none_quiet id hb (s3.no_new id hnfb hnot)
      refine ⟨_, t1, src, t2, t3, st, by rw [e], hc, x, ?_⟩
      rw [itemsOf_run, y, hib, hcons, delivered_append, delivered_cons, z]
      simp [SLab.effs]

/-! ## 4. independence -/

/-- **Other streams do not matter.** Polling another stream `id'`, dropping it, or dropping a response that was never
    turned into a stream, leaves channel `id` — buffer, sender, receiver — and what stream `id` has yielded exactly as
    they were. -/
theorem other_stream_polled_or_dropped (w : World) (id id' : Nat) (hne : id' ≠ id) :
    ((w.pollStream id').chan id = w.chan id ∧ itemsOf id (w.pollStream id').out = itemsOf id w.out) ∧
    ((w.apply (.drop (.st id'))).chan id = w.chan id ∧ itemsOf id (w.apply (.drop (.st id'))).out = itemsOf id w.out) ∧
    ((w.apply (.dropRsp id')).chan id = w.chan id ∧ itemsOf id (w.apply (.dropRsp id')).out = itemsOf id w.out) := by
  refine ⟨(pollStream_dec w id').away id (fun l h => away_of_stLab hne h), ?_, ?_⟩
  · simp only [apply]
    split
    · exact ⟨Poster.lookupFirst_eraseFirst_ne id id' w.chans (fun e => hne e.symm), rfl⟩
    · exact ⟨rfl, rfl⟩
  · simp only [apply]
    split
    · exact ⟨Poster.lookupFirst_eraseFirst_ne id id' w.chans (fun e => hne e.symm), rfl⟩
    · exact ⟨rfl, rfl⟩

/-- **Other operations do not matter** — in particular `unsubscribe()`, other `subscribe()` calls, publishes: a poll of
    the future of another operation `id'` (first poll or resumption), or dropping that future, leaves channel `id` and
    what stream `id` has yielded exactly as they were. (Such a poll only queues a message or consumes a oneshot; what
    the context later does with an UNSUBSCRIBE message or an UNSUBACK changes neither the channel nor — see
    `registration_kept` — its registration.) -/
theorem other_operation_polled_or_dropped (w : World) (hi : OpsInv w) (id id' : Nat) (hne : id' ≠ id) :
    ((w.pollOp id').chan id = w.chan id ∧ itemsOf id (w.pollOp id').out = itemsOf id w.out) ∧
    ((w.dropOp id').chan id = w.chan id ∧ itemsOf id (w.dropOp id').out = itemsOf id w.out) :=
  ⟨(pollOp_dec w id' hi).away id (fun l h => away_of_opLab hne h),
    (dropOp_dec w id' hi).away id (fun l h => away_of_opLab hne h)⟩

/-- **A registration is removed only with the context or its session.** One move keeps the registration `(sid, id)` of
    an existing channel in the context's subscription table, unless the move is the context being dropped, a new
    context being created, or the reset of an expired session. In particular no handler removes it — not the one
    handling an UNSUBSCRIBE request, a SUBACK, an UNSUBACK or a PUBLISH for other subscriptions (the dispatch loop
    removes registrations of channels whose receiver is gone, only). -/
theorem registration_kept {l : SLab} {w w' : World} (m : SMove l w w') (wf : ChanWf w) (sid id : Nat)
    (hreg : (sid, id) ∈ w.c.subs) (hch : w.chan id ≠ none) :
    (sid, id) ∈ w'.c.subs ∨ (∃ q c, l = .ctx (.dropCtx q c)) ∨ l = .ctx .fresh ∨
      (∃ c el, l = .ctx (.resume c) ∧ c.disc = some el ∧ c.sessionExpired el = true) :=
  m.registration wf sid id hreg hch

/-- … along a trace: while the receiver is alive and the context is neither dropped, re-created nor its expired
    session reset, the registration stays — so every further PUBLISH carrying `sid` keeps being delivered
    (`publish_delivers_in_world`). -/
theorem registration_kept_along {tr : List SLab} {w w' : World} (t : STrace w tr w') (wf : ChanWf w) (sid id : Nat)
    (hreg : (sid, id) ∈ w.c.subs) (hend : w'.chan id ≠ none) (hn : .new id ∉ tr)
    (hq : ∀ l ∈ tr, (∀ q c, l ≠ .ctx (.dropCtx q c)) ∧ l ≠ .ctx .fresh ∧
      ∀ c el, l = .ctx (.resume c) → c.disc = some el → c.sessionExpired el ≠ true) :
    (sid, id) ∈ w'.c.subs := by
  induction t with
  | refl => exact hreg
  | @cons a b c l tr' m t' ih =>
    have hn' : .new id ∉ tr' := fun hm => hn (List.mem_cons_of_mem _ hm)
    have hl : l ≠ .new id := fun e => hn (by rw [e]; simp)
    have hb : b.chan id ≠ none := fun e => hend (t'.none_quiet id e hn').1
    have ha : a.chan id ≠ none := fun e => hb (m.chan_none id e hl)
    obtain ⟨q1, q2, q3⟩ := hq l (by simp)
    rcases m.registration wf sid id hreg ha with h | ⟨q, c0, e⟩ | e | ⟨c0, el, e, e1, e2⟩
    · exact ih (wf.move m) h hend hn' (fun l' hl' => hq l' (by simp [hl']))
    · exact absurd e (q1 q c0)
    · exact absurd e q2
    · exact absurd e2 (q3 c0 el e e1)

/-! ## 5. non-vacuity -/

section NonVacuity
open Ex

/-- the script "subscribe, serve, drop the context" uses distinct identifiers: hypothesis of the script-level theorems -/
example : (opIds [Ev.setup, .op 1 0 (.subscribe { packetId := 0, filters := [([0x61], {})] }),
    .op 2 0 (.unsubscribe { packetId := 0, filters := [[0x61]] }), .dropCtx]).Nodup := by decide

/-- in the world `wSub` (stream 1 asleep on its empty channel, registered under subscription identifier 1) a handled
    PUBLISH carrying identifier 1 delivers exactly itself into channel 1 and nothing into channel 2 … -/
example :
    deliversTo 1 (wSub.c.stepIn (.pkt (.publish { topic := [0x61], subIds := [1] }) [] true)).2.effs =
      [{ topic := [0x61], subIds := [1] }] ∧
    deliversTo 2 (wSub.c.stepIn (.pkt (.publish { topic := [0x61], subIds := [1] }) [] true)).2.effs = [] := by
  decide

/-- … twice if it carries the identifier twice, and not at all if the receiver is gone (then the registration is
    removed: `dropChan`) -/
example :
    pubDelivers 1 wSub.c { topic := [0x61], subIds := [1, 5, 1] } [] =
      [{ topic := [0x61], subIds := [1, 5, 1] }, { topic := [0x61], subIds := [1, 5, 1] }] ∧
    pubDelivers 1 wSub.c { topic := [0x61], subIds := [1] } [1] = [] ∧
    (wSub.c.stepIn (.pkt (.publish { topic := [0x61], subIds := [1] }) [1] true)).2.effs = [.dropChan 1] := by
  decide

/-- the handler move itself, from `wPub` (= `wSub` with that PUBLISH pending at the transport: the framing layer yields
    its frame, the decoder the packet `pubA`): the channel of the sleeping stream gets the message (conservation:
    yielded ++ buffered grows by the delivered message), the stream is woken -/
example :
    let w' := ({ wPub with rx := {}, reader := [], c := (wPub.c.stepIn (wPub.inPkt (.publish pubA))).1 } : World).applyEffs
      (wPub.c.stepIn (wPub.inPkt (.publish pubA))).2.effs
    SMove (.ctx (.handler wPub.c (wPub.inPkt (.publish pubA)))) wPub w' ∧
    w'.chan 1 = some { buf := [pubA], reg := false } ∧ Task.st 1 ∈ w'.woken ∧
    deliversTo 1 (SLab.ctx (.handler wPub.c (wPub.inPkt (.publish pubA)))).effs = [pubA] :=
  ⟨smove_handler_pkt wPub {} [] pubFrame (.publish pubA) rfl pn_pubFrame dec_pubFrame, by decide, by decide, by decide⟩

/-- first poll of a `subscribe()` future in a serving world: the hypotheses of
    `subscribe_creates_channel_and_queues_registration` hold, the channel 1 exists afterwards and the SUBSCRIBE carrying
    subscription identifier 1 and channel 1 is queued -/
example :
    let w : World := { wServe [] with ops := [(1, .fresh 0 (.subscribe { packetId := 0, filters := [([0x61], {})] }))] }
    ({ packetId := w.pidCtr, subId := some w.subCtr, filters := [([0x61], {})] } : SubscribeTx).valid = true ∧
    w.hasCtx = true ∧
    (w.startOp 1 (.subscribe { packetId := 0, filters := [([0x61], {})] })).chan 1 = some {} ∧
    (w.startOp 1 (.subscribe { packetId := 0, filters := [([0x61], {})] })).queue.map Msg.sid? = [some 1] := by
  decide

/-- `wWaitSub`: the SUBSCRIBE is out and registered, the SUBACK has not arrived, `stream()` has not been called — the
    hypotheses of `publish_delivered_before_suback_and_before_stream` hold, so the PUBLISH is delivered (and buffered) -/
example :
    wWaitSub.opSt 1 = some (.wait 2 .suback) ∧ wWaitSub.rsps = [] ∧ wWaitSub.streams = [] ∧
    deliversTo 1 (wWaitSub.c.stepIn (wWaitSub.inPkt (.publish pubA))).2.effs = [pubA] :=
  ⟨by decide, rfl, rfl, publish_delivered_before_suback_and_before_stream wWaitSub wWaitSub_wf (by decide) pubA 1 1
    (by decide) (by decide) rfl (by decide)⟩

/-- `wSub` satisfies the hypotheses of `step_conservation` (`Ex.wSub_sInv`, `Ex.wSub_opsInv`) and the identifier
    invariant (`Ex.wSub_sidInv`); a script of three operations is far below the wrap-around bound of
    `script_registers_identifiers_once` -/
example : SInv (· = 1) wSub ∧ OpsInv wSub ∧ SidInv wSub ∧ (opIds scrThree).Nodup ∧
    (opIds scrThree).length + 1 < 268435455 :=
  ⟨wSub_sInv, wSub_opsInv, wSub_sidInv, by decide, by decide⟩

/-- … so the theorem applies to the step `DROPCTX` from `wSub`; that step ends stream 1, and the cause found by
    `sender_lost_only_by_end_cause` is the drop of the context, which owned the sender in its subscription table -/
example : ∃ tr, STrace wSub tr (wSub.step .dropCtx) ∧
    ∃ rest, itemsOf 1 (wSub.step .dropCtx).out ++ rest = itemsOf 1 wSub.out ++ [] ++ delivered 1 tr := by
  obtain ⟨tr, st, _, h⟩ := step_conservation wSub wSub_opsInv (· = 1) wSub_sInv .dropCtx (by intro n h; cases h) 1
    { buf := [], reg := true } (by decide)
  exact ⟨tr, st, h⟩

example : (wSub.step .dropCtx).out = [.ev .dropCtx, .endStream 1] ∧
    EndCause 1 (.dropCtx wSub.queue wSub.c) :=
  ⟨by decide, .dropCtx _ _ (Or.inr ⟨1, by decide⟩)⟩

/-- `wPub` (stream 1 asleep, its PUBLISH pending at the transport) satisfies the hypotheses of
    `script_conservation_from` for any script that does not issue the identifier 1 again — e.g. polling the context
    task (which handles the PUBLISH) and then dropping the context -/
example : ∃ tr, STrace wPub tr ([Ev.poll .ctx, .dropCtx].foldl World.step wPub) ∧
    ∃ rest, itemsOf 1 ([Ev.poll .ctx, .dropCtx].foldl World.step wPub).out ++ rest =
      itemsOf 1 wPub.out ++ [] ++ delivered 1 tr := by
  obtain ⟨tr, st, _, h⟩ := script_conservation_from wPub wPub_opsInv (· = 1) wPub_sInv [Ev.poll .ctx, .dropCtx]
    (by intro n h; simp [opIds, evOpId] at h) 1 { buf := [], reg := true } (by decide)
  exact ⟨tr, st, h⟩

/-- **end to end, one step**: from `wPub` the script step `POLL ctx` reads the PUBLISH, delivers it and lets the woken
    stream yield it (`Ex.wPub_step`, evaluated). `step_conservation` applies, and here its ghost is not empty: the trace
    it provides delivered exactly `pubA` into channel 1, which is what the stream yielded. -/
example : ∃ tr, STrace wPub tr (wPub.step (.poll .ctx)) ∧ delivered 1 tr = [pubA] ∧
    itemsOf 1 (wPub.step (.poll .ctx)).out = [pubA] := by
  obtain ⟨tr, st, h, _⟩ := step_conservation wPub wPub_opsInv (· = 1) wPub_sInv (.poll .ctx) (by intro n h; cases h) 1
    { buf := [], reg := true } (by decide)
  have h1 := h _ wPub_step.2
  rw [wPub_step.1] at h1 ⊢
  refine ⟨tr, st, ?_, by decide⟩
  have e1 : itemsOf 1 [Obs.ev (.poll .ctx), .item 1 pubA] = [pubA] := by decide
  have e2 : itemsOf 1 wPub.out = [] := by decide
  rw [e1, e2] at h1
  simpa using h1.symm

/-- a stream with two buffered messages and no sender (`wDrain`): three polls are the moves `pop`, `pop`, `endS`;
    the conservation law says what it yields is what was buffered, in order -/
example : (wDrain.pollStream 3).out = [.item 3 { topic := [0x61] }] ∧
    (((wDrain.pollStream 3).pollStream 3).pollStream 3).out =
      [.item 3 { topic := [0x61] }, .item 3 { topic := [0x62] }, .endStream 3] ∧
    itemsOf 3 (((wDrain.pollStream 3).pollStream 3).pollStream 3).out = [{ topic := [0x61] }, { topic := [0x62] }] := by
  decide

/-- dropping another stream leaves this one's channel alone: the hypotheses of `other_stream_polled_or_dropped` are
    met by a world with two streams -/
example :
    let w : World := { wDrain with streams := [3, 4], chans := wDrain.chans ++ [(4, { buf := [{ topic := [0x63] }] })] }
    (w.apply (.drop (.st 4))).chan 3 = w.chan 3 ∧ (w.apply (.drop (.st 4))).chan 4 = none := by decide

/-- the registration of `wSub` survives the handling of an UNSUBACK and of a PUBLISH for somebody else -/
example :
    (wSub.c.stepIn (.pkt (.unsuback { packetId := 5 }) [] true)).1.subs = [(1, 1)] ∧
    (wSub.c.stepIn (.pkt (.publish { topic := [0x61], subIds := [9] }) [] true)).1.subs = [(1, 1)] := by decide

/-- an expired session reset on reconnection is an end cause: its effects drop the sender of the registered channel -/
example :
    let c : Ctx := { subs := [(1, 1)], disc := some 5, sei := 0 }
    c.resume.2.1 = [.dropChan 1] ∧ EndCause 1 (.resume c) :=
  ⟨by decide, .reset _ 5 rfl (by decide) ⟨1, by decide⟩⟩

/-- a SUBSCRIBE refused for its size is an end cause: the caller gets `MaximumPacketSizeExceeded`, the sender is dropped -/
example :
    let c : Ctx := { maxPkt := some 1 }
    (c.stepIn (.msg (.subscribe (actionId 9 1) 1 [0x82, 0] 2 1) true)).2.effs = [.send 2 .errSize, .dropChan 1] ∧
    EndCause 1 (.handler c (.msg (.subscribe (actionId 9 1) 1 [0x82, 0] 2 1) true)) :=
  ⟨by decide, .refused _ _ _ _ _ _ (by decide)⟩

/-- **Model note (receiver of a failed `subscribe()`).** In the library the stream receiver is a local of
    `subscribe()` and is dropped when the call returns an error; in the model a `subscribe()` future that completes with
    an error *after* its channel was created (its oneshot was closed, or it received `MaximumPacketSizeExceeded`) leaves
    the channel entry in place, so the model keeps reporting that receiver as alive. This does not affect the theorems
    above (an entry nobody reads only makes `rest` non-empty), and in both cases the channel is no longer registered
    (session reset / context dropped, resp. SUBSCRIBE refused) — but it is a place where the model is more generous than
    the code. -/
example :
    (({ wWaitSub with slots := [(2, .closed)] } : World).pollOp 1).out = [.done 1 (.err .contextExited)] ∧
    (({ wWaitSub with slots := [(2, .closed)] } : World).pollOp 1).opSt 1 = none ∧
    (({ wWaitSub with slots := [(2, .closed)] } : World).pollOp 1).chanRxAlive 1 = true ∧
    (({ wWaitSub with slots := [(2, .full .errSize)] } : World).pollOp 1).chan 1 = some {} := by decide

end NonVacuity

#print axioms step_is_a_trace
#print axioms script_is_a_trace
#print axioms script_registers_identifiers_once
#print axioms move_conservation
#print axioms trace_conservation
#print axioms step_conservation
#print axioms script_conservation_from
#print axioms stream_yields_exactly_what_was_delivered
#print axioms itemsOf_run
#print axioms who_gets_delivered_what
#print axioms publish_delivers_in_world
#print axioms subscribe_creates_channel_and_queues_registration
#print axioms stream_call_moves_nothing
#print axioms publish_delivered_before_suback_and_before_stream
#print axioms dead_receivers_are_dropped_channels
#print axioms delivery_independent_of_buffers
#print axioms delivered_in_closed_form
#print axioms stream_yields_the_publishes_registered_for_it
#print axioms sender_lost_only_by_end_cause
#print axioms stream_ends_only_after_end_cause
#print axioms other_stream_polled_or_dropped
#print axioms other_operation_polled_or_dropped
#print axioms registration_kept
#print axioms registration_kept_along

end Poster
