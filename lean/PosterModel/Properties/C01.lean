/-
  Properties/C01.lean — every packet written is well-formed and carries the caller's options.

  Only statements: the theorems of property C01 and, for each `*_parses` theorem, a concrete non-trivial
  request satisfying its hypotheses. `Spec.parseClient` (Spec/Client.lean) is the independent MQTT 5 parser;
  `Spec.ofX` and `XInDomain` (Spec/ClientOf.lean) are the expected packet and the domain. Proof machinery is in
  Lemmas/.
-/
import PosterModel.Lemmas.TxPublish

namespace Poster
open Spec

/-! ## PUBLISH -/

/-- A publish request is accepted exactly when it has a topic and, for QoS 1 and 2, a packet identifier;
    anything else is refused before a byte is written. -/
theorem publish_valid_iff (t : PublishTx) :
    t.valid = true ↔ (t.topic.isSome ∧ (t.qos = 0 ∨ t.packetId.isSome)) := by
  simp [PublishTx.valid]

/-- For every accepted in-domain publish request the bytes written are exactly one well-formed PUBLISH packet
    (anything after it is left untouched), and an independent decoder reads back the caller's DUP / QoS / RETAIN,
    topic, packet identifier, properties (as a list, nothing added) and payload. -/
theorem enc_publish_parses (t : PublishTx) (hv : t.valid = true) (hd : PublishInDomain t) (rest : Bytes) :
    Spec.parseClient (t.encode ++ rest) = some (Spec.ofPublish t, rest) := by
  have hb : (publishBody t).length < 268435456 := by rw [← publish_remainingLen_eq]; exact hd.size
  have hh : t.fixedHdr < 256 := by
    have := hd.qos; unfold PublishTx.fixedHdr; cases t.dup <;> cases t.retain <;> simp [b2n] <;> omega
  rw [publish_encode_eq, publish_remainingLen_eq, parseClient_frame _ hh _ _ hb, publish_body_parses t hv hd]
  rfl

/-- The remaining-length field of a written PUBLISH is the number of bytes that follow it, and its
    property-length field is the number of property bytes — for every request, with the exact layout. -/
theorem publish_lengths (t : PublishTx) :
    ∃ body props : Bytes,
      t.encode = UInt8.ofNat t.fixedHdr :: (encVar body.length ++ body) ∧
      body = encStr (t.topic.getD []) ++ oEnc encU16 t.packetId ++ encVar props.length ++ props
              ++ t.payload.getD [] ∧
      props = encProps (Spec.publishProps t) := by
  refine ⟨publishBody t, encProps (publishProps t), ?_, ?_, rfl⟩
  · rw [publish_encode_eq, publish_remainingLen_eq]
  · simp [publishBody, PublishTx.topicBytes, oEnc_id]

/-- `packet_len()` (compared with the server's Maximum Packet Size) is the number of bytes written. -/
theorem publish_packetLen (t : PublishTx) : t.packetLen = t.encode.length := by
  rw [publish_encode_eq]
  simp only [PublishTx.packetLen, List.length_cons, List.length_append, varLen_eq, ← publish_remainingLen_eq]
  omega

/-- non-vacuity: a QoS 1 publication with flags, five kinds of properties and a payload -/
example :
    let t : PublishTx :=
      { retain := true, qos := 1, topic := some [97, 47, 98], packetId := some 7, pfi := some true,
        topicAlias := some 3, mei := some 60, correlationData := some [1, 2], responseTopic := some [114],
        contentType := some [116], userProps := [([107], [118]), ([107], [119])], payload := some [1, 2, 3] }
    t.valid = true ∧ PublishInDomain t := by
  intro t
  refine ⟨by decide, ?_⟩
  constructor <;> simp [t, StrOk, UserOk] <;> decide

/-! ## PINGREQ -/

/-- The ping request is exactly one well-formed PINGREQ packet. -/
theorem enc_pingreq_parses (rest : Bytes) : Spec.parseClient (pingreqBytes ++ rest) = some (.pingreq, rest) := by
  simp [pingreqBytes, parseClient, pVar, pVarAux, parseBody]

#print axioms enc_publish_parses
#print axioms enc_pingreq_parses
end Poster
