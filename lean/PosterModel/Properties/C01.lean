/-
  Properties/C01.lean — every packet written is well-formed and carries the caller's options.

  Only statements: the theorems of property C01 and, for each `*_parses` theorem, a concrete non-trivial
  request satisfying its hypotheses. `Spec.parseClient` (Spec/Client.lean) is the independent MQTT 5 parser;
  `Spec.ofX` and `XInDomain` (Spec/ClientOf.lean) are the expected packet and the domain of values MQTT 5 can
  represent. The proof machinery is in Lemmas/ (CodecPrim, CodecTx, TxConnect, TxPublish, TxSubscribe, TxAck).

  For every packet kind K:
    K_valid_iff      which requests are refused (before anything is written)
    enc_K_parses     the bytes are exactly one well-formed packet; an independent decoder reads back exactly
                     the caller's values, protocol constants and library-assigned identifiers; `rest` is untouched
    K_lengths        remaining-length field = number of bytes after it; property-length field = number of
                     property bytes; the exact layout
    K_packetLen      `packet_len()` = number of bytes written
-/
import PosterModel.Lemmas.TxConnect
import PosterModel.Lemmas.TxPublish
import PosterModel.Lemmas.TxSubscribe
import PosterModel.Lemmas.TxAck

namespace Poster
open Spec

/-! ## CONNECT -/

/-- A connect request is refused exactly when authentication data is given without an authentication method. -/
theorem connect_valid_iff (t : ConnectTx) : t.valid = true ↔ (t.authData.isSome → t.authMethod.isSome) := by
  unfold ConnectTx.valid; cases t.authMethod <;> cases t.authData <;> simp

/-- For every accepted in-domain connect request the bytes written are exactly one well-formed CONNECT packet
    (protocol name "MQTT", version 5, reserved flag clear, will bits consistent), and an independent decoder reads
    back clean start, keep alive, the properties (as a list, nothing added), client identifier, the will (absent, or
    QoS / retain / properties / topic / payload), user name and password. -/
theorem enc_connect_parses (t : ConnectTx) (hv : t.valid = true) (hd : ConnectInDomain t) (rest : Bytes) :
    Spec.parseClient (t.encode ++ rest) = some (Spec.ofConnect t, rest) := by
  have hb : (connectBody t).length < 268435456 := by rw [← connect_remainingLen_eq]; exact hd.size
  rw [connect_encode_eq, connect_remainingLen_eq, parseClient_frame 16 (by decide) _ _ hb]
  exact congrArg (Option.map _) (connect_body_parses t hv hd)

/-- The remaining-length field of a written CONNECT is the number of bytes that follow it; the property-length
    field is the number of property bytes, and likewise the will-property-length field — for every request. -/
theorem connect_lengths (t : ConnectTx) :
    ∃ body props willProps : Bytes,
      t.encode = UInt8.ofNat 16 :: (encVar body.length ++ body) ∧
      body = encStr [77, 81, 84, 84] ++ encU8 5 ++ encU8 t.payloadFlags ++ encU16 t.keepAlive
              ++ encVar props.length ++ props ++ encStr t.clientId
              ++ (if t.willTopic.isSome ∧ t.willPayload.isSome then
                    encVar willProps.length ++ willProps ++ oEnc encStr t.willTopic ++ oEnc encStr t.willPayload
                  else [])
              ++ oEnc encStr t.username ++ oEnc encStr t.password ∧
      props = encProps (Spec.connectProps t) ∧ willProps = encProps (Spec.willProps t) := by
  refine ⟨connectBody t, encProps (connectProps t), encProps (Spec.willProps t), ?_, ?_, rfl, rfl⟩
  · rw [connect_encode_eq, connect_remainingLen_eq]
  · unfold connectBody connectWillBytes ConnectTx.willFlag
    cases t.willTopic <;> cases t.willPayload <;> simp

/-- `packet_len()` (compared with the server's Maximum Packet Size) is the number of bytes written. -/
theorem connect_packetLen (t : ConnectTx) : t.packetLen = t.encode.length := by
  rw [connect_encode_eq]
  simp only [ConnectTx.packetLen, List.length_cons, List.length_append, varLen_eq, ← connect_remainingLen_eq]
  omega

/-- non-vacuity: a CONNECT with a will (QoS 1, retained, with will properties), properties, user properties,
    enhanced authentication and credentials -/
example :
    let t : ConnectTx :=
      { keepAlive := 60, sessionExpiry := some 3600, receiveMaximum := some 20, maxPacketSize := some 65536,
        topicAliasMax := some 0, reqRespInfo := some true, reqProbInfo := some false,
        authMethod := some [83, 67, 82, 65, 77], authData := some [0, 1, 2],
        userProps := [([107], [118]), ([107], [119])], willQos := 1, willRetain := true, cleanStart := true,
        clientId := [99, 108, 105], willDelay := some 5, willPfi := some true, willMei := some 10,
        willContentType := some [116], willResponseTopic := some [114], willCorrelationData := some [1],
        willUserProps := [([97], [98])], willTopic := some [119, 47, 116], willPayload := some [103, 111, 110, 101],
        username := some [117], password := some [112, 119] }
    t.valid = true ∧ ConnectInDomain t := by
  intro t
  refine ⟨by decide, ?_⟩
  constructor <;> simp [t, StrOk, UserOk] <;> decide

/-! ## AUTH -/

/-- An authentication request is accepted exactly in two cases: the empty request (success, no properties — the
    shortened packet), or when both authentication method and authentication data are present. -/
theorem auth_valid_iff (t : AuthTx) :
    t.valid = true ↔
      (((t.reason = none ∨ t.reason = some 0) ∧ t.authMethod = none ∧ t.authData = none ∧ t.reasonString = none
          ∧ t.userProps = [])
        ∨ (t.authMethod.isSome ∧ t.authData.isSome)) := by
  unfold AuthTx.valid AuthTx.shortened AuthTx.reasonVal
  cases t.reason <;> cases t.authMethod <;> cases t.authData <;> cases t.reasonString <;> cases t.userProps <;> simp

/-- For every accepted in-domain authentication request the bytes written are exactly one well-formed AUTH packet
    (shortened to remaining length 0 for "success, no properties"), carrying the caller's reason and properties. -/
theorem enc_auth_parses (t : AuthTx) (hv : t.valid = true) (hd : AuthInDomain t) (rest : Bytes) :
    Spec.parseClient (t.encode ++ rest) = some (Spec.ofAuth t, rest) := by
  have hb : (authBody t).length < 268435456 := by rw [← auth_remainingLen_eq]; exact hd.size
  rw [auth_encode_eq, auth_remainingLen_eq, parseClient_frame 240 (by decide) _ _ hb]
  exact congrArg (Option.map _) (auth_body_parses t hv hd)

/-- Remaining length and property length of a written AUTH are the sizes of what follows them. -/
theorem auth_lengths (t : AuthTx) :
    ∃ body props : Bytes,
      t.encode = UInt8.ofNat 240 :: (encVar body.length ++ body) ∧
      body = (if t.shortened then [] else encU8 (t.reason.getD 0) ++ encVar props.length ++ props) ∧
      props = encProps (Spec.authProps t) := by
  refine ⟨authBody t, encProps (authProps t), ?_, ?_, rfl⟩
  · rw [auth_encode_eq, auth_remainingLen_eq]
  · unfold authBody AuthTx.reasonVal; cases t.shortened <;> simp

theorem auth_packetLen (t : AuthTx) : t.packetLen = t.encode.length := by
  rw [auth_encode_eq]
  simp only [AuthTx.packetLen, List.length_cons, List.length_append, varLen_eq, ← auth_remainingLen_eq]
  omega

/-- non-vacuity: "continue authentication" with method, data, reason string and a user property -/
example :
    let t : AuthTx :=
      { reason := some 0x18, authMethod := some [83, 67, 82, 65, 77], authData := some [1, 2, 3],
        reasonString := some [111, 107], userProps := [([107], [118])] }
    t.valid = true ∧ AuthInDomain t := by
  intro t
  refine ⟨by decide, ?_⟩
  constructor <;> simp [t, StrOk, UserOk, authReasons] <;> decide

/-- non-vacuity: the empty request (shortened form) is in the domain too -/
example : ({} : AuthTx).valid = true ∧ AuthInDomain {} := by
  refine ⟨by decide, ?_⟩
  constructor <;> first | decide | simp [UserOk]

/-! ## PUBLISH -/

/-- A publish request is accepted exactly when it has a topic and, for QoS 1 and 2, a packet identifier;
    anything else is refused before a byte is written. -/
theorem publish_valid_iff (t : PublishTx) :
    t.valid = true ↔ (t.topic.isSome ∧ (t.qos = 0 ∨ t.packetId.isSome)) := by
  simp [PublishTx.valid]

/-- For every accepted in-domain publish request the bytes written are exactly one well-formed PUBLISH packet
    (anything after it is left untouched), and an independent decoder reads back the caller's DUP / QoS / RETAIN,
    topic, packet identifier, properties (as a list, nothing added) and payload. -/
theorem enc_publish_parses (t : PublishTx) (hv : t.valid = true) (hd : PublishInDomain t) (rest : Bytes) :
    Spec.parseClient (t.encode ++ rest) = some (Spec.ofPublish t, rest) := by
  have hb : (publishBody t).length < 268435456 := by rw [← publish_remainingLen_eq]; exact hd.size
  have hh : t.fixedHdr < 256 := by
    have := hd.qos; unfold PublishTx.fixedHdr; cases t.dup <;> cases t.retain <;> simp [b2n] <;> omega
  rw [publish_encode_eq, publish_remainingLen_eq, parseClient_frame _ hh _ _ hb, publish_body_parses t hv hd]
  rfl

/-- The remaining-length field of a written PUBLISH is the number of bytes that follow it, and its
    property-length field is the number of property bytes — for every request, with the exact layout. -/
theorem publish_lengths (t : PublishTx) :
    ∃ body props : Bytes,
      t.encode = UInt8.ofNat t.fixedHdr :: (encVar body.length ++ body) ∧
      body = encStr (t.topic.getD []) ++ oEnc encU16 t.packetId ++ encVar props.length ++ props
              ++ t.payload.getD [] ∧
      props = encProps (Spec.publishProps t) := by
  refine ⟨publishBody t, encProps (publishProps t), ?_, ?_, rfl⟩
  · rw [publish_encode_eq, publish_remainingLen_eq]
  · simp [publishBody, PublishTx.topicBytes, oEnc_id]

theorem publish_packetLen (t : PublishTx) : t.packetLen = t.encode.length := by
  rw [publish_encode_eq]
  simp only [PublishTx.packetLen, List.length_cons, List.length_append, varLen_eq, ← publish_remainingLen_eq]
  omega

/-- non-vacuity: a retained QoS 1 publication with all six kinds of properties, two user properties and a payload -/
example :
    let t : PublishTx :=
      { retain := true, qos := 1, topic := some [97, 47, 98], packetId := some 7, pfi := some true,
        topicAlias := some 3, mei := some 60, correlationData := some [1, 2], responseTopic := some [114],
        contentType := some [116], userProps := [([107], [118]), ([107], [119])], payload := some [1, 2, 3] }
    t.valid = true ∧ PublishInDomain t := by
  intro t
  refine ⟨by decide, ?_⟩
  constructor <;> simp [t, StrOk, UserOk] <;> decide

/-! ## SUBSCRIBE -/

/-- A subscribe request is refused exactly when it has no topic filter. -/
theorem subscribe_valid_iff (t : SubscribeTx) : t.valid = true ↔ t.filters ≠ [] := by
  simp [SubscribeTx.valid]

/-- For every accepted in-domain subscribe request the bytes written are exactly one well-formed SUBSCRIBE packet:
    packet identifier, subscription identifier and user properties, and for each topic filter the maximum QoS,
    No Local, Retain As Published and Retain Handling at their bit positions, reserved bits clear. -/
theorem enc_subscribe_parses (t : SubscribeTx) (hv : t.valid = true) (hd : SubscribeInDomain t) (rest : Bytes) :
    Spec.parseClient (t.encode ++ rest) = some (Spec.ofSubscribe t, rest) := by
  have hb : (subscribeBody t).length < 268435456 := by rw [← subscribe_remainingLen_eq]; exact hd.size
  rw [subscribe_encode_eq, subscribe_remainingLen_eq, parseClient_frame 130 (by decide) _ _ hb]
  exact congrArg (Option.map _) (subscribe_body_parses t hv hd)

/-- Remaining length and property length of a written SUBSCRIBE are the sizes of what follows them. -/
theorem subscribe_lengths (t : SubscribeTx) :
    ∃ body props : Bytes,
      t.encode = UInt8.ofNat 130 :: (encVar body.length ++ body) ∧
      body = encU16 t.packetId ++ encVar props.length ++ props
              ++ (t.filters.map fun fo => encStr fo.1 ++ encU8 fo.2.byte).flatten ∧
      props = encProps (Spec.subscribeProps t) := by
  refine ⟨subscribeBody t, encProps (subscribeProps t), ?_, ?_, rfl⟩
  · rw [subscribe_encode_eq, subscribe_remainingLen_eq]
  · simp only [subscribeBody, List.append_assoc]; rfl

theorem subscribe_packetLen (t : SubscribeTx) : t.packetLen = t.encode.length := by
  rw [subscribe_encode_eq]
  simp only [SubscribeTx.packetLen, List.length_cons, List.length_append, varLen_eq, ← subscribe_remainingLen_eq]
  omega

/-- non-vacuity: two topic filters with different options, a two-byte subscription identifier, a user property -/
example :
    let t : SubscribeTx :=
      { packetId := 9, subId := some 300, userProps := [([107], [118])],
        filters := [([97, 47, 35], { maxQos := 1, noLocal := true, retainAsPublished := false, retainHandling := 2 }),
                    ([98], { maxQos := 2, noLocal := false, retainAsPublished := true, retainHandling := 0 })] }
    t.valid = true ∧ SubscribeInDomain t := by
  intro t
  refine ⟨by decide, ?_⟩
  constructor <;> simp [t, StrOk, UserOk] <;> decide

/-! ## UNSUBSCRIBE -/

/-- An unsubscribe request is refused exactly when it has no topic filter. -/
theorem unsubscribe_valid_iff (t : UnsubscribeTx) : t.valid = true ↔ t.filters ≠ [] := by
  simp [UnsubscribeTx.valid]

/-- For every accepted in-domain unsubscribe request the bytes written are exactly one well-formed UNSUBSCRIBE
    packet with the caller's user properties and topic filters, in order. -/
theorem enc_unsubscribe_parses (t : UnsubscribeTx) (hv : t.valid = true) (hd : UnsubscribeInDomain t)
    (rest : Bytes) : Spec.parseClient (t.encode ++ rest) = some (Spec.ofUnsubscribe t, rest) := by
  have hb : (unsubscribeBody t).length < 268435456 := by rw [← unsubscribe_remainingLen_eq]; exact hd.size
  rw [unsubscribe_encode_eq, unsubscribe_remainingLen_eq, parseClient_frame 162 (by decide) _ _ hb]
  exact congrArg (Option.map _) (unsubscribe_body_parses t hv hd)

/-- Remaining length and property length of a written UNSUBSCRIBE are the sizes of what follows them. -/
theorem unsubscribe_lengths (t : UnsubscribeTx) :
    ∃ body props : Bytes,
      t.encode = UInt8.ofNat 162 :: (encVar body.length ++ body) ∧
      body = encU16 t.packetId ++ encVar props.length ++ props ++ (t.filters.map encStr).flatten ∧
      props = encProps (Spec.userPs t.userProps) := by
  refine ⟨unsubscribeBody t, encProps (userPs t.userProps), ?_, ?_, rfl⟩
  · rw [unsubscribe_encode_eq, unsubscribe_remainingLen_eq]
  · simp only [unsubscribeBody, List.append_assoc]

theorem unsubscribe_packetLen (t : UnsubscribeTx) : t.packetLen = t.encode.length := by
  rw [unsubscribe_encode_eq]
  simp only [UnsubscribeTx.packetLen, List.length_cons, List.length_append, varLen_eq,
    ← unsubscribe_remainingLen_eq]
  omega

/-- non-vacuity: two topic filters and a user property -/
example :
    let t : UnsubscribeTx := { packetId := 65535, userProps := [([107], [118])], filters := [[97, 47, 35], [98]] }
    t.valid = true ∧ UnsubscribeInDomain t := by
  intro t
  refine ⟨by decide, ?_⟩
  constructor <;> simp [t, StrOk, UserOk] <;> decide

/-! ## DISCONNECT -/

/-- For every in-domain disconnect request (none is refused) the bytes written are exactly one well-formed
    DISCONNECT packet with the caller's reason code and properties. -/
theorem enc_disconnect_parses (t : DisconnectTx) (hd : DisconnectInDomain t) (rest : Bytes) :
    Spec.parseClient (t.encode ++ rest) = some (Spec.ofDisconnect t, rest) := by
  have hb : (disconnectBody t).length < 268435456 := by rw [← disconnect_remainingLen_eq]; exact hd.size
  rw [disconnect_encode_eq, disconnect_remainingLen_eq, parseClient_frame 224 (by decide) _ _ hb]
  exact congrArg (Option.map _) (disconnect_body_parses t hd)

/-- Remaining length and property length of a written DISCONNECT are the sizes of what follows them. -/
theorem disconnect_lengths (t : DisconnectTx) :
    ∃ body props : Bytes,
      t.encode = UInt8.ofNat 224 :: (encVar body.length ++ body) ∧
      body = encU8 t.reason ++ encVar props.length ++ props ∧
      props = encProps (Spec.disconnectProps t) := by
  refine ⟨disconnectBody t, encProps (disconnectProps t), ?_, ?_, rfl⟩
  · rw [disconnect_encode_eq, disconnect_remainingLen_eq]
  · simp only [disconnectBody, List.append_assoc]

theorem disconnect_packetLen (t : DisconnectTx) : t.packetLen = t.encode.length := by
  rw [disconnect_encode_eq]
  simp only [DisconnectTx.packetLen, List.length_cons, List.length_append, varLen_eq, ← disconnect_remainingLen_eq]
  omega

/-- non-vacuity: "disconnect with will message", session expiry, reason string and a user property -/
example :
    let t : DisconnectTx :=
      { reason := 4, sessionExpiry := some 0, reasonString := some [98, 121, 101], userProps := [([107], [118])] }
    DisconnectInDomain t := by
  intro t
  constructor <;> simp [t, StrOk, UserOk, disconnectReasons] <;> decide

/-! ## PUBACK, PUBREC, PUBREL, PUBCOMP -/

/-- For every in-domain acknowledgement (none is refused) the bytes written are exactly one well-formed packet of
    the kind named by the record (PUBREL with flag bits 0010), shortened to the bare packet identifier for "success,
    no properties", carrying the packet identifier, reason code and properties. -/
theorem enc_ack_parses (t : AckTx) (hd : AckInDomain t) (rest : Bytes) :
    Spec.parseClient (t.encode ++ rest) = some (Spec.ofAck t, rest) := by
  have hb : (ackBody t).length < 268435456 := by rw [← ack_remainingLen_eq]; exact hd.size
  have hh : t.hdr < 256 := by rcases hd.hdr with h | h | h | h <;> omega
  rw [ack_encode_eq, ack_remainingLen_eq, parseClient_frame _ hh _ _ hb]
  exact congrArg (Option.map _) (ack_body_parses t hd)

/-- Remaining length and property length of a written acknowledgement are the sizes of what follows them; the
    reason code and the properties are omitted exactly for "success, no properties". -/
theorem ack_lengths (t : AckTx) :
    ∃ body props : Bytes,
      t.encode = UInt8.ofNat t.hdr :: (encVar body.length ++ body) ∧
      body = encU16 t.packetId
              ++ (if t.reason = 0 ∧ props.length = 0 then [] else encU8 t.reason ++ encVar props.length ++ props) ∧
      props = encProps (Spec.ackProps t) := by
  refine ⟨ackBody t, encProps (ackProps t), ?_, ?_, rfl⟩
  · rw [ack_encode_eq, ack_remainingLen_eq]
  · unfold ackBody
    rw [ack_short, ack_propertyLen_eq]
    by_cases h1 : t.reason = 0 <;> by_cases h2 : (encProps (ackProps t)).length = 0 <;> simp [h1, h2]

theorem ack_packetLen (t : AckTx) : t.packetLen = t.encode.length := by
  rw [ack_encode_eq]
  simp only [AckTx.packetLen, List.length_cons, List.length_append, varLen_eq, ← ack_remainingLen_eq]
  omega

/-- non-vacuity: a PUBREL refusing an unknown packet identifier, with a reason string and a user property -/
example :
    let t : AckTx :=
      { hdr := 0x62, packetId := 513, reason := 0x92, reasonString := some [110, 111], userProps := [([107], [118])] }
    AckInDomain t := by
  intro t
  constructor <;> simp [t, StrOk, UserOk, ackReasons, pubrelReasons] <;> decide

/-- non-vacuity: the acknowledgements the library writes by itself (success, no properties: the shortened form) -/
example (hdr : Nat) (h : hdr = 0x40 ∨ hdr = 0x50 ∨ hdr = 0x62 ∨ hdr = 0x70) :
    AckInDomain { hdr := hdr, packetId := 1 } := by
  rcases h with rfl | rfl | rfl | rfl <;>
    (constructor <;> first | decide | simp [UserOk])

/-- The acknowledgements the connection context writes by itself (`ackBytes`: success, no properties) are exactly
    one well-formed packet of the right kind carrying the packet identifier being acknowledged. -/
theorem enc_ackBytes_parses (hdr pid : Nat) (hh : hdr = 0x40 ∨ hdr = 0x50 ∨ hdr = 0x62 ∨ hdr = 0x70)
    (hp : 1 ≤ pid ∧ pid ≤ 65535) (rest : Bytes) :
    Spec.parseClient (ackBytes hdr pid ++ rest) = some (Spec.ofAck { hdr := hdr, packetId := pid }, rest) := by
  apply enc_ack_parses
  rcases hh with rfl | rfl | rfl | rfl <;>
    (constructor <;> first | decide | assumption
                           | (simp [UserOk, AckTx.remainingLen, AckTx.propertyLen, userLen] <;> decide))

/-! ## PINGREQ -/

/-- The ping request is exactly one well-formed PINGREQ packet. -/
theorem enc_pingreq_parses (rest : Bytes) : Spec.parseClient (pingreqBytes ++ rest) = some (.pingreq, rest) := by
  simp [pingreqBytes, parseClient, pVar, pVarAux, parseBody]

/-! ## the independent parser is not vacuous: concrete packets, and malformed ones it rejects -/

/-- the four bytes of a shortened PUBACK for packet identifier 7, followed by one more byte -/
example : parseClient [0x40, 2, 0, 7, 0xC0] = some (.puback 7 0 [], [0xC0]) := by decide
/-- packet identifier 0 -/
example : parseClient [0x40, 2, 0, 0] = none := by decide
/-- PUBREL without its reserved flag bits -/
example : parseClient [0x60, 2, 0, 7] = none := by decide
/-- a remaining length that is not minimally encoded -/
example : parseClient [0xC0, 0x80, 0] = none := by decide
/-- PUBLISH with QoS 3 -/
example : parseClient [0x36, 5, 0, 1, 97, 0, 1, 0] = none := by decide
/-- PUBLISH whose property length overruns the packet -/
example : parseClient [0x30, 4, 0, 1, 97, 5] = none := by decide
/-- SUBSCRIBE without a topic filter -/
example : parseClient [0x82, 3, 0, 1, 0] = none := by decide
/-- SUBSCRIBE with a reserved subscription-option bit set -/
example : parseClient [0x82, 7, 0, 1, 0, 0, 1, 97, 0x40] = none := by decide
/-- a property twice (Topic Alias) -/
example : parseClient [0x30, 10, 0, 1, 97, 6, 35, 0, 1, 35, 0, 2] = none := by decide

/-! ## the domain restrictions are needed (requests outside the domain that the model turns into bad packets) -/

/-- a will QoS without a will: the will flag is clear but the will QoS bits are set — a malformed CONNECT -/
example : parseClient ({ willQos := 1 } : ConnectTx).encode = none := by decide
/-- a will topic without a will payload: the will is silently dropped -/
example : parseClient ({ willTopic := some [116] } : ConnectTx).encode
    = some (.connect false 0 [] [] none none none, []) := by decide
/-- a packet identifier on a QoS 0 publication is written, and read by the peer as property length and payload -/
example : parseClient ({ topic := some [97], packetId := some 5 } : PublishTx).encode
    = some (.publish false 0 false [97] none [] [5, 0], []) := by decide

#print axioms connect_valid_iff
#print axioms enc_connect_parses
#print axioms connect_lengths
#print axioms connect_packetLen
#print axioms auth_valid_iff
#print axioms enc_auth_parses
#print axioms auth_lengths
#print axioms auth_packetLen
#print axioms publish_valid_iff
#print axioms enc_publish_parses
#print axioms publish_lengths
#print axioms publish_packetLen
#print axioms subscribe_valid_iff
#print axioms enc_subscribe_parses
#print axioms subscribe_lengths
#print axioms subscribe_packetLen
#print axioms unsubscribe_valid_iff
#print axioms enc_unsubscribe_parses
#print axioms unsubscribe_lengths
#print axioms unsubscribe_packetLen
#print axioms enc_disconnect_parses
#print axioms disconnect_lengths
#print axioms disconnect_packetLen
#print axioms enc_ack_parses
#print axioms ack_lengths
#print axioms ack_packetLen
#print axioms enc_ackBytes_parses
#print axioms enc_pingreq_parses

end Poster
