/-
  Properties/C13.lean — connect() and run() end with the documented outcome, and only then.

  C13: "connect()/authorize() return the server's CONNACK as ConnectRsp when its reason is < 0x80, ConnectError
  with that reason when it is >= 0x80, AuthRsp for an AUTH challenge, and SocketClosed if the transport ends
  first. run() returns Ok(()) once the user's DISCONNECT has been written (writing nothing after it) or a server
  DISCONNECT with reason 0 arrives, Disconnected carrying the server's reason and properties for any other
  server DISCONNECT, SocketClosed on end-of-stream or transport error, HandleClosed once every handle is dropped,
  and an error for undecodable input; it does not return while none of these has happened."

  Model: `Ctx.handlePkt` / `Ctx.handleMsg` (what `run()` does next: `Flow`), `World.flowRet`, `World.runLoop`
  (one poll of the `select!` loop), `World.awaitFirst` / `World.pollConnect` (`connect()` / `authorize()`),
  `World.pollCtx`. An observation `.ret call r` is the call returning `r`.
  Helper lemmas: PosterModel/Lemmas/World.lean, WorldRun.lean.
-/
import PosterModel.Lemmas.WorldRun
import PosterModel.Lemmas.WorldEx

set_option linter.unusedVariables false
set_option linter.unusedSimpArgs false

namespace Poster
open Framing

/-- **What `run()` does after an inbound packet.** It returns `Ok` exactly for a server DISCONNECT with reason
    0; `Disconnected(d)` exactly for a server DISCONNECT `d` with another reason; `SocketClosed` exactly when
    the handler had to write (an acknowledgement) and the transport refused; in every other case it goes on. -/
theorem handlePkt_flow (c : Ctx) (alive : Nat → Bool) (p : RxPacket) (wok : Bool) :
    ((c.handlePkt alive p wok).2.2 = .exitOk ↔ ∃ d, p = .disconnect d ∧ d.reason = 0) ∧
    (∀ d, (c.handlePkt alive p wok).2.2 = .exitDisconnected d ↔ p = .disconnect d ∧ d.reason ≠ 0) ∧
    ((c.handlePkt alive p wok).2.2 = .exitSocket ↔
      wok = false ∧ writesOf (c.handlePkt alive p wok).2.1 ≠ []) ∧
    ((c.handlePkt alive p wok).2.2 = .cont ↔
      (∀ d, p ≠ .disconnect d) ∧ (wok = true ∨ writesOf (c.handlePkt alive p wok).2.1 = [])) := by
  cases p with
  | publish pb =>
    obtain ⟨effs0, h0, h1, h2⟩ := Ctx.handlePkt_publish c alive pb wok
    obtain ⟨hw, _⟩ := Ctx.writesOf_of_dispatchLike alive pb effs0 h0
    rw [h1, h2]
    cases pb.packetId <;> cases wok <;> simp [hw, Ctx.writesOf_append]
  | disconnect d =>
    by_cases hr : d.reason = 0 <;> simp [Ctx.handlePkt, hr, writesOf]
  | puback a => simp [Ctx.handlePkt, Ctx.writesOf_complete]
  | pubrec a => simp [Ctx.handlePkt, Ctx.writesOf_complete]
  | pubcomp a => simp [Ctx.handlePkt, Ctx.writesOf_complete]
  | pubrel a => cases wok <;> simp [Ctx.handlePkt, writesOf]
  | connack k => simp [Ctx.handlePkt, writesOf]
  | auth k => simp [Ctx.handlePkt, writesOf]
  | suback a => simp [Ctx.handlePkt, Ctx.writesOf_complete]
  | unsuback a => simp [Ctx.handlePkt, Ctx.writesOf_complete]
  | pingresp => simp [Ctx.handlePkt, Ctx.writesOf_complete]

/-- **What `run()` does after a message from a handle.** It returns `Ok` exactly when the message is a
    fire-and-forget DISCONNECT (packet type 14) that passes the size check and whose write succeeded — i.e.
    once the user's DISCONNECT has been written; `SocketClosed` exactly when a write was attempted and the
    transport refused it; it never returns `Disconnected`; otherwise it goes on. -/
theorem handleMsg_flow (c : Ctx) (m : Msg) (wok : Bool) :
    ((c.handleMsg m wok).2.2 = .exitOk ↔
      ∃ pkt slot, m = .ff pkt slot ∧ pktType pkt = 14 ∧ c.sizeOk pkt = true ∧ wok = true) ∧
    ((c.handleMsg m wok).2.2 = .exitSocket ↔ wok = false ∧ writesOf (c.handleMsg m wok).2.1 ≠ []) ∧
    (∀ d, (c.handleMsg m wok).2.2 ≠ .exitDisconnected d) ∧
    ((c.handleMsg m wok).2.2 = .cont ↔
      (¬ ∃ pkt slot, m = .ff pkt slot ∧ pktType pkt = 14 ∧ c.sizeOk pkt = true ∧ wok = true) ∧
      (wok = true ∨ writesOf (c.handleMsg m wok).2.1 = [])) := by
  cases m with
  | ff pkt slot =>
    cases hs : c.sizeOk pkt <;> cases wok <;> by_cases h14 : pktType pkt = 14 <;>
      simp [Ctx.handleMsg, hs, h14, writesOf]
  | awaitAck aid pkt slot =>
    cases hs : c.sizeOk pkt <;> cases wok <;> by_cases h3 : pktType pkt = 3 <;>
      by_cases h6 : pktType pkt = 6 <;> by_cases hq : c.quota = 0 <;>
      simp [Ctx.handleMsg, hs, h3, h6, hq, writesOf]
  | subscribe aid sid pkt slot ch =>
    cases hs : c.sizeOk pkt <;> cases wok <;> simp [Ctx.handleMsg, hs, writesOf]

/-- **The value `run()` returns** for each way the loop ends: `Ok(())`, `Err(SocketClosed)`, and
    `Err(Disconnected(d))` carrying the server's DISCONNECT packet — reason and properties — unchanged. -/
theorem flowRet_mapping (d : DisconnectRx) :
    World.flowRet .exitOk = .ok ∧ World.flowRet .exitSocket = .err .socketClosed ∧
    World.flowRet (.exitDisconnected d) = .disconnected d :=
  ⟨rfl, rfl, rfl⟩

/-- one poll of the loop only ever appends observations -/
theorem runLoop_out_prefix (f : Nat) (w : World) : w.out <+: (w.runLoop f).out := by
  obtain ⟨wm, hs, he⟩ := World.runLoop_decomp f w
  obtain ⟨pre, _, hpre⟩ := (World.serve_frame hs).2.2.2.2.2.2.2.2.2.1
  rcases he with he | he
  · rw [he]; exact ⟨pre, hpre.symm⟩
  · rcases World.runEnd_out he with ⟨_, _, _, _, pre2, last, _, ho, _⟩ | ⟨_, ho, _⟩
    · exact ⟨pre ++ pre2 ++ [last], by rw [ho, hpre]; simp⟩
    · exact ⟨pre, by rw [ho, hpre]⟩

/-- **`run()` returns only for a documented cause, exactly once, and otherwise stays pending.**
    One poll of the loop of a running `run()` with any fuel: if the task is gone afterwards, the observations
    appended are `W` lines (packets written) followed by exactly one final observation, which is
    `RET run r` with `r` one of `Ok`, `Disconnected(d)`, `SocketClosed`, `HandleClosed`, a decoding error —
    or a panic of the context task (see C04: impossible from reachable framing states).
    Conversely, if the task is still there it is still `running`, and only `W` lines were appended:
    no `RET`, no panic. -/
theorem runLoop_returns_only_for_a_cause (f : Nat) (w : World) (ht : w.task = .running true) :
    ((w.runLoop f).task = .none →
      ∃ pre last, (w.runLoop f).out = w.out ++ pre ++ [last] ∧
        (∀ o ∈ pre, ∃ bs, o = .wire bs ∨ o = .wraw bs) ∧
        ((∃ r, last = .ret .run r ∧
            (r = .ok ∨ (∃ d, r = .disconnected d) ∨ r = .err .socketClosed ∨ r = .err .handleClosed ∨
              r = .err .codecError)) ∨
          ∃ cls, last = .panic .ctx cls)) ∧
    ((w.runLoop f).task ≠ .none →
      (w.runLoop f).task = .running true ∧
      ∃ pre, (w.runLoop f).out = w.out ++ pre ∧ (∀ o ∈ pre, ∃ bs, o = .wire bs ∨ o = .wraw bs)) := by
  obtain ⟨wm, hs, he⟩ := World.runLoop_decomp f w
  obtain ⟨htm, _, _, _, _, _, _, _, _, ⟨pre, hq, hpre⟩, _⟩ := World.serve_frame hs
  rcases he with he | he
  · rw [he]
    refine ⟨fun hn => ?_, fun _ => ⟨htm.trans ht, pre, hpre, hq⟩⟩
    rw [htm, ht] at hn; cases hn
  · rcases World.runEnd_out he with ⟨hn, _, _, _, pre2, last, hq2, ho, hlast⟩ | ⟨htk, ho, _⟩
    · refine ⟨fun _ => ⟨pre ++ pre2, last, by rw [ho, hpre]; simp, World.quiet_append hq hq2, ?_⟩,
        fun h => absurd hn h⟩
      rcases hlast with ⟨r, rfl, hr⟩ | ⟨rfl, _⟩
      · refine Or.inl ⟨r, rfl, ?_⟩
        rcases hr with h | h | h | ⟨h, _⟩ | h
        · exact Or.inl h
        · exact Or.inr (Or.inl h)
        · exact Or.inr (Or.inr (Or.inl h))
        · exact Or.inr (Or.inr (Or.inr (Or.inl h)))
        · exact Or.inr (Or.inr (Or.inr (Or.inr h)))
      · exact Or.inr ⟨_, rfl⟩
    · refine ⟨fun hn => ?_, fun _ => ⟨htk.trans (htm.trans ht), pre, by rw [ho, hpre], hq⟩⟩
      rw [htk, htm, ht] at hn; cases hn

/-- **`HandleClosed` only when every handle is gone and everything queued has been served.** If a poll of the
    loop ends with `RET run HandleClosed`, then no sender of the message queue existed when the poll started
    (every `ContextHandle`, and every pending handle future with its clone, had been dropped), and the queue
    is empty at the end: every message that was still buffered was handled first. -/
theorem handleClosed_only_when_no_sender (f : Nat) (w : World) (ht : w.task = .running true)
    (hn : (w.runLoop f).task = .none)
    (hl : (w.runLoop f).out.getLast? = some (.ret .run (.err .handleClosed))) :
    w.senders = 0 ∧ (w.runLoop f).queue = [] ∧ (w.runLoop f).senders = 0 := by
  obtain ⟨wm, hs, he⟩ := World.runLoop_decomp f w
  have htm := (World.serve_frame hs).1
  have hsm := World.serve_senders hs
  rcases he with he | he
  · rw [he, htm, ht] at hn; cases hn
  · rcases World.runEnd_out he with ⟨_, hql, hh, hops, pre2, last, _, ho, hlast⟩ | ⟨htk, _⟩
    · rw [ho, List.getLast?_concat] at hl
      simp only [Option.some.injEq] at hl
      subst hl
      rcases hlast with ⟨r, hr, hc⟩ | ⟨hp, _⟩
      · simp only [Obs.ret.injEq, true_and] at hr
        subst hr
        rcases hc with h | ⟨d, h⟩ | h | ⟨_, hq, hs0⟩ | h <;> try (cases h; done)
        refine ⟨hsm ▸ hs0, ?_, ?_⟩
        · rw [hq] at hql; exact List.eq_nil_of_length_eq_zero (by simpa using hql)
        · simpa [World.senders, hh, hops] using hs0
      · cases hp
    · rw [htk, htm, ht] at hn; cases hn

/-- the forward direction, one step: with nothing queued and no sender left the loop returns `HandleClosed`
    at once; with something queued it handles the first message first. -/
theorem handleClosed_when_no_sender (f : Nat) (w : World) (hq : w.queue = []) (hs : w.senders = 0) :
    w.runLoop (f + 1) = w.finish .run (.err .handleClosed) := by
  rw [World.runLoop_succ]; simp [World.runIter, hq, hs]

/-- **Nothing after the return.** Once the context future has completed (`task = none` — in particular after
    the user's DISCONNECT was written and `run()` returned `Ok`), polling it does nothing at all: nothing more
    is written or observed. Messages queued by handles afterwards just stay in the queue: `sendMsg` only
    appends (and fires the queue waker); it writes nothing, observes nothing and does not revive the task. -/
theorem nothing_after_return (w : World) (h : w.task = .none) :
    w.pollCtx = w ∧
    (∀ m w', w.sendMsg m = some w' →
      w'.queue = w.queue ++ [m] ∧ w'.out = w.out ∧ w'.wirePend = w.wirePend ∧ w'.written = w.written ∧
      w'.task = .none ∧ w'.c = w.c) := by
  refine ⟨by simp [World.pollCtx, h], fun m w' hm => ?_⟩
  rw [World.sendMsg_eq] at hm
  split at hm
  · simp only [Option.some.injEq] at hm; subst hm; simp [h]
  · cases hm

/-- **The user's DISCONNECT ends `run()` with `Ok`, and it is the last thing written.** With the DISCONNECT
    message at the head of the queue, within size and accepted by the transport, the poll writes it, completes
    the caller's oneshot, emits `RET run Ok` and the task is gone (so by `nothing_after_return` nothing is
    written after it) — the messages behind it in the queue are not handled. -/
theorem user_disconnect_returns_ok (f : Nat) (w : World) (pkt : Bytes) (slot : Nat) (q : List Msg)
    (hq : w.queue = .ff pkt slot :: q) (h14 : pktType pkt = 14) (hs : w.c.sizeOk pkt = true)
    (hw : w.canWrite pkt.length = true) :
    w.runLoop (f + 1) =
      ((({ w with queue := q }).writeBytes pkt).sendSlot slot .unit).finish .run .ok := by
  rw [World.runLoop_succ]
  have hn : World.writeNeed [Eff.write pkt, Eff.send slot SlotVal.unit] = pkt.length := by
    simp [World.writeNeed]
  have hw' : World.canWrite { w with queue := q } pkt.length = true := hw
  simp [World.runIter, hq, World.runHandler_eq, Ctx.handleMsg, hs, h14, hn, hw', World.flowRet,
    World.applyEffs, World.applyEff]

/-- **The first response decides what `connect()` / `authorize()` return.** With `poll_next` yielding the
    frame `fr`: a CONNACK with reason < 0x80 (from a broker supporting subscription identifiers) ⇒
    `ConnectRsp` = that CONNACK; a CONNACK with reason ≥ 0x80 ⇒ `ConnectError` carrying it; an AUTH ⇒ `AuthRsp`;
    any other packet, or an undecodable frame ⇒ a codec error. In both CONNACK cases the session first takes
    over the CONNACK's limits (`handle_connack`) — before the outcome is decided. If the transport ends first
    (end of stream, read error, malformed length) ⇒ `SocketClosed`. While the response has not arrived nothing
    is returned and the future stays pending (`connecting … true`), having armed the transport waker. -/
theorem first_response_mapping (w : World) (call : Call) (t : ConnectTx) (a : AuthTx) (rx' : Rx)
    (rd' : List ReadEv) :
    (∀ fr k, pollNext w.rx w.reader = (rx', rd', .item fr) → decodeRx fr = .ok (.connack k) →
      k.reason < 128 → k.subIdAvail = true →
      w.awaitFirst call t a =
        ({ w with rx := rx', reader := rd', c := w.c.handleConnack k }).finish call (.connack k)) ∧
    (∀ fr k, pollNext w.rx w.reader = (rx', rd', .item fr) → decodeRx fr = .ok (.connack k) →
      k.reason ≥ 128 →
      w.awaitFirst call t a =
        ({ w with rx := rx', reader := rd', c := w.c.handleConnack k }).finish call (.connectError k)) ∧
    (∀ fr au, pollNext w.rx w.reader = (rx', rd', .item fr) → decodeRx fr = .ok (.auth au) →
      w.awaitFirst call t a = ({ w with rx := rx', reader := rd' }).finish call (.auth au)) ∧
    (∀ fr p, pollNext w.rx w.reader = (rx', rd', .item fr) → decodeRx fr = .ok p →
      (∀ k, p ≠ .connack k) → (∀ au, p ≠ .auth au) →
      w.awaitFirst call t a = ({ w with rx := rx', reader := rd' }).finish call (.err .codecError)) ∧
    (∀ fr, pollNext w.rx w.reader = (rx', rd', .item fr) → decodeRx fr = .err →
      w.awaitFirst call t a = ({ w with rx := rx', reader := rd' }).finish call (.err .codecError)) ∧
    (pollNext w.rx w.reader = (rx', rd', .none) →
      w.awaitFirst call t a = ({ w with rx := rx', reader := rd' }).finish call (.err .socketClosed)) ∧
    (pollNext w.rx w.reader = (rx', rd', .pending) →
      (w.awaitFirst call t a).task = .connecting call t a true ∧ (w.awaitFirst call t a).out = w.out ∧
      (w.awaitFirst call t a).c = w.c ∧
      (((w.awaitFirst call t a).reader = [] ∧ (w.awaitFirst call t a).readerReg = true) ∨
        .ctx ∈ (w.awaitFirst call t a).woken)) := by
  refine ⟨fun fr k hp hd hk hs => ?_, fun fr k hp hd hk => ?_, fun fr au hp hd => ?_,
    fun fr p hp hd h1 h2 => ?_, fun fr hp hd => ?_, fun hp => ?_, fun hp => ?_⟩
  · have : ¬ k.reason ≥ 128 := by omega
    simp [World.awaitFirst, hp, hd, this, hs]
  · simp [World.awaitFirst, hp, hd, hk]
  · simp [World.awaitFirst, hp, hd]
  · cases p with
    | connack k => exact absurd rfl (h1 k)
    | auth au => exact absurd rfl (h2 au)
    | _ => simp [World.awaitFirst, hp, hd]
  · simp [World.awaitFirst, hp, hd]
  · simp [World.awaitFirst, hp]
  · simp only [World.awaitFirst, hp]
    by_cases hrd : rd' = []
    · simp [hrd]
    · simp only [hrd, ↓reduceIte]
      exact ⟨by simp, by simp, by simp, Or.inr (World.mem_wake_self _ _)⟩

/-- **A request that cannot be encoded is refused before anything is written.** First poll of `connect()` /
    `authorize()` with an invalid request: the call returns a codec error at once; the transport (`wirePend`,
    `written`), the framing state and the session are untouched and the only observation is the `RET`. -/
theorem connect_refused_before_writing (w : World) (call : Call) (t : ConnectTx) (a : AuthTx)
    (hv : World.reqValid call t a = false) :
    w.pollConnect call t a false = w.finish call (.err .codecError) ∧
    (w.pollConnect call t a false).out = w.out ++ [.ret call (.err .codecError)] ∧
    (w.pollConnect call t a false).wirePend = w.wirePend ∧
    (w.pollConnect call t a false).written = w.written ∧
    (w.pollConnect call t a false).c = w.c ∧ (w.pollConnect call t a false).task = .none := by
  have e : w.pollConnect call t a false = w.finish call (.err .codecError) := by
    rcases World.pollConnect_prelude w call t a with ⟨_, h⟩ | ⟨h, _⟩
    · exact h
    · rw [hv] at h; cases h
  rw [e]; exact ⟨rfl, rfl, rfl, rfl, rfl, rfl⟩

/-- a valid request is written (only `W` lines are observed, the framing state is untouched) and then the
    first response is awaited as in `first_response_mapping`; if the transport refuses the write the call
    returns `SocketClosed`. -/
theorem connect_writes_then_awaits (w : World) (call : Call) (t : ConnectTx) (a : AuthTx)
    (hv : World.reqValid call t a = true) :
    ∃ w0 : World, w0.rx = w.rx ∧ w0.reader = w.reader ∧
      (∃ pre, w0.out = w.out ++ pre ∧ ∀ o ∈ pre, ∃ bs, o = .wire bs ∨ o = .wraw bs) ∧
      (w.pollConnect call t a false = w0.awaitFirst call t a ∨
       w.pollConnect call t a false = w0.finish call (.err .socketClosed)) := by
  rcases World.pollConnect_prelude w call t a with ⟨h, _⟩ | ⟨_, w0, h1, h2, _, _, _, _, ⟨pre, hq, hp⟩, h⟩
  · rw [hv] at h; cases h
  · exact ⟨w0, h1, h2, ⟨pre, hp, hq⟩, h⟩

/-- what `reqValid` stands for: the CONNECT request's validity for `connect()`, the AUTH request's otherwise -/
theorem reqValid_def (t : ConnectTx) (a : AuthTx) :
    World.reqValid .connect t a = t.valid ∧ World.reqValid .authorize t a = a.valid := ⟨rfl, rfl⟩

/-- **One poll of `run()`, first or later, as the executor sees it.** If the `run()` future is gone after the
    poll, the observations appended are `W` lines followed by exactly one final observation: `RET run r` for a
    documented cause `r`, or a context panic (excluded by C04). If it is still there it is `running`, and
    only `W` lines were appended: `run()` has not returned. -/
theorem run_poll_outcome (w : World) (s : Bool) (ht : w.task = .running s) :
    ((w.pollCtx).task = .none →
      ∃ pre last, (w.pollCtx).out = w.out ++ pre ++ [last] ∧
        (∀ o ∈ pre, ∃ bs, o = .wire bs ∨ o = .wraw bs) ∧
        ((∃ r, last = .ret .run r ∧
            (r = .ok ∨ (∃ d, r = .disconnected d) ∨ r = .err .socketClosed ∨ r = .err .handleClosed ∨
              r = .err .codecError)) ∨
          ∃ cls, last = .panic .ctx cls)) ∧
    ((w.pollCtx).task ≠ .none →
      (w.pollCtx).task = .running true ∧
      ∃ pre, (w.pollCtx).out = w.out ++ pre ∧ (∀ o ∈ pre, ∃ bs, o = .wire bs ∨ o = .wraw bs)) := by
  simp only [World.pollCtx, ht]
  cases s with
  | true =>
    simp only [World.pollRun, ↓reduceIte]
    exact runLoop_returns_only_for_a_cause _ w ht
  | false =>
    obtain ⟨w0, _, _, _, _, _, ht0, ⟨pre0, hq0, hp0⟩, h | h⟩ := World.pollRun_prelude w
    · rw [h]
      obtain ⟨h1, h2⟩ := runLoop_returns_only_for_a_cause w0.loopFuel w0 ht0
      refine ⟨fun hn => ?_, fun hn => ?_⟩
      · obtain ⟨pre, last, ho, hq, hl⟩ := h1 hn
        exact ⟨pre0 ++ pre, last, by rw [ho, hp0]; simp, World.quiet_append hq0 hq, hl⟩
      · obtain ⟨ht1, pre, ho, hq⟩ := h2 hn
        exact ⟨ht1, pre0 ++ pre, by rw [ho, hp0]; simp, World.quiet_append hq0 hq⟩
    · rw [h]
      refine ⟨fun _ => ⟨pre0, _, by simp [hp0], hq0, Or.inl ⟨_, rfl, Or.inr (Or.inr (Or.inl rfl))⟩⟩,
        fun hn => absurd rfl hn⟩

/-- **A server DISCONNECT ends `run()`**: with reason 0 it returns `Ok(())`, with any other reason
    `Err(Disconnected(d))` where `d` is the decoded packet itself — reason, session expiry, reason string,
    server reference and user properties as received. Nothing is written. -/
theorem server_disconnect_returns (f : Nat) (w : World) (rx' : Rx) (rd' : List ReadEv) (fr : Bytes)
    (d : DisconnectRx) (hq : w.queue = []) (hs : w.senders ≠ 0)
    (hp : pollNext w.rx w.reader = (rx', rd', .item fr)) (hd : decodeRx fr = .ok (.disconnect d)) :
    w.runLoop (f + 1) =
      ({ w with rx := rx', reader := rd' }).finish .run (if d.reason = 0 then .ok else .disconnected d) := by
  rw [World.runLoop_succ]
  by_cases hr : d.reason = 0 <;>
    simp [World.runIter, hq, hs, hp, hd, World.runHandler_eq, Ctx.handlePkt, World.applyEffs, hr,
      World.flowRet]

/-- **Undecodable input ends `run()` with an error** (and not with a panic): a frame the decoder rejects makes
    `run()` return a codec error; **end of stream** (or a read error, or a malformed length field) makes it
    return `SocketClosed`. In both cases nothing is written. -/
theorem bad_input_returns_error (f : Nat) (w : World) (rx' : Rx) (rd' : List ReadEv) (hq : w.queue = [])
    (hs : w.senders ≠ 0) :
    (∀ fr, pollNext w.rx w.reader = (rx', rd', .item fr) → decodeRx fr = .err →
      w.runLoop (f + 1) = ({ w with rx := rx', reader := rd' }).finish .run (.err .codecError)) ∧
    (pollNext w.rx w.reader = (rx', rd', .none) →
      w.runLoop (f + 1) = ({ w with rx := rx', reader := rd' }).finish .run (.err .socketClosed)) := by
  refine ⟨fun fr hp hd => ?_, fun hp => ?_⟩
  · rw [World.runLoop_succ]; simp [World.runIter, hq, hs, hp, hd]
  · rw [World.runLoop_succ]; simp [World.runIter, hq, hs, hp]

/-! ## Non-vacuity: the hypotheses are satisfiable and the conclusions are not trivial (worlds of Lemmas/WorldEx.lean) -/
section NonVacuity
open Ex

/-- a CONNACK with reason 0 makes `connect()` return it -/
example : ((wConn connackOk).awaitFirst .connect {} {}).out = [.ret .connect (.connack kOk)] := by
  rw [(first_response_mapping (wConn connackOk) .connect {} {} {} []).1 connackOk kOk
    pn_connackOk dec_connackOk (by decide) (by decide)]
  rfl
/-- a CONNACK with reason 0x87 makes `connect()` return `ConnectError` carrying it -/
example : ((wConn connackRefused).awaitFirst .connect {} {}).out = [.ret .connect (.connectError kRefused)] := by
  rw [(first_response_mapping (wConn connackRefused) .connect {} {} {} []).2.1 connackRefused kRefused
    pn_connackRefused dec_connackRefused (by decide)]
  rfl
/-- half a CONNACK: `connect()` stays pending -/
example : ((wConn [0x20]).awaitFirst .connect {} {}).task = .connecting .connect {} {} true :=
  ((first_response_mapping (wConn [0x20]) .connect {} {} _ []).2.2.2.2.2.2 pn_pending).1
/-- server DISCONNECT 0x8B: `run()` returns `Disconnected` with that reason -/
example : ((wServe [.data disconnect8B]).runLoop 3).out = [.ret .run (.disconnected { reason := 0x8B })] := by
  rw [server_disconnect_returns 2 (wServe [.data disconnect8B]) {} [] disconnect8B { reason := 0x8B } rfl
    (by decide) pn_disconnect8B dec_disconnect8B]
  rfl
/-- server DISCONNECT 0: `run()` returns `Ok` -/
example : ((wServe [.data disconnect0]).runLoop 3).out = [.ret .run .ok] := by
  rw [server_disconnect_returns 2 (wServe [.data disconnect0]) {} [] disconnect0 {} rfl
    (by decide) pn_disconnect0 dec_disconnect0]
  rfl
/-- an undecodable frame: `run()` returns a codec error -/
example : ((wServe [.data badPuback]).runLoop 3).out = [.ret .run (.err .codecError)] := by
  rw [(bad_input_returns_error 2 (wServe [.data badPuback]) {} [] rfl (by decide)).1 badPuback pn_badPuback
    dec_badPuback]
  rfl
/-- end of stream: `run()` returns `SocketClosed` -/
example : ((wServe [.eof]).runLoop 3).out = [.ret .run (.err .socketClosed)] := by
  rw [(bad_input_returns_error 2 (wServe [.eof]) {} [.eof] rfl (by decide)).2 pn_eof]
  rfl
/-- no handle left: `run()` returns `HandleClosed` (the hypotheses of `handleClosed_only_when_no_sender` hold) -/
example : (({ wServe [] with handles := [] } : World).runLoop 3).out = [.ret .run (.err .handleClosed)] := by
  rw [handleClosed_when_no_sender 2 _ rfl (by decide)]; rfl
/-- the user's DISCONNECT: written, its caller completed and woken, `Ok` returned, the PINGREQ queued behind it
    is not handled -/
example : (wBye.runLoop 3).out = [.wire [0xE0, 0], .ret .run .ok] ∧ (wBye.runLoop 3).slot 4 = some (.full .unit) ∧
    (wBye.runLoop 3).queue = [.awaitAck (actionId 13 0) pingreqBytes 6] ∧ Task.op 2 ∈ (wBye.runLoop 3).woken := by
  rw [user_disconnect_returns_ok 2 wBye [0xE0, 0] 4 _ rfl (by decide) (by decide) (by decide)]
  decide
/-- none of the causes: `run()` stays pending and returns nothing -/
example : ((wServe []).pollCtx).task = .running true ∧ ((wServe []).pollCtx).out = [] := by
  have h : pollNext {} [] = ({}, [], .pending) := World.pollNext_idle_nil {} rfl
  have : (wServe []).pollCtx = { wServe [] with readerReg := true, queueReg := true } := by
    simp only [World.pollCtx, wServe, World.pollRun, ↓reduceIte]
    rw [show World.loopFuel _ = 3 + 1 from rfl, World.runLoop_succ]
    simp [World.runIter, World.senders, h]
  rw [this]; exact ⟨rfl, rfl⟩
/-- an invalid AUTH request is refused before anything is written -/
example : World.reqValid .authorize {} { reason := some 24 } = false := by decide

end NonVacuity

#print axioms handlePkt_flow
#print axioms handleMsg_flow
#print axioms flowRet_mapping
#print axioms runLoop_out_prefix
#print axioms runLoop_returns_only_for_a_cause
#print axioms handleClosed_only_when_no_sender
#print axioms handleClosed_when_no_sender
#print axioms nothing_after_return
#print axioms user_disconnect_returns_ok
#print axioms first_response_mapping
#print axioms connect_refused_before_writing
#print axioms connect_writes_then_awaits
#print axioms reqValid_def
#print axioms run_poll_outcome
#print axioms server_disconnect_returns
#print axioms bad_input_returns_error

end Poster
