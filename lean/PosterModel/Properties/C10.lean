/-
  Properties/C10.lean — Receive Maximum is never exceeded; the send quota neither leaks nor overflows.

  Model: `Ctx.handleMsg` / `Ctx.handlePkt` / `Ctx.handleConnack` (src/client/context.rs), histories `Ctx.serve`.
  Specification: the monitor `QMon` of PosterModel/CtxRun.lean, which reads ONLY the history (what was asked, what was
  written, which errors were returned, which acknowledgements were handled) and keeps the list `out` of QoS>0 PUBLISH
  packets written and not yet completed by PUBACK, PUBCOMP or a PUBREC with reason ≥ 0x80. It rejects a history
    * when a QoS>0 PUBLISH is written while `R` are outstanding,
    * when `QuotaExceeded` is returned while fewer than `R` are outstanding,
    * when `QuotaExceeded` is returned to anything that is not a QoS>0 PUBLISH,
  and stops judging after an acknowledgement that completes nothing outstanding (a non-conformant broker).
  `P_C10 R t` = the monitor started with nothing outstanding accepts the history `t`.

  Proof: simulation. `QRel c m` (Lemmas/CtxQuota.lean): `c.quota + m.out.length = c.recvMax ∧ m.R = c.recvMax`.
-/
import PosterModel.Lemmas.CtxQuota

set_option linter.unusedVariables false
set_option linter.unusedSimpArgs false

namespace Poster

/-- **One step of the simulation.** Whenever the context's free slots and the monitor's outstanding publishes add up to
    Receive Maximum, the monitor accepts whatever the context does with the next input — any request, any packet, write
    succeeding or failing — and either they add up again afterwards, or the input was an acknowledgement for something
    that is not outstanding (`b = false`: the broker left the protocol, the property says nothing any more). -/
theorem step_sim (c : Ctx) (m : QMon) (i : CIn) (h : QRel c m) :
    ∃ m' b, m.next (c.stepIn i).2 = some (m', b) ∧ (b = true → QRel (c.stepIn i).1 m') := by
  obtain ⟨h1, h2⟩ := h
  cases i with
  | msg msg wok =>
    cases msg with
    | ff pkt slot =>
      refine ⟨m, true, ?_, fun _ => ?_⟩
      · simp only [Ctx.stepIn, Ctx.handleMsg]; (repeat' split) <;> simp [QMon.next, Msg.slot]
      · simp only [Ctx.stepIn, Ctx.handleMsg]; (repeat' split) <;> exact ⟨h1, h2⟩
    | subscribe aid sid pkt slot chan =>
      refine ⟨m, true, ?_, fun _ => ?_⟩
      · simp only [Ctx.stepIn, Ctx.handleMsg]; (repeat' split) <;> simp [QMon.next, Msg.slot]
      · simp only [Ctx.stepIn, Ctx.handleMsg]; (repeat' split) <;> exact ⟨h1, h2⟩
    | awaitAck aid pkt slot =>
      by_cases hsz : c.sizeOk pkt = true
      · by_cases h3 : pktType pkt = 3
        · by_cases hq : c.quota = 0
          · -- refused for the quota: exactly R outstanding
            have hfull : m.out.length = m.R := by omega
            exact ⟨m, true, by simp [Ctx.stepIn, Ctx.handleMsg, QMon.next, hsz, h3, hq, hfull],
              fun _ => by simpa [Ctx.stepIn, Ctx.handleMsg, hsz, h3, hq] using ⟨h1, h2⟩⟩
          · -- a slot is taken and the packet is written (the write may fail: `run()` ends, the slot stays taken)
            have hroom : m.out.length < m.R := by omega
            refine ⟨{ m with out := m.out ++ [(aidPid aid, if aidKind aid = 4 then 1 else 2)] }, true, ?_, fun _ => ?_⟩
            · cases wok <;> simp [Ctx.stepIn, Ctx.handleMsg, QMon.next, hsz, h3, hq, hroom]
            · cases wok <;> simp [Ctx.stepIn, Ctx.handleMsg, hsz, h3, hq, QRel] <;> omega
        · refine ⟨m, true, ?_, fun _ => ?_⟩
          · by_cases h6 : pktType pkt = 6 <;> cases wok <;>
              simp [Ctx.stepIn, Ctx.handleMsg, QMon.next, hsz, h3, h6]
          · by_cases h6 : pktType pkt = 6 <;> cases wok <;>
              simpa [Ctx.stepIn, Ctx.handleMsg, hsz, h3, h6] using ⟨h1, h2⟩
      · -- refused for its size: nothing written, no slot taken
        have hsz' : c.sizeOk pkt = false := by simpa using hsz
        refine ⟨m, true, ?_, fun _ => ?_⟩
        · by_cases h3 : pktType pkt = 3 <;> simp [Ctx.stepIn, Ctx.handleMsg, QMon.next, hsz', h3]
        · simpa [Ctx.stepIn, Ctx.handleMsg, hsz'] using ⟨h1, h2⟩
  | pkt p dead wok =>
    have hrm := Ctx.handlePkt_recvMax c (fun ch => ch ∉ dead) p wok
    have hqu := Ctx.handlePkt_quota c (fun ch => ch ∉ dead) p wok
    cases p with
    | puback a =>
      by_cases hp : (a.packetId, 1) ∈ m.out
      · exact ⟨{ m with out := m.out.erase (a.packetId, 1) }, true, by simp [Ctx.stepIn, QMon.next, hp],
          fun _ => bump_rel_erase c m _ ⟨h1, h2⟩ hp _ hqu hrm⟩
      · exact ⟨m, false, by simp [Ctx.stepIn, QMon.next, hp], fun hb => by simp at hb⟩
    | pubcomp a =>
      by_cases hp : (a.packetId, 2) ∈ m.out
      · exact ⟨{ m with out := m.out.erase (a.packetId, 2) }, true, by simp [Ctx.stepIn, QMon.next, hp],
          fun _ => bump_rel_erase c m _ ⟨h1, h2⟩ hp _ hqu hrm⟩
      · exact ⟨m, false, by simp [Ctx.stepIn, QMon.next, hp], fun hb => by simp at hb⟩
    | pubrec a =>
      by_cases hr : a.reason ≥ 128
      · simp only [hr, if_true] at hqu
        by_cases hp : (a.packetId, 2) ∈ m.out
        · exact ⟨{ m with out := m.out.erase (a.packetId, 2) }, true, by simp [Ctx.stepIn, QMon.next, hp, hr],
            fun _ => bump_rel_erase c m _ ⟨h1, h2⟩ hp _ hqu hrm⟩
        · exact ⟨m, false, by simp [Ctx.stepIn, QMon.next, hp, hr], fun hb => by simp at hb⟩
      · simp only [hr, if_false] at hqu
        exact ⟨m, true, by simp [Ctx.stepIn, QMon.next, hr], fun _ => by
          simp only [Ctx.stepIn]; exact ⟨by rw [hqu, hrm]; exact h1, by rw [hrm]; exact h2⟩⟩
    | _ =>
      exact ⟨m, true, by simp [Ctx.stepIn, QMon.next], fun _ => by
        simp only [Ctx.stepIn]; exact ⟨by rw [hqu, hrm]; exact h1, by rw [hrm]; exact h2⟩⟩

/-- **Every history, from any related pair.** -/
theorem serve_sim (c : Ctx) (m : QMon) (is : List CIn) (h : QRel c m) : m.scan (c.serve is).2 = true := by
  induction is generalizing c m with
  | nil => simp [Ctx.serve_nil, QMon.scan]
  | cons i is ih =>
    obtain ⟨m', b, hn, hrel⟩ := step_sim c m i h
    rw [Ctx.serve_cons]
    split
    · simp only [QMon.scan, hn]
      cases b with
      | true => exact ih _ _ (hrel rfl)
      | false => rfl
    · simp only [QMon.scan, hn]
      cases b <;> rfl

/-- **C10.** For EVERY Receive Maximum `R`, every context whose quota is `R`, and EVERY sequence of requests and inbound
    packets (conformant broker or not, writes succeeding or failing): a QoS>0 PUBLISH is never written while `R` are
    outstanding, `QuotaExceeded` is returned only to a QoS>0 PUBLISH and only when exactly `R` are outstanding (so every
    completion — PUBACK, PUBCOMP, failing PUBREC — frees exactly one slot: after it a publish is accepted again, and after
    all of them `R` publishes are), and nothing else is ever limited. -/
theorem quota_invariant (R : Nat) (c : Ctx) (hq : c.quota = R) (hr : c.recvMax = R) (is : List CIn) :
    P_C10 R (c.serve is).2 = true :=
  serve_sim c { R := R } is ⟨by simp [hq, hr], by simp [hr]⟩

/-- **Where `R` comes from.** After CONNACK the quota and the limit are both the announced Receive Maximum, which the
    decoder defaults to 65535 when the property is absent; so `quota_invariant` applies to every connection. -/
theorem quota_after_connack (c : Ctx) (k : ConnackRx) :
    (c.handleConnack k).quota = k.receiveMax ∧ (c.handleConnack k).recvMax = k.receiveMax ∧
    (∀ sp r, ({ sessionPresent := sp, reason := r } : ConnackRx).receiveMax = 65535) := by
  refine ⟨?_, ?_, fun _ _ => rfl⟩ <;> simp [Ctx.handleConnack]

/-- C10 for a connection: CONNACK, then any traffic -/
theorem quota_invariant_connection (c : Ctx) (k : ConnackRx) (is : List CIn) :
    P_C10 k.receiveMax ((c.handleConnack k).serve is).2 = true :=
  quota_invariant _ _ (quota_after_connack c k).1 (quota_after_connack c k).2.1 is

/-- **The quota never overflows**: it stays at most Receive Maximum through every step (the guard
    `send_quota != remote_receive_maximum` of the increment) — even when the broker acknowledges things twice. -/
theorem quota_bounded (c : Ctx) (i : CIn) (h : c.quota ≤ c.recvMax) :
    (c.stepIn i).1.quota ≤ (c.stepIn i).1.recvMax := by
  cases i with
  | msg m wok =>
    simp only [Ctx.stepIn]
    cases m <;> simp only [Ctx.handleMsg] <;> (repeat' split) <;> simp <;> omega
  | pkt p dead wok =>
    simp only [Ctx.stepIn]
    rw [Ctx.handlePkt_recvMax, Ctx.handlePkt_quota]
    have hb := Ctx.bump_quota_le c h
    rw [Ctx.bump_recvMax] at hb
    cases p <;> simp only <;> first | exact h | exact hb | (split <;> first | exact h | exact hb)

/-- the same over a whole history -/
theorem quota_bounded_serve (c : Ctx) (is : List CIn) (h : c.quota ≤ c.recvMax) :
    (c.serve is).1.quota ≤ (c.serve is).1.recvMax :=
  Ctx.serve_inv (fun c => c.quota ≤ c.recvMax) quota_bounded c is h

/-- **QoS 0 publishes and every other operation are never limited**: a fire-and-forget request (QoS 0 PUBLISH, PINGREQ,
    DISCONNECT, AUTH), a request awaiting an acknowledgement that is not a PUBLISH (PUBREL, UNSUBSCRIBE) and a SUBSCRIBE
    never get `QuotaExceeded`, in any state — in particular with the quota at 0 —, and they never take a slot. -/
theorem qos0_and_others_never_limited (c : Ctx) (m : Msg) (wok : Bool)
    (h : (∃ pkt slot, m = .ff pkt slot) ∨ (∃ aid pkt slot, m = .awaitAck aid pkt slot ∧ pktType pkt ≠ 3) ∨
         (∃ aid sid pkt slot chan, m = .subscribe aid sid pkt slot chan)) :
    (∀ s, (s, SlotVal.errQuota) ∉ sendsOf (c.handleMsg m wok).2.1) ∧ (c.handleMsg m wok).1.quota = c.quota := by
  rcases h with ⟨pkt, slot, rfl⟩ | ⟨aid, pkt, slot, rfl, h3⟩ | ⟨aid, sid, pkt, slot, chan, rfl⟩
  · simp only [Ctx.handleMsg]; (repeat' split) <;> simp
  · simp only [Ctx.handleMsg, h3, if_false]; (repeat' split) <;> simp
  · simp only [Ctx.handleMsg]; (repeat' split) <;> simp

/-- **A QoS>0 PUBLISH that fits is accepted exactly when a slot is free** (and then takes exactly one) -/
theorem publish_accepted_iff (c : Ctx) (aid : Nat) (pkt : Bytes) (slot : Nat) (wok : Bool)
    (hs : c.sizeOk pkt = true) (h3 : pktType pkt = 3) :
    (c.quota = 0 → (c.handleMsg (.awaitAck aid pkt slot) wok) = (c, [.send slot .errQuota], .cont)) ∧
    (c.quota ≠ 0 → writesOf (c.handleMsg (.awaitAck aid pkt slot) wok).2.1 = [pkt] ∧
      (c.handleMsg (.awaitAck aid pkt slot) wok).1.quota = c.quota - 1) := by
  constructor
  · intro hq; simp [Ctx.handleMsg, hs, h3, hq]
  · intro hq; cases wok <;> simp [Ctx.handleMsg, hs, h3, hq]

/-- R = 1: the first QoS 2 PUBLISH (identifier 10) is written, the second request is refused with `QuotaExceeded` and
    nothing is written, a PUBREC with reason 0x80 for identifier 10 frees the slot, the next PUBLISH is written again;
    the monitor accepts the history, the quota ends at 0. -/
example :
    let c : Ctx := ({} : Ctx).handleConnack { sessionPresent := false, reason := 0, receiveMax := 1 }
    let r := c.serve
      [.msg (.awaitAck (actionId 5 10) [0x34, 2, 0, 10] 1) true,
       .msg (.awaitAck (actionId 5 11) [0x34, 2, 0, 11] 2) true,
       .pkt (.pubrec { packetId := 10, reason := 0x80 }) [] true,
       .msg (.awaitAck (actionId 5 11) [0x34, 2, 0, 11] 3) true]
    r.2.map (fun o => (writesOf o.effs, (sendsOf o.effs).map (·.1))) =
      [([[0x34, 2, 0, 10]], []), ([], [2]), ([], [1]), ([[0x34, 2, 0, 11]], [])] ∧
    (2, SlotVal.errQuota) ∈ sendsOf (r.2.getD 1 (.pkt .pingresp [] .cont)).effs ∧
    P_C10 1 r.2 = true ∧ r.1.quota = 0 := by decide

/-- the monitor is not trivially true: writing a second PUBLISH with one slot is rejected, and so is a refusal with a free slot -/
example : P_C10 1 [.msg (.awaitAck (actionId 4 1) [0x32] 1) [.write [0x32]] .cont,
                   .msg (.awaitAck (actionId 4 2) [0x32] 2) [.write [0x32]] .cont] = false := by decide
example : P_C10 1 [.msg (.awaitAck (actionId 4 1) [0x32] 1) [.send 1 .errQuota] .cont] = false := by decide

#print axioms step_sim
#print axioms serve_sim
#print axioms quota_invariant
#print axioms quota_after_connack
#print axioms quota_invariant_connection
#print axioms quota_bounded
#print axioms quota_bounded_serve
#print axioms qos0_and_others_never_limited
#print axioms publish_accepted_iff

end Poster
