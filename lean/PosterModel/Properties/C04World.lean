/-
  Properties/C04World.lean — C04 at the level of whole executions: which panics a script can make the client log.

  C04: "For every byte sequence and every sequence of well- or ill-formed, expected or unexpected packets the
  transport delivers during connect, authorize or run, and for every transport fault, the client never panics
  and never stalls with unread input … The only exemption is the documented assertion on brokers that announce
  no subscription-identifier support."

  Properties/C04.lean enumerates the panics of ONE poll (`world_panics_enumerated`) and excludes the decoder
  panic along every script (`run_never_panics_other`); Properties/C05World.lean excludes the `unreachable!()` of
  the handle futures for scripts with pairwise distinct operation ids. This file composes them:
  * `only_documented_panic` — the headline: the only `PANIC` line a transcript can contain is the documented
    assertion `PANIC ctx assert-subid`;
  * `panics_enumerated_every_script` — the same without the distinct-ids hypothesis (then the model's
    `unreachable` artefact of id reuse is the only other possibility);
  * `assert_subid_only_from_connack`, `assert_subid_logged_on_connack`, `assert_subid_logged_on_first_poll` —
    exactly when the assertion is logged;
  * `assert_subid_needs_connect`, `no_panic_without_connect` — a script that never calls `connect()` /
    `authorize()` logs no panic at all.
  * section 2 — the executor ALWAYS reaches quiescence: every poll strictly decreases a potential
    (`every_poll_decreases_the_potential`) that the fuel `drainFuel` dominates (`potential_below_drain_fuel`), so
    both drains of every step of every script end with nothing left to poll
    (`both_drains_of_every_step_reach_quiescence`, `executor_idle_after_every_step`,
    `drain_fuel_always_suffices`); no hypothesis on the script.
  * section 3 — the client never stalls with unread input: whenever the context future is alive and not flagged,
    everything the transport offered has been read and the transport waker is registered
    (`context_asleep_only_with_everything_read`); so the executor's stall check can only fire for a context future
    the script itself holds back (`stall_only_when_context_held`), and a script that never holds the context task
    never logs a stall (`never_stalls`); no hypothesis on operation ids.
  Helper lemmas: PosterModel/Lemmas/WorldFuelPanic.lean (panics), WorldFuelStall (stall), WorldFuelPot / WorldFuelCtx / WorldFuelRun /
  WorldFuelUser / WorldFuelOp / WorldFuel / WorldFuelScript (potential), WorldFuelReg (registration invariant),
  WorldFuelCodec (a PUBLISH frame has two bytes per subscription identifier).
-/
import PosterModel.Lemmas.WorldFuelPanic
import PosterModel.Lemmas.WorldFuelScript
import PosterModel.Lemmas.WorldFuelStall
import PosterModel.Lemmas.ScriptIds
import PosterModel.Properties.C04
import PosterModel.Properties.C05World

set_option linter.unusedVariables false
set_option linter.unusedSimpArgs false

namespace Poster
open Framing

/-- **Every panic line of every transcript is one of the three the model can log at all.** Whatever the
    configuration and the script, an observation of the transcript that is a `PANIC` is `PANIC ctx assert-subid`,
    `PANIC ctx other` or `PANIC op<id> unreachable`. (The next theorems remove the last two.) -/
theorem every_panic_is_a_known_one (cfg : Cfg) (evs : List Ev) : ∀ o ∈ World.run cfg evs, World.PanicDoc o :=
  World.run_panics_doc cfg evs

/-- **Headline: the only panic a client can log is the documented assertion.** For every configuration
    (executor mode, read chunking, write limit) and every script whose operations carry pairwise distinct ids —
    any bytes fed in any chunks, end of stream, read errors, any operations, polls, drops in any order — every
    `PANIC` line of the transcript is `PANIC ctx assert-subid`: the assertion `connect()` / `authorize()` make when
    the broker's CONNACK announces no subscription-identifier support. No decoder panic, no `unreachable!()`, no
    other panic exists. -/
theorem only_documented_panic (cfg : Cfg) (evs : List Ev) (hn : (World.opIds evs).Nodup) :
    ∀ o ∈ World.run cfg evs, (∃ t cls, o = .panic t cls) → o = .panic .ctx "assert-subid" := by
  rintro o ho ⟨t, cls, rfl⟩
  rcases World.run_panics_doc cfg evs _ ho t cls rfl with ⟨rfl, rfl | rfl⟩ | ⟨id, rfl, rfl⟩
  · rfl
  · exact absurd ho (run_never_panics_other cfg evs)
  · exact absurd ho (no_unreachable_panic_of_distinct_ids cfg evs hn id)

/-- **The panics of every script whatsoever.** Without any hypothesis on the script: a `PANIC` line of the
    transcript is the documented assertion, or `PANIC op<id> unreachable` — which by
    `no_unreachable_panic_of_distinct_ids` needs a script that issues an operation id twice (an artefact of the
    model naming oneshots after script ids, see `reused_id_reaches_unreachable`). In particular the decoder panic
    `PANIC ctx other` never occurs. -/
theorem panics_enumerated_every_script (cfg : Cfg) (evs : List Ev) :
    ∀ o ∈ World.run cfg evs, (∃ t cls, o = .panic t cls) →
      o = .panic .ctx "assert-subid" ∨ ∃ id, o = .panic (.op id) "unreachable" := by
  rintro o ho ⟨t, cls, rfl⟩
  rcases World.run_panics_doc cfg evs _ ho t cls rfl with ⟨rfl, rfl | rfl⟩ | ⟨id, rfl, rfl⟩
  · exact Or.inl rfl
  · exact absurd ho (run_never_panics_other cfg evs)
  · exact Or.inr ⟨id, rfl⟩

/-- **One poll: where the documented assertion comes from.** The assertion is logged only by a poll of the
    context task while it is the `connect()` / `authorize()` future and the first response decodes to a CONNACK
    with reason < 0x80 and "subscription identifiers available" = false. -/
theorem assert_subid_only_from_connack (w : World) (t : Task) :
    ∃ added, (w.pollTask t).out = w.out ++ added ∧
      (Obs.panic .ctx "assert-subid" ∈ added →
        t = .ctx ∧ ∃ call tx a st rx' rd' fr k, w.task = .connecting call tx a st ∧
          Framing.pollNext w.rx w.reader = (rx', rd', .item fr) ∧ decodeRx fr = .ok (.connack k) ∧
          k.reason < 128 ∧ k.subIdAvail = false) := by
  obtain ⟨added, e, h⟩ := world_panics_enumerated w t
  refine ⟨added, e, fun hmem => ?_⟩
  rcases h _ _ hmem with ⟨h1, _, _, hx⟩ | ⟨_, _, h3, _⟩ | ⟨_, _, _, _, _, h2, _⟩
  · exact ⟨h1, hx⟩
  · simp at h3
  · cases h2

/-- **…and it does come.** If the context task is a `connect()` / `authorize()` future that has already sent its
    request, and the next packet the transport delivers is a CONNACK with reason < 0x80 announcing no
    subscription-identifier support, then polling the context logs exactly `PANIC ctx assert-subid`. -/
theorem assert_subid_logged_on_connack (w : World) (call : Call) (tx : ConnectTx) (a : AuthTx) (rx' : Rx)
    (rd' : List ReadEv) (fr : Bytes) (k : ConnackRx) (ht : w.task = .connecting call tx a true)
    (hp : Framing.pollNext w.rx w.reader = (rx', rd', .item fr)) (hd : decodeRx fr = .ok (.connack k))
    (hk : k.reason < 128) (hs : k.subIdAvail = false) :
    (w.pollTask .ctx).out = w.out ++ [.panic .ctx "assert-subid"] := by
  have hu : (w.unwake .ctx).task = .connecting call tx a true := by simpa using ht
  have e1 : w.pollTask .ctx = (w.unwake .ctx).awaitFirst call tx a := by
    show (w.unwake .ctx).pollCtx = _
    unfold World.pollCtx
    rw [hu]
    simp only [World.pollConnect, ↓reduceIte]
  rw [e1]
  have := (awaitFirst_panics (w.unwake .ctx) call tx a).1.mpr ⟨rx', rd', fr, k, by simpa using hp, hd, hk, hs⟩
  simpa using this

/-- **…also on the very first poll.** If the future has not been polled yet, its request can be encoded, the
    transport has no write limit, and that CONNACK is already readable, the first poll writes the request (some
    `W` lines `pre`) and then logs the assertion. -/
theorem assert_subid_logged_on_first_poll (w : World) (call : Call) (tx : ConnectTx) (a : AuthTx) (rx' : Rx)
    (rd' : List ReadEv) (fr : Bytes) (k : ConnackRx) (ht : w.task = .connecting call tx a false)
    (hv : World.reqValid call tx a = true) (hw : w.cfg.wlimit = none)
    (hp : Framing.pollNext w.rx w.reader = (rx', rd', .item fr)) (hd : decodeRx fr = .ok (.connack k))
    (hk : k.reason < 128) (hs : k.subIdAvail = false) :
    ∃ pre, (w.pollTask .ctx).out = w.out ++ pre ++ [.panic .ctx "assert-subid"] := by
  have hu : (w.unwake .ctx).task = .connecting call tx a false := by simpa using ht
  have e1 : w.pollTask .ctx = (w.unwake .ctx).pollConnect call tx a false := by
    show (w.unwake .ctx).pollCtx = _
    unfold World.pollCtx
    rw [hu]
  rw [e1]
  obtain ⟨pre, e⟩ := World.w5_pollConnect_first_assert (w.unwake .ctx) call tx a rx' rd' fr k hv (by simpa using hw)
    (by simpa using hp) hd hk hs
  exact ⟨pre, by simpa using e⟩

/-- **No `connect()` / `authorize()`, no assertion.** If the transcript of a script contains the documented
    assertion, the script contains a `connect` or an `authorize` event: a client that only ever calls `run()` (and
    any handle methods) cannot hit it, whatever the broker sends. -/
theorem assert_subid_needs_connect (cfg : Cfg) (evs : List Ev)
    (h : Obs.panic .ctx "assert-subid" ∈ World.run cfg evs) :
    ∃ e ∈ evs, (∃ t, e = .connect t) ∨ (∃ a, e = .authorize a) :=
  World.run_assert_needs_connEv cfg evs h

/-- **A script that never connects never panics.** No `connect` / `authorize` event and pairwise distinct
    operation ids: the transcript contains no `PANIC` line at all. -/
theorem no_panic_without_connect (cfg : Cfg) (evs : List Ev) (hn : (World.opIds evs).Nodup)
    (hc : ∀ e ∈ evs, (∀ t, e ≠ .connect t) ∧ (∀ a, e ≠ .authorize a)) :
    ∀ o ∈ World.run cfg evs, ∀ t cls, o ≠ .panic t cls := by
  intro o ho t cls e
  have h1 := only_documented_panic cfg evs hn o ho ⟨t, cls, e⟩
  obtain ⟨ev, hev, h2 | h2⟩ := assert_subid_needs_connect cfg evs (h1 ▸ ho)
  · obtain ⟨tx, rfl⟩ := h2; exact (hc _ hev).1 tx rfl
  · obtain ⟨a, rfl⟩ := h2; exact (hc _ hev).2 a rfl


/-! ## 2. The executor always reaches quiescence

  The potential `World.W5.phi w` (Lemmas/WorldFuelPot.lean) is the sum of
  * 1 if the context future is alive and flagged, 1 if it is alive and a sender of the message queue exists;
  * the framing measure `mu`: bytes and events still to be read from the transport plus bytes buffered;
  * for every handle future the script does not hold: 6 if it was never polled, 3 if it waits for its PUBREC,
    1 otherwise, plus 1 if it is flagged although its oneshot has no value;
  * for every (distinct) live stream the script does not hold: 2 if flagged (or registered on a channel whose
    sender is gone), 1 otherwise, plus 1 while the sender of its channel is alive; plus 1 per buffered message.
  A queued message costs nothing: handling it wakes only tasks whose wake-up is already paid for. A frame pays
  for the messages it delivers with its bytes (two bytes per subscription identifier, `decodeRx_publish_subIds_len`).
-/

/-- **The invariants the argument needs hold in every reachable world**: the sender-ownership invariant `OwnInv`
    (Properties/C14World.lean) and `RegInv`: every registered oneshot waker belongs to an operation that waits on
    exactly that oneshot. No hypothesis on the script. -/
theorem drain_invariants_reachable (cfg : Cfg) (evs : List Ev) :
    World.OwnInv (evs.foldl World.step { cfg := cfg }) ∧ World.RegInv (evs.foldl World.step { cfg := cfg }) :=
  ⟨World.ownInv_script cfg evs, World.regInv_script cfg evs⟩

/-- **Every poll the executor makes strictly decreases the potential.** In a world satisfying the two invariants,
    if the executor picks task `t` (flagged, alive, not held), then after `pollTask t` the potential is smaller:
    the context consumed its flag and re-flags itself only after consuming a `pending` event of the reader, and
    whatever it hands to operations and streams was paid for by the bytes it consumed; an operation completed,
    moved one phase on, or used up a spurious flag; a stream took an item, registered, or ended. -/
theorem every_poll_decreases_the_potential (w : World) (t : Task) (ho : World.OwnInv w) (hr : World.RegInv w)
    (hp : w.pick = some t) : World.W5.phi (w.pollTask t) < World.W5.phi w :=
  World.W5.pollTask_phi w t ho hr hp

/-- **The fuel dominates the potential.** `drainFuel` — 4 units per operation, stream, queued message, unread byte,
    reader event, buffered byte and buffered subscription message, plus 64 — exceeds the potential of any world in
    which at most 30 never-polled operations are ready to be polled (such an operation needs up to five polls —
    its own three and two of the context — and is the only thing that costs more than 4). -/
theorem potential_below_drain_fuel (w : World) (h : World.W5.nFresh w ≤ 30) : World.W5.phi w < w.drainFuel :=
  World.W5.phi_lt_drainFuel w h

/-- **The drain reaches quiescence** from every world satisfying the invariants with at most 30 ready never-polled
    operations: `drain drainFuel` stops because nothing flagged, alive and not held is left — not because the
    fuel ran out. -/
theorem drain_reaches_quiescence (w : World) (ho : World.OwnInv w) (hr : World.RegInv w)
    (h : World.W5.nFresh w ≤ 30) : (World.drain w.drainFuel w).pick = none :=
  World.W5.drain_fuel_quiet' w ho hr h

/-- **A script event makes at most one never-polled operation ready.** In a reachable world whose executor is
    idle every never-polled operation is held by the script (it is flagged from birth); an event creates at most
    one operation or releases at most one task. So when a drain starts, at most ONE never-polled operation is
    ready — far below the 30 the fuel's constant allows. -/
theorem at_most_one_fresh_operation_ready (w : World) (e : Ev) (ho : World.OwnInv w) (hq : w.pick = none) :
    World.W5.nFresh ((w.emit (.ev e)).apply e) ≤ 1 := by
  have ho0 : World.OwnInv (w.emit (.ev e)) := World.own_emit w _ ho
  have h0 : World.W5.nFresh (w.emit (.ev e)) = 0 :=
    World.W5.nFresh_zero_of_quiet _ ho0 (by rw [World.pick_emit]; exact hq)
  have := World.W5.nFresh_apply (w.emit (.ev e)) e ho0
  omega

/-- **Both drains of every step of every script reach quiescence.** Take any configuration, any script `evs` and
    any next event `e`. Unless the script was refused as malformed, the drain that follows `e` ends with nothing
    left to poll, and so does the drain that follows the sweep (`exec=sweep`). No hypothesis on the script: any
    bytes, chunking, faults, operations, holds, releases, drops, id reuse. -/
theorem both_drains_of_every_step_reach_quiescence (cfg : Cfg) (evs : List Ev) (e : Ev)
    (hb : (evs.foldl World.step { cfg := cfg }).bad = false) :
    let w1 := ((evs.foldl World.step { cfg := cfg }).emit (.ev e)).apply e
    (World.drain w1.drainFuel w1).pick = none ∧
    (World.drain (World.drain w1.drainFuel w1).sweep.drainFuel (World.drain w1.drainFuel w1).sweep).pick = none := by
  obtain ⟨ho, hr⟩ := drain_invariants_reachable cfg evs
  rcases World.W5.quiet_script' cfg evs with h | h
  · rw [hb] at h; cases h
  · exact World.W5.step_drains_quiet _ e ho hr h

/-- **After every step of every script the executor is idle**: no task that is flagged, alive and not held by the
    script is left unpolled (or the script was refused as malformed). -/
theorem executor_idle_after_every_step (cfg : Cfg) (evs : List Ev) :
    (evs.foldl World.step { cfg := cfg }).bad = true ∨ (evs.foldl World.step { cfg := cfg }).pick = none :=
  World.W5.quiet_script' cfg evs

/-- **The fuel side condition of the C16 theorems always holds**: `stepsFuelOk` (Lemmas/WorldQuietIds.lean) — after
    the drain of every step no flagged live task that is not held is left — is true of every script from the
    initial world. (Properties/C16Fuel.lean restates the C16 theorems without it.) -/
theorem drain_fuel_always_suffices (cfg : Cfg) (evs : List Ev) : World.stepsFuelOk { cfg := cfg } evs = true :=
  World.W5.stepsFuelOk_script cfg evs

/-! ## 3. The client never stalls with unread input

  `World.step` appends `Obs.stall` after the drains exactly when the context future is alive and the transport
  still has unread events. With section 2 (the executor is idle at that point) a stall would mean: the context
  future went to sleep — returned `Pending` without being flagged — on unread input. -/

/-- **The context future sleeps only when everything was read.** In every world any script can reach: if the
    `connect()` / `authorize()` / `run()` future is alive and not flagged for the executor, the transport's event
    queue is empty and the transport holds the task's waker (so the next `feed` flags it). No hypothesis on the
    script. -/
theorem context_asleep_only_with_everything_read (cfg : Cfg) (evs : List Ev) :
    (evs.foldl World.step { cfg := cfg }).task ≠ .none → Task.ctx ∉ (evs.foldl World.step { cfg := cfg }).woken →
      (evs.foldl World.step { cfg := cfg }).reader = [] ∧ (evs.foldl World.step { cfg := cfg }).readerReg = true :=
  World.W5.stallInv_script cfg evs

/-- **A stalled context future is one the script holds back.** In every reachable world with an idle executor: if
    the context future is alive with unread transport events (the condition of the stall check), the script has
    put the context task on hold — the library itself never leaves unread input behind. -/
theorem stall_only_when_context_held (cfg : Cfg) (evs : List Ev)
    (hq : (evs.foldl World.step { cfg := cfg }).pick = none)
    (ht : (evs.foldl World.step { cfg := cfg }).task ≠ .none)
    (hrd : (evs.foldl World.step { cfg := cfg }).reader ≠ []) :
    Task.ctx ∈ (evs.foldl World.step { cfg := cfg }).held := by
  apply Classical.byContradiction
  intro hh
  have hw := World.not_woken_of_idle _ .ctx hq (by simpa [World.taskLive] using ht) hh
  exact hrd (context_asleep_only_with_everything_read cfg evs ht hw).1

/-- **The client never stalls.** For every configuration (executor mode, read chunking with spurious `Pending`s,
    write limit) and every script that never puts the context task on hold — any bytes in any chunks, well- or
    ill-formed, expected or unexpected packets, end of stream and read errors at any offset, any operations, polls,
    drops, holds of other tasks, id reuse — the transcript contains no `STALL` line: after every event the call
    either keeps serving with everything read, or has returned. (A script that does hold the context task with
    unread input is reported as stalled: the hypothesis cannot be dropped, see the example below.) -/
theorem never_stalls (cfg : Cfg) (evs : List Ev) (hh : ∀ e ∈ evs, e ≠ .hold .ctx) :
    Obs.stall ∉ World.run cfg evs :=
  World.W5.no_stall cfg evs hh

/-! ## Non-vacuity (worlds of Lemmas/WorldEx.lean, scripts of Lemmas/WorldFuelPanic.lean and Lemmas/WorldOpsEx.lean) -/
section NonVacuity
open Ex World

/-- the script `setup, feed CONNACK(no sub-id support), connect` has pairwise distinct operation ids (none), its
    transcript DOES contain a panic — the documented one — and contains a `connect` event: the hypotheses of
    `only_documented_panic` and `assert_subid_needs_connect` are satisfiable and their conclusions are not trivial -/
example : (World.opIds evsAssert).Nodup ∧ Obs.panic .ctx "assert-subid" ∈ World.run {} evsAssert ∧
    ∃ e ∈ evsAssert, (∃ t, e = .connect t) ∨ (∃ a, e = .authorize a) :=
  ⟨by decide, evsAssert_panics, assert_subid_needs_connect {} evsAssert evsAssert_panics⟩
/-- a script with several operations whose ids are pairwise distinct, and without `connect` / `authorize`: the
    hypotheses of `no_panic_without_connect` -/
example : (World.opIds [.setup, .run, .op 1 0 .ping, .op 2 0 (.publish { qos := 1, topic := some [0x61] }),
      .feed [pingresp], .drop (.op 2)]).Nodup ∧
    ∀ e ∈ ([.setup, .run, .op 1 0 .ping, .op 2 0 (.publish { qos := 1, topic := some [0x61] }),
      .feed [pingresp], .drop (.op 2)] : List Ev), (∀ t, e ≠ .connect t) ∧ (∀ a, e ≠ .authorize a) := by
  refine ⟨by decide, ?_⟩
  intro e he
  simp only [List.mem_cons, List.not_mem_nil, or_false] at he
  rcases he with rfl | rfl | rfl | rfl | rfl | rfl <;> exact ⟨(fun t h => by cases h), (fun a h => by cases h)⟩
/-- the second alternative of `panics_enumerated_every_script` is real in the model when an id is reused -/
example : ¬ (World.opIds evsReuse).Nodup ∧ Obs.panic (.op 1) "unreachable" ∈ World.run {} evsReuse :=
  ⟨by decide, reused_id_reaches_unreachable.2⟩
/-- `assert_subid_logged_on_connack` applies to `connect()` awaiting its first response with that CONNACK readable,
    and then the premise of `assert_subid_only_from_connack` holds -/
example : ((wConn connackNoSubId).pollTask .ctx).out = [.panic .ctx "assert-subid"] :=
  assert_subid_logged_on_connack (wConn connackNoSubId) .connect {} {} {} [] connackNoSubId kNoSubId rfl
    pn_connackNoSubId dec_connackNoSubId (by decide) rfl
/-- the hypotheses of `assert_subid_logged_on_first_poll` are satisfiable (world `w5_a3` of the script above) -/
example : ∃ pre, (w5_a3.pollTask .ctx).out = w5_a3.out ++ pre ++ [.panic .ctx "assert-subid"] :=
  assert_subid_logged_on_first_poll w5_a3 .connect {} {} {} [] connackNoSubId kNoSubId rfl (by decide) (by decide)
    pn_connackNoSubId dec_connackNoSubId (by decide) rfl
/-- a CONNACK that does announce support is not a panic: the implication of `assert_subid_only_from_connack` is
    not an equivalence with "first response is a CONNACK" -/
example : ((wConn connackOk).awaitFirst .connect {} {}).out ≠ [.panic .ctx "assert-subid"] := by
  intro h
  obtain ⟨rx', rd', fr, k, hp, hd, _, hs⟩ := (awaitFirst_panics (wConn connackOk) .connect {} {}).1.mp h
  have hp' : Framing.pollNext {} [.data connackOk] = (rx', rd', .item fr) := hp
  rw [pn_connackOk] at hp'
  simp only [Prod.mk.injEq, Out.item.injEq] at hp'
  obtain ⟨_, _, rfl⟩ := hp'
  rw [dec_connackOk] at hd
  cases hd
  exact absurd hs (by decide)

/-- section 2: a world in which a drain starts with work to do. After `setup`, a PINGREQ future polled once, a
    second one held before its first poll, a QoS 2 publish is issued: the executor picks it, it is the one ready
    never-polled operation (`nFresh = 1`), the invariants hold, the potential is 7 (6 + 1 for the waiting ping; the
    held future costs nothing) against a fuel of 80, one poll brings it to 4 (3 for "waits for PUBREC" + 1), and the
    drain ends idle -/
def wDrain : World :=
  (([Ev.setup, .op 1 0 .ping, .hold (.op 3), .op 3 0 .ping].foldl World.step {}).emit
    (.ev (.op 2 0 (.publish { qos := 2, topic := some [0x61] })))).apply
      (.op 2 0 (.publish { qos := 2, topic := some [0x61] }))
example : World.OwnInv wDrain ∧ World.RegInv wDrain :=
  ⟨World.own_apply _ _ (World.own_emit _ _ (World.ownInv_script {} _)),
   World.regInv_apply _ _ (World.own_emit _ _ (World.ownInv_script {} _))
     (World.regInv_emit _ _ (World.regInv_script {} _))⟩
example : wDrain.pick = some (.op 2) ∧ World.W5.nFresh wDrain = 1 ∧ World.W5.phi wDrain = 7 ∧
    wDrain.drainFuel = 80 ∧ World.W5.phi (wDrain.pollTask (.op 2)) = 4 ∧
    (World.drain wDrain.drainFuel wDrain).pick = none := by decide
/-- the potential is not a trivial bound: with too little fuel the same drain does NOT reach quiescence -/
example : (World.drain 0 wDrain).pick ≠ none := by decide

/-- section 3: the hypothesis of `never_stalls` cannot be dropped — a held `connect()` future with unread input is
    reported as stalled — and the world that script reaches satisfies the hypotheses and the conclusion of
    `stall_only_when_context_held` -/
example : Obs.stall ∈ World.run {} [.setup, .hold .ctx, .connect {}, .feed [[0x20]]] := by decide
example : (([.setup, .hold .ctx, .connect {}, .feed [[0x20]]] : List Ev).foldl World.step {}).pick = none ∧
    (([.setup, .hold .ctx, .connect {}, .feed [[0x20]]] : List Ev).foldl World.step {}).task ≠ .none ∧
    (([.setup, .hold .ctx, .connect {}, .feed [[0x20]]] : List Ev).foldl World.step {}).reader ≠ [] ∧
    Task.ctx ∈ (([.setup, .hold .ctx, .connect {}, .feed [[0x20]]] : List Ev).foldl World.step {}).held := by
  decide
/-- `never_stalls` applied: a script with a fault (end of stream in the middle of a packet), a re-used operation
    id, a held operation and the sweeping executor -/
example : Obs.stall ∉ World.run { sweep := true }
    [.setup, .connect {}, .op 1 0 .ping, .feed [[0x20]], .hold (.op 1), .op 1 0 .ping, .feedEof] :=
  never_stalls _ _ (by decide)

end NonVacuity

#print axioms every_panic_is_a_known_one
#print axioms only_documented_panic
#print axioms panics_enumerated_every_script
#print axioms assert_subid_only_from_connack
#print axioms assert_subid_logged_on_connack
#print axioms assert_subid_logged_on_first_poll
#print axioms assert_subid_needs_connect
#print axioms no_panic_without_connect
#print axioms drain_invariants_reachable
#print axioms every_poll_decreases_the_potential
#print axioms potential_below_drain_fuel
#print axioms drain_reaches_quiescence
#print axioms at_most_one_fresh_operation_ready
#print axioms both_drains_of_every_step_reach_quiescence
#print axioms executor_idle_after_every_step
#print axioms drain_fuel_always_suffices
#print axioms context_asleep_only_with_everything_read
#print axioms stall_only_when_context_held
#print axioms never_stalls

end Poster
