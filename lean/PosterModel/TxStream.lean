/-
  TxStream.lean — `TxPacketStream::write` (src/io/packet_stream.rs) = `AsyncWriteExt::write_all` over an arbitrary transport.

      while !buf.is_empty() {
          let n = ready!(writer.poll_write(cx, buf))?;     // Pending: the TRANSPORT keeps the waker
          buf = &buf[n..];
          if n == 0 { return Ready(Err(WriteZero)) }
      }
      Ready(Ok(()))

  The transport is a writer oracle, the mirror image of the reader oracle of Framing.lean: a list of answers the
  successive `poll_write` calls will get. `accept n` takes at most `n + 1` bytes of what is offered (a transport that
  reports success takes at least one byte unless it says 0, which is `zero`); `pending` is `Poll::Pending` (the transport
  registers the waker and the task is polled again later: the next answer of the list); `err` an I/O error; `zero`
  `Ready(Ok(0))`. An exhausted list is a transport that stays `Pending` for good.

  The context writes packet after packet, each with one `write_all` (`handle_message`, `ack`, `retransmit`, `connect`,
  `authorize`); a failed write ends the call (`?`).
-/
import PosterModel.Prim

namespace Poster.TxStream
open Poster

inductive WEv where
  | accept (n : Nat)
  | pending
  | err
  | zero
  deriving Repr, DecidableEq, Inhabited

inductive Out where
  | done      -- `Ready(Ok(()))`
  | pending   -- `Pending`
  | err       -- `Ready(Err(_))` (transport error, or WriteZero)
  deriving Repr, DecidableEq, Inhabited

structure Res where
  acc  : Bytes          -- bytes the transport has taken, in the order it took them
  rest : Bytes          -- what `buf` still holds
  evs  : List WEv       -- answers not yet used
  out  : Out
  calls : Nat := 0      -- number of `poll_write` calls made
  deriving Repr, DecidableEq, Inhabited

/-- ONE poll of the `write_all` future holding `buf` -/
def pollWriteAll (buf : Bytes) : List WEv → Res
  | [] => if buf = [] then ⟨[], [], [], .done, 0⟩ else ⟨[], buf, [], .pending, 1⟩
  | ev :: evs =>
    if buf = [] then ⟨[], [], ev :: evs, .done, 0⟩ else
    match ev with
    | .pending => ⟨[], buf, evs, .pending, 1⟩
    | .err => ⟨[], buf, evs, .err, 1⟩
    | .zero => ⟨[], buf, evs, .err, 1⟩
    | .accept n =>
      let r := pollWriteAll (buf.drop (n + 1)) evs
      { r with acc := buf.take (n + 1) ++ r.acc, calls := r.calls + 1 }

/-- the `write_all` future polled again after every wake-up of the transport, until it completes, fails, or the transport
    has nothing more to say (`out = .pending` with `evs = []`); `polls` counts the polls of the future -/
def writeAll (buf : Bytes) : List WEv → Res × Nat
  | [] => (pollWriteAll buf [], 1)
  | ev :: evs =>
    if buf = [] then (⟨[], [], ev :: evs, .done, 0⟩, 1) else
    match ev with
    | .pending => let (r, k) := writeAll buf evs; ({ r with calls := r.calls + 1 }, k + 1)
    | .err => (⟨[], buf, evs, .err, 1⟩, 1)
    | .zero => (⟨[], buf, evs, .err, 1⟩, 1)
    | .accept n =>
      let (r, k) := writeAll (buf.drop (n + 1)) evs
      ({ r with acc := buf.take (n + 1) ++ r.acc, calls := r.calls + 1 }, k)

/-- what a connection has seen after the context submitted `pkts` one `write_all` after the other -/
structure SeqRes where
  wire : Bytes        -- everything the transport has taken
  completed : Nat     -- how many `write_all` calls returned Ok
  out : Out           -- `.done`: all of them
  deriving Repr, DecidableEq, Inhabited

def writeSeq : List Bytes → List WEv → SeqRes
  | [], _ => ⟨[], 0, .done⟩
  | p :: ps, evs =>
    let r := (writeAll p evs).1
    match r.out with
    | .done => let s := writeSeq ps r.evs; { s with wire := r.acc ++ s.wire, completed := s.completed + 1 }
    | o => ⟨r.acc, 0, o⟩

/-- answers of the harness's mock transport without a byte budget (mock_io.rs): `one` = one byte per call,
    `pend` = every other call answers `Pending` after waking the task itself; enough of them for `len` bytes -/
def mockEvs (one pend : Bool) (len : Nat) : List WEv :=
  let a : WEv := if one then .accept 0 else .accept len
  let unit := if pend then [WEv.pending, a] else [a]
  (List.replicate (len + 1) unit).flatten

end Poster.TxStream
