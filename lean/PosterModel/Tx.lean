/-
  Tx.lean — the packets poster-rs writes, code-shaped (src/codec/{connect,auth,publish,subscribe,
  unsubscribe,disconnect,pingreq,ack}.rs and the builders fed by src/client/opts.rs).

  Every `*Tx` is modelled as the code has it: a record of the builder's fields, `build` (the
  `validate` rule and mandatory fields), and the three separate functions `propertyLen`,
  `remainingLen`, `encode` (field by field, in the code's order). Keeping them separate is the point:
  "a field is missing from a length computation" is a state this model can be in.
-/
import PosterModel.Props

namespace Poster

def oLen {α} (f : α → Nat) : Option α → Nat
  | some a => f a
  | none => 0
def oEnc {α} (f : α → Bytes) : Option α → Bytes
  | some a => f a
  | none => []
def userLen (u : List (Bytes × Bytes)) : Nat := (u.map fun (k, v) => propLen (pUser k v)).sum
def userEnc (u : List (Bytes × Bytes)) : Bytes := (u.map fun (k, v) => encProp (pUser k v)).flatten

/-! ## CONNECT -/

structure ConnectTx where
  keepAlive : Nat := 0
  sessionExpiry : Option Nat := none
  receiveMaximum : Option Nat := none
  maxPacketSize : Option Nat := none
  topicAliasMax : Option Nat := none
  reqRespInfo : Option Bool := none
  reqProbInfo : Option Bool := none
  authMethod : Option Bytes := none
  authData : Option Bytes := none
  userProps : List (Bytes × Bytes) := []
  willQos : Nat := 0
  willRetain : Bool := false
  cleanStart : Bool := false
  clientId : Bytes := []
  willDelay : Option Nat := none
  willPfi : Option Bool := none
  willMei : Option Nat := none
  willContentType : Option Bytes := none
  willResponseTopic : Option Bytes := none
  willCorrelationData : Option Bytes := none
  willUserProps : List (Bytes × Bytes) := []
  willTopic : Option Bytes := none
  willPayload : Option Bytes := none
  username : Option Bytes := none
  password : Option Bytes := none
deriving Repr, DecidableEq

namespace ConnectTx
/-- `ConnectTxBuilder::validate`: authentication data without a method is refused. -/
def valid (t : ConnectTx) : Bool := !(t.authMethod.isNone && t.authData.isSome)

def propertyLen (t : ConnectTx) : Nat :=
  oLen (fun n => propLen (pNum 17 n)) t.sessionExpiry
  + oLen (fun n => propLen (pNum 33 n)) t.receiveMaximum
  + oLen (fun n => propLen (pNum 39 n)) t.maxPacketSize
  + oLen (fun n => propLen (pNum 34 n)) t.topicAliasMax
  + oLen (fun b => propLen (pBool 25 b)) t.reqRespInfo
  + oLen (fun b => propLen (pBool 23 b)) t.reqProbInfo
  + oLen (fun s => propLen (pStr 21 s)) t.authMethod
  + oLen (fun s => propLen (pStr 22 s)) t.authData
  + userLen t.userProps

def willPropertyLen (t : ConnectTx) : Nat :=
  oLen (fun n => propLen (pNum 24 n)) t.willDelay
  + oLen (fun b => propLen (pBool 1 b)) t.willPfi
  + oLen (fun n => propLen (pNum 2 n)) t.willMei
  + oLen (fun s => propLen (pStr 3 s)) t.willContentType
  + oLen (fun s => propLen (pStr 8 s)) t.willResponseTopic
  + oLen (fun s => propLen (pStr 9 s)) t.willCorrelationData
  + userLen t.willUserProps

/-- `will_flag()`: 1 iff both will topic and will payload are set -/
def willFlag (t : ConnectTx) : Nat := if t.willTopic.isSome && t.willPayload.isSome then 1 else 0

def payloadLen (t : ConnectTx) : Nat :=
  let rest := strLen t.clientId + oLen strLen t.username + oLen strLen t.password
  if t.willFlag ≠ 0 then
    varLen t.willPropertyLen + t.willPropertyLen + rest + oLen strLen t.willTopic + oLen strLen t.willPayload
  else rest

def remainingLen (t : ConnectTx) : Nat :=
  strLen [77, 81, 84, 84] + 1 + 1 + 2 + varLen t.propertyLen + t.propertyLen + t.payloadLen

def payloadFlags (t : ConnectTx) : Nat :=
  b2n t.username.isSome * 128 + b2n t.password.isSome * 64 + b2n t.willRetain * 32 + t.willQos * 8
  + t.willFlag * 4 + b2n t.cleanStart * 2

def packetLen (t : ConnectTx) : Nat := 1 + varLen t.remainingLen + t.remainingLen

def encode (t : ConnectTx) : Bytes :=
  encU8 16 ++ encVar t.remainingLen
  ++ encStr [77, 81, 84, 84] ++ encU8 5 ++ encU8 t.payloadFlags ++ encU16 t.keepAlive
  ++ encVar t.propertyLen
  ++ oEnc (fun n => encProp (pNum 17 n)) t.sessionExpiry
  ++ oEnc (fun n => encProp (pNum 33 n)) t.receiveMaximum
  ++ oEnc (fun n => encProp (pNum 39 n)) t.maxPacketSize
  ++ oEnc (fun n => encProp (pNum 34 n)) t.topicAliasMax
  ++ oEnc (fun b => encProp (pBool 25 b)) t.reqRespInfo
  ++ oEnc (fun b => encProp (pBool 23 b)) t.reqProbInfo
  ++ oEnc (fun s => encProp (pStr 21 s)) t.authMethod
  ++ oEnc (fun s => encProp (pStr 22 s)) t.authData
  ++ userEnc t.userProps
  ++ encStr t.clientId
  ++ (if t.willFlag ≠ 0 then
        encVar t.willPropertyLen
        ++ oEnc (fun n => encProp (pNum 24 n)) t.willDelay
        ++ oEnc (fun b => encProp (pBool 1 b)) t.willPfi
        ++ oEnc (fun n => encProp (pNum 2 n)) t.willMei
        ++ oEnc (fun s => encProp (pStr 3 s)) t.willContentType
        ++ oEnc (fun s => encProp (pStr 8 s)) t.willResponseTopic
        ++ oEnc (fun s => encProp (pStr 9 s)) t.willCorrelationData
        ++ userEnc t.willUserProps
        ++ oEnc encStr t.willTopic
        ++ oEnc encStr t.willPayload
      else [])
  ++ oEnc encStr t.username
  ++ oEnc encStr t.password
end ConnectTx

/-! ## AUTH -/

structure AuthTx where
  reason : Option Nat := none          -- builder field; `none` = default (Success = 0)
  authMethod : Option Bytes := none
  authData : Option Bytes := none
  reasonString : Option Bytes := none
  userProps : List (Bytes × Bytes) := []
deriving Repr, DecidableEq

namespace AuthTx
def reasonVal (t : AuthTx) : Nat := t.reason.getD 0
/-- `is_shortened()` (the same condition as `shortened` in `AuthTxBuilder::validate`) -/
def shortened (t : AuthTx) : Bool :=
  t.reasonVal == 0 && t.authMethod.isNone && t.authData.isNone && t.reasonString.isNone && t.userProps.isEmpty
/-- `AuthTxBuilder::validate`: anything but the shortened form needs both method and data. -/
def valid (t : AuthTx) : Bool := t.shortened || (t.authMethod.isSome && t.authData.isSome)

def propertyLen (t : AuthTx) : Nat :=
  oLen (fun s => propLen (pStr 21 s)) t.authMethod
  + oLen (fun s => propLen (pStr 22 s)) t.authData
  + oLen (fun s => propLen (pStr 31 s)) t.reasonString
  + userLen t.userProps

def remainingLen (t : AuthTx) : Nat :=
  if t.shortened then 0 else 1 + varLen t.propertyLen + t.propertyLen

def packetLen (t : AuthTx) : Nat := 1 + varLen t.remainingLen + t.remainingLen

/-- `encode`; `authentication_method.unwrap()` cannot fail after `valid`. -/
def encode (t : AuthTx) : Bytes :=
  if t.shortened then [240, 0] else
  encU8 240 ++ encVar t.remainingLen ++ encU8 t.reasonVal ++ encVar t.propertyLen
  ++ oEnc (fun s => encProp (pStr 21 s)) t.authMethod
  ++ oEnc (fun s => encProp (pStr 22 s)) t.authData
  ++ oEnc (fun s => encProp (pStr 31 s)) t.reasonString
  ++ userEnc t.userProps
end AuthTx

/-! ## PUBLISH -/

structure PublishTx where
  dup : Bool := false
  retain : Bool := false
  qos : Nat := 0
  topic : Option Bytes := none          -- mandatory builder field
  packetId : Option Nat := none
  pfi : Option Bool := none
  topicAlias : Option Nat := none
  mei : Option Nat := none
  correlationData : Option Bytes := none
  responseTopic : Option Bytes := none
  contentType : Option Bytes := none
  userProps : List (Bytes × Bytes) := []
  payload : Option Bytes := none
deriving Repr, DecidableEq

namespace PublishTx
/-- `build()`: the topic is mandatory; `validate`: QoS > 0 needs a packet identifier. -/
def valid (t : PublishTx) : Bool := t.topic.isSome && (t.qos == 0 || t.packetId.isSome)

def topicBytes (t : PublishTx) : Bytes := t.topic.getD []

def fixedHdr (t : PublishTx) : Nat := 3 * 16 + b2n t.dup * 8 + t.qos * 2 + b2n t.retain

def propertyLen (t : PublishTx) : Nat :=
  oLen (fun b => propLen (pBool 1 b)) t.pfi
  + oLen (fun n => propLen (pNum 35 n)) t.topicAlias
  + oLen (fun n => propLen (pNum 2 n)) t.mei
  + oLen (fun s => propLen (pStr 9 s)) t.correlationData
  + oLen (fun s => propLen (pStr 8 s)) t.responseTopic
  + oLen (fun s => propLen (pStr 3 s)) t.contentType
  + userLen t.userProps

def remainingLen (t : PublishTx) : Nat :=
  strLen t.topicBytes + oLen (fun _ => 2) t.packetId + varLen t.propertyLen + t.propertyLen
  + oLen List.length t.payload

def packetLen (t : PublishTx) : Nat := 1 + varLen t.remainingLen + t.remainingLen

def encode (t : PublishTx) : Bytes :=
  encU8 t.fixedHdr ++ encVar t.remainingLen ++ encStr t.topicBytes ++ oEnc encU16 t.packetId
  ++ encVar t.propertyLen
  ++ oEnc (fun b => encProp (pBool 1 b)) t.pfi
  ++ oEnc (fun n => encProp (pNum 35 n)) t.topicAlias
  ++ oEnc (fun n => encProp (pNum 2 n)) t.mei
  ++ oEnc (fun s => encProp (pStr 9 s)) t.correlationData
  ++ oEnc (fun s => encProp (pStr 8 s)) t.responseTopic
  ++ oEnc (fun s => encProp (pStr 3 s)) t.contentType
  ++ userEnc t.userProps
  ++ oEnc id t.payload
end PublishTx

/-! ## SUBSCRIBE -/

structure SubOpts where
  maxQos : Nat := 2                   -- `SubscriptionOptions::default()`: ExactlyOnce
  noLocal : Bool := false
  retainAsPublished : Bool := false
  retainHandling : Nat := 0
deriving Repr, DecidableEq

/-- `Encode for SubscriptionOptions` (after the fix: bit 2, bit 3, bits 4-5) -/
def SubOpts.byte (o : SubOpts) : Nat :=
  o.maxQos + b2n o.noLocal * 4 + b2n o.retainAsPublished * 8 + o.retainHandling * 16

structure SubscribeTx where
  packetId : Nat
  subId : Option Nat := none
  userProps : List (Bytes × Bytes) := []
  filters : List (Bytes × SubOpts) := []
deriving Repr, DecidableEq

namespace SubscribeTx
/-- `validate`: at least one topic filter -/
def valid (t : SubscribeTx) : Bool := !t.filters.isEmpty

def propertyLen (t : SubscribeTx) : Nat :=
  oLen (fun v => propLen (pSubId v)) t.subId + userLen t.userProps

def remainingLen (t : SubscribeTx) : Nat :=
  2 + varLen t.propertyLen + t.propertyLen + (t.filters.map fun (f, _) => strLen f + 1).sum

def packetLen (t : SubscribeTx) : Nat := 1 + varLen t.remainingLen + t.remainingLen

def encode (t : SubscribeTx) : Bytes :=
  encU8 130 ++ encVar t.remainingLen ++ encU16 t.packetId ++ encVar t.propertyLen
  ++ oEnc (fun v => encProp (pSubId v)) t.subId
  ++ userEnc t.userProps
  ++ (t.filters.map fun (f, o) => encStr f ++ encU8 o.byte).flatten
end SubscribeTx

/-! ## UNSUBSCRIBE -/

structure UnsubscribeTx where
  packetId : Nat
  userProps : List (Bytes × Bytes) := []
  filters : List Bytes := []
deriving Repr, DecidableEq

namespace UnsubscribeTx
def valid (t : UnsubscribeTx) : Bool := !t.filters.isEmpty
def propertyLen (t : UnsubscribeTx) : Nat := userLen t.userProps
def remainingLen (t : UnsubscribeTx) : Nat :=
  2 + varLen t.propertyLen + t.propertyLen + (t.filters.map strLen).sum
def packetLen (t : UnsubscribeTx) : Nat := 1 + varLen t.remainingLen + t.remainingLen
def encode (t : UnsubscribeTx) : Bytes :=
  encU8 162 ++ encVar t.remainingLen ++ encU16 t.packetId ++ encVar t.propertyLen
  ++ userEnc t.userProps
  ++ (t.filters.map encStr).flatten
end UnsubscribeTx

/-! ## DISCONNECT -/

structure DisconnectTx where
  reason : Nat := 0
  sessionExpiry : Option Nat := none
  reasonString : Option Bytes := none
  userProps : List (Bytes × Bytes) := []
deriving Repr, DecidableEq

namespace DisconnectTx
def propertyLen (t : DisconnectTx) : Nat :=
  oLen (fun n => propLen (pNum 17 n)) t.sessionExpiry
  + oLen (fun s => propLen (pStr 31 s)) t.reasonString
  + userLen t.userProps
def remainingLen (t : DisconnectTx) : Nat := 1 + varLen t.propertyLen + t.propertyLen
def packetLen (t : DisconnectTx) : Nat := 1 + varLen t.remainingLen + t.remainingLen
def encode (t : DisconnectTx) : Bytes :=
  encU8 224 ++ encVar t.remainingLen ++ encU8 t.reason ++ encVar t.propertyLen
  ++ oEnc (fun n => encProp (pNum 17 n)) t.sessionExpiry
  ++ oEnc (fun s => encProp (pStr 31 s)) t.reasonString
  ++ userEnc t.userProps
end DisconnectTx

/-! ## PINGREQ -/
def pingreqBytes : Bytes := [192, 0]

/-! ## PUBACK / PUBREC / PUBREL / PUBCOMP (`AckTx<ReasonT>`) -/

structure AckTx where
  hdr : Nat                          -- FIXED_HDR: 0x40 PUBACK, 0x50 PUBREC, 0x62 PUBREL, 0x70 PUBCOMP
  packetId : Nat
  reason : Nat := 0
  reasonString : Option Bytes := none
  userProps : List (Bytes × Bytes) := []
deriving Repr, DecidableEq

namespace AckTx
def propertyLen (t : AckTx) : Nat := oLen (fun s => propLen (pStr 31 s)) t.reasonString + userLen t.userProps
def remainingLen (t : AckTx) : Nat :=
  if t.reason == 0 && t.propertyLen == 0 then 2 else 2 + 1 + varLen t.propertyLen + t.propertyLen
def packetLen (t : AckTx) : Nat := 1 + varLen t.remainingLen + t.remainingLen
def encode (t : AckTx) : Bytes :=
  encU8 t.hdr ++ encVar t.remainingLen ++ encU16 t.packetId
  ++ (if t.remainingLen == 2 then [] else
        encU8 t.reason ++ encVar t.propertyLen
        ++ oEnc (fun s => encProp (pStr 31 s)) t.reasonString ++ userEnc t.userProps)
end AckTx

/-- the acknowledgements the context writes itself: default reason, no properties -/
def ackBytes (hdr pid : Nat) : Bytes := ({ hdr := hdr, packetId := pid } : AckTx).encode

end Poster
