/-
  TxMock.lean — the harness's mock transport (harness/src/mock_io.rs, `MockWriter::poll_write`, without byte budgets) as a
  generator of writer-oracle answers, and the `WCALLS` statistics of a connection: how many `poll_write` calls the client
  made, how many were answered `Pending`, how many bytes were taken. With `CFG wtrace=1` both sides print them when a
  connection's transport is replaced and at the end of the script, so that the `write_all` model of TxStream.lean is run
  against the code on every such script (PROTOCOL.md).
-/
import PosterModel.TxStream

namespace Poster.TxStream
open Poster

structure MockW where
  one : Bool := false
  pend : Bool := false
  yielded : Bool := false
  deriving Repr, DecidableEq, Inhabited

/-- the answers the mock gives while a `write_all` of `rem` bytes is driven to its end, and its state afterwards -/
def MockW.answers : Nat → MockW → Nat → List WEv × MockW
  | 0, m, _ => ([], m)
  | _, m, 0 => ([], m)
  | f+1, m, rem+1 =>
    if m.pend ∧ !m.yielded then
      let (evs, m') := MockW.answers f { m with yielded := true } (rem + 1)
      (.pending :: evs, m')
    else
      let k := if m.one then 1 else rem + 1
      let (evs, m') := MockW.answers f { m with yielded := false } (rem + 1 - k)
      (.accept (k - 1) :: evs, m')

structure WStats where
  calls : Nat := 0
  pend : Nat := 0
  bytes : Nat := 0
  ok : Bool := true       -- every write completed
  deriving Repr, DecidableEq, Inhabited

/-- one connection: the packets submitted one `write_all` after the other to the mock -/
def mockStats (m : MockW) (pkts : List Bytes) : WStats :=
  (pkts.foldl (fun (acc : WStats × MockW) p =>
    let (evs, m') := acc.2.answers (2 * p.length + 2) p.length
    let (r, polls) := writeAll p evs
    ({ calls := acc.1.calls + r.calls, pend := acc.1.pend + (polls - 1), bytes := acc.1.bytes + r.acc.length,
       ok := acc.1.ok && r.out == .done }, m')) ({}, m)).1

end Poster.TxStream
