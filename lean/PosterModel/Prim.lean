/-
  Prim.lean — byte-level primitives of poster-rs, code-shaped.

  Mirrors src/core/base_types.rs and src/core/utils.rs (Decoder):
    * encoders  (`Encode for u8/u16/u32/VarSizeInt/UTF8StringRef/BinaryRef/...`)
    * decoders  (`TryDecode for ...`) with an explicit three-way outcome: a value, an error, or a panic
    * `Decoder::try_decode` = decode on a clone of the buffer, then `advance(byte_len(result))`;
      advancing past the end is the panic of `Bytes::advance`.
  No Mathlib; everything is executable.
-/
namespace Poster

abbrev Bytes := List UInt8

@[simp] theorem u8_toNat_ofNat (n : Nat) : (UInt8.ofNat n).toNat = n % 256 := by
  simp [UInt8.toNat_ofNat']

/-- Outcome of a piece of modelled code: a value, an `Err(..)`, or a panic (`unwrap`, `unreachable!`,
    `Bytes::advance` past the end, arithmetic overflow with checks on). Error *kinds* are not modelled
    (no property depends on them). -/
inductive Res (α : Type) where
  | ok (a : α)
  | err
  | panic
deriving Repr, DecidableEq

namespace Res
def bind {α β} (r : Res α) (f : α → Res β) : Res β :=
  match r with
  | .ok a => f a
  | .err => .err
  | .panic => .panic
def map {α β} (f : α → β) (r : Res α) : Res β := r.bind fun a => .ok (f a)
def isPanic {α} : Res α → Bool
  | .panic => true
  | _ => false
def isOk {α} : Res α → Bool
  | .ok _ => true
  | _ => false
instance : Monad Res where
  pure := .ok
  bind := bind
@[simp] theorem bind_ok {α β} (a : α) (f : α → Res β) : (Res.ok a).bind f = f a := rfl
@[simp] theorem bind_err {α β} (f : α → Res β) : (Res.err : Res α).bind f = .err := rfl
@[simp] theorem bind_panic {α β} (f : α → Res β) : (Res.panic : Res α).bind f = .panic := rfl
end Res

/-! ## Encoders (`Encode`) -/

def b2n (b : Bool) : Nat := if b then 1 else 0

def encU8 (n : Nat) : Bytes := [UInt8.ofNat n]
/-- `BufMut::put_u16` (big endian); also used with `len as u16`, i.e. the argument is taken mod 2^16. -/
def encU16 (n : Nat) : Bytes := [UInt8.ofNat (n / 256), UInt8.ofNat (n % 256)]
def encU32 (n : Nat) : Bytes :=
  [UInt8.ofNat (n / 16777216), UInt8.ofNat (n / 65536 % 256), UInt8.ofNat (n / 256 % 256), UInt8.ofNat (n % 256)]

/-- `VarSizeInt::MAX` -/
def varMax : Nat := 268435455

/-- `VarSizeInt::len()` of `VarSizeInt::try_from(n: usize)` (1..4; the code panics above `varMax`). -/
def varLen (n : Nat) : Nat :=
  if n ≤ 127 then 1 else if n ≤ 16383 then 2 else if n ≤ 2097151 then 3 else 4

/-- `Encode for VarSizeInt` applied to `VarSizeInt::try_from(n)` (state chosen by magnitude). -/
def encVar (n : Nat) : Bytes :=
  if n ≤ 127 then [UInt8.ofNat n]
  else if n ≤ 16383 then [UInt8.ofNat (n % 128 + 128), UInt8.ofNat (n / 128 % 128)]
  else if n ≤ 2097151 then
    [UInt8.ofNat (n % 128 + 128), UInt8.ofNat (n / 128 % 128 + 128), UInt8.ofNat (n / 16384 % 128)]
  else
    [UInt8.ofNat (n % 128 + 128), UInt8.ofNat (n / 128 % 128 + 128), UInt8.ofNat (n / 16384 % 128 + 128),
     UInt8.ofNat (n / 2097152 % 128)]

/-- `UTF8StringRef` / `BinaryRef`: two-byte length prefix (`len as u16`) then the bytes. -/
def encStr (s : Bytes) : Bytes := encU16 s.length ++ s
/-- `UTF8StringPairRef` -/
def encPair (k v : Bytes) : Bytes := encStr k ++ encStr v

/-- `ByteLen` of a string/binary. -/
def strLen (s : Bytes) : Nat := 2 + s.length
def pairLen (k v : Bytes) : Nat := 4 + k.length + v.length

/-! ## Decoders (`TryDecode`) -/

/-- Result of `VarSizeInt::try_from(&[u8])`: value and encoded length, `need` = `InsufficientBufferSize`
    (the framing layer reads more), `bad` = any other error. -/
inductive VarRes where
  | ok (value len : Nat)
  | need
  | bad
deriving Repr, DecidableEq

/-- The loop of `VarSizeInt::try_from(&[u8])` (after the fix: the multiplier is tested before it is used).
    `mult > MAX` happens exactly at index 4, so the accumulator stays below 2^28 and nothing overflows. -/
def decVarAux : Nat → Nat → Nat → Bytes → VarRes
  | _, _, _, [] => .need
  | idx, mult, acc, b :: rest =>
    if mult > varMax then .bad else
    let acc' := acc + (b.toNat % 128) * mult
    if b.toNat < 128 then (if idx ≤ 3 then .ok acc' (idx + 1) else .bad)
    else decVarAux (idx + 1) (mult * 128) acc' rest

def decVar (bs : Bytes) : VarRes := decVarAux 0 1 0 bs

def decU8 : Bytes → Res Nat
  | b :: _ => .ok b.toNat
  | [] => .err

/-- `u16::try_decode` (after the fix: two bytes are required). -/
def decU16 : Bytes → Res Nat
  | a :: b :: _ => .ok (a.toNat * 256 + b.toNat)
  | _ => .err

/-- `u32::try_decode` (after the fix: four bytes are required). -/
def decU32 : Bytes → Res Nat
  | a :: b :: c :: d :: _ => .ok (((a.toNat * 256 + b.toNat) * 256 + c.toNat) * 256 + d.toNat)
  | _ => .err

def decBool : Bytes → Res Bool
  | b :: _ => if b.toNat = 0 then .ok false else if b.toNat = 1 then .ok true else .err
  | [] => .err

/-- `QoS::try_decode` -/
def decQoS : Bytes → Res Nat
  | b :: _ => if b.toNat ≤ 2 then .ok b.toNat else .err
  | [] => .err

def decNzU16 (bs : Bytes) : Res Nat := (decU16 bs).bind fun n => if n = 0 then .err else .ok n
def decNzU32 (bs : Bytes) : Res Nat := (decU32 bs).bind fun n => if n = 0 then .err else .ok n

/-- `VarSizeInt::try_decode` as a `Res`: (value, len). -/
def decVarR (bs : Bytes) : Res (Nat × Nat) :=
  match decVar bs with
  | .ok v l => .ok (v, l)
  | _ => .err

/-- `NonZero<VarSizeInt>::try_decode`. The code's zero test is `val == 0` with an integer literal, which
    resolves to `PartialEq<i32>`, whose `eq` is `false` for every non-positive right-hand side: zero is accepted. -/
def decNzVar (bs : Bytes) : Res (Nat × Nat) := decVarR bs

/-- Well-formed UTF-8 (what `std::str::from_utf8` accepts): no overlong forms, no surrogates, ≤ U+10FFFF. -/
def utf8Valid : Bytes → Bool
  | [] => true
  | b0 :: rest =>
    let n0 := b0.toNat
    if n0 < 0x80 then utf8Valid rest
    else if n0 < 0xC2 then false
    else if n0 < 0xE0 then
      match rest with
      | b1 :: r => if 0x80 ≤ b1.toNat && b1.toNat < 0xC0 then utf8Valid r else false
      | _ => false
    else if n0 < 0xF0 then
      match rest with
      | b1 :: b2 :: r =>
        let n1 := b1.toNat
        let lo := if n0 = 0xE0 then 0xA0 else 0x80
        let hi := if n0 = 0xED then 0xA0 else 0xC0
        if lo ≤ n1 && n1 < hi && 0x80 ≤ b2.toNat && b2.toNat < 0xC0 then utf8Valid r else false
      | _ => false
    else if n0 < 0xF5 then
      match rest with
      | b1 :: b2 :: b3 :: r =>
        let n1 := b1.toNat
        let lo := if n0 = 0xF0 then 0x90 else 0x80
        let hi := if n0 = 0xF4 then 0x90 else 0xC0
        if lo ≤ n1 && n1 < hi && 0x80 ≤ b2.toNat && b2.toNat < 0xC0 && 0x80 ≤ b3.toNat && b3.toNat < 0xC0
        then utf8Valid r else false
      | _ => false
    else false
termination_by bs => bs.length

/-- `Binary::try_decode`: two-byte size, then that many bytes. -/
def decBin (bs : Bytes) : Res Bytes :=
  match bs with
  | a :: b :: rest =>
    let n := a.toNat * 256 + b.toNat
    if n > rest.length then .err else .ok (rest.take n)
  | _ => .err

/-- `UTF8String::try_decode`: as `Binary`, plus `from_utf8`. -/
def decStr (bs : Bytes) : Res Bytes :=
  (decBin bs).bind fun s => if utf8Valid s then .ok s else .err

/-- `UTF8StringPair::try_decode` -/
def decPair (bs : Bytes) : Res (Bytes × Bytes) :=
  (decStr bs).bind fun k => (decStr (bs.drop (2 + k.length))).bind fun v => .ok (k, v)

/-! ## `Decoder` -/

/-- `Decoder::try_decode::<T>()`: decode from (a clone of) the buffer, then `advance_by(result.byte_len())`.
    `Bytes::advance` panics when asked to go past the end. -/
def tryDec {α} (dec : Bytes → Res α) (len : α → Nat) (d : Bytes) : Res (α × Bytes) :=
  match dec d with
  | .ok v => if len v ≤ d.length then .ok (v, d.drop (len v)) else .panic
  | .err => .err
  | .panic => .panic

def dU8 := tryDec decU8 (fun _ => 1)
def dU16 := tryDec decU16 (fun _ => 2)
def dU32 := tryDec decU32 (fun _ => 4)
def dBool := tryDec decBool (fun _ => 1)
def dQoS := tryDec decQoS (fun _ => 1)
def dNzU16 := tryDec decNzU16 (fun _ => 2)
def dNzU32 := tryDec decNzU32 (fun _ => 4)
def dVar := tryDec decVarR (fun p => p.2)
def dNzVar := tryDec decNzVar (fun p => p.2)
def dBin := tryDec decBin strLen
def dStr := tryDec decStr strLen
def dPair := tryDec decPair (fun p => pairLen p.1 p.2)

/-- `Decoder::advance_by(n)` on its own (used after the property block): panics past the end. -/
def advanceBy (n : Nat) (d : Bytes) : Res Bytes := if n ≤ d.length then .ok (d.drop n) else .panic

/-! ## hex (driver I/O) -/

def hexDigit (n : Nat) : Char := if n < 10 then Char.ofNat (48 + n) else Char.ofNat (87 + n)
def toHex (bs : Bytes) : String :=
  String.ofList (bs.flatMap fun b => [hexDigit (b.toNat / 16), hexDigit (b.toNat % 16)])

def hexVal (c : Char) : Option Nat :=
  if '0' ≤ c ∧ c ≤ '9' then some (c.toNat - 48)
  else if 'a' ≤ c ∧ c ≤ 'f' then some (c.toNat - 87)
  else if 'A' ≤ c ∧ c ≤ 'F' then some (c.toNat - 55)
  else none

def ofHexAux : List Char → Option Bytes
  | [] => some []
  | a :: b :: rest =>
    match hexVal a, hexVal b, ofHexAux rest with
    | some x, some y, some r => some (UInt8.ofNat (x * 16 + y) :: r)
    | _, _, _ => none
  | _ => none
def ofHex (s : String) : Option Bytes := ofHexAux s.toList

end Poster
