/-
  Ctx.lean — the bookkeeping core of `Context` (src/client/context.rs): `Session`, `Connection`,
  `handle_message`, `handle_packet`, `handle_connack`, `session_expired`, `reset_session`, `retransmit`,
  and the action identifiers of src/client/utils.rs.

  A handler is a pure function from the state and its input to the new state, the list of *effects* it
  performs in order (a write on the transport, the completion of a oneshot, a message pushed into a
  subscription channel, a dropped sender) and what `run()` does next. A handler performs at most one
  write; `wok = false` means that this write fails (`tx.write(..).await?` returns the error).
-/
import PosterModel.Tx
import PosterModel.Rx

namespace Poster

/-- `tx_action_id` / `rx_action_id`: `(PACKET_ID << 24) | (packet id << 8)` -/
def actionId (kind pid : Nat) : Nat := kind * 16777216 + pid * 256

/-- `Result<RxPacket, MqttError>` / `Result<(), MqttError>` travelling through a oneshot channel -/
inductive SlotVal where
  | unit
  | pkt (p : RxPacket)
  | errSize
  | errQuota
deriving Repr, DecidableEq

/-- `ContextMessage` -/
inductive Msg where
  | ff (pkt : Bytes) (slot : Nat)
  | awaitAck (aid : Nat) (pkt : Bytes) (slot : Nat)
  | subscribe (aid subId : Nat) (pkt : Bytes) (slot chan : Nat)
deriving Repr, DecidableEq

inductive Eff where
  | write (bs : Bytes)
  | send (slot : Nat) (v : SlotVal)        -- `response_channel.send(v)` (failure ignored)
  | dropSlot (slot : Nat)                  -- the sender is dropped without a value
  | deliver (chan : Nat) (p : PublishRx)   -- `subscription.unbounded_send(publish)` that succeeds
  | dropChan (chan : Nat)                  -- a subscription sender is dropped
deriving Repr, DecidableEq

inductive Flow where
  | cont
  | exitOk
  | exitSocket
  | exitDisconnected (p : DisconnectRx)
deriving Repr, DecidableEq

/-- `Session` + `Connection` -/
structure Ctx where
  awaiting : List (Nat × Nat) := []      -- awaiting_ack: (action id, oneshot)
  subs : List (Nat × Nat) := []          -- subscriptions: (subscription identifier, channel)
  retx : List (Nat × Bytes) := []        -- retrasmit_queue
  inQos2 : List Nat := []                -- inbound_qos2
  quota : Nat := 65535                   -- send_quota
  recvMax : Nat := 65535                 -- remote_receive_maximum
  maxPkt : Option Nat := none            -- remote_max_packet_size
  sei : Nat := 0                         -- session_expiry_interval
  disc : Option Nat := none              -- disconnection_timestamp, as "seconds ago"
deriving Repr, DecidableEq

/-- `linear_search_by_key(..).and_then(|pos| deque.remove(pos))`: remove the first entry with the key -/
def removeFirst {β} (k : Nat) : List (Nat × β) → Option (β × List (Nat × β))
  | [] => none
  | (a, b) :: t => if a = k then some (b, t) else (removeFirst k t).map fun (o, t') => (o, (a, b) :: t')

def eraseFirst {β} (k : Nat) (l : List (Nat × β)) : List (Nat × β) :=
  match removeFirst k l with
  | some (_, l') => l'
  | none => l

def lookupFirst {β} (k : Nat) : List (Nat × β) → Option β
  | [] => none
  | (a, b) :: t => if a = k then some b else lookupFirst k t

def pktType (pkt : Bytes) : Nat :=
  match pkt with
  | b :: _ => b.toNat / 16
  | [] => 0

/-- `*fixed_hdr |= 1 << 3` -/
def setDup (pkt : Bytes) : Bytes :=
  match pkt with
  | b :: t => UInt8.ofNat (b.toNat ||| 8) :: t
  | [] => []

namespace Ctx

/-- `validate_packet_size` -/
def sizeOk (c : Ctx) (pkt : Bytes) : Bool :=
  match c.maxPkt with
  | none => true
  | some m => pkt.length ≤ m

/-- `if send_quota != remote_receive_maximum { send_quota += 1 }` -/
def bump (c : Ctx) : Ctx := if c.quota ≠ c.recvMax then { c with quota := c.quota + 1 } else c

/-- `handle_message` -/
def handleMsg (c : Ctx) (m : Msg) (wok : Bool) : Ctx × List Eff × Flow :=
  match m with
  | .ff pkt slot =>
    if !c.sizeOk pkt then (c, [.send slot .errSize], .cont)
    else if !wok then (c, [.write pkt, .dropSlot slot], .exitSocket)
    else (c, [.write pkt, .send slot .unit], if pktType pkt = 14 then .exitOk else .cont)
  | .awaitAck aid pkt slot =>
    if !c.sizeOk pkt then (c, [.send slot .errSize], .cont)
    else if pktType pkt = 3 then
      if c.quota = 0 then (c, [.send slot .errQuota], .cont)
      else
        let c1 := { c with quota := c.quota - 1 }
        if !wok then (c1, [.write pkt, .dropSlot slot], .exitSocket)
        else ({ c1 with awaiting := c1.awaiting ++ [(aid, slot)], retx := c1.retx ++ [(aid, setDup pkt)] },
              [.write pkt], .cont)
    else if pktType pkt = 6 then
      if !wok then (c, [.write pkt, .dropSlot slot], .exitSocket)
      else ({ c with awaiting := c.awaiting ++ [(aid, slot)], retx := c.retx ++ [(aid, pkt)] }, [.write pkt], .cont)
    else
      if !wok then (c, [.write pkt, .dropSlot slot], .exitSocket)
      else ({ c with awaiting := c.awaiting ++ [(aid, slot)] }, [.write pkt], .cont)
  | .subscribe aid subId pkt slot chan =>
    if !c.sizeOk pkt then (c, [.send slot .errSize, .dropChan chan], .cont)
    else
      let c1 := { c with awaiting := c.awaiting ++ [(aid, slot)], subs := c.subs ++ [(subId, chan)] }
      (c1, [.write pkt], if wok then .cont else .exitSocket)

/-- the dispatch loop of the PUBLISH arm: for each subscription identifier, in order, look the
    subscription up; send if its receiver is alive, otherwise remove the entry. -/
def dispatch (alive : Nat → Bool) (p : PublishRx) : List Nat → List (Nat × Nat) → List (Nat × Nat) × List Eff
  | [], subs => (subs, [])
  | sid :: rest, subs =>
    match lookupFirst sid subs with
    | none => dispatch alive p rest subs
    | some chan =>
      if alive chan then
        let (s', e) := dispatch alive p rest subs
        (s', .deliver chan p :: e)
      else
        let (s', e) := dispatch alive p rest (eraseFirst sid subs)
        (s', .dropChan chan :: e)

/-- complete the waiter registered under `aid`, if any -/
def complete (c : Ctx) (aid : Nat) (p : RxPacket) : Ctx × List Eff :=
  match removeFirst aid c.awaiting with
  | some (slot, rest) => ({ c with awaiting := rest }, [.send slot (.pkt p)])
  | none => (c, [])

/-- `handle_packet`; `alive chan` = the receiving end of that subscription channel still exists -/
def handlePkt (c : Ctx) (alive : Nat → Bool) (p : RxPacket) (wok : Bool) : Ctx × List Eff × Flow :=
  match p with
  | .publish pb =>
    let redelivered := pb.qos = 2 ∧ (pb.packetId.getD 0) ∈ c.inQos2
    let c1 := if pb.qos = 2 ∧ ¬ redelivered then { c with inQos2 := c.inQos2 ++ [pb.packetId.getD 0] } else c
    let (subs', effs) := if redelivered then (c1.subs, []) else dispatch alive pb pb.subIds c1.subs
    let c2 := { c1 with subs := subs' }
    match pb.packetId with
    | none => (c2, effs, .cont)
    | some pid =>
      let ack := ackBytes (if pb.qos = 1 then 0x40 else 0x50) pid
      (c2, effs ++ [.write ack], if wok then .cont else .exitSocket)
  | .disconnect d => (c, [], if d.reason = 0 then .exitOk else .exitDisconnected d)
  | .puback a =>
    let id := actionId 4 a.packetId
    let c1 := { c.bump with retx := eraseFirst id c.retx }
    let (c2, e) := c1.complete id p
    (c2, e, .cont)
  | .pubrec a =>
    let id := actionId 5 a.packetId
    let c0 := if a.reason ≥ 128 then c.bump else c
    let c1 := { c0 with retx := eraseFirst id c0.retx }
    let (c2, e) := c1.complete id p
    (c2, e, .cont)
  | .pubcomp a =>
    let id := actionId 7 a.packetId
    let c1 := { c.bump with retx := eraseFirst id c.retx }
    let (c2, e) := c1.complete id p
    (c2, e, .cont)
  | .pubrel a =>
    let c1 := { c with inQos2 := c.inQos2.filter (· ≠ a.packetId) }
    (c1, [.write (ackBytes 0x70 a.packetId)], if wok then .cont else .exitSocket)
  | .connack _ => (c, [], .cont)
  | .auth _ => (c, [], .cont)
  | .suback a => let (c2, e) := c.complete (actionId 9 a.packetId) p; (c2, e, .cont)
  | .unsuback a => let (c2, e) := c.complete (actionId 11 a.packetId) p; (c2, e, .cont)
  | .pingresp => let (c2, e) := c.complete (actionId 13 0) p; (c2, e, .cont)

/-- `handle_connack` -/
def handleConnack (c : Ctx) (k : ConnackRx) : Ctx :=
  let c1 := match k.sessionExpiry with
    | some n => { c with sei := n }
    | none => c
  let c2 := { c1 with maxPkt := k.maxPacketSize }    -- the limit belongs to the connection (absent = none)
  { c2 with recvMax := k.receiveMax, quota := k.receiveMax }

/-- `session_expired` (after the fix), `elapsed` = seconds since the recorded disconnection -/
def sessionExpired (c : Ctx) (elapsed : Nat) : Bool :=
  if c.sei = 0 then true
  else if c.sei = 4294967295 then false
  else c.sei < (if elapsed > 4294967295 then 4294967295 else elapsed)

/-- `reset_session`: every sender the session owns is dropped -/
def resetSession (c : Ctx) : Ctx × List Eff :=
  ({ c with awaiting := [], subs := [], retx := [], inQos2 := [] },
   c.awaiting.map (fun (_, s) => Eff.dropSlot s) ++ c.subs.map (fun (_, ch) => Eff.dropChan ch))

/-- the prelude of `run()`: `if is_reconnect { if session_expired { reset_session } ; retransmit }`.
    Returns the packets to re-send, in order (each is one `tx.write`). -/
def resume (c : Ctx) : Ctx × List Eff × List Bytes :=
  match c.disc with
  | none => (c, [], [])
  | some elapsed =>
    let (c1, e) := if c.sessionExpired elapsed then c.resetSession else (c, [])
    ({ c1 with disc := none }, e, c1.retx.map (·.2))

end Ctx
end Poster
