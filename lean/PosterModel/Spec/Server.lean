/-
  Spec/Server.lean — an independent *specification encoder* for the MQTT 5 packets a server sends to a client.

  Written from the OASIS standard "MQTT Version 5.0" (section numbers below), NOT from the decoder model:
    §1.5   data representation (Two/Four Byte Integer, UTF-8 Encoded String, Variable Byte Integer, Binary Data,
           UTF-8 String Pair)
    §2.1   fixed header, §2.1.4 Remaining Length, §2.2.2 properties and the type table of §2.2.2.2
    §3.2 CONNACK, §3.3 PUBLISH, §3.4–3.7 PUBACK/PUBREC/PUBREL/PUBCOMP, §3.9 SUBACK, §3.11 UNSUBACK,
    §3.13 PINGRESP, §3.14 DISCONNECT, §3.15 AUTH

  From the model only *data types* are reused: `Bytes`, `Property`/`PVal` (identifier + value), the records the decoder
  returns (`ConnackRx`, … `RxPacket`, for `expected`), and `utf8Valid` as *the* definition of well-formed UTF-8.
  No function of Props.lean / Rx.lean / Tx.lean (`propKind`, `encProp`, `decProp`, reason tables, …) is used.

  Namespace `Poster.Spec`; the tables whose natural names also occur in the client-side specification (Spec/Client.lean:
  type table, property-identifier lists, reason-code lists) live in `Poster.Spec.Server`.

  Everything is executable: `encodeServer` also generates the test packets that are fed to the real implementation.
-/
import PosterModel.Rx

namespace Poster.Spec

/-! ## §1.5 data representation -/

/-- one byte (the argument is meant to be `< 256`) -/
def sU8 (n : Nat) : Bytes := [UInt8.ofNat n]

/-- §1.5.2 Two Byte Integer: big-endian, most significant byte first -/
def sU16 (n : Nat) : Bytes := [UInt8.ofNat (n / 256), UInt8.ofNat n]

/-- §1.5.3 Four Byte Integer: big-endian (`UInt8.ofNat` keeps the low eight bits) -/
def sU32 (n : Nat) : Bytes :=
  [UInt8.ofNat (n / 16777216), UInt8.ofNat (n / 65536), UInt8.ofNat (n / 256), UInt8.ofNat n]

/-- §1.5.5 the encoding algorithm of the standard
    `do { encodedByte = X MOD 128; X = X DIV 128; if X > 0 then encodedByte |= 128; output } while (X > 0)`,
    bounded to the four bytes the standard allows. -/
def sVarLoop : Nat → Nat → Bytes
  | 0, _ => []
  | fuel + 1, x =>
    if x / 128 > 0 then UInt8.ofNat (x % 128 + 128) :: sVarLoop fuel (x / 128) else [UInt8.ofNat (x % 128)]

/-- §1.5.5 Variable Byte Integer, canonical (minimum number of bytes), for values up to 268 435 455 -/
def sVar (n : Nat) : Bytes := sVarLoop 4 n

/-- largest value of a Variable Byte Integer (§1.5.5), hence of Remaining Length (§2.1.4) -/
abbrev varIntMax : Nat := 268435455

/-- §1.5.4 UTF-8 Encoded String / §1.5.6 Binary Data: Two Byte Integer length, then the bytes -/
def sStr (s : Bytes) : Bytes := sU16 s.length ++ s

/-- §1.5.7 UTF-8 String Pair -/
def sPair (k v : Bytes) : Bytes := sStr k ++ sStr v

/-- §1.5.4: a UTF-8 Encoded String has at most 65 535 bytes of well-formed UTF-8 -/
def strOk (s : Bytes) : Bool := decide (s.length ≤ 65535) && utf8Valid s
/-- §1.5.6: Binary Data has at most 65 535 bytes -/
def binOk (s : Bytes) : Bool := decide (s.length ≤ 65535)

/-! ## §2.2.2.2 properties -/

namespace Server

/-- the data types of the property table -/
inductive WireType where
  | byte | twoByte | fourByte | varInt | utf8 | binary | utf8Pair
deriving Repr, DecidableEq

/-- §2.2.2.2, table 2-4: identifier ↦ type -/
def wireType : Nat → Option WireType
  | 1 => some .byte       -- 0x01 Payload Format Indicator
  | 2 => some .fourByte   -- 0x02 Message Expiry Interval
  | 3 => some .utf8       -- 0x03 Content Type
  | 8 => some .utf8       -- 0x08 Response Topic
  | 9 => some .binary     -- 0x09 Correlation Data
  | 11 => some .varInt    -- 0x0B Subscription Identifier
  | 17 => some .fourByte  -- 0x11 Session Expiry Interval
  | 18 => some .utf8      -- 0x12 Assigned Client Identifier
  | 19 => some .twoByte   -- 0x13 Server Keep Alive
  | 21 => some .utf8      -- 0x15 Authentication Method
  | 22 => some .binary    -- 0x16 Authentication Data
  | 23 => some .byte      -- 0x17 Request Problem Information
  | 24 => some .fourByte  -- 0x18 Will Delay Interval
  | 25 => some .byte      -- 0x19 Request Response Information
  | 26 => some .utf8      -- 0x1A Response Information
  | 28 => some .utf8      -- 0x1C Server Reference
  | 31 => some .utf8      -- 0x1F Reason String
  | 33 => some .twoByte   -- 0x21 Receive Maximum
  | 34 => some .twoByte   -- 0x22 Topic Alias Maximum
  | 35 => some .twoByte   -- 0x23 Topic Alias
  | 36 => some .byte      -- 0x24 Maximum QoS
  | 37 => some .byte      -- 0x25 Retain Available
  | 38 => some .utf8Pair  -- 0x26 User Property
  | 39 => some .fourByte  -- 0x27 Maximum Packet Size
  | 40 => some .byte      -- 0x28 Wildcard Subscription Available
  | 41 => some .byte      -- 0x29 Subscription Identifier Available
  | 42 => some .byte      -- 0x2A Shared Subscription Available
  | _ => none

end Server
open Server

/-- the value of a property on the wire, by its type. A Byte is given either as a flag (`.bool`, sent as 0 / 1) or as a
    number (`.num`); the `len` component of `.var` is not transmitted. -/
def sVal : WireType → PVal → Bytes
  | .byte, .bool b => sU8 (if b then 1 else 0)
  | .byte, .num n => sU8 n
  | .twoByte, .num n => sU16 n
  | .fourByte, .num n => sU32 n
  | .varInt, .var v _ => sVar v
  | .utf8, .bytes s => sStr s
  | .binary, .bytes s => sStr s
  | .utf8Pair, .pair k v => sPair k v
  | _, _ => []

/-- §2.2.2.2: a property is its identifier (a Variable Byte Integer; all defined identifiers fit one byte) followed by
    its value -/
def sProp (p : Property) : Bytes :=
  match wireType p.id with
  | some t => sVar p.id ++ sVal t p.val
  | none => []

/-- the properties one after another, in the given (wire) order -/
def sProps : List Property → Bytes
  | [] => []
  | p :: ps => sProp p ++ sProps ps

/-- §2.2.2.1 Property Length (Variable Byte Integer, not counting itself) followed by the properties -/
def propBlock (ps : List Property) : Bytes := sVar (sProps ps).length ++ sProps ps

/-! ### value constraints of the individual properties -/

/-- a Byte restricted to 0 / 1, presented as a flag -/
def isFlag : PVal → Bool
  | .bool _ => true
  | _ => false
/-- an integer in `lo..hi` -/
def isNum (lo hi : Nat) : PVal → Bool
  | .num n => decide (lo ≤ n) && decide (n ≤ hi)
  | _ => false
/-- §3.3.2.3.8 / §3.8.2.1.2 Subscription Identifier: 1 .. 268 435 455 (0 is a Protocol Error); `len` = encoded size -/
def isSubId : PVal → Bool
  | .var v l => decide (1 ≤ v) && decide (v ≤ varIntMax) && decide (l = (sVar v).length)
  | _ => false
def isStr : PVal → Bool
  | .bytes s => strOk s
  | _ => false
def isBin : PVal → Bool
  | .bytes s => binOk s
  | _ => false
def isPair : PVal → Bool
  | .pair k v => strOk k && strOk v
  | _ => false

/-- the value a property identifier admits, from the section describing the property -/
def valOk (id : Nat) (v : PVal) : Bool :=
  match id with
  | 1 => isFlag v                  -- §3.3.2.3.2 Payload Format Indicator: 0 or 1
  | 2 => isNum 0 4294967295 v      -- §3.3.2.3.3 Message Expiry Interval
  | 3 => isStr v                   -- §3.3.2.3.9 Content Type
  | 8 => isStr v                   -- §3.3.2.3.5 Response Topic
  | 9 => isBin v                   -- §3.3.2.3.6 Correlation Data
  | 11 => isSubId v                -- §3.3.2.3.8 Subscription Identifier: 1 .. 268 435 455
  | 17 => isNum 0 4294967295 v     -- §3.2.2.3.2 Session Expiry Interval
  | 18 => isStr v                  -- §3.2.2.3.7 Assigned Client Identifier
  | 19 => isNum 0 65535 v          -- §3.2.2.3.14 Server Keep Alive
  | 21 => isStr v                  -- §3.2.2.3.17 / §3.15.2.2.2 Authentication Method
  | 22 => isBin v                  -- §3.2.2.3.18 / §3.15.2.2.3 Authentication Data
  | 23 => isFlag v                 -- §3.1.2.11.7 Request Problem Information (client only)
  | 24 => isNum 0 4294967295 v     -- §3.1.3.2.2 Will Delay Interval (client only)
  | 25 => isFlag v                 -- §3.1.2.11.6 Request Response Information (client only)
  | 26 => isStr v                  -- §3.2.2.3.15 Response Information
  | 28 => isStr v                  -- §3.2.2.3.16 Server Reference
  | 31 => isStr v                  -- §3.2.2.3.9 Reason String
  | 33 => isNum 1 65535 v          -- §3.2.2.3.3 Receive Maximum: 0 is a Protocol Error
  | 34 => isNum 0 65535 v          -- §3.2.2.3.8 Topic Alias Maximum
  | 35 => isNum 1 65535 v          -- §3.3.2.3.4 Topic Alias: 0 is not permitted
  | 36 => isNum 0 1 v              -- §3.2.2.3.4 Maximum QoS: 0 or 1
  | 37 => isFlag v                 -- §3.2.2.3.5 Retain Available: 0 or 1
  | 38 => isPair v                 -- §3.2.2.3.10 User Property
  | 39 => isNum 1 4294967295 v     -- §3.2.2.3.6 Maximum Packet Size: 0 is a Protocol Error
  | 40 => isFlag v                 -- §3.2.2.3.11 Wildcard Subscription Available
  | 41 => isFlag v                 -- §3.2.2.3.12 Subscription Identifiers Available
  | 42 => isFlag v                 -- §3.2.2.3.13 Shared Subscription Available
  | _ => false

/-! ### which properties a packet type may carry (server to client) -/

namespace Server

/-- §3.2.2.3 -/
def connackPropIds : List Nat := [17, 33, 36, 37, 39, 18, 34, 31, 38, 40, 41, 42, 19, 26, 28, 21, 22]
/-- §3.3.2.3 -/
def publishPropIds : List Nat := [1, 2, 35, 8, 9, 38, 11, 3]
/-- §3.4.2.2, §3.5.2.2, §3.6.2.2, §3.7.2.2 -/
def ackPropIds : List Nat := [31, 38]
/-- §3.9.2.1, §3.11.2.1 -/
def subackPropIds : List Nat := [31, 38]
/-- §3.14.2.2; the Session Expiry Interval MUST NOT be sent on a DISCONNECT by the Server [MQTT-3.14.2-2] -/
def disconnectPropIds : List Nat := [31, 38, 28]
/-- §3.15.2.2 -/
def authPropIds : List Nat := [21, 22, 31, 38]

end Server

/-- every identifier outside `multi` occurs at most once -/
def uniqueExcept (multi : List Nat) : List Property → Bool
  | [] => true
  | p :: ps => (multi.contains p.id || ps.all fun q => q.id != p.id) && uniqueExcept multi ps

/-- a legal property list: only identifiers of `legal`, each with a value it admits, none twice except those in `multi`
    ("It is a Protocol Error to include … more than once"; the User Property may appear multiple times, and so may
    the Subscription Identifier in a PUBLISH the server forwards, §3.3.2.3.8) -/
def propsOk (legal multi : List Nat) (ps : List Property) : Bool :=
  (ps.all fun p => legal.contains p.id && valOk p.id p.val) && uniqueExcept multi ps

/-! ### reason codes per packet type -/

namespace Server

/-- §3.2.2.2 Connect Reason Code -/
def connackReasonCodes : List Nat :=
  [0x00, 0x80, 0x81, 0x82, 0x83, 0x84, 0x85, 0x86, 0x87, 0x88, 0x89, 0x8A, 0x8C, 0x90, 0x95, 0x97, 0x99, 0x9A, 0x9B,
   0x9C, 0x9D, 0x9F]
/-- §3.4.2.1 PUBACK Reason Code -/
def pubackReasonCodes : List Nat := [0x00, 0x10, 0x80, 0x83, 0x87, 0x90, 0x91, 0x97, 0x99]
/-- §3.5.2.1 PUBREC Reason Code -/
def pubrecReasonCodes : List Nat := [0x00, 0x10, 0x80, 0x83, 0x87, 0x90, 0x91, 0x97, 0x99]
/-- §3.6.2.1 PUBREL Reason Code -/
def pubrelReasonCodes : List Nat := [0x00, 0x92]
/-- §3.7.2.1 PUBCOMP Reason Code -/
def pubcompReasonCodes : List Nat := [0x00, 0x92]
/-- §3.9.3 Subscribe Reason Codes -/
def subackReasonCodes : List Nat := [0x00, 0x01, 0x02, 0x80, 0x83, 0x87, 0x8F, 0x91, 0x97, 0x9E, 0xA1, 0xA2]
/-- §3.11.3 Unsubscribe Reason Codes -/
def unsubackReasonCodes : List Nat := [0x00, 0x11, 0x80, 0x83, 0x87, 0x8F, 0x91]
/-- §3.14.2.1 Disconnect Reason Code (the whole table; 0x04 is only ever sent by a client) -/
def disconnectReasonCodes : List Nat :=
  [0x00, 0x04, 0x80, 0x81, 0x82, 0x83, 0x87, 0x89, 0x8B, 0x8D, 0x8E, 0x8F, 0x90, 0x93, 0x94, 0x95, 0x96, 0x97, 0x98,
   0x99, 0x9A, 0x9B, 0x9C, 0x9D, 0x9E, 0x9F, 0xA0, 0xA1, 0xA2]
/-- §3.15.2.1 Authenticate Reason Code (the whole table; 0x19 is only ever sent by a client) -/
def authReasonCodes : List Nat := [0x00, 0x18, 0x19]

end Server

/-! ## packets -/

/-- §3.4.2.1: "The Reason Code and Property Length can be omitted if the Reason Code is 0x00 (Success) and there are no
    Properties. In this case the PUBACK has a Remaining Length of 2." / §3.4.2.2.1: "If the Remaining Length is less
    than 4 there is no Property Length and the value of 0 is used." (same for PUBREC, PUBREL, PUBCOMP) -/
inductive AckForm where
  | full        -- identifier, reason code, property length, properties   (remaining length ≥ 4)
  | reasonOnly  -- identifier, reason code                                (remaining length 3)
  | idOnly      -- identifier                                             (remaining length 2)
deriving Repr, DecidableEq

/-- §3.14.2.1: reason code and property length can be omitted if the reason is 0x00 and there are no properties
    (remaining length 0); §3.14.2.2.1: with a remaining length less than 2 the property length is taken as 0. -/
inductive DiscForm where
  | full | reasonOnly | empty
deriving Repr, DecidableEq

/-- §3.15.2.1: "The Reason Code and Property Length can be omitted if the Reason Code is 0x00 (Success) and there are
    no Properties. In this case the AUTH has a Remaining Length of 0." -/
inductive AuthForm where
  | full | empty
deriving Repr, DecidableEq

/-- what a server may send, with standard-level fields; `props` is in wire order -/
inductive ServerPacket where
  /-- §3.2: Connect Acknowledge Flags byte, Connect Reason Code, properties -/
  | connack (flags reason : Nat) (props : List Property)
  /-- §3.3: DUP, QoS, RETAIN, Topic Name, Packet Identifier (QoS > 0 only), properties, Application Message -/
  | publish (dup : Bool) (qos : Nat) (retain : Bool) (topic : Bytes) (pid : Option Nat) (props : List Property)
      (payload : Bytes)
  /-- §3.4 -/
  | puback (form : AckForm) (pid reason : Nat) (props : List Property)
  /-- §3.5 -/
  | pubrec (form : AckForm) (pid reason : Nat) (props : List Property)
  /-- §3.6 -/
  | pubrel (form : AckForm) (pid reason : Nat) (props : List Property)
  /-- §3.7 -/
  | pubcomp (form : AckForm) (pid reason : Nat) (props : List Property)
  /-- §3.9: Packet Identifier, properties, one reason code per Topic Filter -/
  | suback (pid : Nat) (props : List Property) (reasons : List Nat)
  /-- §3.11 -/
  | unsuback (pid : Nat) (props : List Property) (reasons : List Nat)
  /-- §3.13 -/
  | pingresp
  /-- §3.14 -/
  | disconnect (form : DiscForm) (reason : Nat) (props : List Property)
  /-- §3.15 -/
  | auth (form : AuthForm) (reason : Nat) (props : List Property)
deriving Repr, DecidableEq

/-- variable header (+ payload) of the acknowledgement family -/
def ackBody : AckForm → Nat → Nat → List Property → Bytes
  | .full, pid, reason, props => sU16 pid ++ sU8 reason ++ propBlock props
  | .reasonOnly, pid, reason, _ => sU16 pid ++ sU8 reason
  | .idOnly, pid, _, _ => sU16 pid

/-- first byte of the fixed header: packet type in bits 7–4, flags in bits 3–0 (§2.1.2, §2.1.3) -/
def header : ServerPacket → Nat
  | .connack .. => 0x20
  | .publish dup qos retain .. => 0x30 + (if dup then 8 else 0) + 2 * qos + (if retain then 1 else 0)
  | .puback .. => 0x40
  | .pubrec .. => 0x50
  | .pubrel .. => 0x62     -- reserved flag bits 0010
  | .pubcomp .. => 0x70
  | .suback .. => 0x90
  | .unsuback .. => 0xB0
  | .pingresp => 0xD0
  | .disconnect .. => 0xE0
  | .auth .. => 0xF0

/-- everything after the fixed header: variable header and payload -/
def body : ServerPacket → Bytes
  | .connack flags reason props => sU8 flags ++ sU8 reason ++ propBlock props
  | .publish _ _ _ topic pid props payload =>
    sStr topic ++ (match pid with | some i => sU16 i | none => []) ++ propBlock props ++ payload
  | .puback f pid reason props => ackBody f pid reason props
  | .pubrec f pid reason props => ackBody f pid reason props
  | .pubrel f pid reason props => ackBody f pid reason props
  | .pubcomp f pid reason props => ackBody f pid reason props
  | .suback pid props reasons => sU16 pid ++ propBlock props ++ reasons.map UInt8.ofNat
  | .unsuback pid props reasons => sU16 pid ++ propBlock props ++ reasons.map UInt8.ofNat
  | .pingresp => []
  | .disconnect .full reason props => sU8 reason ++ propBlock props
  | .disconnect .reasonOnly reason _ => sU8 reason
  | .disconnect .empty _ _ => []
  | .auth .full reason props => sU8 reason ++ propBlock props
  | .auth .empty _ _ => []

/-- fixed header (§2.1: first byte, canonical Remaining Length) followed by the body -/
def frame (hdr : Nat) (body : Bytes) : Bytes := sU8 hdr ++ sVar body.length ++ body

/-- **the specification encoder** -/
def encodeServer (p : ServerPacket) : Bytes := frame (header p) (body p)

/-! ## well-formedness -/

/-- Packet Identifier: a non-zero Two Byte Integer (§2.2.1) -/
def pidOk (pid : Nat) : Bool := decide (1 ≤ pid) && decide (pid ≤ 65535)

/-- the acknowledgement family: identifier, reason code of the type's table, the form matching the content -/
def ackOk (reasons : List Nat) (form : AckForm) (pid reason : Nat) (props : List Property) : Bool :=
  pidOk pid && reasons.contains reason &&
  match form with
  | .full => propsOk ackPropIds [38] props
  | .reasonOnly => props.isEmpty
  | .idOnly => reason == 0 && props.isEmpty

/-- Well-formedness of a server packet, as a `Bool`.

    Constraints of the standard that concern neither the wire format nor any value the client exposes are deliberately
    *not* demanded (so the theorems cover a superset of the standard's packets): no U+0000 in strings, no wildcards in a
    Topic Name / Response Topic, an empty Topic Name only together with a Topic Alias, DUP = 0 for QoS 0, Session Present = 0
    with a non-zero reason, at least one reason code in SUBACK / UNSUBACK, reason codes only a client sends. -/
def wf (p : ServerPacket) : Bool :=
  decide ((body p).length ≤ varIntMax) &&
  match p with
  | .connack flags reason props =>
    -- §3.2.2.1: bits 7-1 reserved and 0, bit 0 Session Present; §3.2.2.2; §3.2.2.3
    decide (flags ≤ 1) && connackReasonCodes.contains reason && propsOk connackPropIds [38] props
  | .publish _ qos _ topic pid props _ =>
    -- §3.3.1.2 QoS 0..2 (both bits set is malformed); §3.3.2.2 identifier only for QoS 1 and 2; §3.3.2.3
    decide (qos ≤ 2) && strOk topic &&
    (match pid with
     | some i => decide (qos > 0) && pidOk i
     | none => decide (qos = 0)) &&
    propsOk publishPropIds [38, 11] props
  | .puback f pid reason props => ackOk pubackReasonCodes f pid reason props
  | .pubrec f pid reason props => ackOk pubrecReasonCodes f pid reason props
  | .pubrel f pid reason props => ackOk pubrelReasonCodes f pid reason props
  | .pubcomp f pid reason props => ackOk pubcompReasonCodes f pid reason props
  | .suback pid props reasons =>
    pidOk pid && propsOk subackPropIds [38] props && reasons.all subackReasonCodes.contains
  | .unsuback pid props reasons =>
    pidOk pid && propsOk subackPropIds [38] props && reasons.all unsubackReasonCodes.contains
  | .pingresp => true
  | .disconnect form reason props =>
    disconnectReasonCodes.contains reason &&
    (match form with
     | .full => propsOk disconnectPropIds [38] props
     | .reasonOnly => props.isEmpty
     | .empty => reason == 0 && props.isEmpty)
  | .auth form reason props =>
    authReasonCodes.contains reason &&
    (match form with
     -- §3.15.2.2.2: "It is a Protocol Error to omit the Authentication Method"
     | .full => propsOk authPropIds [38] props && props.any fun q => q.id == 21
     | .empty => reason == 0 && props.isEmpty)

/-- **Well-formed server packets.** -/
def WF (p : ServerPacket) : Prop := wf p = true

instance : DecidablePred WF := fun p => inferInstanceAs (Decidable (wf p = true))

/-! ## the values the client should expose -/

/-- first value with the identifier -/
def find (id : Nat) : List Property → Option PVal
  | [] => none
  | p :: ps => if p.id = id then some p.val else find id ps

def getBool (id : Nat) (ps : List Property) : Option Bool :=
  match find id ps with
  | some (.bool b) => some b
  | _ => none
def getNum (id : Nat) (ps : List Property) : Option Nat :=
  match find id ps with
  | some (.num n) => some n
  | _ => none
def getBytes (id : Nat) (ps : List Property) : Option Bytes :=
  match find id ps with
  | some (.bytes s) => some s
  | _ => none

/-- all User Properties, in wire order -/
def users : List Property → List (Bytes × Bytes)
  | [] => []
  | p :: ps =>
    match p.val with
    | .pair k v => if p.id = 38 then (k, v) :: users ps else users ps
    | _ => users ps

/-- all Subscription Identifiers, in wire order -/
def subIds : List Property → List Nat
  | [] => []
  | p :: ps =>
    match p.val with
    | .var v _ => if p.id = 11 then v :: subIds ps else subIds ps
    | _ => subIds ps

def expectedAck (pid reason : Nat) (props : List Property) : AckRx :=
  { packetId := pid, reason := reason, reasonString := getBytes 31 props, userProps := users props }

def expectedSuback (pid : Nat) (props : List Property) (reasons : List Nat) : SubackRx :=
  { packetId := pid, reasonString := getBytes 31 props, userProps := users props, payload := reasons }

/-- The record the client should hold after decoding: every field read from the packet, the standard's default where a
    property is absent (§3.2.2.3.3 Receive Maximum 65 535, §3.2.2.3.8 Topic Alias Maximum 0, §3.2.2.3.4 Maximum QoS 2,
    §3.2.2.3.5/11/12/13 the four "available" flags true, §3.14.2.2.2 Session Expiry Interval 0 — never present in a
    server DISCONNECT), `none` for absent optional values, user properties and subscription identifiers in wire order.
    (In the short forms the untransmitted reason is 0 and there are no properties — `WF` demands exactly that.) -/
def expected : ServerPacket → RxPacket
  | .connack flags reason props => .connack
      { sessionPresent := flags == 1
        reason := reason
        wildcardSubAvail := (getBool 40 props).getD true
        subIdAvail := (getBool 41 props).getD true
        sharedSubAvail := (getBool 42 props).getD true
        maxQos := (getNum 36 props).getD 2
        retainAvail := (getBool 37 props).getD true
        serverKeepAlive := getNum 19 props
        receiveMax := (getNum 33 props).getD 65535
        topicAliasMax := (getNum 34 props).getD 0
        sessionExpiry := getNum 17 props
        maxPacketSize := getNum 39 props
        authData := getBytes 22 props
        assignedClientId := getBytes 18 props
        reasonString := getBytes 31 props
        responseInfo := getBytes 26 props
        serverReference := getBytes 28 props
        authMethod := getBytes 21 props
        userProps := users props }
  | .publish dup qos retain topic pid props payload => .publish
      { dup := dup, retain := retain, qos := qos, topic := topic, packetId := pid
        pfi := getBool 1 props
        topicAlias := getNum 35 props
        mei := getNum 2 props
        subIds := subIds props
        correlationData := getBytes 9 props
        responseTopic := getBytes 8 props
        contentType := getBytes 3 props
        userProps := users props
        payload := payload }
  | .puback _ pid reason props => .puback (expectedAck pid reason props)
  | .pubrec _ pid reason props => .pubrec (expectedAck pid reason props)
  | .pubrel _ pid reason props => .pubrel (expectedAck pid reason props)
  | .pubcomp _ pid reason props => .pubcomp (expectedAck pid reason props)
  | .suback pid props reasons => .suback (expectedSuback pid props reasons)
  | .unsuback pid props reasons => .unsuback (expectedSuback pid props reasons)
  | .pingresp => .pingresp
  | .disconnect _ reason props => .disconnect
      { reason := reason
        sessionExpiry := (getNum 17 props).getD 0
        reasonString := getBytes 31 props
        serverReference := getBytes 28 props
        userProps := users props }
  | .auth _ reason props => .auth
      { reason := reason
        authMethod := getBytes 21 props
        authData := getBytes 22 props
        reasonString := getBytes 31 props
        userProps := users props }

end Poster.Spec
