/-
  Spec/Client.lean — an independent MQTT 5 parser for the packets a *client* sends to a server.

  Written from the OASIS standard "MQTT Version 5.0" (sections 1.5 data representation, 2.1 fixed header,
  2.2 variable header / properties, 3.1 CONNECT, 3.3 PUBLISH, 3.4–3.7 PUBACK / PUBREC / PUBREL / PUBCOMP,
  3.8 SUBSCRIBE, 3.10 UNSUBSCRIBE, 3.12 PINGREQ, 3.14 DISCONNECT, 3.15 AUTH), *not* from the model of the
  implementation. From `Props.lean` only the data types `Property` / `PVal` are borrowed to represent a parsed
  property; none of the functions of `Prim` / `Props` / `Tx` is used.

  `parseClient bs` accepts exactly one well-formed control packet at the front of `bs` and returns it together
  with the bytes that follow it. Everything is a total, executable `def` (structural or fuel recursion).

  Deliberately out of scope (documented, not checked): well-formedness of the UTF-8 inside strings
  (strings are length-prefixed byte sequences here), wildcard / topic-name syntax, and session-level rules
  (e.g. "a packet identifier is not in use", Maximum Packet Size announced by the peer).
-/
import PosterModel.Props

namespace Poster.Spec

/-- a parser: consumes a prefix of the input, returns the value and the remaining bytes -/
abbrev P (α : Type) := Bytes → Option (α × Bytes)

/-! ## §1.5 data representation -/

/-- one byte -/
def pU8 : P Nat
  | b :: r => some (b.toNat, r)
  | [] => none

/-- §1.5.2 Two Byte Integer, big-endian -/
def pU16 : P Nat
  | a :: b :: r => some (a.toNat * 256 + b.toNat, r)
  | _ => none

/-- §1.5.3 Four Byte Integer, big-endian -/
def pU32 : P Nat
  | a :: b :: c :: d :: r => some (((a.toNat * 256 + b.toNat) * 256 + c.toNat) * 256 + d.toNat, r)
  | _ => none

/-- §1.5.5 Variable Byte Integer: 7 bits per byte, least significant group first, bit 7 = "more follows",
    at most four bytes, and the minimum number of bytes MUST be used [MQTT-1.5.5-1] (so a final byte of 0 is
    only allowed when it is the only byte). `idx` = number of bytes already consumed. -/
def pVarAux : Nat → Nat → Nat → P Nat
  | _, _, _, [] => none
  | idx, mult, acc, b :: rest =>
    if idx ≥ 4 then none else
    let acc' := acc + (b.toNat % 128) * mult
    if b.toNat < 128 then
      (if idx ≠ 0 ∧ b.toNat = 0 then none else some (acc', rest))
    else pVarAux (idx + 1) (mult * 128) acc' rest

def pVar : P Nat := pVarAux 0 1 0

/-- number of bytes of the (minimal) Variable Byte Integer encoding of `n` (§1.5.5, table 1-1) -/
def varSize (n : Nat) : Nat :=
  if n < 128 then 1 else if n < 16384 then 2 else if n < 2097152 then 3 else 4

/-- §1.5.6 Binary Data: Two Byte Integer length, then that many bytes -/
def pBin : P Bytes := fun bs =>
  match pU16 bs with
  | some (n, r) => if n ≤ r.length then some (r.take n, r.drop n) else none
  | none => none

/-- §1.5.4 UTF-8 Encoded String: Two Byte Integer length, then that many bytes
    (the UTF-8 well-formedness of the content is out of scope, see the header). -/
def pStr : P Bytes := pBin

/-- items one after another until the block is used up exactly (fuel: every item consumes ≥ 1 byte, so
    `bs.length` steps suffice; an item parser that consumes nothing runs out of fuel and fails). -/
def pManyAux {α} (p : P α) : Nat → Bytes → Option (List α)
  | _, [] => some []
  | 0, _ :: _ => none
  | f + 1, b :: bs =>
    match p (b :: bs) with
    | some (a, r) => (pManyAux p f r).map (a :: ·)
    | none => none

def pMany {α} (p : P α) (bs : Bytes) : Option (List α) := pManyAux p bs.length bs

/-! ## §2.2.2 properties -/

/-- the data types of table 2-4 -/
inductive PType where
  | byte | u16 | u32 | varint | str | bin | pair
deriving Repr, DecidableEq

/-- §2.2.2.2, table 2-4: identifier ↦ data type (`none`: not a property identifier) -/
def propType : Nat → Option PType
  | 1 => some .byte      -- 0x01 Payload Format Indicator
  | 2 => some .u32       -- 0x02 Message Expiry Interval
  | 3 => some .str       -- 0x03 Content Type
  | 8 => some .str       -- 0x08 Response Topic
  | 9 => some .bin       -- 0x09 Correlation Data
  | 11 => some .varint   -- 0x0B Subscription Identifier
  | 17 => some .u32      -- 0x11 Session Expiry Interval
  | 18 => some .str      -- 0x12 Assigned Client Identifier
  | 19 => some .u16      -- 0x13 Server Keep Alive
  | 21 => some .str      -- 0x15 Authentication Method
  | 22 => some .bin      -- 0x16 Authentication Data
  | 23 => some .byte     -- 0x17 Request Problem Information
  | 24 => some .u32      -- 0x18 Will Delay Interval
  | 25 => some .byte     -- 0x19 Request Response Information
  | 26 => some .str      -- 0x1A Response Information
  | 28 => some .str      -- 0x1C Server Reference
  | 31 => some .str      -- 0x1F Reason String
  | 33 => some .u16      -- 0x21 Receive Maximum
  | 34 => some .u16      -- 0x22 Topic Alias Maximum
  | 35 => some .u16      -- 0x23 Topic Alias
  | 36 => some .byte     -- 0x24 Maximum QoS
  | 37 => some .byte     -- 0x25 Retain Available
  | 38 => some .pair     -- 0x26 User Property
  | 39 => some .u32      -- 0x27 Maximum Packet Size
  | 40 => some .byte     -- 0x28 Wildcard Subscription Available
  | 41 => some .byte     -- 0x29 Subscription Identifier Available
  | 42 => some .byte     -- 0x2A Shared Subscription Available
  | _ => none

/-- properties whose value 0 is a Protocol Error: Subscription Identifier (§3.8.2.1.2), Receive Maximum
    (§3.1.2.11.3), Topic Alias (§3.3.2.3.4), Maximum Packet Size (§3.1.2.11.4) -/
def nonZeroProp (id : Nat) : Bool := id == 11 || id == 33 || id == 35 || id == 39

/-- One property: identifier (a Variable Byte Integer, §2.2.2.2), then the value by table 2-4.
    Every Byte-typed property of MQTT 5 only admits the values 0 and 1; all of them are flags and are
    represented as `.bool`, except Maximum QoS (36) which is a number. A Variable Byte Integer value is
    represented with its (minimal) encoded size. -/
def pProp : P Property := fun bs =>
  match pVar bs with
  | none => none
  | some (id, r) =>
    match propType id with
    | none => none
    | some .byte =>
      match pU8 r with
      | some (n, r') =>
        if n > 1 then none
        else some (⟨id, if id = 36 then .num n else .bool (n == 1)⟩, r')
      | none => none
    | some .u16 =>
      match pU16 r with
      | some (n, r') => if nonZeroProp id && n == 0 then none else some (⟨id, .num n⟩, r')
      | none => none
    | some .u32 =>
      match pU32 r with
      | some (n, r') => if nonZeroProp id && n == 0 then none else some (⟨id, .num n⟩, r')
      | none => none
    | some .varint =>
      match pVar r with
      | some (n, r') => if nonZeroProp id && n == 0 then none else some (⟨id, .var n (varSize n)⟩, r')
      | none => none
    | some .str =>
      match pStr r with
      | some (s, r') => some (⟨id, .bytes s⟩, r')
      | none => none
    | some .bin =>
      match pBin r with
      | some (s, r') => some (⟨id, .bytes s⟩, r')
      | none => none
    | some .pair =>
      match pStr r with
      | some (k, r') =>
        match pStr r' with
        | some (v, r'') => some (⟨id, .pair k v⟩, r'')
        | none => none
      | none => none

/-- the properties in a block of exactly these bytes, in wire order -/
def parseProps (bs : Bytes) : Option (List Property) := pMany pProp bs

/-- §2.2.2.1 Property Length (Variable Byte Integer) followed by exactly that many bytes of properties -/
def pPropBlock : P (List Property) := fun bs =>
  match pVar bs with
  | none => none
  | some (n, r) =>
    if r.length < n then none else
    match parseProps (r.take n) with
    | none => none
    | some ps => some (ps, r.drop n)

/-- number of properties with identifier `id` -/
def countId (id : Nat) : List Property → Nat
  | [] => 0
  | p :: ps => (if p.id = id then 1 else 0) + countId id ps

def hasId (id : Nat) (ps : List Property) : Bool := countId id ps != 0

/-- every property is one of those the packet type allows, and only User Property (38) may occur more than
    once ("It is a Protocol Error to include … more than once", stated for each property in §3.x.2.x). -/
def propsLegal (allowed : List Nat) (ps : List Property) : Bool :=
  ps.all fun p => allowed.contains p.id && (p.id == 38 || countId p.id ps == 1)

/-! ## packets -/

/-- §3.1.3.2–3.1.3.4 and the will bits of the Connect Flags -/
structure Will where
  qos : Nat
  retain : Bool
  props : List Property
  topic : Bytes
  payload : Bytes
deriving Repr, DecidableEq

/-- §3.8.3: a topic filter and the four fields of its Subscription Options byte -/
structure SubFilter where
  filter : Bytes
  maxQos : Nat
  noLocal : Bool
  retainAsPublished : Bool
  retainHandling : Nat
deriving Repr, DecidableEq

/-- the control packets a client may send, with standard-level fields -/
inductive ClientPacket where
  | connect (cleanStart : Bool) (keepAlive : Nat) (props : List Property) (clientId : Bytes)
      (will : Option Will) (username : Option Bytes) (password : Option Bytes)
  | publish (dup : Bool) (qos : Nat) (retain : Bool) (topic : Bytes) (packetId : Option Nat)
      (props : List Property) (payload : Bytes)
  | puback (packetId : Nat) (reason : Nat) (props : List Property)
  | pubrec (packetId : Nat) (reason : Nat) (props : List Property)
  | pubrel (packetId : Nat) (reason : Nat) (props : List Property)
  | pubcomp (packetId : Nat) (reason : Nat) (props : List Property)
  | subscribe (packetId : Nat) (props : List Property) (filters : List SubFilter)
  | unsubscribe (packetId : Nat) (props : List Property) (filters : List Bytes)
  | pingreq
  | disconnect (reason : Nat) (props : List Property)
  | auth (reason : Nat) (props : List Property)
deriving Repr, DecidableEq

/-! ### reason codes (the tables of §3.4.2.1, §3.5.2.1, §3.6.2.1, §3.7.2.1, §3.14.2.1, §3.15.2.1) -/

/-- PUBACK and PUBREC -/
def pubackReasons : List Nat := [0x00, 0x10, 0x80, 0x83, 0x87, 0x90, 0x91, 0x97, 0x99]
/-- PUBREL and PUBCOMP -/
def pubrelReasons : List Nat := [0x00, 0x92]
/-- DISCONNECT (the whole table; the "sent by" column is not enforced) -/
def disconnectReasons : List Nat :=
  [0x00, 0x04, 0x80, 0x81, 0x82, 0x83, 0x87, 0x89, 0x8B, 0x8D, 0x8E, 0x8F, 0x90, 0x93, 0x94, 0x95, 0x96, 0x97,
   0x98, 0x99, 0x9A, 0x9B, 0x9C, 0x9D, 0x9E, 0x9F, 0xA0, 0xA1, 0xA2]
/-- AUTH -/
def authReasons : List Nat := [0x00, 0x18, 0x19]

/-! ### properties allowed per packet (client to server) -/

/-- §3.1.2.11 -/
def connectPropIds : List Nat := [17, 33, 39, 34, 25, 23, 38, 21, 22]
/-- §3.1.3.2 -/
def willPropIds : List Nat := [24, 1, 2, 3, 8, 9, 38]
/-- §3.3.2.3; a Client MUST NOT send a Subscription Identifier in PUBLISH [MQTT-3.3.4-6] -/
def publishPropIds : List Nat := [1, 2, 35, 8, 9, 38, 3]
/-- §3.4.2.2, §3.5.2.2, §3.6.2.2, §3.7.2.2 -/
def ackPropIds : List Nat := [31, 38]
/-- §3.8.2.1 -/
def subscribePropIds : List Nat := [11, 38]
/-- §3.10.2.1 -/
def unsubscribePropIds : List Nat := [38]
/-- §3.14.2.2 -/
def disconnectPropIds : List Nat := [17, 31, 38, 28]
/-- §3.15.2.2 -/
def authPropIds : List Nat := [21, 22, 31, 38]

/-! ### §3.1 CONNECT -/

/-- the will block of the CONNECT payload (§3.1.3.2–3.1.3.4), present iff the Will Flag is set -/
def pWill (willFlag : Bool) (qos : Nat) (retain : Bool) : P (Option Will) := fun b =>
  if willFlag then
    match pPropBlock b with
    | none => none
    | some (wp, b1) =>
      if !propsLegal willPropIds wp then none else
      match pStr b1 with
      | none => none
      | some (topic, b2) =>
        match pBin b2 with
        | none => none
        | some (payload, b3) =>
          some (some { qos := qos, retain := retain, props := wp, topic := topic, payload := payload }, b3)
  else some (none, b)

/-- a field that is present iff its flag is set -/
def pOptStr (flag : Bool) : P (Option Bytes) := fun b =>
  if flag then
    match pStr b with
    | some (s, r) => some (some s, r)
    | none => none
  else some (none, b)

def parseConnect (body : Bytes) : Option ClientPacket :=
  -- §3.1.2.1 protocol name "MQTT"
  match pStr body with
  | none => none
  | some (name, b1) =>
  if name ≠ [77, 81, 84, 84] then none else
  -- §3.1.2.2 protocol version 5
  match pU8 b1 with
  | none => none
  | some (ver, b2) =>
  if ver ≠ 5 then none else
  -- §3.1.2.3 connect flags
  match pU8 b2 with
  | none => none
  | some (fl, b3) =>
  let willFlag : Bool := fl / 4 % 2 == 1
  let willQos := fl / 8 % 4
  let willRetain : Bool := fl / 32 % 2 == 1
  if fl % 2 ≠ 0 then none else                                        -- reserved bit [MQTT-3.1.2-3]
  if willQos = 3 then none else                                       -- [MQTT-3.1.2-12]
  if !willFlag && (willQos ≠ 0 || willRetain) then none else          -- [MQTT-3.1.2-11], [MQTT-3.1.2-13]
  -- §3.1.2.10 keep alive
  match pU16 b3 with
  | none => none
  | some (keepAlive, b4) =>
  -- §3.1.2.11 properties
  match pPropBlock b4 with
  | none => none
  | some (props, b5) =>
  if !propsLegal connectPropIds props then none else
  if hasId 22 props && !hasId 21 props then none else                 -- auth data needs a method (§3.1.2.11.10)
  -- §3.1.3 payload: client identifier, will, user name, password
  match pStr b5 with
  | none => none
  | some (clientId, b6) =>
  match pWill willFlag willQos willRetain b6 with
  | none => none
  | some (will, b7) =>
  match pOptStr (fl / 128 % 2 == 1) b7 with
  | none => none
  | some (username, b8) =>
  match pOptStr (fl / 64 % 2 == 1) b8 with                            -- password is Binary Data; same layout
  | none => none
  | some (password, b9) =>
  if b9 ≠ [] then none else
  some (.connect (fl / 2 % 2 == 1) keepAlive props clientId will username password)

/-! ### §3.3 PUBLISH -/

/-- a non-zero packet identifier (§2.2.1) -/
def pPacketId : P Nat := fun b =>
  match pU16 b with
  | some (p, r) => if p = 0 then none else some (p, r)
  | none => none

def parsePublish (flags : Nat) (body : Bytes) : Option ClientPacket :=
  let dup : Bool := flags / 8 % 2 == 1
  let qos := flags / 2 % 4
  let retain : Bool := flags % 2 == 1
  if qos = 3 then none else                                           -- [MQTT-3.3.1-4]
  if qos = 0 && dup then none else                                    -- [MQTT-3.3.1-2]
  match pStr body with
  | none => none
  | some (topic, b1) =>
  -- §3.3.2.2 packet identifier only for QoS 1 and 2
  match (if qos = 0 then some (none, b1) else
          match pPacketId b1 with
          | some (p, r) => some (some p, r)
          | none => none : Option (Option Nat × Bytes)) with
  | none => none
  | some (packetId, b2) =>
  match pPropBlock b2 with
  | none => none
  | some (props, payload) =>
  if !propsLegal publishPropIds props then none else
  some (.publish dup qos retain topic packetId props payload)

/-! ### §3.4–3.7 PUBACK, PUBREC, PUBREL, PUBCOMP -/

/-- packet identifier, then optionally a reason code (absent: 0), then optionally properties (absent: none);
    remaining length 2 and 3 are the shortened forms (§3.4.2.1, §3.4.2.2.1) -/
def parseAckBody (reasons : List Nat) (body : Bytes) : Option (Nat × Nat × List Property) :=
  match pPacketId body with
  | none => none
  | some (pid, b1) =>
  if b1 = [] then some (pid, 0, []) else
  match pU8 b1 with
  | none => none
  | some (rc, b2) =>
  if !reasons.contains rc then none else
  if b2 = [] then some (pid, rc, []) else
  match pPropBlock b2 with
  | none => none
  | some (props, b3) =>
  if !propsLegal ackPropIds props then none else
  if b3 ≠ [] then none else
  some (pid, rc, props)

/-! ### §3.8 SUBSCRIBE -/

/-- topic filter and subscription options byte: bits 0-1 maximum QoS (≠ 3), bit 2 No Local, bit 3 Retain As
    Published, bits 4-5 Retain Handling (≠ 3), bits 6-7 reserved (0) [MQTT-3.8.3-5] -/
def pSubFilter : P SubFilter := fun b =>
  match pStr b with
  | none => none
  | some (filter, b1) =>
  match pU8 b1 with
  | none => none
  | some (o, b2) =>
  if o / 64 ≠ 0 then none else
  if o % 4 = 3 then none else
  if o / 16 % 4 = 3 then none else
  some ({ filter := filter, maxQos := o % 4, noLocal := o / 4 % 2 == 1, retainAsPublished := o / 8 % 2 == 1,
          retainHandling := o / 16 % 4 }, b2)

def parseSubscribe (body : Bytes) : Option ClientPacket :=
  match pPacketId body with
  | none => none
  | some (pid, b1) =>
  match pPropBlock b1 with
  | none => none
  | some (props, b2) =>
  if !propsLegal subscribePropIds props then none else
  match pMany pSubFilter b2 with
  | none => none
  | some filters =>
  if filters = [] then none else                                      -- [MQTT-3.8.3-2]
  some (.subscribe pid props filters)

/-! ### §3.10 UNSUBSCRIBE -/

def parseUnsubscribe (body : Bytes) : Option ClientPacket :=
  match pPacketId body with
  | none => none
  | some (pid, b1) =>
  match pPropBlock b1 with
  | none => none
  | some (props, b2) =>
  if !propsLegal unsubscribePropIds props then none else
  match pMany pStr b2 with
  | none => none
  | some filters =>
  if filters = [] then none else                                      -- [MQTT-3.10.3-2]
  some (.unsubscribe pid props filters)

/-! ### §3.14 DISCONNECT and §3.15 AUTH -/

/-- reason code, then properties; remaining length 0 means reason 0 and no properties, remaining length 1
    means no properties (§3.14.2.1, §3.14.2.2.1; §3.15.2.1, §3.15.2.2.1) -/
def parseReasonProps (reasons allowed : List Nat) (body : Bytes) : Option (Nat × List Property) :=
  if body = [] then some (0, []) else
  match pU8 body with
  | none => none
  | some (rc, b1) =>
  if !reasons.contains rc then none else
  if b1 = [] then some (rc, []) else
  match pPropBlock b1 with
  | none => none
  | some (props, b2) =>
  if !propsLegal allowed props then none else
  if b2 ≠ [] then none else
  some (rc, props)

def parseDisconnect (body : Bytes) : Option ClientPacket :=
  match parseReasonProps disconnectReasons disconnectPropIds body with
  | none => none
  | some (rc, props) => some (.disconnect rc props)

/-- in the full form the Authentication Method is mandatory, and data needs a method (§3.15.2.2.2-3) -/
def parseAuth (body : Bytes) : Option ClientPacket :=
  match parseReasonProps authReasons authPropIds body with
  | none => none
  | some (rc, props) =>
    if body ≠ [] && !hasId 21 props then none else
    some (.auth rc props)

/-! ### §2.1 fixed header -/

/-- dispatch on the packet type (bits 7-4 of byte 1), with the flag bits (bits 3-0) that table 2-2 reserves:
    0 for CONNECT, the acknowledgements other than PUBREL, PINGREQ, DISCONNECT and AUTH; 0b0010 for PUBREL,
    SUBSCRIBE and UNSUBSCRIBE; DUP/QoS/RETAIN for PUBLISH. Types 0, 2, 9, 11, 13 are reserved or sent only by
    a server. `body` is exactly the Remaining Length bytes. -/
def parseBody (type flags : Nat) (body : Bytes) : Option ClientPacket :=
  match type with
  | 1 => if flags = 0 then parseConnect body else none
  | 3 => parsePublish flags body
  | 4 => if flags = 0 then (parseAckBody pubackReasons body).map fun (p, r, ps) => .puback p r ps else none
  | 5 => if flags = 0 then (parseAckBody pubackReasons body).map fun (p, r, ps) => .pubrec p r ps else none
  | 6 => if flags = 2 then (parseAckBody pubrelReasons body).map fun (p, r, ps) => .pubrel p r ps else none
  | 7 => if flags = 0 then (parseAckBody pubrelReasons body).map fun (p, r, ps) => .pubcomp p r ps else none
  | 8 => if flags = 2 then parseSubscribe body else none
  | 10 => if flags = 2 then parseUnsubscribe body else none
  | 12 => if flags = 0 ∧ body = [] then some .pingreq else none
  | 14 => if flags = 0 then parseDisconnect body else none
  | 15 => if flags = 0 then parseAuth body else none
  | _ => none

/-- One control packet: byte 1 (type and flags), the Remaining Length (§2.1.4), exactly that many bytes of
    variable header and payload — which the packet's parser must use up completely — and whatever follows. -/
def parseClient (bs : Bytes) : Option (ClientPacket × Bytes) :=
  match bs with
  | [] => none
  | h :: r0 =>
    match pVar r0 with
    | none => none
    | some (rem, r1) =>
      if r1.length < rem then none else
      match parseBody (h.toNat / 16) (h.toNat % 16) (r1.take rem) with
      | none => none
      | some pkt => some (pkt, r1.drop rem)

end Poster.Spec
