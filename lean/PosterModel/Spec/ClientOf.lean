/-
  Spec/ClientOf.lean — for every request record of the client model (`Tx.lean`):

    * `Spec.ofX t`   : the packet a standard decoder is expected to see — every caller-supplied value, the
                       protocol constants, the library-assigned identifiers, and nothing else. Properties are a
                       list in a fixed order (the order the library writes them in).
    * `XInDomain t`  : the values MQTT 5 can represent: ranges of numbers, sizes of strings, legal reason
                       codes, consistency of the will fields, and the protocol's packet size limit
                       (`size`: the Remaining Length is at most 268 435 455). Nothing in
                       here says that any length is *computed* correctly.

  Only the record *types* of `Tx.lean` and the fields' values are used (plus `remainingLen` in the size limit).
-/
import PosterModel.Tx
import PosterModel.Spec.Client

namespace Poster.Spec

/-- an optional value as zero or one property -/
def optP {α} (id : Nat) (mk : α → PVal) : Option α → List Property
  | some a => [⟨id, mk a⟩]
  | none => []

/-- user properties, in the caller's order -/
def userPs (u : List (Bytes × Bytes)) : List Property := u.map fun kv => ⟨38, .pair kv.1 kv.2⟩

/-- a Subscription Identifier property (value with the size of its encoding) -/
def subIdVal (v : Nat) : PVal := .var v (varSize v)

/-! ## the expected packets -/

def connectProps (t : ConnectTx) : List Property :=
  optP 17 .num t.sessionExpiry ++ optP 33 .num t.receiveMaximum ++ optP 39 .num t.maxPacketSize
  ++ optP 34 .num t.topicAliasMax ++ optP 25 .bool t.reqRespInfo ++ optP 23 .bool t.reqProbInfo
  ++ optP 21 .bytes t.authMethod ++ optP 22 .bytes t.authData ++ userPs t.userProps

def willProps (t : ConnectTx) : List Property :=
  optP 24 .num t.willDelay ++ optP 1 .bool t.willPfi ++ optP 2 .num t.willMei
  ++ optP 3 .bytes t.willContentType ++ optP 8 .bytes t.willResponseTopic
  ++ optP 9 .bytes t.willCorrelationData ++ userPs t.willUserProps

/-- the will: present exactly when the caller gave a will topic and a will payload -/
def connectWill (t : ConnectTx) : Option Will :=
  match t.willTopic, t.willPayload with
  | some topic, some payload =>
    some { qos := t.willQos, retain := t.willRetain, props := willProps t, topic := topic, payload := payload }
  | _, _ => none

def ofConnect (t : ConnectTx) : ClientPacket :=
  .connect t.cleanStart t.keepAlive (connectProps t) t.clientId (connectWill t) t.username t.password

def authProps (t : AuthTx) : List Property :=
  optP 21 .bytes t.authMethod ++ optP 22 .bytes t.authData ++ optP 31 .bytes t.reasonString
  ++ userPs t.userProps

/-- no reason given means Success (0) -/
def ofAuth (t : AuthTx) : ClientPacket := .auth (t.reason.getD 0) (authProps t)

def publishProps (t : PublishTx) : List Property :=
  optP 1 .bool t.pfi ++ optP 35 .num t.topicAlias ++ optP 2 .num t.mei ++ optP 9 .bytes t.correlationData
  ++ optP 8 .bytes t.responseTopic ++ optP 3 .bytes t.contentType ++ userPs t.userProps

/-- (an accepted request has a topic; no payload means the empty payload) -/
def ofPublish (t : PublishTx) : ClientPacket :=
  .publish t.dup t.qos t.retain (t.topic.getD []) t.packetId (publishProps t) (t.payload.getD [])

def subscribeProps (t : SubscribeTx) : List Property := optP 11 subIdVal t.subId ++ userPs t.userProps

def ofSubscribe (t : SubscribeTx) : ClientPacket :=
  .subscribe t.packetId (subscribeProps t)
    (t.filters.map fun fo =>
      { filter := fo.1, maxQos := fo.2.maxQos, noLocal := fo.2.noLocal,
        retainAsPublished := fo.2.retainAsPublished, retainHandling := fo.2.retainHandling })

def ofUnsubscribe (t : UnsubscribeTx) : ClientPacket := .unsubscribe t.packetId (userPs t.userProps) t.filters

def disconnectProps (t : DisconnectTx) : List Property :=
  optP 17 .num t.sessionExpiry ++ optP 31 .bytes t.reasonString ++ userPs t.userProps

def ofDisconnect (t : DisconnectTx) : ClientPacket := .disconnect t.reason (disconnectProps t)

def ackProps (t : AckTx) : List Property := optP 31 .bytes t.reasonString ++ userPs t.userProps

/-- the acknowledgement named by the fixed-header byte the record carries -/
def ofAck (t : AckTx) : ClientPacket :=
  if t.hdr = 0x40 then .puback t.packetId t.reason (ackProps t)
  else if t.hdr = 0x50 then .pubrec t.packetId t.reason (ackProps t)
  else if t.hdr = 0x62 then .pubrel t.packetId t.reason (ackProps t)
  else .pubcomp t.packetId t.reason (ackProps t)

/-- the reason codes legal for the acknowledgement with this fixed-header byte -/
def ackReasons (hdr : Nat) : List Nat := if hdr = 0x40 ∨ hdr = 0x50 then pubackReasons else pubrelReasons

end Poster.Spec

namespace Poster
open Spec

/-! ## the domains -/

/-- a string / binary value fits its two-byte length prefix -/
def StrOk (s : Bytes) : Prop := s.length ≤ 65535
/-- user properties: both strings fit -/
def UserOk (u : List (Bytes × Bytes)) : Prop := ∀ kv ∈ u, kv.1.length ≤ 65535 ∧ kv.2.length ≤ 65535

structure ConnectInDomain (t : ConnectTx) : Prop where
  keepAlive : t.keepAlive ≤ 65535
  sessionExpiry : ∀ n ∈ t.sessionExpiry, n ≤ 4294967295
  receiveMaximum : ∀ n ∈ t.receiveMaximum, 1 ≤ n ∧ n ≤ 65535
  maxPacketSize : ∀ n ∈ t.maxPacketSize, 1 ≤ n ∧ n ≤ 4294967295
  topicAliasMax : ∀ n ∈ t.topicAliasMax, n ≤ 65535
  authMethod : ∀ s ∈ t.authMethod, StrOk s
  authData : ∀ s ∈ t.authData, StrOk s
  userProps : UserOk t.userProps
  clientId : StrOk t.clientId
  username : ∀ s ∈ t.username, StrOk s
  password : ∀ s ∈ t.password, StrOk s
  willQos : t.willQos ≤ 2
  willDelay : ∀ n ∈ t.willDelay, n ≤ 4294967295
  willMei : ∀ n ∈ t.willMei, n ≤ 4294967295
  willContentType : ∀ s ∈ t.willContentType, StrOk s
  willResponseTopic : ∀ s ∈ t.willResponseTopic, StrOk s
  willCorrelationData : ∀ s ∈ t.willCorrelationData, StrOk s
  willUserProps : UserOk t.willUserProps
  willTopic : ∀ s ∈ t.willTopic, StrOk s
  willPayload : ∀ s ∈ t.willPayload, StrOk s
  /-- a will is absent or has both topic and payload -/
  willBoth : t.willTopic.isSome = t.willPayload.isSome
  /-- will QoS, will retain and will properties only together with a will -/
  noWill : t.willTopic = none →
    t.willQos = 0 ∧ t.willRetain = false ∧ t.willDelay = none ∧ t.willPfi = none ∧ t.willMei = none ∧
    t.willContentType = none ∧ t.willResponseTopic = none ∧ t.willCorrelationData = none ∧
    t.willUserProps = []
  size : t.remainingLen < 268435456

structure AuthInDomain (t : AuthTx) : Prop where
  reason : ∀ r ∈ t.reason, r ∈ authReasons
  authMethod : ∀ s ∈ t.authMethod, StrOk s
  authData : ∀ s ∈ t.authData, StrOk s
  reasonString : ∀ s ∈ t.reasonString, StrOk s
  userProps : UserOk t.userProps
  size : t.remainingLen < 268435456

structure PublishInDomain (t : PublishTx) : Prop where
  qos : t.qos ≤ 2
  /-- the library assigns a packet identifier (1..65535) exactly to QoS 1 and 2 publications -/
  packetId : ∀ p ∈ t.packetId, 1 ≤ p ∧ p ≤ 65535 ∧ t.qos ≠ 0
  /-- the duplicate flag is for re-deliveries, which QoS 0 does not have [MQTT-3.3.1-2] -/
  dup : t.qos = 0 → t.dup = false
  topic : ∀ s ∈ t.topic, StrOk s
  topicAlias : ∀ n ∈ t.topicAlias, 1 ≤ n ∧ n ≤ 65535
  mei : ∀ n ∈ t.mei, n ≤ 4294967295
  correlationData : ∀ s ∈ t.correlationData, StrOk s
  responseTopic : ∀ s ∈ t.responseTopic, StrOk s
  contentType : ∀ s ∈ t.contentType, StrOk s
  userProps : UserOk t.userProps
  size : t.remainingLen < 268435456

structure SubscribeInDomain (t : SubscribeTx) : Prop where
  packetId : 1 ≤ t.packetId ∧ t.packetId ≤ 65535
  subId : ∀ v ∈ t.subId, 1 ≤ v ∧ v ≤ 268435455
  userProps : UserOk t.userProps
  filters : ∀ fo ∈ t.filters, StrOk fo.1 ∧ fo.2.maxQos ≤ 2 ∧ fo.2.retainHandling ≤ 2
  size : t.remainingLen < 268435456

structure UnsubscribeInDomain (t : UnsubscribeTx) : Prop where
  packetId : 1 ≤ t.packetId ∧ t.packetId ≤ 65535
  userProps : UserOk t.userProps
  filters : ∀ f ∈ t.filters, StrOk f
  size : t.remainingLen < 268435456

structure DisconnectInDomain (t : DisconnectTx) : Prop where
  reason : t.reason ∈ disconnectReasons
  sessionExpiry : ∀ n ∈ t.sessionExpiry, n ≤ 4294967295
  reasonString : ∀ s ∈ t.reasonString, StrOk s
  userProps : UserOk t.userProps
  size : t.remainingLen < 268435456

structure AckInDomain (t : AckTx) : Prop where
  hdr : t.hdr = 0x40 ∨ t.hdr = 0x50 ∨ t.hdr = 0x62 ∨ t.hdr = 0x70
  packetId : 1 ≤ t.packetId ∧ t.packetId ≤ 65535
  reason : t.reason ∈ ackReasons t.hdr
  reasonString : ∀ s ∈ t.reasonString, StrOk s
  userProps : UserOk t.userProps
  size : t.remainingLen < 268435456

end Poster
