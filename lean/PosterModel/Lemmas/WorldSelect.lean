/-
  Lemmas/WorldSelect.lean — the `select!` of `run()` under an ARBITRARY resolution of its choice.

  `run()` (src/client/context.rs) loops around

      futures::select! { packet = pck_fut => …, msg = msg_fut => … }

  `futures::select!` polls its branches in a pseudo-randomly shuffled order; the first branch whose future is
  `Ready` wins and the remaining branches are NOT polled in that round; if every branch is `Pending` the whole
  `select!` is `Pending` (and every branch has registered its waker). `World.runLoop` fixes the order "messages,
  then packets". Here the order is chosen, iteration by iteration, by a scheduler `sched : Nat → Bool`
  (`sched i = true`: in the iteration with `i` iterations of fuel left, `pck_fut` is polled first).

  Decisions (read off the Rust code and the semantics of `select!`):

  * packet branch first, `pck_fut` Ready(Some(frame)): the frame is decoded and handled — whatever is queued
    (the queue is not looked at in this round; the message branch is not polled).
  * packet branch first, `pck_fut` Ready(None) (end of stream, read error, malformed length): `run()` returns
    `SocketClosed` AT ONCE, even though messages are queued and even if no sender is left: `HandleClosed` can
    only be observed when the message branch is polled.
  * packet branch first, `pck_fut` Pending: the framing layer has consumed what the transport had (`rx`, `reader`
    advance) and the reader holds the waker (`readerReg`), or — the transport itself returned `Pending` after
    waking the task (a `pending` read event) — the context task is flagged again (`armReader`). Then the message
    branch is polled in the same round: a queued message is handled; no message and no sender: `HandleClosed`;
    no message but senders: the queue keeps the waker (`queueReg`) and the task parks.
  * message branch first: exactly `World.runLoop` (`runIterS_false`). As in `runLoop`, the queue waker a Pending
    message branch registers is recorded only when the task parks (a stale registration is harmless: it can only
    cause a spurious poll, and `runLoop` makes the same simplification).

  `runLoopS sched f w` is one poll of the loop under `sched`; `runLoop f w` is the resolution `fun _ => false`
  (`runLoop_is_a_resolution`). `pollRunS`, `pollCtxS`, `pollTaskS` put the prelude of `run()`, the other context
  futures and the executor's `unwake` around it. `RunLoopAny w r` / `PollCtxAny w r`: `r` is a possible result of
  one poll.

  Every iteration is decomposed into the steps `SCont` (a queued message handled / an inbound packet handled / the
  packet branch returned Pending and armed the reader) and the final steps `SEnd`; `runLoopS_decomp`.
-/
import PosterModel.Lemmas.WorldCtx

set_option linter.unusedVariables false
set_option linter.unusedSimpArgs false

namespace Poster
open Framing
namespace World

/-! ## the loop under a scheduler -/

/-- `pck_fut` returned `Pending`: the reader keeps the waker if the transport has nothing; otherwise the transport
    has woken the task itself (a `pending` read event was consumed) -/
def armReader (w : World) : World := if w.reader = [] then { w with readerReg := true } else w.wake .ctx

/-- the message branch of `select!` won with the message `m` (`q` = the rest of the queue) -/
def msgBranch (w : World) (m : Msg) (q : List Msg) : World ⊕ World :=
  let r := ({ w with queue := q }).runHandler (fun wok => w.c.handleMsg m wok)
  match r.2 with
  | .cont => .inl r.1
  | fl => .inr (r.1.finish .run (flowRet fl))

/-- the packet branch of `select!` won with the frame `fr` (`rx'`, `rd'` = framing state and transport afterwards) -/
def pktBranch (w : World) (rx' : Rx) (rd' : List ReadEv) (fr : Bytes) : World ⊕ World :=
  let w1 : World := { w with rx := rx', reader := rd' }
  match decodeRx fr with
  | .ok p =>
    let r := w1.runHandler (fun wok => w.c.handlePkt w.chanRxAlive p wok)
    match r.2 with
    | .cont => .inl r.1
    | fl => .inr (r.1.finish .run (flowRet fl))
  | .err => .inr (w1.finish .run (.err .codecError))
  | .panic => .inr (({ w1 with task := .none }).emit (.panic .ctx "other"))

/-- one iteration of the `select!` loop; `pf = true`: the packet branch is polled first.
    `.inl` = go on with the next iteration, `.inr` = this poll of the task ends -/
def runIterS (pf : Bool) (w : World) : World ⊕ World :=
  if pf then
    match pollNext w.rx w.reader with
    | (rx', rd', .item fr) => pktBranch w rx' rd' fr
    | (rx', rd', .none) => .inr (({ w with rx := rx', reader := rd' }).finish .run (.err .socketClosed))
    | (rx', rd', .pending) =>
      let w := armReader { w with rx := rx', reader := rd' }
      match w.queue with
      | m :: q => msgBranch w m q
      | [] =>
        if w.senders = 0 then .inr (w.finish .run (.err .handleClosed))
        else .inr { w with queueReg := true }
  else
    match w.queue with
    | m :: q => msgBranch w m q
    | [] =>
      if w.senders = 0 then .inr (w.finish .run (.err .handleClosed)) else
      match pollNext w.rx w.reader with
      | (rx', rd', .item fr) => pktBranch w rx' rd' fr
      | (rx', rd', .none) => .inr (({ w with rx := rx', reader := rd' }).finish .run (.err .socketClosed))
      | (rx', rd', .pending) => .inr (armReader { w with rx := rx', reader := rd', queueReg := true })

/-- one poll of the `select!` loop of `run()` under the scheduler `sched` (`sched i`: with `i` iterations of fuel
    left the packet branch is polled first) -/
def runLoopS (sched : Nat → Bool) : Nat → World → World
  | 0, w => w
  | f+1, w =>
    match runIterS (sched f) w with
    | .inl w1 => runLoopS sched f w1
    | .inr r => r

/-- one poll of `run()` under `sched`: the session-resumption prelude (first poll), then the loop -/
def pollRunS (sched : Nat → Bool) (w : World) (started : Bool) : World :=
  if started then runLoopS sched w.loopFuel w else
  if w.resumed.canWrite ((w.c.resume.2.2.map List.length).sum) then runLoopS sched w.resent.loopFuel w.resent
  else (w.resumed.writeBytes w.c.resume.2.2.flatten).finish .run (.err .socketClosed)

/-- one poll of the context task under `sched` (only `run()` has a `select!`) -/
def pollCtxS (sched : Nat → Bool) (w : World) : World :=
  match w.task with
  | .none => w
  | .connecting call t a started => w.pollConnect call t a started
  | .running started => w.pollRunS sched started

/-- one poll of a task by the executor, the context task under `sched` -/
def pollTaskS (sched : Nat → Bool) (w : World) (t : Task) : World :=
  let w := w.unwake t
  match t with
  | .ctx => w.pollCtxS sched
  | .op n => w.pollOp n
  | .st n => w.pollStream n

/-- `r` is a possible result of one poll of the loop from `w`, for some resolution of every `select!` -/
def RunLoopAny (w r : World) : Prop := ∃ sched, r = runLoopS sched w.loopFuel w

/-- `r` is a possible result of one poll of the context task from `w` -/
def PollCtxAny (w r : World) : Prop := ∃ sched, r = w.pollCtxS sched

/-- `r` is a possible result of the executor polling the task `t` in `w` -/
def PollTaskAny (w : World) (t : Task) (r : World) : Prop := ∃ sched, r = w.pollTaskS sched t

/-! ## `runLoop` is the resolution "messages first" -/

theorem armReader_eq (w : World) (rx' : Rx) (rd' : List ReadEv) :
    armReader { w with rx := rx', reader := rd', queueReg := true } =
      (if rd' = [] then { w with rx := rx', reader := rd', queueReg := true, readerReg := true }
       else ({ w with rx := rx', reader := rd', queueReg := true } : World).wake .ctx) := rfl

theorem runIterS_false (w : World) : runIterS false w = runIter w := by
  unfold runIterS runIter msgBranch pktBranch
  simp only [Bool.false_eq_true, ↓reduceIte]
  cases hq : w.queue with
  | cons m q => rfl
  | nil =>
    simp only
    by_cases hs : w.senders = 0
    · simp [hs]
    · simp only [hs, ↓reduceIte]
      generalize pollNext w.rx w.reader = r
      obtain ⟨rx', rd', o⟩ := r
      cases o with
      | item fr =>
        simp only
        cases decodeRx fr <;> rfl
      | none => rfl
      | pending => rfl

theorem runLoopS_zero (sched : Nat → Bool) (w : World) : runLoopS sched 0 w = w := rfl

theorem runLoopS_succ (sched : Nat → Bool) (f : Nat) (w : World) :
    runLoopS sched (f + 1) w = match runIterS (sched f) w with
      | .inl w1 => runLoopS sched f w1
      | .inr r => r := rfl

/-- **`runLoop` is one resolution of the choice**: the scheduler that always polls the message branch first -/
theorem runLoop_is_a_resolution (f : Nat) (w : World) : runLoopS (fun _ => false) f w = runLoop f w := by
  induction f generalizing w with
  | zero => rfl
  | succ f ih =>
    rw [runLoopS_succ, runLoop_succ, runIterS_false]
    cases runIter w with
    | inl w1 => exact ih w1
    | inr r => rfl

theorem pollRunS_false (w : World) (started : Bool) : w.pollRunS (fun _ => false) started = w.pollRun started := by
  cases started with
  | true => simp only [pollRunS, pollRun, ↓reduceIte]; exact runLoop_is_a_resolution _ _
  | false =>
    rw [pollRun_first_eq]
    simp only [pollRunS, Bool.false_eq_true, ↓reduceIte, runLoop_is_a_resolution]

theorem pollCtxS_false (w : World) : w.pollCtxS (fun _ => false) = w.pollCtx := by
  unfold pollCtxS pollCtx
  cases w.task with
  | none => rfl
  | connecting call t a started => rfl
  | running started => exact pollRunS_false _ _

theorem pollTaskS_false (w : World) (t : Task) : w.pollTaskS (fun _ => false) t = w.pollTask t := by
  cases t with
  | ctx => simp only [pollTaskS, pollTask]; exact pollCtxS_false _
  | op n => rfl
  | st n => rfl

theorem runLoopAny_runLoop (w : World) : RunLoopAny w (runLoop w.loopFuel w) :=
  ⟨fun _ => false, (runLoop_is_a_resolution _ _).symm⟩

theorem pollCtxAny_pollCtx (w : World) : PollCtxAny w w.pollCtx := ⟨fun _ => false, (pollCtxS_false w).symm⟩

theorem pollTaskAny_pollTask (w : World) (t : Task) : PollTaskAny w t (w.pollTask t) :=
  ⟨fun _ => false, (pollTaskS_false w t).symm⟩

/-! ## the steps of an iteration, relationally -/

/-- a step after which the loop goes on: a queued message handled, an inbound packet handled — now whatever the
    other branch holds — or the packet branch returned `Pending` and armed the reader -/
inductive SCont (w : World) : World → Prop
  | msg (m : Msg) (q : List Msg) (w1 : World) : w.queue = m :: q →
      ({ w with queue := q }).runHandler (fun wok => w.c.handleMsg m wok) = (w1, .cont) → SCont w w1
  | pkt (rx' : Rx) (rd' : List ReadEv) (fr : Bytes) (p : RxPacket) (w1 : World) :
      pollNext w.rx w.reader = (rx', rd', .item fr) → decodeRx fr = .ok p →
      ({ w with rx := rx', reader := rd' }).runHandler (fun wok => w.c.handlePkt w.chanRxAlive p wok) = (w1, .cont) →
      SCont w w1
  | arm (rx' : Rx) (rd' : List ReadEv) : pollNext w.rx w.reader = (rx', rd', .pending) →
      SCont w (armReader { w with rx := rx', reader := rd' })

/-- the ways one poll of the loop ends, under any scheduler -/
inductive SEnd (w : World) : World → Prop
  | msgExit (m : Msg) (q : List Msg) (w1 : World) (fl : Flow) : w.queue = m :: q →
      ({ w with queue := q }).runHandler (fun wok => w.c.handleMsg m wok) = (w1, fl) → fl ≠ .cont →
      SEnd w (w1.finish .run (flowRet fl))
  | closed : w.queue = [] → w.senders = 0 → SEnd w (w.finish .run (.err .handleClosed))
  | pktExit (rx' : Rx) (rd' : List ReadEv) (fr : Bytes) (p : RxPacket) (w1 : World) (fl : Flow) :
      pollNext w.rx w.reader = (rx', rd', .item fr) → decodeRx fr = .ok p →
      ({ w with rx := rx', reader := rd' }).runHandler (fun wok => w.c.handlePkt w.chanRxAlive p wok) = (w1, fl) →
      fl ≠ .cont → SEnd w (w1.finish .run (flowRet fl))
  | codec (rx' : Rx) (rd' : List ReadEv) (fr : Bytes) :
      pollNext w.rx w.reader = (rx', rd', .item fr) → decodeRx fr = .err →
      SEnd w (({ w with rx := rx', reader := rd' }).finish .run (.err .codecError))
  | panic (rx' : Rx) (rd' : List ReadEv) (fr : Bytes) :
      pollNext w.rx w.reader = (rx', rd', .item fr) → decodeRx fr = .panic →
      SEnd w (({ w with rx := rx', reader := rd', task := .none }).emit (.panic .ctx "other"))
  | sock (rx' : Rx) (rd' : List ReadEv) : pollNext w.rx w.reader = (rx', rd', .none) →
      SEnd w (({ w with rx := rx', reader := rd' }).finish .run (.err .socketClosed))
  | park (rx' : Rx) (rd' : List ReadEv) : w.queue = [] → w.senders ≠ 0 →
      pollNext w.rx w.reader = (rx', rd', .pending) →
      SEnd w (armReader { w with rx := rx', reader := rd', queueReg := true })

theorem SCont.of_runCont {w w1 : World} (h : RunCont w w1) : SCont w w1 := by
  cases h with
  | msg m q w1 hq hr => exact .msg m q w1 hq hr
  | pkt rx' rd' fr p w1 hq hs hp hd hr => exact .pkt rx' rd' fr p w1 hp hd hr

theorem SEnd.of_runEnd {w r : World} (h : RunEnd w r) : SEnd w r := by
  cases h with
  | msgExit m q w1 fl hq hr hne => exact .msgExit m q w1 fl hq hr hne
  | closed hq hs => exact .closed hq hs
  | pktExit rx' rd' fr p w1 fl hq hs hp hd hr hne => exact .pktExit rx' rd' fr p w1 fl hp hd hr hne
  | codec rx' rd' fr hq hs hp hd => exact .codec rx' rd' fr hp hd
  | panic rx' rd' fr hq hs hp hd => exact .panic rx' rd' fr hp hd
  | sock rx' rd' hq hs hp => exact .sock rx' rd' hp
  | pending rx' rd' hq hs hp => exact .park rx' rd' hq hs hp

/-- zero or more steps after which the loop goes on -/
inductive SServe : World → World → Prop
  | refl (w : World) : SServe w w
  | step {w w1 w2 : World} : SCont w w1 → SServe w1 w2 → SServe w w2

theorem SServe.one {w w1 : World} (h : SCont w w1) : SServe w w1 := .step h (.refl _)

theorem SServe.trans {a b c : World} (h1 : SServe a b) (h2 : SServe b c) : SServe a c := by
  induction h1 with
  | refl => exact h2
  | step hc _ ih => exact .step hc (ih h2)

theorem SServe.of_serve {w wm : World} (h : Serve w wm) : SServe w wm := by
  induction h with
  | refl w => exact .refl w
  | step hc _ ih => exact .step (.of_runCont hc) ih

/-! ### the branches -/

theorem msgBranch_spec (w : World) (m : Msg) (q : List Msg) (hq : w.queue = m :: q) :
    (∃ w1, msgBranch w m q = .inl w1 ∧ SCont w w1) ∨ (∃ r, msgBranch w m q = .inr r ∧ SEnd w r) := by
  unfold msgBranch
  simp only
  split
  · rename_i hfl
    exact Or.inl ⟨_, rfl, .msg m q _ hq (Prod.ext rfl hfl)⟩
  · rename_i fl hne
    exact Or.inr ⟨_, rfl, .msgExit m q _ _ hq rfl (by intro h; exact hne h)⟩

theorem pktBranch_spec (w : World) (rx' : Rx) (rd' : List ReadEv) (fr : Bytes)
    (hp : pollNext w.rx w.reader = (rx', rd', .item fr)) :
    (∃ w1, pktBranch w rx' rd' fr = .inl w1 ∧ SCont w w1) ∨ (∃ r, pktBranch w rx' rd' fr = .inr r ∧ SEnd w r) := by
  unfold pktBranch
  simp only
  split
  · rename_i p hd
    split
    · rename_i hfl
      exact Or.inl ⟨_, rfl, .pkt rx' rd' fr p _ hp hd (Prod.ext rfl hfl)⟩
    · rename_i fl hne
      exact Or.inr ⟨_, rfl, .pktExit rx' rd' fr p _ _ hp hd rfl (by intro h; exact hne h)⟩
  · rename_i hd; exact Or.inr ⟨_, rfl, .codec rx' rd' fr hp hd⟩
  · rename_i hd; exact Or.inr ⟨_, rfl, .panic rx' rd' fr hp hd⟩

@[simp] theorem armReader_queue (w : World) : (armReader w).queue = w.queue := by
  unfold armReader; split <;> simp
@[simp] theorem armReader_senders (w : World) : (armReader w).senders = w.senders := by
  unfold armReader; split <;> simp [senders]
@[simp] theorem armReader_rx (w : World) : (armReader w).rx = w.rx := by
  unfold armReader; split <;> simp
@[simp] theorem armReader_reader (w : World) : (armReader w).reader = w.reader := by
  unfold armReader; split <;> simp
@[simp] theorem armReader_c (w : World) : (armReader w).c = w.c := by
  unfold armReader; split <;> simp
@[simp] theorem armReader_cfg (w : World) : (armReader w).cfg = w.cfg := by
  unfold armReader; split <;> simp
@[simp] theorem armReader_task (w : World) : (armReader w).task = w.task := by
  unfold armReader; split <;> simp
@[simp] theorem armReader_out (w : World) : (armReader w).out = w.out := by
  unfold armReader; split <;> simp
@[simp] theorem armReader_wirePend (w : World) : (armReader w).wirePend = w.wirePend := by
  unfold armReader; split <;> simp
@[simp] theorem armReader_written (w : World) : (armReader w).written = w.written := by
  unfold armReader; split <;> simp
@[simp] theorem armReader_handles (w : World) : (armReader w).handles = w.handles := by
  unfold armReader; split <;> simp
@[simp] theorem armReader_ops (w : World) : (armReader w).ops = w.ops := by
  unfold armReader; split <;> simp
@[simp] theorem armReader_hasCtx (w : World) : (armReader w).hasCtx = w.hasCtx := by
  unfold armReader; split <;> simp
@[simp] theorem armReader_ctxDropped (w : World) : (armReader w).ctxDropped = w.ctxDropped := by
  unfold armReader; split <;> simp
@[simp] theorem armReader_streams (w : World) : (armReader w).streams = w.streams := by
  unfold armReader; split <;> simp
@[simp] theorem armReader_rsps (w : World) : (armReader w).rsps = w.rsps := by
  unfold armReader; split <;> simp
@[simp] theorem armReader_held (w : World) : (armReader w).held = w.held := by
  unfold armReader; split <;> simp
@[simp] theorem armReader_bad (w : World) : (armReader w).bad = w.bad := by
  unfold armReader; split <;> simp
@[simp] theorem armReader_slots (w : World) : (armReader w).slots = w.slots := by
  unfold armReader; split <;> simp
@[simp] theorem armReader_slotReg (w : World) : (armReader w).slotReg = w.slotReg := by
  unfold armReader; split <;> simp
@[simp] theorem armReader_chans (w : World) : (armReader w).chans = w.chans := by
  unfold armReader; split <;> simp
@[simp] theorem armReader_pidCtr (w : World) : (armReader w).pidCtr = w.pidCtr := by
  unfold armReader; split <;> simp
@[simp] theorem armReader_subCtr (w : World) : (armReader w).subCtr = w.subCtr := by
  unfold armReader; split <;> simp
@[simp] theorem armReader_queueReg (w : World) : (armReader w).queueReg = w.queueReg := by
  unfold armReader; split <;> simp

theorem armReader_woken_sub (w : World) : ∀ t, t ∈ w.woken → t ∈ (armReader w).woken := by
  intro t ht
  unfold armReader; split
  · exact ht
  · exact mem_wake_of_mem _ _ _ ht

theorem armReader_woken (w : World) (t : Task) : t ∈ (armReader w).woken → t = .ctx ∨ t ∈ w.woken := by
  unfold armReader; split
  · exact fun h => Or.inr h
  · exact fun h => (mem_wake_iff _ _ _).mp h

/-- after `pck_fut` returned `Pending` one of the two wake-up sources of the transport is armed -/
theorem armReader_armed (w : World) :
    ((armReader w).reader = [] ∧ (armReader w).readerReg = true) ∨ Task.ctx ∈ (armReader w).woken := by
  unfold armReader
  split
  · rename_i h; exact Or.inl ⟨h, rfl⟩
  · exact Or.inr (mem_wake_self _ _)

theorem armReader_park (w : World) :
    ({ armReader w with queueReg := true } : World) = armReader { w with queueReg := true } := by
  unfold armReader
  simp only
  split
  · rfl
  · simp only [wake]
    split <;> rfl

/-- a step that hands an input to a handler and goes on -/
def SHandle (w w1 : World) : Prop :=
  (∃ m q, w.queue = m :: q ∧ ({ w with queue := q }).runHandler (fun wok => w.c.handleMsg m wok) = (w1, .cont)) ∨
  (∃ rx' rd' fr p, pollNext w.rx w.reader = (rx', rd', .item fr) ∧ decodeRx fr = .ok p ∧
    ({ w with rx := rx', reader := rd' }).runHandler (fun wok => w.c.handlePkt w.chanRxAlive p wok) = (w1, .cont))

theorem SHandle.sCont {w w1 : World} (h : SHandle w w1) : SCont w w1 := by
  rcases h with ⟨m, q, hq, hr⟩ | ⟨rx', rd', fr, p, hp, hd, hr⟩
  · exact .msg m q w1 hq hr
  · exact .pkt rx' rd' fr p w1 hp hd hr

/-- nothing, or the packet branch polled first returned `Pending` -/
def ArmOpt (w wa : World) : Prop :=
  wa = w ∨ ∃ rx' rd', pollNext w.rx w.reader = (rx', rd', .pending) ∧ wa = armReader { w with rx := rx', reader := rd' }

theorem ArmOpt.sServe {w wa : World} (h : ArmOpt w wa) : SServe w wa := by
  rcases h with rfl | ⟨rx', rd', hp, rfl⟩
  · exact .refl _
  · exact .one (.arm rx' rd' hp)

theorem msgBranch_spec' (w : World) (m : Msg) (q : List Msg) (hq : w.queue = m :: q) :
    (∃ w1, msgBranch w m q = .inl w1 ∧ SHandle w w1) ∨ (∃ r, msgBranch w m q = .inr r ∧ SEnd w r) := by
  unfold msgBranch
  simp only
  split
  · rename_i hfl
    exact Or.inl ⟨_, rfl, Or.inl ⟨m, q, hq, Prod.ext rfl hfl⟩⟩
  · rename_i fl hne
    exact Or.inr ⟨_, rfl, .msgExit m q _ _ hq rfl (by intro h; exact hne h)⟩

theorem pktBranch_spec' (w : World) (rx' : Rx) (rd' : List ReadEv) (fr : Bytes)
    (hp : pollNext w.rx w.reader = (rx', rd', .item fr)) :
    (∃ w1, pktBranch w rx' rd' fr = .inl w1 ∧ SHandle w w1) ∨ (∃ r, pktBranch w rx' rd' fr = .inr r ∧ SEnd w r) := by
  unfold pktBranch
  simp only
  split
  · rename_i p hd
    split
    · rename_i hfl
      exact Or.inl ⟨_, rfl, Or.inr ⟨rx', rd', fr, p, hp, hd, Prod.ext rfl hfl⟩⟩
    · rename_i fl hne
      exact Or.inr ⟨_, rfl, .pktExit rx' rd' fr p _ _ hp hd rfl (by intro h; exact hne h)⟩
  · rename_i hd; exact Or.inr ⟨_, rfl, .codec rx' rd' fr hp hd⟩
  · rename_i hd; exact Or.inr ⟨_, rfl, .panic rx' rd' fr hp hd⟩

/-- **one iteration under any scheduler**: possibly the packet branch returns `Pending` first (`ArmOpt`), then
    either an input is handled and the loop goes on, or the poll ends -/
theorem runIterS_spec (pf : Bool) (w : World) :
    (∃ w1, runIterS pf w = .inl w1 ∧ ∃ wa, ArmOpt w wa ∧ SHandle wa w1) ∨
    (∃ r, runIterS pf w = .inr r ∧ ∃ wa, ArmOpt w wa ∧ SEnd wa r) := by
  cases pf with
  | false =>
    simp only [runIterS, Bool.false_eq_true, ↓reduceIte]
    split
    · rename_i m q hq
      rcases msgBranch_spec' w m q hq with ⟨w1, h1, h2⟩ | ⟨r, h1, h2⟩
      · exact Or.inl ⟨w1, h1, w, Or.inl rfl, h2⟩
      · exact Or.inr ⟨r, h1, w, Or.inl rfl, h2⟩
    · rename_i hq
      split
      · rename_i hs; exact Or.inr ⟨_, rfl, w, Or.inl rfl, .closed hq hs⟩
      · rename_i hs
        split
        · rename_i rx' rd' fr hp
          rcases pktBranch_spec' w rx' rd' fr hp with ⟨w1, h1, h2⟩ | ⟨r, h1, h2⟩
          · exact Or.inl ⟨w1, h1, w, Or.inl rfl, h2⟩
          · exact Or.inr ⟨r, h1, w, Or.inl rfl, h2⟩
        · rename_i rx' rd' hp; exact Or.inr ⟨_, rfl, w, Or.inl rfl, .sock rx' rd' hp⟩
        · rename_i rx' rd' hp; exact Or.inr ⟨_, rfl, w, Or.inl rfl, .park rx' rd' hq hs hp⟩
  | true =>
    simp only [runIterS, ↓reduceIte]
    split
    · rename_i rx' rd' fr hp
      rcases pktBranch_spec' w rx' rd' fr hp with ⟨w1, h1, h2⟩ | ⟨r, h1, h2⟩
      · exact Or.inl ⟨w1, h1, w, Or.inl rfl, h2⟩
      · exact Or.inr ⟨r, h1, w, Or.inl rfl, h2⟩
    · rename_i rx' rd' hp; exact Or.inr ⟨_, rfl, w, Or.inl rfl, .sock rx' rd' hp⟩
    · rename_i rx' rd' hp
      have harm : ArmOpt w (armReader { w with rx := rx', reader := rd' }) := Or.inr ⟨rx', rd', hp, rfl⟩
      split
      · rename_i m q hq
        rcases msgBranch_spec' _ m q hq with ⟨w1, h1, h2⟩ | ⟨r, h1, h2⟩
        · exact Or.inl ⟨w1, h1, _, harm, h2⟩
        · exact Or.inr ⟨r, h1, _, harm, h2⟩
      · rename_i hq
        split
        · rename_i hs; exact Or.inr ⟨_, rfl, _, harm, .closed hq hs⟩
        · rename_i hs
          refine Or.inr ⟨_, rfl, w, Or.inl rfl, ?_⟩
          rw [armReader_park]
          exact .park rx' rd' (by simpa using hq) (by simpa [senders] using hs) hp

theorem runIterS_inl {pf : Bool} {w w1 : World} (h : runIterS pf w = .inl w1) :
    ∃ wa, ArmOpt w wa ∧ SHandle wa w1 := by
  rcases runIterS_spec pf w with ⟨w1', h1, h2⟩ | ⟨r, h1, _⟩
  · rw [h] at h1; cases h1; exact h2
  · rw [h] at h1; cases h1

theorem runIterS_inr {pf : Bool} {w r : World} (h : runIterS pf w = .inr r) :
    ∃ wa, ArmOpt w wa ∧ SEnd wa r := by
  rcases runIterS_spec pf w with ⟨w1', h1, _⟩ | ⟨r', h1, h2⟩
  · rw [h] at h1; cases h1
  · rw [h] at h1; cases h1; exact h2

/-- **`runLoopS sched f w`** = some steps that go on, then either the fuel is used up or a final step -/
theorem runLoopS_decomp (sched : Nat → Bool) (f : Nat) (w : World) :
    ∃ wm, SServe w wm ∧ (runLoopS sched f w = wm ∨ SEnd wm (runLoopS sched f w)) := by
  induction f generalizing w with
  | zero => exact ⟨w, .refl w, Or.inl rfl⟩
  | succ f ih =>
    rw [runLoopS_succ]
    cases h : runIterS (sched f) w with
    | inl w1 =>
      obtain ⟨wa, ha, hh⟩ := runIterS_inl h
      obtain ⟨wm, hs, he⟩ := ih w1
      exact ⟨wm, ha.sServe.trans (.step hh.sCont hs), he⟩
    | inr r =>
      obtain ⟨wa, ha, he⟩ := runIterS_inr h
      exact ⟨wa, ha.sServe, Or.inr he⟩

/-! ## what every step preserves -/

theorem armReader_outExt (w : World) : OutExt w (armReader w) := outExt_of_eq (by simp)

theorem pollNext_pending_facts {s : Rx} {rs : List ReadEv} {s' : Rx} {rs' : List ReadEv}
    (h : pollNext s rs = (s', rs', .pending)) :
    (s.Ok → s'.Ok ∧ mu s' rs' ≤ mu s rs) ∧ (Reach s → Reach s') := by
  refine ⟨fun hs => ?_, fun hr => ?_⟩
  · have h1 := (pollNext_pending hs h).2.1
    have hm := pollNext_measure' h
    simp only [Out.len] at hm
    exact ⟨h1, by omega⟩
  · have := Reach.poll rs hr; rw [h] at this; exact this

theorem sCont_frame {w w1 : World} (h : SCont w w1) :
    w1.task = w.task ∧ w1.handles = w.handles ∧ w1.ops = w.ops ∧ w1.hasCtx = w.hasCtx ∧ w1.cfg = w.cfg ∧
    w1.streams = w.streams ∧ w1.rsps = w.rsps ∧ w1.held = w.held ∧ w1.bad = w.bad ∧
    OutExt w w1 ∧ (w.rx.Ok → w1.rx.Ok ∧ loopMu w1 ≤ loopMu w) ∧ (Reach w.rx → Reach w1.rx) := by
  cases h with
  | msg m q w1 hq hr =>
    have e : w1 = (World.runHandler { w with queue := q } (fun wok => w.c.handleMsg m wok)).1 := by rw [hr]
    subst e
    refine ⟨by simp, by simp, by simp, by simp, by simp, by simp, by simp, by simp, by simp,
      outExt_trans (outExt_of_eq rfl) (runHandler_outExt _ _), ?_, ?_⟩
    · intro hok; simp [loopMu, hq]; exact hok
    · intro hr; simpa using hr
  | pkt rx' rd' fr p w1 hp hd hr =>
    have e : w1 = (World.runHandler { w with rx := rx', reader := rd' }
        (fun wok => w.c.handlePkt w.chanRxAlive p wok)).1 := by rw [hr]
    subst e
    obtain ⟨h1, h2⟩ := pollNext_item_facts hp
    refine ⟨by simp, by simp, by simp, by simp, by simp, by simp, by simp, by simp, by simp,
      outExt_trans (outExt_of_eq rfl) (runHandler_outExt _ _), ?_, ?_⟩
    · intro hok
      obtain ⟨a, _, c⟩ := h1 hok
      simp only [loopMu, runHandler_rx, runHandler_reader, runHandler_queue]
      exact ⟨a, by omega⟩
    · intro hr; simpa using h2 hr
  | arm rx' rd' hp =>
    obtain ⟨h1, h2⟩ := pollNext_pending_facts hp
    refine ⟨by simp, by simp, by simp, by simp, by simp, by simp, by simp, by simp, by simp,
      outExt_trans (outExt_of_eq rfl) (armReader_outExt _), ?_, ?_⟩
    · intro hok
      obtain ⟨a, b⟩ := h1 hok
      simp only [loopMu, armReader_rx, armReader_reader, armReader_queue]
      exact ⟨a, by omega⟩
    · intro hr; simpa using h2 hr

/-- a step that handles an input strictly decreases the fuel measure -/
theorem sHandle_mu {w w1 : World} (h : SHandle w w1) (hok : w.rx.Ok) : w1.rx.Ok ∧ loopMu w1 < loopMu w := by
  rcases h with ⟨m, q, hq, hr⟩ | ⟨rx', rd', fr, p, hp, hd, hr⟩
  · have e : w1 = (World.runHandler { w with queue := q } (fun wok => w.c.handleMsg m wok)).1 := by rw [hr]
    subst e
    simp [loopMu, hq]; exact hok
  · have e : w1 = (World.runHandler { w with rx := rx', reader := rd' }
        (fun wok => w.c.handlePkt w.chanRxAlive p wok)).1 := by rw [hr]
    subst e
    obtain ⟨a, _, c⟩ := (pollNext_item_facts hp).1 hok
    simp only [loopMu, runHandler_rx, runHandler_reader, runHandler_queue]
    exact ⟨a, by omega⟩

theorem sServe_frame {w wm : World} (h : SServe w wm) :
    wm.task = w.task ∧ wm.handles = w.handles ∧ wm.ops = w.ops ∧ wm.hasCtx = w.hasCtx ∧ wm.cfg = w.cfg ∧
    wm.streams = w.streams ∧ wm.rsps = w.rsps ∧ wm.held = w.held ∧ wm.bad = w.bad ∧
    OutExt w wm ∧ (w.rx.Ok → wm.rx.Ok ∧ loopMu wm ≤ loopMu w) ∧ (Reach w.rx → Reach wm.rx) := by
  induction h with
  | refl w => exact ⟨rfl, rfl, rfl, rfl, rfl, rfl, rfl, rfl, rfl, outExt_refl w, fun h => ⟨h, Nat.le_refl _⟩, id⟩
  | step hc _ ih =>
    obtain ⟨a1, a2, a3, a4, a5, a6, a7, a8, a9, a10, a11, a12⟩ := sCont_frame hc
    obtain ⟨b1, b2, b3, b4, b5, b6, b7, b8, b9, b10, b11, b12⟩ := ih
    refine ⟨b1.trans a1, b2.trans a2, b3.trans a3, b4.trans a4, b5.trans a5, b6.trans a6, b7.trans a7,
      b8.trans a8, b9.trans a9, outExt_trans a10 b10, ?_, fun h => b12 (a12 h)⟩
    intro hok
    obtain ⟨c1, c2⟩ := a11 hok
    obtain ⟨d1, d2⟩ := b11 c1
    exact ⟨d1, by omega⟩

theorem sServe_senders {w wm : World} (h : SServe w wm) : wm.senders = w.senders := by
  obtain ⟨_, h2, h3, _⟩ := sServe_frame h
  simp [senders, h2, h3]

/-- with enough fuel (`loopFuel` is more than enough) the loop reaches a final step, under every scheduler -/
theorem runLoopS_decomp_fuel (sched : Nat → Bool) (f : Nat) (w : World) (hok : w.rx.Ok) (hf : loopMu w < f) :
    ∃ wm, SServe w wm ∧ SEnd wm (runLoopS sched f w) := by
  induction f generalizing w with
  | zero => omega
  | succ f ih =>
    rw [runLoopS_succ]
    cases h : runIterS (sched f) w with
    | inl w1 =>
      obtain ⟨wa, ha, hh⟩ := runIterS_inl h
      obtain ⟨a1, a2⟩ := (sServe_frame ha.sServe).2.2.2.2.2.2.2.2.2.2.1 hok
      obtain ⟨h1, h2⟩ := sHandle_mu hh a1
      obtain ⟨wm, hs, he⟩ := ih w1 h1 (by omega)
      exact ⟨wm, ha.sServe.trans (.step hh.sCont hs), he⟩
    | inr r =>
      obtain ⟨wa, ha, he⟩ := runIterS_inr h
      exact ⟨wa, ha.sServe, he⟩

theorem runLoopS_full (sched : Nat → Bool) (w : World) (hok : w.rx.Ok) :
    ∃ wm, SServe w wm ∧ SEnd wm (runLoopS sched w.loopFuel w) :=
  runLoopS_decomp_fuel sched _ w hok (loopMu_lt_loopFuel w)

end World
end Poster
