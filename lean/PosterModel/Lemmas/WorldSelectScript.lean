/-
  Lemmas/WorldSelectScript.lean — whole scripts executed with EVERY poll of `run()` resolved by an arbitrary
  scheduler: the relations `DrainAny`, `SweepAny`, `ApplyAny`, `StepAny`, `StepsAny` mirror `World.drain`,
  `World.sweep`, `World.apply`, `World.step` and `List.foldl World.step`, except that a poll of a task is any
  `PollTaskAny` (the context task's `select!` resolved by some scheduler, chosen afresh for every poll).
  `World.step` is one resolution (`stepAny_step`, `stepsAny_foldl`).

  `StepAny.inv` / `StepsAny.inv`: an invariant of `apply`, `emit` and `PollTaskAny` holds along every such
  execution; `stepAny_decomp`: every such step is a sequence of moves (Lemmas/WorldOps.lean).
-/
import PosterModel.Lemmas.WorldSelectInv

set_option linter.unusedVariables false
set_option linter.unusedSimpArgs false

namespace Poster
open Framing
namespace World

theorem pollTaskAny_cases {w : World} {t : Task} {w' : World} (h : PollTaskAny w t w') :
    (t = .ctx ∧ ∃ sched, w' = (w.unwake .ctx).pollCtxS sched) ∨ (t ≠ .ctx ∧ w' = w.pollTask t) := by
  obtain ⟨sched, rfl⟩ := h
  cases t with
  | ctx => exact Or.inl ⟨rfl, sched, rfl⟩
  | op n => exact Or.inr ⟨nofun, rfl⟩
  | st n => exact Or.inr ⟨nofun, rfl⟩

/-- the executor draining with fuel `f`, every poll resolved arbitrarily -/
inductive DrainAny : Nat → World → World → Prop
  | zero (w : World) : DrainAny 0 w w
  | idle (f : Nat) (w : World) : w.pick = none → DrainAny (f + 1) w w
  | poll (f : Nat) {w w1 w2 : World} (t : Task) : w.pick = some t → PollTaskAny w t w1 → DrainAny f w1 w2 →
      DrainAny (f + 1) w w2

/-- `exec=sweep` over a list of tasks -/
inductive SweepListAny : List Task → World → World → Prop
  | nil (w : World) : SweepListAny [] w w
  | poll {t : Task} {l : List Task} {w w1 w2 : World} : (w.taskLive t ∧ t ∉ w.woken ∧ t ∉ w.held) →
      PollTaskAny w t w1 → SweepListAny l w1 w2 → SweepListAny (t :: l) w w2
  | skip {t : Task} {l : List Task} {w w2 : World} : ¬ (w.taskLive t ∧ t ∉ w.woken ∧ t ∉ w.held) →
      SweepListAny l w w2 → SweepListAny (t :: l) w w2

/-- the tasks `sweep` goes through -/
def selSweepTasks (w : World) : List Task :=
  [Task.ctx] ++ (sortNat (w.ops.map (·.1))).map Task.op ++ (sortNat w.streams).map Task.st

def SweepAny (w w' : World) : Prop := SweepListAny (selSweepTasks w) w w'

/-- a script event: only `poll` polls a task -/
def ApplyAny (w : World) (e : Ev) (w' : World) : Prop :=
  match e with
  | .poll t => if w.taskLive t then PollTaskAny w t w' else w' = w
  | _ => w' = w.apply e

/-- one script event: apply it, drain, (sweep, drain), stall check — as `World.step` -/
def StepAny (w : World) (e : Ev) (w' : World) : Prop :=
  if w.bad then w' = w else
  ∃ w1, ApplyAny (w.emit (.ev e)) e w1 ∧
    if w1.bad then w' = w1 else
    ∃ w2, DrainAny w1.drainFuel w1 w2 ∧
    ∃ w3, (if w2.cfg.sweep then ∃ ws, SweepAny w2 ws ∧ DrainAny ws.drainFuel ws w3 else w3 = w2) ∧
      w' = if w3.task ≠ .none ∧ w3.reader ≠ [] then w3.emit .stall else w3

inductive StepsAny : World → List Ev → World → Prop
  | nil (w : World) : StepsAny w [] w
  | cons {w w1 w2 : World} {e : Ev} {es : List Ev} : StepAny w e w1 → StepsAny w1 es w2 → StepsAny w (e :: es) w2

/-- `out` is a possible transcript of the script under some resolution of every `select!` -/
def RunAny (cfg : Cfg) (evs : List Ev) (out : List Obs) : Prop :=
  ∃ w, StepsAny { cfg := cfg } evs w ∧ out = w.finishScript.out

/-! ## the model's execution is one resolution -/

theorem drainAny_drain (f : Nat) (w : World) : DrainAny f w (drain f w) := by
  induction f generalizing w with
  | zero => exact .zero w
  | succ f ih =>
    simp only [drain]
    cases hp : w.pick with
    | none => exact .idle f w hp
    | some t => exact .poll f t hp (pollTaskAny_pollTask w t) (ih _)

theorem sweepAny_sweep (w : World) : SweepAny w w.sweep := by
  unfold SweepAny sweep selSweepTasks
  simp only
  generalize ([Task.ctx] ++ List.map Task.op (sortNat (List.map (fun x => x.1) w.ops)) ++
    List.map Task.st (sortNat w.streams)) = tasks
  suffices h : ∀ (l : List Task) (w0 : World), SweepListAny l w0
      (l.foldl (fun w t => if w.taskLive t ∧ t ∉ w.woken ∧ t ∉ w.held then w.pollTask t else w) w0) from h tasks w
  intro l
  induction l with
  | nil => intro w0; exact .nil w0
  | cons t rest ih =>
    intro w0
    simp only [List.foldl_cons]
    split
    · rename_i hc; exact .poll hc (pollTaskAny_pollTask w0 t) (ih _)
    · rename_i hc; exact .skip hc (ih _)

theorem applyAny_apply (w : World) (e : Ev) : ApplyAny w e (w.apply e) := by
  cases e <;> try exact rfl
  rename_i t
  simp only [ApplyAny, apply]
  split
  · exact pollTaskAny_pollTask w t
  · rfl

theorem stepAny_step (w : World) (e : Ev) : StepAny w e (w.step e) := by
  unfold StepAny step
  split
  · rfl
  · refine ⟨_, applyAny_apply _ e, ?_⟩
    simp only
    split
    · rfl
    · refine ⟨_, drainAny_drain _ _, ?_⟩
      generalize drain _ _ = w2
      by_cases hs : w2.cfg.sweep = true
      · refine ⟨drain w2.sweep.drainFuel w2.sweep, ?_, ?_⟩
        · rw [if_pos hs]; exact ⟨_, sweepAny_sweep w2, drainAny_drain _ _⟩
        · simp only [hs, ↓reduceIte]
      · refine ⟨w2, ?_, ?_⟩
        · rw [if_neg hs]
        · simp only [hs, Bool.false_eq_true, ↓reduceIte]

theorem stepsAny_foldl (evs : List Ev) (w : World) : StepsAny w evs (evs.foldl step w) := by
  induction evs generalizing w with
  | nil => exact .nil w
  | cons e t ih => exact .cons (stepAny_step w e) (ih _)

theorem runAny_run (cfg : Cfg) (evs : List Ev) : RunAny cfg evs (World.run cfg evs) :=
  ⟨_, stepsAny_foldl evs _, rfl⟩

/-! ## invariants along every resolution -/

section Inv
variable {I : World → Prop}
  (hpoll : ∀ w t w', I w → PollTaskAny w t w' → I w')
  (happly : ∀ w e, I w → I (w.apply e))
  (hemit : ∀ w o, ((∃ e, o = Obs.ev e) ∨ o = Obs.stall) → I w → I (w.emit o))
include hpoll

theorem DrainAny.inv {f : Nat} {w w' : World} (h : DrainAny f w w') (hi : I w) : I w' := by
  induction h with
  | zero => exact hi
  | idle => exact hi
  | poll f t _ hp _ ih => exact ih (hpoll _ _ _ hi hp)

theorem SweepListAny.inv {l : List Task} {w w' : World} (h : SweepListAny l w w') (hi : I w) : I w' := by
  induction h with
  | nil => exact hi
  | poll _ hp _ ih => exact ih (hpoll _ _ _ hi hp)
  | skip _ _ ih => exact ih hi

include happly

theorem ApplyAny.inv {w : World} {e : Ev} {w' : World} (h : ApplyAny w e w') (hi : I w) : I w' := by
  cases e with
  | poll t =>
    simp only [ApplyAny] at h
    split at h
    · exact hpoll _ _ _ hi h
    · rw [h]; exact hi
  | _ => simp only [ApplyAny] at h; rw [h]; exact happly _ _ hi

include hemit

/-- **an invariant of `apply`, `emit` and of every possible poll holds after every possible step** -/
theorem StepAny.inv {w : World} {e : Ev} {w' : World} (h : StepAny w e w') (hi : I w) : I w' := by
  unfold StepAny at h
  split at h
  · rw [h]; exact hi
  · obtain ⟨w1, ha, h⟩ := h
    have h1 : I w1 := ApplyAny.inv hpoll happly ha (hemit _ _ (Or.inl ⟨_, rfl⟩) hi)
    split at h
    · rw [h]; exact h1
    · obtain ⟨w2, hd, w3, hs, rfl⟩ := h
      have h2 : I w2 := DrainAny.inv hpoll hd h1
      have h3 : I w3 := by
        split at hs
        · obtain ⟨ws, hs1, hs2⟩ := hs
          exact DrainAny.inv hpoll hs2 (SweepListAny.inv hpoll hs1 h2)
        · rw [hs]; exact h2
      split
      · exact hemit _ _ (Or.inr rfl) h3
      · exact h3

theorem StepsAny.inv {w : World} {evs : List Ev} {w' : World} (h : StepsAny w evs w') (hi : I w) : I w' := by
  induction h with
  | nil => exact hi
  | cons hs _ ih => exact ih (StepAny.inv hpoll happly hemit hs hi)

end Inv

/-! ## every resolution of a step is a sequence of moves -/

theorem pollTaskAny_moves {w : World} {t : Task} {w' : World} (h : PollTaskAny w t w') :
    Moves (TaskTag t) w w' := by
  rcases pollTaskAny_cases h with ⟨rfl, sched, rfl⟩ | ⟨_, rfl⟩
  · have h0 : Move none w (w.unwake .ctx) := .quiet (by simp) (fun _ => by simp) (by simp) (by simp) (by simp)
      (outExtP_of_eq (by simp))
    exact .step h0 (pollCtxS_moves sched _)
  · exact pollTask_moves w t

theorem drainAny_moves {f : Nat} {w w' : World} (h : DrainAny f w w') : Moves AnyTag w w' := by
  induction h with
  | zero => exact .refl _
  | idle => exact .refl _
  | poll f t _ hp _ ih => exact (pollTaskAny_moves hp).any.trans ih

theorem sweepListAny_moves {l : List Task} {w w' : World} (h : SweepListAny l w w') : Moves AnyTag w w' := by
  induction h with
  | nil => exact .refl _
  | poll _ hp _ ih => exact (pollTaskAny_moves hp).any.trans ih
  | skip _ _ ih => exact ih

theorem applyAny_decomp {w : World} {e : Ev} {w' : World} (h : ApplyAny w e w') :
    (∃ id hd req, e = .op id hd req ∧ AddOp id hd req w w') ∨ Moves (EvTag e) w w' := by
  cases e with
  | poll t =>
    right
    simp only [ApplyAny] at h
    split at h
    · exact pollTaskAny_moves h
    · rw [h]; exact .refl _
  | _ =>
    simp only [ApplyAny] at h
    rw [h]
    exact apply_decomp w _

/-- **one script step under any resolution**: nothing (the script already went wrong), or the logged event followed by
    moves, where an accepted `op` event first adds its fresh future (cf. `step_decomp`) -/
theorem stepAny_decomp {w : World} {e : Ev} {w' : World} (h : StepAny w e w') :
    w' = w ∨
    (∃ id hd req w1, e = .op id hd req ∧ AddOp id hd req (w.emit (.ev e)) w1 ∧ Moves AnyTag w1 w') ∨
    Moves AnyTag (w.emit (.ev e)) w' := by
  unfold StepAny at h
  split at h
  · exact Or.inl h
  · right
    obtain ⟨w1, ha, h⟩ := h
    have tail : Moves AnyTag w1 w' := by
      split at h
      · rw [h]; exact .refl _
      · obtain ⟨w2, hd, w3, hs, rfl⟩ := h
        have h2 : Moves AnyTag w1 w2 := drainAny_moves hd
        have h3 : Moves AnyTag w1 w3 := by
          split at hs
          · obtain ⟨ws, hs1, hs2⟩ := hs
            exact h2.trans ((sweepListAny_moves hs1).trans (drainAny_moves hs2))
          · rw [hs]; exact h2
        split
        · exact h3.trans (.one (.quiet rfl (fun _ => rfl) rfl rfl rfl (outExtP_one .stall rfl ⟨nofun, nofun⟩)))
        · exact h3
    rcases applyAny_decomp ha with ⟨id, hd, req, he, hadd⟩ | hm
    · exact Or.inl ⟨id, hd, req, w1, he, hadd, tail⟩
    · exact Or.inr (hm.any.trans tail)

end World
end Poster
