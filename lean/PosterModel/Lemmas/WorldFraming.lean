/-
  Lemmas/WorldFraming.lean — helper lemmas for Properties/C03World.lean (work package W12; everything lives in the
  namespace `Poster.World.W12`). Continued in Lemmas/WorldFramingScript.lean (whole scripts) and Lemmas/WorldFramingEx.lean
  (a concrete script evaluated by hand).

  Part A (pure framing): reader scripts with end-of-stream events (`dataOf_append_gen`), scripts without empty reads
  (`NoEmpty`) and the re-chunking done by `cfg.fill` / `cfg.rdp` (`mergeRuns_facts`, `interleave_facts`,
  `pollNext_noEmpty`), whole frames (`OneFrame` of Lemmas/WorldWirePkt.lean) and the reference framing of a byte string
  that starts with whole frames (`frames_whole_prefix`, `whole_prefix_comparable`, `frames_none_append`), and `FStep`: what
  any number of `pollNext` calls do to the bytes in flight on the receive side (`pollNext_fstep`).

  Part B (one poll of the context task): `inbound` (the bytes in flight on the receive side), `iterFrames` / `loopFrames` /
  `ctxFrames` (the frames one loop iteration / one poll of the loop / one poll of the context task hands to `decodeRx`;
  same recursion as `runIter` / `runLoop` / `pollCtx`), `WStep`, `pollCtx_wstep` (these frames are whole frames taken from
  the front of the bytes in flight), `loopHist_pkts` (the packets handed to `handle_packet` are their decodings).

  Part C: `pollCtx_idle` (a poll that leaves the call pending leaves the framing machine in `Idle`), `SockCause` and
  `pollCtx_sock` (a poll logs `RET … SocketClosed` only if a write is refused, an end-of-stream event is in the transport's
  script, or the bytes in flight contain a malformed remaining-length field).
-/
import PosterModel.Lemmas.WorldRet
import PosterModel.Lemmas.WorldFuelStall
import PosterModel.Lemmas.WorldReach
import PosterModel.Lemmas.WorldTweak
import PosterModel.Lemmas.WorldWireSent
import PosterModel.Lemmas.WorldWirePkt

set_option linter.unusedVariables false
set_option linter.unusedSimpArgs false

namespace Poster
open Framing
namespace World
namespace W12

/-! ## A.1 reader scripts -/

/-- `dataOf` of a concatenation: what follows an end-of-stream event is never delivered -/
theorem dataOf_append_gen (a b : List ReadEv) :
    dataOf (a ++ b) = if hasEnd a then dataOf a else dataOf a ++ dataOf b := by
  induction a with
  | nil => simp [dataOf, hasEnd]
  | cons e t ih =>
    cases e with
    | data bs =>
      by_cases hb : bs.length = 0
      · simp [dataOf, hasEnd, ReadEv.isEnd, hb]
      · simp only [List.cons_append, dataOf, hb, if_false, hasEnd, ReadEv.isEnd, decide_false, Bool.false_or, ih]
        split <;> simp
    | pending => simpa [dataOf, hasEnd, ReadEv.isEnd] using ih
    | eof => simp [dataOf, hasEnd, ReadEv.isEnd]
    | err => simp [dataOf, hasEnd, ReadEv.isEnd]

/-- no zero-length read in the script -/
def NoEmpty (rs : List ReadEv) : Prop := ∀ bs, ReadEv.data bs ∈ rs → bs ≠ []

theorem noEmpty_nil : NoEmpty [] := by intro bs h; simp at h

theorem noEmpty_cons {e : ReadEv} {rs : List ReadEv} (h : NoEmpty (e :: rs)) : NoEmpty rs :=
  fun bs hb => h bs (List.mem_cons_of_mem _ hb)

theorem noEmpty_append {a b : List ReadEv} (ha : NoEmpty a) (hb : NoEmpty b) : NoEmpty (a ++ b) := by
  intro bs h
  rcases List.mem_append.mp h with h | h
  · exact ha bs h
  · exact hb bs h

/-- `cfg.fill`: adjacent reads are merged. Without zero-length reads this changes neither the bytes delivered, nor
    whether the script ends, nor the absence of zero-length reads. -/
theorem mergeRuns_facts (l : List ReadEv) (h : NoEmpty l) :
    dataOf (mergeRuns l) = dataOf l ∧ hasEnd (mergeRuns l) = hasEnd l ∧ NoEmpty (mergeRuns l) := by
  fun_induction mergeRuns l with
  | case1 a b rest ih =>
    have ha : a ≠ [] := h a (by simp)
    have hb : b ≠ [] := h b (by simp)
    have hab : a ++ b ≠ [] := by simp [ha]
    have h' : NoEmpty (.data (a ++ b) :: rest) := by
      intro bs hbs
      rcases List.mem_cons.mp hbs with e | e
      · cases e; exact hab
      · exact h bs (by simp [e])
    obtain ⟨i1, i2, i3⟩ := ih h'
    refine ⟨?_, ?_, i3⟩
    · rw [i1]
      have la : ¬ a.length = 0 := by simpa using ha
      have lb : ¬ b.length = 0 := by simpa using hb
      have lab : ¬ (a ++ b).length = 0 := by simpa using hab
      simp only [dataOf, la, lb, lab, if_false, List.append_assoc]
    · rw [i2]
      have la : ¬ a.length = 0 := by simpa using ha
      have lb : ¬ b.length = 0 := by simpa using hb
      have lab : ¬ (a.length + b.length = 0) := by omega
      simp [hasEnd, ReadEv.isEnd, la, lb, lab]
  | case2 e rest hne ih =>
    obtain ⟨i1, i2, i3⟩ := ih (noEmpty_cons h)
    refine ⟨?_, ?_, ?_⟩
    · cases e <;> simp [dataOf, i1]
    · simp [hasEnd, i2]
    · intro bs hbs
      rcases List.mem_cons.mp hbs with e' | e'
      · exact h bs (by simp [e'])
      · exact i3 bs e'
  | case3 => exact ⟨rfl, rfl, noEmpty_nil⟩

/-- `cfg.rdp`: a spurious `Pending` in front of every read -/
theorem interleave_facts (evs : List ReadEv) :
    dataOf (evs.flatMap fun e => [ReadEv.pending, e]) = dataOf evs ∧
    hasEnd (evs.flatMap fun e => [ReadEv.pending, e]) = hasEnd evs ∧
    (NoEmpty evs → NoEmpty (evs.flatMap fun e => [ReadEv.pending, e])) := by
  induction evs with
  | nil => exact ⟨rfl, rfl, fun h => h⟩
  | cons e t ih =>
    obtain ⟨i1, i2, i3⟩ := ih
    refine ⟨?_, ?_, ?_⟩
    · cases e <;> simp [dataOf, i1]
    · simp [hasEnd, ReadEv.isEnd, i2]
    · intro h bs hbs
      simp only [List.flatMap_cons, List.cons_append, List.nil_append, List.mem_cons, reduceCtorEq, false_or] at hbs
      rcases hbs with e' | e'
      · exact h bs (by simp [e'])
      · exact i3 (noEmpty_cons h) bs e'

/-- a `poll_next` call never creates a zero-length read -/
theorem pollNext_noEmpty (s : Rx) (rs : List ReadEv) (h : NoEmpty rs) : NoEmpty (pollNext s rs).2.1 := by
  fun_induction pollNext s rs with
  | case1 => exact noEmpty_nil
  | case2 s hst rs' => exact noEmpty_cons h
  | case3 => exact h
  | case4 => exact h
  | case5 => exact h
  | case6 s hst bs rs' hb0 c hb v hv ih => exact ih (noEmpty_cons h)
  | case7 s hst bs rs' hb0 c hb v hv ih => exact ih (noEmpty_cons h)
  | case8 s hst bs rs' hb0 c hb v hv ih =>
    apply ih
    intro b hb'
    rcases List.mem_cons.mp hb' with e | e
    · cases e
      intro h0
      have := congrArg List.length h0
      simp at this; omega
    · exact h b (List.mem_cons_of_mem _ e)
  | case9 s hst bs rs' hb0 c hb v hv ih =>
    apply ih
    intro b hb'
    rcases List.mem_cons.mp hb' with e | e
    · cases e
      intro h0
      have := congrArg List.length h0
      simp at this; omega
    · exact h b (List.mem_cons_of_mem _ e)
  | case10 s rs hst e k hf ih => exact ih h
  | case11 s rs hst hf ih => exact ih h
  | case12 => exact h
  | case13 s rs hst hlt ih => exact ih h
  | case14 => exact h

/-! ## A.2 whole frames and the reference framing -/

/-! `OneFrame fr` (Lemmas/WorldWirePkt.lean): `fr` is exactly one complete frame — its length field is complete and
    announces exactly `fr.length` bytes. -/

/-- the reference framing of whole frames followed by anything: the whole frames, then the framing of the rest -/
theorem frames_whole_prefix (dec : List Bytes) (rest : Bytes) (h : ∀ fr ∈ dec, OneFrame fr) :
    frames (dec.flatten ++ rest) = (frames rest).map fun q => (dec ++ q.1, q.2) := by
  induction dec with
  | nil =>
    simp only [List.flatten_nil, List.nil_append]
    cases frames rest <;> simp
  | cons p ps ih =>
    obtain ⟨k, hk⟩ := h p (by simp)
    rw [List.flatten_cons, List.append_assoc, frames_cons p _ k hk, ih (fun q hq => h q (by simp [hq]))]
    cases frames rest <;> simp

/-- two lists of whole frames that are prefixes of the same byte string: one is a prefix of the other -/
theorem whole_prefix_comparable (d1 d2 : List Bytes) (r1 r2 : Bytes) (h1 : ∀ fr ∈ d1, OneFrame fr)
    (h2 : ∀ fr ∈ d2, OneFrame fr) (h : d1.flatten ++ r1 = d2.flatten ++ r2) : d1 <+: d2 ∨ d2 <+: d1 := by
  induction d1 generalizing d2 with
  | nil => exact Or.inl List.nil_prefix
  | cons p ps ih =>
    cases d2 with
    | nil => exact Or.inr List.nil_prefix
    | cons q qs =>
      obtain ⟨k, hk⟩ := h1 p (by simp)
      obtain ⟨k', hk'⟩ := h2 q (by simp)
      simp only [List.flatten_cons, List.append_assoc] at h
      have e1 := frameLen_ok_append p (ps.flatten ++ r1) _ _ hk
      rw [h, frameLen_ok_append q _ _ _ hk'] at e1
      simp only [VarRes.ok.injEq] at e1
      have hpq := List.append_inj h e1.1.symm
      rcases ih qs (fun r hr => h1 r (by simp [hr])) (fun r hr => h2 r (by simp [hr])) hpq.2 with h' | h'
      · exact Or.inl (by rw [hpq.1]; exact List.cons_prefix_cons.mpr ⟨rfl, h'⟩)
      · exact Or.inr (by rw [hpq.1]; exact List.cons_prefix_cons.mpr ⟨rfl, h'⟩)

/-- a malformed length field stays malformed whatever follows -/
theorem frames_none_append (a x : Bytes) (h : frames a = none) : frames (a ++ x) = none := by
  suffices hs : ∀ n (a : Bytes), a.length ≤ n → frames a = none → frames (a ++ x) = none from hs _ a (Nat.le_refl _) h
  intro n
  induction n with
  | zero =>
    intro a hl h
    have : a = [] := List.eq_nil_of_length_eq_zero (by omega)
    subst this
    rw [frames_nil] at h; cases h
  | succ n ih =>
    intro a hl h
    rw [frames_unfold] at h ⊢
    cases hf : frameLen a with
    | bad => rw [frameLen_bad_append a x hf]
    | need => rw [hf] at h; cases h
    | ok e k =>
      rw [hf] at h
      rw [frameLen_ok_append a x e k hf]
      simp only at h ⊢
      by_cases hlt : a.length < e
      · rw [if_pos hlt] at h; cases h
      · rw [if_neg hlt] at h
        have he := (frameLen_ok_ge a e k hf).1
        have hd : frames (a.drop e) = none := by
          cases hfd : frames (a.drop e) with
          | none => rfl
          | some q => rw [hfd] at h; cases h
        have hlen : ¬ (a ++ x).length < e := by simp; omega
        rw [if_neg hlen, List.drop_append_of_le_length (by omega), ih (a.drop e) (by simp; omega) hd]
        rfl

/-! ## A.3 what `pollNext` calls do to the bytes in flight -/

/-- the frame an outcome of `poll_next` carries -/
def outFrames : Out → List Bytes
  | .item fr => [fr]
  | _ => []

/-- `(s, rs)` — framing state and transport script — becomes `(s', rs')` while the frames `frs` are yielded:
    the invariant is kept, `frs` are whole frames taken from the FRONT of the bytes in flight, end-of-stream events
    are neither consumed nor invented, no zero-length read is created -/
structure FStep (s : Rx) (rs : List ReadEv) (s' : Rx) (rs' : List ReadEv) (frs : List Bytes) : Prop where
  ok : s.Ok → s'.Ok
  inb : s.Ok → s.valid ++ dataOf rs = frs.flatten ++ (s'.valid ++ dataOf rs')
  whole : s.Ok → ∀ fr ∈ frs, OneFrame fr
  ends : hasEnd rs' = hasEnd rs
  noEmpty : NoEmpty rs → NoEmpty rs'

theorem FStep.refl (s : Rx) (rs : List ReadEv) : FStep s rs s rs [] :=
  ⟨id, fun _ => by simp, fun _ fr h => by simp at h, rfl, id⟩

theorem FStep.of_eq {s s' : Rx} {rs rs' : List ReadEv} (h1 : s' = s) (h2 : rs' = rs) : FStep s rs s' rs' [] := by
  subst h1; subst h2; exact FStep.refl _ _

theorem FStep.trans {s1 s2 s3 : Rx} {r1 r2 r3 : List ReadEv} {f1 f2 : List Bytes}
    (h1 : FStep s1 r1 s2 r2 f1) (h2 : FStep s2 r2 s3 r3 f2) : FStep s1 r1 s3 r3 (f1 ++ f2) where
  ok := fun h => h2.ok (h1.ok h)
  inb := fun h => by rw [h1.inb h, h2.inb (h1.ok h)]; simp
  whole := fun h fr hfr => by
    rcases List.mem_append.mp hfr with m | m
    · exact h1.whole h fr m
    · exact h2.whole (h1.ok h) fr m
  ends := h2.ends.trans h1.ends
  noEmpty := fun h => h2.noEmpty (h1.noEmpty h)

/-- one call of `poll_next` -/
theorem pollNext_fstep {s : Rx} {rs : List ReadEv} {s' : Rx} {rs' : List ReadEv} {o : Out}
    (hp : pollNext s rs = (s', rs', o)) : FStep s rs s' rs' (outFrames o) where
  ok := fun h => by have := pollNext_ok s rs h; rw [hp] at this; exact this
  inb := fun h => by
    cases o with
    | item fr => simpa [outFrames] using (pollNext_item h hp).1
    | none => simpa [outFrames] using (pollNext_none h hp).1
    | pending => simpa [outFrames] using (pollNext_pending h hp).1
  whole := fun h fr hfr => by
    cases o with
    | item fr' =>
      simp only [outFrames, List.mem_singleton] at hfr
      subst hfr
      exact (pollNext_item h hp).2.1
    | none => simp [outFrames] at hfr
    | pending => simp [outFrames] at hfr
  ends := pollNext_hasEnd' hp
  noEmpty := fun h => by have := pollNext_noEmpty s rs h; rw [hp] at this; exact this

/-- the frame (if any) the next call of `poll_next` yields -/
def nextFrame (s : Rx) (rs : List ReadEv) : List Bytes := outFrames (pollNext s rs).2.2

theorem nextFrame_eq {s : Rx} {rs : List ReadEv} {s' : Rx} {rs' : List ReadEv} {o : Out}
    (hp : pollNext s rs = (s', rs', o)) : nextFrame s rs = outFrames o := by
  simp [nextFrame, hp]

/-! ## B. the context task: which frames one poll hands to the decoder -/

/-- **the bytes in flight on the receive side**: received and buffered but not yet emitted (`rx.valid`), followed by
    what the transport will still deliver before it ends (`dataOf reader`) -/
def inbound (w : World) : Bytes := w.rx.valid ++ dataOf w.reader

/-- `w` becomes `w'` while the framing layer yields the frames `frs` (and the context is not dropped meanwhile) -/
structure WStep (w w' : World) (frs : List Bytes) : Prop where
  fs : FStep w.rx w.reader w'.rx w'.reader frs
  dropped : w'.ctxDropped = w.ctxDropped

theorem WStep.refl (w : World) : WStep w w [] := ⟨FStep.refl _ _, rfl⟩

theorem WStep.of_eq {w w' : World} (h1 : w'.rx = w.rx) (h2 : w'.reader = w.reader)
    (h3 : w'.ctxDropped = w.ctxDropped) : WStep w w' [] := ⟨FStep.of_eq h1 h2, h3⟩

theorem WStep.trans {a b c : World} {f1 f2 : List Bytes} (h1 : WStep a b f1) (h2 : WStep b c f2) :
    WStep a c (f1 ++ f2) := ⟨h1.fs.trans h2.fs, h2.dropped.trans h1.dropped⟩

/-- the same step seen from a world with the same receive side -/
theorem WStep.congr_left {w0 w w' : World} {frs : List Bytes} (h : WStep w0 w' frs) (h1 : w0.rx = w.rx)
    (h2 : w0.reader = w.reader) (h3 : w0.ctxDropped = w.ctxDropped) : WStep w w' frs := by
  obtain ⟨fs, d⟩ := h
  rw [h1, h2] at fs
  exact ⟨fs, d.trans h3⟩

/-- a step that is one call of `poll_next` -/
theorem wstep_poll {w w' : World} {rx' : Rx} {rd' : List ReadEv} {o : Out}
    (hp : pollNext w.rx w.reader = (rx', rd', o)) (h1 : w'.rx = rx') (h2 : w'.reader = rd')
    (h3 : w'.ctxDropped = w.ctxDropped) : WStep w w' (nextFrame w.rx w.reader) := by
  rw [nextFrame_eq hp]
  refine ⟨?_, h3⟩
  rw [h1, h2]
  exact pollNext_fstep hp

/-- the frame one iteration of the `select!` loop hands to `decodeRx` (none if a message is queued — the loop handles
    it first — or if no sender is left, or if the framing layer yields no frame) -/
def iterFrames (w : World) : List Bytes :=
  match w.queue with
  | _ :: _ => []
  | [] => if w.senders = 0 then [] else nextFrame w.rx w.reader

/-- the frames one poll of the `select!` loop hands to `decodeRx`, in order (same recursion as `runLoop`) -/
def loopFrames : Nat → World → List Bytes
  | 0, _ => []
  | f+1, w => iterFrames w ++ (match runIter w with | .inl w1 => loopFrames f w1 | .inr _ => [])

/-- **the frames one poll of the context task hands to `decodeRx`** (`w.pollCtx`): none if no call is executing;
    `connect()` / `authorize()` hand over the first frame the framing layer yields (on their first poll only if the
    request was valid and written); `run()` hands over the frames of its loop (on its first poll after the session was
    resumed and the unfinished handshakes re-sent, if the transport took them) -/
def ctxFrames (w : World) : List Bytes :=
  match w.task with
  | .none => []
  | .connecting call t a started =>
    if started then nextFrame w.rx w.reader
    else if reqValid call t a && w.canWrite (W7.reqBytes call t a).length then nextFrame w.rx w.reader else []
  | .running started =>
    if started then loopFrames w.loopFuel w
    else if w.resumed.canWrite ((w.c.resume.2.2.map List.length).sum) then loopFrames w.resent.loopFuel w.resent
    else []

theorem runCont_wstep {w w1 : World} (h : RunCont w w1) : WStep w w1 (iterFrames w) := by
  cases h with
  | msg m q w1 hq hr =>
    have e : w1 = (World.runHandler { w with queue := q } (fun wok => w.c.handleMsg m wok)).1 := by rw [hr]
    subst e
    have : iterFrames w = [] := by simp [iterFrames, hq]
    rw [this]
    exact WStep.of_eq (by simp) (by simp) (by simp)
  | pkt rx' rd' fr p w1 hq hs hp hd hr =>
    have e : w1 = (World.runHandler { w with rx := rx', reader := rd' }
        (fun wok => w.c.handlePkt w.chanRxAlive p wok)).1 := by rw [hr]
    subst e
    have : iterFrames w = nextFrame w.rx w.reader := by simp [iterFrames, hq, hs]
    rw [this]
    exact wstep_poll hp (by simp) (by simp) (by simp)

theorem runEnd_wstep {w r : World} (h : RunEnd w r) : WStep w r (iterFrames w) := by
  cases h with
  | msgExit m q w1 fl hq hr hne =>
    have e : w1 = (World.runHandler { w with queue := q } (fun wok => w.c.handleMsg m wok)).1 := by rw [hr]
    subst e
    have : iterFrames w = [] := by simp [iterFrames, hq]
    rw [this]
    exact WStep.of_eq (by simp) (by simp) (by simp)
  | closed hq hs =>
    have : iterFrames w = [] := by simp [iterFrames, hq, hs]
    rw [this]
    exact WStep.of_eq (by simp) (by simp) (by simp)
  | pktExit rx' rd' fr p w1 fl hq hs hp hd hr hne =>
    have e : w1 = (World.runHandler { w with rx := rx', reader := rd' }
        (fun wok => w.c.handlePkt w.chanRxAlive p wok)).1 := by rw [hr]
    subst e
    have : iterFrames w = nextFrame w.rx w.reader := by simp [iterFrames, hq, hs]
    rw [this]
    exact wstep_poll hp (by simp) (by simp) (by simp)
  | codec rx' rd' fr hq hs hp hd =>
    have : iterFrames w = nextFrame w.rx w.reader := by simp [iterFrames, hq, hs]
    rw [this]
    exact wstep_poll hp (by simp) (by simp) (by simp)
  | panic rx' rd' fr hq hs hp hd =>
    have : iterFrames w = nextFrame w.rx w.reader := by simp [iterFrames, hq, hs]
    rw [this]
    exact wstep_poll hp (by simp) (by simp) (by simp)
  | sock rx' rd' hq hs hp =>
    have : iterFrames w = nextFrame w.rx w.reader := by simp [iterFrames, hq, hs]
    rw [this]
    exact wstep_poll hp (by simp) (by simp) (by simp)
  | pending rx' rd' hq hs hp =>
    have : iterFrames w = nextFrame w.rx w.reader := by simp [iterFrames, hq, hs]
    rw [this]
    by_cases hrd : rd' = []
    · rw [if_pos hrd]; exact wstep_poll hp rfl rfl rfl
    · rw [if_neg hrd]; exact wstep_poll hp (by simp) (by simp) (by simp)

/-- **one poll of the loop** yields exactly the frames `loopFrames` lists -/
theorem runLoop_wstep (f : Nat) (w : World) : WStep w (runLoop f w) (loopFrames f w) := by
  induction f generalizing w with
  | zero => exact WStep.refl w
  | succ f ih =>
    rw [runLoop_succ]
    simp only [loopFrames]
    cases h : runIter w with
    | inl w1 => exact (runCont_wstep (runIter_inl h)).trans (ih w1)
    | inr r => simpa using runEnd_wstep (runIter_inr h)

theorem firstEnd_wstep {w r : World} {call : Call} {t : ConnectTx} {a : AuthTx} (h : FirstEnd w call t a r) :
    WStep w r (nextFrame w.rx w.reader) := by
  cases h with
  | connack rx' rd' fr k hp => exact wstep_poll hp rfl rfl rfl
  | refused rx' rd' fr k hp => exact wstep_poll hp rfl rfl rfl
  | assertSubId rx' rd' fr k hp => exact wstep_poll hp rfl rfl rfl
  | auth rx' rd' fr au hp => exact wstep_poll hp rfl rfl rfl
  | unexpected rx' rd' fr p hp => exact wstep_poll hp rfl rfl rfl
  | codec rx' rd' fr hp => exact wstep_poll hp rfl rfl rfl
  | panic rx' rd' fr hp => exact wstep_poll hp rfl rfl rfl
  | sock rx' rd' hp => exact wstep_poll hp rfl rfl rfl
  | pending rx' rd' hp =>
    by_cases hrd : rd' = []
    · rw [if_pos hrd]; exact wstep_poll hp rfl rfl rfl
    · rw [if_neg hrd]; exact wstep_poll hp (by simp) (by simp) (by simp)

theorem resent_recv (w : World) :
    w.resent.rx = w.rx ∧ w.resent.reader = w.reader ∧ w.resent.ctxDropped = w.ctxDropped := by
  refine ⟨?_, ?_, ?_⟩
  · rw [resent, (foldl_writeBytes_frame _ _).1]; simp [resumed]
  · rw [resent, (foldl_writeBytes_frame _ _).2.1]; simp [resumed]
  · rw [resent, foldl_writeBytes_eq_applyEffs]; simp [resumed]

/-- **one poll of the context task** yields exactly the frames `ctxFrames` lists: they are whole frames taken from the
    front of the bytes in flight, in order -/
theorem pollCtx_wstep (w : World) : WStep w w.pollCtx (ctxFrames w) := by
  unfold pollCtx ctxFrames
  cases ht : w.task with
  | none => exact WStep.refl w
  | connecting call t a started =>
    simp only
    cases started with
    | true =>
      simp only [pollConnect, ↓reduceIte]
      exact firstEnd_wstep (awaitFirst_spec w call t a)
    | false =>
      rw [W7.pollConnect_false_eq]
      simp only [Bool.false_eq_true, ↓reduceIte]
      obtain ⟨s1, s2, _, _, _⟩ := W7.seiSet_facts w call t
      have s3 : (W7.seiSet w call t).ctxDropped = w.ctxDropped := by cases call <;> rfl
      cases hv : reqValid call t a with
      | false =>
        simp only [Bool.not_false, ↓reduceIte, Bool.false_and, Bool.false_eq_true]
        exact WStep.of_eq (by simp) (by simp) (by simp)
      | true =>
        cases hc : w.canWrite (W7.reqBytes call t a).length with
        | false =>
          simp only [Bool.not_true, Bool.false_eq_true, ↓reduceIte, Bool.and_false]
          exact WStep.of_eq (by simp [s1]) (by simp [s2]) (by simp [s3])
        | true =>
          simp only [Bool.not_true, Bool.false_eq_true, ↓reduceIte, Bool.and_self]
          have h0 := firstEnd_wstep (awaitFirst_spec ((W7.seiSet w call t).writeBytes (W7.reqBytes call t a)) call t a)
          have e1 : ((W7.seiSet w call t).writeBytes (W7.reqBytes call t a)).rx = w.rx := by simp [s1]
          have e2 : ((W7.seiSet w call t).writeBytes (W7.reqBytes call t a)).reader = w.reader := by simp [s2]
          have e3 : ((W7.seiSet w call t).writeBytes (W7.reqBytes call t a)).ctxDropped = w.ctxDropped := by simp [s3]
          rw [e1, e2] at h0
          exact h0.congr_left e1 e2 e3
  | running started =>
    simp only
    cases started with
    | true =>
      simp only [pollRun, ↓reduceIte]
      exact runLoop_wstep _ w
    | false =>
      rw [pollRun_first_eq]
      simp only [Bool.false_eq_true, ↓reduceIte]
      obtain ⟨e1, e2, e3⟩ := resent_recv w
      split
      · exact (runLoop_wstep _ w.resent).congr_left e1 e2 e3
      · exact WStep.of_eq (by simp [resumed]) (by simp [resumed]) (by simp [resumed])

/-! ### the handlers run on the decodings of exactly these frames -/

/-- the inbound packet a handler input carries -/
def pktOfIn : CIn → Option RxPacket
  | .pkt p _ _ => some p
  | _ => none

/-- the packet a frame decodes to, if it decodes -/
def okOf (fr : Bytes) : Option RxPacket :=
  match decodeRx fr with
  | .ok p => some p
  | _ => none

/-- **the inbound packets the loop hands to `handle_packet` during one poll** (`loopHist`, Lemmas/WorldCtx.lean) **are the
    decodings of the frames `loopFrames` lists, in order** (the poll ends at the first frame that does not decode) -/
theorem loopHist_pkts (f : Nat) (w : World) :
    (loopHist f w).filterMap pktOfIn = (loopFrames f w).filterMap okOf := by
  induction f generalizing w with
  | zero => rfl
  | succ f ih =>
    rw [loopHist_succ]
    simp only [loopFrames]
    rcases runIter_spec w with ⟨w1, e1, hc⟩ | ⟨r, e1, he⟩
    · rw [e1]
      cases hc with
      | msg m q w1 hq hr =>
        have h1 : w.iterIn = some (w.inMsg m) := by simp [iterIn, hq]
        have h2 : iterFrames w = [] := by simp [iterFrames, hq]
        rw [h1, h2]
        simp only [inMsg, List.filterMap_cons, pktOfIn, List.nil_append]
        exact ih w1
      | pkt rx' rd' fr p w1 hq hs hp hd hr =>
        have h1 : w.iterIn = some (w.inPkt p) := by simp [iterIn, hq, hs, hp, hd]
        have h2 : iterFrames w = [fr] := by simp [iterFrames, hq, hs, nextFrame, hp, outFrames]
        rw [h1, h2]
        simp only [inPkt, List.filterMap_cons, pktOfIn, List.singleton_append, okOf, hd]
        rw [ih w1]
    · rw [e1]
      cases he with
      | msgExit m q w1 fl hq hr hne =>
        have h1 : w.iterIn = some (w.inMsg m) := by simp [iterIn, hq]
        have h2 : iterFrames w = [] := by simp [iterFrames, hq]
        rw [h1, h2]; simp [pktOfIn, inMsg, List.filterMap_cons]
      | closed hq hs =>
        have h1 : w.iterIn = none := by simp [iterIn, hq, hs]
        have h2 : iterFrames w = [] := by simp [iterFrames, hq, hs]
        rw [h1, h2]; rfl
      | pktExit rx' rd' fr p w1 fl hq hs hp hd hr hne =>
        have h1 : w.iterIn = some (w.inPkt p) := by simp [iterIn, hq, hs, hp, hd]
        have h2 : iterFrames w = [fr] := by simp [iterFrames, hq, hs, nextFrame, hp, outFrames]
        rw [h1, h2]; simp [pktOfIn, inPkt, okOf, hd, List.filterMap_cons]
      | codec rx' rd' fr hq hs hp hd =>
        have h1 : w.iterIn = none := by simp [iterIn, hq, hs, hp, hd]
        have h2 : iterFrames w = [fr] := by simp [iterFrames, hq, hs, nextFrame, hp, outFrames]
        rw [h1, h2]; simp [okOf, hd, List.filterMap_cons]
      | panic rx' rd' fr hq hs hp hd =>
        have h1 : w.iterIn = none := by simp [iterIn, hq, hs, hp, hd]
        have h2 : iterFrames w = [fr] := by simp [iterFrames, hq, hs, nextFrame, hp, outFrames]
        rw [h1, h2]; simp [okOf, hd, List.filterMap_cons]
      | sock rx' rd' hq hs hp =>
        have h1 : w.iterIn = none := by simp [iterIn, hq, hs, hp]
        have h2 : iterFrames w = [] := by simp [iterFrames, hq, hs, nextFrame, hp, outFrames]
        rw [h1, h2]; rfl
      | pending rx' rd' hq hs hp =>
        have h1 : w.iterIn = none := by simp [iterIn, hq, hs, hp]
        have h2 : iterFrames w = [] := by simp [iterFrames, hq, hs, nextFrame, hp, outFrames]
        rw [h1, h2]; rfl

/-! ## C. one poll of the context task: the framing machine is idle when the call stays pending; why `SocketClosed` -/

/-- a poll that leaves the call pending ended with the framing layer returning `Pending`: the machine is in `Idle` -/
theorem pollCtx_idle (w : World) (hok : w.rx.Ok) (h : w.pollCtx.task ≠ .none) : w.pollCtx.rx.st = .idle := by
  unfold World.pollCtx at h ⊢
  cases ht : w.task with
  | none => simp [ht] at h
  | connecting call t a started =>
    simp only [ht] at h ⊢
    cases started with
    | true =>
      simp only [World.pollConnect, ↓reduceIte] at h ⊢
      rcases World.firstEnd_out (World.awaitFirst_spec w call t a) with ⟨h1, _⟩ | ⟨_, _, _, _, _, h6⟩
      · exact absurd h1 h
      · exact (pollNext_pending hok h6).2.2
    | false =>
      rcases World.pollConnect_prelude w call t a with ⟨_, h2⟩ | ⟨_, w0, a1, a2, _, _, _, _, _, h2 | h2⟩
      · rw [h2] at h; exact absurd rfl h
      · rw [h2] at h ⊢
        rcases World.firstEnd_out (World.awaitFirst_spec w0 call t a) with ⟨h1, _⟩ | ⟨_, _, _, _, _, h6⟩
        · exact absurd h1 h
        · exact (pollNext_pending (a1 ▸ hok) h6).2.2
      · rw [h2] at h; exact absurd rfl h
  | running started =>
    simp only [ht] at h ⊢
    cases started with
    | true =>
      simp only [World.pollRun, ↓reduceIte] at h ⊢
      obtain ⟨wm, _, hwok, _, hp⟩ := (World.runLoop_alive_facts w hok h).2.2.2.2.2
      exact (pollNext_pending hwok hp).2.2
    | false =>
      obtain ⟨w0, a1, _, _, _, _, _, _, h2 | h2⟩ := World.pollRun_prelude w
      · rw [h2] at h ⊢
        obtain ⟨wm, _, hwok, _, hp⟩ := (World.runLoop_alive_facts w0 (a1 ▸ hok) h).2.2.2.2.2
        exact (pollNext_pending hwok hp).2.2
      · rw [h2] at h; exact absurd rfl h

/-- not a `RET … SocketClosed` line -/
def NoSock (o : Obs) : Prop := ∀ c, o ≠ .ret c (.err .socketClosed)

theorem noSock_of_noRet {o : Obs} (h : W7.NoRet o) : NoSock o := fun c => h c _

theorem noSock_of_quiet {l : List Obs} (h : Quiet l) : ∀ o ∈ l, NoSock o := by
  intro o ho c e
  obtain ⟨bs, hb | hb⟩ := h o ho <;> rw [hb] at e <;> cases e

/-- **why the transport may be reported closed**, seen from the world `w`: the transport refuses writes at some point
    (a write limit is configured), or an end-of-stream event (`eof`, `err`, zero-length read) is in the transport's
    script, or the bytes in flight contain a malformed remaining-length field -/
def SockCause (w : World) : Prop := w.cfg.wlimit ≠ none ∨ hasEnd w.reader = true ∨ frames (inbound w) = none

/-- the framing layer reports end-of-stream only for one of the two documented reasons -/
theorem sockCause_of_none {w : World} {rx' : Rx} {rd' : List ReadEv} (hok : w.rx.Ok)
    (hp : pollNext w.rx w.reader = (rx', rd', .none)) : SockCause w := by
  obtain ⟨hcons, _, hor⟩ := pollNext_none hok hp
  rcases hor with ⟨_, he⟩ | ⟨_, hb⟩
  · exact Or.inr (Or.inl (by rw [← pollNext_hasEnd' hp]; exact atEnd_hasEnd _ he))
  · exact Or.inr (Or.inr (by unfold inbound; rw [hcons]; exact frames_bad _ _ hb))

theorem sockCause_of_refused {w : World} {n : Nat} (h : w.canWrite n = false) : SockCause w := by
  refine Or.inl (fun hl => ?_)
  rw [canWrite_unlimited w hl] at h; cases h

/-- a cause found later in the same poll is a cause now -/
theorem SockCause.back {w wm : World} {frs : List Bytes} (hs : WStep w wm frs) (hok : w.rx.Ok)
    (hc : wm.cfg = w.cfg) (h : SockCause wm) : SockCause w := by
  rcases h with h | h | h
  · exact Or.inl (by rw [← hc]; exact h)
  · exact Or.inr (Or.inl (by rw [← hs.fs.ends]; exact h))
  · refine Or.inr (Or.inr ?_)
    have e : inbound w = frs.flatten ++ inbound wm := hs.fs.inb hok
    rw [e, frames_whole_prefix _ _ (hs.fs.whole hok), h]; rfl

theorem serve_wstep {w wm : World} (h : Serve w wm) : ∃ frs, WStep w wm frs := by
  induction h with
  | refl w => exact ⟨[], WStep.refl w⟩
  | step hc _ ih =>
    obtain ⟨frs, h2⟩ := ih
    exact ⟨_, (runCont_wstep hc).trans h2⟩

theorem snoc_inj {α} {a b : List α} {x y : α} (h : a ++ [x] = b ++ [y]) : a = b ∧ x = y := by
  have := List.append_inj' h rfl
  exact ⟨this.1, by simpa using this.2⟩

/-- **why a poll of the context task logs `RET … SocketClosed`**: only for a `SockCause` -/
theorem pollCtx_sock (w : World) (hok : w.rx.Ok) (added : List Obs) (ho : w.pollCtx.out = w.out ++ added)
    (c : Call) (hm : Obs.ret c (.err .socketClosed) ∈ added) : SockCause w := by
  rcases W7.pollCtx_shape w with ⟨_, pre, hq, hp⟩ | ⟨hn, pre, last, hq, hp, _⟩
  · rw [hp] at ho
    have : added = pre := (List.append_cancel_left ho).symm
    subst this
    exact absurd rfl (noSock_of_quiet hq _ hm c)
  · rw [hp, List.append_assoc] at ho
    have : added = pre ++ [last] := (List.append_cancel_left ho).symm
    subst this
    rcases List.mem_append.mp hm with hm | hm
    · exact absurd rfl (noSock_of_quiet hq _ hm c)
    · simp only [List.mem_singleton] at hm
      subst hm
      cases ht : w.task with
      | none =>
        have e : w.pollCtx = w := by simp [pollCtx, ht]
        rw [e] at hp
        have := congrArg List.length hp
        simp at this
      | connecting call t a s =>
        rcases W7.pollConnect_cause w call t a s ht hn with ⟨r, pre', ho', hc⟩ | ⟨pre', cls, ho'⟩
        · rw [hp] at ho'
          obtain ⟨_, e⟩ := snoc_inj ho'
          cases e
          cases hc with
          | writeFailed _ _ hcw => exact sockCause_of_refused hcw
          | response w0 _ h1 h2 hf =>
            have e0 : w0.rx = w.rx ∧ w0.reader = w.reader := by
              cases s with
              | true => rw [h1 rfl]; exact ⟨rfl, rfl⟩
              | false => exact ⟨(h2 rfl).2.2.1, (h2 rfl).2.2.2.1⟩
            cases hf with
            | streamEnded rx' rd' hpn =>
              rw [e0.1, e0.2] at hpn
              exact sockCause_of_none hok hpn
        · rw [hp] at ho'
          obtain ⟨_, e⟩ := snoc_inj ho'
          cases e
      | running s =>
        rcases W7.pollRun_cause w s ht hn with ⟨r, pre', ho', hc⟩ | ⟨pre', ho'⟩
        · rw [hp] at ho'
          obtain ⟨_, e⟩ := snoc_inj ho'
          cases e
          cases hc with
          | resendFailed _ hcw =>
            have := sockCause_of_refused hcw
            rcases this with h | h | h
            · exact Or.inl (by rw [← resumed_cfg]; exact h)
            · exact Or.inr (Or.inl (by simpa [resumed] using h))
            · exact Or.inr (Or.inr (by simpa [resumed, inbound] using h))
          | loop w1 wm _ h1 h2 hs he =>
            obtain ⟨frs, hws⟩ := serve_wstep hs
            have hcm : wm.cfg = w1.cfg := (serve_frame hs).2.2.2.2.1
            have e1 : w1.rx = w.rx ∧ w1.reader = w.reader ∧ w1.ctxDropped = w.ctxDropped ∧ w1.cfg = w.cfg := by
              cases s with
              | true => rw [h1 rfl]; exact ⟨rfl, rfl, rfl, rfl⟩
              | false =>
                rw [(h2 rfl).2]
                obtain ⟨a, b, c⟩ := resent_recv w
                exact ⟨a, b, c, resent_cfg w⟩
            have hws' : WStep w wm frs := hws.congr_left e1.1 e1.2.1 e1.2.2.1
            have hokm : wm.rx.Ok := hws'.fs.ok hok
            have hcm' : wm.cfg = w.cfg := hcm.trans e1.2.2.2
            cases he with
            | streamEnded rx' rd' _ _ hpn => exact (sockCause_of_none hokm hpn).back hws' hok hcm'
            | requestWriteFailed m q _ hcw _ => exact (sockCause_of_refused hcw).back hws' hok hcm'
            | ackWriteFailed rx' rd' fr p _ _ _ _ hcw _ => exact (sockCause_of_refused hcw).back hws' hok hcm'
        · rw [hp] at ho'
          obtain ⟨_, e⟩ := snoc_inj ho'
          cases e

end W12
end World
end Poster
