/-
  Lemmas/WorldSelectFuel.lean — the executor reaches quiescence and the client never stalls, UNDER ANY RESOLUTION
  of the `select!` of `run()`: no poll of the context task increases the potential `W5.phi` whatever the scheduler
  (`pollCtxS_phi`: a `Pending` packet branch that flags the task again has consumed a `pending` read event, which pays
  for the flag), so every poll by the executor strictly decreases it (`pollTaskAny_phi`), both drains of every step
  end with nothing left to poll (`stepAny_quiet`), and a script that never holds the context task never logs a stall
  (`no_stall_any`).
-/
import PosterModel.Lemmas.WorldSelectReach
import PosterModel.Lemmas.WorldFuelScript

set_option linter.unusedVariables false
set_option linter.unusedSimpArgs false

namespace Poster
open Framing
namespace World
open W5

/-! ## no poll of the context task increases the potential -/

theorem w14_regE_congr {w w' : World} (h1 : w'.slotReg = w.slotReg) (h2 : w'.ops = w.ops) (hr : RegE w) : RegE w' :=
  fun s hs id st hm hid => hr s (h1 ▸ hs) id st (h2 ▸ hm) hid

/-- `pck_fut` returned `Pending`: the potential does not grow — if the task flags itself again, a `pending` read event
    was consumed -/
theorem w14_arm_phi (w : World) (rx' : Rx) (rd' : List ReadEv) (qr : Bool)
    (hp : pollNext w.rx w.reader = (rx', rd', .pending)) :
    phi (armReader { w with rx := rx', reader := rd', queueReg := qr }) ≤ phi w := by
  have hm := pollNext_mu hp
  simp only [Out.len] at hm
  unfold armReader
  by_cases hrd : rd' = []
  · rw [if_pos hrd]
    exact phi_le_of (a := 0) (fun h => h) (fun _ h => h) (fun h => h) (by show mu rx' rd' + 0 ≤ _; omega)
      (Nat.le_refl _)
  · rw [if_neg hrd]
    have hm1 := pollNext_mu_pending hp hrd
    have h1 := ctxFlag_le_one (({ w with rx := rx', reader := rd', queueReg := qr } : World).wake .ctx)
    have h2 : ctxZ (({ w with rx := rx', reader := rd', queueReg := qr } : World).wake .ctx) ≤ ctxZ w :=
      ctxZ_le (by simp) (by simp [senders])
    have h3 : phiU (({ w with rx := rx', reader := rd', queueReg := qr } : World).wake .ctx) ≤ phiU w := by
      have a : opsPot (({ w with rx := rx', reader := rd', queueReg := qr } : World).wake .ctx) ≤ opsPot w :=
        opsPot_le_of_woken (by simp) (by simp) (by simp) (fun id h => by
          rcases (mem_wake_iff _ _ _).mp h with h | h
          · cases h
          · exact h)
      have b : stPot (({ w with rx := rx', reader := rd', queueReg := qr } : World).wake .ctx) = stPot w :=
        stPot_congr (by simp) (by simp) (fun n => by rw [mem_wake_iff]; simp) (by simp)
      unfold phiU; omega
    have h4 : mu (({ w with rx := rx', reader := rd', queueReg := qr } : World).wake .ctx).rx
        (({ w with rx := rx', reader := rd', queueReg := qr } : World).wake .ctx).reader = mu rx' rd' := by
      simp
    unfold phi
    rw [h4]
    omega

theorem sCont_phi {w w1 : World} (h : SCont w w1) (hr : RegE w) : phi w1 ≤ phi w ∧ RegE w1 := by
  cases h with
  | msg m q w1 hq hh =>
    have e : w1 = (World.runHandler { w with queue := q } (fun wok => w.c.handleMsg m wok)).1 := by rw [hh]
    subst e
    have hs := runHandler_effStep { w with queue := q } (fun wok => w.c.handleMsg m wok) 0
      (fun b => by simp [handleMsg_nDeliver])
    exact phi_le_of_effStep hs (fun h => h) rfl rfl rfl rfl rfl (Nat.le_refl _) hr
  | pkt rx' rd' fr p w1 hp hd hh =>
    have e : w1 = (World.runHandler { w with rx := rx', reader := rd' }
        (fun wok => w.c.handlePkt w.chanRxAlive p wok)).1 := by rw [hh]
    subst e
    have hs := runHandler_effStep { w with rx := rx', reader := rd' }
      (fun wok => w.c.handlePkt w.chanRxAlive p wok) (2 * subIdCount p)
      (fun b => by have := handlePkt_nDeliver w.c w.chanRxAlive p b; omega)
    have hm := pollNext_mu hp
    have hl := decodeRx_subIdCount fr p hd
    simp only [Out.len] at hm
    exact phi_le_of_effStep hs (fun h => h) rfl rfl rfl rfl rfl (by show mu rx' rd' + _ ≤ _; omega) hr
  | arm rx' rd' hp =>
    exact ⟨w14_arm_phi w rx' rd' w.queueReg hp, w14_regE_congr (by simp) (by simp) hr⟩

theorem sServe_phi {w wm : World} (h : SServe w wm) (hr : RegE w) : phi wm ≤ phi w ∧ RegE wm := by
  induction h with
  | refl w => exact ⟨Nat.le_refl _, hr⟩
  | step hc _ ih =>
    obtain ⟨h1, r1⟩ := sCont_phi hc hr
    obtain ⟨h2, r2⟩ := ih r1
    exact ⟨Nat.le_trans h2 h1, r2⟩

theorem sEnd_phi {w r : World} (h : SEnd w r) (hr : RegE w) : phi r ≤ phi w := by
  cases h with
  | msgExit m q w1 fl hq hh hne =>
    have e : w1 = (World.runHandler { w with queue := q } (fun wok => w.c.handleMsg m wok)).1 := by rw [hh]
    subst e
    have hs := runHandler_effStep { w with queue := q } (fun wok => w.c.handleMsg m wok) 0
      (fun b => by simp [handleMsg_nDeliver])
    exact Nat.le_trans (finish_phi _ _ _)
      (phi_le_of_effStep (w := w) hs (fun h => h) rfl rfl rfl rfl rfl (Nat.le_refl _) hr).1
  | closed hq hs => exact finish_phi _ _ _
  | pktExit rx' rd' fr p w1 fl hp hd hh hne =>
    have e : w1 = (World.runHandler { w with rx := rx', reader := rd' }
        (fun wok => w.c.handlePkt w.chanRxAlive p wok)).1 := by rw [hh]
    subst e
    have hs := runHandler_effStep { w with rx := rx', reader := rd' }
      (fun wok => w.c.handlePkt w.chanRxAlive p wok) (2 * subIdCount p)
      (fun b => by have := handlePkt_nDeliver w.c w.chanRxAlive p b; omega)
    have hm := pollNext_mu hp
    have hl := decodeRx_subIdCount fr p hd
    simp only [Out.len] at hm
    exact Nat.le_trans (finish_phi _ _ _)
      (phi_le_of_effStep (w := w) hs (fun h => h) rfl rfl rfl rfl rfl (by show mu rx' rd' + _ ≤ _; omega) hr).1
  | codec rx' rd' fr hp hd =>
    have hm := pollNext_mu hp
    exact phi_dead_le rfl (by show mu rx' rd' ≤ _; omega) (Nat.le_refl _)
  | panic rx' rd' fr hp hd =>
    have hm := pollNext_mu hp
    exact phi_dead_le rfl (by show mu rx' rd' ≤ _; omega) (Nat.le_refl _)
  | sock rx' rd' hp =>
    have hm := pollNext_mu hp
    exact phi_dead_le rfl (by show mu rx' rd' ≤ _; omega) (Nat.le_refl _)
  | park rx' rd' hq hs hp => exact w14_arm_phi w rx' rd' true hp

theorem runLoopS_phi (sched : Nat → Bool) (f : Nat) (w : World) (hr : RegE w) : phi (runLoopS sched f w) ≤ phi w := by
  obtain ⟨wm, hs, he⟩ := runLoopS_decomp sched f w
  obtain ⟨h1, r1⟩ := sServe_phi hs hr
  rcases he with he | he
  · rw [he]; exact h1
  · exact Nat.le_trans (sEnd_phi he r1) h1

theorem pollRunS_phi (sched : Nat → Bool) (w : World) (started : Bool) (hl : w.task ≠ .none) (hr : RegE w) :
    phi (w.pollRunS sched started) ≤ phi w := by
  cases started with
  | true => simp only [pollRunS, ↓reduceIte]; exact runLoopS_phi _ _ w hr
  | false =>
    simp only [pollRunS, Bool.false_eq_true, ↓reduceIte]
    have hA := applyEffs_effStep ({ w with c := w.c.resume.1, task := .running true } : World) w.c.resume.2.1
    rw [resume_nDeliver] at hA
    obtain ⟨pA, rA⟩ := phi_le_of_effStep (w := w) hA (fun _ => hl) rfl rfl rfl rfl rfl (Nat.le_refl _) hr
    have e : w.resumed = (({ w with c := w.c.resume.1, task := .running true } : World).applyEffs w.c.resume.2.1) :=
      rfl
    rw [← e] at pA rA
    split
    · have hB := foldl_writeBytes_effStep w.c.resume.2.2 w.resumed
      obtain ⟨pB, rB⟩ := phi_le_of_effStep (w := w.resumed) hB (fun h => h) rfl rfl rfl rfl rfl (Nat.le_refl _) rA
      exact Nat.le_trans (runLoopS_phi _ _ _ rB) (Nat.le_trans pB pA)
    · exact Nat.le_trans (finish_phi _ _ _) (Nat.le_trans
        (phi_le_of_effStep (w := w.resumed) (writeBytes_effStep w.resumed _) (fun h => h) rfl rfl rfl rfl rfl
          (Nat.le_refl _) rA).1 pA)

/-- **no poll of the context task increases the potential, whatever the scheduler** -/
theorem pollCtxS_phi (sched : Nat → Bool) (w : World) (hr : RegE w) : phi (w.pollCtxS sched) ≤ phi w := by
  unfold pollCtxS
  cases ht : w.task with
  | none => exact Nat.le_refl _
  | connecting call t a started => exact pollConnect_phi w call t a started (by rw [ht]; simp)
  | running started => exact pollRunS_phi sched w started (by rw [ht]; simp) hr

/-- **one poll by the executor strictly decreases the potential, whatever the scheduler** -/
theorem pollTaskAny_phi {w : World} {t : Task} {w' : World} (hp : PollTaskAny w t w') (ho : OwnInv w) (hr : RegInv w)
    (hpick : w.pick = some t) : phi w' < phi w := by
  rcases pollTaskAny_cases hp with ⟨rfl, sched, rfl⟩ | ⟨_, rfl⟩
  · obtain ⟨hw, hl, hh⟩ := pick_some_spec w .ctx hpick
    have hlive : w.task ≠ .none := by simpa [taskLive] using hl
    have hr0 : RegInv (w.unwake .ctx) := hr
    have hre : RegE (w.unwake .ctx) := regE_of_regInv (w := w.unwake .ctx) ho.nodup hr0
    have h1 := pollCtxS_phi sched (w.unwake .ctx) hre
    have h2 := unwake_ctx_phi w hlive hw
    omega
  · exact pollTask_phi w t ho hr hpick

/-- **the executor reaches quiescence** as soon as its fuel exceeds the potential, whatever the schedulers -/
theorem drainAny_quiet {f : Nat} {w w' : World} (h : DrainAny f w w') (ho : OwnInv w) (hr : RegInv w)
    (hf : phi w < f) : w'.pick = none := by
  induction h with
  | zero => omega
  | idle f w hp => exact hp
  | poll f t hp hpoll _ ih =>
    have h2 := pollTaskAny_phi hpoll ho hr hp
    exact ih (own_pollTaskAny ho hpoll) (regInv_pollTaskAny ho hr hpoll) (by omega)

theorem drainAny_fuel_quiet {w w' : World} (h : DrainAny w.drainFuel w w') (ho : OwnInv w) (hr : RegInv w)
    (hn : nFresh w ≤ 30) : w'.pick = none :=
  drainAny_quiet h ho hr (phi_lt_drainFuel w hn)

/-! ## never-polled operations -/

theorem nFresh_pollTaskAny {w : World} {t : Task} {w' : World} (hp : PollTaskAny w t w') : nFresh w' ≤ nFresh w := by
  rcases pollTaskAny_cases hp with ⟨rfl, sched, rfl⟩ | ⟨_, rfl⟩
  · have a := (hand_pollCtxS sched (w.unwake .ctx)).act
    exact Nat.le_of_eq (nFresh_congr a.ops_eq a.held_eq)
  · exact nFresh_pollTask w t

theorem nFresh_sweepListAny {l : List Task} {w w' : World} (h : SweepListAny l w w') : nFresh w' ≤ nFresh w := by
  induction h with
  | nil => exact Nat.le_refl _
  | poll _ hp _ ih => exact Nat.le_trans ih (nFresh_pollTaskAny hp)
  | skip _ _ ih => exact ih

theorem nFresh_applyAny {w : World} {e : Ev} {w' : World} (h : ApplyAny w e w') (ho : OwnInv w) :
    nFresh w' ≤ nFresh w + 1 := by
  cases e with
  | poll t =>
    simp only [ApplyAny] at h
    split at h
    · have := nFresh_pollTaskAny h; omega
    · rw [h]; omega
  | _ => simp only [ApplyAny] at h; rw [h]; exact nFresh_apply w _ ho

/-! ## every step ends quiescent, and logs a stall only for a stalled context -/

theorem own_applyAny {w : World} {e : Ev} {w' : World} (h : ApplyAny w e w') (ho : OwnInv w) : OwnInv w' :=
  ApplyAny.inv (fun _ _ _ hi hp => own_pollTaskAny hi hp) (fun w e hi => own_apply w e hi) h ho

theorem ownReg_applyAny {w : World} {e : Ev} {w' : World} (h : ApplyAny w e w') (ho : OwnInv w) (hr : RegInv w) :
    OwnInv w' ∧ RegInv w' :=
  ApplyAny.inv (I := fun w => OwnInv w ∧ RegInv w)
    (fun _ _ _ hi hp => ⟨own_pollTaskAny hi.1 hp, regInv_pollTaskAny hi.1 hi.2 hp⟩)
    (fun w e hi => ⟨own_apply w e hi.1, regInv_apply w e hi.1 hi.2⟩) h ⟨ho, hr⟩

theorem ownReg_drainAny {f : Nat} {w w' : World} (h : DrainAny f w w') (ho : OwnInv w) (hr : RegInv w) :
    OwnInv w' ∧ RegInv w' :=
  DrainAny.inv (I := fun w => OwnInv w ∧ RegInv w)
    (fun _ _ _ hi hp => ⟨own_pollTaskAny hi.1 hp, regInv_pollTaskAny hi.1 hi.2 hp⟩) h ⟨ho, hr⟩

theorem ownReg_sweepListAny {l : List Task} {w w' : World} (h : SweepListAny l w w') (ho : OwnInv w) (hr : RegInv w) :
    OwnInv w' ∧ RegInv w' :=
  SweepListAny.inv (I := fun w => OwnInv w ∧ RegInv w)
    (fun _ _ _ hi hp => ⟨own_pollTaskAny hi.1 hp, regInv_pollTaskAny hi.1 hi.2 hp⟩) h ⟨ho, hr⟩

theorem runLoopS_ns (sched : Nat → Bool) (f : Nat) (w0 : World) : OutExtP NotStall w0 (runLoopS sched f w0) := by
  obtain ⟨wm, hs, he⟩ := runLoopS_decomp sched f w0
  obtain ⟨_, _, _, _, _, _, _, _, _, hext, _, _⟩ := sServe_frame hs
  have h1 : OutExtP NotStall w0 wm := outExtP_of_outExt hext w5s_ns_wire
  rcases he with he | he
  · rw [he]; exact h1
  · refine outExtP_trans h1 ?_
    rcases sEnd_out he with ⟨_, pre, last, hq, ho, hl⟩ | ⟨_, ho, _⟩
    · refine ⟨pre ++ [last], by rw [ho, List.append_assoc], ?_⟩
      intro o hmem
      rcases List.mem_append.mp hmem with hmem | hmem
      · obtain ⟨bs, rfl | rfl⟩ := hq o hmem
        · exact (w5s_ns_wire bs).1
        · exact (w5s_ns_wire bs).2
      · simp only [List.mem_singleton] at hmem
        subst hmem
        rcases hl with ⟨res, rfl⟩ | ⟨rfl, _⟩ <;> (intro h; cases h)
    · exact outExtP_of_eq ho

/-- one poll of the context future appends no stall marker, whatever the scheduler -/
theorem pollCtxS_ns (sched : Nat → Bool) (w : World) : OutExtP NotStall w (w.pollCtxS sched) := by
  have hq : ∀ {a b : World}, OutExt a b → OutExtP NotStall a b := fun h => outExtP_of_outExt h w5s_ns_wire
  have h0 := w5s_pollCtx_ns w
  unfold pollCtxS
  unfold pollCtx at h0
  cases ht : w.task with
  | none => exact outExtP_refl _ _
  | connecting call t a started => rw [ht] at h0; exact h0
  | running started =>
    simp only
    cases started with
    | true => simp only [pollRunS, ↓reduceIte]; exact runLoopS_ns _ _ w
    | false =>
      simp only [pollRunS, Bool.false_eq_true, ↓reduceIte]
      have hx1 : OutExt w w.resumed := outExt_trans (outExt_of_eq rfl) (applyEffs_outExt _ _)
      split
      · have hx2 : OutExt w w.resent := outExt_trans hx1 (foldl_writeBytes_frame _ _).2.2.2.2.2.2.2.2.2.2.2.2.2.2
        exact outExtP_trans (hq hx2) (runLoopS_ns _ _ _)
      · exact outExtP_trans (hq (outExt_trans hx1 (writeBytes_outExt _ _)))
          (outExtP_one (.ret .run (.err .socketClosed)) rfl (by intro h; cases h))

/-- the observations a poll adds contain no stall marker, and it does not touch `held` -/
theorem pollTaskAny_strk {w : World} {t : Task} {w' : World} (hp : PollTaskAny w t w') : STrk w w' := by
  rcases pollTaskAny_cases hp with ⟨rfl, sched, rfl⟩ | ⟨_, rfl⟩
  · refine ⟨?_, ?_⟩
    · obtain ⟨added, e, hP⟩ := pollCtxS_ns sched (w.unwake .ctx)
      exact ⟨added, by simpa using e, hP⟩
    · rw [(hand_pollCtxS sched (w.unwake .ctx)).act.held_eq]; rfl
  · exact w5s_pollTask_trk w t

theorem drainAny_strk {f : Nat} {w w' : World} (h : DrainAny f w w') : STrk w w' := by
  induction h with
  | zero => exact w5s_strk_refl _
  | idle => exact w5s_strk_refl _
  | poll f t _ hp _ ih => exact w5s_strk_trans (pollTaskAny_strk hp) ih

theorem sweepListAny_strk {l : List Task} {w w' : World} (h : SweepListAny l w w') : STrk w w' := by
  induction h with
  | nil => exact w5s_strk_refl _
  | poll _ hp _ ih => exact w5s_strk_trans (pollTaskAny_strk hp) ih
  | skip _ _ ih => exact ih

theorem applyAny_atrk {w : World} {e : Ev} {w' : World} (h : ApplyAny w e w') : ATrk e w w' := by
  cases e with
  | poll t =>
    simp only [ApplyAny] at h
    split at h
    · exact w5s_atrk_of_strk (pollTaskAny_strk h)
    · rw [h]; exact w5s_atrk_of_strk (w5s_strk_refl _)
  | _ => simp only [ApplyAny] at h; rw [h]; exact w5s_apply_trk w _

/-- what the script-level induction carries (cf. `W5.SInv2`) -/
structure SelInv (w : World) : Prop where
  tinv : TInv w
  own : OwnInv w
  reg : RegInv w
  quiet : W5.Quiet w
  nheld : Task.ctx ∉ w.held

theorem selInv_init (cfg : Cfg) : SelInv { cfg := cfg } :=
  ⟨w5s_tinv_init cfg, ownInv_init cfg, regInv_init cfg, quiet_init cfg, by simp⟩

/-- **one step under any resolution**, from a world satisfying the invariant, for an event other than `hold ctx`: the
    invariant holds again — in particular both drains reached quiescence — and no stall marker was logged -/
theorem stepAny_selInv {w : World} {e : Ev} {w' : World} (h : StepAny w e w') (hi : SelInv w) (he : e ≠ .hold .ctx) :
    SelInv w' ∧ OutExtP NotStall w w' := by
  have t1 : TInv w' := StepAny.inv (fun _ _ _ hi hp => pollTaskAny_tinv hp hi) (fun x e hi => w5s_apply_tinv x e hi)
    (fun x o _ hi => w5s_emit_tinv hi o) h hi.tinv
  have or1 : OwnInv w' ∧ RegInv w' :=
    StepAny.inv (I := fun w => OwnInv w ∧ RegInv w)
      (fun _ _ _ hi hp => ⟨own_pollTaskAny hi.1 hp, regInv_pollTaskAny hi.1 hi.2 hp⟩)
      (fun w e hi => ⟨own_apply w e hi.1, regInv_apply w e hi.1 hi.2⟩)
      (fun w o _ hi => ⟨own_emit w o hi.1, regInv_emit w o hi.2⟩) h ⟨hi.own, hi.reg⟩
  unfold StepAny at h
  split at h
  · rename_i hb
    rw [h]; exact ⟨hi, outExtP_refl _ _⟩
  · rename_i hb0
    have hp : w.pick = none := by
      rcases hi.quiet with hq | hq
      · exact absurd hq hb0
      · exact hq
    obtain ⟨w1, ha, h⟩ := h
    have ho0 : OwnInv (w.emit (.ev e)) := own_emit w _ hi.own
    have hr0 : RegInv (w.emit (.ev e)) := regInv_emit w _ hi.reg
    have hn0 : nFresh (w.emit (.ev e)) = 0 := nFresh_zero_of_quiet _ ho0 (by rw [pick_emit]; exact hp)
    obtain ⟨ho1, hr1⟩ := ownReg_applyAny ha ho0 hr0
    have hn1 : nFresh w1 ≤ 1 := by have := nFresh_applyAny ha ho0; omega
    have at1 := applyAny_atrk ha
    have hh1 : Task.ctx ∉ w1.held := at1.2 he (by simpa using hi.nheld)
    have x1 : OutExtP NotStall w w1 :=
      outExtP_trans (w5s_strk_emit w (.ev e) (by intro h; cases h)).1 at1.1
    split at h
    · rename_i hb1
      subst h
      exact ⟨⟨t1, or1.1, or1.2, Or.inl hb1, hh1⟩, x1⟩
    · obtain ⟨w2, hd, w3, hs, rfl⟩ := h
      have d1 : w2.pick = none := drainAny_fuel_quiet hd ho1 hr1 (by omega)
      obtain ⟨ho2, hr2⟩ := ownReg_drainAny hd ho1 hr1
      have hn2 : nFresh w2 = 0 := nFresh_zero_of_quiet _ ho2 d1
      have s2 := drainAny_strk hd
      have hh2 : Task.ctx ∉ w2.held := by rw [s2.2]; exact hh1
      have x2 : OutExtP NotStall w w2 := outExtP_trans x1 s2.1
      have q3 : w3.pick = none ∧ Task.ctx ∉ w3.held ∧ OutExtP NotStall w w3 := by
        split at hs
        · obtain ⟨ws, hs1, hs2⟩ := hs
          obtain ⟨ho3, hr3⟩ := ownReg_sweepListAny hs1 ho2 hr2
          have hn3 : nFresh ws ≤ 0 := by have := nFresh_sweepListAny hs1; omega
          have s3 := sweepListAny_strk hs1
          have s4 := drainAny_strk hs2
          exact ⟨drainAny_fuel_quiet hs2 ho3 hr3 (by omega), by rw [s4.2, s3.2]; exact hh2,
            outExtP_trans (outExtP_trans x2 s3.1) s4.1⟩
        · rw [hs]; exact ⟨d1, hh2, x2⟩
      obtain ⟨q3a, q3b, q3c⟩ := q3
      -- the stall check cannot fire: the executor is idle, the context task not held, so an alive context future is
      -- not flagged, and then it has nothing to read
      have t3 : TInv w3 := by
        have : TInv (if w3.task ≠ .none ∧ w3.reader ≠ [] then w3.emit .stall else w3) := t1
        split at this
        · exact ⟨this.reach, fun hne hnw => this.st hne hnw⟩
        · exact this
      have nost : ¬ (w3.task ≠ .none ∧ w3.reader ≠ []) := by
        rintro ⟨ht, hrd⟩
        have hl : w3.taskLive .ctx = true := by simpa [taskLive] using ht
        have hw := not_woken_of_idle w3 .ctx q3a hl q3b
        exact hrd (t3.st ht hw).1
      rw [if_neg nost] at t1 or1 ⊢
      exact ⟨⟨t1, or1.1, or1.2, Or.inr q3a, q3b⟩, q3c⟩

theorem stepsAny_selInv {w : World} {evs : List Ev} {w' : World} (h : StepsAny w evs w') (hi : SelInv w)
    (hh : ∀ e ∈ evs, e ≠ .hold .ctx) : SelInv w' ∧ OutExtP NotStall w w' := by
  induction h with
  | nil => exact ⟨hi, outExtP_refl _ _⟩
  | cons h1 _ ih =>
    obtain ⟨i1, x1⟩ := stepAny_selInv h1 hi (hh _ (by simp))
    obtain ⟨i2, x2⟩ := ih i1 (fun e' he' => hh e' (by simp [he']))
    exact ⟨i2, outExtP_trans x1 x2⟩

/-- **under any resolution of the `select!`, a script that never holds the context task never logs a stall** -/
theorem no_stall_any (cfg : Cfg) (evs : List Ev) (hh : ∀ e ∈ evs, e ≠ .hold .ctx) (out : List Obs)
    (h : RunAny cfg evs out) : Obs.stall ∉ out := by
  obtain ⟨w, hs, rfl⟩ := h
  obtain ⟨_, x⟩ := stepsAny_selInv hs (selInv_init cfg) hh
  obtain ⟨added, e, hP⟩ := outExtP_trans x (w5s_flushRaw_trk _).1
  unfold finishScript
  rw [e]
  simp only [List.nil_append]
  intro hmem
  exact hP _ hmem rfl

/-- **after every step of every script under any resolution the executor is quiescent** (or the script was refused) -/
theorem quiet_any {w : World} {evs : List Ev} {w' : World} (h : StepsAny w evs w') (ho : OwnInv w) (hr : RegInv w)
    (hq : W5.Quiet w) : W5.Quiet w' := by
  induction h with
  | nil => exact hq
  | @cons w w1 w2 e es h1 _ ih =>
    have or1 := ownReg_stepsAny (.cons h1 (.nil _)) ho hr
    refine ih or1.1 or1.2 ?_
    unfold StepAny at h1
    split at h1
    · rename_i hb; rw [h1]; exact Or.inl hb
    · rename_i hb0
      have hp : w.pick = none := by
        rcases hq with hq | hq
        · exact absurd hq hb0
        · exact hq
      obtain ⟨wa, ha, h1⟩ := h1
      have ho0 : OwnInv (w.emit (.ev e)) := own_emit w _ ho
      have hr0 : RegInv (w.emit (.ev e)) := regInv_emit w _ hr
      have hn0 : nFresh (w.emit (.ev e)) = 0 := nFresh_zero_of_quiet _ ho0 (by rw [pick_emit]; exact hp)
      obtain ⟨ho1, hr1⟩ := ownReg_applyAny ha ho0 hr0
      have hn1 : nFresh wa ≤ 1 := by have := nFresh_applyAny ha ho0; omega
      split at h1
      · rename_i hb1; rw [h1]; exact Or.inl hb1
      · obtain ⟨wb, hd, wc, hs, rfl⟩ := h1
        have d1 : wb.pick = none := drainAny_fuel_quiet hd ho1 hr1 (by omega)
        obtain ⟨ho2, hr2⟩ := ownReg_drainAny hd ho1 hr1
        have hn2 : nFresh wb = 0 := nFresh_zero_of_quiet _ ho2 d1
        have q3 : wc.pick = none := by
          split at hs
          · obtain ⟨ws, hs1, hs2⟩ := hs
            obtain ⟨ho3, hr3⟩ := ownReg_sweepListAny hs1 ho2 hr2
            have hn3 : nFresh ws ≤ 0 := by have := nFresh_sweepListAny hs1; omega
            exact drainAny_fuel_quiet hs2 ho3 hr3 (by omega)
          · rw [hs]; exact d1
        split
        · right; rw [pick_emit]; exact q3
        · exact Or.inr q3

end World
end Poster
