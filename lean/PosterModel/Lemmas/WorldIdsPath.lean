/-
  Lemmas/WorldIdsPath.lean — work package W10, part 4: executions as paths, the allocation window, uniqueness (C11).

    * `Exec cfg ws`        `ws` is an execution under `cfg`, as the list of its moments, the most recent first; consecutive
                           moments are one elementary transition (`World.W7.Micro`) apart
    * `allocCount ws`      how many packet identifiers were allocated along `ws` (the counter moved that often)
    * `allocAge p ws`      how many identifiers were allocated since the value `p` was last handed out (that allocation
                           included); `none` if `p` was never handed out along `ws`
    * `WindowOk ws`        at every moment of `ws`, every outstanding identifier was handed out fewer than 65535 allocations
                           ago: "fewer than 65535 identifiers are allocated while any single operation is outstanding"
    * `exec_unique`        `Exec cfg ws → WindowOk ws → ∀ w ∈ ws, (Outstanding w).Nodup`
    * `exec_alloc_bound`   allocations so far + identifier-taking futures not yet polled ≤ identifier-taking `op` events
-/
import PosterModel.Lemmas.WorldIdsOut
import PosterModel.Properties.C11
import PosterModel.Lemmas.WorldStream
import PosterModel.Lemmas.WorldStreamStep
import PosterModel.Lemmas.WorldStreamSid

set_option linter.unusedVariables false
set_option linter.unusedSimpArgs false

namespace Poster
open Framing
namespace World
namespace W10
open W7

/-! ## executions as paths -/

/-- an execution under `cfg`: the list of its moments, the most recent first -/
inductive Exec (cfg : Cfg) : List World → Prop
  | init : Exec cfg [{ cfg := cfg }]
  | next {w w' : World} {ws : List World} : Exec cfg (w :: ws) → Micro w w' → Exec cfg (w' :: w :: ws)

theorem Exec.during {cfg : Cfg} {ws : List World} (h : Exec cfg ws) : ∀ w ∈ ws, During cfg w := by
  induction h with
  | init => intro w hw; simp only [List.mem_singleton] at hw; subst hw; exact .init
  | @next w w' ws _ hm ih =>
    intro x hx
    rcases List.mem_cons.mp hx with rfl | hx
    · exact (ih w (by simp)).next hm
    · exact ih x hx

theorem Exec.head {cfg : Cfg} {w : World} {ws : List World} (h : Exec cfg (w :: ws)) : During cfg w :=
  h.during w (by simp)

/-- every moment of every execution is the head of a path -/
theorem exec_of_during {cfg : Cfg} {w : World} (h : During cfg w) : ∃ ws, Exec cfg (w :: ws) := by
  induction h with
  | init => exact ⟨[], .init⟩
  | next _ hm ih =>
    obtain ⟨ws, he⟩ := ih
    exact ⟨_, he.next hm⟩

theorem Exec.tail {cfg : Cfg} {w w' : World} {ws : List World} (h : Exec cfg (w' :: w :: ws)) :
    Exec cfg (w :: ws) ∧ Micro w w' := by
  cases h with
  | next h hm => exact ⟨h, hm⟩

/-! ## counting allocations along a path -/

/-- the number of identifiers allocated along the path: the number of transitions in which the counter moved -/
def allocCount : List World → Nat
  | w' :: w :: ws => (if w'.pidCtr = w.pidCtr then 0 else 1) + allocCount (w :: ws)
  | _ => 0

/-- the number of identifiers allocated since the value `p` was last handed out, that allocation included -/
def allocAge (p : Nat) : List World → Option Nat
  | w' :: w :: ws =>
    if w'.pidCtr = w.pidCtr then allocAge p (w :: ws)
    else if w.pidCtr = p then some 1
    else (allocAge p (w :: ws)).map (· + 1)
  | _ => none

/-- **the window hypothesis**: at every moment of the path, every outstanding identifier was handed out fewer than 65535
    allocations ago -/
def WindowOk : List World → Prop
  | [] => True
  | w :: ws => (∀ p ∈ Outstanding w, ∀ a, allocAge p (w :: ws) = some a → a < 65535) ∧ WindowOk ws

theorem allocAge_le_count (p : Nat) (ws : List World) (a : Nat) (h : allocAge p ws = some a) : a ≤ allocCount ws := by
  induction ws using allocCount.induct generalizing a with
  | case1 w' w ws ih =>
    simp only [allocAge] at h
    simp only [allocCount]
    split at h
    · rename_i he; rw [if_pos he]; have := ih a h; omega
    · rename_i he
      rw [if_neg he]
      split at h
      · cases h; omega
      · cases h0 : allocAge p (w :: ws) with
        | none => rw [h0] at h; cases h
        | some a0 =>
          rw [h0] at h; simp only [Option.map_some, Option.some.injEq] at h
          have := ih a0 h0; omega
  | case2 ws hne =>
    unfold allocAge at h
    split at h
    · exact absurd rfl (hne _ _ _)
    · cases h

theorem allocCount_tail_le (w : World) (ws : List World) : allocCount ws ≤ allocCount (w :: ws) := by
  cases ws with
  | nil => simp [allocCount]
  | cons w0 ws => simp only [allocCount]; omega

/-- few allocations in total: the window hypothesis holds -/
theorem windowOk_of_count (ws : List World) (h : allocCount ws < 65535) : WindowOk ws := by
  induction ws with
  | nil => trivial
  | cons w ws ih =>
    refine ⟨fun p _ a ha => ?_, ih (Nat.lt_of_le_of_lt (allocCount_tail_le w ws) h)⟩
    have := allocAge_le_count p _ a ha
    omega

/-! ## along an execution -/

theorem Exec.opsInv {cfg : Cfg} {w : World} {ws : List World} (h : Exec cfg (w :: ws)) : OpsInv w :=
  during_opsInv h.head

/-- every outstanding identifier was handed out along the path -/
theorem exec_outstanding_allocated {cfg : Cfg} {ws : List World} (h : Exec cfg ws) :
    ∀ w rest, ws = w :: rest → ∀ p ∈ Outstanding w, ∃ a, allocAge p ws = some a := by
  induction h with
  | init =>
    intro w rest e p hp
    cases e
    simp [Outstanding, qpids, apids, ppids] at hp
  | @next w w' ws he hm ih =>
    intro x rest e p hp
    cases e
    have hstep := micro_idStep he.opsInv hm
    simp only [allocAge]
    rcases hstep.mem hp with h | ⟨h1, h2⟩
    · obtain ⟨a, ha⟩ := ih w ws rfl p h
      split
      · exact ⟨a, ha⟩
      · split
        · exact ⟨1, rfl⟩
        · exact ⟨a + 1, by rw [ha]; rfl⟩
    · rw [if_neg (by rw [h2]; exact nextPid_ne _), if_pos h1.symm]
      exact ⟨1, rfl⟩

/-- the counter is where `a` steps from `p` lead, when `p` was last handed out `a` allocations ago -/
theorem exec_age_counter {cfg : Cfg} {ws : List World} (h : Exec cfg ws) :
    ∀ w rest, ws = w :: rest → ∀ p a, allocAge p ws = some a → 1 ≤ a ∧ w.pidCtr = iter nextPid a p := by
  induction h with
  | init =>
    intro w rest e p a ha
    cases e
    simp [allocAge] at ha
  | @next w w' ws he hm ih =>
    intro x rest e p a ha
    cases e
    have hstep := micro_idStep he.opsInv hm
    simp only [allocAge] at ha
    split at ha
    · rename_i hc
      obtain ⟨h1, h2⟩ := ih w ws rfl p a ha
      exact ⟨h1, by rw [hc]; exact h2⟩
    · rename_i hc
      have hn : w'.pidCtr = nextPid w.pidCtr := by
        rcases hstep.ctr with e | e
        · exact absurd e hc
        · exact e
      split at ha
      · rename_i hp
        cases ha
        exact ⟨Nat.le_refl 1, by rw [hn, hp]; rfl⟩
      · cases h0 : allocAge p (w :: ws) with
        | none => rw [h0] at ha; cases ha
        | some a0 =>
          rw [h0] at ha; simp only [Option.map_some, Option.some.injEq] at ha
          subst ha
          obtain ⟨h1, h2⟩ := ih w ws rfl p a0 h0
          exact ⟨by omega, by rw [hn, h2, User.iter_succ']⟩

/-- **Uniqueness under the window hypothesis.** Along an execution in which, at every moment, every outstanding identifier
    was handed out fewer than 65535 allocations ago, the outstanding identifiers are pairwise distinct at every moment. -/
theorem exec_unique {cfg : Cfg} {ws : List World} (h : Exec cfg ws) (hw : WindowOk ws) :
    ∀ w ∈ ws, (Outstanding w).Nodup := by
  induction h with
  | init =>
    intro w hm
    simp only [List.mem_singleton] at hm; subst hm
    simp [Outstanding, qpids, apids, ppids]
  | @next w w' ws he hm ih =>
    obtain ⟨_, hw1⟩ := hw
    have ih1 := ih hw1
    intro x hx
    rcases List.mem_cons.mp hx with rfl | hx
    · have hstep := micro_idStep he.opsInv hm
      have hnd : (Outstanding w).Nodup := ih1 w (by simp)
      rw [List.nodup_iff_count]
      intro p
      have h1 := hstep.cnt p
      have h2 := (List.nodup_iff_count.mp hnd) p
      by_cases hx : x.pidCtr ≠ w.pidCtr ∧ p = w.pidCtr
      · -- the counter's value is handed out: it is not outstanding, by the window hypothesis
        rw [if_pos hx] at h1
        obtain ⟨hne, rfl⟩ := hx
        have hnot : w.pidCtr ∉ Outstanding w := by
          intro hmem
          obtain ⟨a, ha⟩ := exec_outstanding_allocated he w ws rfl _ hmem
          have hlt := hw1.1 _ hmem a ha
          obtain ⟨h1a, hctr⟩ := exec_age_counter he w ws rfl _ a ha
          have hp := he.opsInv.pid
          have := alloc_unique_window w.pidCtr 0 a hp (by omega) (by omega)
          exact this (by simpa [iter] using hctr)
        have : (Outstanding w).count w.pidCtr = 0 := List.count_eq_zero.mpr hnot
        omega
      · rw [if_neg hx] at h1; omega
    · exact ih1 x hx

/-- every outstanding identifier is a real packet identifier: in 1..65535 -/
theorem during_outstanding_range {cfg : Cfg} {w : World} (h : During cfg w) : ∀ p ∈ Outstanding w, 1 ≤ p ∧ p ≤ 65535 := by
  induction h with
  | init => intro p hp; simp [Outstanding, qpids, apids, ppids] at hp
  | @next w w' hd hm ih =>
    intro p hp
    rcases (micro_idStep (during_opsInv hd) hm).mem hp with h | ⟨h, _⟩
    · exact ih p h
    · rw [h]; exact (during_opsInv hd).pid

/-! ## allocations are bounded by the identifier-taking requests issued -/

/-- an `op` event whose request takes a packet identifier -/
def consObs : Obs → Bool
  | .ev (.op _ _ req) => Req.consumes req
  | _ => false

/-- a future that has not been polled yet and whose request takes a packet identifier -/
def freshCons (e : Nat × OpSt) : Bool :=
  match e.2 with
  | .fresh _ req => Req.consumes req
  | _ => false

/-- the number of identifier-taking futures not yet polled -/
def freshC (w : World) : Nat := w.ops.countP freshCons

theorem pollOp_ctr_change (w : World) (id : Nat) (hp : PidOk w.pidCtr) (h : (w.pollOp id).pidCtr ≠ w.pidCtr) :
    ∃ hh req, w.opSt id = some (.fresh hh req) ∧ Req.consumes req = true := by
  unfold pollOp at h
  cases hop : w.opSt id with
  | none => rw [hop] at h; exact absurd rfl h
  | some st =>
    rw [hop] at h
    cases st with
    | fresh hh req =>
      refine ⟨hh, req, rfl, ?_⟩
      simp only at h
      rw [(startOp_ids w id req hp).1] at h
      cases hc : Req.consumes req with
      | true => rfl
      | false => rw [hc] at h; exact absurd rfl h
    | wait s k =>
      exfalso
      simp only at h
      cases hs : w.slot s with
      | none => rw [hs] at h; exact h rfl
      | some sl =>
        rw [hs] at h
        cases sl with
        | empty => exact h rfl
        | closed => exact h (by simp)
        | full v => exact h (resumeOp_pidCtr w id s k v)

theorem countP_le_of_sublist {α} {p : α → Bool} {a b : List α} (h : a.Sublist b) : a.countP p ≤ b.countP p :=
  h.countP_le

/-- one poll of a handle future: an allocation uses up one identifier-taking future that had not been polled -/
theorem pollOp_budget (w : World) (id : Nat) (hi : OpsInv w) :
    (if (w.pollOp id).pidCtr = w.pidCtr then 0 else 1) + freshC (w.pollOp id) ≤ freshC w := by
  have key : ∀ st, w.opSt id = some st →
      ((w.pollOp id).ops = eraseFirst id w.ops ∨ ∃ s k, (w.pollOp id).ops = setAssoc id (.wait s k) w.ops) →
      (if (w.pollOp id).pidCtr = w.pidCtr then 0 else 1) + freshC (w.pollOp id) ≤ freshC w := by
    intro st hst hops
    obtain ⟨pre, post, e, _, _, h3, h4⟩ := ops_split id st w.ops hi.nodup hst
    have hnew : freshC (w.pollOp id) = pre.countP freshCons + post.countP freshCons := by
      unfold freshC
      rcases hops with h | ⟨s, k, h⟩
      · rw [h, h3, List.countP_append]
      · rw [h, h4, List.countP_append, List.countP_cons]; simp [freshCons]
    have hold : freshC w = pre.countP freshCons + (if freshCons (id, st) then 1 else 0) + post.countP freshCons := by
      unfold freshC
      rw [e, List.countP_append, List.countP_cons]; omega
    rw [hnew, hold]
    split
    · omega
    · rename_i hc
      obtain ⟨hh, req, h1, h2⟩ := pollOp_ctr_change w id hi.pid hc
      rw [hst] at h1
      simp only [Option.some.injEq] at h1
      subst h1
      have : freshCons (id, .fresh hh req) = true := h2
      rw [this]; simp only [if_true]; omega
  rcases pollOp_one w id with h | h | h
  · rw [h]; simp
  · cases h with
    | cmsg m q hq queue ops pid out aw slots => rw [pid]; simp [freshC, ops]
    | cpkt p aid slot pre post wf haid haw hpre aw queue ops pid out slots => rw [pid]; simp [freshC, ops]
    | drop queue aw ops pid out slots => rw [pid]; simp [freshC, ops]
  · cases h with
    | finish _ st hst ops queue aw pid slots out => exact key st hst (Or.inl ops)
    | send _ st m s k hst shape ops queue mslot aw pid slotNew slots out msgok => exact key st hst (Or.inr ⟨s, k, ops⟩)

theorem moves_ctx_ops {w w' : World} (m : Moves CtxTag w w') : w'.ops = w.ops ∧ w'.pidCtr = w.pidCtr := by
  induction m with
  | refl w => exact ⟨rfl, rfl⟩
  | @cons t a b c ht hm _ ih =>
    cases ht
    have : b.ops = a.ops ∧ b.pidCtr = a.pidCtr := by
      cases hm with
      | cmsg m q hq queue ops pid out aw slots => exact ⟨ops, pid⟩
      | cpkt p aid slot pre post wf haid haw hpre aw queue ops pid out slots => exact ⟨ops, pid⟩
      | drop queue aw ops pid out slots => exact ⟨ops, pid⟩
    exact ⟨ih.1.trans this.1, ih.2.trans this.2⟩

theorem countP_append_ge {α} (p : α → Bool) (a b : List α) : a.countP p ≤ (a ++ b).countP p := by
  rw [List.countP_append]; omega

/-- **one elementary transition**: an allocation is paid for by an identifier-taking future that leaves the "not yet
    polled" state, and such futures only come from logged `op` events -/
theorem micro_budget {w w' : World} (hi : OpsInv w) (hm : Micro w w') :
    (if w'.pidCtr = w.pidCtr then 0 else 1) + freshC w' + w.out.countP consObs ≤ freshC w + w'.out.countP consObs := by
  obtain ⟨added, eo⟩ := hm.out_prefix
  have hout : w.out.countP consObs ≤ w'.out.countP consObs := by rw [eo]; exact countP_append_ge _ _ _
  have ctxlike : w'.ops = w.ops → w'.pidCtr = w.pidCtr →
      (if w'.pidCtr = w.pidCtr then 0 else 1) + freshC w' + w.out.countP consObs ≤ freshC w + w'.out.countP consObs := by
    intro h1 h2
    rw [if_pos h2]; simp only [freshC, h1]; omega
  cases hm with
  | ctx => exact ctxlike (moves_ctx_ops (pollCtx_moves w)).1 (moves_ctx_ops (pollCtx_moves w)).2
  | user t ht =>
    cases t with
    | ctx => exact absurd rfl ht
    | op id =>
      have := pollOp_budget (w.unwake (.op id)) id ⟨hi.nodup, hi.shape, hi.pid⟩
      have e1 : freshC (w.unwake (.op id)) = freshC w := rfl
      have e2 : (w.unwake (.op id)).pidCtr = w.pidCtr := rfl
      rw [e1, e2] at this
      show (if ((w.unwake (.op id)).pollOp id).pidCtr = w.pidCtr then 0 else 1) +
        freshC ((w.unwake (.op id)).pollOp id) + _ ≤ _
      omega
    | st id =>
      have h := moves_ctx_ops (pollStream_moves (w.unwake (.st id)) id)
      exact ctxlike h.1 h.2
  | unwake t => exact ctxlike rfl rfl
  | ev e hp hb =>
    rcases apply_decomp (w.emit (.ev e)) e with ⟨id, hh, req, rfl, ha⟩ | hmv
    · have e1 : ((w.emit (.ev (.op id hh req))).apply (.op id hh req)).pidCtr = w.pidCtr := ha.pid
      have e2 : freshC ((w.emit (.ev (.op id hh req))).apply (.op id hh req)) =
          freshC w + (if Req.consumes req then 1 else 0) := by
        unfold freshC
        rw [ha.ops, List.countP_append]
        cases hcr : Req.consumes req <;> simp [List.countP_cons, freshCons, emit, hcr]
      have e3 : ((w.emit (.ev (.op id hh req))).apply (.op id hh req)).out.countP consObs =
          w.out.countP consObs + (if Req.consumes req then 1 else 0) := by
        rw [ha.out]
        cases hcr : Req.consumes req <;> simp [emit, List.countP_append, List.countP_cons, consObs, hcr]
      rw [if_pos e1, e2, e3]; omega
    · by_cases hd : ∃ id, e = .drop (.op id)
      · obtain ⟨id, rfl⟩ := hd
        have hs := dropOp_shrinks (w.emit (.ev (.drop (.op id)))) id ⟨hi.nodup, hi.shape, hi.pid⟩
        have hops : (((w.emit (.ev (.drop (.op id)))).dropOp id).ops).Sublist w.ops := by
          unfold dropOp
          split
          · exact List.Sublist.refl _
          · simpa using User.eraseFirst_sublist id w.ops
          · rename_i s k _
            cases k <;> simpa [clearSlot, dropChanRx, emit] using User.eraseFirst_sublist id w.ops
        have hc : ((w.emit (.ev (.drop (.op id)))).dropOp id).pidCtr = w.pidCtr := hs.1
        show (if ((w.emit (.ev (.drop (.op id)))).dropOp id).pidCtr = w.pidCtr then 0 else 1) +
          freshC ((w.emit (.ev (.drop (.op id)))).dropOp id) + _ ≤ _
        rw [if_pos hc]
        have := countP_le_of_sublist (p := freshCons) hops
        unfold freshC
        have hout' : w.out.countP consObs ≤ ((w.emit (.ev (.drop (.op id)))).dropOp id).out.countP consObs := hout
        omega
      · have hmv' : Moves CtxTag (w.emit (.ev e)) ((w.emit (.ev e)).apply e) := by
          cases e with
          | poll t => exact absurd rfl (hp t)
          | drop t =>
            cases t with
            | op id => exact absurd ⟨id, rfl⟩ hd
            | ctx => exact hmv
            | st id => exact hmv
          | _ => exact hmv
        have h := moves_ctx_ops hmv'
        exact ctxlike h.1 h.2
  | logged t hb => exact ctxlike rfl rfl
  | stall => exact ctxlike rfl rfl
  | flush =>
    have h := moves_ctx_ops (Moves.one (flushRaw_move w) : Moves CtxTag w w.flushRaw)
    exact ctxlike h.1 h.2

/-- **Allocations are bounded by requests.** Along every execution: the identifiers allocated so far, plus the
    identifier-taking futures that have not been polled yet, are at most the identifier-taking `op` events logged so far. -/
theorem exec_alloc_bound {cfg : Cfg} {ws : List World} (h : Exec cfg ws) :
    ∀ w rest, ws = w :: rest → allocCount ws + freshC w ≤ w.out.countP consObs := by
  induction h with
  | init => intro w rest e; cases e; simp [allocCount, freshC]
  | @next w w' ws he hm ih =>
    intro x rest e
    cases e
    have h1 := ih w ws rfl
    have h2 := micro_budget he.opsInv hm
    simp only [allocCount]
    omega


/-! ## the identifiers handed out along a path -/

/-- the identifiers handed out along the path, the most recent first -/
def allocated : List World → List Nat
  | w' :: w :: ws => (if w'.pidCtr = w.pidCtr then [] else [w.pidCtr]) ++ allocated (w :: ws)
  | _ => []

/-- **No wrap-around, no repetition.** Along an execution with fewer than 65535 allocations in total, the counter stands
    at `1 +` the number of allocations, the identifiers handed out are exactly `1, 2, …` in this order — pairwise distinct,
    each in `1..65534` — and every outstanding identifier is one of them. -/
theorem exec_allocated_nodup {cfg : Cfg} {ws : List World} (h : Exec cfg ws) (hn : allocCount ws < 65535) :
    ∀ w rest, ws = w :: rest →
      w.pidCtr = allocCount ws + 1 ∧ (allocated ws).Nodup ∧ (∀ p ∈ allocated ws, 1 ≤ p ∧ p ≤ allocCount ws) ∧
      ∀ p ∈ Outstanding w, p ∈ allocated ws := by
  induction h with
  | init =>
    intro w rest e; cases e
    exact ⟨rfl, by simp [allocated], by simp [allocated], by simp [Outstanding, qpids, apids, ppids]⟩
  | @next w w' ws he hm ih =>
    intro x rest e; cases e
    have hn0 : allocCount (w :: ws) < 65535 := Nat.lt_of_le_of_lt (allocCount_tail_le w' (w :: ws)) hn
    obtain ⟨h1, h2, h3, h4⟩ := ih hn0 w ws rfl
    have hstep := micro_idStep he.opsInv hm
    simp only [allocCount, allocated] at hn ⊢
    by_cases hc : w'.pidCtr = w.pidCtr
    · simp only [hc, if_true, Nat.zero_add, List.nil_append]
      refine ⟨h1, h2, h3, fun p hp => ?_⟩
      rcases hstep.mem hp with h | ⟨_, h⟩
      · exact h4 p h
      · rw [hc] at h; exact absurd h.symm (nextPid_ne _)
    · simp only [hc, if_false] at hn ⊢
      have hnx : w'.pidCtr = nextPid w.pidCtr := by
        rcases hstep.ctr with e | e
        · exact absurd e hc
        · exact e
      refine ⟨?_, ?_, ?_, fun p hp => ?_⟩
      · rw [hnx, h1]; unfold nextPid; split <;> omega
      · simp only [List.singleton_append, List.nodup_cons]
        refine ⟨fun hmem => ?_, h2⟩
        have := (h3 _ hmem).2
        omega
      · intro p hp
        simp only [List.singleton_append, List.mem_cons] at hp
        rcases hp with rfl | hp
        · omega
        · have := h3 p hp; omega
      · simp only [List.singleton_append, List.mem_cons]
        rcases hstep.mem hp with h | ⟨h, _⟩
        · exact Or.inr (h4 p h)
        · exact Or.inl h

/-! ## the `EV` lines of a transcript are events of the script -/

/-- the events logged in a transcript, in order -/
def evLines (out : List Obs) : List Ev := out.filterMap fun o => match o with | .ev e => some e | _ => none

theorem evLines_append (a b : List Obs) : evLines (a ++ b) = evLines a ++ evLines b := by
  simp [evLines, List.filterMap_append]

theorem evLines_noEv {l : List Obs} (h : ∀ o ∈ l, NoEv o) : evLines l = [] := by
  unfold evLines
  rw [List.filterMap_eq_nil_iff]
  intro o ho
  cases o with
  | ev e => exact absurd rfl (h _ ho e)
  | _ => rfl

theorem evLines_steps (evs : List Ev) (w : World) :
    ∃ l, evLines (evs.foldl World.step w).out = evLines w.out ++ l ∧ l.Sublist evs := by
  induction evs generalizing w with
  | nil => exact ⟨[], by simp, List.Sublist.refl _⟩
  | cons e t ih =>
    simp only [List.foldl_cons]
    obtain ⟨l, h1, h2⟩ := ih (w.step e)
    rcases step_out_shape w e with h | ⟨rest, h, hr⟩
    · exact ⟨l, by rw [h1, h], h2.trans (List.sublist_cons_self _ _)⟩
    · refine ⟨e :: l, ?_, h2.cons_cons e⟩
      rw [h1, h, evLines_append]
      have : evLines (Obs.ev e :: rest) = [e] := by
        have e1 : evLines (Obs.ev e :: rest) = evLines [Obs.ev e] ++ evLines rest := by
          rw [← evLines_append]; rfl
        rw [e1, evLines_noEv hr]; rfl
      rw [this, List.append_assoc]; rfl

/-- an `op` event whose request takes a packet identifier -/
def consEv : Ev → Bool
  | .op _ _ req => Req.consumes req
  | _ => false

theorem countP_consObs (out : List Obs) : out.countP consObs = (evLines out).countP consEv := by
  induction out with
  | nil => rfl
  | cons o t ih =>
    cases o with
    | ev e =>
      simp only [List.countP_cons, evLines, List.filterMap_cons] at ih ⊢
      rw [ih]
      cases e <;> rfl
    | _ => simpa [List.countP_cons, evLines, consObs] using ih

/-- the identifier-taking `op` events logged while a script runs are among those of the script -/
theorem consObs_script (cfg : Cfg) (evs : List Ev) :
    (evs.foldl World.step { cfg := cfg }).out.countP consObs ≤ evs.countP consEv := by
  obtain ⟨l, h1, h2⟩ := evLines_steps evs { cfg := cfg }
  rw [countP_consObs, h1]
  simp only [evLines, List.filterMap_nil, List.nil_append]
  exact h2.countP_le


/-! ## subscription identifiers: a SUBSCRIBE enters the queue only at the first poll of its future -/

/-- the first poll of a handle future and subscription identifiers: the message queued, if any, carries no subscription
    identifier, or the request is a SUBSCRIBE, the message carries the counter's value and the counter advances -/
theorem startOp_sids (w : World) (id : Nat) (req : Req) :
    ((w.startOp id req).queue = w.queue ∨
      ∃ m, (w.startOp id req).queue = w.queue ++ [m] ∧
        (m.sid? = none ∨ (∃ t, req = .subscribe t) ∧ m.sid? = some w.subCtr)) ∧
    (w.startOp id req).subCtr = (match req with | .subscribe _ => nextSub w.subCtr | _ => w.subCtr) := by
  have sa : ∀ (w0 : World) (m : Msg) (s : Nat) (k : Wait), w0.queue = w.queue → m.sid? = none →
      (w0.sendAwait m id s k).queue = w.queue ∨
      ∃ m', (w0.sendAwait m id s k).queue = w.queue ++ [m'] ∧
        (m'.sid? = none ∨ (∃ t, req = .subscribe t) ∧ m'.sid? = some w.subCtr) := by
    intro w0 m s k h0 hm
    by_cases hc : w0.hasCtx = true
    · obtain ⟨wk, qr, e⟩ := User.sendAwait_ctx w0 m id s k hc
      right; exact ⟨m, by rw [e]; simp [h0], Or.inl hm⟩
    · left; rw [User.sendAwait_no_ctx w0 m id s k (by simpa using hc)]; simpa using h0
  cases req with
  | publish t =>
    by_cases hq0 : t.qos = 0
    · rw [User.startOp_publish0 w id t hq0]
      split
      · exact ⟨Or.inl (by simp), by simp⟩
      · exact ⟨sa w _ _ _ rfl rfl, by simp⟩
    · rw [User.startOp_publish12 w id t hq0]
      split
      · exact ⟨Or.inl (by simp [allocPid]), by simp [allocPid]⟩
      · exact ⟨sa (w.allocPid.2) _ _ _ rfl rfl, by simp [allocPid]⟩
  | subscribe t =>
    rw [User.startOp_subscribe]
    simp only
    split
    · exact ⟨Or.inl (by simp [allocPid, allocSub]), by simp [allocPid]; rfl⟩
    · split
      · exact ⟨Or.inl (by simp [allocPid, allocSub, dropChanRx, setChan]), by simp [allocPid, dropChanRx, setChan]; rfl⟩
      · next w' hs =>
        by_cases hc : w.hasCtx = true
        · obtain ⟨wk, qr, e⟩ := User.sendMsg_shape (((w.allocPid.2).allocSub.2).setChan id {})
            (.subscribe (actionId 9 w.pidCtr) w.subCtr
              ({ t with packetId := w.pidCtr, subId := some w.subCtr } : SubscribeTx).encode (2 * id) id) hc
          rw [e] at hs; cases hs
          exact ⟨Or.inr ⟨_, rfl, Or.inr ⟨⟨t, rfl⟩, rfl⟩⟩, by simp [allocPid, setChan]; rfl⟩
        · rw [User.sendMsg_none _ _ (by simpa [setChan, allocPid, allocSub] using hc)] at hs; cases hs
  | unsubscribe t =>
    rw [User.startOp_unsubscribe]
    split
    · exact ⟨Or.inl (by simp [allocPid]), by simp [allocPid]⟩
    · exact ⟨sa (w.allocPid.2) _ _ _ rfl rfl, by simp [allocPid]⟩
  | ping => rw [User.startOp_ping]; exact ⟨sa w _ _ _ rfl rfl, by simp⟩
  | disconnect t => rw [User.startOp_disconnect]; exact ⟨sa w _ _ _ rfl rfl, by simp⟩

/-- one poll of a handle future, as far as SUBSCRIBE messages are concerned -/
theorem pollOp_sids (w : World) (id : Nat) :
    (w.pollOp id).queue = w.queue ∨
    ∃ m, (w.pollOp id).queue = w.queue ++ [m] ∧
      (m.sid? = none ∨ ((∃ h t, w.opSt id = some (.fresh h (.subscribe t))) ∧ m.sid? = some w.subCtr ∧
        (w.pollOp id).subCtr = nextSub w.subCtr)) := by
  unfold pollOp
  cases hop : w.opSt id with
  | none => exact Or.inl rfl
  | some st =>
    cases st with
    | fresh h req =>
      simp only
      obtain ⟨hq, hc⟩ := startOp_sids w id req
      rcases hq with e | ⟨m, e, hm⟩
      · exact Or.inl e
      · refine Or.inr ⟨m, e, ?_⟩
        rcases hm with hm | ⟨⟨t, rfl⟩, hm⟩
        · exact Or.inl hm
        · exact Or.inr ⟨⟨h, t, rfl⟩, hm, hc⟩
    | wait s k =>
      simp only
      cases hs : w.slot s with
      | none => exact Or.inl rfl
      | some sl =>
        cases sl with
        | empty => exact Or.inl rfl
        | closed => exact Or.inl (by simp [clearSlot])
        | full v =>
          rcases (pubrel_only_from_pubrec w id).2 s k v with e | ⟨a, rfl, rfl, ha, hc, e⟩
          · exact Or.inl e
          · exact Or.inr ⟨_, e, Or.inl rfl⟩

/-- **A SUBSCRIBE enters the message queue only at the first poll of its `subscribe()` future, carrying the counter's
    value.** For every elementary transition `w → w'`: a queued message of `w'` that carries a subscription identifier was
    already queued in `w`, or the transition is the first poll of the future of a `subscribe()` operation `id`, the
    identifier is the value `w.subCtr` of the counter before the poll, and the counter has advanced by one step. -/
theorem subscribe_queue_origin {w w' : World} (hm : Micro w w') :
    ∀ m ∈ w'.queue, ∀ sid, m.sid? = some sid → m ∈ w.queue ∨
      ∃ id h t, w' = w.pollTask (.op id) ∧ w.opSt id = some (.fresh h (.subscribe t)) ∧ sid = w.subCtr ∧
        w'.subCtr = nextSub w.subCtr := by
  intro m hmem sid hsid
  cases hm with
  | ctx => exact Or.inl (moves_ctx_queue (pollCtx_moves w) m hmem)
  | user t ht =>
    cases t with
    | ctx => exact absurd rfl ht
    | op id =>
      have hmem' : m ∈ ((w.unwake (.op id)).pollOp id).queue := hmem
      rcases pollOp_sids (w.unwake (.op id)) id with e | ⟨m0, e, hm0⟩
      · rw [e] at hmem'; exact Or.inl hmem'
      · rw [e] at hmem'
        rcases List.mem_append.mp hmem' with h | h
        · exact Or.inl h
        · simp only [List.mem_singleton] at h
          subst h
          rcases hm0 with hn | ⟨⟨hh, t, h1⟩, h2, h3⟩
          · rw [hn] at hsid; cases hsid
          · rw [h2] at hsid
            simp only [Option.some.injEq] at hsid
            exact Or.inr ⟨id, hh, t, rfl, h1, hsid.symm, h3⟩
    | st id =>
      have hmem' : m ∈ ((w.unwake (.st id)).pollStream id).queue := hmem
      rw [pollStream_queue] at hmem'; exact Or.inl hmem'
  | unwake t => exact Or.inl hmem
  | ev e hp hb =>
    rcases apply_cases (w.emit (.ev e)) e with ⟨t, rfl, _⟩ | ⟨tk, _, _, _, h4⟩ | hpas
    · exact absurd rfl (hp t)
    · rw [h4] at hmem; exact Or.inl (by simpa using hmem)
    · rcases hpas.queue with e | e <;> rw [e] at hmem
      · exact Or.inl hmem
      · simp at hmem
  | logged t hb => exact Or.inl hmem
  | stall => exact Or.inl hmem
  | flush => rw [flushRaw_queue] at hmem; exact Or.inl hmem


/-! ## the subscription-identifier counter along an execution -/

theorem dec_subCtr {A : SLab → Prop} {w w' : World} (h : Dec A w w') (hA : ∀ l, A l → l.started = none) :
    w'.subCtr = w.subCtr := by
  obtain ⟨tr, st, hl⟩ := h
  induction st with
  | refl => rfl
  | @cons a b c l tr' m _ ih =>
    have h1 : b.subCtr = a.subCtr := by
      rcases SMove.subRel m with ⟨_, sc, _⟩ | ⟨hs, _⟩
      · exact sc
      · exact absurd (hA l (hl l (by simp))) hs
    rw [ih (fun l' hl' => hl l' (by simp [hl'])), h1]

theorem started_none_of_ctxLab {l : SLab} (h : CtxLab l) : l.started = none := by
  rcases h with rfl | ⟨src, rfl⟩ <;> rfl

theorem started_none_of_stLab {id : Nat} {l : SLab} (h : StLab id l) : l.started = none := by
  rcases h with rfl | ⟨p, rfl⟩ | rfl | rfl <;> rfl

theorem pollOp_subCtr (w : World) (id : Nat) (hp : PidOk w.pidCtr) :
    (w.pollOp id).subCtr = w.subCtr ∨
    ((w.pollOp id).subCtr = nextSub w.subCtr ∧ (w.pollOp id).pidCtr ≠ w.pidCtr) := by
  unfold pollOp
  cases hop : w.opSt id with
  | none => exact Or.inl rfl
  | some st =>
    cases st with
    | fresh h req =>
      simp only
      have h1 := (startOp_sids w id req).2
      have h2 := (startOp_ids w id req hp).1
      cases req with
      | subscribe t =>
        right
        refine ⟨h1, ?_⟩
        rw [h2]; simp only [Req.consumes, ↓reduceIte]
        exact nextPid_ne _
      | _ => exact Or.inl h1
    | wait s k =>
      simp only
      cases hs : w.slot s with
      | none => exact Or.inl rfl
      | some sl =>
        cases sl with
        | empty => exact Or.inl rfl
        | closed => exact Or.inl (by simp)
        | full v => exact Or.inl (resumeOp_subEq w id s k v).1

/-- one elementary transition: the subscription-identifier counter stands still, or advances by one step together with the
    packet-identifier counter (the first poll of a `subscribe()` future takes one of each) -/
theorem micro_subCtr {w w' : World} (hi : OpsInv w) (hm : Micro w w') :
    w'.subCtr = w.subCtr ∨ (w'.subCtr = nextSub w.subCtr ∧ w'.pidCtr ≠ w.pidCtr) := by
  cases hm with
  | ctx => exact Or.inl (dec_subCtr (pollCtx_dec w) (fun l => started_none_of_ctxLab))
  | user t ht =>
    cases t with
    | ctx => exact absurd rfl ht
    | op id => exact pollOp_subCtr (w.unwake (.op id)) id hi.pid
    | st id =>
      left
      show ((w.unwake (.st id)).pollStream id).subCtr = (w.unwake (.st id)).subCtr
      exact dec_subCtr (pollStream_dec (w.unwake (.st id)) id) (fun l => started_none_of_stLab)
  | unwake t => exact Or.inl rfl
  | ev e hp hb =>
    left
    have hi0 : OpsInv (w.emit (.ev e)) := ⟨hi.nodup, hi.shape, hi.pid⟩
    show ((w.emit (.ev e)).apply e).subCtr = (w.emit (.ev e)).subCtr
    by_cases hd : ∃ id, e = .drop (.op id)
    · obtain ⟨id, rfl⟩ := hd
      exact (dropOp_subEq (w.emit (.ev (.drop (.op id)))) id).1
    · rcases apply_dec (w.emit (.ev e)) e hi0 with ⟨id, hh, req, rfl, hmv⟩ | hdec
      · rcases SMove.subRel hmv with ⟨_, sc, _⟩ | ⟨hs, _⟩
        · exact sc
        · exact absurd rfl hs
      · refine dec_subCtr hdec (fun l hl => ?_)
        cases e with
        | poll t => exact absurd rfl (hp t)
        | drop t =>
          cases t with
          | op id => exact absurd ⟨id, rfl⟩ hd
          | ctx => exact started_none_of_ctxLab hl
          | st id => have : l = .dropRx id := hl; subst this; rfl
        | dropRsp id => have : l = .dropRx id := hl; subst this; rfl
        | _ => exact started_none_of_ctxLab hl
  | logged t hb => exact Or.inl rfl
  | stall => exact Or.inl rfl
  | flush =>
    rcases SMove.subRel (flushRaw_smove w) with ⟨_, sc, _⟩ | ⟨hs, _⟩
    · exact Or.inl sc
    · exact absurd rfl hs

/-- the subscription identifiers handed out along the path, the most recent first -/
def subAllocated : List World → List Nat
  | w' :: w :: ws => (if w'.subCtr = w.subCtr then [] else [w.subCtr]) ++ subAllocated (w :: ws)
  | _ => []

/-- **Subscription identifiers are handed out once.** Along an execution with fewer than 268435455 identifier allocations
    in total: the subscription-identifier counter stands at `1 +` the number of subscription identifiers handed out; these
    are `1, 2, …` in this order — pairwise distinct, non-zero —, at most as many as packet identifiers were allocated; and
    every queued SUBSCRIBE message carries one of them. -/
theorem exec_subAllocated_nodup {cfg : Cfg} {ws : List World} (h : Exec cfg ws) (hn : allocCount ws < 268435455) :
    ∀ w rest, ws = w :: rest →
      w.subCtr = (subAllocated ws).length + 1 ∧ (subAllocated ws).length ≤ allocCount ws ∧
      (subAllocated ws).Nodup ∧ (∀ s ∈ subAllocated ws, 1 ≤ s ∧ s ≤ (subAllocated ws).length) ∧
      ∀ m ∈ w.queue, ∀ sid, m.sid? = some sid → sid ∈ subAllocated ws := by
  induction h with
  | init =>
    intro w rest e; cases e
    exact ⟨rfl, by simp [subAllocated, allocCount], by simp [subAllocated], by simp [subAllocated], by simp⟩
  | @next w w' ws he hm ih =>
    intro x rest e; cases e
    have hn0 : allocCount (w :: ws) < 268435455 := Nat.lt_of_le_of_lt (allocCount_tail_le w' (w :: ws)) hn
    obtain ⟨h1, h2, h3, h4, h5⟩ := ih hn0 w ws rfl
    have hsub := micro_subCtr he.opsInv hm
    have horig := subscribe_queue_origin hm
    simp only [allocCount, subAllocated] at hn ⊢
    by_cases hc : w'.subCtr = w.subCtr
    · simp only [hc, if_true, List.nil_append]
      refine ⟨h1, by omega, h3, h4, fun m hm' sid hs => ?_⟩
      rcases horig m hm' sid hs with h | ⟨id, hh, t, _, _, _, h⟩
      · exact h5 m h sid hs
      · rw [hc] at h; exact absurd h.symm (by unfold nextSub; split <;> omega)
    · have hnx : w'.subCtr = nextSub w.subCtr ∧ w'.pidCtr ≠ w.pidCtr := by
        rcases hsub with e | e
        · exact absurd e hc
        · exact e
      simp only [hc, if_false, hnx.2, List.singleton_append, List.length_cons] at hn ⊢
      refine ⟨?_, by omega, ?_, ?_, fun m hm' sid hs => ?_⟩
      · rw [hnx.1, h1]; unfold nextSub; split <;> omega
      · simp only [List.nodup_cons]
        refine ⟨fun hmem => ?_, h3⟩
        have := (h4 _ hmem).2
        omega
      · intro s hs
        simp only [List.mem_cons] at hs
        rcases hs with rfl | hs
        · omega
        · have := h4 s hs; omega
      · simp only [List.mem_cons]
        rcases horig m hm' sid hs with h | ⟨id, hh, t, _, _, h, _⟩
        · exact Or.inr (h5 m h sid hs)
        · exact Or.inl h

end W10
end World
end Poster
