/-
  Lemmas/WorldFramingEx.lean — a concrete script evaluated stage by stage for the non-vacuity examples of
  Properties/C03World.lean (work package W12): `SETUP`, a PINGRESP fed in two one-byte chunks, `run()`.
  `Framing.pollNext` is opaque to `decide`; the one poll of the `run()` loop is peeled by hand (as in Lemmas/WorldOpsEx.lean).
-/
import PosterModel.Lemmas.WorldFramingScript
import PosterModel.Lemmas.WorldOpsEx

set_option linter.unusedVariables false
set_option linter.unusedSimpArgs false

namespace Poster
open Framing
namespace World
namespace W12

deriving instance DecidableEq for FLog

/-- the loop reads a whole frame, decodes it, handles the packet and goes on: the frame is handed to the decoder -/
theorem loopFrames_pkt (f : Nat) (w : World) (fr : Bytes) (p : RxPacket) (hf : 0 < f) (hq : w.queue = [])
    (hs : w.senders ≠ 0) (hpn : pollNext w.rx w.reader = ({}, [], .item fr)) (hd : decodeRx fr = .ok p)
    (hfl : (({ w with rx := {}, reader := [] }).runHandler
      (fun wok => w.c.handlePkt w.chanRxAlive p wok)).2 = .cont) :
    loopFrames f w = fr :: loopFrames (f - 1) (({ w with rx := {}, reader := [] }).runHandler
      (fun wok => w.c.handlePkt w.chanRxAlive p wok)).1 := by
  obtain ⟨f, rfl⟩ : ∃ g, f = g + 1 := ⟨f - 1, by omega⟩
  have e : ({ w with rx := ({} : Rx), reader := [] } : World).chanRxAlive = w.chanRxAlive := rfl
  have hi : iterFrames w = [fr] := by simp [iterFrames, hq, hs, nextFrame, hpn, outFrames]
  have hr : runIter w = .inl (({ w with rx := {}, reader := [] }).runHandler
      (fun wok => w.c.handlePkt w.chanRxAlive p wok)).1 := by
    unfold runIter
    simp only [hq] at hfl e
    simp only [hq, hs, ↓reduceIte, hpn, hd, e, hfl]
  simp only [loopFrames, hi, hr, Nat.add_sub_cancel, List.singleton_append]

/-- the loop finds nothing to do: no frame -/
theorem loopFrames_idle (f : Nat) (w : World) (hq : w.queue = []) (hs : w.senders ≠ 0)
    (hrx : w.rx = {}) (hrd : w.reader = []) : loopFrames f w = [] := by
  cases f with
  | zero => rfl
  | succ f =>
    have hi : iterFrames w = [] := by simp [iterFrames, hq, hs, nextFrame, hrx, hrd, pn_nil, outFrames]
    have hr : ∃ r, runIter w = .inr r := by
      unfold runIter
      simp only [hq, hs, ↓reduceIte, hrx, hrd, pn_nil]
      exact ⟨_, rfl⟩
    obtain ⟨r, hr⟩ := hr
    simp only [loopFrames, hi, hr, List.nil_append]

theorem drainG_of_idle (f : Nat) (w : World) (g : FLog) (h : w.pick = none) : drainG f w g = g := by
  cases f with
  | zero => rfl
  | succ f => simp only [drainG, h]

theorem drainG_pick (f : Nat) (w : World) (g : FLog) (t : Task) (hf : 0 < f) (h : w.pick = some t) :
    drainG f w g = drainG (f - 1) (w.pollTask t) (g.poll w t) := by
  obtain ⟨f, rfl⟩ : ∃ k, f = k + 1 := ⟨f - 1, by omega⟩
  simp only [drainG, h, Nat.add_sub_cancel]

end W12
end World

namespace Ex
open World World.W12

/-- PINGRESP arriving in two reads of one byte each -/
theorem pn_ping2 : pollNext {} [.data [0xD0], .data [0]] = ({}, [], .item pingresp) := by
  simp [pollNext, cap, frameLen, decVar, decVarAux, varMax, pingresp]

/-- `SETUP`, a PINGRESP fed in two one-byte chunks, then `run()` -/
def evsPing : List Ev := [.setup, .feed [[0xD0], [0]], .run]

/-- the world after `SETUP` and the `feed` -/
def wPing2 : World :=
  { hasCtx := true, handles := [0], reader := [.data [0xD0], .data [0]],
    out := [.ev .setup, .ev (.feed [[0xD0], [0]])] }

theorem wPing2_eq : ([Ev.setup, .feed [[0xD0], [0]]].foldl World.step {}) = wPing2 := by decide

theorem gPing2_eq : stepsG [Ev.setup, .feed [[0xD0], [0]]] {} {} =
    { fed := [.data [0xD0], .data [0]], dec := [], mark := 1 } := by decide

/-- … after the `run` event was logged and applied -/
def wPing3a : World :=
  { wPing2 with task := .running false, woken := [.ctx], out := wPing2.out ++ [.ev .run] }

theorem wPing3a_eq : (wPing2.emit (.ev .run)).apply .run = wPing3a := by decide

/-- … and after the context task was polled: the PINGRESP was read, decoded and handled; both wakers are armed -/
def wPing3 : World :=
  { wPing2 with task := .running true, reader := [], queueReg := true, readerReg := true,
                out := wPing2.out ++ [.ev .run] }

/-- the world in which the loop of `run()` starts: session resumed (nothing to resume), nothing re-sent -/
def wPingB : World :=
  { wPing2 with task := .running true, out := wPing2.out ++ [.ev .run] }

/-- … after the iteration that handled the PINGRESP -/
def wPingC : World := { wPingB with reader := [] }

theorem wPing3a_resent : (wPing3a.unwake .ctx).resent = wPingB := by decide

theorem wPingB_handled :
    (({ wPingB with rx := {}, reader := [] }).runHandler
      (fun wok => wPingB.c.handlePkt wPingB.chanRxAlive .pingresp wok)) = (wPingC, .cont) := by decide

/-- **the poll of the context task in the third step**: the world afterwards … -/
theorem wPing3a_poll : wPing3a.pollTask .ctx = wPing3 := by
  have h0 : wPing3a.pollTask .ctx = (wPing3a.unwake .ctx).pollRun false := rfl
  rw [h0, pollRun_first_eq, if_pos (by decide), wPing3a_resent]
  have hf : wPingB.loopFuel = 12 := by decide
  rw [hf, runLoop_pkt 12 wPingB pingresp .pingresp (by decide) rfl (by decide) pn_ping2 dec_pingresp
    (by rw [wPingB_handled]), wPingB_handled]
  rw [runLoop_idle _ wPingC (by decide) rfl (by decide) rfl rfl]
  decide

/-- … and the frames it handed to the decoder: exactly the PINGRESP, reassembled from the two reads -/
theorem wPing3a_frames : ctxFrames (wPing3a.unwake .ctx) = [pingresp] := by
  have h0 : ctxFrames (wPing3a.unwake .ctx) =
      if (wPing3a.unwake .ctx).resumed.canWrite (((wPing3a.unwake .ctx).c.resume.2.2.map List.length).sum) then
        loopFrames (wPing3a.unwake .ctx).resent.loopFuel (wPing3a.unwake .ctx).resent else [] := rfl
  rw [h0, if_pos (by decide), wPing3a_resent]
  have hf : wPingB.loopFuel = 12 := by decide
  rw [hf, loopFrames_pkt 12 wPingB pingresp .pingresp (by decide) rfl (by decide) pn_ping2 dec_pingresp
    (by rw [wPingB_handled]), wPingB_handled]
  rw [loopFrames_idle _ wPingC rfl (by decide) rfl rfl]

/-- **the whole script**: the world it ends in … -/
theorem evsPing_world : evsPing.foldl World.step {} = wPing3 := by
  have e0 : evsPing.foldl World.step {} = ([Ev.setup, .feed [[0xD0], [0]]].foldl World.step {}).step .run := rfl
  rw [e0, wPing2_eq]
  have e1 : wPing2.step .run =
      (let w := (wPing2.emit (.ev .run)).apply .run
       if w.bad then w else
       let w := drain w.drainFuel w
       let w := if w.cfg.sweep then (let w := w.sweep; drain w.drainFuel w) else w
       if w.task ≠ .none ∧ w.reader ≠ [] then w.emit .stall else w) := rfl
  rw [e1, wPing3a_eq]
  have hd : drain wPing3a.drainFuel wPing3a = wPing3 := by
    have hf : wPing3a.drainFuel = 78 + 1 + 1 := by decide
    rw [hf, drain, show wPing3a.pick = some .ctx by decide]
    simp only
    rw [wPing3a_poll, drain, show wPing3.pick = none by decide]
  simp only [show wPing3a.bad = false by decide, Bool.false_eq_true, ↓reduceIte, hd]
  decide

/-- … and its ghost: two one-byte reads fed, ONE frame — the PINGRESP — handed to the decoder -/
theorem evsPing_flog : flog {} evsPing = { fed := [.data [0xD0], .data [0]], dec := [pingresp], mark := 1 } := by
  have e0 : flog {} evsPing =
      stepG ([Ev.setup, .feed [[0xD0], [0]]].foldl World.step {}) .run (stepsG [Ev.setup, .feed [[0xD0], [0]]] {} {}) := rfl
  rw [e0, wPing2_eq, gPing2_eq]
  unfold stepG
  simp only [show wPing2.bad = false by decide, Bool.false_eq_true, ↓reduceIte, wPing3a_eq,
    show wPing3a.bad = false by decide]
  have hd : drain wPing3a.drainFuel wPing3a = wPing3 := by
    have hf : wPing3a.drainFuel = 78 + 1 + 1 := by decide
    rw [hf, drain, show wPing3a.pick = some .ctx by decide]
    simp only
    rw [wPing3a_poll, drain, show wPing3.pick = none by decide]
  rw [hd]
  simp only [show wPing3.cfg.sweep = false by decide, Bool.false_eq_true, ↓reduceIte]
  rw [drainG_pick _ _ _ .ctx (by decide) (by decide), wPing3a_poll, drainG_of_idle _ _ _ (by decide)]
  simp only [FLog.apply, FLog.poll, wPing3a_frames]
  rfl

/-- the script went through: it was not refused -/
theorem evsPing_ok : (evsPing.foldl World.step {}).bad = false := by rw [evsPing_world]; decide

/-- one more PINGRESP, again in two one-byte chunks -/
def morePing : List Ev := [.feed [[0xD0], [0]]]

theorem evsPing_more_ok : ((evsPing ++ morePing).foldl World.step {}).bad = false := by
  have e : (evsPing ++ morePing).foldl World.step {} = (evsPing.foldl World.step {}).step (.feed [[0xD0], [0]]) := by
    rw [List.foldl_append]; rfl
  rw [e, step_bad_eq _ _ (ownInv_script {} evsPing) evsPing_ok, evsPing_world]
  decide

/-- a PUBLISH header followed by a remaining-length field of five continuation bytes: malformed -/
def malformed : Bytes := [0x30, 0xff, 0xff, 0xff, 0xff, 0xff, 1]

theorem pn_malformed :
    pollNext {} [.data malformed] = ({ valid := malformed, pend := 0, st := .len }, [], .none) := by
  simp [pollNext, cap, frameLen, decVar, decVarAux, varMax, malformed]

/-- `run()` serving with the malformed bytes readable: the poll returns `SocketClosed` although the transport has
    reported neither end-of-stream nor an error -/
theorem wServe_malformed_closed :
    (wServe [.data malformed]).pollCtx.out = [.ret .run (.err .socketClosed)] := by
  have h0 : (wServe [.data malformed]).pollCtx =
      runLoop (wServe [.data malformed]).loopFuel (wServe [.data malformed]) := rfl
  have hf : (wServe [.data malformed]).loopFuel = 19 + 1 := by decide
  have hi : runIter (wServe [.data malformed]) =
      .inr (({ wServe [.data malformed] with rx := { valid := malformed, pend := 0, st := .len }, reader := [] }).finish
        .run (.err .socketClosed)) := by
    unfold runIter
    have hp : pollNext (wServe [.data malformed]).rx (wServe [.data malformed]).reader =
        ({ valid := malformed, pend := 0, st := .len }, [], .none) := pn_malformed
    simp only [show (wServe [.data malformed]).queue = [] from rfl,
      show ¬ (wServe [.data malformed]).senders = 0 by decide, ↓reduceIte, hp]
  rw [h0, hf, runLoop_succ, hi]
  rfl

end Ex
end Poster
