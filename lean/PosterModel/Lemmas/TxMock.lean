/-
  Lemmas/TxMock.lean — the mock transport's answers (TxMock.lean) always suffice to complete a `write_all`.
-/
import PosterModel.TxMock
import PosterModel.Lemmas.TxStream

namespace Poster.TxStream
open Poster

/-- fuel measure: a `Pending` answer is always followed by an `accept` of at least one byte -/
theorem answers_complete (f : Nat) : ∀ (m : MockW) (p : Bytes),
    2 * p.length ≤ f + (if m.yielded ∨ !m.pend then 1 else 0) →
    (writeAll p (m.answers f p.length).1).1.out = .done ∧
    (writeAll p (m.answers f p.length).1).1.acc = p ∧
    (m.answers f p.length).2.yielded = (if p = [] then m.yielded else false) := by
  induction f with
  | zero =>
    intro m p h
    have : p = [] := by
      cases p with
      | nil => rfl
      | cons b bs => simp only [List.length_cons] at h; split at h <;> omega
    subst this
    simp [MockW.answers]
  | succ f ih =>
    intro m p h
    cases p with
    | nil => simp [MockW.answers]
    | cons b bs =>
      obtain ⟨one, pend, yl⟩ := m
      simp only [List.length_cons] at h
      -- the accept step, common to the three states that do not answer `Pending` first
      have acceptStep : ∀ (pend' yl' : Bool), (2 * (bs.length + 1) ≤ f + 1 + 1) →
          (writeAll (b :: bs) (.accept ((if one then 1 else bs.length + 1) - 1) ::
              (MockW.answers f ⟨one, pend', false⟩ (bs.length + 1 - (if one then 1 else bs.length + 1))).1)).1.out = .done ∧
          (writeAll (b :: bs) (.accept ((if one then 1 else bs.length + 1) - 1) ::
              (MockW.answers f ⟨one, pend', false⟩ (bs.length + 1 - (if one then 1 else bs.length + 1))).1)).1.acc = b :: bs ∧
          (MockW.answers f ⟨one, pend', false⟩ (bs.length + 1 - (if one then 1 else bs.length + 1))).2.yielded = false := by
        intro pend' yl' hf
        have hk : 1 ≤ (if one then 1 else bs.length + 1) := by split <;> omega
        have hk' : (if one then 1 else bs.length + 1) ≤ bs.length + 1 := by split <;> omega
        generalize (if one then 1 else bs.length + 1) = k at hk hk'
        have hlen : ((b :: bs).drop (k - 1 + 1)).length = bs.length + 1 - k := by
          simp only [List.length_drop, List.length_cons]; omega
        have := ih ⟨one, pend', false⟩ ((b :: bs).drop (k - 1 + 1)) (by
          rw [hlen]
          have hb : (if (false = true) ∨ (!pend') = true then 1 else 0) ≥ 0 := Nat.zero_le _
          simp only [] at hb ⊢
          omega)
        rw [hlen] at this
        simp only [writeAll, reduceCtorEq, if_false]
        refine ⟨this.1, ?_, ?_⟩
        · rw [this.2.1]; exact List.take_append_drop _ _
        · have h3 := this.2.2
          split at h3
          · simpa using h3
          · exact h3
      cases pend <;> cases yl
      · -- no Pending policy
        have := acceptStep false false (by simp at h; omega)
        simpa [MockW.answers] using this
      · have := acceptStep false true (by simp at h; omega)
        simpa [MockW.answers] using this
      · -- Pending first; the mock has yielded, the same packet with one unit of fuel less
        have := ih ⟨one, true, true⟩ (b :: bs) (by simp at h ⊢; omega)
        simp only [List.length_cons, reduceCtorEq, if_false] at this
        exact ⟨this.1, this.2.1, this.2.2⟩
      · have := acceptStep true true (by simp at h; omega)
        simpa [MockW.answers] using this

end Poster.TxStream
