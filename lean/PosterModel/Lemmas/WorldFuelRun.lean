/-
  Lemmas/WorldFuelRun.lean — no poll of the context task increases the potential `W5.phi`
  (`W5.pollCtx_phi`): every iteration of the `select!` loop consumes a queued message or a frame whose bytes pay
  for the deliveries it causes; the poll ends by finishing the future, or pending — and if it re-flags itself it
  has consumed a `pending` event of the reader.
-/
import PosterModel.Lemmas.WorldFuelCtx

set_option linter.unusedVariables false
set_option linter.unusedSimpArgs false

namespace Poster
open Framing
namespace World
namespace W5

/-- assembling the components -/
theorem phi_le_of {w w' : World} {a : Nat} (ht : w'.task ≠ .none → w.task ≠ .none)
    (hc : w'.task ≠ .none → Task.ctx ∈ w'.woken → Task.ctx ∈ w.woken)
    (hs : w'.senders ≠ 0 → w.senders ≠ 0)
    (hm : mu w'.rx w'.reader + a ≤ mu w.rx w.reader) (hu : phiU w' ≤ phiU w + a) : phi w' ≤ phi w := by
  have h1 := ctxFlag_le ht hc
  have h2 := ctxZ_le ht hs
  unfold phi; omega

/-- the same when the context flags itself again, having consumed one unit of the framing measure -/
theorem phi_le_of_rewake {w w' : World} (ht : w'.task ≠ .none → w.task ≠ .none)
    (hs : w'.senders ≠ 0 → w.senders ≠ 0) (hc : Task.ctx ∉ w.woken ∨ w.task = .none)
    (hm : mu w'.rx w'.reader + 1 ≤ mu w.rx w.reader) (hu : phiU w' ≤ phiU w) : phi w' ≤ phi w + 0 := by
  have h2 := ctxZ_le ht hs
  have h1 := ctxFlag_le_one w'
  unfold phi; omega

theorem pollNext_mu {s : Rx} {rs : List ReadEv} {s' : Rx} {rs' : List ReadEv} {o : Out}
    (h : pollNext s rs = (s', rs', o)) : mu s' rs' + o.len ≤ mu s rs := by
  have := pollNext_measure' h; omega

theorem pollNext_mu_pending {s : Rx} {rs : List ReadEv} {s' : Rx} {rs' : List ReadEv}
    (h : pollNext s rs = (s', rs', .pending)) (hne : rs' ≠ []) : mu s' rs' + 1 ≤ mu s rs := by
  have h1 := pollNext_measure' h
  have h2 : nPending rs' < nPending rs := by
    by_cases hlt : nPending rs' < nPending rs
    · exact hlt
    · exact absurd (pollNext_pending_asleep h hlt) hne
  omega

/-- a handler run on `w0` (= `w` with queue / framing state replaced), paid for by the framing measure -/
theorem phi_le_of_effStep {w w0 w' : World} {d : Nat} (h : EffStep d w0 w')
    (e1 : w0.task ≠ .none → w.task ≠ .none) (e2 : w0.handles = w.handles) (e3 : w0.ops = w.ops) (e4 : w0.woken = w.woken)
    (e5 : w0.slotReg = w.slotReg) (e6 : phiU w0 = phiU w) (hmu : mu w0.rx w0.reader + d ≤ mu w.rx w.reader)
    (hr : RegE w) : phi w' ≤ phi w ∧ RegE w' := by
  have hr0 : RegE w0 := by
    intro s hs id st hm hid
    exact hr s (e5 ▸ hs) id st (e3 ▸ hm) hid
  obtain ⟨f, hu⟩ := h
  refine ⟨phi_le_of (a := d) (by rw [f.task_eq]; exact e1)
    (fun _ hc => by rw [← e4]; exact f.ctxW.mp hc)
    (by rw [f.senders]; show w0.handles.length + w0.ops.length ≠ 0 → _; rw [e2, e3]; exact id)
    (by rw [f.rx_eq, f.reader_eq]; exact hmu) (by rw [← e6]; exact hu hr0), f.regE hr0⟩

/-! ## the `select!` loop -/

theorem runCont_phi {w w1 : World} (h : RunCont w w1) (hr : RegE w) : phi w1 ≤ phi w ∧ RegE w1 := by
  cases h with
  | msg m q w1 hq hh =>
    have e : w1 = (World.runHandler { w with queue := q } (fun wok => w.c.handleMsg m wok)).1 := by rw [hh]
    subst e
    have hs := runHandler_effStep { w with queue := q } (fun wok => w.c.handleMsg m wok) 0
      (fun b => by simp [handleMsg_nDeliver])
    exact phi_le_of_effStep hs (fun h => h) rfl rfl rfl rfl rfl (Nat.le_refl _) hr
  | pkt rx' rd' fr p w1 hq hs hp hd hh =>
    have e : w1 = (World.runHandler { w with rx := rx', reader := rd' }
        (fun wok => w.c.handlePkt w.chanRxAlive p wok)).1 := by rw [hh]
    subst e
    have hs := runHandler_effStep { w with rx := rx', reader := rd' }
      (fun wok => w.c.handlePkt w.chanRxAlive p wok) (2 * subIdCount p)
      (fun b => by have := handlePkt_nDeliver w.c w.chanRxAlive p b; omega)
    have hm := pollNext_mu hp
    have hl := decodeRx_subIdCount fr p hd
    simp only [Out.len] at hm
    exact phi_le_of_effStep hs (fun h => h) rfl rfl rfl rfl rfl (by show mu rx' rd' + _ ≤ _; omega) hr

theorem serve_phi {w wm : World} (h : Serve w wm) (hr : RegE w) : phi wm ≤ phi w ∧ RegE wm := by
  induction h with
  | refl w => exact ⟨Nat.le_refl _, hr⟩
  | step hc _ ih =>
    obtain ⟨h1, r1⟩ := runCont_phi hc hr
    obtain ⟨h2, r2⟩ := ih r1
    exact ⟨Nat.le_trans h2 h1, r2⟩

/-- the future is finished (or panics): the context's own summands vanish -/
theorem phi_dead_le {w w' : World} (ht : w'.task = .none) (hm : mu w'.rx w'.reader ≤ mu w.rx w.reader)
    (hu : phiU w' ≤ phiU w) : phi w' ≤ phi w := by
  unfold phi
  rw [ctxFlag_of_none ht, ctxZ_of_none ht]
  omega

theorem phiU_finish (w : World) (call : Call) (r : RetRes) : phiU (w.finish call r) = phiU w := rfl

theorem finish_phi (w : World) (call : Call) (r : RetRes) : phi (w.finish call r) ≤ phi w :=
  phi_dead_le rfl (Nat.le_refl _) (Nat.le_refl _)

theorem runEnd_phi {w r : World} (h : RunEnd w r) (hr : RegE w) : phi r ≤ phi w := by
  cases h with
  | msgExit m q w1 fl hq hh hne =>
    have e : w1 = (World.runHandler { w with queue := q } (fun wok => w.c.handleMsg m wok)).1 := by rw [hh]
    subst e
    have hs := runHandler_effStep { w with queue := q } (fun wok => w.c.handleMsg m wok) 0
      (fun b => by simp [handleMsg_nDeliver])
    exact Nat.le_trans (finish_phi _ _ _)
      (phi_le_of_effStep (w := w) hs (fun h => h) rfl rfl rfl rfl rfl (Nat.le_refl _) hr).1
  | closed hq hs => exact finish_phi _ _ _
  | pktExit rx' rd' fr p w1 fl hq hs hp hd hh hne =>
    have e : w1 = (World.runHandler { w with rx := rx', reader := rd' }
        (fun wok => w.c.handlePkt w.chanRxAlive p wok)).1 := by rw [hh]
    subst e
    have hs := runHandler_effStep { w with rx := rx', reader := rd' }
      (fun wok => w.c.handlePkt w.chanRxAlive p wok) (2 * subIdCount p)
      (fun b => by have := handlePkt_nDeliver w.c w.chanRxAlive p b; omega)
    have hm := pollNext_mu hp
    have hl := decodeRx_subIdCount fr p hd
    simp only [Out.len] at hm
    exact Nat.le_trans (finish_phi _ _ _)
      (phi_le_of_effStep (w := w) hs (fun h => h) rfl rfl rfl rfl rfl (by show mu rx' rd' + _ ≤ _; omega) hr).1
  | codec rx' rd' fr hq hs hp hd =>
    have hm := pollNext_mu hp
    exact phi_dead_le rfl (by show mu rx' rd' ≤ _; omega) (Nat.le_refl _)
  | panic rx' rd' fr hq hs hp hd =>
    have hm := pollNext_mu hp
    exact phi_dead_le rfl (by show mu rx' rd' ≤ _; omega) (Nat.le_refl _)
  | sock rx' rd' hq hs hp =>
    have hm := pollNext_mu hp
    exact phi_dead_le rfl (by show mu rx' rd' ≤ _; omega) (Nat.le_refl _)
  | pending rx' rd' hq hs hp =>
    have hm := pollNext_mu hp
    simp only [Out.len] at hm
    by_cases hrd : rd' = []
    · rw [if_pos hrd]
      exact phi_le_of (a := 0) (fun h => h) (fun _ h => h) (fun h => h) (by show mu rx' rd' + 0 ≤ _; omega)
        (Nat.le_refl _)
    · rw [if_neg hrd]
      have hm1 := pollNext_mu_pending hp hrd
      have h1 := ctxFlag_le_one (({ w with rx := rx', reader := rd', queueReg := true } : World).wake .ctx)
      have h2 : ctxZ (({ w with rx := rx', reader := rd', queueReg := true } : World).wake .ctx) ≤ ctxZ w :=
        ctxZ_le (by simp) (by simp [senders])
      have h3 : phiU (({ w with rx := rx', reader := rd', queueReg := true } : World).wake .ctx) ≤ phiU w := by
        have a : opsPot (({ w with rx := rx', reader := rd', queueReg := true } : World).wake .ctx) ≤ opsPot w :=
          opsPot_le_of_woken (by simp) (by simp) (by simp) (fun id h => by
            rcases (mem_wake_iff _ _ _).mp h with h | h
            · cases h
            · exact h)
        have b : stPot (({ w with rx := rx', reader := rd', queueReg := true } : World).wake .ctx) = stPot w :=
          stPot_congr (by simp) (by simp) (fun n => by rw [mem_wake_iff]; simp) (by simp)
        unfold phiU; omega
      have h4 : mu (({ w with rx := rx', reader := rd', queueReg := true } : World).wake .ctx).rx
          (({ w with rx := rx', reader := rd', queueReg := true } : World).wake .ctx).reader = mu rx' rd' := by
        simp
      unfold phi
      rw [h4]
      omega

theorem runLoop_phi (f : Nat) (w : World) (hr : RegE w) : phi (runLoop f w) ≤ phi w := by
  obtain ⟨wm, hs, he⟩ := runLoop_decomp f w
  obtain ⟨h1, r1⟩ := serve_phi hs hr
  rcases he with he | he
  · rw [he]; exact h1
  · exact Nat.le_trans (runEnd_phi he r1) h1

/-! ## the preludes, `connect()` / `authorize()`, the whole task -/

theorem phi_le_of_fields {w w' : World} (h1 : w'.task ≠ .none → w.task ≠ .none) (h2 : w'.rx = w.rx)
    (h3 : w'.reader = w.reader) (h4 : w'.handles = w.handles) (h5 : w'.ops = w.ops) (h6 : w'.held = w.held)
    (h7 : w'.streams = w.streams) (h8 : w'.woken = w.woken) (h10 : w'.slots = w.slots) (h11 : w'.chans = w.chans) :
    phi w' ≤ phi w := by
  have a := opsPot_congr h5 h6 h8 h10
  have b := stPot_congr h7 h6 (fun n => by rw [h8]) h11
  refine phi_le_of (a := 0) h1 (fun _ h => h8 ▸ h) ?_ (by rw [h2, h3]; omega) (by unfold phiU; omega)
  show w'.handles.length + w'.ops.length ≠ 0 → _
  rw [h4, h5]; exact id

theorem foldl_writeBytes_effStep (pkts : List Bytes) (w : World) :
    EffStep 0 w (pkts.foldl (fun w p => w.writeBytes p) w) := by
  induction pkts generalizing w with
  | nil => exact EffStep.refl w
  | cons p t ih => exact ((writeBytes_effStep w p).trans (ih _)).mono (by omega)

theorem resume_nDeliver (c : Ctx) : nDeliver c.resume.2.1 = 0 := by
  unfold Ctx.resume
  split
  · rfl
  · simp only
    split
    · simp only [Ctx.resetSession, nDeliver, deliversOf, List.filterMap_append, List.filterMap_map,
        List.length_append]
      have h1 : ∀ l : List (Nat × Nat), (l.filterMap ((fun e => match e with
          | Eff.deliver c p => some (c, p) | _ => none) ∘ fun x => Eff.dropSlot x.2)).length = 0 := by
        intro l; induction l <;> simp_all
      have h2 : ∀ l : List (Nat × Nat), (l.filterMap ((fun e => match e with
          | Eff.deliver c p => some (c, p) | _ => none) ∘ fun x => Eff.dropChan x.2)).length = 0 := by
        intro l; induction l <;> simp_all
      simp [h1, h2]
    · rfl

theorem pollRun_phi (w : World) (started : Bool) (hl : w.task ≠ .none) (hr : RegE w) :
    phi (w.pollRun started) ≤ phi w := by
  cases started with
  | true => simp only [pollRun, ↓reduceIte]; exact runLoop_phi _ w hr
  | false =>
    simp only [pollRun, Bool.false_eq_true, ↓reduceIte]
    have hA := applyEffs_effStep ({ w with c := w.c.resume.1, task := .running true } : World) w.c.resume.2.1
    rw [resume_nDeliver] at hA
    obtain ⟨pA, rA⟩ := phi_le_of_effStep (w := w) hA (fun _ => hl) rfl rfl rfl rfl rfl (Nat.le_refl _) hr
    generalize (({ w with c := w.c.resume.1, task := .running true } : World).applyEffs w.c.resume.2.1) = wA
      at pA rA
    split
    · have hB := foldl_writeBytes_effStep w.c.resume.2.2 wA
      obtain ⟨pB, rB⟩ := phi_le_of_effStep (w := wA) hB (fun h => h) rfl rfl rfl rfl rfl (Nat.le_refl _) rA
      exact Nat.le_trans (runLoop_phi _ _ rB) (Nat.le_trans pB pA)
    · exact Nat.le_trans (finish_phi _ _ _) (Nat.le_trans
        (phi_le_of_effStep (w := wA) (writeBytes_effStep wA _) (fun h => h) rfl rfl rfl rfl rfl (Nat.le_refl _) rA).1
        pA)

theorem awaitFirst_phi (w : World) (call : Call) (t : ConnectTx) (a : AuthTx) (hl : w.task ≠ .none) :
    phi (w.awaitFirst call t a) ≤ phi w := by
  have key := awaitFirst_spec w call t a
  generalize w.awaitFirst call t a = r at key ⊢
  cases key with
  | connack rx' rd' fr k hp =>
    have hm := pollNext_mu hp
    exact phi_dead_le rfl (by show mu rx' rd' ≤ _; omega) (Nat.le_refl _)
  | refused rx' rd' fr k hp =>
    have hm := pollNext_mu hp
    exact phi_dead_le rfl (by show mu rx' rd' ≤ _; omega) (Nat.le_refl _)
  | assertSubId rx' rd' fr k hp =>
    have hm := pollNext_mu hp
    exact phi_dead_le rfl (by show mu rx' rd' ≤ _; omega) (Nat.le_refl _)
  | auth rx' rd' fr au hp =>
    have hm := pollNext_mu hp
    exact phi_dead_le rfl (by show mu rx' rd' ≤ _; omega) (Nat.le_refl _)
  | unexpected rx' rd' fr p hp =>
    have hm := pollNext_mu hp
    exact phi_dead_le rfl (by show mu rx' rd' ≤ _; omega) (Nat.le_refl _)
  | codec rx' rd' fr hp =>
    have hm := pollNext_mu hp
    exact phi_dead_le rfl (by show mu rx' rd' ≤ _; omega) (Nat.le_refl _)
  | panic rx' rd' fr hp =>
    have hm := pollNext_mu hp
    exact phi_dead_le rfl (by show mu rx' rd' ≤ _; omega) (Nat.le_refl _)
  | sock rx' rd' hp =>
    have hm := pollNext_mu hp
    exact phi_dead_le rfl (by show mu rx' rd' ≤ _; omega) (Nat.le_refl _)
  | pending rx' rd' hp =>
    have hm := pollNext_mu hp
    simp only [Out.len] at hm
    by_cases hrd : rd' = []
    · rw [if_pos hrd]
      exact phi_le_of (a := 0) (fun _ => hl) (fun _ h => h) (fun h => h) (by show mu rx' rd' + 0 ≤ _; omega)
        (Nat.le_refl _)
    · rw [if_neg hrd]
      have hm1 := pollNext_mu_pending hp hrd
      have h1 := ctxFlag_le_one (({ w with rx := rx', reader := rd', task := .connecting call t a true } : World).wake .ctx)
      have h2 : ctxZ (({ w with rx := rx', reader := rd', task := .connecting call t a true } : World).wake .ctx) ≤
          ctxZ w := ctxZ_le (fun _ => hl) (by simp [senders])
      have h3 : phiU (({ w with rx := rx', reader := rd', task := .connecting call t a true } : World).wake .ctx) ≤
          phiU w := by
        have ha1 : opsPot (({ w with rx := rx', reader := rd', task := .connecting call t a true } : World).wake .ctx) ≤
            opsPot w :=
          opsPot_le_of_woken (by simp) (by simp) (by simp) (fun id h => by
            rcases (mem_wake_iff _ _ _).mp h with h | h
            · cases h
            · exact h)
        have hb1 : stPot (({ w with rx := rx', reader := rd', task := .connecting call t a true } : World).wake .ctx) =
            stPot w :=
          stPot_congr (by simp) (by simp) (fun n => by rw [mem_wake_iff]; simp) (by simp)
        unfold phiU; omega
      have h4 : mu (({ w with rx := rx', reader := rd', task := .connecting call t a true } : World).wake .ctx).rx
          (({ w with rx := rx', reader := rd', task := .connecting call t a true } : World).wake .ctx).reader =
            mu rx' rd' := by simp
      unfold phi
      rw [h4]
      omega

theorem pollConnect_phi (w : World) (call : Call) (t : ConnectTx) (a : AuthTx) (started : Bool)
    (hl : w.task ≠ .none) : phi (w.pollConnect call t a started) ≤ phi w := by
  cases started with
  | true => simp only [pollConnect, ↓reduceIte]; exact awaitFirst_phi w call t a hl
  | false =>
    have key : ∀ (w1 : World) (pkt : Bytes), w1.task = w.task → w1.rx = w.rx → w1.reader = w.reader →
        w1.handles = w.handles → w1.ops = w.ops → w1.held = w.held → w1.streams = w.streams →
        w1.woken = w.woken → w1.slots = w.slots → w1.chans = w.chans →
        phi (if w1.canWrite pkt.length = true then (w1.writeBytes pkt).awaitFirst call t a
          else (w1.writeBytes pkt).finish call (.err .socketClosed)) ≤ phi w := by
      intro w1 pkt e1 e2 e3 e4 e5 e6 e7 e8 e9 e10
      have hw : phi (w1.writeBytes pkt) ≤ phi w :=
        phi_le_of_fields (by simp [e1]) (by simp [e2]) (by simp [e3]) (by simp [e4]) (by simp [e5])
          (by simp [e6]) (by simp [e7]) (by simp [e8]) (by simp [e9]) (by simp [e10])
      split
      · exact Nat.le_trans (awaitFirst_phi _ call t a (by simp [e1]; exact hl)) hw
      · exact Nat.le_trans (finish_phi _ _ _) hw
    cases call with
    | connect =>
      simp only [pollConnect, Bool.false_eq_true, ↓reduceIte]
      split
      · exact finish_phi _ _ _
      · exact key ({ w with c := { w.c with sei := t.sessionExpiry.getD 0 } } : World) t.encode
          rfl rfl rfl rfl rfl rfl rfl rfl rfl rfl
    | authorize =>
      simp only [pollConnect, Bool.false_eq_true, ↓reduceIte]
      split
      · exact finish_phi _ _ _
      · exact key w a.encode rfl rfl rfl rfl rfl rfl rfl rfl rfl rfl
    | run =>
      simp only [pollConnect, Bool.false_eq_true, ↓reduceIte]
      split
      · exact finish_phi _ _ _
      · exact key w a.encode rfl rfl rfl rfl rfl rfl rfl rfl rfl rfl

/-- **no poll of the context task increases the potential** -/
theorem pollCtx_phi (w : World) (hr : RegE w) : phi w.pollCtx ≤ phi w := by
  unfold pollCtx
  cases ht : w.task with
  | none => exact Nat.le_refl _
  | connecting call t a started => exact pollConnect_phi w call t a started (by rw [ht]; simp)
  | running started => exact pollRun_phi w started (by rw [ht]; simp) hr

end W5
end World
end Poster
