/-
  Lemmas/WorldQuietInv.lean — the registration invariant `Inv`: every live task that is not flagged woken is
  parked with all its wake sources registered (`TaskOk`), plus the bookkeeping that makes this inductive
  (oneshot ownership, distinct operation ids, subscription ids not shared with a live stream).
  Part 1: definitions, the spurious poll / sweep identities, and preservation by the primitive operations.
-/
import PosterModel.Lemmas.WorldReach
import PosterModel.Lemmas.WorldSweep
import PosterModel.Lemmas.UserWorld

set_option linter.unusedVariables false
set_option linter.unusedSimpArgs false

namespace Poster
open Framing
namespace World

/-! ## definitions -/

/-- the context future is parked: nothing to read and the transport waker registered, the framing machine
    idle; for `run()` additionally nothing queued, the queue waker registered and a sender alive -/
def CtxParked (w : World) : Prop :=
  w.reader = [] ∧ w.readerReg = true ∧ w.rx.st = .idle ∧
  ((w.task = .running true ∧ w.queue = [] ∧ w.queueReg = true ∧ w.senders ≠ 0) ∨
   (∃ call t a, w.task = .connecting call t a true))

/-- task `t` (if it is alive) is pending on events that have not happened, with every wake source registered -/
def TaskOk (w : World) : Task → Prop
  | .ctx => w.task ≠ .none → CtxParked w
  | .op id => ∀ st, w.opSt id = some st → ∃ s k, st = .wait s k ∧ w.slot s = some .empty ∧ s ∈ w.slotReg
  | .st id => id ∈ w.streams → ∀ ch, w.chan id = some ch → ch.buf = [] ∧ ch.txAlive = true ∧ ch.reg = true

/-- the registration invariant; `E` exempts tasks (the one being polled right now) -/
structure Inv (E : Task → Prop) (w : World) : Prop where
  hasCtx : w.task ≠ .none → w.hasCtx = true
  ok : ∀ t, t ∉ w.woken → ¬ E t → TaskOk w t
  own : ∀ id s k, w.opSt id = some (.wait s k) → s = 2 * id ∨ (s = 2 * id + 1 ∧ k = .pubcomp)
  slotEx : ∀ id s k, w.opSt id = some (.wait s k) → ¬ E (.op id) → w.slot s ≠ none
  nodup : (w.ops.map (·.1)).Nodup
  subp : ∀ id, ((∃ h t, w.opSt id = some (.fresh h (.subscribe t))) ∨ (∃ s, w.opSt id = some (.wait s .suback))) →
    id ∉ w.streams ∧ id ∉ w.rsps
  disj : ∀ id, id ∈ w.rsps → id ∉ w.streams

/-- nobody exempt -/
def NoE : Task → Prop := fun _ => False

/-! ## a spurious poll / a sweep is the identity -/

theorem parked_pollCtx (w : World) (hl : w.task ≠ .none) (hp : CtxParked w) : w.pollCtx = w := by
  obtain ⟨h1, h2, h3, h4⟩ := hp
  have hp := pollNext_idle_nil w.rx h3
  rcases h4 with ⟨a1, a2, a3, a4⟩ | ⟨call, t, a, a1⟩
  · have hf : w.loopFuel = (w.loopFuel - 1) + 1 := by simp only [loopFuel]; omega
    have e : w.pollCtx = { w with readerReg := true, queueReg := true } := by
      simp only [pollCtx, a1, pollRun, ↓reduceIte]
      rw [hf, runLoop_succ]
      simp only [runIter, a2, a4, h1, hp, ↓reduceIte]
      simp [a1]
    rw [e]
    cases w; simp_all
  · have e : w.pollCtx = { w with readerReg := true } := by
      simp only [pollCtx, a1, pollConnect, ↓reduceIte, awaitFirst, h1, hp]
    rw [e]
    cases w; simp_all

/-- **a poll of a live task that is not flagged and satisfies `TaskOk` changes nothing at all** -/
theorem pollTask_eq_self (w : World) (t : Task) (hl : w.taskLive t = true) (hw : t ∉ w.woken)
    (hok : TaskOk w t) : w.pollTask t = w := by
  unfold pollTask
  simp only [unwake_of_not_mem w t hw]
  cases t with
  | ctx =>
    simp only
    have hne : w.task ≠ .none := by simpa [taskLive] using hl
    exact parked_pollCtx w hne (hok hne)
  | op n =>
    simp only
    simp only [taskLive, Option.isSome_iff_exists] at hl
    obtain ⟨st, hst⟩ := hl
    obtain ⟨s, k, rfl, hs, hr⟩ := hok st hst
    simp only [pollOp, hst, hs, hr, ↓reduceIte]
  | st n =>
    simp only
    have hn : n ∈ w.streams := by simpa [taskLive] using hl
    cases hc : w.chan n with
    | none => simp [pollStream, hn, hc]
    | some ch =>
      obtain ⟨h1, h2, h3⟩ := hok hn ch hc
      have e : w.pollStream n = { w with chans := setAssoc n { ch with reg := true } w.chans } := by
        simp [pollStream, hn, hc, h1, h2, setChan]
      rw [e]
      have : ({ ch with reg := true } : Chan) = ch := by cases ch; simp_all
      rw [this, setAssoc_lookup_self _ _ _ hc]

/-- **a sweep over a world satisfying the invariant changes nothing at all** -/
theorem sweep_eq_self (w : World) (h : Inv NoE w) : w.sweep = w := by
  unfold sweep
  simp only
  generalize ([Task.ctx] ++ List.map Task.op (sortNat (List.map (fun x => x.1) w.ops)) ++
    List.map Task.st (sortNat w.streams)) = tasks
  induction tasks with
  | nil => rfl
  | cons t rest ih =>
    simp only [List.foldl_cons]
    split
    · rename_i hc
      rw [pollTask_eq_self w t hc.1 hc.2.1 (h.ok t hc.2.1 (fun x => x))]
      exact ih
    · exact ih

/-! ## changing the exemption -/

theorem Inv.mono {E E' : Task → Prop} {w : World} (h : Inv E w) (hE : ∀ t, E t → E' t) : Inv E' w :=
  ⟨h.hasCtx, fun t ht hn => h.ok t ht (fun he => hn (hE t he)), h.own,
    fun id s k hop hn => h.slotEx id s k hop (fun he => hn (hE _ he)), h.nodup, h.subp, h.disj⟩

/-- the exemption can be lifted for tasks that are flagged or satisfy `TaskOk` -/
theorem Inv.close {E : Task → Prop} {w : World} (h : Inv E w)
    (hc : ∀ t, E t → t ∈ w.woken ∨ TaskOk w t)
    (hs : ∀ id s k, E (.op id) → w.opSt id = some (.wait s k) → w.slot s ≠ none) : Inv NoE w := by
  refine ⟨h.hasCtx, fun t ht _ => ?_, h.own, fun id s k hop _ => ?_, h.nodup, h.subp, h.disj⟩
  · by_cases he : E t
    · rcases hc t he with h1 | h1
      · exact absurd h1 ht
      · exact h1
    · exact h.ok t ht he
  · by_cases he : E (.op id)
    · exact hs id s k he hop
    · exact h.slotEx id s k hop he

/-! ## `TaskOk` depends on few fields -/

theorem TaskOk.ctx_congr {w w' : World} (h : TaskOk w .ctx) (h1 : w'.task = w.task) (h2 : w'.reader = w.reader)
    (h3 : w'.readerReg = w.readerReg) (h4 : w'.rx = w.rx) (h5 : w'.queue = w.queue)
    (h6 : w'.queueReg = w.queueReg) (h7 : w.senders ≠ 0 → w'.senders ≠ 0) : TaskOk w' .ctx := by
  intro hne
  obtain ⟨a1, a2, a3, a4⟩ := h (h1 ▸ hne)
  refine ⟨by rw [h2]; exact a1, by rw [h3]; exact a2, by rw [h4]; exact a3, ?_⟩
  rcases a4 with ⟨b1, b2, b3, b4⟩ | ⟨call, t, a, b1⟩
  · exact Or.inl ⟨by rw [h1]; exact b1, by rw [h5]; exact b2, by rw [h6]; exact b3, h7 b4⟩
  · exact Or.inr ⟨call, t, a, by rw [h1]; exact b1⟩

theorem TaskOk.op_congr {w w' : World} {id : Nat} (h : TaskOk w (.op id)) (h1 : w'.ops = w.ops)
    (h2 : w'.slots = w.slots) (h3 : w'.slotReg = w.slotReg) : TaskOk w' (.op id) := by
  intro st hst
  have := h st (by simpa [opSt, h1] using hst)
  simpa [slot, h2, h3] using this

theorem TaskOk.st_congr {w w' : World} {id : Nat} (h : TaskOk w (.st id)) (h1 : w'.streams = w.streams)
    (h2 : w'.chans = w.chans) : TaskOk w' (.st id) := by
  intro hs ch hch
  exact h (h1 ▸ hs) ch (by simpa [chan, h2] using hch)

/-- changes outside the fields the invariant reads; the context may have finished (`task = none`), or be
    exempt, or keep its parking fields -/
theorem Inv.frame {E : Task → Prop} {w w' : World} (h : Inv E w)
    (hwoken : ∀ t, t ∈ w.woken → t ∈ w'.woken)
    (hops : w'.ops = w.ops) (hslots : w'.slots = w.slots) (hsr : w'.slotReg = w.slotReg)
    (hst : w'.streams = w.streams) (hch : w'.chans = w.chans) (hrsps : w'.rsps = w.rsps)
    (hhc : w'.task ≠ .none → w'.hasCtx = true)
    (hctx : w'.task = .none ∨ E .ctx ∨
      (w'.task = w.task ∧ w'.reader = w.reader ∧ w'.readerReg = w.readerReg ∧ w'.rx = w.rx ∧
        w'.queue = w.queue ∧ w'.queueReg = w.queueReg ∧ w'.handles = w.handles)) : Inv E w' := by
  refine ⟨hhc, fun t ht hE => ?_, ?_, ?_, by rw [hops]; exact h.nodup, ?_, ?_⟩
  · have h0 := h.ok t (fun hm => ht (hwoken t hm)) hE
    cases t with
    | ctx =>
      rcases hctx with h1 | h1 | ⟨a1, a2, a3, a4, a5, a6, a7⟩
      · intro hne; exact absurd h1 hne
      · exact absurd h1 hE
      · exact h0.ctx_congr a1 a2 a3 a4 a5 a6 (by simp [senders, a7, hops])
    | op id => exact h0.op_congr hops hslots hsr
    | st id => exact h0.st_congr hst hch
  · intro id s k hop
    exact h.own id s k (by simpa [opSt, hops] using hop)
  · intro id s k hop hE
    have := h.slotEx id s k (by simpa [opSt, hops] using hop) hE
    simpa [slot, hslots] using this
  · intro id hid
    have := h.subp id (by simpa [opSt, hops] using hid)
    simpa [hst, hrsps] using this
  · intro id hid
    have := h.disj id (by simpa [hrsps] using hid)
    simpa [hst] using this

/-! ## oneshots completed or abandoned by the context -/

theorem sendSlot_eqQ (w : World) (s : Nat) (v : SlotVal) :
    w.sendSlot s v =
      if w.slot s = some .empty then
        { w with slots := setAssoc s (.full v) w.slots,
                 slotReg := if s ∈ w.slotReg then w.slotReg.filter (· ≠ s) else w.slotReg,
                 woken := if s ∈ w.slotReg then (w.wake (.op (s / 2))).woken else w.woken }
      else w := by
  by_cases he : w.slot s = some .empty
  · by_cases hr : s ∈ w.slotReg <;> simp [sendSlot, he, hr, setSlot, wake_eq]
  · have : sendSlot w s v = w := by
      unfold sendSlot
      split
      · rename_i h; exact absurd h he
      · rfl
    simp [this, he]

theorem Inv.fillSlot {E : Task → Prop} {w : World} (h : Inv E w) (s : Nat) (v : Slot) :
    Inv E { w with slots := setAssoc s v w.slots,
                   slotReg := if s ∈ w.slotReg then w.slotReg.filter (· ≠ s) else w.slotReg,
                   woken := if s ∈ w.slotReg then (w.wake (.op (s / 2))).woken else w.woken } := by
  have hsub : ∀ t, t ∈ w.woken → t ∈ (if s ∈ w.slotReg then (w.wake (.op (s / 2))).woken else w.woken) := by
    intro t ht; split
    · exact mem_wake_of_mem _ _ _ ht
    · exact ht
  refine ⟨h.hasCtx, fun t ht hE => ?_, h.own, ?_, h.nodup, h.subp, h.disj⟩
  · have h0 := h.ok t (fun hm => ht (hsub t hm)) hE
    cases t with
    | ctx => exact h0.ctx_congr rfl rfl rfl rfl rfl rfl (by simp [senders])
    | st id => exact h0.st_congr rfl rfl
    | op id =>
      intro st hst
      obtain ⟨s', k, rfl, hs', hr'⟩ := h0 st hst
      have hown := h.own id s' k hst
      by_cases hss : s' = s
      · subst hss
        exfalso; apply ht
        have : s' / 2 = id := by omega
        show Task.op id ∈ (if s' ∈ w.slotReg then (w.wake (.op (s' / 2))).woken else w.woken)
        rw [if_pos hr', this]; exact mem_wake_self _ _
      · refine ⟨s', k, rfl, ?_, ?_⟩
        · show lookupFirst s' (setAssoc s v w.slots) = _
          rw [lookupFirst_setAssoc_ne _ _ _ _ hss]; exact hs'
        · show s' ∈ (if s ∈ w.slotReg then w.slotReg.filter (· ≠ s) else w.slotReg)
          split
          · simp [hr', hss]
          · exact hr'
  · intro id s' k hop hE
    have := h.slotEx id s' k hop hE
    show lookupFirst s' (setAssoc s v w.slots) ≠ none
    by_cases hss : s' = s
    · subst hss; rw [lookupFirst_setAssoc_self]; simp
    · rw [lookupFirst_setAssoc_ne _ _ _ _ hss]; exact this

theorem Inv.sendSlot {E : Task → Prop} {w : World} (h : Inv E w) (s : Nat) (v : SlotVal) :
    Inv E (w.sendSlot s v) := by
  rw [sendSlot_eqQ]; split
  · exact h.fillSlot s _
  · exact h

theorem Inv.dropSlotTx {E : Task → Prop} {w : World} (h : Inv E w) (s : Nat) : Inv E (w.dropSlotTx s) := by
  rw [dropSlotTx_eq]; split
  · exact h.fillSlot s _
  · exact h

/-! ## subscription channels fed or abandoned by the context -/

theorem deliver_eqQ (w : World) (c : Nat) (p : PublishRx) :
    w.deliver c p =
      match w.chan c with
      | some ch => { w with chans := setAssoc c { ch with buf := ch.buf ++ [p], reg := false } w.chans,
                            woken := if ch.reg then (w.wake (.st c)).woken else w.woken }
      | none => w := by
  cases h : w.chan c with
  | none => simp [deliver, h]
  | some ch => by_cases hr : ch.reg = true <;> simp [deliver, h, hr, setChan, wake_eq]

theorem Inv.updChan {E : Task → Prop} {w : World} (h : Inv E w) (c : Nat) (ch ch' : Chan)
    (hc : w.chan c = some ch) :
    Inv E { w with chans := setAssoc c ch' w.chans,
                   woken := if ch.reg then (w.wake (.st c)).woken else w.woken } := by
  have hsub : ∀ t, t ∈ w.woken → t ∈ (if ch.reg then (w.wake (.st c)).woken else w.woken) := by
    intro t ht; split
    · exact mem_wake_of_mem _ _ _ ht
    · exact ht
  refine ⟨h.hasCtx, fun t ht hE => ?_, h.own, h.slotEx, h.nodup, h.subp, h.disj⟩
  have h0 := h.ok t (fun hm => ht (hsub t hm)) hE
  cases t with
  | ctx => exact h0.ctx_congr rfl rfl rfl rfl rfl rfl (by simp [senders])
  | op id => exact h0.op_congr rfl rfl rfl
  | st id =>
    intro hs ch2 hch2
    by_cases hid : id = c
    · subst hid
      obtain ⟨_, _, hreg⟩ := h0 hs ch hc
      exfalso; apply ht
      show Task.st id ∈ (if ch.reg then (w.wake (.st id)).woken else w.woken)
      rw [if_pos hreg]; exact mem_wake_self _ _
    · have : w.chan id = some ch2 := by
        have e : lookupFirst id (setAssoc c ch' w.chans) = some ch2 := hch2
        rwa [lookupFirst_setAssoc_ne _ _ _ _ hid] at e
      exact h0 hs ch2 this

theorem Inv.deliver {E : Task → Prop} {w : World} (h : Inv E w) (c : Nat) (p : PublishRx) :
    Inv E (w.deliver c p) := by
  rw [deliver_eqQ]; split
  · rename_i ch hc; exact h.updChan c ch _ hc
  · exact h

theorem Inv.dropChanTx {E : Task → Prop} {w : World} (h : Inv E w) (c : Nat) : Inv E (w.dropChanTx c) := by
  rw [dropChanTx_eq]; split
  · rename_i ch hc; exact h.updChan c ch _ hc
  · exact h

/-! ## transport writes, handler effects -/

theorem Inv.writeBytes {E : Task → Prop} {w : World} (h : Inv E w) (bs : Bytes) : Inv E (w.writeBytes bs) :=
  h.frame (by simp) (by simp) (by simp) (by simp) (by simp) (by simp) (by simp) (by simpa using h.hasCtx)
    (Or.inr (Or.inr ⟨by simp, by simp, by simp, by simp, by simp, by simp, by simp⟩))

theorem Inv.applyEff {E : Task → Prop} {w : World} (h : Inv E w) (e : Eff) : Inv E (w.applyEff e) := by
  cases e with
  | write bs => exact h.writeBytes bs
  | send s v => exact h.sendSlot s v
  | dropSlot s => exact h.dropSlotTx s
  | deliver c p => exact h.deliver c p
  | dropChan c => exact h.dropChanTx c

theorem Inv.applyEffs {E : Task → Prop} {w : World} (h : Inv E w) (es : List Eff) : Inv E (w.applyEffs es) := by
  unfold World.applyEffs
  induction es generalizing w with
  | nil => exact h
  | cons e t ih => exact ih (h.applyEff e)

/-- replacing the session state is invisible to the invariant -/
theorem Inv.setC {E : Task → Prop} {w : World} (h : Inv E w) (c : Ctx) : Inv E { w with c := c } :=
  h.frame (fun _ x => x) rfl rfl rfl rfl rfl rfl h.hasCtx (Or.inr (Or.inr ⟨rfl, rfl, rfl, rfl, rfl, rfl, rfl⟩))

theorem Inv.runHandler {E : Task → Prop} {w : World} (h : Inv E w) (hd : Bool → Ctx × List Eff × Flow) :
    Inv E (w.runHandler hd).1 := by
  rw [runHandler_eq]
  exact (h.setC _).applyEffs _

theorem Inv.emit {E : Task → Prop} {w : World} (h : Inv E w) (o : Obs) : Inv E (w.emit o) :=
  h.frame (fun _ x => x) rfl rfl rfl rfl rfl rfl h.hasCtx (Or.inr (Or.inr ⟨rfl, rfl, rfl, rfl, rfl, rfl, rfl⟩))

/-- the context future returns (or panics): its task disappears -/
theorem Inv.taskNone {E : Task → Prop} {w w' : World} (h : Inv E w)
    (hwoken : ∀ t, t ∈ w.woken → t ∈ w'.woken)
    (hops : w'.ops = w.ops) (hslots : w'.slots = w.slots) (hsr : w'.slotReg = w.slotReg)
    (hst : w'.streams = w.streams) (hch : w'.chans = w.chans) (hrsps : w'.rsps = w.rsps)
    (ht : w'.task = .none) : Inv E w' :=
  h.frame hwoken hops hslots hsr hst hch hrsps (fun hne => absurd ht hne) (Or.inl ht)

theorem Inv.finish {E : Task → Prop} {w : World} (h : Inv E w) (call : Call) (r : RetRes) :
    Inv E (w.finish call r) :=
  h.taskNone (fun _ x => x) rfl rfl rfl rfl rfl rfl rfl

/-! ## wakers -/

theorem Inv.wake {E : Task → Prop} {w : World} (h : Inv E w) (t : Task) : Inv E (w.wake t) :=
  h.frame (fun u hu => mem_wake_of_mem _ _ _ hu) (by simp) (by simp) (by simp) (by simp) (by simp) (by simp)
    (by simpa using h.hasCtx) (Or.inr (Or.inr ⟨by simp, by simp, by simp, by simp, by simp, by simp, by simp⟩))

/-- the executor takes the flag of the task it is about to poll: that task becomes exempt -/
theorem Inv.unwake {E : Task → Prop} {w : World} (h : Inv E w) (t : Task) :
    Inv (fun u => E u ∨ u = t) (w.unwake t) := by
  refine ⟨h.hasCtx, fun u hu hE => ?_, h.own, fun id s k hop hn => h.slotEx id s k hop (fun he => hn (Or.inl he)),
    h.nodup, h.subp, h.disj⟩
  have hne : u ≠ t := fun e => hE (Or.inr e)
  have hu' : u ∉ w.woken := by
    intro hm; apply hu
    show u ∈ w.woken.filter (· ≠ t)
    simp [List.mem_filter, hm, hne]
  have h0 := h.ok u hu' (fun he => hE (Or.inl he))
  cases u with
  | ctx => exact h0.ctx_congr rfl rfl rfl rfl rfl rfl (by simp [senders, World.unwake])
  | op id => exact h0.op_congr rfl rfl rfl
  | st id => exact h0.st_congr rfl rfl

/-! ## the message queue -/

theorem Inv.sendMsg {E : Task → Prop} {w w' : World} (h : Inv E w) (m : Msg) (hm : w.sendMsg m = some w') :
    Inv E w' := by
  rw [sendMsg_eq] at hm
  split at hm
  · simp only [Option.some.injEq] at hm; subst hm
    have hsub : ∀ t, t ∈ w.woken → t ∈ (if w.queueReg then (w.wake .ctx).woken else w.woken) := by
      intro t ht; split
      · exact mem_wake_of_mem _ _ _ ht
      · exact ht
    refine ⟨h.hasCtx, fun t ht hE => ?_, h.own, h.slotEx, h.nodup, h.subp, h.disj⟩
    have h0 := h.ok t (fun hm => ht (hsub t hm)) hE
    cases t with
    | op id => exact h0.op_congr rfl rfl rfl
    | st id => exact h0.st_congr rfl rfl
    | ctx =>
      intro hne
      obtain ⟨a1, a2, a3, a4⟩ := h0 hne
      refine ⟨a1, a2, a3, ?_⟩
      rcases a4 with ⟨b1, b2, b3, b4⟩ | b
      · exfalso; apply ht
        show Task.ctx ∈ (if w.queueReg then (w.wake .ctx).woken else w.woken)
        rw [if_pos b3]; exact mem_wake_self _ _
      · exact Or.inr b
  · cases hm

/-! ## association lists -/

theorem map_fst_setAssoc_of_lookup {β} (k : Nat) (v v0 : β) (l : List (Nat × β)) (h : lookupFirst k l = some v0) :
    (setAssoc k v l).map (·.1) = l.map (·.1) := by
  induction l with
  | nil => simp [lookupFirst] at h
  | cons x t ih =>
    obtain ⟨a, b⟩ := x
    simp only [lookupFirst] at h
    simp only [setAssoc]
    split
    · rename_i hak; simp [hak]
    · rename_i hak
      simp only [hak, ↓reduceIte] at h
      simp [ih h]

theorem length_setAssoc_of_lookup {β} (k : Nat) (v v0 : β) (l : List (Nat × β)) (h : lookupFirst k l = some v0) :
    (setAssoc k v l).length = l.length := by
  have := congrArg List.length (map_fst_setAssoc_of_lookup k v v0 l h)
  simpa using this

theorem nodup_eraseFirst {β} (k : Nat) (l : List (Nat × β)) (h : (l.map (·.1)).Nodup) :
    ((eraseFirst k l).map (·.1)).Nodup :=
  List.Nodup.sublist ((User.eraseFirst_sublist k l).map _) h

theorem length_eraseFirst_le {β} (k : Nat) (l : List (Nat × β)) : (eraseFirst k l).length ≤ l.length :=
  (User.eraseFirst_sublist k l).length_le

/-! ## handle futures: waiting, finishing -/

theorem Inv.awaitSlot {E : Task → Prop} {w : World} (h : Inv E w) (id s : Nat) (k : Wait) (st0 : OpSt)
    (hop : w.opSt id = some st0) (hs : s = 2 * id ∨ (s = 2 * id + 1 ∧ k = .pubcomp))
    (hk : k = .suback → id ∉ w.streams ∧ id ∉ w.rsps) :
    Inv E (w.awaitSlot id s k) ∧ TaskOk (w.awaitSlot id s k) (.op id) ∧ (w.awaitSlot id s k).slot s ≠ none := by
  have hself : (w.awaitSlot id s k).opSt id = some (.wait s k) := by
    simp [World.awaitSlot, opSt, lookupFirst_setAssoc_self]
  have hother : ∀ id', id' ≠ id → (w.awaitSlot id s k).opSt id' = w.opSt id' := by
    intro id' hne; simp [World.awaitSlot, opSt, lookupFirst_setAssoc_ne _ _ _ _ hne]
  have hslotS : (w.awaitSlot id s k).slot s = some .empty := by
    simp [World.awaitSlot, slot, lookupFirst_setAssoc_self]
  have hslotO : ∀ s', s' ≠ s → (w.awaitSlot id s k).slot s' = w.slot s' := by
    intro s' hne; simp [World.awaitSlot, slot, lookupFirst_setAssoc_ne _ _ _ _ hne]
  have hregS : s ∈ (w.awaitSlot id s k).slotReg := by
    simp only [World.awaitSlot]; split <;> simp [*]
  have hregO : ∀ s', s' ∈ w.slotReg → s' ∈ (w.awaitSlot id s k).slotReg := by
    intro s' hs'; simp only [World.awaitSlot]; split <;> simp [*]
  have hok : TaskOk (w.awaitSlot id s k) (.op id) := by
    intro st hst
    rw [hself] at hst; cases hst
    exact ⟨s, k, rfl, hslotS, hregS⟩
  refine ⟨⟨h.hasCtx, fun t ht hE => ?_, ?_, ?_, ?_, ?_, h.disj⟩, hok, by rw [hslotS]; simp⟩
  · cases t with
    | ctx =>
      exact (h.ok _ ht hE).ctx_congr rfl rfl rfl rfl rfl rfl
        (by simp [senders, World.awaitSlot, length_setAssoc_of_lookup id _ st0 w.ops hop])
    | st id' => exact (h.ok _ ht hE).st_congr rfl rfl
    | op id' =>
      by_cases hid : id' = id
      · subst hid; exact hok
      · intro st hst
        rw [hother id' hid] at hst
        obtain ⟨s', k', rfl, h1, h2⟩ := h.ok _ ht hE st hst
        have := h.own id' s' k' hst
        have hss : s' ≠ s := by omega
        exact ⟨s', k', rfl, by rw [hslotO s' hss]; exact h1, hregO s' h2⟩
  · intro id' s' k' hst
    by_cases hid : id' = id
    · subst hid; rw [hself] at hst; cases hst; exact hs
    · rw [hother id' hid] at hst; exact h.own id' s' k' hst
  · intro id' s' k' hst hE
    by_cases hss : s' = s
    · subst hss; rw [hslotS]; simp
    · rw [hslotO s' hss]
      by_cases hid : id' = id
      · subst hid; rw [hself] at hst; cases hst; exact absurd rfl hss
      · rw [hother id' hid] at hst; exact h.slotEx id' s' k' hst hE
  · show ((setAssoc id (OpSt.wait s k) w.ops).map (·.1)).Nodup
    rw [map_fst_setAssoc_of_lookup id _ st0 w.ops hop]; exact h.nodup
  · intro id' hsub
    show id' ∉ w.streams ∧ id' ∉ w.rsps
    by_cases hid : id' = id
    · subst hid
      rw [hself] at hsub
      rcases hsub with ⟨hh, t, e⟩ | ⟨s2, e⟩
      · cases e
      · cases e; exact hk rfl
    · rw [hother id' hid] at hsub; exact h.subp id' hsub

/-- an operation leaves the table (completed, panicked or dropped) and gives up its queue sender -/
theorem Inv.eraseOp {E : Task → Prop} {w : World} (h : Inv E w) (id : Nat) (o : List Obs) :
    Inv E (({ w with ops := eraseFirst id w.ops, out := o } : World).senderGone) := by
  have hlook : ∀ id' st, lookupFirst id' (eraseFirst id w.ops) = some st → w.opSt id' = some st := by
    intro id' st hst
    by_cases hid : id' = id
    · subst hid; rw [lookupFirst_eraseFirst_self _ _ h.nodup] at hst; cases hst
    · rwa [lookupFirst_eraseFirst_ne _ _ _ hid] at hst
  generalize hR : ({ w with ops := eraseFirst id w.ops, out := o } : World).senderGone = R
  have e := senderGone_eq ({ w with ops := eraseFirst id w.ops, out := o } : World)
  rw [hR] at e
  have hops : R.ops = eraseFirst id w.ops := by rw [e]
  have hslots : R.slots = w.slots := by rw [e]
  have hsr : R.slotReg = w.slotReg := by rw [e]
  have hst : R.streams = w.streams := by rw [e]
  have hch : R.chans = w.chans := by rw [e]
  have hrsps : R.rsps = w.rsps := by rw [e]
  have htask : R.task = w.task := by rw [e]
  have hhc : R.hasCtx = w.hasCtx := by rw [e]
  have hrd : R.reader = w.reader := by rw [e]
  have hrr : R.readerReg = w.readerReg := by rw [e]
  have hrx : R.rx = w.rx := by rw [e]
  have hq : R.queue = w.queue := by rw [e]
  have hh : R.handles = w.handles := by rw [e]
  have hwoken : ∀ t, t ∈ w.woken → t ∈ R.woken := by
    intro t ht; rw [← hR]; simp only [World.senderGone]; split
    · exact mem_wake_of_mem _ _ _ ht
    · exact ht
  have hctx : Task.ctx ∉ R.woken → R.queueReg = w.queueReg ∧ (w.queueReg = true → w.hasCtx = true → R.senders ≠ 0) := by
    intro hn
    rw [← hR] at hn ⊢
    simp only [World.senderGone] at hn ⊢
    split
    · rename_i hc; rw [if_pos hc] at hn; exact absurd (mem_wake_self _ _) hn
    · rename_i hc
      refine ⟨rfl, fun h1 h2 h3 => hc ⟨h3, h2, h1⟩⟩
  refine ⟨by rw [htask, hhc]; exact h.hasCtx, fun t ht hE => ?_, ?_, ?_, by rw [hops]; exact nodup_eraseFirst _ _ h.nodup, ?_, ?_⟩
  · have h0 := h.ok t (fun hm => ht (hwoken t hm)) hE
    cases t with
    | ctx =>
      intro hne
      rw [htask] at hne
      obtain ⟨a1, a2, a3, a4⟩ := h0 hne
      obtain ⟨c1, c2⟩ := hctx ht
      refine ⟨by rw [hrd]; exact a1, by rw [hrr]; exact a2, by rw [hrx]; exact a3, ?_⟩
      rcases a4 with ⟨b1, b2, b3, b4⟩ | ⟨call, t, a, b1⟩
      · exact Or.inl ⟨by rw [htask]; exact b1, by rw [hq]; exact b2, by rw [c1]; exact b3, c2 b3 (h.hasCtx hne)⟩
      · exact Or.inr ⟨call, t, a, by rw [htask]; exact b1⟩
    | st id' => exact h0.st_congr hst hch
    | op id' =>
      intro st hst
      have hst' : w.opSt id' = some st := hlook id' st (by simpa [opSt, hops] using hst)
      have := h0 st hst'
      simpa [slot, hslots, hsr] using this
  · intro id' s k hst
    exact h.own id' s k (hlook id' _ (by simpa [opSt, hops] using hst))
  · intro id' s k hst hE
    have := h.slotEx id' s k (hlook id' _ (by simpa [opSt, hops] using hst)) hE
    simpa [slot, hslots] using this
  · intro id' hsub
    rw [hst, hrsps]
    apply h.subp id'
    rcases hsub with ⟨hh, t, e1⟩ | ⟨s2, e1⟩
    · exact Or.inl ⟨hh, t, hlook id' _ (by simpa [opSt, hops] using e1)⟩
    · exact Or.inr ⟨s2, hlook id' _ (by simpa [opSt, hops] using e1)⟩
  · intro id' hid
    rw [hst]; exact h.disj id' (by rwa [hrsps] at hid)

theorem Inv.finishOp {E : Task → Prop} {w : World} (h : Inv E w) (id : Nat) (r : DoneRes) :
    Inv E (w.finishOp id r) := h.eraseOp id _

theorem finishOp_opSt_self {E : Task → Prop} {w : World} (h : Inv E w) (id : Nat) (r : DoneRes) :
    (w.finishOp id r).opSt id = none := by
  simp only [opSt, finishOp_ops']
  exact lookupFirst_eraseFirst_self _ _ h.nodup

/-- the receiving half of a oneshot goes away; its owner is being polled (or dropped) -/
theorem Inv.clearSlot {E : Task → Prop} {w : World} (h : Inv E w) (id s : Nat) (k : Wait)
    (hop : w.opSt id = some (.wait s k)) (hE : E (.op id)) : Inv E (w.clearSlot s) := by
  have hne : ∀ id' s' k', w.opSt id' = some (.wait s' k') → ¬ E (.op id') → s' ≠ s := by
    intro id' s' k' hst hn
    have hid : id' ≠ id := fun e => hn (e ▸ hE)
    have h1 := h.own id' s' k' hst
    have h2 := h.own id s k hop
    omega
  refine ⟨h.hasCtx, fun t ht hE' => ?_, h.own, ?_, h.nodup, h.subp, h.disj⟩
  · have h0 := h.ok t ht hE'
    cases t with
    | ctx => exact h0.ctx_congr rfl rfl rfl rfl rfl rfl (by simp [senders])
    | st id' => exact h0.st_congr rfl rfl
    | op id' =>
      intro st hst
      obtain ⟨s', k', rfl, h1, h2⟩ := h0 st hst
      have hss := hne id' s' k' hst hE'
      refine ⟨s', k', rfl, ?_, ?_⟩
      · show lookupFirst s' (eraseFirst s w.slots) = _
        rw [lookupFirst_eraseFirst_ne _ _ _ hss]; exact h1
      · show s' ∈ w.slotReg.filter (· ≠ s)
        simp [List.mem_filter, h2, hss]
  · intro id' s' k' hst hE'
    have hss := hne id' s' k' hst hE'
    show lookupFirst s' (eraseFirst s w.slots) ≠ none
    rw [lookupFirst_eraseFirst_ne _ _ _ hss]; exact h.slotEx id' s' k' hst hE'

/-! ## subscription channels created / dropped by the user side -/

theorem Inv.setChans {E : Task → Prop} {w : World} (h : Inv E w) (l : List (Nat × Chan))
    (hl : ∀ id, id ∈ w.streams → lookupFirst id l = w.chan id) : Inv E { w with chans := l } := by
  refine ⟨h.hasCtx, fun t ht hE => ?_, h.own, h.slotEx, h.nodup, h.subp, h.disj⟩
  have h0 := h.ok t ht hE
  cases t with
  | ctx => exact h0.ctx_congr rfl rfl rfl rfl rfl rfl (by simp [senders])
  | op id => exact h0.op_congr rfl rfl rfl
  | st id =>
    intro hs ch hch
    have e : lookupFirst id l = some ch := hch
    rw [hl id hs] at e
    exact h0 hs ch e

theorem Inv.setChan {E : Task → Prop} {w : World} (h : Inv E w) (id : Nat) (ch : Chan) (hid : id ∉ w.streams) :
    Inv E (w.setChan id ch) :=
  h.setChans _ (fun id' hs => lookupFirst_setAssoc_ne _ _ _ _ (fun e => hid (e ▸ hs)))

theorem Inv.dropChanRx {E : Task → Prop} {w : World} (h : Inv E w) (id : Nat) (hid : id ∉ w.streams) :
    Inv E (w.dropChanRx id) :=
  h.setChans _ (fun id' hs => lookupFirst_eraseFirst_ne _ _ _ (fun e => hid (e ▸ hs)))

/-! ## the transport delivers -/

theorem feedEvents_shape (w : World) (evs : List ReadEv) :
    ∃ rd, w.feedEvents evs =
      { w with reader := rd, readerReg := false,
               woken := if w.readerReg then (w.wake .ctx).woken else w.woken } := by
  refine ⟨(if w.cfg.fill then mergeRuns (w.reader ++ (if w.cfg.rdp then evs.flatMap fun e => [ReadEv.pending, e]
      else evs)) else w.reader ++ (if w.cfg.rdp then evs.flatMap fun e => [ReadEv.pending, e] else evs)), ?_⟩
  unfold World.feedEvents
  simp only
  by_cases hr : w.readerReg = true
  · simp [hr, wake_eq]
  · simp only [hr, Bool.false_eq_true, ↓reduceIte]

theorem Inv.feedEvents {E : Task → Prop} {w : World} (h : Inv E w) (evs : List ReadEv) :
    Inv E (w.feedEvents evs) := by
  obtain ⟨rd, e⟩ := feedEvents_shape w evs
  rw [e]
  have hsub : ∀ t, t ∈ w.woken → t ∈ (if w.readerReg then (w.wake .ctx).woken else w.woken) := by
    intro t ht; split
    · exact mem_wake_of_mem _ _ _ ht
    · exact ht
  refine ⟨h.hasCtx, fun t ht hE => ?_, h.own, h.slotEx, h.nodup, h.subp, h.disj⟩
  have h0 := h.ok t (fun hm => ht (hsub t hm)) hE
  cases t with
  | ctx =>
    intro hne
    obtain ⟨_, a2, _⟩ := h0 hne
    exfalso; apply ht
    show Task.ctx ∈ (if w.readerReg then (w.wake .ctx).woken else w.woken)
    rw [if_pos a2]; exact mem_wake_self _ _
  | op id => exact h0.op_congr rfl rfl rfl
  | st id => exact h0.st_congr rfl rfl

end World
end Poster
