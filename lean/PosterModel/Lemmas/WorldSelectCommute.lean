/-
  Lemmas/WorldSelectCommute.lean — when the order in which `select!` hands a queued message and a ready inbound
  packet to their handlers does not matter (`Ctx.handle_commute`).

  `handle_message` changes the context by a *delta* that depends on the context only through the packet-size limit
  and "is the send quota 0" (`msgDelta`, `handleMsg_eq_delta`): it takes at most one quota slot and appends at most
  one entry to `awaiting`, `retx`, `subs`. `handle_packet` commutes with such a delta (`handlePkt_app`) unless
    * the packet is addressed to the very action identifier the message registers (the answer overtakes the request:
      impossible with a real broker, which has not seen the request yet), or is a PUBLISH for the very subscription
      identifier the message registers;
    * the packet frees a quota slot (PUBACK, PUBCOMP, refusing PUBREC) while the message needs one and the quota is at
      one of its ends (0: the one real race; Receive Maximum: a duplicate acknowledgement — not a conformant broker).
-/
import PosterModel.Lemmas.WorldSelectIndep
import PosterModel.Lemmas.UserCtx

set_option linter.unusedVariables false
set_option linter.unusedSimpArgs false

namespace Poster

/-! ## association lists and a suffix with other keys -/

theorem w14_removeFirst_append {β} (k : Nat) (l a : List (Nat × β)) (h : k ∉ a.map (·.1)) :
    removeFirst k (l ++ a) = (removeFirst k l).map (fun x => (x.1, x.2 ++ a)) := by
  induction l with
  | nil =>
    simp only [List.nil_append, removeFirst, Option.map_none]
    exact removeFirst_none_of_not_mem k a h
  | cons x t ih =>
    obtain ⟨a0, b0⟩ := x
    simp only [List.cons_append, removeFirst]
    split
    · rfl
    · rw [ih]
      cases removeFirst k t <;> rfl

theorem w14_eraseFirst_append {β} (k : Nat) (l a : List (Nat × β)) (h : k ∉ a.map (·.1)) :
    eraseFirst k (l ++ a) = eraseFirst k l ++ a := by
  unfold eraseFirst
  rw [w14_removeFirst_append k l a h]
  cases removeFirst k l <;> rfl

theorem w14_lookupFirst_append {β} (k : Nat) (l a : List (Nat × β)) (h : k ∉ a.map (·.1)) :
    lookupFirst k (l ++ a) = lookupFirst k l := by
  induction l with
  | nil => simp only [List.nil_append]; rw [lookupFirst_none_of_not_mem k a h]; rfl
  | cons x t ih =>
    obtain ⟨a0, b0⟩ := x
    simp only [List.cons_append, lookupFirst]
    split
    · rfl
    · exact ih

namespace Ctx

theorem w14_dispatch_append (alive : Nat → Bool) (pb : PublishRx) (sids : List Nat) (subs a : List (Nat × Nat))
    (h : ∀ sid ∈ sids, sid ∉ a.map (·.1)) :
    dispatch alive pb sids (subs ++ a) = ((dispatch alive pb sids subs).1 ++ a, (dispatch alive pb sids subs).2) := by
  induction sids generalizing subs with
  | nil => rfl
  | cons sid rest ih =>
    have h1 := h sid List.mem_cons_self
    have h2 : ∀ s ∈ rest, s ∉ a.map (·.1) := fun s hs => h s (List.mem_cons_of_mem _ hs)
    simp only [dispatch]
    rw [w14_lookupFirst_append sid subs a h1]
    cases lookupFirst sid subs with
    | none => exact ih subs h2
    | some ch =>
      simp only
      split
      · rw [ih subs h2]
      · rw [w14_eraseFirst_append sid subs a h1, ih _ h2]

/-! ## what `handle_message` does to the context -/

/-- the change `handle_message` makes: quota slots taken, entries appended to `awaiting`, `retx`, `subs` -/
structure MsgDelta where
  dq : Nat := 0
  aw : List (Nat × Nat) := []
  rt : List (Nat × Bytes) := []
  sb : List (Nat × Nat) := []

def MsgDelta.app (d : MsgDelta) (c : Ctx) : Ctx :=
  { c with quota := c.quota - d.dq, awaiting := c.awaiting ++ d.aw, retx := c.retx ++ d.rt, subs := c.subs ++ d.sb }

/-- `handle_message`, as a function of the two facts about the context it looks at: `ok` = which packets fit under the
    packet-size limit, and `qz` = "the send quota is 0" -/
def msgDelta (ok : Bytes → Bool) (qz : Bool) (m : Msg) (wok : Bool) : MsgDelta × List Eff × Flow :=
  match m with
  | .ff pkt slot =>
    if !ok pkt then ({}, [.send slot .errSize], .cont)
    else if !wok then ({}, [.write pkt, .dropSlot slot], .exitSocket)
    else ({}, [.write pkt, .send slot .unit], if pktType pkt = 14 then .exitOk else .cont)
  | .awaitAck aid pkt slot =>
    if !ok pkt then ({}, [.send slot .errSize], .cont)
    else if pktType pkt = 3 then
      if qz then ({}, [.send slot .errQuota], .cont)
      else if !wok then ({ dq := 1 }, [.write pkt, .dropSlot slot], .exitSocket)
      else ({ dq := 1, aw := [(aid, slot)], rt := [(aid, setDup pkt)] }, [.write pkt], .cont)
    else if pktType pkt = 6 then
      if !wok then ({}, [.write pkt, .dropSlot slot], .exitSocket)
      else ({ aw := [(aid, slot)], rt := [(aid, pkt)] }, [.write pkt], .cont)
    else
      if !wok then ({}, [.write pkt, .dropSlot slot], .exitSocket)
      else ({ aw := [(aid, slot)] }, [.write pkt], .cont)
  | .subscribe aid subId pkt slot chan =>
    if !ok pkt then ({}, [.send slot .errSize, .dropChan chan], .cont)
    else ({ aw := [(aid, slot)], sb := [(subId, chan)] }, [.write pkt], if wok then .cont else .exitSocket)

theorem app_empty (c : Ctx) : ({} : MsgDelta).app c = c := by
  cases c; simp [MsgDelta.app]

theorem handleMsg_eq_delta (c : Ctx) (m : Msg) (wok : Bool) :
    c.handleMsg m wok =
      ((msgDelta c.sizeOk (decide (c.quota = 0)) m wok).1.app c, (msgDelta c.sizeOk (decide (c.quota = 0)) m wok).2) := by
  cases m with
  | ff pkt slot =>
    simp only [handleMsg, msgDelta]
    cases c.sizeOk pkt <;> cases wok <;> simp [app_empty]
  | awaitAck aid pkt slot =>
    simp only [handleMsg, msgDelta]
    cases c.sizeOk pkt
    · simp [app_empty]
    · by_cases h3 : pktType pkt = 3
      · by_cases h0 : c.quota = 0
        · simp [h3, h0, app_empty]
        · cases wok
          · simp only [h3, h0, Bool.not_true, Bool.false_eq_true, ↓reduceIte, Bool.not_false, decide_false]
            cases c; simp [MsgDelta.app]
          · simp only [h3, h0, Bool.not_true, Bool.false_eq_true, ↓reduceIte, decide_false]
            cases c; simp [MsgDelta.app]
      · by_cases h6 : pktType pkt = 6
        · cases wok
          · simp [h3, h6, app_empty]
          · simp only [h3, h6, Bool.not_true, Bool.false_eq_true, ↓reduceIte]
            cases c; simp [MsgDelta.app]
        · cases wok
          · simp [h3, h6, app_empty]
          · simp only [h3, h6, Bool.not_true, Bool.false_eq_true, ↓reduceIte]
            cases c; simp [MsgDelta.app]
  | subscribe aid subId pkt slot chan =>
    simp only [handleMsg, msgDelta]
    cases c.sizeOk pkt
    · simp [app_empty]
    · simp only [Bool.not_true, Bool.false_eq_true, ↓reduceIte]
      cases c; simp [MsgDelta.app]

/-- the subscription identifier a message registers -/
def _root_.Poster.Msg.subId? : Msg → Option Nat
  | .subscribe _ sid _ _ _ => some sid
  | _ => none

/-- the keys of a message's delta are the message's action identifier / subscription identifier; a slot is taken only
    by a QoS>0 PUBLISH -/
theorem msgDelta_keys (mp : Bytes → Bool) (qz : Bool) (m : Msg) (wok : Bool) :
    (∀ k ∈ (msgDelta mp qz m wok).1.aw.map (·.1), m.aid = some k) ∧
    (∀ k ∈ (msgDelta mp qz m wok).1.rt.map (·.1), m.aid = some k) ∧
    (∀ k ∈ (msgDelta mp qz m wok).1.sb.map (·.1), m.subId? = some k) ∧
    (msgDelta mp qz m wok).1.dq ≤ 1 ∧ ((msgDelta mp qz m wok).1.dq = 1 → m.isPub = true ∧ qz = false) := by
  cases m with
  | ff pkt slot =>
    simp only [msgDelta]
    split
    · simp
    · split <;> simp
  | awaitAck aid pkt slot =>
    simp only [msgDelta, Msg.aid, Msg.isPub]
    split
    · simp
    · by_cases h3 : pktType pkt = 3
      · simp only [h3, ↓reduceIte]
        cases qz
        · cases wok <;> simp
        · simp
      · simp only [h3, ↓reduceIte]
        by_cases h6 : pktType pkt = 6
        · simp only [h6, ↓reduceIte]; cases wok <;> simp
        · simp only [h6, ↓reduceIte]; cases wok <;> simp
  | subscribe aid subId pkt slot chan =>
    simp only [msgDelta, Msg.aid, Msg.subId?]
    split <;> simp

/-! ## `handle_packet` commutes with a delta -/

theorem app_bump (d : MsgDelta) (c : Ctx) (h : d.dq = 0 ∨ (d.dq = 1 ∧ 0 < c.quota ∧ c.quota < c.recvMax)) :
    (d.app c).bump = d.app c.bump := by
  unfold bump MsgDelta.app
  rcases h with h | ⟨h, h1, h2⟩
  · simp only [h, Nat.sub_zero]
    split <;> rfl
  · simp only [h]
    have e1 : c.quota - 1 ≠ c.recvMax := by omega
    have e2 : c.quota ≠ c.recvMax := by omega
    simp only [e1, e2, ne_eq, not_false_eq_true, ↓reduceIte]
    have : c.quota - 1 + 1 = c.quota + 1 - 1 := by omega
    simp [this]

theorem app_complete (d : MsgDelta) (c : Ctx) (aid : Nat) (p : RxPacket) (h : aid ∉ d.aw.map (·.1)) :
    (d.app c).complete aid p = (d.app (c.complete aid p).1, (c.complete aid p).2) := by
  unfold complete
  have : (d.app c).awaiting = c.awaiting ++ d.aw := rfl
  rw [this, w14_removeFirst_append aid c.awaiting d.aw h]
  cases removeFirst aid c.awaiting with
  | none => rfl
  | some x => obtain ⟨s, rest⟩ := x; rfl

theorem app_retx (d : MsgDelta) (c : Ctx) (id : Nat) (h : id ∉ d.rt.map (·.1)) :
    ({ d.app c with retx := eraseFirst id (d.app c).retx } : Ctx) = d.app { c with retx := eraseFirst id c.retx } := by
  have : (d.app c).retx = c.retx ++ d.rt := rfl
  rw [this, w14_eraseFirst_append id c.retx d.rt h]
  rfl

/-- the packet does not interfere with the delta `d` applied to `c` -/
structure Indep (d : MsgDelta) (c : Ctx) (p : RxPacket) : Prop where
  aw : ∀ id, rxActionId p = some id → id ∉ d.aw.map (·.1)
  rt : ∀ id, rxActionId p = some id → id ∉ d.rt.map (·.1)
  sb : ∀ pb, p = .publish pb → ∀ sid ∈ pb.subIds, sid ∉ d.sb.map (·.1)
  quota : d.dq = 0 ∨ p.neutral = true ∨ (d.dq = 1 ∧ 0 < c.quota ∧ c.quota < c.recvMax)

theorem handlePkt_app (d : MsgDelta) (c : Ctx) (alive : Nat → Bool) (p : RxPacket) (wok : Bool) (h : Indep d c p) :
    (d.app c).handlePkt alive p wok = (d.app (c.handlePkt alive p wok).1, (c.handlePkt alive p wok).2) := by
  cases p with
  | connack k => rfl
  | auth a => rfl
  | disconnect dd => rfl
  | pubrel a => rfl
  | suback a =>
    simp only [handlePkt]
    rw [app_complete d c _ _ (h.aw _ rfl)]
  | unsuback a =>
    simp only [handlePkt]
    rw [app_complete d c _ _ (h.aw _ rfl)]
  | pingresp =>
    simp only [handlePkt]
    rw [app_complete d c _ _ (h.aw _ rfl)]
  | puback a =>
    have hq : d.dq = 0 ∨ (d.dq = 1 ∧ 0 < c.quota ∧ c.quota < c.recvMax) := by
      rcases h.quota with h1 | h1 | h1
      · exact Or.inl h1
      · simp [RxPacket.neutral] at h1
      · exact Or.inr h1
    simp only [handlePkt]
    rw [app_bump d c hq]
    have e : (d.app c).retx = c.retx ++ d.rt := rfl
    have e' : (d.app c.bump).retx = c.bump.retx ++ d.rt := rfl
    rw [show ({ d.app c.bump with retx := eraseFirst (actionId 4 a.packetId) (d.app c).retx } : Ctx) =
        d.app { c.bump with retx := eraseFirst (actionId 4 a.packetId) c.retx } from by
      rw [e, w14_eraseFirst_append _ c.retx d.rt (h.rt _ rfl)]; rfl]
    rw [app_complete d _ _ _ (h.aw _ rfl)]
  | pubcomp a =>
    have hq : d.dq = 0 ∨ (d.dq = 1 ∧ 0 < c.quota ∧ c.quota < c.recvMax) := by
      rcases h.quota with h1 | h1 | h1
      · exact Or.inl h1
      · simp [RxPacket.neutral] at h1
      · exact Or.inr h1
    simp only [handlePkt]
    rw [app_bump d c hq]
    have e : (d.app c).retx = c.retx ++ d.rt := rfl
    rw [show ({ d.app c.bump with retx := eraseFirst (actionId 7 a.packetId) (d.app c).retx } : Ctx) =
        d.app { c.bump with retx := eraseFirst (actionId 7 a.packetId) c.retx } from by
      rw [e, w14_eraseFirst_append _ c.retx d.rt (h.rt _ rfl)]; rfl]
    rw [app_complete d _ _ _ (h.aw _ rfl)]
  | pubrec a =>
    simp only [handlePkt]
    by_cases hr : a.reason ≥ 128
    · have hq : d.dq = 0 ∨ (d.dq = 1 ∧ 0 < c.quota ∧ c.quota < c.recvMax) := by
        rcases h.quota with h1 | h1 | h1
        · exact Or.inl h1
        · simp [RxPacket.neutral] at h1; omega
        · exact Or.inr h1
      simp only [hr, ↓reduceIte]
      rw [app_bump d c hq]
      rw [app_retx d c.bump _ (h.rt _ rfl), app_complete d _ _ _ (h.aw _ rfl)]
    · simp only [hr, ↓reduceIte]
      rw [app_retx d c _ (h.rt _ rfl), app_complete d _ _ _ (h.aw _ rfl)]
  | publish pb =>
    have hsb := h.sb pb rfl
    have hsubs : (d.app c).subs = c.subs ++ d.sb := rfl
    have hq2 : (d.app c).inQos2 = c.inQos2 := rfl
    simp only [handlePkt, hq2]
    by_cases hr : pb.qos = 2 ∧ pb.packetId.getD 0 ∈ c.inQos2
    · simp only [hr, and_self, not_true_eq_false, and_false, ↓reduceIte]
      cases pb.packetId <;> rfl
    · simp only [hr, ↓reduceIte]
      by_cases h2 : pb.qos = 2
      · simp only [h2, true_and, not_false_eq_true, and_self, ↓reduceIte] at hr ⊢
        rw [show ({ d.app c with inQos2 := c.inQos2 ++ [pb.packetId.getD 0] } : Ctx).subs = c.subs ++ d.sb from rfl,
          w14_dispatch_append alive pb pb.subIds c.subs d.sb hsb]
        cases pb.packetId <;> rfl
      · simp only [h2, false_and, ↓reduceIte]
        rw [hsubs, w14_dispatch_append alive pb pb.subIds c.subs d.sb hsb]
        cases pb.packetId <;> rfl

/-! ## the commutation -/

/-- the message `m` and the inbound packet `p` do not race in the context `c`: the packet is not the answer to this
    very request, is not a PUBLISH for the subscription this request creates, and — if the request is a QoS>0 PUBLISH —
    the packet leaves the send quota alone or the quota is strictly between 0 and Receive Maximum -/
structure NoRace (c : Ctx) (m : Msg) (p : RxPacket) : Prop where
  aid : ∀ id, m.aid = some id → rxActionId p ≠ some id
  sub : ∀ sid pb, m.subId? = some sid → p = .publish pb → sid ∉ pb.subIds
  quota : m.isPub = true → p.neutral = true ∨ (0 < c.quota ∧ c.quota < c.recvMax)

theorem NoRace.indep {c : Ctx} {m : Msg} {p : RxPacket} (h : NoRace c m p) (mp : Bytes → Bool) (qz wok : Bool) :
    Indep (msgDelta mp qz m wok).1 c p := by
  obtain ⟨k1, k2, k3, k4, k5⟩ := msgDelta_keys mp qz m wok
  refine ⟨fun id hid hm => h.aid id (k1 id hm) hid, fun id hid hm => h.aid id (k2 id hm) hid,
    fun pb hp sid hs hm => h.sub sid pb (k3 sid hm) hp hs, ?_⟩
  by_cases h0 : (msgDelta mp qz m wok).1.dq = 0
  · exact Or.inl h0
  · have h1 : (msgDelta mp qz m wok).1.dq = 1 := by omega
    rcases h.quota (k5 h1).1 with hn | hn
    · exact Or.inr (Or.inl hn)
    · exact Or.inr (Or.inr ⟨h1, hn⟩)

/-- an inbound PUBLISH touches neither the quota nor the packet-size limit -/
theorem w14_publish_view (c : Ctx) (alive : Nat → Bool) (pb : PublishRx) (wok : Bool) :
    (c.handlePkt alive (.publish pb) wok).1.maxPkt = c.maxPkt ∧
    (c.handlePkt alive (.publish pb) wok).1.quota = c.quota := by
  by_cases hr : (pb.qos = 2 ∧ pb.packetId.getD 0 ∈ c.inQos2)
  · constructor <;> cases hp : pb.packetId <;> simp [handlePkt, hr, hp] <;> simp_all
  · constructor <;> cases hp : pb.packetId <;> by_cases h2 : pb.qos = 2 <;> simp_all [handlePkt]

theorem w14_handlePkt_maxPkt (c : Ctx) (alive : Nat → Bool) (p : RxPacket) (wok : Bool) :
    (c.handlePkt alive p wok).1.maxPkt = c.maxPkt := by
  cases p with
  | connack k => rfl
  | auth a => rfl
  | disconnect dd => rfl
  | pubrel a => rfl
  | suback a => exact complete_maxPkt _ _ _
  | unsuback a => exact complete_maxPkt _ _ _
  | pingresp => exact complete_maxPkt _ _ _
  | publish pb => exact (w14_publish_view c alive pb wok).1
  | puback a => show (Ctx.complete _ _ _).1.maxPkt = _; rw [complete_maxPkt]; exact bump_maxPkt c
  | pubcomp a => show (Ctx.complete _ _ _).1.maxPkt = _; rw [complete_maxPkt]; exact bump_maxPkt c
  | pubrec a => show (Ctx.complete _ _ _).1.maxPkt = _; rw [complete_maxPkt]; simp only; split <;> simp

theorem w14_handlePkt_sizeOk (c : Ctx) (alive : Nat → Bool) (p : RxPacket) (wok : Bool) :
    (c.handlePkt alive p wok).1.sizeOk = c.sizeOk := by
  funext pkt
  simp only [sizeOk, w14_handlePkt_maxPkt]

/-- a packet keeps "the quota is 0" unless it frees a slot at quota 0 -/
theorem handlePkt_view (c : Ctx) (alive : Nat → Bool) (p : RxPacket) (wok : Bool)
    (h : p.neutral = true ∨ 0 < c.quota) :
    decide ((c.handlePkt alive p wok).1.quota = 0) = decide (c.quota = 0) := by
  have hb : c.quota ≤ c.bump.quota := w14_bump_quota_ge c
  have key : 0 < c.quota → decide (c.bump.quota = 0) = decide (c.quota = 0) := by
    intro h0
    have h1 : c.bump.quota ≠ 0 := by omega
    have h2 : c.quota ≠ 0 := by omega
    simp [h1, h2]
  cases p with
  | connack k => rfl
  | auth a => rfl
  | disconnect dd => rfl
  | pubrel a => rfl
  | suback a => show decide ((Ctx.complete _ _ _).1.quota = 0) = _; rw [complete_quota]
  | unsuback a => show decide ((Ctx.complete _ _ _).1.quota = 0) = _; rw [complete_quota]
  | pingresp => show decide ((Ctx.complete _ _ _).1.quota = 0) = _; rw [complete_quota]
  | publish pb => rw [(w14_publish_view c alive pb wok).2]
  | puback a =>
    have h0 : 0 < c.quota := by
      rcases h with h | h
      · simp [RxPacket.neutral] at h
      · exact h
    show decide ((Ctx.complete _ _ _).1.quota = 0) = _
    rw [complete_quota]
    exact key h0
  | pubcomp a =>
    have h0 : 0 < c.quota := by
      rcases h with h | h
      · simp [RxPacket.neutral] at h
      · exact h
    show decide ((Ctx.complete _ _ _).1.quota = 0) = _
    rw [complete_quota]
    exact key h0
  | pubrec a =>
    show decide ((Ctx.complete _ _ _).1.quota = 0) = _
    rw [complete_quota]
    simp only
    split
    · rename_i hr
      have h0 : 0 < c.quota := by
        rcases h with h | h
        · simp [RxPacket.neutral] at h; omega
        · exact h
      exact key h0
    · rfl

/-- **Commutation.** If the queued message `m` and the ready inbound packet `p` do not race in `c` (`NoRace`), handling
    them in either order leads to the same context, and each handler performs the same effects and returns the same
    flow in both orders. -/
theorem handle_commute (c : Ctx) (m : Msg) (p : RxPacket) (alive : Nat → Bool) (wm wp : Bool) (h : NoRace c m p) :
    ((c.handleMsg m wm).1.handlePkt alive p wp).1 = ((c.handlePkt alive p wp).1.handleMsg m wm).1 ∧
    (c.handleMsg m wm).2 = ((c.handlePkt alive p wp).1.handleMsg m wm).2 ∧
    ((c.handleMsg m wm).1.handlePkt alive p wp).2 = (c.handlePkt alive p wp).2 := by
  have hv : p.neutral = true ∨ 0 < c.quota ∨ m.isPub = false := by
    cases hp : m.isPub with
    | false => exact Or.inr (Or.inr rfl)
    | true =>
      rcases h.quota hp with h1 | h1
      · exact Or.inl h1
      · exact Or.inr (Or.inl h1.1)
  rw [handleMsg_eq_delta c m wm, handleMsg_eq_delta (c.handlePkt alive p wp).1 m wm]
  simp only
  -- the message's delta is the same before and after the packet
  have hd : msgDelta (c.handlePkt alive p wp).1.sizeOk (decide ((c.handlePkt alive p wp).1.quota = 0)) m wm =
      msgDelta c.sizeOk (decide (c.quota = 0)) m wm := by
    rw [w14_handlePkt_sizeOk]
    rcases hv with h1 | h1 | h1
    · rw [handlePkt_view c alive p wp (Or.inl h1)]
    · rw [handlePkt_view c alive p wp (Or.inr h1)]
    · -- not a quota-limited request: `qz` is not looked at
      cases m with
      | ff pkt slot => rfl
      | subscribe aid sid pkt slot chan => rfl
      | awaitAck aid pkt slot =>
        have h3 : pktType pkt ≠ 3 := by simpa [Msg.isPub] using h1
        simp only [msgDelta, h3, ↓reduceIte]
  rw [hd, handlePkt_app _ c alive p wp (h.indep _ _ _)]
  exact ⟨rfl, rfl, rfl⟩

end Ctx
end Poster
