/-
  Lemmas/ScriptIds.lean — the operation identifiers a script issues. Scripts name oneshots and subscription channels after
  the operation identifier (`2*id`, `2*id+1`, channel `id`); in the library every operation creates fresh channel objects.
  A script that re-issues an identifier while the context still owns a channel of its earlier use therefore makes the
  model share a channel the library would not share. The script-level theorems that depend on channel identity carry the
  hypothesis `(World.opIds evs).Nodup` (pairwise distinct `OP` identifiers); the generators of the correspondence check
  only produce such scripts, and `check` verifies it for every script it runs.
-/
import PosterModel.World

namespace Poster
namespace World

/-- the identifier an `OP` event introduces -/
def evOpId : Ev → Option Nat
  | .op id _ _ => some id
  | _ => none

/-- the operation identifiers a script issues, in order -/
def opIds (evs : List Ev) : List Nat := evs.filterMap evOpId

end World
end Poster
