/-
  Lemmas/WorldOwn.lean — the sender-ownership invariant `OwnInv` of the whole client (C14, end to end).

  While the context exists, every operation that waits on a oneshot without a value has the sender of that
  oneshot inside the context (a queued message, or `awaiting_ack`) and its waker registered; an operation whose
  oneshot already has a value (or is closed) is flagged for the executor; every subscription channel whose sending
  half is alive has that half inside the context (a queued SUBSCRIBE, or `subscriptions`). Once the context is
  gone nobody owns anything: no waiting operation has an `empty` oneshot, no channel has a live sender.
  `OwnInv` holds in every world reachable by any script (`ownInv_script`).
-/
import PosterModel.Lemmas.WorldOwnCtx

set_option linter.unusedVariables false
set_option linter.unusedSimpArgs false

namespace Poster
open Framing
namespace World

/-- the oneshots operation `id` may wait on: `2*id`, and `2*id+1` for the second phase of a QoS 2 publish -/
def SlotOf (id s : Nat) (k : Wait) : Prop := s = 2 * id ∨ (s = 2 * id + 1 ∧ k = .pubcomp)

theorem SlotOf.half {id s : Nat} {k : Wait} (h : SlotOf id s k) : s / 2 = id := by
  rcases h with h | ⟨h, _⟩ <;> omega

/-- **the sender-ownership invariant** -/
structure OwnInv (w : World) : Prop where
  /-- a dropped context stays dropped -/
  dropped : w.ctxDropped = true → w.hasCtx = false
  nodup : (w.ops.map (·.1)).Nodup
  chanNodup : (w.chans.map (·.1)).Nodup
  /-- an operation that was never polled is flagged -/
  freshWoken : ∀ id h req, w.opSt id = some (.fresh h req) → .op id ∈ w.woken
  slotOf : ∀ id s k, w.opSt id = some (.wait s k) → SlotOf id s k
  /-- the oneshot a waiting operation waits on exists -/
  slotSome : ∀ id s k, w.opSt id = some (.wait s k) → w.slot s ≠ none
  /-- … if it has no value yet, the operation's waker is registered … -/
  waitReg : ∀ id s k, w.opSt id = some (.wait s k) → w.slot s = some .empty → s ∈ w.slotReg
  /-- … and its sender is inside the (existing) context -/
  waitOwn : ∀ id s k, w.opSt id = some (.wait s k) → w.slot s = some .empty → w.hasCtx = true ∧ OwnsSlot w s
  /-- … if it has a value or is closed, the operation is flagged -/
  waitDone : ∀ id s k, w.opSt id = some (.wait s k) → w.slot s ≠ some .empty → .op id ∈ w.woken
  /-- a channel whose sending half is alive has it inside the (existing) context -/
  chanOwn : ∀ ch c0, w.chan ch = some c0 → c0.txAlive = true → w.hasCtx = true ∧ OwnsChan w ch
  /-- without a context there is no `connect()` / `run()` future -/
  noTask : w.hasCtx = false → w.task = .none

theorem ownInv_init (cfg : Cfg) : OwnInv { cfg := cfg } where
  dropped := by simp
  nodup := by simp
  chanNodup := by simp
  freshWoken := by simp [opSt, lookupFirst]
  slotOf := by simp [opSt, lookupFirst]
  slotSome := by simp [opSt, lookupFirst]
  waitReg := by simp [opSt, lookupFirst]
  waitOwn := by simp [opSt, lookupFirst]
  waitDone := by simp [opSt, lookupFirst]
  chanOwn := by simp [chan, lookupFirst]
  noTask := by simp

/-- the invariant only reads these fields (and only the flags of operation tasks) -/
theorem own_congr {w w' : World} (h : OwnInv w)
    (h1 : w'.hasCtx = w.hasCtx) (h2 : w'.ctxDropped = w.ctxDropped) (h3 : w'.ops = w.ops)
    (h4 : w'.slots = w.slots) (h5 : w'.slotReg = w.slotReg) (h6 : w'.chans = w.chans)
    (h7 : w'.queue = w.queue) (h8 : w'.c.awaiting = w.c.awaiting) (h9 : w'.c.subs = w.c.subs)
    (h10 : ∀ n, Task.op n ∈ w.woken → Task.op n ∈ w'.woken)
    (h11 : w'.hasCtx = false → w'.task = .none) : OwnInv w' := by
  have ho : ∀ i, w'.opSt i = w.opSt i := fun i => by simp [opSt, h3]
  have hs : ∀ s, w'.slot s = w.slot s := fun s => by simp [slot, h4]
  have hc : ∀ c, w'.chan c = w.chan c := fun c => by simp [chan, h6]
  exact {
    noTask := h11
    dropped := by rw [h1, h2]; exact h.dropped
    nodup := by rw [h3]; exact h.nodup
    chanNodup := by rw [h6]; exact h.chanNodup
    freshWoken := fun id hd req hop => h10 _ (h.freshWoken id hd req (by rw [← ho]; exact hop))
    slotOf := fun id s k hop => h.slotOf id s k (by rw [← ho]; exact hop)
    slotSome := fun id s k hop => by rw [hs]; exact h.slotSome id s k (by rw [← ho]; exact hop)
    waitReg := fun id s k hop he => by
      rw [h5]; exact h.waitReg id s k (by rw [← ho]; exact hop) (by rw [← hs]; exact he)
    waitOwn := fun id s k hop he => by
      rw [h1, ownsSlot_congr h7 h8]
      exact h.waitOwn id s k (by rw [← ho]; exact hop) (by rw [← hs]; exact he)
    waitDone := fun id s k hop he =>
      h10 _ (h.waitDone id s k (by rw [← ho]; exact hop) (by rw [← hs]; exact he))
    chanOwn := fun ch c0 hch ht => by
      rw [h1, ownsChan_congr h7 h9]
      exact h.chanOwn ch c0 (by rw [← hc]; exact hch) ht }

/-- **the context side**: whatever the context task does keeps the invariant -/
theorem own_of_hand {w w' : World} (h : OwnInv w) (hd : Hand w w')
    (hT : w'.hasCtx = false → w'.task = .none) : OwnInv w' := by
  have a := hd.act
  have ho : ∀ i, w'.opSt i = w.opSt i := fun i => by simp [opSt, a.ops_eq]
  exact {
    noTask := hT
    dropped := by rw [a.hasCtx_eq, a.ctxDropped_eq]; exact h.dropped
    nodup := by rw [a.ops_eq]; exact h.nodup
    chanNodup := by rw [a.chanKeys]; exact h.chanNodup
    freshWoken := fun id hd' req hop => a.wokenMono _ (h.freshWoken id hd' req (by rw [← ho]; exact hop))
    slotOf := fun id s k hop => h.slotOf id s k (by rw [← ho]; exact hop)
    slotSome := fun id s k hop => a.slot_ne_none s (h.slotSome id s k (by rw [← ho]; exact hop))
    waitReg := fun id s k hop he => by
      have hop' : w.opSt id = some (.wait s k) := by rw [← ho]; exact hop
      have he' := a.slot_empty_inv s he
      rcases a.slotEmpty s he' with ⟨_, r⟩ | ⟨n, _, _⟩
      · exact r (h.waitReg id s k hop' he')
      · exact absurd he n
    waitOwn := fun id s k hop he => by
      have hop' : w.opSt id = some (.wait s k) := by rw [← ho]; exact hop
      have he' := a.slot_empty_inv s he
      obtain ⟨hc, hown⟩ := h.waitOwn id s k hop' he'
      refine ⟨by rw [a.hasCtx_eq]; exact hc, ?_⟩
      rcases hd.slots s hown with h1 | h1
      · exact h1
      · exact absurd he h1
    waitDone := fun id s k hop hne => by
      have hop' : w.opSt id = some (.wait s k) := by rw [← ho]; exact hop
      by_cases he' : w.slot s = some .empty
      · rcases a.slotEmpty s he' with ⟨e, _⟩ | ⟨_, _, wk⟩
        · exact absurd e hne
        · have := wk (h.waitReg id s k hop' he')
          rw [(h.slotOf id s k hop').half] at this
          exact this
      · exact a.wokenMono _ (h.waitDone id s k hop' he')
    chanOwn := fun ch c1 hch ht => by
      cases hv : w.chan ch with
      | none => rw [a.chanNone ch hv] at hch; cases hch
      | some c0 =>
        obtain ⟨c1', e1, t1, _⟩ := a.chanSome ch c0 hv
        rw [e1] at hch; cases hch
        have ht0 : c0.txAlive = true := by
          cases hb : c0.txAlive with
          | true => rfl
          | false => rw [t1 hb] at ht; cases ht
        obtain ⟨hc, hown⟩ := h.chanOwn ch c0 hv ht0
        refine ⟨by rw [a.hasCtx_eq]; exact hc, ?_⟩
        rcases hd.chans ch hown with h1 | h1
        · exact h1
        · have := h1 c1 e1; rw [this] at ht; cases ht }

theorem own_pollCtx (w : World) (h : OwnInv w) : OwnInv w.pollCtx := by
  cases hc : w.hasCtx with
  | false =>
    have : w.pollCtx = w := by simp [pollCtx, h.noTask hc]
    rw [this]; exact h
  | true =>
    refine own_of_hand h (hand_pollCtx w) (fun hc' => ?_)
    rw [(hand_pollCtx w).act.hasCtx_eq, hc] at hc'; cases hc'

/-! ## buffered subscription messages -/

/-- the number of messages buffered in subscription channels (a summand of `drainFuel`) -/
def bufSum (w : World) : Nat := (w.chans.map fun c => c.2.buf.length).sum

theorem bufs_setAssoc_le (id : Nat) (v : Chan) (hv : v.buf = []) (l : List (Nat × Chan)) :
    ((setAssoc id v l).map fun c => c.2.buf.length).sum ≤ (l.map fun c => c.2.buf.length).sum := by
  induction l with
  | nil => simp [setAssoc, hv]
  | cons x t ih =>
    obtain ⟨a, b⟩ := x
    simp only [setAssoc]
    split
    · simp [hv]
    · simp only [List.map_cons, List.sum_cons]; omega

theorem bufs_eraseFirst_le (id : Nat) (l : List (Nat × Chan)) :
    ((eraseFirst id l).map fun c => c.2.buf.length).sum ≤ (l.map fun c => c.2.buf.length).sum := by
  induction l with
  | nil => simp [eraseFirst_nil]
  | cons x t ih =>
    obtain ⟨a, b⟩ := x
    rw [eraseFirst_cons]
    split
    · simp
    · simp only [List.map_cons, List.sum_cons]; omega

theorem bufSum_setChan_le (w : World) (id : Nat) (v : Chan) (hv : v.buf = []) :
    bufSum (w.setChan id v) ≤ bufSum w := bufs_setAssoc_le id v hv w.chans

theorem bufSum_dropChanRx_le (w : World) (id : Nat) : bufSum (w.dropChanRx id) ≤ bufSum w :=
  bufs_eraseFirst_le id w.chans

/-! ## the user side: what a step of operation `id` leaves alone -/

/-- `w'` is `w` after a step of the handle future `id`: only that operation, its oneshots (`2*id`, `2*id+1`) and
    its response channel (`id`) can have changed, messages were at most added to the queue, and no wakeup other
    than the operation's own was consumed -/
structure OpFrame (id : Nat) (w w' : World) : Prop where
  hasCtx_eq : w'.hasCtx = w.hasCtx
  ctxDropped_eq : w'.ctxDropped = w.ctxDropped
  c_eq : w'.c = w.c
  woken : ∀ t, t ∈ w.woken → t ≠ .op id → t ∈ w'.woken
  ops : ∀ id', id' ≠ id → w'.opSt id' = w.opSt id'
  opsNodup : (w.ops.map (·.1)).Nodup → (w'.ops.map (·.1)).Nodup
  slot : ∀ s, s / 2 ≠ id → w'.slot s = w.slot s
  slotReg : ∀ s, s / 2 ≠ id → s ∈ w.slotReg → s ∈ w'.slotReg
  queue : ∀ m, m ∈ w.queue → m ∈ w'.queue
  chan : ∀ ch, ch ≠ id → w'.chan ch = w.chan ch
  chanNodup : (w.chans.map (·.1)).Nodup → (w'.chans.map (·.1)).Nodup
  task_eq : w'.task = w.task
  bad_eq : w'.bad = w.bad
  streams_eq : w'.streams = w.streams
  /-- no stream is flagged by a step of an operation -/
  wokenSt : ∀ n, Task.st n ∈ w'.woken → Task.st n ∈ w.woken
  /-- buffered subscription messages are not created by a step of an operation -/
  bufLe : bufSum w' ≤ bufSum w
  rspsSup : ∀ n, n ∈ w.rsps → n ∈ w'.rsps
  rspsSub : ∀ n, n ∈ w'.rsps → n ∈ w.rsps ∨ n = id

theorem opFrame_refl (id : Nat) (w : World) : OpFrame id w w :=
  ⟨rfl, rfl, rfl, fun _ h _ => h, fun _ _ => rfl, fun h => h, fun _ _ => rfl, fun _ _ h => h, fun _ h => h,
    fun _ _ => rfl, fun h => h, rfl, rfl, rfl, fun _ h => h, Nat.le_refl _, fun _ h => h, fun _ h => Or.inl h⟩

theorem opFrame_trans {id : Nat} {a b c : World} (h1 : OpFrame id a b) (h2 : OpFrame id b c) : OpFrame id a c where
  hasCtx_eq := h2.hasCtx_eq.trans h1.hasCtx_eq
  ctxDropped_eq := h2.ctxDropped_eq.trans h1.ctxDropped_eq
  c_eq := h2.c_eq.trans h1.c_eq
  woken := fun t ht hne => h2.woken t (h1.woken t ht hne) hne
  ops := fun i hi => (h2.ops i hi).trans (h1.ops i hi)
  opsNodup := fun hn => h2.opsNodup (h1.opsNodup hn)
  slot := fun s hs => (h2.slot s hs).trans (h1.slot s hs)
  slotReg := fun s hs hr => h2.slotReg s hs (h1.slotReg s hs hr)
  queue := fun m hm => h2.queue m (h1.queue m hm)
  chan := fun ch hc => (h2.chan ch hc).trans (h1.chan ch hc)
  chanNodup := fun hn => h2.chanNodup (h1.chanNodup hn)
  task_eq := h2.task_eq.trans h1.task_eq
  bad_eq := h2.bad_eq.trans h1.bad_eq
  streams_eq := h2.streams_eq.trans h1.streams_eq
  wokenSt := fun n h => h1.wokenSt n (h2.wokenSt n h)
  bufLe := Nat.le_trans h2.bufLe h1.bufLe
  rspsSup := fun n h => h2.rspsSup n (h1.rspsSup n h)
  rspsSub := fun n h => by
    rcases h2.rspsSub n h with h | h
    · exact h1.rspsSub n h
    · exact Or.inr h

/-- a step that changes none of the fields the frame speaks about (wakeups may be added) -/
theorem opFrame_of_eq (id : Nat) {w w' : World} (h1 : w'.hasCtx = w.hasCtx) (h2 : w'.ctxDropped = w.ctxDropped)
    (h3 : w'.c = w.c) (h4 : ∀ t, t ∈ w.woken → t ∈ w'.woken) (h5 : w'.ops = w.ops) (h6 : w'.slots = w.slots)
    (h7 : w'.slotReg = w.slotReg) (h8 : w'.queue = w.queue) (h9 : w'.chans = w.chans)
    (h10 : w'.task = w.task) (h11 : w'.streams = w.streams)
    (h12 : ∀ n, Task.st n ∈ w'.woken → Task.st n ∈ w.woken) (h13 : w'.rsps = w.rsps)
    (h14 : w'.bad = w.bad) : OpFrame id w w' where
  hasCtx_eq := h1
  ctxDropped_eq := h2
  c_eq := h3
  woken := fun t ht _ => h4 t ht
  ops := fun i _ => by simp [opSt, h5]
  opsNodup := fun hn => by rw [h5]; exact hn
  slot := fun s _ => by simp [slot, h6]
  slotReg := fun s _ hr => by rw [h7]; exact hr
  queue := fun m hm => by rw [h8]; exact hm
  chan := fun ch _ => by simp [chan, h9]
  chanNodup := fun hn => by rw [h9]; exact hn
  task_eq := h10
  bad_eq := h14
  streams_eq := h11
  wokenSt := h12
  bufLe := by simp [bufSum, h9]
  rspsSup := fun n h => by rw [h13]; exact h
  rspsSub := fun n h => by rw [h13] at h; exact Or.inl h

macro "opframe_eq" : tactic =>
  `(tactic| (refine opFrame_of_eq _ ?_ ?_ ?_ ?_ ?_ ?_ ?_ ?_ ?_ ?_ ?_ ?_ ?_ ?_ <;>
      first | rfl | (simp; done) | (intro t ht; simp [mem_wake_iff, ht]; done)))

theorem mem_senderGone_of_mem (w : World) (t : Task) (h : t ∈ w.woken) : t ∈ w.senderGone.woken := by
  unfold senderGone
  split
  · exact mem_wake_of_mem _ _ _ h
  · exact h

theorem opFrame_unwake (id : Nat) (w : World) : OpFrame id w (w.unwake (.op id)) where
  hasCtx_eq := rfl
  ctxDropped_eq := rfl
  c_eq := rfl
  woken := fun t ht hne => by simp [unwake, ht, hne]
  ops := fun _ _ => rfl
  opsNodup := fun h => h
  slot := fun _ _ => rfl
  slotReg := fun _ _ h => h
  queue := fun _ h => h
  chan := fun _ _ => rfl
  chanNodup := fun h => h
  task_eq := rfl
  bad_eq := rfl
  streams_eq := rfl
  wokenSt := fun n h => by simp only [unwake, List.mem_filter] at h; exact h.1
  bufLe := Nat.le_refl _
  rspsSup := fun _ h => h
  rspsSub := fun _ h => Or.inl h

theorem mem_senderGone_st (w : World) (n : Nat) (h : Task.st n ∈ w.senderGone.woken) : Task.st n ∈ w.woken := by
  unfold senderGone at h
  split at h
  · simpa [mem_wake_iff] using h
  · exact h

theorem opFrame_senderGone (id : Nat) (w : World) : OpFrame id w w.senderGone :=
  opFrame_of_eq id (by simp) (by simp) (by simp) (fun t ht => mem_senderGone_of_mem w t ht) (by simp) (by simp)
    (by simp) (by simp) (by simp) (by simp) (by simp) (mem_senderGone_st w) (by simp) (by simp)

theorem opFrame_emit (id : Nat) (w : World) (o : Obs) : OpFrame id w (w.emit o) := by opframe_eq

theorem opFrame_allocPid (id : Nat) (w : World) : OpFrame id w w.allocPid.2 := by opframe_eq
theorem opFrame_allocSub (id : Nat) (w : World) : OpFrame id w w.allocSub.2 := by opframe_eq

/-- the response of a SUBSCRIBE (with its stream) is handed to the caller -/
theorem opFrame_rsps (id : Nat) (w : World) : OpFrame id w { w with rsps := w.rsps ++ [id] } :=
  { opFrame_refl id w with
    rspsSup := fun n h => List.mem_append_left _ h
    rspsSub := fun n h => by
      rcases List.mem_append.mp h with h | h
      · exact Or.inl h
      · exact Or.inr (List.mem_singleton.mp h) }

/-- the operation is removed -/
theorem opFrame_eraseOp (id : Nat) (w : World) : OpFrame id w { w with ops := eraseFirst id w.ops } where
  hasCtx_eq := rfl
  ctxDropped_eq := rfl
  c_eq := rfl
  woken := fun _ h _ => h
  ops := fun i hi => by simp [opSt, lookupFirst_eraseFirst_ne _ _ _ hi]
  opsNodup := fun hn => nodup_keys_eraseFirst id w.ops hn
  slot := fun _ _ => rfl
  slotReg := fun _ _ h => h
  queue := fun _ h => h
  chan := fun _ _ => rfl
  chanNodup := fun h => h
  task_eq := rfl
  bad_eq := rfl
  streams_eq := rfl
  wokenSt := fun _ h => h
  bufLe := Nat.le_refl _
  rspsSup := fun _ h => h
  rspsSub := fun _ h => Or.inl h

theorem opFrame_finishOp (id : Nat) (w : World) (r : DoneRes) : OpFrame id w (w.finishOp id r) := by
  unfold finishOp
  exact opFrame_trans (opFrame_trans (opFrame_eraseOp id w) (opFrame_emit id _ _)) (opFrame_senderGone id _)

/-- one of the operation's own oneshots is consumed -/
theorem opFrame_clearSlot (id s : Nat) (w : World) (hs : s / 2 = id) : OpFrame id w (w.clearSlot s) where
  hasCtx_eq := rfl
  ctxDropped_eq := rfl
  c_eq := rfl
  woken := fun _ h _ => h
  ops := fun _ _ => rfl
  opsNodup := fun h => h
  slot := fun s' hs' => by
    have : s' ≠ s := by intro e; subst e; exact hs' hs
    simp [clearSlot, slot, lookupFirst_eraseFirst_ne _ _ _ this]
  slotReg := fun s' hs' hr => by
    have : s' ≠ s := by intro e; subst e; exact hs' hs
    simp [clearSlot, hr, this]
  queue := fun _ h => h
  chan := fun _ _ => rfl
  chanNodup := fun h => h
  task_eq := rfl
  bad_eq := rfl
  streams_eq := rfl
  wokenSt := fun _ h => h
  bufLe := Nat.le_refl _
  rspsSup := fun _ h => h
  rspsSub := fun _ h => Or.inl h

/-- the operation's response channel is created / replaced -/
theorem opFrame_setChan (id : Nat) (w : World) (v : Chan) (hv : v.buf = []) : OpFrame id w (w.setChan id v) where
  hasCtx_eq := rfl
  ctxDropped_eq := rfl
  c_eq := rfl
  woken := fun _ h _ => h
  ops := fun _ _ => rfl
  opsNodup := fun h => h
  slot := fun _ _ => rfl
  slotReg := fun _ _ h => h
  queue := fun _ h => h
  chan := fun ch hc => by simp [setChan, chan, lookupFirst_setAssoc_ne _ _ _ _ hc]
  chanNodup := fun hn => nodup_keys_setAssoc id v w.chans hn
  task_eq := rfl
  bad_eq := rfl
  streams_eq := rfl
  wokenSt := fun _ h => h
  bufLe := bufSum_setChan_le w id v hv
  rspsSup := fun _ h => h
  rspsSub := fun _ h => Or.inl h

/-- the operation's response channel is dropped by its receiver -/
theorem opFrame_dropChanRx (id : Nat) (w : World) : OpFrame id w (w.dropChanRx id) where
  hasCtx_eq := rfl
  ctxDropped_eq := rfl
  c_eq := rfl
  woken := fun _ h _ => h
  ops := fun _ _ => rfl
  opsNodup := fun h => h
  slot := fun _ _ => rfl
  slotReg := fun _ _ h => h
  queue := fun _ h => h
  chan := fun ch hc => by simp [dropChanRx, chan, lookupFirst_eraseFirst_ne _ _ _ hc]
  chanNodup := fun hn => nodup_keys_eraseFirst id w.chans hn
  task_eq := rfl
  bad_eq := rfl
  streams_eq := rfl
  wokenSt := fun _ h => h
  bufLe := bufSum_dropChanRx_le w id
  rspsSup := fun _ h => h
  rspsSub := fun _ h => Or.inl h

/-- the operation registers (again) on its oneshot -/
theorem opFrame_register (id s : Nat) (w : World) :
    OpFrame id w { w with slotReg := if s ∈ w.slotReg then w.slotReg else w.slotReg ++ [s] } where
  hasCtx_eq := rfl
  ctxDropped_eq := rfl
  c_eq := rfl
  woken := fun _ h _ => h
  ops := fun _ _ => rfl
  opsNodup := fun h => h
  slot := fun _ _ => rfl
  slotReg := fun s' _ hr => by
    show s' ∈ (if s ∈ w.slotReg then w.slotReg else w.slotReg ++ [s])
    split
    · exact hr
    · exact List.mem_append_left _ hr
  queue := fun _ h => h
  chan := fun _ _ => rfl
  chanNodup := fun h => h
  task_eq := rfl
  bad_eq := rfl
  streams_eq := rfl
  wokenSt := fun _ h => h
  bufLe := Nat.le_refl _
  rspsSup := fun _ h => h
  rspsSub := fun _ h => Or.inl h

/-- `receiver.await` on a fresh oneshot of the operation -/
theorem opFrame_awaitSlot (id s : Nat) (k : Wait) (w : World) (hs : s / 2 = id) :
    OpFrame id w (w.awaitSlot id s k) where
  hasCtx_eq := rfl
  ctxDropped_eq := rfl
  c_eq := rfl
  woken := fun _ h _ => h
  ops := fun i hi => by simp [awaitSlot, opSt, lookupFirst_setAssoc_ne _ _ _ _ hi]
  opsNodup := fun hn => nodup_keys_setAssoc id _ w.ops hn
  slot := fun s' hs' => by
    have : s' ≠ s := by intro e; subst e; exact hs' hs
    simp [awaitSlot, slot, lookupFirst_setAssoc_ne _ _ _ _ this]
  slotReg := fun s' _ hr => by
    show s' ∈ (if s ∈ w.slotReg then w.slotReg else w.slotReg ++ [s])
    split
    · exact hr
    · exact List.mem_append_left _ hr
  queue := fun _ h => h
  chan := fun _ _ => rfl
  chanNodup := fun h => h
  task_eq := rfl
  bad_eq := rfl
  streams_eq := rfl
  wokenSt := fun _ h => h
  bufLe := Nat.le_refl _
  rspsSup := fun _ h => h
  rspsSub := fun _ h => Or.inl h

/-- `sender.unbounded_send(msg)` that succeeds -/
theorem opFrame_sendMsg (id : Nat) {w w1 : World} {m : Msg} (h : w.sendMsg m = some w1) : OpFrame id w w1 := by
  rw [sendMsg_eq] at h
  split at h
  · simp only [Option.some.injEq] at h
    subst h
    exact {
      hasCtx_eq := rfl, ctxDropped_eq := rfl, c_eq := rfl
      woken := fun t ht _ => by
        show t ∈ (if w.queueReg then (w.wake .ctx).woken else w.woken)
        split
        · exact mem_wake_of_mem _ _ _ ht
        · exact ht
      ops := fun _ _ => rfl, opsNodup := fun h => h, slot := fun _ _ => rfl, slotReg := fun _ _ h => h
      queue := fun m' hm => List.mem_append_left _ hm
      chan := fun _ _ => rfl, chanNodup := fun h => h
      task_eq := rfl, bad_eq := rfl, streams_eq := rfl
      wokenSt := fun n hn => by
        have hn' : Task.st n ∈ (if w.queueReg then (w.wake .ctx).woken else w.woken) := hn
        split at hn'
        · simpa [mem_wake_iff] using hn'
        · exact hn'
      bufLe := Nat.le_refl _, rspsSup := fun _ h => h, rspsSub := fun _ h => Or.inl h }
  · cases h

theorem sendMsg_some {w w2 : World} {m : Msg} (h : w.sendMsg m = some w2) :
    w2.hasCtx = true ∧ w2.queue = w.queue ++ [m] ∧ w2.chans = w.chans ∧ w2.ops = w.ops := by
  rw [sendMsg_eq] at h
  split at h
  · rename_i hc
    simp only [Option.some.injEq] at h
    subst h
    exact ⟨hc, rfl, rfl, rfl⟩
  · cases h

theorem OpFrame.ownsSlot {id : Nat} {w w' : World} (f : OpFrame id w w') (s : Nat) (h : OwnsSlot w s) :
    OwnsSlot w' s := by
  rcases h with ⟨m, hm, hs⟩ | h
  · exact Or.inl ⟨m, f.queue m hm, hs⟩
  · right; rw [f.c_eq]; exact h

theorem OpFrame.ownsChan {id : Nat} {w w' : World} (f : OpFrame id w w') (ch : Nat) (h : OwnsChan w ch) :
    OwnsChan w' ch := by
  rcases h with ⟨aid, sid, pkt, s, hm⟩ | h
  · exact Or.inl ⟨aid, sid, pkt, s, f.queue _ hm⟩
  · right; rw [f.c_eq]; exact h

/-- operation `id` after its step: gone; or waiting on a fresh oneshot of its own, registered, whose sender the
    (existing) context owns; or not yet polled and flagged -/
def SelfOk (id : Nat) (w : World) : Prop :=
  w.opSt id = none ∨
  (∃ s k, w.opSt id = some (.wait s k) ∧ SlotOf id s k ∧ w.slot s = some .empty ∧ s ∈ w.slotReg ∧
    w.hasCtx = true ∧ OwnsSlot w s) ∨
  (∃ hd req, w.opSt id = some (.fresh hd req) ∧ .op id ∈ w.woken)

/-- the response channel `id` after the step: as before, or its live sender is owned by the context -/
def ChanSelfOk (id : Nat) (w w' : World) : Prop :=
  ∀ c0, w'.chan id = some c0 → c0.txAlive = true →
    (∃ c00, w.chan id = some c00 ∧ c00.txAlive = true) ∨ (w'.hasCtx = true ∧ OwnsChan w' id)

theorem chanSelfOk_of_eq {id : Nat} {w w' : World} (h : w'.chan id = w.chan id) : ChanSelfOk id w w' :=
  fun c0 hc ht => Or.inl ⟨c0, by rw [← h]; exact hc, ht⟩

theorem chanSelfOk_of_none {id : Nat} {w w' : World} (h : w'.chan id = none) : ChanSelfOk id w w' :=
  fun c0 hc ht => by rw [h] at hc; cases hc

/-- **a step of one handle future** keeps the invariant -/
theorem own_of_opFrame {id : Nat} {w w' : World} (h : OwnInv w) (f : OpFrame id w w') (hself : SelfOk id w')
    (hch : ChanSelfOk id w w') : OwnInv w' := by
  have other : ∀ {id' s k}, id' ≠ id → w'.opSt id' = some (.wait s k) →
      w.opSt id' = some (.wait s k) ∧ w'.slot s = w.slot s ∧ (s ∈ w.slotReg → s ∈ w'.slotReg) := by
    intro id' s k hne hop
    have hop' : w.opSt id' = some (.wait s k) := by rw [← f.ops id' hne]; exact hop
    have hh : s / 2 ≠ id := by rw [(h.slotOf id' s k hop').half]; exact hne
    exact ⟨hop', f.slot s hh, f.slotReg s hh⟩
  have self : ∀ {s k}, w'.opSt id = some (.wait s k) →
      SlotOf id s k ∧ w'.slot s = some .empty ∧ s ∈ w'.slotReg ∧ w'.hasCtx = true ∧ OwnsSlot w' s := by
    intro s k hop
    rcases hself with h0 | ⟨s', k', h1, h2⟩ | ⟨hd, req, h1, _⟩
    · rw [h0] at hop; cases hop
    · rw [h1] at hop; cases hop; exact h2
    · rw [h1] at hop; cases hop
  exact {
    noTask := fun hc => by rw [f.task_eq]; exact h.noTask (by rw [← f.hasCtx_eq]; exact hc)
    dropped := by rw [f.hasCtx_eq, f.ctxDropped_eq]; exact h.dropped
    nodup := f.opsNodup h.nodup
    chanNodup := f.chanNodup h.chanNodup
    freshWoken := fun id' hd req hop => by
      by_cases hi : id' = id
      · subst hi
        rcases hself with h0 | ⟨s', k', h1, _⟩ | ⟨hd', req', _, h2⟩
        · rw [h0] at hop; cases hop
        · rw [h1] at hop; cases hop
        · exact h2
      · refine f.woken _ (h.freshWoken id' hd req (by rw [← f.ops id' hi]; exact hop)) ?_
        intro e; cases e; exact hi rfl
    slotOf := fun id' s k hop => by
      by_cases hi : id' = id
      · subst hi; exact (self hop).1
      · exact h.slotOf id' s k (other hi hop).1
    slotSome := fun id' s k hop => by
      by_cases hi : id' = id
      · subst hi; rw [(self hop).2.1]; simp
      · obtain ⟨a, b, _⟩ := other hi hop
        rw [b]; exact h.slotSome id' s k a
    waitReg := fun id' s k hop he => by
      by_cases hi : id' = id
      · subst hi; exact (self hop).2.2.1
      · obtain ⟨a, b, c⟩ := other hi hop
        exact c (h.waitReg id' s k a (by rw [← b]; exact he))
    waitOwn := fun id' s k hop he => by
      by_cases hi : id' = id
      · subst hi; exact (self hop).2.2.2
      · obtain ⟨a, b, c⟩ := other hi hop
        obtain ⟨x, y⟩ := h.waitOwn id' s k a (by rw [← b]; exact he)
        exact ⟨by rw [f.hasCtx_eq]; exact x, f.ownsSlot s y⟩
    waitDone := fun id' s k hop hne => by
      by_cases hi : id' = id
      · subst hi; exact absurd (self hop).2.1 hne
      · obtain ⟨a, b, c⟩ := other hi hop
        refine f.woken _ (h.waitDone id' s k a (by rw [← b]; exact hne)) ?_
        intro e; cases e; exact hi rfl
    chanOwn := fun ch c0 hc ht => by
      by_cases hi : ch = id
      · subst hi
        rcases hch c0 hc ht with ⟨c00, h1, h2⟩ | h1
        · obtain ⟨x, y⟩ := h.chanOwn ch c00 h1 h2
          exact ⟨by rw [f.hasCtx_eq]; exact x, f.ownsChan ch y⟩
        · exact h1
      · obtain ⟨x, y⟩ := h.chanOwn ch c0 (by rw [← f.chan ch hi]; exact hc) ht
        exact ⟨by rw [f.hasCtx_eq]; exact x, f.ownsChan ch y⟩ }

/-- the outcome of a step of the handle future `id`: the invariant, and what the step left alone -/
structure OpRes (id : Nat) (w w' : World) : Prop where
  own : OwnInv w'
  frame : OpFrame id w w'

theorem opRes_of_opFrame {id : Nat} {w w' : World} (h : OwnInv w) (f : OpFrame id w w') (hself : SelfOk id w')
    (hch : ChanSelfOk id w w') : OpRes id w w' := ⟨own_of_opFrame h f hself hch, f⟩

/-! ### the building blocks of a handle method -/

theorem opSt_finishOp_self (w : World) (id : Nat) (r : DoneRes) (hn : (w.ops.map (·.1)).Nodup) :
    (w.finishOp id r).opSt id = none := by
  simp [opSt, lookupFirst_eraseFirst_self _ _ hn]

/-- the step ends with `DONE`: the operation is removed -/
theorem own_step_finish {id : Nat} {w w1 : World} (h : OwnInv w) (f : OpFrame id w w1)
    (hch : ChanSelfOk id w w1) (r : DoneRes) : OpRes id w (w1.finishOp id r) := by
  refine opRes_of_opFrame h (opFrame_trans f (opFrame_finishOp id w1 r))
    (Or.inl (opSt_finishOp_self w1 id r (f.opsNodup h.nodup))) ?_
  intro c0 hc ht
  rcases hch c0 (by simpa using hc) ht with h1 | ⟨h1, h2⟩
  · exact Or.inl h1
  · exact Or.inr ⟨by simpa using h1, (opFrame_finishOp id w1 r).ownsChan id h2⟩

/-- the step ends in `receiver.await` on a fresh oneshot whose sender was just queued -/
theorem own_step_await {id s : Nat} {k : Wait} {w w2 : World} (h : OwnInv w) (f : OpFrame id w w2)
    (hs : SlotOf id s k) (hctx : w2.hasCtx = true) (hown : ∃ m ∈ w2.queue, m.slot = s)
    (hch : ChanSelfOk id w w2) : OpRes id w (w2.awaitSlot id s k) := by
  refine opRes_of_opFrame h (opFrame_trans f (opFrame_awaitSlot id s k w2 hs.half)) (Or.inr (Or.inl ?_)) ?_
  · refine ⟨s, k, by simp [opSt, lookupFirst_setAssoc_self], hs, by simp [slot, awaitSlot, lookupFirst_setAssoc_self],
      ?_, by simpa using hctx, Or.inl (by simpa using hown)⟩
    show s ∈ (if s ∈ w2.slotReg then w2.slotReg else w2.slotReg ++ [s])
    split
    · assumption
    · simp
  · intro c0 hc ht
    rcases hch c0 (by simpa using hc) ht with h1 | ⟨h1, h2⟩
    · exact Or.inl h1
    · exact Or.inr ⟨by simpa using h1, (opFrame_awaitSlot id s k w2 hs.half).ownsChan id h2⟩

/-- `sender.unbounded_send(msg)?; receiver.await` -/
theorem own_step_sendAwait {id s : Nat} {k : Wait} {w w1 : World} (h : OwnInv w) (f : OpFrame id w w1)
    (hch : ChanSelfOk id w w1) (m : Msg) (hs : SlotOf id s k) (hm : m.slot = s) :
    OpRes id w (w1.sendAwait m id s k) := by
  unfold sendAwait
  cases hsm : w1.sendMsg m with
  | none => exact own_step_finish h f hch _
  | some w2 =>
    obtain ⟨a1, a2, a3, a4⟩ := sendMsg_some hsm
    have f2 := opFrame_sendMsg id hsm
    refine own_step_await h (opFrame_trans f f2) hs a1 ⟨m, by rw [a2]; simp, hm⟩ ?_
    intro c0 hc ht
    have hc' : w1.chan id = some c0 := by simpa [chan, a3] using hc
    rcases hch c0 hc' ht with h1 | ⟨h1, h2⟩
    · exact Or.inl h1
    · exact Or.inr ⟨a1, f2.ownsChan id h2⟩

theorem slotOf_base (id : Nat) (k : Wait) : SlotOf id (2 * id) k := Or.inl rfl

/-! ### `startOp` -/

theorem own_startOp {id : Nat} {w0 w : World} (h : OwnInv w0) (f : OpFrame id w0 w) (hc : w.chan id = w0.chan id)
    (req : Req) : OpRes id w0 (w.startOp id req) := by
  have hch : ChanSelfOk id w0 w := chanSelfOk_of_eq hc
  cases req with
  | publish t =>
    by_cases hq : t.qos = 0
    · rw [User.startOp_publish0 w id t hq]
      split
      · exact own_step_finish h f hch _
      · exact own_step_sendAwait h f hch _ (slotOf_base id _) rfl
    · rw [User.startOp_publish12 w id t hq]
      have f1 := opFrame_trans f (opFrame_allocPid id w)
      have hch1 : ChanSelfOk id w0 w.allocPid.2 := chanSelfOk_of_eq (by simpa using hc)
      split
      · exact own_step_finish h f1 hch1 _
      · exact own_step_sendAwait h f1 hch1 _ (slotOf_base id _) rfl
  | subscribe t =>
    rw [User.startOp_subscribe]
    simp only
    have f1 := opFrame_trans (opFrame_trans f (opFrame_allocPid id w)) (opFrame_allocSub id _)
    have hch1 : ChanSelfOk id w0 (w.allocPid.2).allocSub.2 := chanSelfOk_of_eq (by simpa using hc)
    split
    · exact own_step_finish h f1 hch1 _
    · have f2 := opFrame_trans f1 (opFrame_setChan id _ {} rfl)
      split
      · -- the context is gone: the channel just created is dropped again
        refine own_step_finish h (opFrame_trans f2 (opFrame_dropChanRx id _)) (chanSelfOk_of_none ?_) _
        have hn := f2.chanNodup h.chanNodup
        simp only [chan, dropChanRx_chans']
        exact lookupFirst_eraseFirst_self _ _ hn
      · rename_i w2 hsm
        obtain ⟨a1, a2, a3, a4⟩ := sendMsg_some hsm
        have f3 := opFrame_sendMsg id hsm
        refine own_step_await h (opFrame_trans f2 f3) (slotOf_base id _) a1
          ⟨_, by rw [a2]; exact List.mem_append_right _ (List.mem_singleton.mpr rfl), rfl⟩ ?_
        intro c0 _ _
        exact Or.inr ⟨a1, Or.inl ⟨_, _, _, _, by
          rw [a2]; exact List.mem_append_right _ (List.mem_singleton.mpr rfl)⟩⟩
  | unsubscribe t =>
    rw [User.startOp_unsubscribe]
    have f1 := opFrame_trans f (opFrame_allocPid id w)
    have hch1 : ChanSelfOk id w0 w.allocPid.2 := chanSelfOk_of_eq (by simpa using hc)
    split
    · exact own_step_finish h f1 hch1 _
    · exact own_step_sendAwait h f1 hch1 _ (slotOf_base id _) rfl
  | ping =>
    rw [User.startOp_ping]
    exact own_step_sendAwait h f hch _ (slotOf_base id _) rfl
  | disconnect t =>
    rw [User.startOp_disconnect]
    exact own_step_sendAwait h f hch _ (slotOf_base id _) rfl

/-! ### `resumeOp`, `pollOp`, `dropOp` -/

/-- the operation disappears without a `DONE` (dropped by its owner, or the `unreachable!` of a mismatched reply) -/
theorem own_step_erase {id : Nat} {w w1 : World} (h : OwnInv w) (f : OpFrame id w w1)
    (hch : ChanSelfOk id w w1) : OpRes id w ({ w1 with ops := eraseFirst id w1.ops } : World).senderGone := by
  have f2 := opFrame_trans (opFrame_eraseOp id w1) (opFrame_senderGone id _)
  refine opRes_of_opFrame h (opFrame_trans f f2) (Or.inl ?_) ?_
  · simp [opSt, lookupFirst_eraseFirst_self _ _ (f.opsNodup h.nodup)]
  · intro c0 hc ht
    rcases hch c0 (by simpa [chan] using hc) ht with h1 | ⟨h1, h2⟩
    · exact Or.inl h1
    · exact Or.inr ⟨by simpa using h1, f2.ownsChan id h2⟩

theorem own_step_erase_emit {id : Nat} {w w1 : World} (h : OwnInv w) (f : OpFrame id w w1)
    (hch : ChanSelfOk id w w1) (o : Obs) :
    OpRes id w (({ w1 with ops := eraseFirst id w1.ops } : World).emit o).senderGone := by
  have f2 := opFrame_trans (opFrame_trans (opFrame_eraseOp id w1) (opFrame_emit id _ o)) (opFrame_senderGone id _)
  refine opRes_of_opFrame h (opFrame_trans f f2) (Or.inl ?_) ?_
  · simp [opSt, lookupFirst_eraseFirst_self _ _ (f.opsNodup h.nodup)]
  · intro c0 hc ht
    rcases hch c0 (by simpa [chan] using hc) ht with h1 | ⟨h1, h2⟩
    · exact Or.inl h1
    · exact Or.inr ⟨by simpa using h1, f2.ownsChan id h2⟩

theorem own_resumeOp {id s : Nat} {k : Wait} {w0 w : World} (h : OwnInv w0) (f : OpFrame id w0 w)
    (hc : w.chan id = w0.chan id) (hs : SlotOf id s k) (v : SlotVal) : OpRes id w0 (w.resumeOp id s k v) := by
  have f1 := opFrame_trans f (opFrame_clearSlot id s w hs.half)
  have hch1 : ChanSelfOk id w0 (w.clearSlot s) := chanSelfOk_of_eq (by simpa using hc)
  have panic : OpRes id w0 (({ (w.clearSlot s) with ops := eraseFirst id (w.clearSlot s).ops } : World).emit
      (.panic (.op id) "unreachable")).senderGone := own_step_erase_emit h f1 hch1 _
  cases v with
  | errSize => simp only [resumeOp]; exact own_step_finish h f1 hch1 _
  | errQuota => simp only [resumeOp]; exact own_step_finish h f1 hch1 _
  | unit => simp only [resumeOp]; split <;> exact own_step_finish h f1 hch1 _
  | pkt p =>
    cases k <;> cases p <;> simp only [resumeOp] <;>
      first
      | exact panic
      | exact own_step_finish h f1 hch1 _
      | (split <;> exact own_step_finish h f1 hch1 _)
      | skip
    · -- PUBREC received: the PUBREL is sent and PUBCOMP awaited on the operation's second oneshot
      rename_i a
      split
      · exact own_step_finish h f1 hch1 _
      · have hs2 : SlotOf id (s + 1) .pubcomp := by
          rcases hs with hs | ⟨_, hk⟩
          · exact Or.inr ⟨by omega, rfl⟩
          · cases hk
        exact own_step_sendAwait h f1 hch1 _ hs2 rfl
    · -- SUBACK received: the response (with its stream) is handed to the caller
      refine own_step_finish h (opFrame_trans f1 (opFrame_rsps id _)) (chanSelfOk_of_eq ?_) _
      simpa [chan] using hc

/-- **one poll of a handle future by the executor** (`pollTask (.op id)`) -/
theorem own_pollOp_task (w : World) (id : Nat) (h : OwnInv w) : OpRes id w ((w.unwake (.op id)).pollOp id) := by
  have f := opFrame_unwake id w
  have hc : (w.unwake (.op id)).chan id = w.chan id := by simp
  cases hop : w.opSt id with
  | none =>
    simp only [pollOp, unwake_opSt, hop]
    exact opRes_of_opFrame h f (Or.inl (by simp [hop])) (chanSelfOk_of_eq hc)
  | some st =>
    cases st with
    | fresh hd req =>
      simp only [pollOp, unwake_opSt, hop]
      exact own_startOp h f hc req
    | wait s k =>
      have hso := h.slotOf id s k hop
      cases hsl : w.slot s with
      | none => exact absurd hsl (h.slotSome id s k hop)
      | some x =>
        cases x with
        | empty =>
          simp only [pollOp, unwake_opSt, hop, unwake_slot, hsl]
          obtain ⟨hx, hy⟩ := h.waitOwn id s k hop hsl
          have f2 := opFrame_trans f (opFrame_register id s (w.unwake (.op id)))
          refine opRes_of_opFrame h f2 (Or.inr (Or.inl ⟨s, k, ?_, hso, ?_, ?_, ?_, f2.ownsSlot s hy⟩))
            (chanSelfOk_of_eq ?_)
          · simpa [opSt] using hop
          · simpa [slot] using hsl
          · show s ∈ (if s ∈ (w.unwake (.op id)).slotReg then (w.unwake (.op id)).slotReg
              else (w.unwake (.op id)).slotReg ++ [s])
            split
            · assumption
            · simp
          · simpa using hx
          · simp [chan]
        | full v =>
          simp only [pollOp, unwake_opSt, hop, unwake_slot, hsl]
          exact own_resumeOp h f hc hso v
        | closed =>
          simp only [pollOp, unwake_opSt, hop, unwake_slot, hsl]
          exact own_step_finish h (opFrame_trans f (opFrame_clearSlot id s _ hso.half))
            (chanSelfOk_of_eq (by simp)) _

/-- the owner drops a handle future -/
theorem own_dropOp (w : World) (id : Nat) (h : OwnInv w) : OpRes id w (w.dropOp id) := by
  cases hop : w.opSt id with
  | none => simp only [dropOp, hop]; exact ⟨h, opFrame_refl id w⟩
  | some st =>
    cases st with
    | fresh hd req =>
      simp only [dropOp, hop]
      exact own_step_erase h (opFrame_refl id w) (chanSelfOk_of_eq rfl)
    | wait s k =>
      have hso := h.slotOf id s k hop
      have f1 := opFrame_clearSlot id s w hso.half
      have hch1 : ChanSelfOk id w (w.clearSlot s) := chanSelfOk_of_eq (by simp)
      cases k <;> simp only [dropOp, hop] <;>
        first
        | exact own_step_erase h f1 hch1
        | skip
      -- a pending `subscribe`: the response channel goes with it
      refine own_step_erase h (opFrame_trans f1 (opFrame_dropChanRx id _)) (chanSelfOk_of_none ?_)
      have hn : ((w.clearSlot s).chans.map (·.1)).Nodup := by simpa using h.chanNodup
      simp only [chan, dropChanRx_chans']
      exact lookupFirst_eraseFirst_self _ _ hn

/-! ### steps that touch only the channels' receiving side (streams, responses) -/

theorem own_chanOnly {w w' : World} (h : OwnInv w)
    (h1 : w'.hasCtx = w.hasCtx) (h2 : w'.ctxDropped = w.ctxDropped) (h3 : w'.ops = w.ops)
    (h4 : w'.slots = w.slots) (h5 : w'.slotReg = w.slotReg)
    (h7 : w'.queue = w.queue) (h8 : w'.c.awaiting = w.c.awaiting) (h9 : w'.c.subs = w.c.subs)
    (h10 : ∀ n, Task.op n ∈ w.woken → Task.op n ∈ w'.woken) (hT : w'.task = w.task)
    (hn : (w'.chans.map (·.1)).Nodup)
    (hch : ∀ ch c0, w'.chan ch = some c0 → c0.txAlive = true → ∃ c00, w.chan ch = some c00 ∧ c00.txAlive = true) :
    OwnInv w' := by
  have ho : ∀ i, w'.opSt i = w.opSt i := fun i => by simp [opSt, h3]
  have hs : ∀ s, w'.slot s = w.slot s := fun s => by simp [slot, h4]
  exact {
    noTask := fun hc => by rw [hT]; exact h.noTask (by rw [← h1]; exact hc)
    dropped := by rw [h1, h2]; exact h.dropped
    nodup := by rw [h3]; exact h.nodup
    chanNodup := hn
    freshWoken := fun id hd req hop => h10 _ (h.freshWoken id hd req (by rw [← ho]; exact hop))
    slotOf := fun id s k hop => h.slotOf id s k (by rw [← ho]; exact hop)
    slotSome := fun id s k hop => by rw [hs]; exact h.slotSome id s k (by rw [← ho]; exact hop)
    waitReg := fun id s k hop he => by
      rw [h5]; exact h.waitReg id s k (by rw [← ho]; exact hop) (by rw [← hs]; exact he)
    waitOwn := fun id s k hop he => by
      rw [h1, ownsSlot_congr h7 h8]
      exact h.waitOwn id s k (by rw [← ho]; exact hop) (by rw [← hs]; exact he)
    waitDone := fun id s k hop he =>
      h10 _ (h.waitDone id s k (by rw [← ho]; exact hop) (by rw [← hs]; exact he))
    chanOwn := fun ch c0 hc ht => by
      obtain ⟨c00, a, b⟩ := hch ch c0 hc ht
      rw [h1, ownsChan_congr h7 h9]
      exact h.chanOwn ch c00 a b }

theorem lookupFirst_setAssoc {β} (j k : Nat) (v : β) (l : List (Nat × β)) :
    lookupFirst j (setAssoc k v l) = if j = k then some v else lookupFirst j l := by
  by_cases h : j = k
  · subst h; simp [lookupFirst_setAssoc_self]
  · simp [h, lookupFirst_setAssoc_ne _ _ _ _ h]

theorem lookupFirst_eraseFirst_nodup {β} (j k : Nat) (l : List (Nat × β)) (hn : (l.map (·.1)).Nodup) :
    lookupFirst j (eraseFirst k l) = if j = k then none else lookupFirst j l := by
  by_cases h : j = k
  · subst h; simp [lookupFirst_eraseFirst_self _ _ hn]
  · simp [h, lookupFirst_eraseFirst_ne _ _ _ h]

/-- the receiving end of a channel is dropped -/
theorem own_dropChanRx {w w' : World} (id : Nat) (h : OwnInv w)
    (h1 : w'.hasCtx = w.hasCtx) (h2 : w'.ctxDropped = w.ctxDropped) (h3 : w'.ops = w.ops)
    (h4 : w'.slots = w.slots) (h5 : w'.slotReg = w.slotReg)
    (h7 : w'.queue = w.queue) (h8 : w'.c.awaiting = w.c.awaiting) (h9 : w'.c.subs = w.c.subs)
    (h10 : ∀ n, Task.op n ∈ w.woken → Task.op n ∈ w'.woken) (hT : w'.task = w.task)
    (hc : w'.chans = eraseFirst id w.chans) : OwnInv w' := by
  refine own_chanOnly h h1 h2 h3 h4 h5 h7 h8 h9 h10 hT (by rw [hc]; exact nodup_keys_eraseFirst _ _ h.chanNodup) ?_
  intro ch c0 hch ht
  simp only [chan, hc, lookupFirst_eraseFirst_nodup _ _ _ h.chanNodup] at hch
  split at hch
  · cases hch
  · exact ⟨c0, hch, ht⟩

/-- **one poll of a subscription stream** -/
theorem own_pollStream (w : World) (id : Nat) (h : OwnInv w) : OwnInv ((w.unwake (.st id)).pollStream id) := by
  have hu : OwnInv (w.unwake (.st id)) :=
    own_congr h rfl rfl rfl rfl rfl rfl rfl rfl rfl (fun n hn => by simp [unwake, hn]) h.noTask
  generalize w.unwake (.st id) = w1 at hu ⊢
  unfold pollStream
  split
  · exact hu
  · split
    · exact hu
    · rename_i ch hch
      split
      · rename_i p rest hb
        refine own_chanOnly hu (by simp) (by simp) (by simp) (by simp) (by simp) (by simp) (by simp) (by simp)
          (fun n hn => mem_wake_of_mem _ _ _ (by simpa using hn)) (by simp) ?_ ?_
        · simpa using nodup_keys_setAssoc id { ch with buf := rest } w1.chans hu.chanNodup
        · intro c c0 hc ht
          simp only [chan, wake_chans, emit_chans, setChan_chans', lookupFirst_setAssoc] at hc
          split at hc
          · rename_i e; subst e
            simp only [Option.some.injEq] at hc; subst hc
            exact ⟨ch, hch, ht⟩
          · exact ⟨c0, hc, ht⟩
      · split
        · rename_i hb hta
          refine own_chanOnly hu rfl rfl rfl rfl rfl rfl rfl rfl (fun _ hn => hn) rfl ?_ ?_
          · simpa using nodup_keys_setAssoc id { ch with reg := true } w1.chans hu.chanNodup
          · intro c c0 hc ht
            simp only [chan, setChan_chans', lookupFirst_setAssoc] at hc
            split at hc
            · rename_i e; subst e
              simp only [Option.some.injEq] at hc; subst hc
              exact ⟨ch, hch, ht⟩
            · exact ⟨c0, hc, ht⟩
        · exact own_dropChanRx id hu (by simp) (by simp) (by simp) (by simp) (by simp) (by simp) (by simp)
            (by simp) (fun _ hn => by simpa using hn) (by simp) (by simp)

/-- **one poll of any task by the executor** -/
theorem own_pollTask (w : World) (t : Task) (h : OwnInv w) : OwnInv (w.pollTask t) := by
  cases t with
  | ctx =>
    refine own_pollCtx _ ?_
    exact own_congr h rfl rfl rfl rfl rfl rfl rfl rfl rfl (fun n hn => by simp [unwake, hn]) h.noTask
  | op id => exact (own_pollOp_task w id h).own
  | st id => exact own_pollStream w id h

/-! ## script events -/

macro "own_eq" h:ident : tactic =>
  `(tactic| (refine own_congr $h ?_ ?_ ?_ ?_ ?_ ?_ ?_ ?_ ?_ ?_ ?_ <;>
      first | rfl | (simp; done) | (intro n hn; simp [mem_wake_iff, hn]; done) | (simpa using OwnInv.noTask $h) |
        (intro hc; simp_all; done)))

theorem own_badScript (w : World) (h : OwnInv w) : OwnInv w.badScript := by
  unfold badScript; own_eq h

theorem own_flushRaw (w : World) (h : OwnInv w) : OwnInv w.flushRaw := by
  unfold flushRaw
  split
  · exact h
  · own_eq h

theorem own_feedEvents (w : World) (evs : List ReadEv) (h : OwnInv w) : OwnInv (w.feedEvents evs) := by
  unfold feedEvents
  simp only
  split
  · own_eq h
  · own_eq h

theorem own_senderGone (w : World) (h : OwnInv w) : OwnInv w.senderGone :=
  own_congr h (by simp) (by simp) (by simp) (by simp) (by simp) (by simp) (by simp) (by simp) (by simp)
    (fun n hn => mem_senderGone_of_mem _ _ hn) (by simpa using h.noTask)

/-- `DROPCTX`: every sender the context owned is dropped, so nobody is left waiting on it -/
theorem own_dropCtx (w : World) (h : OwnInv w) (hctx : w.hasCtx = true) :
    OwnInv { dropCtxClosed w with queue := [], c := {} } := by
  have a : ActInv (dropCtxStart w) (dropCtxClosed w) := actInv_closes (closes_dropCtxClosed w)
  have ho : ∀ i, (dropCtxClosed w).opSt i = w.opSt i := fun i => by
    show lookupFirst i (dropCtxClosed w).ops = _
    rw [a.ops_eq]; rfl
  have hs0 : ∀ s, (dropCtxStart w).slot s = w.slot s := fun _ => rfl
  have hc0 : ∀ c, (dropCtxStart w).chan c = w.chan c := fun _ => rfl
  -- no operation is left waiting on an `empty` oneshot
  have noEmpty : ∀ id s k, w.opSt id = some (.wait s k) → (dropCtxClosed w).slot s ≠ some .empty := by
    intro id s k hop he
    have he' : w.slot s = some .empty := by rw [← hs0]; exact a.slot_empty_inv s he
    exact dropCtxClosed_slot w s (h.waitOwn id s k hop he').2 he
  exact {
    noTask := fun _ => (closes_inv (closes_dropCtxClosed w)).task_eq
    dropped := fun _ => a.hasCtx_eq
    nodup := by show ((dropCtxClosed w).ops.map (·.1)).Nodup; rw [a.ops_eq]; exact h.nodup
    chanNodup := by show ((dropCtxClosed w).chans.map (·.1)).Nodup; rw [a.chanKeys]; exact h.chanNodup
    freshWoken := fun id hd req hop => a.wokenMono _ (h.freshWoken id hd req (by rw [← ho]; exact hop))
    slotOf := fun id s k hop => h.slotOf id s k (by rw [← ho]; exact hop)
    slotSome := fun id s k hop =>
      a.slot_ne_none s (by rw [hs0]; exact h.slotSome id s k (by rw [← ho]; exact hop))
    waitReg := fun id s k hop he => absurd he (noEmpty id s k (by rw [← ho]; exact hop))
    waitOwn := fun id s k hop he => absurd he (noEmpty id s k (by rw [← ho]; exact hop))
    waitDone := fun id s k hop hne => by
      have hop' : w.opSt id = some (.wait s k) := by rw [← ho]; exact hop
      by_cases he' : w.slot s = some .empty
      · rcases a.slotEmpty s (by rw [hs0]; exact he') with ⟨e, _⟩ | ⟨_, _, wk⟩
        · exact absurd e hne
        · have := wk (h.waitReg id s k hop' he')
          rw [(h.slotOf id s k hop').half] at this
          exact this
      · exact a.wokenMono _ (h.waitDone id s k hop' he')
    chanOwn := fun ch c1 hch ht => by
      have hch' : (dropCtxClosed w).chan ch = some c1 := hch
      cases hv : w.chan ch with
      | none => rw [a.chanNone ch (by rw [hc0]; exact hv)] at hch'; cases hch'
      | some c0 =>
        obtain ⟨c1', e1, t1, _⟩ := a.chanSome ch c0 (by rw [hc0]; exact hv)
        rw [e1] at hch'; cases hch'
        have ht0 : c0.txAlive = true := by
          cases hb : c0.txAlive with
          | true => rfl
          | false => rw [t1 hb] at ht; cases ht
        have := (dropCtxClosed_chan w ch (h.chanOwn ch c0 hv ht0).2 c1 e1).1
        rw [this] at ht; cases ht }

/-- a new handle future is created (not yet polled) and flagged -/
theorem own_newOp (w : World) (id hd : Nat) (req : Req) (h : OwnInv w) (hnone : w.opSt id = none) :
    OwnInv (({ w with ops := w.ops ++ [(id, OpSt.fresh hd req)] } : World).wake (.op id)) := by
  have hk : id ∉ w.ops.map (·.1) := by
    intro hm
    have := (lookupFirst_isSome_iff id w.ops).2 hm
    rw [show lookupFirst id w.ops = none from hnone] at this; cases this
  have f : OpFrame id w (({ w with ops := w.ops ++ [(id, OpSt.fresh hd req)] } : World).wake (.op id)) := {
    hasCtx_eq := by simp
    ctxDropped_eq := by simp
    c_eq := by simp
    woken := fun t ht _ => mem_wake_of_mem _ _ _ ht
    ops := fun i hi => by
      simp only [opSt, wake_ops, lookupFirst_append]
      cases lookupFirst i w.ops with
      | none => simp [lookupFirst, Ne.symm hi]
      | some v => rfl
    opsNodup := fun hn => by
      simp only [wake_ops, List.map_append, List.map_cons, List.map_nil]
      rw [List.nodup_append]
      refine ⟨hn, by simp, ?_⟩
      intro a ha b hb
      simp only [List.mem_singleton] at hb
      subst hb
      intro e; subst e; exact hk ha
    slot := fun s _ => by simp [slot]
    slotReg := fun s _ hr => by simpa using hr
    queue := fun m hm => by simpa using hm
    chan := fun ch _ => by simp [chan]
    chanNodup := fun hn => by simpa using hn
    task_eq := by simp
    bad_eq := by simp
    streams_eq := by simp
    wokenSt := fun n hn => by simpa [mem_wake_iff] using hn
    bufLe := by simp [bufSum]
    rspsSup := fun n hn => by simpa using hn
    rspsSub := fun n hn => Or.inl (by simpa using hn) }
  refine own_of_opFrame h f (Or.inr (Or.inr ⟨hd, req, ?_, mem_wake_self _ _⟩)) (chanSelfOk_of_eq (by simp [chan]))
  simp only [opSt, wake_ops, lookupFirst_append]
  rw [show lookupFirst id w.ops = none from hnone]
  simp [lookupFirst]

/-- **one script event applied** -/
theorem own_apply (w : World) (e : Ev) (h : OwnInv w) : OwnInv (w.apply e) := by
  cases e with
  | setup =>
    simp only [apply]
    split
    · exact own_badScript w h
    · rename_i hcond
      split
      · rename_i hnc
        split
        · exact own_badScript w h
        · rename_i hemp
          -- a brand-new context: there is no operation yet, and no channel with a live sender
          have hops : w.ops = [] := by
            apply Classical.byContradiction; intro hne; exact hemp (Or.inr hne)
          have hdrop : w.ctxDropped = false := by
            cases hd : w.ctxDropped with
            | false => rfl
            | true => exact absurd (Or.inr hd) hcond
          have hnc' : w.hasCtx = false := by simpa using hnc
          exact {
            noTask := fun hc => by simp at hc
            dropped := fun hd => by simp only [hdrop] at hd; cases hd
            nodup := by simp [hops]
            chanNodup := h.chanNodup
            freshWoken := fun id hd req hop => by simp [opSt, hops, lookupFirst] at hop
            slotOf := fun id s k hop => by simp [opSt, hops, lookupFirst] at hop
            slotSome := fun id s k hop => by simp [opSt, hops, lookupFirst] at hop
            waitReg := fun id s k hop => by simp [opSt, hops, lookupFirst] at hop
            waitOwn := fun id s k hop => by simp [opSt, hops, lookupFirst] at hop
            waitDone := fun id s k hop => by simp [opSt, hops, lookupFirst] at hop
            chanOwn := fun ch c0 hc ht => by
              have := (h.chanOwn ch c0 hc ht).1
              rw [hnc'] at this; cases this }
      · have h1 := own_flushRaw w h
        own_eq h1
  | connect t =>
    simp only [apply]; split
    · exact own_badScript w h
    · own_eq h
  | authorize a =>
    simp only [apply]; split
    · exact own_badScript w h
    · own_eq h
  | run =>
    simp only [apply]; split
    · exact own_badScript w h
    · own_eq h
  | dropFut => simp only [apply]; own_eq h
  | dropCtx =>
    cases hc : w.hasCtx with
    | false =>
      have e : w.apply .dropCtx = { w with task := .none } := by simp [apply, hc]
      rw [e]; own_eq h
    | true => rw [apply_dropCtx w hc]; exact own_dropCtx w h hc
  | markDisc secs =>
    simp only [apply]; split
    · exact own_badScript w h
    · own_eq h
  | snap =>
    simp only [apply]; split
    · exact own_badScript w h
    · own_eq h
  | feed chunks =>
    simp only [apply]; split
    · exact own_badScript w h
    · exact own_feedEvents w _ h
  | feedEof =>
    simp only [apply]; split
    · exact own_badScript w h
    · exact own_feedEvents w _ h
  | feedErr =>
    simp only [apply]; split
    · exact own_badScript w h
    · exact own_feedEvents w _ h
  | op id hd req =>
    simp only [apply]; split
    · exact own_badScript w h
    · rename_i hcond
      refine own_newOp w id hd req h ?_
      cases hop : w.opSt id with
      | none => rfl
      | some v => exact absurd (Or.inr (by simp [hop])) hcond
  | poll t =>
    simp only [apply]; split
    · exact own_pollTask w t h
    · exact h
  | hold t =>
    simp only [apply]; split
    · exact h
    · own_eq h
  | release t => simp only [apply]; own_eq h
  | drop t =>
    cases t with
    | ctx => exact h
    | op id => exact (own_dropOp w id h).own
    | st id =>
      simp only [apply]; split
      · exact own_dropChanRx id h (by simp) (by simp) (by simp) (by simp) (by simp) (by simp) (by simp) (by simp)
          (fun _ hn => by simpa using hn) (by simp) (by simp)
      · exact h
  | dropRsp id =>
    simp only [apply]; split
    · exact own_dropChanRx id h (by simp) (by simp) (by simp) (by simp) (by simp) (by simp) (by simp) (by simp)
        (fun _ hn => by simpa using hn) (by simp) (by simp)
    · exact h
  | stream id =>
    simp only [apply]; split
    · exact own_badScript w h
    · own_eq h
  | clone hd h2 =>
    simp only [apply]; split
    · exact own_badScript w h
    · own_eq h
  | dropHandle hd =>
    simp only [apply]; split
    · exact own_badScript w h
    · exact own_senderGone _ (by own_eq h)

/-! ## the executor, whole scripts -/

theorem own_drain (f : Nat) (w : World) (h : OwnInv w) : OwnInv (drain f w) := by
  induction f generalizing w with
  | zero => exact h
  | succ f ih =>
    simp only [drain]
    split
    · exact h
    · exact ih _ (own_pollTask w _ h)

theorem own_sweep (w : World) (h : OwnInv w) : OwnInv w.sweep := by
  unfold sweep
  simp only
  generalize ([Task.ctx] ++ List.map Task.op (sortNat (List.map (fun x => x.1) w.ops)) ++
    List.map Task.st (sortNat w.streams)) = tasks
  suffices hh : ∀ (l : List Task) (w0 : World), OwnInv w0 →
      OwnInv (l.foldl (fun w t => if w.taskLive t ∧ t ∉ w.woken ∧ t ∉ w.held then w.pollTask t else w) w0) from
    hh tasks w h
  intro l
  induction l with
  | nil => intro w0 h0; exact h0
  | cons t rest ih =>
    intro w0 h0
    simp only [List.foldl_cons]
    split
    · exact ih _ (own_pollTask w0 t h0)
    · exact ih _ h0

theorem own_emit (w : World) (o : Obs) (h : OwnInv w) : OwnInv (w.emit o) := by own_eq h

theorem own_step (w : World) (e : Ev) (h : OwnInv w) : OwnInv (w.step e) := by
  unfold step
  split
  · exact h
  · have h1 : OwnInv ((w.emit (.ev e)).apply e) := own_apply _ e (own_emit w _ h)
    generalize (w.emit (.ev e)).apply e = w1 at h1 ⊢
    simp only
    split
    · exact h1
    · have h2 : OwnInv (drain w1.drainFuel w1) := own_drain _ _ h1
      generalize drain w1.drainFuel w1 = w2 at h2 ⊢
      have h3 : OwnInv (if w2.cfg.sweep = true then drain w2.sweep.drainFuel w2.sweep else w2) := by
        split
        · exact own_drain _ _ (own_sweep w2 h2)
        · exact h2
      generalize (if w2.cfg.sweep = true then drain w2.sweep.drainFuel w2.sweep else w2) = w3 at h3 ⊢
      split
      · exact own_emit _ _ h3
      · exact h3

theorem own_steps (evs : List Ev) (w : World) (h : OwnInv w) : OwnInv (evs.foldl step w) := by
  induction evs generalizing w with
  | nil => exact h
  | cons e t ih => exact ih _ (own_step w e h)

/-- **`OwnInv` holds in every world reachable by any script** -/
theorem ownInv_script (cfg : Cfg) (evs : List Ev) : OwnInv (evs.foldl step { cfg := cfg }) :=
  own_steps evs _ (ownInv_init cfg)

end World
end Poster
