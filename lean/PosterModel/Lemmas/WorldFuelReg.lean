/-
  Lemmas/WorldFuelReg.lean — the registration invariant `RegInv` of the whole client: every oneshot whose
  receiver has registered its waker (`World.slotReg`) belongs to an operation that is waiting on exactly that
  oneshot. The context side only ever removes registrations (`RegSub`) and never touches the operation table;
  a handle future registers only the oneshot it is waiting on, and un-registers it before it completes.
  `RegInv` holds in every world reachable by any script (`regInv_script`).
-/
import PosterModel.Lemmas.WorldOwnFuel

set_option linter.unusedVariables false
set_option linter.unusedSimpArgs false

namespace Poster
open Framing
namespace World

/-- every registered oneshot waker belongs to an operation that waits on exactly that oneshot -/
def RegInv (w : World) : Prop := ∀ s, s ∈ w.slotReg → ∃ k, w.opSt (s / 2) = some (.wait s k)

theorem regInv_init (cfg : Cfg) : RegInv { cfg := cfg } := by
  intro s hs
  simp at hs

/-! ## the context side: registrations only shrink, the operation table is untouched -/

/-- `w'` has the operation table of `w` and at most its registrations -/
structure RegSub (w w' : World) : Prop where
  ops_eq : w'.ops = w.ops
  sub : ∀ s, s ∈ w'.slotReg → s ∈ w.slotReg

theorem w5_regSub_refl (w : World) : RegSub w w := ⟨rfl, fun _ h => h⟩

theorem w5_regSub_trans {a b c : World} (h1 : RegSub a b) (h2 : RegSub b c) : RegSub a c :=
  ⟨h2.ops_eq.trans h1.ops_eq, fun s h => h1.sub s (h2.sub s h)⟩

theorem w5_regSub_of_eq {w w' : World} (h1 : w'.ops = w.ops) (h2 : w'.slotReg = w.slotReg) : RegSub w w' :=
  ⟨h1, fun s h => by rw [← h2]; exact h⟩

theorem RegSub.regInv {w w' : World} (f : RegSub w w') (h : RegInv w) : RegInv w' := by
  intro s hs
  obtain ⟨k, hk⟩ := h s (f.sub s hs)
  exact ⟨k, by simpa [opSt, f.ops_eq] using hk⟩

macro "w5_regsub_eq" : tactic =>
  `(tactic| (refine w5_regSub_of_eq ?_ ?_ <;> first | rfl | (simp; done)))

theorem w5_regSub_sendSlot (w : World) (s : Nat) (v : SlotVal) : RegSub w (w.sendSlot s v) := by
  rw [sendSlot_eq]
  split
  · refine ⟨rfl, fun s' h => ?_⟩
    simp only at h
    split at h
    · exact (List.mem_filter.mp h).1
    · exact h
  · exact w5_regSub_refl w

theorem w5_regSub_dropSlotTx (w : World) (s : Nat) : RegSub w (w.dropSlotTx s) := by
  rw [dropSlotTx_eq]
  split
  · refine ⟨rfl, fun s' h => ?_⟩
    simp only at h
    split at h
    · exact (List.mem_filter.mp h).1
    · exact h
  · exact w5_regSub_refl w

theorem w5_regSub_clearSlot (w : World) (s : Nat) : RegSub w (w.clearSlot s) :=
  ⟨rfl, fun s' h => (List.mem_filter.mp h).1⟩

theorem w5_regSub_writeBytes (w : World) (bs : Bytes) : RegSub w (w.writeBytes bs) := by w5_regsub_eq
theorem w5_regSub_deliver (w : World) (c : Nat) (p : PublishRx) : RegSub w (w.deliver c p) := by w5_regsub_eq
theorem w5_regSub_dropChanTx (w : World) (c : Nat) : RegSub w (w.dropChanTx c) := by w5_regsub_eq
theorem w5_regSub_finish (w : World) (call : Call) (r : RetRes) : RegSub w (w.finish call r) := by w5_regsub_eq
theorem w5_regSub_emit (w : World) (o : Obs) : RegSub w (w.emit o) := by w5_regsub_eq
theorem w5_regSub_wake (w : World) (t : Task) : RegSub w (w.wake t) := by w5_regsub_eq
theorem w5_regSub_unwake (w : World) (t : Task) : RegSub w (w.unwake t) := by w5_regsub_eq
theorem w5_regSub_senderGone (w : World) : RegSub w w.senderGone := by w5_regsub_eq

theorem w5_regSub_applyEff (w : World) (e : Eff) : RegSub w (w.applyEff e) := by
  cases e with
  | write bs => exact w5_regSub_writeBytes w bs
  | send s v => exact w5_regSub_sendSlot w s v
  | dropSlot s => exact w5_regSub_dropSlotTx w s
  | deliver c p => exact w5_regSub_deliver w c p
  | dropChan c => exact w5_regSub_dropChanTx w c

theorem w5_regSub_applyEffs (w : World) (es : List Eff) : RegSub w (w.applyEffs es) := by
  unfold applyEffs
  induction es generalizing w with
  | nil => exact w5_regSub_refl w
  | cons e t ih => exact w5_regSub_trans (w5_regSub_applyEff w e) (ih _)

theorem w5_regSub_applyEffs' {w w0 : World} (h0 : RegSub w w0) (es : List Eff) : RegSub w (w0.applyEffs es) :=
  w5_regSub_trans h0 (w5_regSub_applyEffs w0 es)

theorem w5_regSub_runHandler (w : World) (h : Bool → Ctx × List Eff × Flow) : RegSub w (w.runHandler h).1 := by
  rw [runHandler_eq]
  simp only
  exact w5_regSub_applyEffs' (by exact w5_regSub_of_eq rfl rfl) _

theorem w5_regSub_runHandler' {w w0 : World} (h0 : RegSub w w0) (h : Bool → Ctx × List Eff × Flow) :
    RegSub w (w0.runHandler h).1 := w5_regSub_trans h0 (w5_regSub_runHandler w0 h)

theorem w5_regSub_finish' {w w0 : World} (h0 : RegSub w w0) (call : Call) (r : RetRes) :
    RegSub w (w0.finish call r) := w5_regSub_trans h0 (w5_regSub_finish w0 call r)

theorem w5_regSub_runCont {w w1 : World} (h : RunCont w w1) : RegSub w w1 := by
  cases h with
  | msg m q w1 hq hr =>
    have e : w1 = (World.runHandler { w with queue := q } (fun wok => w.c.handleMsg m wok)).1 := by rw [hr]
    subst e; exact w5_regSub_runHandler' (by exact w5_regSub_of_eq rfl rfl) _
  | pkt rx' rd' fr p w1 hq hs hp hd hr =>
    have e : w1 = (World.runHandler { w with rx := rx', reader := rd' }
        (fun wok => w.c.handlePkt w.chanRxAlive p wok)).1 := by rw [hr]
    subst e; exact w5_regSub_runHandler' (by exact w5_regSub_of_eq rfl rfl) _

theorem w5_regSub_runEnd {w r : World} (h : RunEnd w r) : RegSub w r := by
  cases h with
  | msgExit m q w1 fl hq hh hne =>
    have e : w1 = (World.runHandler { w with queue := q } (fun wok => w.c.handleMsg m wok)).1 := by rw [hh]
    subst e
    exact w5_regSub_finish' (w5_regSub_runHandler' (by exact w5_regSub_of_eq rfl rfl) _) _ _
  | closed => exact w5_regSub_finish _ _ _
  | pktExit rx' rd' fr p w1 fl hq hs hp hd hh hne =>
    have e : w1 = (World.runHandler { w with rx := rx', reader := rd' }
        (fun wok => w.c.handlePkt w.chanRxAlive p wok)).1 := by rw [hh]
    subst e
    exact w5_regSub_finish' (w5_regSub_runHandler' (by exact w5_regSub_of_eq rfl rfl) _) _ _
  | codec rx' rd' fr hq hs hp => w5_regsub_eq
  | panic rx' rd' fr hq hs hp => w5_regsub_eq
  | sock rx' rd' hq hs hp => w5_regsub_eq
  | pending rx' rd' hq hs hp =>
    split
    · w5_regsub_eq
    · w5_regsub_eq

theorem w5_regSub_serve {w wm : World} (h : Serve w wm) : RegSub w wm := by
  induction h with
  | refl w => exact w5_regSub_refl w
  | step hc _ ih => exact w5_regSub_trans (w5_regSub_runCont hc) ih

theorem w5_regSub_runLoop (f : Nat) (w : World) : RegSub w (runLoop f w) := by
  obtain ⟨wm, hs, he⟩ := runLoop_decomp f w
  rcases he with he | he
  · rw [he]; exact w5_regSub_serve hs
  · exact w5_regSub_trans (w5_regSub_serve hs) (w5_regSub_runEnd he)

theorem w5_regSub_foldl_writeBytes (pkts : List Bytes) (w : World) :
    RegSub w (pkts.foldl (fun w p => w.writeBytes p) w) := by
  induction pkts generalizing w with
  | nil => exact w5_regSub_refl w
  | cons p t ih => exact w5_regSub_trans (w5_regSub_writeBytes w p) (ih _)

theorem w5_regSub_resume (w : World) :
    RegSub w (({ w with c := w.c.resume.1, task := .running true } : World).applyEffs w.c.resume.2.1) :=
  w5_regSub_applyEffs' (by exact w5_regSub_of_eq rfl rfl) _

theorem w5_regSub_pollRun (w : World) (started : Bool) : RegSub w (w.pollRun started) := by
  unfold pollRun
  split
  · exact w5_regSub_runLoop _ w
  · simp only
    split
    · exact w5_regSub_trans (w5_regSub_trans (w5_regSub_resume w) (w5_regSub_foldl_writeBytes _ _))
        (w5_regSub_runLoop _ _)
    · exact w5_regSub_trans (w5_regSub_trans (w5_regSub_resume w) (w5_regSub_writeBytes _ _))
        (w5_regSub_finish _ _ _)

theorem w5_regSub_firstEnd {w : World} {call : Call} {t : ConnectTx} {a : AuthTx} {r : World}
    (h : FirstEnd w call t a r) : RegSub w r := by
  cases h with
  | connack rx' rd' fr k hp => w5_regsub_eq
  | refused rx' rd' fr k hp => w5_regsub_eq
  | assertSubId rx' rd' fr k hp => w5_regsub_eq
  | auth rx' rd' fr au hp => w5_regsub_eq
  | unexpected rx' rd' fr p hp => w5_regsub_eq
  | codec rx' rd' fr hp => w5_regsub_eq
  | panic rx' rd' fr hp => w5_regsub_eq
  | sock rx' rd' hp => w5_regsub_eq
  | pending rx' rd' hp =>
    split
    · w5_regsub_eq
    · w5_regsub_eq

theorem w5_regSub_awaitFirst (w : World) (call : Call) (t : ConnectTx) (a : AuthTx) :
    RegSub w (w.awaitFirst call t a) := w5_regSub_firstEnd (awaitFirst_spec w call t a)

theorem w5_regSub_pollConnect (w : World) (call : Call) (t : ConnectTx) (a : AuthTx) (started : Bool) :
    RegSub w (w.pollConnect call t a started) := by
  cases started with
  | true => simp only [pollConnect, ↓reduceIte]; exact w5_regSub_awaitFirst _ _ _ _
  | false =>
    cases call <;> simp only [pollConnect, Bool.false_eq_true, ↓reduceIte] <;>
    (split
     · exact w5_regSub_finish _ _ _
     · split
       · refine w5_regSub_trans (w5_regSub_trans ?_ (w5_regSub_writeBytes _ _)) (w5_regSub_awaitFirst _ _ _ _)
         first | exact w5_regSub_refl _ | w5_regsub_eq
       · refine w5_regSub_trans (w5_regSub_trans ?_ (w5_regSub_writeBytes _ _)) (w5_regSub_finish _ _ _)
         first | exact w5_regSub_refl _ | w5_regsub_eq)

/-- **one poll of the context task** removes registrations at most, and leaves the operations alone -/
theorem w5_regSub_pollCtx (w : World) : RegSub w w.pollCtx := by
  unfold pollCtx
  split
  · exact w5_regSub_refl w
  · exact w5_regSub_pollConnect _ _ _ _ _
  · exact w5_regSub_pollRun _ _

theorem w5_pollCtx_ops (w : World) : w.pollCtx.ops = w.ops := (w5_regSub_pollCtx w).ops_eq

theorem w5_pollCtx_slotReg_sub (w : World) : ∀ s, s ∈ w.pollCtx.slotReg → s ∈ w.slotReg :=
  (w5_regSub_pollCtx w).sub

theorem w5_regSub_closes {w w' : World} (h : Closes w w') : RegSub w w' := by
  induction h with
  | refl => exact w5_regSub_refl _
  | slot s _ ih => exact w5_regSub_trans ih (w5_regSub_dropSlotTx _ s)
  | chan c _ ih => exact w5_regSub_trans ih (w5_regSub_dropChanTx _ c)

theorem w5_regSub_pollStream (w : World) (id : Nat) : RegSub w (w.pollStream id) := by
  unfold pollStream
  split
  · exact w5_regSub_refl w
  · split
    · exact w5_regSub_refl w
    · split
      · w5_regsub_eq
      · split
        · w5_regsub_eq
        · w5_regsub_eq

/-! ## the user side: a step of the handle future `id` -/

/-- a registered oneshot that the operation `id` is not waiting on belongs to another operation -/
theorem w5_reg_other {w : World} (h : RegInv w) {id s : Nat} {st : OpSt} (hop : w.opSt id = some st)
    (hs : s ∈ w.slotReg) (hne : ∀ k, st ≠ .wait s k) : s / 2 ≠ id := by
  intro e
  obtain ⟨k, hk⟩ := h s hs
  rw [e, hop] at hk
  exact hne k (Option.some.inj hk)

/-- in the middle of a step of the handle future `id` that started in `w0`: the operation table is still that
    of `w0`, and every registration left is one of `w0` that belongs to another operation -/
structure UCtx (id : Nat) (w0 w : World) : Prop where
  ops_eq : w.ops = w0.ops
  sub : ∀ s, s ∈ w.slotReg → s ∈ w0.slotReg ∧ s / 2 ≠ id

theorem UCtx.of_eq {id : Nat} {w0 w w' : World} (f : UCtx id w0 w) (h1 : w'.ops = w.ops)
    (h2 : w'.slotReg = w.slotReg) : UCtx id w0 w' :=
  ⟨h1.trans f.ops_eq, fun s h => f.sub s (by rw [← h2]; exact h)⟩

theorem UCtx.sendMsg {id : Nat} {w0 w w2 : World} {m : Msg} (f : UCtx id w0 w) (h : w.sendMsg m = some w2) :
    UCtx id w0 w2 := by
  rw [sendMsg_eq] at h
  split at h
  · simp only [Option.some.injEq] at h; subst h; exact f.of_eq rfl rfl
  · cases h

/-- the operation disappears from the table -/
theorem UCtx.erase {id : Nat} {w0 w w' : World} (f : UCtx id w0 w) (hn : (w0.ops.map (·.1)).Nodup)
    (h : RegInv w0) (h1 : w'.ops = eraseFirst id w.ops) (h2 : w'.slotReg = w.slotReg) : RegInv w' := by
  intro s hs
  rw [h2] at hs
  obtain ⟨hs0, hne⟩ := f.sub s hs
  obtain ⟨k, hk⟩ := h s hs0
  refine ⟨k, ?_⟩
  rw [opSt, h1, f.ops_eq, lookupFirst_eraseFirst_nodup _ _ _ hn, if_neg hne]
  exact hk

theorem UCtx.finishOp {id : Nat} {w0 w : World} (f : UCtx id w0 w) (hn : (w0.ops.map (·.1)).Nodup)
    (h : RegInv w0) (r : DoneRes) : RegInv (w.finishOp id r) :=
  f.erase hn h (by simp) (by simp)

/-- the operation starts waiting on its oneshot `s0`, and registers there -/
theorem UCtx.awaitSlot {id : Nat} {w0 w : World} (f : UCtx id w0 w) (h : RegInv w0) (s0 : Nat) (k0 : Wait)
    (hs0 : s0 / 2 = id) : RegInv (w.awaitSlot id s0 k0) := by
  intro s hs
  have hops : (w.awaitSlot id s0 k0).ops = setAssoc id (.wait s0 k0) w0.ops := by rw [← f.ops_eq]; rfl
  have hreg : s = s0 ∨ s ∈ w.slotReg := by
    have : s ∈ (if s0 ∈ w.slotReg then w.slotReg else w.slotReg ++ [s0]) := hs
    split at this
    · exact Or.inr this
    · rcases List.mem_append.mp this with h | h
      · exact Or.inr h
      · exact Or.inl (List.mem_singleton.mp h)
  rcases hreg with rfl | hr
  · exact ⟨k0, by rw [opSt, hops, lookupFirst_setAssoc, if_pos hs0]⟩
  · obtain ⟨hs1, hne⟩ := f.sub s hr
    obtain ⟨k, hk⟩ := h s hs1
    exact ⟨k, by rw [opSt, hops, lookupFirst_setAssoc, if_neg hne]; exact hk⟩

theorem UCtx.sendAwait {id : Nat} {w0 w : World} (f : UCtx id w0 w) (hn : (w0.ops.map (·.1)).Nodup)
    (h : RegInv w0) (m : Msg) (s0 : Nat) (k0 : Wait) (hs0 : s0 / 2 = id) : RegInv (w.sendAwait m id s0 k0) := by
  unfold World.sendAwait
  split
  · exact f.finishOp hn h _
  · rename_i w2 hsm; exact (f.sendMsg hsm).awaitSlot h _ _ hs0

theorem w5_regInv_startOp {id : Nat} {w0 w : World} (hn : (w0.ops.map (·.1)).Nodup) (h : RegInv w0)
    (f : UCtx id w0 w) (req : Req) : RegInv (w.startOp id req) := by
  have hb : (2 * id) / 2 = id := by omega
  cases req with
  | publish t =>
    by_cases hq : t.qos = 0
    · rw [User.startOp_publish0 w id t hq]
      split
      · exact f.finishOp hn h _
      · exact f.sendAwait hn h _ _ _ hb
    · rw [User.startOp_publish12 w id t hq]
      have f1 : UCtx id w0 w.allocPid.2 := f.of_eq rfl rfl
      split
      · exact f1.finishOp hn h _
      · exact f1.sendAwait hn h _ _ _ hb
  | subscribe t =>
    rw [User.startOp_subscribe]
    simp only
    have f1 : UCtx id w0 (w.allocPid.2).allocSub.2 := f.of_eq rfl rfl
    split
    · exact f1.finishOp hn h _
    · have f2 : UCtx id w0 (((w.allocPid.2).allocSub.2).setChan id {}) := f1.of_eq rfl rfl
      split
      · refine UCtx.finishOp ?_ hn h _
        exact f2.of_eq rfl rfl
      · rename_i w2 hsm; exact (f2.sendMsg hsm).awaitSlot h _ _ hb
  | unsubscribe t =>
    rw [User.startOp_unsubscribe]
    have f1 : UCtx id w0 w.allocPid.2 := f.of_eq rfl rfl
    split
    · exact f1.finishOp hn h _
    · exact f1.sendAwait hn h _ _ _ hb
  | ping =>
    rw [User.startOp_ping]
    exact f.sendAwait hn h _ _ _ hb
  | disconnect t =>
    rw [User.startOp_disconnect]
    exact f.sendAwait hn h _ _ _ hb

theorem w5_regInv_resumeOp {id s : Nat} {k : Wait} {w0 w : World} (hn : (w0.ops.map (·.1)).Nodup)
    (h : RegInv w0) (f : UCtx id w0 (w.clearSlot s)) (hs : SlotOf id s k) (v : SlotVal) :
    RegInv (w.resumeOp id s k v) := by
  have panic : RegInv (({ (w.clearSlot s) with ops := eraseFirst id (w.clearSlot s).ops } : World).emit
      (.panic (.op id) "unreachable")).senderGone := f.erase hn h (by simp) (by simp)
  cases v with
  | errSize => simp only [resumeOp]; exact f.finishOp hn h _
  | errQuota => simp only [resumeOp]; exact f.finishOp hn h _
  | unit => simp only [resumeOp]; split <;> exact f.finishOp hn h _
  | pkt p =>
    cases k <;> cases p <;> simp only [resumeOp] <;>
      first
      | exact panic
      | exact f.finishOp hn h _
      | (split <;> exact f.finishOp hn h _)
      | skip
    · -- PUBREC received: the PUBREL is sent and PUBCOMP awaited on the operation's second oneshot
      rename_i a
      have hs2 : (s + 1) / 2 = id := by
        rcases hs with hs | ⟨_, hk⟩
        · omega
        · cases hk
      split
      · exact f.finishOp hn h _
      · split
        · exact f.finishOp hn h _
        · rename_i w2 hsm; exact (f.sendMsg hsm).awaitSlot h _ _ hs2
    · -- SUBACK received
      refine UCtx.finishOp ?_ hn h _
      exact f.of_eq rfl rfl

/-- after the oneshot the operation waits on was taken (or dropped), no registration of the operation is left -/
theorem w5_uctx_clearSlot {w : World} {id s : Nat} {k : Wait} (h : RegInv w) (hop : w.opSt id = some (.wait s k)) :
    UCtx id w (w.clearSlot s) :=
  ⟨rfl, fun s' hs' => by
    obtain ⟨a, b⟩ := List.mem_filter.mp hs'
    refine ⟨a, w5_reg_other h hop a (fun k' e => ?_)⟩
    cases e
    simp at b⟩

theorem w5_uctx_fresh {w : World} {id hd : Nat} {req : Req} (h : RegInv w) (hop : w.opSt id = some (.fresh hd req)) :
    UCtx id w w :=
  ⟨rfl, fun s hs => ⟨hs, w5_reg_other h hop hs (fun k e => by cases e)⟩⟩

/-- **one poll of a handle future** -/
theorem w5_regInv_pollOp (w : World) (id : Nat) (hn : (w.ops.map (·.1)).Nodup)
    (hso : ∀ id s k, w.opSt id = some (.wait s k) → SlotOf id s k) (h : RegInv w) : RegInv (w.pollOp id) := by
  cases hop : w.opSt id with
  | none => simp only [pollOp, hop]; exact h
  | some st =>
    cases st with
    | fresh hd req =>
      simp only [pollOp, hop]
      exact w5_regInv_startOp hn h (w5_uctx_fresh h hop) req
    | wait s k =>
      have hs := hso id s k hop
      have fc := w5_uctx_clearSlot h hop
      simp only [pollOp, hop]
      split
      · exact w5_regInv_resumeOp hn h fc hs _
      · exact fc.finishOp hn h _
      · intro s' hs'
        have hreg : s' = s ∨ s' ∈ w.slotReg := by
          have : s' ∈ (if s ∈ w.slotReg then w.slotReg else w.slotReg ++ [s]) := hs'
          split at this
          · exact Or.inr this
          · rcases List.mem_append.mp this with h | h
            · exact Or.inr h
            · exact Or.inl (List.mem_singleton.mp h)
        rcases hreg with rfl | hr
        · refine ⟨k, ?_⟩
          show w.opSt (s' / 2) = _
          rw [hs.half]; exact hop
        · exact h s' hr

/-- the owner drops a handle future -/
theorem w5_regInv_dropOp (w : World) (id : Nat) (hn : (w.ops.map (·.1)).Nodup) (h : RegInv w) :
    RegInv (w.dropOp id) := by
  cases hop : w.opSt id with
  | none => simp only [dropOp, hop]; exact h
  | some st =>
    cases st with
    | fresh hd req =>
      simp only [dropOp, hop]
      exact (w5_uctx_fresh h hop).erase hn h (by simp) (by simp)
    | wait s k =>
      have fc := w5_uctx_clearSlot h hop
      -- (a pending `subscribe` also drops its response channel: neither the table nor the registrations change)
      cases k <;> simp only [dropOp, hop] <;> exact fc.erase hn h (by simp) (by simp)

/-! ## the executor -/

theorem regInv_pollTask (w : World) (t : Task) (ho : OwnInv w) (h : RegInv w) : RegInv (w.pollTask t) := by
  cases t with
  | ctx => exact (w5_regSub_trans (w5_regSub_unwake w .ctx) (w5_regSub_pollCtx _)).regInv h
  | op n =>
    exact w5_regInv_pollOp (w.unwake (.op n)) n (by simpa using ho.nodup)
      (fun id s k hop => ho.slotOf id s k (by simpa [opSt] using hop)) ((w5_regSub_unwake w _).regInv h)
  | st n => exact (w5_regSub_trans (w5_regSub_unwake w (.st n)) (w5_regSub_pollStream _ n)).regInv h

theorem regInv_emit (w : World) (o : Obs) (h : RegInv w) : RegInv (w.emit o) := (w5_regSub_emit w o).regInv h

/-! ## script events -/

theorem w5_regSub_badScript (w : World) : RegSub w w.badScript := by unfold badScript; w5_regsub_eq

theorem w5_regSub_flushRaw (w : World) : RegSub w w.flushRaw := by
  unfold flushRaw; split
  · exact w5_regSub_refl w
  · w5_regsub_eq

theorem w5_regSub_feedEvents (w : World) (evs : List ReadEv) : RegSub w (w.feedEvents evs) := by
  unfold feedEvents; simp only; split
  · w5_regsub_eq
  · w5_regsub_eq

theorem w5_regSub_dropCtx (w : World) : RegSub w (w.apply .dropCtx) := by
  cases hc : w.hasCtx with
  | false =>
    have e : w.apply .dropCtx = { w with task := .none } := by simp [apply, hc]
    rw [e]; w5_regsub_eq
  | true =>
    rw [apply_dropCtx w hc]
    have h1 : RegSub w (dropCtxStart w) := w5_regSub_of_eq rfl rfl
    have h2 := w5_regSub_trans h1 (w5_regSub_closes (closes_dropCtxClosed w))
    exact w5_regSub_trans h2 (w5_regSub_of_eq rfl rfl)

/-- a new handle future: its identifier is unused, so no registration belongs to it -/
theorem w5_regInv_newOp (w : World) (id hd : Nat) (req : Req) (h : RegInv w) :
    RegInv (({ w with ops := w.ops ++ [(id, OpSt.fresh hd req)] } : World).wake (.op id)) := by
  intro s hs
  have hs0 : s ∈ w.slotReg := by simpa using hs
  obtain ⟨k, hk⟩ := h s hs0
  refine ⟨k, ?_⟩
  have hops : (({ w with ops := w.ops ++ [(id, OpSt.fresh hd req)] } : World).wake (.op id)).ops
      = w.ops ++ [(id, OpSt.fresh hd req)] := by simp
  rw [opSt, hops, lookupFirst_append]
  have hk' : lookupFirst (s / 2) w.ops = some (.wait s k) := hk
  rw [hk']

theorem regInv_apply (w : World) (e : Ev) (ho : OwnInv w) (h : RegInv w) : RegInv (w.apply e) := by
  cases e with
  | setup =>
    refine RegSub.regInv ?_ h
    simp only [apply]
    split
    · exact w5_regSub_badScript w
    · split
      · split
        · exact w5_regSub_badScript w
        · w5_regsub_eq
      · exact w5_regSub_trans (w5_regSub_flushRaw w) (by w5_regsub_eq)
  | connect t =>
    refine RegSub.regInv ?_ h
    simp only [apply]; split
    · exact w5_regSub_badScript w
    · w5_regsub_eq
  | authorize a =>
    refine RegSub.regInv ?_ h
    simp only [apply]; split
    · exact w5_regSub_badScript w
    · w5_regsub_eq
  | run =>
    refine RegSub.regInv ?_ h
    simp only [apply]; split
    · exact w5_regSub_badScript w
    · w5_regsub_eq
  | dropFut => refine RegSub.regInv ?_ h; simp only [apply]; w5_regsub_eq
  | dropCtx => exact (w5_regSub_dropCtx w).regInv h
  | markDisc secs =>
    refine RegSub.regInv ?_ h
    simp only [apply]; split
    · exact w5_regSub_badScript w
    · w5_regsub_eq
  | snap =>
    refine RegSub.regInv ?_ h
    simp only [apply]; split
    · exact w5_regSub_badScript w
    · w5_regsub_eq
  | feed chunks =>
    refine RegSub.regInv ?_ h
    simp only [apply]; split
    · exact w5_regSub_badScript w
    · exact w5_regSub_feedEvents w _
  | feedEof =>
    refine RegSub.regInv ?_ h
    simp only [apply]; split
    · exact w5_regSub_badScript w
    · exact w5_regSub_feedEvents w _
  | feedErr =>
    refine RegSub.regInv ?_ h
    simp only [apply]; split
    · exact w5_regSub_badScript w
    · exact w5_regSub_feedEvents w _
  | op id hd req =>
    simp only [apply]; split
    · exact (w5_regSub_badScript w).regInv h
    · exact w5_regInv_newOp w id hd req h
  | poll t =>
    simp only [apply]; split
    · exact regInv_pollTask w t ho h
    · exact h
  | hold t =>
    refine RegSub.regInv ?_ h
    simp only [apply]; split
    · exact w5_regSub_refl w
    · w5_regsub_eq
  | release t => refine RegSub.regInv ?_ h; simp only [apply]; w5_regsub_eq
  | drop t =>
    cases t with
    | ctx => exact h
    | op id => exact w5_regInv_dropOp w id ho.nodup h
    | st id =>
      refine RegSub.regInv ?_ h
      simp only [apply]; split
      · w5_regsub_eq
      · exact w5_regSub_refl w
  | dropRsp id =>
    refine RegSub.regInv ?_ h
    simp only [apply]; split
    · w5_regsub_eq
    · exact w5_regSub_refl w
  | stream id =>
    refine RegSub.regInv ?_ h
    simp only [apply]; split
    · exact w5_regSub_badScript w
    · w5_regsub_eq
  | clone hd h2 =>
    refine RegSub.regInv ?_ h
    simp only [apply]; split
    · exact w5_regSub_badScript w
    · w5_regsub_eq
  | dropHandle hd =>
    refine RegSub.regInv ?_ h
    simp only [apply]; split
    · exact w5_regSub_badScript w
    · exact w5_regSub_trans (by w5_regsub_eq) (w5_regSub_senderGone _)

/-! ## the executor, whole scripts -/

theorem regInv_drain (f : Nat) (w : World) (ho : OwnInv w) (h : RegInv w) : RegInv (drain f w) := by
  induction f generalizing w with
  | zero => exact h
  | succ f ih =>
    simp only [drain]
    split
    · exact h
    · exact ih _ (own_pollTask w _ ho) (regInv_pollTask w _ ho h)

theorem regInv_sweep (w : World) (ho : OwnInv w) (h : RegInv w) : RegInv w.sweep := by
  unfold sweep
  simp only
  generalize ([Task.ctx] ++ List.map Task.op (sortNat (List.map (fun x => x.1) w.ops)) ++
    List.map Task.st (sortNat w.streams)) = tasks
  suffices hh : ∀ (l : List Task) (w0 : World), OwnInv w0 → RegInv w0 →
      RegInv (l.foldl (fun w t => if w.taskLive t ∧ t ∉ w.woken ∧ t ∉ w.held then w.pollTask t else w) w0) from
    hh tasks w ho h
  intro l
  induction l with
  | nil => intro w0 _ h0; exact h0
  | cons t rest ih =>
    intro w0 ho0 h0
    simp only [List.foldl_cons]
    split
    · exact ih _ (own_pollTask w0 t ho0) (regInv_pollTask w0 t ho0 h0)
    · exact ih _ ho0 h0

theorem regInv_step (w : World) (e : Ev) (ho : OwnInv w) (h : RegInv w) : RegInv (w.step e) := by
  unfold step
  split
  · exact h
  · have o1 : OwnInv ((w.emit (.ev e)).apply e) := own_apply _ e (own_emit w _ ho)
    have h1 : RegInv ((w.emit (.ev e)).apply e) := regInv_apply _ e (own_emit w _ ho) (regInv_emit w _ h)
    generalize (w.emit (.ev e)).apply e = w1 at o1 h1 ⊢
    simp only
    split
    · exact h1
    · have o2 : OwnInv (drain w1.drainFuel w1) := own_drain _ _ o1
      have h2 : RegInv (drain w1.drainFuel w1) := regInv_drain _ _ o1 h1
      generalize drain w1.drainFuel w1 = w2 at o2 h2 ⊢
      have h3 : RegInv (if w2.cfg.sweep = true then drain w2.sweep.drainFuel w2.sweep else w2) := by
        split
        · exact regInv_drain _ _ (own_sweep w2 o2) (regInv_sweep w2 o2 h2)
        · exact h2
      generalize (if w2.cfg.sweep = true then drain w2.sweep.drainFuel w2.sweep else w2) = w3 at h3 ⊢
      split
      · exact regInv_emit _ _ h3
      · exact h3

theorem regInv_steps (evs : List Ev) (w : World) (ho : OwnInv w) (h : RegInv w) : RegInv (evs.foldl step w) := by
  induction evs generalizing w with
  | nil => exact h
  | cons e t ih => exact ih _ (own_step w e ho) (regInv_step w e ho h)

/-- **`RegInv` holds in every world reachable by any script** -/
theorem regInv_script (cfg : Cfg) (evs : List Ev) : RegInv (evs.foldl step { cfg := cfg }) :=
  regInv_steps evs _ (ownInv_init cfg) (regInv_init cfg)

/-! ## non-vacuity -/

/-- a ping is started (its message is queued, its oneshot `2` registered); a QoS 2 publish in its second phase
    would be registered on `2*id+1` -/
def w5_scrPing : List Ev := [.setup, .op 1 0 .ping]

/-- the invariants hold in a reachable world that has a registration (so the hypotheses of `regInv_pollTask`,
    `regInv_apply`, `regInv_drain`, `regInv_sweep`, `regInv_step` are satisfiable, and `RegInv` is not trivially
    true there) -/
example : OwnInv (w5_scrPing.foldl step {}) ∧ RegInv (w5_scrPing.foldl step {}) ∧
    (w5_scrPing.foldl step {}).slotReg = [2] ∧ (w5_scrPing.foldl step {}).opSt 1 = some (.wait 2 .pingresp) :=
  ⟨ownInv_script {} _, regInv_script {} _, by decide, by decide⟩

/-- `RegInv` can fail: a registration without a waiting operation (such a world is not reachable) -/
example : ¬ RegInv { slotReg := [2] } := by
  intro h
  obtain ⟨k, hk⟩ := h 2 (by simp)
  simp [opSt, lookupFirst] at hk

/-- a hand-written world with both kinds of registration (`2*id` and, in the PUBCOMP phase, `2*id+1`) -/
example : RegInv { ops := [(1, .wait 2 .puback), (3, .wait 7 .pubcomp), (5, .fresh 0 .ping)], slotReg := [7, 2] } := by
  intro s hs
  simp only [List.mem_cons, List.not_mem_nil, or_false] at hs
  rcases hs with rfl | rfl
  · exact ⟨.pubcomp, by decide⟩
  · exact ⟨.puback, by decide⟩

end World
end Poster

#print axioms Poster.World.regInv_init
#print axioms Poster.World.regInv_pollTask
#print axioms Poster.World.regInv_apply
#print axioms Poster.World.regInv_emit
#print axioms Poster.World.regInv_drain
#print axioms Poster.World.regInv_sweep
#print axioms Poster.World.regInv_step
#print axioms Poster.World.w5_pollCtx_ops
#print axioms Poster.World.w5_pollCtx_slotReg_sub
#print axioms Poster.World.regInv_script
