/-
  Lemmas/WorldWireSent.lean — the packets a script SUBMITS to the transport (ghost functions running in parallel with
  `pollCtx`, `pollTask`, `drain`, `sweep`, `apply`, `step`), and the theorem that with an unlimited transport the bytes
  handed to the transport (`World.sent`) are exactly the concatenation of the submitted packets, in submission order.
  No assumption on the requests is needed here (a request outside the MQTT 5 domain is submitted as it is encoded).
-/
import PosterModel.Lemmas.WorldCtx
import PosterModel.Lemmas.WorldTweak

set_option linter.unusedVariables false
set_option linter.unusedSimpArgs false

namespace Poster
open Framing
namespace World

/-! ## the ghost functions -/

/-- the packets ONE poll of the context task submits to the transport (each is one `tx.write`), in order:
    * `connect()` / `authorize()` first polled with an accepted request: its CONNECT resp. AUTH packet;
    * `run()` first polled: the retransmit queue of the resumed session, then the writes of the handlers of the poll;
    * `run()` polled again: the writes of the handlers of the poll (`writesOf` of the effects of every handled message /
      inbound packet of the history `loopHist` of the poll). -/
def ctxSubmits (w : World) : List Bytes :=
  match w.task with
  | .none => []
  | .connecting call t a started =>
    if started then [] else
    if reqValid call t a then [match call with | .connect => t.encode | _ => a.encode] else []
  | .running started =>
    if started then histWrites (w.c.serve (loopHist w.loopFuel w)).2
    else w.c.resume.2.2 ++ histWrites (w.resent.c.serve (loopHist w.resent.loopFuel w.resent)).2

/-- the packets one poll of a task submits: only the context task writes to the transport -/
def taskSubmits (w : World) : Task → List Bytes
  | .ctx => (w.unwake .ctx).ctxSubmits
  | _ => []

/-- … of the executor running until nothing is ready -/
def drainSubmits : Nat → World → List Bytes
  | 0, _ => []
  | f+1, w =>
    match w.pick with
    | none => []
    | some t => w.taskSubmits t ++ drainSubmits f (w.pollTask t)

/-- … of the sweep over the task list `l` -/
def sweepListSubmits : List Task → World → List Bytes
  | [], _ => []
  | t :: l, w =>
    if w.taskLive t ∧ t ∉ w.woken ∧ t ∉ w.held then w.taskSubmits t ++ sweepListSubmits l (w.pollTask t)
    else sweepListSubmits l w

def sweepTasks (w : World) : List Task :=
  [Task.ctx] ++ (sortNat (w.ops.map (·.1))).map Task.op ++ (sortNat w.streams).map Task.st

def sweepSubmits (w : World) : List Bytes := sweepListSubmits w.sweepTasks w

/-- … of a script event itself: only an explicit `POLL` of a live task polls anything -/
def applySubmits (w : World) : Ev → List Bytes
  | .poll t => if w.taskLive t then w.taskSubmits t else []
  | _ => []

/-- … of one script step: the event, the drain, and with `exec=sweep` the sweep and the second drain -/
def stepSubmits (w : World) (e : Ev) : List Bytes :=
  if w.bad then [] else
  let w0 := w.emit (.ev e)
  let w1 := w0.apply e
  w0.applySubmits e ++
    (if w1.bad then [] else
      let w2 := drain w1.drainFuel w1
      drainSubmits w1.drainFuel w1 ++
        (if w2.cfg.sweep then w2.sweepSubmits ++ drainSubmits w2.sweep.drainFuel w2.sweep else []))

/-- … of a script run from the world `w` -/
def scriptSubmits : World → List Ev → List Bytes
  | _, [] => []
  | w, e :: es => w.stepSubmits e ++ scriptSubmits (w.step e) es

/-- **the packets a script submits to the transport**, in submission order -/
def submitted (cfg : Cfg) (evs : List Ev) : List Bytes := scriptSubmits { cfg := cfg } evs

/-! ## what does not touch the transport -/

theorem sent_of_eq {w w' : World} (h1 : w'.out = w.out) (h2 : w'.wirePend = w.wirePend) : w'.sent = w.sent :=
  sent_congr h1 h2

theorem sent_of_one {w w' : World} (o : Obs) (h1 : w'.out = w.out ++ [o]) (h2 : w'.wirePend = w.wirePend)
    (ho : obsBytes o = []) : w'.sent = w.sent := by
  simp [sent, h1, h2, ho]

theorem finishOp_sent (w : World) (id : Nat) (r : DoneRes) : (w.finishOp id r).sent = w.sent :=
  sent_of_one (.done id r) (by simp) (by simp) rfl

theorem sendMsg_wirePend {w w' : World} {m : Msg} (h : w.sendMsg m = some w') : w'.wirePend = w.wirePend := by
  rw [sendMsg_eq] at h
  split at h
  · simp only [Option.some.injEq] at h; subst h; rfl
  · cases h

theorem sendMsg_sent {w w' : World} {m : Msg} (h : w.sendMsg m = some w') : w'.sent = w.sent :=
  sent_of_eq (sendMsg_out h).1 (sendMsg_wirePend h)

theorem sendAwait_sent (w : World) (m : Msg) (id s : Nat) (k : Wait) : (w.sendAwait m id s k).sent = w.sent := by
  unfold sendAwait
  cases h : w.sendMsg m with
  | none => exact finishOp_sent _ _ _
  | some w1 => exact (sent_of_eq (by simp) (by simp)).trans (sendMsg_sent h)

theorem allocPid_sent (w : World) : w.allocPid.2.sent = w.sent := rfl
theorem allocSub_sent (w : World) : w.allocSub.2.sent = w.sent := rfl

theorem startOp_sent (w : World) (id : Nat) (req : Req) : (w.startOp id req).sent = w.sent := by
  cases req with
  | publish t =>
    by_cases hq : t.qos = 0
    · rw [User.startOp_publish0 _ _ _ hq]; split
      · exact finishOp_sent _ _ _
      · exact sendAwait_sent _ _ _ _ _
    · rw [User.startOp_publish12 _ _ _ hq]; split
      · exact finishOp_sent _ _ _
      · exact sendAwait_sent _ _ _ _ _
  | subscribe t =>
    rw [User.startOp_subscribe]
    simp only
    split
    · exact finishOp_sent _ _ _
    · cases h : World.sendMsg _ _ with
      | none => exact (finishOp_sent _ _ _).trans (sent_of_eq (by simp) (by simp))
      | some w1 =>
        exact (sent_of_eq (by simp) (by simp)).trans ((sendMsg_sent h).trans (sent_of_eq (by simp) (by simp)))
  | unsubscribe t =>
    rw [User.startOp_unsubscribe]; split
    · exact finishOp_sent _ _ _
    · exact sendAwait_sent _ _ _ _ _
  | ping => rw [User.startOp_ping]; exact sendAwait_sent ..
  | disconnect t => rw [User.startOp_disconnect]; exact sendAwait_sent ..

theorem clearSlot_sent (w : World) (s : Nat) : (w.clearSlot s).sent = w.sent := sent_of_eq (by simp) (by simp)

theorem senderGone_sent (w : World) : w.senderGone.sent = w.sent := sent_of_eq (by simp) (by simp)
theorem sent_set_ops (w : World) (l : List (Nat × OpSt)) : ({ w with ops := l } : World).sent = w.sent := rfl
theorem sent_set_rsps (w : World) (l : List Nat) : ({ w with rsps := l } : World).sent = w.sent := rfl
theorem emit_panic_sent (w : World) (t : Task) (c : String) : (w.emit (.panic t c)).sent = w.sent :=
  sent_emit _ _ rfl

theorem resumeOp_sent (w : World) (id s : Nat) (k : Wait) (v : SlotVal) : (w.resumeOp id s k v).sent = w.sent := by
  cases v with
  | errSize => simp [resumeOp, finishOp_sent, clearSlot_sent]
  | errQuota => simp [resumeOp, finishOp_sent, clearSlot_sent]
  | unit => cases k <;> simp [resumeOp, finishOp_sent, clearSlot_sent]
  | pkt x =>
    cases k <;> cases x <;> simp only [resumeOp, apply_ite World.sent, finishOp_sent, clearSlot_sent, senderGone_sent,
      emit_panic_sent, sent_set_ops, sent_set_rsps, ite_self]
    split
    · rfl
    · cases h : World.sendMsg _ _ with
      | none => simp only [finishOp_sent, clearSlot_sent]
      | some w1 => exact (sent_of_eq (by simp) (by simp)).trans ((sendMsg_sent h).trans (clearSlot_sent w s))

theorem pollOp_sent (w : World) (id : Nat) : (w.pollOp id).sent = w.sent := by
  unfold pollOp
  split
  · rfl
  · exact startOp_sent _ _ _
  · split
    · exact resumeOp_sent _ _ _ _ _
    · exact (finishOp_sent _ _ _).trans (clearSlot_sent w _)
    · exact sent_of_eq rfl rfl

theorem pollStream_sent (w : World) (id : Nat) : (w.pollStream id).sent = w.sent := by
  unfold pollStream
  split
  · rfl
  · split
    · rfl
    · split
      · rename_i p rest _; exact sent_of_one (.item id p) (by simp) (by simp) rfl
      · split
        · exact sent_of_eq (by simp) (by simp)
        · exact sent_of_one (.endStream id) (by simp) (by simp) rfl

theorem dropOp_sent (w : World) (id : Nat) : (w.dropOp id).sent = w.sent := by
  unfold dropOp
  split
  · rfl
  · exact sent_of_eq (by simp) (by simp)
  · rename_i s k _; cases k <;> exact sent_of_eq (by simp) (by simp)

/-! ## the context task -/

theorem firstEnd_sent {w : World} {call : Call} {t : ConnectTx} {a : AuthTx} {r : World}
    (h : FirstEnd w call t a r) : r.sent = w.sent := by
  cases h with
  | connack rx' rd' fr k hp => exact (sent_finish _ _ _).trans (sent_of_eq rfl rfl)
  | refused rx' rd' fr k hp => exact (sent_finish _ _ _).trans (sent_of_eq rfl rfl)
  | assertSubId rx' rd' fr k hp => exact sent_of_one (.panic .ctx "assert-subid") rfl rfl rfl
  | auth rx' rd' fr au hp => exact (sent_finish _ _ _).trans (sent_of_eq rfl rfl)
  | unexpected rx' rd' fr p hp => exact (sent_finish _ _ _).trans (sent_of_eq rfl rfl)
  | codec rx' rd' fr hp => exact (sent_finish _ _ _).trans (sent_of_eq rfl rfl)
  | panic rx' rd' fr hp => exact sent_of_one (.panic .ctx "other") rfl rfl rfl
  | sock rx' rd' hp => exact (sent_finish _ _ _).trans (sent_of_eq rfl rfl)
  | pending rx' rd' hp => split <;> exact sent_of_eq (by simp) (by simp)

theorem awaitFirst_sent (w : World) (call : Call) (t : ConnectTx) (a : AuthTx) :
    (w.awaitFirst call t a).sent = w.sent := firstEnd_sent (awaitFirst_spec w call t a)

theorem pollConnect_first_sent (w : World) (call : Call) (t : ConnectTx) (a : AuthTx) (hl : w.cfg.wlimit = none) :
    (w.pollConnect call t a false).sent =
      w.sent ++ (if reqValid call t a then (match call with | .connect => t.encode | _ => a.encode) else []) := by
  cases call with
  | connect =>
    simp only [pollConnect, reqValid, Bool.false_eq_true, ↓reduceIte]
    by_cases hv : t.valid = true
    · simp only [hv, Bool.not_true, Bool.false_eq_true, ↓reduceIte]
      have hc : ∀ n, ({ w with c := { w.c with sei := t.sessionExpiry.getD 0 } } : World).canWrite n = true :=
        fun n => canWrite_unlimited _ hl n
      rw [if_pos (hc _), awaitFirst_sent, (sent_writeBytes _ _ (hc _)).1]
      rfl
    · have hv' : t.valid = false := by simpa using hv
      simp [hv', sent_finish]
  | authorize =>
    simp only [pollConnect, reqValid, Bool.false_eq_true, ↓reduceIte]
    by_cases hv : a.valid = true
    · simp only [hv, Bool.not_true, Bool.false_eq_true, ↓reduceIte]
      rw [if_pos (canWrite_unlimited w hl _), awaitFirst_sent, (sent_writeBytes _ _ (canWrite_unlimited w hl _)).1]
    · have hv' : a.valid = false := by simpa using hv
      simp [hv', sent_finish]
  | run =>
    simp only [pollConnect, reqValid, Bool.false_eq_true, ↓reduceIte]
    by_cases hv : a.valid = true
    · simp only [hv, Bool.not_true, Bool.false_eq_true, ↓reduceIte]
      rw [if_pos (canWrite_unlimited w hl _), awaitFirst_sent, (sent_writeBytes _ _ (canWrite_unlimited w hl _)).1]
    · have hv' : a.valid = false := by simpa using hv
      simp [hv', sent_finish]

/-- **one poll of the context task, unlimited transport**: exactly the submitted packets are handed to the transport -/
theorem pollCtx_sent (w : World) (hl : w.cfg.wlimit = none) : w.pollCtx.sent = w.sent ++ w.ctxSubmits.flatten := by
  unfold pollCtx ctxSubmits
  cases ht : w.task with
  | none => simp
  | connecting call t a started =>
    cases started with
    | true => simp [pollConnect, awaitFirst_sent]
    | false =>
      simp only [Bool.false_eq_true, ↓reduceIte]
      rw [pollConnect_first_sent w call t a hl]
      split <;> simp
  | running started =>
    cases started with
    | true =>
      simp only [↓reduceIte]
      exact (pollRun_started_pollServe w).sent_eq hl
    | false =>
      simp only [Bool.false_eq_true, ↓reduceIte]
      have hc : w.resumed.canWrite ((w.c.resume.2.2.map List.length).sum) = true :=
        canWrite_unlimited _ (by rw [resumed_cfg]; exact hl) _
      rw [(pollRun_first_pollServe w hc).sent_eq (by rw [resent_cfg]; exact hl), resent_sent w hc]
      simp

/-! ## tasks, the executor, script events -/

theorem unwake_sent (w : World) (t : Task) : (w.unwake t).sent = w.sent := sent_of_eq (by simp) (by simp)

theorem pollTask_sent (w : World) (t : Task) (hl : w.cfg.wlimit = none) :
    (w.pollTask t).sent = w.sent ++ (w.taskSubmits t).flatten := by
  cases t with
  | ctx =>
    simp only [pollTask, taskSubmits]
    rw [pollCtx_sent _ (by simpa using hl), unwake_sent]
  | op n => simp [pollTask, taskSubmits, pollOp_sent, unwake_sent]
  | st n => simp [pollTask, taskSubmits, pollStream_sent, unwake_sent]

theorem drain_sent (f : Nat) (w : World) (hl : w.cfg.wlimit = none) :
    (drain f w).sent = w.sent ++ (drainSubmits f w).flatten := by
  induction f generalizing w with
  | zero => simp [drain, drainSubmits]
  | succ f ih =>
    simp only [drain, drainSubmits]
    cases hp : w.pick with
    | none => simp
    | some t =>
      simp only
      rw [ih _ (by rw [pollTask_cfg]; exact hl), pollTask_sent w t hl]
      simp

theorem sweepList_sent (l : List Task) (w : World) (hl : w.cfg.wlimit = none) :
    (l.foldl (fun w t => if w.taskLive t ∧ t ∉ w.woken ∧ t ∉ w.held then w.pollTask t else w) w).sent =
      w.sent ++ (sweepListSubmits l w).flatten ∧
    (l.foldl (fun w t => if w.taskLive t ∧ t ∉ w.woken ∧ t ∉ w.held then w.pollTask t else w) w).cfg = w.cfg := by
  induction l generalizing w with
  | nil => simp [sweepListSubmits]
  | cons t l ih =>
    simp only [List.foldl_cons, sweepListSubmits]
    split
    · obtain ⟨h1, h2⟩ := ih (w.pollTask t) (by rw [pollTask_cfg]; exact hl)
      rw [h1, h2, pollTask_sent w t hl, pollTask_cfg]
      simp
    · exact ih w hl

theorem sweep_sent (w : World) (hl : w.cfg.wlimit = none) : w.sweep.sent = w.sent ++ w.sweepSubmits.flatten :=
  (sweepList_sent w.sweepTasks w hl).1

theorem sweep_cfg (w : World) : w.sweep.cfg = w.cfg := by
  unfold sweep
  simp only
  generalize ([Task.ctx] ++ List.map Task.op (sortNat (List.map (fun x => x.1) w.ops)) ++
    List.map Task.st (sortNat w.streams)) = l
  induction l generalizing w with
  | nil => rfl
  | cons t l ih =>
    simp only [List.foldl_cons]
    split
    · rw [ih, pollTask_cfg]
    · exact ih w

theorem badScript_sent (w : World) : w.badScript.sent = w.sent := sent_of_one .badscript rfl rfl rfl

theorem flushRaw_sent (w : World) : w.flushRaw.sent = w.sent := by
  unfold flushRaw
  split
  · rfl
  · simp [sent, obsBytes]

theorem feedEvents_sent (w : World) (evs : List ReadEv) : (w.feedEvents evs).sent = w.sent := by
  unfold feedEvents
  simp only
  split <;> exact sent_of_eq (by simp) (by simp)

theorem apply_sent (w : World) (e : Ev) (hl : w.cfg.wlimit = none) :
    (w.apply e).sent = w.sent ++ (w.applySubmits e).flatten := by
  cases e with
  | poll t =>
    simp only [World.apply, applySubmits]
    split
    · exact pollTask_sent w t hl
    · simp
  | dropCtx =>
    simp only [applySubmits, List.flatten_nil, List.append_nil]
    by_cases h : w.hasCtx = true
    · rw [apply_dropCtx _ h]
      have inv := closes_inv (closes_dropCtxClosed w)
      exact sent_of_eq inv.out_eq inv.wirePend_eq
    · simp only [World.apply, h, Bool.not_eq_true, Bool.not_false, ↓reduceIte]
      rfl
  | drop t =>
    simp only [applySubmits, List.flatten_nil, List.append_nil]
    cases t
    · rfl
    · exact dropOp_sent ..
    · simp only [World.apply]; split
      · exact sent_of_eq (by simp) (by simp)
      · rfl
  | setup =>
    simp only [applySubmits, List.flatten_nil, List.append_nil, World.apply]
    split
    · exact badScript_sent w
    · split
      · split
        · exact badScript_sent w
        · rfl
      · exact (sent_of_eq rfl rfl).trans (flushRaw_sent w)
  | snap =>
    simp only [applySubmits, List.flatten_nil, List.append_nil, World.apply]
    split
    · exact badScript_sent w
    · exact sent_emit _ _ rfl
  | _ =>
    simp only [applySubmits, List.flatten_nil, List.append_nil, World.apply]
    first
      | rfl
      | (split
         · first | exact badScript_sent w | rfl | exact sent_of_eq (by simp) (by simp)
         · first | rfl | exact feedEvents_sent _ _ | exact sent_of_eq (by simp) (by simp)
                 | exact (senderGone_sent _).trans (sent_of_eq rfl rfl))

theorem emit_ev_sent (w : World) (e : Ev) : (w.emit (.ev e)).sent = w.sent := sent_emit _ _ rfl

/-- **one script step, unlimited transport**: exactly the submitted packets are handed to the transport -/
theorem step_sent (w : World) (e : Ev) (hl : w.cfg.wlimit = none) :
    (w.step e).sent = w.sent ++ (w.stepSubmits e).flatten := by
  unfold step stepSubmits
  split
  · simp
  · dsimp only
    have h0 : (w.emit (.ev e)).cfg.wlimit = none := by simpa using hl
    have h1 := apply_sent (w.emit (.ev e)) e h0
    have hc1 : ((w.emit (.ev e)).apply e).cfg.wlimit = none := by rw [apply_cfg]; exact h0
    rw [emit_ev_sent] at h1
    generalize (w.emit (.ev e)).apply e = w1 at h1 hc1 ⊢
    split
    · simp [h1]
    · have h2 := drain_sent w1.drainFuel w1 hc1
      have hc2 : (drain w1.drainFuel w1).cfg.wlimit = none := by rw [drain_cfg]; exact hc1
      generalize drain w1.drainFuel w1 = w2 at h2 hc2 ⊢
      have h3 : (if w2.cfg.sweep = true then drain w2.sweep.drainFuel w2.sweep else w2).sent =
          w2.sent ++ (if w2.cfg.sweep = true then w2.sweepSubmits ++ drainSubmits w2.sweep.drainFuel w2.sweep
            else []).flatten := by
        split
        · rw [drain_sent _ _ (by rw [sweep_cfg]; exact hc2), sweep_sent _ hc2]; simp
        · simp
      generalize (if w2.cfg.sweep = true then drain w2.sweep.drainFuel w2.sweep else w2) = w3 at h3 ⊢
      have h4 : (if w3.task ≠ CtxTask.none ∧ w3.reader ≠ [] then w3.emit Obs.stall else w3).sent = w3.sent := by
        split
        · exact sent_emit _ _ rfl
        · rfl
      rw [h4, h3, h2, h1]
      simp

theorem step_cfg (w : World) (e : Ev) : (w.step e).cfg = w.cfg := by
  unfold step
  simp only [apply_ite World.cfg, emit_cfg, apply_cfg, drain_cfg, sweep_cfg, ite_self]

theorem scriptSubmits_sent (evs : List Ev) (w : World) (hl : w.cfg.wlimit = none) :
    (evs.foldl step w).sent = w.sent ++ (scriptSubmits w evs).flatten := by
  induction evs generalizing w with
  | nil => simp [scriptSubmits]
  | cons e es ih =>
    simp only [List.foldl_cons, scriptSubmits]
    rw [ih _ (by rw [step_cfg]; exact hl), step_sent w e hl]
    simp

theorem scriptSubmits_append (a b : List Ev) (w : World) :
    scriptSubmits w (a ++ b) = scriptSubmits w a ++ scriptSubmits (a.foldl step w) b := by
  induction a generalizing w with
  | nil => simp [scriptSubmits]
  | cons e es ih => simp [scriptSubmits, ih]

end World
end Poster
