/-
  Lemmas/WorldStreamDec.lean — every primitive of `World` is a sequence of stream moves (`SMove`, Lemmas/WorldStream.lean):
  the context task (`runLoop`, `pollRun`, `awaitFirst`, `pollConnect`, `pollCtx`), the handle futures (`pollOp`, `dropOp`),
  the streams (`pollStream`), the script events (`apply`), the executor (`drain`, `sweep`) and a whole script step.
-/
import PosterModel.Lemmas.WorldStreamInv
import PosterModel.Properties.C07

set_option linter.unusedVariables false
set_option linter.unusedSimpArgs false

namespace Poster
open Framing
namespace World

/-! ## what the handlers deliver -/

/-- `handle_message` delivers nothing -/
theorem deliversOf_handleMsg (c : Ctx) (m : Msg) (wok : Bool) : deliversOf (c.handleMsg m wok).2.1 = [] := by
  cases m with
  | ff pkt s =>
    simp only [Ctx.handleMsg]
    split
    · rfl
    · split <;> rfl
  | awaitAck aid pkt s =>
    simp only [Ctx.handleMsg]
    split
    · rfl
    · split
      · split
        · rfl
        · split <;> rfl
      · split <;> split <;> rfl
  | subscribe aid sid pkt s ch =>
    simp only [Ctx.handleMsg]
    split <;> rfl

/-- `handle_packet` delivers only into channels whose receiver it was told is alive -/
theorem handlePkt_delivers_alive (c : Ctx) (alive : Nat → Bool) (p : RxPacket) (wok : Bool) :
    ∀ ch q, (ch, q) ∈ deliversOf (c.handlePkt alive p wok).2.1 → alive ch = true := by
  intro ch q h
  cases p with
  | publish pb =>
    obtain ⟨effs0, h1, h2, _⟩ := Ctx.handlePkt_publish c alive pb wok
    rw [h2, deliversOf_append] at h
    rcases List.mem_append.mp h with h | h
    · simp only [deliversOf, List.mem_filterMap] at h
      obtain ⟨e, he, hm⟩ := h
      rcases h1 e he with ⟨c0, rfl, ha⟩ | ⟨c0, rfl, _⟩
      · simp only [Option.some.injEq, Prod.mk.injEq] at hm; rw [← hm.1]; exact ha
      · cases hm
    · cases hp : pb.packetId <;> rw [hp] at h <;> simp [deliversOf] at h
  | puback a => simp [Ctx.handlePkt] at h
  | pubrec a => simp [Ctx.handlePkt] at h
  | pubcomp a => simp [Ctx.handlePkt] at h
  | suback a => simp [Ctx.handlePkt] at h
  | unsuback a => simp [Ctx.handlePkt] at h
  | pingresp => simp [Ctx.handlePkt] at h
  | pubrel a => simp [Ctx.handlePkt, deliversOf] at h
  | connack k => simp [Ctx.handlePkt] at h
  | auth a => simp [Ctx.handlePkt] at h
  | disconnect d => simp [Ctx.handlePkt] at h

theorem chanRxAlive_some (w : World) (ch : Nat) (h : w.chanRxAlive ch = true) : w.chan ch ≠ none := by
  unfold chanRxAlive at h
  cases hv : w.chan ch with
  | none => rw [hv] at h; cases h
  | some c0 => simp

/-- the handler called on the first queued message delivers nothing -/
theorem live_inMsg (w : World) (m : Msg) :
    ∀ ch q, (ch, q) ∈ deliversOf (w.c.stepIn (w.inMsg m)).2.effs → w.chan ch ≠ none := by
  intro ch q h
  rw [stepIn_inMsg] at h
  simp only [CObs.effs, deliversOf_handleMsg] at h
  cases h

/-- the handler called on an inbound packet delivers only into channels that exist -/
theorem live_inPkt (w : World) (p : RxPacket) :
    ∀ ch q, (ch, q) ∈ deliversOf (w.c.stepIn (w.inPkt p)).2.effs → w.chan ch ≠ none := by
  intro ch q h
  rw [stepIn_inPkt] at h
  exact chanRxAlive_some w ch (handlePkt_delivers_alive _ _ _ _ ch q h)

/-! ## the context task -/

/-- a batch of effects applied by the context is one `ctx` move -/
theorem smove_applyEffs (w w0 : World) (src : CtxSrc) (ok : SrcOk w src) (h1 : w0.chans = w.chans)
    (h2 : w0.ops = w.ops) (h3 : w0.out = w.out) (h4 : w0.c = src.after)
    (live : ∀ ch q, (ch, q) ∈ deliversOf src.effs → w.chan ch ≠ none) (hsub : SubFrame w w0) :
    SMove (.ctx src) w (w0.applyEffs src.effs) :=
  .ctx src ok (by rw [applyEffs_chans_eq, h1]) (by simp [h4]) (by simp [h2])
    (sqExt_of_outExt (outExt_trans (outExt_of_eq h3) (applyEffs_outExt w0 _))) live
    (subFrame_trans hsub (subFrame_of_eq (by simp) (by simp) (by simp)))

/-! ### subscription identifiers in flight, under the handlers -/

theorem psids_cons (w : World) (m : Msg) (q : List Msg) (hq : w.queue = m :: q) :
    psids w = m.sid?.toList ++ (q.filterMap Msg.sid? ++ w.c.subs.map (·.1)) := by
  simp only [psids, hq, List.filterMap_cons]
  cases m.sid? <;> rfl

/-- `handle_message` on the first queued message: its subscription identifier (if it is a SUBSCRIBE) moves from the
    queue into the table, or disappears (refused) -/
theorem subFrame_handleMsg (w : World) (m : Msg) (q : List Msg) (hq : w.queue = m :: q) (wok : Bool) :
    SubFrame w ({ w with queue := q, c := (w.c.handleMsg m wok).1 } : World) := by
  have hp := psids_cons w m q hq
  cases m with
  | ff pkt s =>
    have e := (subs_changed_only_by_subscribe_and_dead_receivers w.c).1 (.ff pkt s) wok
      (by intro a b c d e h; cases h)
    refine subFrame_of_psids rfl ?_
    rw [hp]
    simp only [psids, e]
    rfl
  | awaitAck aid pkt s =>
    have e := (subs_changed_only_by_subscribe_and_dead_receivers w.c).1 (.awaitAck aid pkt s) wok
      (by intro a b c d e h; cases h)
    refine subFrame_of_psids rfl ?_
    rw [hp]
    simp only [psids, e]
    rfl
  | subscribe aid sid pkt s ch =>
    by_cases hs : w.c.sizeOk pkt = true
    · have e : (w.c.handleMsg (.subscribe aid sid pkt s ch) wok).1.subs = w.c.subs ++ [(sid, ch)] :=
        (registered_when_subscribe_is_sent w.c aid sid pkt s ch wok hs).1
      have hperm : (psids ({ w with queue := q, c := (w.c.handleMsg (.subscribe aid sid pkt s ch) wok).1 } : World)).Perm
          (psids w) := by
        rw [hp]
        simp only [psids, e, List.map_append, List.map_cons, List.map_nil, Msg.sid?, Option.toList]
        rw [← List.append_assoc]
        exact List.perm_append_comm
      exact ⟨rfl, fun hn => (hperm.nodup_iff).mpr hn, fun x hx => hperm.mem_iff.mp hx⟩
    · have e : (w.c.handleMsg (.subscribe aid sid pkt s ch) wok).1 = w.c := by simp [Ctx.handleMsg, hs]
      refine subFrame_of_sublist rfl ?_
      rw [hp, e]
      exact List.sublist_append_right _ _

/-- `handle_packet`: registrations can only disappear -/
theorem subFrame_handlePkt (w : World) (rx' : Rx) (rd' : List ReadEv) (alive : Nat → Bool) (p : RxPacket)
    (wok : Bool) : SubFrame w ({ w with rx := rx', reader := rd', c := (w.c.handlePkt alive p wok).1 } : World) := by
  refine subFrame_of_sublist rfl ?_
  have hs : (w.c.handlePkt alive p wok).1.subs.Sublist w.c.subs := by
    by_cases hp : ∃ pb, p = .publish pb
    · obtain ⟨pb, rfl⟩ := hp
      exact ((subs_changed_only_by_subscribe_and_dead_receivers w.c).2.2 alive pb wok).1
    · rw [(subs_changed_only_by_subscribe_and_dead_receivers w.c).2.1 alive p wok (fun pb e => hp ⟨pb, e⟩)]
      exact List.Sublist.refl _
  exact List.Sublist.append (List.Sublist.refl _) (hs.map _)

/-- session resumption: the table is kept or emptied -/
theorem subFrame_resume (w : World) : SubFrame w ({ w with c := w.c.resume.1, task := .running true } : World) := by
  refine subFrame_of_sublist rfl ?_
  have hs : w.c.resume.1.subs.Sublist w.c.subs := by
    rcases Ctx.resume_fst_cases w.c with e | e | e <;> rw [e]
    · exact List.Sublist.refl _
    · exact List.Sublist.refl _
    · exact List.nil_sublist _
  exact List.Sublist.append (List.Sublist.refl _) (hs.map _)

theorem sq_ret (call : Call) (r : RetRes) : StreamQuiet (.ret call r) := ⟨nofun, nofun⟩
theorem sq_panic (t : Task) (cls : String) : StreamQuiet (.panic t cls) := ⟨nofun, nofun⟩
theorem sq_done (id : Nat) (r : DoneRes) : StreamQuiet (.done id r) := ⟨nofun, nofun⟩
theorem sq_ev (e : Ev) : StreamQuiet (.ev e) := ⟨nofun, nofun⟩

theorem smove_finish (w : World) (call : Call) (r : RetRes) : SMove .tau w (w.finish call r) :=
  .tau (by simp) (by simp) (opsKeep_of_eq (by simp)) (outExtP_one _ (by simp) (sq_ret call r))

theorem ctxLab_tau : CtxLab .tau := Or.inl rfl
theorem ctxLab_ctx (src : CtxSrc) : CtxLab (.ctx src) := Or.inr ⟨src, rfl⟩

/-- the handler call on the first queued message -/
theorem smove_handler_msg (w : World) (m : Msg) (q : List Msg) (hq : w.queue = m :: q) :
    SMove (.ctx (.handler w.c (w.inMsg m))) w
      (({ w with queue := q, c := (w.c.stepIn (w.inMsg m)).1 } : World).applyEffs (w.c.stepIn (w.inMsg m)).2.effs) :=
  smove_applyEffs w ({ w with queue := q, c := (w.c.stepIn (w.inMsg m)).1 } : World) (.handler w.c (w.inMsg m))
    ⟨rfl, Or.inl ⟨m, q, hq, rfl⟩⟩ rfl rfl rfl rfl (live_inMsg w m) (subFrame_handleMsg w m q hq _)

/-- the handler call on a decoded inbound packet -/
theorem smove_handler_pkt (w : World) (rx' : Rx) (rd' : List ReadEv) (fr : Bytes) (p : RxPacket) (hq : w.queue = [])
    (hpn : pollNext w.rx w.reader = (rx', rd', .item fr)) (hd : decodeRx fr = .ok p) :
    SMove (.ctx (.handler w.c (w.inPkt p))) w
      (({ w with rx := rx', reader := rd', c := (w.c.stepIn (w.inPkt p)).1 } : World).applyEffs
        (w.c.stepIn (w.inPkt p)).2.effs) :=
  smove_applyEffs w ({ w with rx := rx', reader := rd', c := (w.c.stepIn (w.inPkt p)).1 } : World)
    (.handler w.c (w.inPkt p)) ⟨rfl, Or.inr ⟨p, decodeRx_wf_aux fr p hd, hq, rfl, rx', rd', fr, hpn, hd⟩⟩ rfl rfl rfl rfl
    (live_inPkt w p)
    (subFrame_handlePkt w rx' rd' _ p _)

/-- an iteration of the loop that goes on: one handler call -/
theorem runCont_smove {w w1 : World} (h : RunCont w w1) : ∃ i, SMove (.ctx (.handler w.c i)) w w1 := by
  cases h with
  | msg m q w1 hq hr =>
    rw [runHandler_eq_stepIn_msg] at hr
    simp only [Prod.mk.injEq] at hr
    obtain ⟨rfl, _⟩ := hr
    exact ⟨w.inMsg m, smove_handler_msg w m q hq⟩
  | pkt rx' rd' fr p w1 hq hs hp hd hr =>
    rw [runHandler_eq_stepIn_pkt] at hr
    simp only [Prod.mk.injEq] at hr
    obtain ⟨rfl, _⟩ := hr
    exact ⟨w.inPkt p, smove_handler_pkt w rx' rd' fr p hq hp hd⟩

theorem serve_dec {w wm : World} (h : Serve w wm) : Dec CtxLab w wm := by
  induction h with
  | refl w => exact .refl _ w
  | step hc _ ih =>
    obtain ⟨i, hm⟩ := runCont_smove hc
    exact (Dec.one hm (ctxLab_ctx _)).trans ih

theorem runEnd_dec {w r : World} (h : RunEnd w r) : Dec CtxLab w r := by
  cases h with
  | msgExit m q w1 fl hq hr hne =>
    rw [runHandler_eq_stepIn_msg] at hr
    simp only [Prod.mk.injEq] at hr
    obtain ⟨rfl, _⟩ := hr
    exact (Dec.one (smove_handler_msg w m q hq) (ctxLab_ctx _)).trans (.one (smove_finish _ _ _) ctxLab_tau)
  | closed hq hs => exact .one (smove_finish _ _ _) ctxLab_tau
  | pktExit rx' rd' fr p w1 fl hq hs hp hd hr hne =>
    rw [runHandler_eq_stepIn_pkt] at hr
    simp only [Prod.mk.injEq] at hr
    obtain ⟨rfl, _⟩ := hr
    exact (Dec.one (smove_handler_pkt w rx' rd' fr p hq hp hd) (ctxLab_ctx _)).trans
      (.one (smove_finish _ _ _) ctxLab_tau)
  | codec rx' rd' fr hq hs hp hd =>
    have h0 : Dec CtxLab w ({ w with rx := rx', reader := rd' } : World) := Dec.quiet ctxLab_tau rfl rfl rfl rfl
    exact h0.trans (.one (smove_finish _ _ _) ctxLab_tau)
  | panic rx' rd' fr hq hs hp hd =>
    exact .one (.tau rfl rfl (opsKeep_of_eq rfl) (outExtP_one _ rfl (sq_panic _ _))) ctxLab_tau
  | sock rx' rd' hq hs hp =>
    have h0 : Dec CtxLab w ({ w with rx := rx', reader := rd' } : World) := Dec.quiet ctxLab_tau rfl rfl rfl rfl
    exact h0.trans (.one (smove_finish _ _ _) ctxLab_tau)
  | pending rx' rd' hq hs hp =>
    split
    · exact Dec.quiet ctxLab_tau rfl rfl rfl rfl
    · exact Dec.quiet ctxLab_tau (by simp) (by simp) (by simp) (by simp)

theorem runLoop_dec (f : Nat) (w : World) : Dec CtxLab w (runLoop f w) := by
  obtain ⟨wm, hs, he⟩ := runLoop_decomp f w
  rcases he with he | he
  · rw [he]; exact serve_dec hs
  · exact (serve_dec hs).trans (runEnd_dec he)

theorem smove_writeBytes (w : World) (bs : Bytes) : SMove .tau w (w.writeBytes bs) :=
  .tau (by simp) (by simp) (opsKeep_of_eq (by simp)) (sqExt_of_outExt (writeBytes_outExt w bs))

theorem foldl_writeBytes_dec (pkts : List Bytes) (w : World) :
    Dec CtxLab w (pkts.foldl (fun w p => w.writeBytes p) w) := by
  induction pkts generalizing w with
  | nil => exact .refl _ w
  | cons p t ih => exact (Dec.one (smove_writeBytes w p) ctxLab_tau).trans (ih _)

/-- the resume prelude never delivers -/
theorem deliversOf_resume (c : Ctx) : deliversOf c.resume.2.1 = [] := by
  unfold Ctx.resume
  cases c.disc with
  | none => rfl
  | some el =>
    simp only
    split
    · simp only [Ctx.resetSession, deliversOf, List.filterMap_append, List.filterMap_map]
      simp [List.filterMap_eq_nil_iff]
    · rfl

theorem pollRun_dec (w : World) (started : Bool) : Dec CtxLab w (w.pollRun started) := by
  cases started with
  | true => simp only [pollRun, ↓reduceIte]; exact runLoop_dec _ w
  | false =>
    simp only [pollRun, Bool.false_eq_true, ↓reduceIte]
    have h1 : SMove (.ctx (.resume w.c)) w
        (({ w with c := w.c.resume.1, task := .running true } : World).applyEffs w.c.resume.2.1) :=
      smove_applyEffs w ({ w with c := w.c.resume.1, task := .running true } : World) (.resume w.c) rfl rfl rfl rfl rfl (by
        intro ch q h
        have : deliversOf (CtxSrc.resume w.c).effs = [] := deliversOf_resume w.c
        rw [this] at h; cases h) (subFrame_resume w)
    split
    · exact ((Dec.one h1 (ctxLab_ctx _)).trans (foldl_writeBytes_dec _ _)).trans (runLoop_dec _ _)
    · exact ((Dec.one h1 (ctxLab_ctx _)).trans (.one (smove_writeBytes _ _) ctxLab_tau)).trans
        (.one (smove_finish _ _ _) ctxLab_tau)

theorem firstEnd_dec {w : World} {call : Call} {t : ConnectTx} {a : AuthTx} {r : World}
    (h : FirstEnd w call t a r) : Dec CtxLab w r := by
  have hk : ∀ (k : ConnackRx) (rx' : Rx) (rd' : List ReadEv),
      SMove .tau w ({ w with rx := rx', reader := rd', c := w.c.handleConnack k } : World) :=
    fun k rx' rd' => .tau rfl (Ctx.handleConnack_frame w.c k).2.2.1 (opsKeep_of_eq rfl) (outExtP_of_eq rfl)
      (subFrame_of_eq rfl rfl (Ctx.handleConnack_frame w.c k).2.2.1)
  have hq : ∀ (rx' : Rx) (rd' : List ReadEv), SMove .tau w ({ w with rx := rx', reader := rd' } : World) :=
    fun rx' rd' => .quiet rfl rfl rfl rfl
  cases h with
  | connack rx' rd' fr k hp hd hk' hs =>
    exact (Dec.one (hk k rx' rd') ctxLab_tau).trans (.one (smove_finish _ _ _) ctxLab_tau)
  | refused rx' rd' fr k hp hd hk' =>
    exact (Dec.one (hk k rx' rd') ctxLab_tau).trans (.one (smove_finish _ _ _) ctxLab_tau)
  | assertSubId rx' rd' fr k hp hd hk' hs =>
    exact (Dec.one (hk k rx' rd') ctxLab_tau).trans
      (.one (.tau rfl rfl (opsKeep_of_eq rfl) (outExtP_one _ rfl (sq_panic _ _))) ctxLab_tau)
  | auth rx' rd' fr au hp hd =>
    exact (Dec.one (hq rx' rd') ctxLab_tau).trans (.one (smove_finish _ _ _) ctxLab_tau)
  | unexpected rx' rd' fr p hp hd h1 h2 =>
    exact (Dec.one (hq rx' rd') ctxLab_tau).trans (.one (smove_finish _ _ _) ctxLab_tau)
  | codec rx' rd' fr hp hd =>
    exact (Dec.one (hq rx' rd') ctxLab_tau).trans (.one (smove_finish _ _ _) ctxLab_tau)
  | panic rx' rd' fr hp hd =>
    exact .one (.tau rfl rfl (opsKeep_of_eq rfl) (outExtP_one _ rfl (sq_panic _ _))) ctxLab_tau
  | sock rx' rd' hp =>
    exact (Dec.one (hq rx' rd') ctxLab_tau).trans (.one (smove_finish _ _ _) ctxLab_tau)
  | pending rx' rd' hp =>
    split
    · exact Dec.quiet ctxLab_tau rfl rfl rfl rfl
    · exact Dec.quiet ctxLab_tau (by simp) (by simp) (by simp) (by simp)

theorem pollConnect_dec (w : World) (call : Call) (t : ConnectTx) (a : AuthTx) (started : Bool) :
    Dec CtxLab w (w.pollConnect call t a started) := by
  cases started with
  | true => simp only [pollConnect, ↓reduceIte]; exact firstEnd_dec (awaitFirst_spec w call t a)
  | false =>
    have tail : ∀ (w0 : World) (pkt : Bytes), Dec CtxLab w w0 →
        Dec CtxLab w (if w0.canWrite pkt.length then (w0.writeBytes pkt).awaitFirst call t a
          else (w0.writeBytes pkt).finish call (.err .socketClosed)) := by
      intro w0 pkt h0
      split
      · exact (h0.trans (.one (smove_writeBytes _ _) ctxLab_tau)).trans (firstEnd_dec (awaitFirst_spec _ call t a))
      · exact (h0.trans (.one (smove_writeBytes _ _) ctxLab_tau)).trans (.one (smove_finish _ _ _) ctxLab_tau)
    cases call with
    | connect =>
      simp only [pollConnect, Bool.false_eq_true, ↓reduceIte]
      split
      · exact .one (smove_finish _ _ _) ctxLab_tau
      · exact tail _ _ (.one (.tau rfl rfl (opsKeep_of_eq rfl) (outExtP_of_eq rfl)) ctxLab_tau)
    | authorize =>
      simp only [pollConnect, Bool.false_eq_true, ↓reduceIte]
      split
      · exact .one (smove_finish _ _ _) ctxLab_tau
      · exact tail _ _ (.refl _ w)
    | run =>
      simp only [pollConnect, Bool.false_eq_true, ↓reduceIte]
      split
      · exact .one (smove_finish _ _ _) ctxLab_tau
      · exact tail _ _ (.refl _ w)

theorem pollCtx_dec (w : World) : Dec CtxLab w w.pollCtx := by
  unfold pollCtx
  cases w.task with
  | none => exact .refl _ w
  | connecting call t a started => exact pollConnect_dec w call t a started
  | running started => exact pollRun_dec w started

/-! ## the operation table under the moves of Lemmas/WorldOps.lean -/

theorem opsKeep_erase {w w' : World} (id : Nat) (hn : (w.ops.map (·.1)).Nodup) (hex : w.opSt id ≠ none)
    (h : w'.ops = eraseFirst id w.ops) : OpsKeep w w' := by
  intro n
  by_cases hid : n = id
  · subst hid
    right
    refine ⟨hex, fun hd r => ?_⟩
    simp only [opSt, h, Poster.lookupFirst_eraseFirst_self n w.ops hn]
    exact nofun
  · left
    simp only [opSt, h]
    exact Poster.lookupFirst_eraseFirst_ne n id w.ops hid

theorem opsKeep_setWait {w w' : World} (id s : Nat) (k : Wait) (hex : w.opSt id ≠ none)
    (h : w'.ops = setAssoc id (.wait s k) w.ops) : OpsKeep w w' := by
  intro n
  by_cases hid : n = id
  · subst hid
    right
    refine ⟨hex, fun hd r => ?_⟩
    simp only [opSt, h, User.lookupFirst_setAssoc_self]
    exact nofun
  · left
    simp only [opSt, h]
    exact User.lookupFirst_setAssoc_ne id n _ w.ops hid

theorem Move.opsKeep {t : Option Nat} {w w' : World} (m : Move t w w') (hi : OpsInv w) : OpsKeep w w' := by
  cases m with
  | cmsg m q hq queue ops => exact opsKeep_of_eq ops
  | cpkt p aid slot pre post wf haid haw hpre aw queue ops => exact opsKeep_of_eq ops
  | drop queue aw ops => exact opsKeep_of_eq ops
  | finish id st hst ops => exact opsKeep_erase id hi.nodup (by rw [hst]; simp) ops
  | send id st m s k hst shape ops => exact opsKeep_setWait id s k (by rw [hst]; simp) ops

theorem Moves.opsKeep {A : Option Nat → Prop} {w w' : World} (m : Moves A w w') (hi : OpsInv w) : OpsKeep w w' := by
  induction m with
  | refl => exact opsKeep_refl _
  | cons _ hm _ ih => exact opsKeep_trans (hm.opsKeep hi) (ih (hi.move hm))

/-- a step of a handle future logs nothing a stream would log -/
theorem Move.sq_op {id : Nat} {w w' : World} (m : Move (some id) w w') : SQExt w w' := by
  cases m with
  | finish _ st hst ops queue aw pid slots out =>
    rcases out with h | ⟨r, h⟩ | ⟨h, _⟩
    · exact outExtP_of_eq h
    · exact outExtP_one _ h (sq_done _ _)
    · exact outExtP_one _ h (sq_panic _ _)
  | send _ st m s k hst shape ops queue mslot aw pid slotNew slots out => exact outExtP_of_eq out

theorem opLab_tau (id : Nat) : OpLab id .tau := Or.inl rfl
theorem stLab_tau (id : Nat) : StLab id .tau := Or.inl rfl

/-! ## handle futures -/

theorem w8_sendMsg_frame {w w2 : World} {m : Msg} (h : w.sendMsg m = some w2) :
    w2.chans = w.chans ∧ w2.ops = w.ops ∧ w2.out = w.out ∧ w2.c = w.c := by
  rw [sendMsg_eq] at h
  split at h
  · simp only [Option.some.injEq] at h; subst h; exact ⟨rfl, rfl, rfl, rfl⟩
  · cases h

theorem w8_sendMsg_queue {w w2 : World} {m : Msg} (h : w.sendMsg m = some w2) :
    w2.queue = w.queue ++ [m] ∧ w2.subCtr = w.subCtr := by
  rw [sendMsg_eq] at h
  split at h
  · simp only [Option.some.injEq] at h; subst h; exact ⟨rfl, rfl⟩
  · cases h

/-- `w'` has the counter and the identifiers in flight of `w` -/
def SubEq (w w' : World) : Prop := w'.subCtr = w.subCtr ∧ psids w' = psids w

theorem SubEq.frame {w w' : World} (h : SubEq w w') : SubFrame w w' := subFrame_of_psids h.1 h.2

theorem subEq_of_eq {w w' : World} (sc : w'.subCtr = w.subCtr) (q : w'.queue = w.queue) (c : w'.c = w.c) :
    SubEq w w' := ⟨sc, by simp [psids, q, c]⟩

theorem subEq_finishOp (w w0 : World) (id : Nat) (r : DoneRes) (sc : w0.subCtr = w.subCtr) (q : w0.queue = w.queue)
    (c : w0.c = w.c) : SubEq w (w0.finishOp id r) :=
  subEq_of_eq (by simp [sc]) (by simp [q]) (by simp [c])

/-- the tail of a handle method that queues a message which is not a SUBSCRIBE -/
theorem subEq_sendAwait (w w0 : World) (m : Msg) (id s : Nat) (k : Wait) (r : DoneRes) (hm : m.sid? = none)
    (sc : w0.subCtr = w.subCtr) (q : w0.queue = w.queue) (c : w0.c = w.c) :
    SubEq w (match w0.sendMsg m with
      | none => w0.finishOp id r
      | some w1 => w1.awaitSlot id s k) := by
  cases hsm : w0.sendMsg m with
  | none => exact subEq_finishOp w w0 id r sc q c
  | some w1 =>
    obtain ⟨a, b⟩ := w8_sendMsg_queue hsm
    obtain ⟨_, _, _, d⟩ := w8_sendMsg_frame hsm
    refine ⟨by simp [awaitSlot, b, sc], ?_⟩
    simp only [psids, awaitSlot, a, q, d, c, List.filterMap_append, List.filterMap_cons, hm, List.filterMap_nil,
      List.append_nil]

theorem subEq_sendAwait' (w w0 : World) (m : Msg) (id s : Nat) (k : Wait) (hm : m.sid? = none)
    (sc : w0.subCtr = w.subCtr) (q : w0.queue = w.queue) (c : w0.c = w.c) : SubEq w (w0.sendAwait m id s k) :=
  subEq_sendAwait w w0 m id s k _ hm sc q c

/-- every request but `subscribe` allocates no subscription identifier and queues no SUBSCRIBE -/
theorem startOp_subEq_other (w : World) (id : Nat) (req : Req) (h : ∀ t, req ≠ .subscribe t) :
    SubEq w (w.startOp id req) := by
  cases req with
  | publish t =>
    by_cases hq : t.qos = 0
    · rw [User.startOp_publish0 w id t hq]
      split
      · exact subEq_finishOp w w id _ rfl rfl rfl
      · exact subEq_sendAwait' w w _ id _ _ rfl rfl rfl rfl
    · rw [User.startOp_publish12 w id t hq]
      split
      · exact subEq_finishOp w _ id _ rfl rfl rfl
      · exact subEq_sendAwait' w _ _ id _ _ rfl rfl rfl rfl
  | subscribe t => exact absurd rfl (h t)
  | unsubscribe t =>
    rw [User.startOp_unsubscribe]
    split
    · exact subEq_finishOp w _ id _ rfl rfl rfl
    · exact subEq_sendAwait' w _ _ id _ _ rfl rfl rfl rfl
  | ping => rw [User.startOp_ping]; exact subEq_sendAwait' w w _ id _ _ rfl rfl rfl rfl
  | disconnect t => rw [User.startOp_disconnect]; exact subEq_sendAwait' w w _ id _ _ rfl rfl rfl rfl

/-- a resumed handle future allocates no subscription identifier and queues no SUBSCRIBE -/
theorem resumeOp_subEq (w : World) (id s : Nat) (k : Wait) (v : SlotVal) : SubEq w (w.resumeOp id s k v) := by
  have fin : ∀ (w0 : World) (r : DoneRes), w0.subCtr = w.subCtr → w0.queue = w.queue → w0.c = w.c →
      SubEq w (w0.finishOp id r) := fun w0 r a b c => subEq_finishOp w w0 id r a b c
  have pan : SubEq w (({ (w.clearSlot s) with ops := eraseFirst id (w.clearSlot s).ops }).emit
      (.panic (.op id) "unreachable") |>.senderGone) := subEq_of_eq (by simp [clearSlot]) (by simp [clearSlot])
        (by simp [clearSlot])
  cases v with
  | errSize => simp only [resumeOp]; exact fin _ _ rfl rfl rfl
  | errQuota => simp only [resumeOp]; exact fin _ _ rfl rfl rfl
  | unit => simp only [resumeOp]; split <;> exact fin _ _ rfl rfl rfl
  | pkt p =>
    cases k <;> cases p <;> simp only [resumeOp] <;>
      first
      | exact pan
      | exact fin _ _ rfl rfl rfl
      | (split <;> first
          | exact fin _ _ rfl rfl rfl
          | exact subEq_sendAwait w (w.clearSlot s) _ id _ _ _ rfl rfl rfl rfl)

theorem dropOp_subEq (w : World) (id : Nat) : SubEq w (w.dropOp id) := by
  unfold dropOp
  split
  · exact subEq_of_eq rfl rfl rfl
  · exact subEq_of_eq (by simp) (by simp) (by simp)
  · rename_i s k _
    cases k <;> exact subEq_of_eq (by simp [clearSlot, dropChanRx]) (by simp [clearSlot, dropChanRx])
      (by simp [clearSlot, dropChanRx])

theorem newFrame_of_eq {w w' : World} (sc : w'.subCtr = nextSub w.subCtr) (h : psids w' = psids w) : NewFrame w w' :=
  ⟨sc, by rw [h]; exact fun hn _ => hn, by rw [h]; exact fun _ hs => Or.inl hs⟩

theorem newFrame_of_perm {w w' : World} (sc : w'.subCtr = nextSub w.subCtr)
    (h : (psids w').Perm (w.subCtr :: psids w)) : NewFrame w w' := by
  refine ⟨sc, fun hn hne => h.symm.nodup (List.nodup_cons.mpr ⟨fun hm => hne _ hm rfl, hn⟩), fun x hx => ?_⟩
  rcases List.mem_cons.mp (h.mem_iff.mp hx) with e | e
  · exact Or.inr e
  · exact Or.inl e

/-- every request but `subscribe` leaves the channel table alone when first polled -/
theorem startOp_chans_other (w : World) (id : Nat) (req : Req) (h : ∀ t, req ≠ .subscribe t) :
    (w.startOp id req).chans = w.chans := by
  cases req with
  | publish t =>
    by_cases hq : t.qos = 0
    · rw [User.startOp_publish0 w id t hq]; split <;> simp
    · rw [User.startOp_publish12 w id t hq]; split <;> simp [allocPid]
  | subscribe t => exact absurd rfl (h t)
  | unsubscribe t => rw [User.startOp_unsubscribe]; split <;> simp [allocPid]
  | ping => rw [User.startOp_ping]; simp
  | disconnect t => rw [User.startOp_disconnect]; simp

/-- **`subscribe()` first polled**: refused before anything happens; or its channel is created and the message
    queued; or (context gone) the channel is created and dropped again at once -/
theorem startOp_subscribe_dec (w : World) (id hd : Nat) (t : SubscribeTx)
    (hop : w.opSt id = some (.fresh hd (.subscribe t))) (hi : OpsInv w) :
    Dec (OpLab id) w (w.startOp id (.subscribe t)) := by
  have hex : w.opSt id ≠ none := by rw [hop]; simp
  rw [User.startOp_subscribe]
  simp only
  split
  · -- the request cannot be encoded
    exact .one (.alloc id hd (.subscribe t) hop (fun h r => by
          simp only [opSt, User.finishOp_ops, allocPid, allocSub]
          rw [Poster.lookupFirst_eraseFirst_self id w.ops hi.nodup]; exact nofun)
      (opsKeep_erase id hi.nodup hex (by simp [allocPid, allocSub])) (by simp [allocPid, allocSub])
      (by simp [allocPid, allocSub])
      (outExtP_one (.done id (.err .codecError)) (by simp [allocPid, allocSub]) (sq_done _ _))
      (newFrame_of_eq (by simp [allocPid, allocSub, nextSub]) (by simp [psids, allocPid, allocSub])))
      (Or.inr (Or.inr (Or.inr rfl)))
  · cases hm : World.sendMsg _ _ with
    | none =>
      simp only
      -- created, dropped, failed
      let wA : World := { w with chans := setAssoc id {} w.chans, ops := eraseFirst id w.ops,
                                 subCtr := nextSub w.subCtr }
      let wB : World := { wA with chans := eraseFirst id wA.chans }
      have m1 : SMove (.new id) w wA :=
        .new id hd (.subscribe t) hop (fun h r => by
            show lookupFirst id (eraseFirst id w.ops) ≠ _
            rw [Poster.lookupFirst_eraseFirst_self id w.ops hi.nodup]; exact nofun)
          (opsKeep_erase id hi.nodup hex rfl) rfl rfl rfl (newFrame_of_eq rfl rfl)
      have m2 : SMove (.dropRx id) wA wB := .dropRx id rfl rfl (opsKeep_of_eq rfl) rfl
      have m3 : SMove .tau wB ((((w.allocPid.2).allocSub.2.setChan id {}).dropChanRx id).finishOp id
          (.err .contextExited)) :=
        .tau (by simp [allocPid, allocSub, setChan, dropChanRx, wB, wA])
          (by simp [allocPid, allocSub, setChan, dropChanRx, wB, wA])
          (opsKeep_of_eq (by simp [allocPid, allocSub, setChan, dropChanRx, wB, wA]))
          (outExtP_one (.done id (.err .contextExited)) (by simp [allocPid, allocSub, setChan, dropChanRx, wB, wA])
            (sq_done _ _))
          (subFrame_of_eq (by simp [allocPid, allocSub, setChan, dropChanRx, wB, wA, nextSub])
            (by simp [allocPid, allocSub, setChan, dropChanRx, wB, wA])
            (by simp [allocPid, allocSub, setChan, dropChanRx, wB, wA]))
      exact ((Dec.one m1 (Or.inr (Or.inl rfl))).trans (.one m2 (Or.inr (Or.inr (Or.inl rfl))))).trans
        (.one m3 (opLab_tau id))
    | some w2 =>
      simp only
      obtain ⟨a1, a2, a3, a4⟩ := w8_sendMsg_frame hm
      obtain ⟨a5, a6⟩ := w8_sendMsg_queue hm
      refine .one (.new id hd (.subscribe t) hop (fun h r => ?_) (opsKeep_setWait id (2 * id) .suback hex ?_) ?_ ?_ ?_
        (newFrame_of_perm ?_ ?_)) (Or.inr (Or.inl rfl))
      · simp only [opSt, awaitSlot_ops', User.lookupFirst_setAssoc_self]; exact nofun
      · simp [a2, allocPid, allocSub, setChan]
      · simp [awaitSlot, a1, allocPid, allocSub, setChan]
      · simp [awaitSlot, a4, allocPid, allocSub, setChan]
      · simp [awaitSlot, a3, allocPid, allocSub, setChan]
      · simp [awaitSlot, a6, allocPid, allocSub, setChan, nextSub]
      · simp only [psids, awaitSlot, a5, a4, allocPid, allocSub, setChan, List.filterMap_append, List.filterMap_cons,
          Msg.sid?, List.filterMap_nil]
        rw [List.append_assoc]
        exact List.perm_middle

theorem startOp_dec (w : World) (id hd : Nat) (req : Req) (hop : w.opSt id = some (.fresh hd req)) (hi : OpsInv w) :
    Dec (OpLab id) w (w.startOp id req) := by
  by_cases hs : ∃ t, req = .subscribe t
  · obtain ⟨t, rfl⟩ := hs
    exact startOp_subscribe_dec w id hd t hop hi
  · have mv := startOp_move w id hd req hop
    exact .one (.tau (startOp_chans_other w id req (fun t e => hs ⟨t, e⟩)) (by rw [startOp_c])
      (mv.opsKeep hi) mv.sq_op (startOp_subEq_other w id req (fun t e => hs ⟨t, e⟩)).frame) (opLab_tau id)

/-- **one poll of a handle future** -/
theorem pollOp_dec (w : World) (id : Nat) (hi : OpsInv w) : Dec (OpLab id) w (w.pollOp id) := by
  cases hop : w.opSt id with
  | none =>
    have e : w.pollOp id = w := by simp [pollOp, hop]
    rw [e]; exact .refl _ w
  | some st =>
    cases st with
    | fresh hd req =>
      have e : w.pollOp id = w.startOp id req := by simp [pollOp, hop]
      rw [e]; exact startOp_dec w id hd req hop hi
    | wait s k =>
      cases hs : w.slot s with
      | none =>
        have e : w.pollOp id = { w with slotReg := if s ∈ w.slotReg then w.slotReg else w.slotReg ++ [s] } := by
          simp [pollOp, hop, hs]
        rw [e]; exact Dec.quiet (opLab_tau id) rfl rfl rfl rfl
      | some sl =>
        cases sl with
        | empty =>
          have e : w.pollOp id = { w with slotReg := if s ∈ w.slotReg then w.slotReg else w.slotReg ++ [s] } := by
            simp [pollOp, hop, hs]
          rw [e]; exact Dec.quiet (opLab_tau id) rfl rfl rfl rfl
        | full v =>
          have e : w.pollOp id = w.resumeOp id s k v := by simp [pollOp, hop, hs]
          have mv := resumeOp_move w id s k v hop hs
          rw [e]
          exact .one (.tau (User.resumeOp_chans w id s k v) (by rw [resumeOp_c]) (mv.opsKeep hi) mv.sq_op
            (resumeOp_subEq w id s k v).frame) (opLab_tau id)
        | closed =>
          have e : w.pollOp id = (w.clearSlot s).finishOp id (.err .contextExited) := by simp [pollOp, hop, hs]
          rw [e]
          exact .one (.tau (by simp [clearSlot]) (by simp [clearSlot])
            (opsKeep_erase id hi.nodup (by rw [hop]; simp) (by simp [clearSlot]))
            (outExtP_one (.done id (.err .contextExited)) (by simp [clearSlot]) (sq_done _ _))) (opLab_tau id)

/-- **a handle future is dropped**: a `subscribe()` waiting for its SUBACK takes its channel with it -/
theorem dropOp_dec (w : World) (id : Nat) (hi : OpsInv w) : Dec (OpLab id) w (w.dropOp id) := by
  have keep : OpsKeep w (w.dropOp id) := (dropOp_moves w id).opsKeep hi
  have hc : (w.dropOp id).c = w.c := dropOp_c w id
  have ho : (w.dropOp id).out = w.out := (dropOp_rx_out w id).2
  cases hop : w.opSt id with
  | none =>
    have e : w.dropOp id = w := by simp [dropOp, hop]
    rw [e]; exact .refl _ w
  | some st =>
    cases st with
    | fresh hd req =>
      refine .one (.tau ?_ (by rw [hc]) keep (outExtP_of_eq ho) (dropOp_subEq w id).frame) (opLab_tau id)
      simp [dropOp, hop]
    | wait s k =>
      by_cases hk : k = .suback
      · subst hk
        refine .one (.dropRx id ?_ hc keep ho (dropOp_subEq w id).frame) (Or.inr (Or.inr (Or.inl rfl)))
        simp [dropOp, hop, clearSlot, dropChanRx]
      · refine .one (.tau ?_ (by rw [hc]) keep (outExtP_of_eq ho) (dropOp_subEq w id).frame) (opLab_tau id)
        cases k <;> first | exact absurd rfl hk | simp [dropOp, hop, clearSlot]

/-! ## streams -/

/-- **one poll of a stream**: nothing, or it yields the head of its buffer, or parks, or ends -/
theorem pollStream_dec (w : World) (id : Nat) : Dec (StLab id) w (w.pollStream id) := by
  by_cases hs : id ∈ w.streams
  · cases hc : w.chan id with
    | none => rw [User.pollStream_noop w id (Or.inr hc)]; exact .refl _ w
    | some c0 =>
      cases hb : c0.buf with
      | cons p rest =>
        obtain ⟨wk, e⟩ := User.pollStream_item w id c0 p rest hs hc hb
        rw [e]
        exact .one (.pop id p c0 rest hc hb rfl rfl (opsKeep_of_eq rfl) rfl) (Or.inr (Or.inl ⟨p, rfl⟩))
      | nil =>
        cases ht : c0.txAlive with
        | true =>
          rw [User.pollStream_pending w id c0 hs hc hb ht]
          exact .one (.park id c0 hc hb ht rfl rfl (opsKeep_of_eq rfl) rfl) (Or.inr (Or.inr (Or.inl rfl)))
        | false =>
          rw [User.pollStream_end w id c0 hs hc hb ht]
          exact .one (.endS id c0 hc hb ht rfl rfl (opsKeep_of_eq rfl) rfl) (Or.inr (Or.inr (Or.inr rfl)))
  · rw [User.pollStream_noop w id (Or.inl hs)]; exact .refl _ w

theorem taskLab_tau (t : Task) : TaskLab t .tau := by
  cases t with
  | ctx => exact ctxLab_tau
  | op id => exact opLab_tau id
  | st id => exact stLab_tau id

theorem opsInv_unwake (w : World) (t : Task) (hi : OpsInv w) : OpsInv (w.unwake t) := ⟨hi.nodup, hi.shape, hi.pid⟩

/-- **one poll of any task** -/
theorem pollTask_dec (w : World) (t : Task) (hi : OpsInv w) : Dec (TaskLab t) w (w.pollTask t) := by
  have h0 : Dec (TaskLab t) w (w.unwake t) := Dec.quiet (taskLab_tau t) rfl rfl rfl rfl
  cases t with
  | ctx => exact h0.trans (pollCtx_dec _)
  | op id => exact h0.trans (pollOp_dec _ id (opsInv_unwake w _ hi))
  | st id => exact h0.trans (pollStream_dec _ id)

end World
end Poster
