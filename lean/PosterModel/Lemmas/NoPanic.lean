/-
  Lemmas/NoPanic.lean — helper lemmas for C04 (decoder part): no `Decoder::try_decode` advances past the end.

  The only panics of the modelled decoders are `tryDec` / `advanceBy` going past the end of the buffer (and `bytes[0]`
  on an empty frame). `tryDec dec len d` panics iff `dec d = .ok v` with `len v > d.length`; the `*_len` lemmas show
  that every primitive that succeeds has consumed at most what is there.
-/
import PosterModel.Rx

namespace Poster

/-! ## `Res` plumbing -/

theorem Res.bind_ne_panic {α β} {r : Res α} {f : α → Res β} (h1 : r ≠ .panic)
    (h2 : ∀ a, r = .ok a → f a ≠ .panic) : r.bind f ≠ .panic := by
  cases r with
  | ok a => simpa using h2 a rfl
  | err => simp
  | panic => exact absurd rfl h1

theorem Res.map_ne_panic {α β} {r : Res α} {f : α → β} (h : r ≠ .panic) : r.map f ≠ .panic := by
  cases r with
  | ok a => simp [Res.map]
  | err => simp [Res.map]
  | panic => exact absurd rfl h

/-! ## `tryDec` -/

/-- `tryDec` cannot panic when the decoder does not and a successful result is no longer than the buffer. -/
theorem tryDec_ne_panic {α} {dec : Bytes → Res α} {len : α → Nat} {d : Bytes} (hp : dec d ≠ .panic)
    (hl : ∀ v, dec d = .ok v → len v ≤ d.length) : tryDec dec len d ≠ .panic := by
  unfold tryDec
  cases h : dec d with
  | ok v => simp [hl v h]
  | err => simp
  | panic => exact absurd h hp

/-- what a successful `tryDec` says -/
theorem tryDec_ok {α} {dec : Bytes → Res α} {len : α → Nat} {d : Bytes} {v : α} {r : Bytes}
    (h : tryDec dec len d = .ok (v, r)) : dec d = .ok v ∧ len v ≤ d.length ∧ r = d.drop (len v) := by
  unfold tryDec at h
  cases hd : dec d with
  | ok w =>
    rw [hd] at h
    by_cases hl : len w ≤ d.length
    · simp [hl] at h; obtain ⟨rfl, rfl⟩ := h; exact ⟨rfl, hl, rfl⟩
    · simp [hl] at h
  | err => rw [hd] at h; simp at h
  | panic => rw [hd] at h; simp at h

theorem map_tryDec_ok {α β} {dec : Bytes → Res α} {len : α → Nat} {d : Bytes} {g : α × Bytes → β} {w : β}
    (h : (tryDec dec len d).map g = .ok w) :
    ∃ v, dec d = .ok v ∧ len v ≤ d.length ∧ w = g (v, d.drop (len v)) := by
  cases ht : tryDec dec len d with
  | ok p =>
    obtain ⟨v, r⟩ := p
    obtain ⟨h1, h2, h3⟩ := tryDec_ok ht
    rw [ht] at h; simp [Res.map] at h
    exact ⟨v, h1, h2, by rw [← h3]; exact h.symm⟩
  | err => rw [ht] at h; simp [Res.map] at h
  | panic => rw [ht] at h; simp [Res.map] at h

/-! ## primitives: no panic, and `ok v → byteLen v ≤ buffer length` -/

theorem decU8_np (d : Bytes) : decU8 d ≠ .panic := by cases d <;> simp [decU8]
theorem decU8_len {d : Bytes} {v : Nat} (h : decU8 d = .ok v) : 1 ≤ d.length := by
  cases d <;> simp [decU8] at h ⊢

theorem decU16_np (d : Bytes) : decU16 d ≠ .panic := by
  rcases d with _ | ⟨a, _ | ⟨b, t⟩⟩ <;> simp [decU16]
theorem decU16_len {d : Bytes} {v : Nat} (h : decU16 d = .ok v) : 2 ≤ d.length := by
  rcases d with _ | ⟨a, _ | ⟨b, t⟩⟩ <;> simp [decU16] at h ⊢

theorem decU32_np (d : Bytes) : decU32 d ≠ .panic := by
  rcases d with _ | ⟨a, _ | ⟨b, _ | ⟨c, _ | ⟨e, t⟩⟩⟩⟩ <;> simp [decU32]
theorem decU32_len {d : Bytes} {v : Nat} (h : decU32 d = .ok v) : 4 ≤ d.length := by
  rcases d with _ | ⟨a, _ | ⟨b, _ | ⟨c, _ | ⟨e, t⟩⟩⟩⟩ <;> simp [decU32] at h ⊢

theorem decBool_np (d : Bytes) : decBool d ≠ .panic := by
  cases d with
  | nil => simp [decBool]
  | cons b t => simp only [decBool]; split <;> (try split) <;> simp
theorem decBool_len {d : Bytes} {v : Bool} (h : decBool d = .ok v) : 1 ≤ d.length := by
  cases d <;> simp [decBool] at h ⊢

theorem decQoS_np (d : Bytes) : decQoS d ≠ .panic := by
  cases d with
  | nil => simp [decQoS]
  | cons b t => simp only [decQoS]; split <;> simp
theorem decQoS_len {d : Bytes} {v : Nat} (h : decQoS d = .ok v) : 1 ≤ d.length := by
  cases d <;> simp [decQoS] at h ⊢

theorem decNzU16_np (d : Bytes) : decNzU16 d ≠ .panic := by
  unfold decNzU16
  refine Res.bind_ne_panic (decU16_np d) fun n _ => ?_
  split <;> simp
theorem decNzU16_len {d : Bytes} {v : Nat} (h : decNzU16 d = .ok v) : 2 ≤ d.length := by
  unfold decNzU16 at h
  cases hd : decU16 d with
  | ok n => exact decU16_len hd
  | err => rw [hd] at h; simp at h
  | panic => rw [hd] at h; simp at h

theorem decNzU32_np (d : Bytes) : decNzU32 d ≠ .panic := by
  unfold decNzU32
  refine Res.bind_ne_panic (decU32_np d) fun n _ => ?_
  split <;> simp
theorem decNzU32_len {d : Bytes} {v : Nat} (h : decNzU32 d = .ok v) : 4 ≤ d.length := by
  unfold decNzU32 at h
  cases hd : decU32 d with
  | ok n => exact decU32_len hd
  | err => rw [hd] at h; simp at h
  | panic => rw [hd] at h; simp at h

/-- the variable byte integer decoder reports a length no larger than what it has read -/
theorem decVarAux_len {bs : Bytes} {idx mult acc v l : Nat} (h : decVarAux idx mult acc bs = .ok v l) :
    l ≤ idx + bs.length := by
  induction bs generalizing idx mult acc with
  | nil => simp [decVarAux] at h
  | cons b rest ih =>
    simp only [decVarAux] at h
    split at h
    · simp at h
    · split at h
      · split at h
        · simp at h; simp only [List.length_cons]; omega
        · simp at h
      · have := ih h; simp only [List.length_cons]; omega

theorem decVarR_np (d : Bytes) : decVarR d ≠ .panic := by
  unfold decVarR; split <;> simp
theorem decVarR_len {d : Bytes} {p : Nat × Nat} (h : decVarR d = .ok p) : p.2 ≤ d.length := by
  unfold decVarR at h
  split at h
  · rename_i v l hv
    simp at h; subst h
    have := decVarAux_len (show decVarAux 0 1 0 d = .ok v l from hv)
    simpa using this
  · simp at h

theorem decBin_np (d : Bytes) : decBin d ≠ .panic := by
  rcases d with _ | ⟨a, _ | ⟨b, t⟩⟩ <;> simp [decBin]
  split <;> simp
theorem decBin_len {d : Bytes} {s : Bytes} (h : decBin d = .ok s) : strLen s ≤ d.length := by
  rcases d with _ | ⟨a, _ | ⟨b, t⟩⟩ <;> simp only [decBin] at h <;> try (simp at h; done)
  split at h
  · simp at h
  · simp at h; subst h
    simp [strLen, List.length_take]; omega

theorem decStr_np (d : Bytes) : decStr d ≠ .panic := by
  unfold decStr
  refine Res.bind_ne_panic (decBin_np d) fun s _ => ?_
  split <;> simp
theorem decStr_len {d : Bytes} {s : Bytes} (h : decStr d = .ok s) : strLen s ≤ d.length := by
  unfold decStr at h
  cases hd : decBin d with
  | ok s' =>
    rw [hd] at h; simp only [Res.bind_ok] at h
    split at h
    · simp at h; subst h; exact decBin_len hd
    · simp at h
  | err => rw [hd] at h; simp at h
  | panic => rw [hd] at h; simp at h

theorem decPair_np (d : Bytes) : decPair d ≠ .panic := by
  unfold decPair
  refine Res.bind_ne_panic (decStr_np d) fun k _ => ?_
  refine Res.bind_ne_panic (decStr_np _) fun v _ => ?_
  simp
theorem decPair_len {d : Bytes} {p : Bytes × Bytes} (h : decPair d = .ok p) : pairLen p.1 p.2 ≤ d.length := by
  unfold decPair at h
  cases hk : decStr d with
  | ok k =>
    rw [hk] at h; simp only [Res.bind_ok] at h
    cases hv : decStr (d.drop (2 + k.length)) with
    | ok v =>
      rw [hv] at h; simp at h; subst h
      have h1 := decStr_len hk
      have h2 := decStr_len hv
      simp only [strLen, List.length_drop] at h1 h2
      simp only [pairLen]; omega
    | err => rw [hv] at h; simp at h
    | panic => rw [hv] at h; simp at h
  | err => rw [hk] at h; simp at h
  | panic => rw [hk] at h; simp at h

/-! ## the `Decoder` wrappers never panic -/

theorem dU8_np (d : Bytes) : dU8 d ≠ .panic := tryDec_ne_panic (decU8_np d) fun _ h => decU8_len h
theorem dU16_np (d : Bytes) : dU16 d ≠ .panic := tryDec_ne_panic (decU16_np d) fun _ h => decU16_len h
theorem dU32_np (d : Bytes) : dU32 d ≠ .panic := tryDec_ne_panic (decU32_np d) fun _ h => decU32_len h
theorem dBool_np (d : Bytes) : dBool d ≠ .panic := tryDec_ne_panic (decBool_np d) fun _ h => decBool_len h
theorem dQoS_np (d : Bytes) : dQoS d ≠ .panic := tryDec_ne_panic (decQoS_np d) fun _ h => decQoS_len h
theorem dNzU16_np (d : Bytes) : dNzU16 d ≠ .panic := tryDec_ne_panic (decNzU16_np d) fun _ h => decNzU16_len h
theorem dNzU32_np (d : Bytes) : dNzU32 d ≠ .panic := tryDec_ne_panic (decNzU32_np d) fun _ h => decNzU32_len h
theorem dVar_np (d : Bytes) : dVar d ≠ .panic := tryDec_ne_panic (decVarR_np d) fun _ h => decVarR_len h
theorem dNzVar_np (d : Bytes) : dNzVar d ≠ .panic := tryDec_ne_panic (decVarR_np d) fun _ h => decVarR_len h
theorem dBin_np (d : Bytes) : dBin d ≠ .panic := tryDec_ne_panic (decBin_np d) fun _ h => decBin_len h
theorem dStr_np (d : Bytes) : dStr d ≠ .panic := tryDec_ne_panic (decStr_np d) fun _ h => decStr_len h
theorem dPair_np (d : Bytes) : dPair d ≠ .panic := tryDec_ne_panic (decPair_np d) fun _ h => decPair_len h

theorem dReason_np (ok : Nat → Bool) (d : Bytes) : dReason ok d ≠ .panic := by
  unfold dReason
  refine tryDec_ne_panic ?_ ?_
  · refine Res.bind_ne_panic (decU8_np d) fun r _ => ?_
    split <;> simp
  · intro v h
    cases hd : decU8 d with
    | ok n => exact decU8_len hd
    | err => rw [hd] at h; simp at h
    | panic => rw [hd] at h; simp at h

theorem advanceBy_np {n : Nat} {d : Bytes} (h : n ≤ d.length) : advanceBy n d ≠ .panic := by
  simp [advanceBy, h]

/-! ## properties -/

theorem dVal_np (k : PKind) (d : Bytes) : dVal k d ≠ .panic := by
  cases k <;> simp only [dVal] <;> apply Res.map_ne_panic
  · exact dBool_np d
  · exact dU16_np d
  · exact dNzU16_np d
  · exact dU32_np d
  · exact dNzU32_np d
  · exact dQoS_np d
  · exact dNzVar_np d
  · exact dStr_np d
  · exact dBin_np d
  · exact dPair_np d

/-- a successfully decoded property value has the byte length the code computes for it, within the buffer -/
theorem dVal_len {k : PKind} {d : Bytes} {v : PVal} {r : Bytes} (h : dVal k d = .ok (v, r)) :
    valLen v k ≤ d.length := by
  cases k <;> simp only [dVal] at h <;> obtain ⟨x, _, hl, hw⟩ := map_tryDec_ok h <;>
    simp only [Prod.mk.injEq] at hw <;> obtain ⟨rfl, _⟩ := hw <;> simpa [valLen] using hl

theorem decProp_np (d : Bytes) : decProp d ≠ .panic := by
  unfold decProp
  refine Res.bind_ne_panic (dU8_np d) fun ⟨id, r⟩ _ => ?_
  simp only
  split
  · exact Res.map_ne_panic (dVal_np _ _)
  · simp

/-- `Property::try_decode` followed by `advance(byte_len)` stays inside the buffer -/
theorem decProp_len {d : Bytes} {p : Property} (h : decProp d = .ok p) : propLen p ≤ d.length := by
  unfold decProp at h
  cases h8 : dU8 d with
  | ok x =>
    obtain ⟨id, r⟩ := x
    obtain ⟨_, h1, hr⟩ := tryDec_ok h8
    rw [h8] at h; simp only [Res.bind_ok] at h
    split at h
    · rename_i k hk
      cases hv : dVal k r with
      | ok y =>
        obtain ⟨v, r'⟩ := y
        rw [hv] at h; simp [Res.map] at h; subst h
        have := dVal_len hv
        simp only [propLen, hk]
        subst hr; simp only [List.length_drop] at this; omega
      | err => rw [hv] at h; simp [Res.map] at h
      | panic => rw [hv] at h; simp [Res.map] at h
    · simp at h
  | err => rw [h8] at h; simp at h
  | panic => rw [h8] at h; simp at h

theorem dProp_np (d : Bytes) : dProp d ≠ .panic := tryDec_ne_panic (decProp_np d) fun _ h => decProp_len h

theorem foldProps_np {β} (step : β → Property → Option β) (n : Nat) (d : Bytes) (b : β) :
    foldProps step n d b ≠ .panic := by
  induction n generalizing d b with
  | zero => cases d <;> simp [foldProps]
  | succ f ih =>
    cases d with
    | nil => simp [foldProps]
    | cons x t =>
      simp only [foldProps]
      have := dProp_np (x :: t)
      split
      · split
        · exact ih _ _
        · simp
      · simp
      · contradiction

theorem decReasons_np (ok : Nat → Bool) (d : Bytes) : decReasons ok d ≠ .panic := by
  induction d with
  | nil => simp [decReasons]
  | cons b t ih =>
    simp only [decReasons]
    split
    · exact Res.map_ne_panic ih
    · simp

/-! ## packets -/

theorem decConnack_np (bytes : Bytes) : decConnack bytes ≠ .panic := by
  unfold decConnack
  refine Res.bind_ne_panic (dU8_np _) fun ⟨hdr, d⟩ _ => ?_
  simp only; split; · simp
  refine Res.bind_ne_panic (dVar_np _) fun ⟨rl, d⟩ _ => ?_
  simp only; split; · simp
  refine Res.bind_ne_panic (dBool_np _) fun ⟨sp, d⟩ _ => ?_
  refine Res.bind_ne_panic (dReason_np _ _) fun ⟨reason, d⟩ _ => ?_
  refine Res.bind_ne_panic (dVar_np _) fun ⟨pl, d⟩ _ => ?_
  simp only; split; · simp
  exact foldProps_np _ _ _ _

theorem decAuth_np (bytes : Bytes) : decAuth bytes ≠ .panic := by
  unfold decAuth
  refine Res.bind_ne_panic (dU8_np _) fun ⟨hdr, d⟩ _ => ?_
  simp only; split; · simp
  refine Res.bind_ne_panic (dVar_np _) fun ⟨rl, d⟩ _ => ?_
  simp only; split; · simp
  split; · simp
  refine Res.bind_ne_panic (dReason_np _ _) fun ⟨reason, d⟩ _ => ?_
  refine Res.bind_ne_panic (dVar_np _) fun ⟨pl, d⟩ _ => ?_
  simp only; split; · simp
  refine Res.bind_ne_panic (foldProps_np _ _ _ _) fun c _ => ?_
  split <;> simp

theorem decPublish_np (bytes : Bytes) : decPublish bytes ≠ .panic := by
  unfold decPublish
  refine Res.bind_ne_panic (dU8_np _) fun ⟨hdr, d⟩ _ => ?_
  simp only; split; · simp
  split; · simp
  refine Res.bind_ne_panic (dVar_np _) fun ⟨rl, d⟩ _ => ?_
  simp only; split; · simp
  refine Res.bind_ne_panic (dStr_np _) fun ⟨topic, d⟩ _ => ?_
  refine Res.bind_ne_panic ?_ fun ⟨pid, d⟩ _ => ?_
  · simp only; split
    · simp
    · exact Res.map_ne_panic (dNzU16_np _)
  refine Res.bind_ne_panic (dVar_np _) fun ⟨pl, d⟩ _ => ?_
  simp only; split; · simp
  rename_i hpl
  refine Res.bind_ne_panic (foldProps_np _ _ _ _) fun c _ => ?_
  refine Res.bind_ne_panic (advanceBy_np (by omega)) fun d' _ => ?_
  simp

theorem decAck_np (hdr : Nat) (ok : Nat → Bool) (bytes : Bytes) : decAck hdr ok bytes ≠ .panic := by
  unfold decAck
  refine Res.bind_ne_panic (dU8_np _) fun ⟨h, d⟩ _ => ?_
  simp only; split; · simp
  refine Res.bind_ne_panic (dVar_np _) fun ⟨rl, d⟩ _ => ?_
  simp only; split; · simp
  refine Res.bind_ne_panic (dNzU16_np _) fun ⟨pid, d⟩ _ => ?_
  simp only; split; · simp
  refine Res.bind_ne_panic (dReason_np _ _) fun ⟨reason, d⟩ _ => ?_
  simp only; split; · simp
  refine Res.bind_ne_panic (dVar_np _) fun ⟨pl, d⟩ _ => ?_
  simp only; split; · simp
  exact foldProps_np _ _ _ _

theorem decSubackLike_np (hdr : Nat) (ok : Nat → Bool) (bytes : Bytes) : decSubackLike hdr ok bytes ≠ .panic := by
  unfold decSubackLike
  refine Res.bind_ne_panic (dU8_np _) fun ⟨h, d⟩ _ => ?_
  simp only; split; · simp
  refine Res.bind_ne_panic (dVar_np _) fun ⟨rl, d⟩ _ => ?_
  simp only; split; · simp
  refine Res.bind_ne_panic (dNzU16_np _) fun ⟨pid, d⟩ _ => ?_
  refine Res.bind_ne_panic (dVar_np _) fun ⟨pl, d⟩ _ => ?_
  simp only; split; · simp
  refine Res.bind_ne_panic (foldProps_np _ _ _ _) fun c _ => ?_
  refine Res.bind_ne_panic (advanceBy_np (by omega)) fun d' _ => ?_
  refine Res.bind_ne_panic (decReasons_np _ _) fun rs _ => ?_
  simp

theorem decDisconnect_np (bytes : Bytes) : decDisconnect bytes ≠ .panic := by
  unfold decDisconnect
  refine Res.bind_ne_panic (dU8_np _) fun ⟨h, d⟩ _ => ?_
  simp only; split; · simp
  refine Res.bind_ne_panic (dVar_np _) fun ⟨rl, d⟩ _ => ?_
  simp only; split; · simp
  split; · simp
  refine Res.bind_ne_panic (dReason_np _ _) fun ⟨reason, d⟩ _ => ?_
  simp only; split; · simp
  refine Res.bind_ne_panic (dVar_np _) fun ⟨pl, d⟩ _ => ?_
  simp only; split; · simp
  exact foldProps_np _ _ _ _

end Poster
