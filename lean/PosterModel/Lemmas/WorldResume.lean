/-
  Lemmas/WorldResume.lean — helper lemmas of work package W13 (namespace `Poster.World.W13`):
  the prelude of `run()` at the World level (C17, second half) and the way a decoded server packet reaches the caller
  (C02 at the World level).

  C17
  * an EXPIRED session: the effects of `Ctx.resume` are only dropped senders (`Closes`), so the first poll of `run()`
    closes the oneshot of every waiter the session owned and shuts every subscription channel it owned
    (`expired_poll_slot`, `expired_poll_chan`); these facts persist along every later poll of the step (`Polls`,
    `Settled`, `Failed`, `Shut`), and with the executor idle at the end of the step (`afterDrains_idle`) nothing of it is
    left unless the script holds it (`expired_then_polls`, `step_expired_ops`, `step_expired_ops_poll`,
    `step_expired_streams`);
  * a session that has NOT expired: the loop of the first poll starts with every waiter registered (`resent_alive`), and an
    acknowledgement handled by the loop fills the oneshot of the first waiter registered under its action identifier
    (`handlePkt_ack`, `runLoop_ack`, `runLoop_ack_result`); `doneOf` / `pollOp_done`: what the future then returns.
  C02
  * `Awaits`, `runIter_pkt`, `runLoop_pkt_exit`, `pollCtx_disconnect`, `pollCtx_pkt_buffer`; absent properties
    (`find_none_of_legal`, `find_absent`, `users_absent`, `subIds_absent`).
  Concrete worlds and scripts for the non-vacuity examples: `wAck`, `wExp`, `wExp0`, `wExpH`, `wSubExp`, `wWait`, and the
  reconnect script `scrRe` evaluated stage by stage (`wReA`, `wReB`, `wReC`, `scrRe_foldl`, `scrRe_history`).
-/
import PosterModel.Lemmas.WorldOwn
import PosterModel.Lemmas.WorldOwnDrop
import PosterModel.Lemmas.WorldOwnStream
import PosterModel.Lemmas.WorldCtx
import PosterModel.Lemmas.WorldFuel
import PosterModel.Lemmas.WorldFuelScript
import PosterModel.Lemmas.WorldOwnFuel
import PosterModel.Lemmas.WorldEx
import PosterModel.Lemmas.WorldHistEx
import PosterModel.Lemmas.WorldOwnEx
import PosterModel.Lemmas.RxPackets
import PosterModel.Lemmas.WorldRet

set_option linter.unusedVariables false
set_option linter.unusedSimpArgs false

namespace Poster
open Framing
namespace World
namespace W13

/-! ## the prelude on an expired session -/

/-- the prelude of `run()` on an expired session, spelled out -/
theorem resume_expired_eq (c : Ctx) (e : Nat) (hd : c.disc = some e) (hx : c.sessionExpired e = true) :
    c.resume = ({ c with awaiting := [], subs := [], retx := [], inQos2 := [], disc := none },
      c.awaiting.map (fun (x : Nat × Nat) => Eff.dropSlot x.2) ++ c.subs.map (fun (x : Nat × Nat) => Eff.dropChan x.2),
      []) := by
  simp [Ctx.resume, hd, hx, Ctx.resetSession]

/-- a list of effects that only drops senders -/
def OnlyDrops (es : List Eff) : Prop := ∀ e ∈ es, (∃ s, e = Eff.dropSlot s) ∨ (∃ c, e = Eff.dropChan c)

theorem closes_applyEffs (w : World) (es : List Eff) (h : OnlyDrops es) : Closes w (w.applyEffs es) := by
  induction es generalizing w with
  | nil => exact .refl w
  | cons e t ih =>
    rw [applyEffs_cons]
    have ht : OnlyDrops t := fun x hx => h x (List.mem_cons_of_mem _ hx)
    rcases h e List.mem_cons_self with ⟨s, rfl⟩ | ⟨c, rfl⟩
    · exact closes_trans (.slot s (.refl w)) (ih _ ht)
    · exact closes_trans (.chan c (.refl w)) (ih _ ht)

theorem onlyDrops_resume_expired (c : Ctx) (e : Nat) (hd : c.disc = some e) (hx : c.sessionExpired e = true) :
    OnlyDrops c.resume.2.1 := by
  rw [resume_expired_eq c e hd hx]
  intro x hx
  simp only [List.mem_append, List.mem_map] at hx
  rcases hx with ⟨y, _, rfl⟩ | ⟨y, _, rfl⟩
  · exact Or.inl ⟨_, rfl⟩
  · exact Or.inr ⟨_, rfl⟩

/-- the world in which the prelude's effects are applied -/
def pre (w : World) : World := { w with c := w.c.resume.1, task := .running true }

theorem resumed_eq_pre (w : World) : w.resumed = (pre w).applyEffs w.c.resume.2.1 := rfl

theorem closes_resumed (w : World) (e : Nat) (hd : w.c.disc = some e) (hx : w.c.sessionExpired e = true) :
    Closes (pre w) w.resumed :=
  closes_applyEffs _ _ (onlyDrops_resume_expired w.c e hd hx)

/-- the first poll of `run()`, on an expired session: after the prelude nothing is re-sent -/
theorem pollCtx_expired_eq (w : World) (e : Nat) (ht : w.task = .running false) (hd : w.c.disc = some e)
    (hx : w.c.sessionExpired e = true) :
    w.pollCtx = if w.resumed.canWrite 0 then runLoop w.resumed.loopFuel w.resumed
                else (w.resumed.writeBytes []).finish .run (.err .socketClosed) := by
  have h1 : w.pollCtx = w.pollRun false := by simp [pollCtx, ht]
  have h2 : w.c.resume.2.2 = [] := by rw [resume_expired_eq w.c e hd hx]
  rw [h1, pollRun_first_eq]
  simp [resent, h2]

/-- what happens after the prelude is activity of the context -/
theorem hand_after_resumed (w : World) (e : Nat) (ht : w.task = .running false) (hd : w.c.disc = some e)
    (hx : w.c.sessionExpired e = true) : Hand w.resumed w.pollCtx := by
  rw [pollCtx_expired_eq w e ht hd hx]
  split
  · exact hand_runLoop _ _
  · exact hand_trans (hand_writeBytes _ _) (hand_finish _ _ _)

/-- **the oneshot of every waiter of an expired session is closed by the first poll of `run()`** (or keeps the value
    it already had; it is never left `empty`) -/
theorem expired_poll_slot (w : World) (e : Nat) (ht : w.task = .running false) (hd : w.c.disc = some e)
    (hx : w.c.sessionExpired e = true) (aid s : Nat) (hs : (aid, s) ∈ w.c.awaiting) :
    (w.slot s = some .empty → w.pollCtx.slot s = some .closed) ∧
    (w.slot s ≠ some .empty → w.pollCtx.slot s = w.slot s) ∧
    w.pollCtx.slot s ≠ some .empty := by
  have hcl := closes_inv (closes_resumed w e hd hx)
  have hact := (hand_after_resumed w e ht hd hx).act
  have hset : w.resumed.slot s ≠ some .empty := by
    rw [resumed_eq_pre]
    refine applyEffs_settles _ _ s (Or.inr ?_)
    rw [resume_expired_eq w.c e hd hx]
    simp only [List.mem_append, List.mem_map]
    exact Or.inl ⟨(aid, s), hs, rfl⟩
  have hps : (pre w).slot s = w.slot s := rfl
  refine ⟨fun he => ?_, fun hne => ?_, ?_⟩
  · rcases hcl.slotEmpty s (by rw [hps]; exact he) with h | h
    · exact absurd h hset
    · exact hact.slotClosed s h
  · exact (hand_pollCtx w).act.slot_ne_empty s hne
  · rw [hact.slot_ne_empty s hset]; exact hset

/-- **every subscription channel of an expired session loses its sender in the first poll of `run()`**; what was
    buffered right after the prelude is still the channel's content then, and a stream asleep on it is woken -/
theorem expired_poll_chan (w : World) (e : Nat) (ht : w.task = .running false) (hd : w.c.disc = some e)
    (hx : w.c.sessionExpired e = true) (sid ch : Nat) (hs : (sid, ch) ∈ w.c.subs) :
    TxGone w.pollCtx ch ∧
    (∀ c0, w.chan ch = some c0 → ∃ c1, w.resumed.chan ch = some c1 ∧ c1.buf = c0.buf ∧ c1.txAlive = false ∧
      c1.rxAlive = c0.rxAlive) ∧
    (∀ c0, w.chan ch = some c0 → c0.txAlive = true → c0.reg = true → Task.st ch ∈ w.pollCtx.woken) := by
  have hcl := closes_inv (closes_resumed w e hd hx)
  have hact := (hand_after_resumed w e ht hd hx).act
  have hgone : TxGone w.resumed ch := by
    rw [resumed_eq_pre]
    refine applyEffs_txGone _ _ ch ?_
    rw [resume_expired_eq w.c e hd hx]
    simp only [List.mem_append, List.mem_map]
    exact Or.inr ⟨(sid, ch), hs, rfl⟩
  refine ⟨hact.txGone ch hgone, fun c0 hc0 => ?_, fun c0 hc0 hta hr => ?_⟩
  · obtain ⟨c1, e1, e2, e3, _, _, _⟩ := hcl.chanSome ch c0 hc0
    exact ⟨c1, e1, e2, hgone c1 e1, e3⟩
  · rcases hcl.chanWake ch c0 hc0 hr with ⟨c1, e1, e2⟩ | h
    · -- still registered after the prelude is impossible: the sender is gone, so the entry changed
      obtain ⟨c1', e1', _, _, _, _, e6⟩ := hcl.chanSome ch c0 hc0
      rw [e1] at e1'; cases e1'
      have := hgone c1 e1
      -- the drop of the sender resets the registration: use the Closes structure through ChanShut
      have hshut : ChanShut w.resumed ch := by
        rw [resumed_eq_pre, resume_expired_eq w.c e hd hx]
        have : ∀ (l2 : List (Nat × Nat)) (w0 : World), (sid, ch) ∈ l2 →
            ChanShut (w0.applyEffs (l2.map (fun (x : Nat × Nat) => Eff.dropChan x.2))) ch := by
          intro l2
          induction l2 with
          | nil => intro w0 h; simp at h
          | cons x t ih =>
            intro w0 h
            simp only [List.map_cons]
            rw [applyEffs_cons]
            simp only [List.mem_cons] at h
            by_cases hxe : x.2 = ch
            · have hod : OnlyDrops (t.map (fun (x : Nat × Nat) => Eff.dropChan x.2)) := by
                intro y hy; simp only [List.mem_map] at hy; obtain ⟨z, _, rfl⟩ := hy; exact Or.inr ⟨_, rfl⟩
              refine closes_chanShut (closes_applyEffs _ _ hod) ch ?_
              show ChanShut (w0.dropChanTx x.2) ch
              rw [hxe]; exact dropChanTx_chanShut _ _
            · rcases h with h | h
              · exact absurd (by rw [← h]) hxe
              · exact ih _ h
        have happ : ∀ (a b : List Eff) (w0 : World), w0.applyEffs (a ++ b) = (w0.applyEffs a).applyEffs b := by
          intro a b w0; simp [applyEffs, List.foldl_append]
        rw [happ]
        exact this _ _ hs
      exact absurd e2 (by rw [(hshut c1 e1).2]; simp)
    · exact hact.wokenMono _ h

/-! ## polls of the executor -/

/-- `b` is `a` after zero or more polls of tasks: what the executor's drain and sweep do -/
inductive Polls : World → World → Prop
  | refl (w : World) : Polls w w
  | tail {a b : World} (t : Task) : Polls a b → Polls a (b.pollTask t)

theorem polls_trans {a b c : World} (h1 : Polls a b) (h2 : Polls b c) : Polls a c := by
  induction h2 with
  | refl => exact h1
  | tail t _ ih => exact .tail t ih

theorem polls_one (w : World) (t : Task) : Polls w (w.pollTask t) := .tail t (.refl w)

theorem polls_drain (f : Nat) (w : World) : Polls w (drain f w) := by
  induction f generalizing w with
  | zero => exact .refl w
  | succ f ih =>
    simp only [drain]
    split
    · exact .refl w
    · exact polls_trans (polls_one w _) (ih _)

theorem polls_sweep (w : World) : Polls w w.sweep := by
  unfold sweep
  simp only
  generalize ([Task.ctx] ++ List.map Task.op (sortNat (List.map (fun x => x.1) w.ops)) ++
    List.map Task.st (sortNat w.streams)) = tasks
  suffices hh : ∀ (l : List Task) (w0 : World),
      Polls w0 (l.foldl (fun w t => if w.taskLive t ∧ t ∉ w.woken ∧ t ∉ w.held then w.pollTask t else w) w0) from
    hh tasks w
  intro l
  induction l with
  | nil => intro w0; exact .refl w0
  | cons t rest ih =>
    intro w0
    simp only [List.foldl_cons]
    split
    · exact polls_trans (polls_one w0 t) (ih _)
    · exact ih _

/-- a property carried by every poll (in worlds satisfying the ownership invariant) is carried by `Polls` -/
theorem polls_induct (P : World → Prop) (hstep : ∀ w t, OwnInv w → P w → P (w.pollTask t))
    {a b : World} (h : Polls a b) (ho : OwnInv a) (hp : P a) : OwnInv b ∧ P b := by
  induction h with
  | refl => exact ⟨ho, hp⟩
  | tail t _ ih => exact ⟨own_pollTask _ t ih.1, hstep _ t ih.1 ih.2⟩

theorem polls_both {a b : World} (h : Polls a b) (hb : Both a) : Both b := by
  induction h with
  | refl => exact hb
  | tail t _ ih => exact both_pollTask _ t ih

theorem polls_induct_both (P : World → Prop) (hstep : ∀ w t, Both w → P w → P (w.pollTask t))
    {a b : World} (h : Polls a b) (hb : Both a) (hp : P a) : Both b ∧ P b := by
  induction h with
  | refl => exact ⟨hb, hp⟩
  | tail t _ ih => exact ⟨both_pollTask _ t ih.1, hstep _ t ih.1 ih.2⟩

theorem pollTask_out_prefix (w : World) (t : Task) : ∃ added, (w.pollTask t).out = w.out ++ added := by
  cases t with
  | ctx =>
    obtain ⟨a, e⟩ := (W7.Micro.ctx (w.unwake .ctx)).out_prefix
    exact ⟨a, e⟩
  | op id => exact (W7.Micro.user w (.op id) (by simp)).out_prefix
  | st id => exact (W7.Micro.user w (.st id) (by simp)).out_prefix

theorem polls_out_prefix {a b : World} (h : Polls a b) : ∃ added, b.out = a.out ++ added := by
  induction h with
  | refl => exact ⟨[], by simp⟩
  | tail t _ ih =>
    obtain ⟨x, ex⟩ := ih
    obtain ⟨y, ey⟩ := pollTask_out_prefix _ t
    exact ⟨x ++ y, by rw [ey, ex, List.append_assoc]⟩

theorem polls_held {a b : World} (h : Polls a b) : b.held = a.held := by
  induction h with
  | refl => rfl
  | tail t _ ih =>
    rw [← ih]
    cases t with
    | ctx => exact (hand_pollCtx _).act.held_eq
    | op id => simp only [pollTask]; rw [W5.pollOp_held]; rfl
    | st id => simp only [pollTask]; rw [(W5.pollStream_ops_held _ _).2]; rfl

/-! ### what a poll of another task leaves alone -/

/-- a poll of any task but operation `id` itself leaves operation `id` as it is -/
theorem pollTask_opSt_other (w : World) (t : Task) (ho : OwnInv w) (id : Nat) (ht : t ≠ .op id) :
    (w.pollTask t).opSt id = w.opSt id := by
  cases t with
  | ctx =>
    have := (hand_pollCtx (w.unwake .ctx)).act.ops_eq
    show lookupFirst id (w.unwake .ctx).pollCtx.ops = _
    rw [this]; rfl
  | op id' =>
    have f := (own_pollOp_task w id' ho).frame
    exact f.ops id (fun e => ht (by rw [e]))
  | st n =>
    show lookupFirst id ((w.unwake (.st n)).pollStream n).ops = _
    rw [(W7.pollStream_ops_slots _ _).1]; rfl

/-- a oneshot that is not `empty` is only ever touched by a poll of the operation it belongs to -/
theorem pollTask_slot_other (w : World) (t : Task) (ho : OwnInv w) (s : Nat) (ht : t ≠ .op (s / 2))
    (hs : w.slot s ≠ some .empty) : (w.pollTask t).slot s = w.slot s := by
  cases t with
  | ctx => exact (hand_pollCtx (w.unwake .ctx)).act.slot_ne_empty s hs
  | op id' =>
    have f := (own_pollOp_task w id' ho).frame
    exact f.slot s (fun e => ht (by rw [e]))
  | st n =>
    show lookupFirst s ((w.unwake (.st n)).pollStream n).slots = _
    rw [(W7.pollStream_ops_slots _ _).2]; rfl

/-! ### what a poll of a waiting operation does to it -/

theorem finO_opSt (X : World) (id : Nat) (o : Obs) (hn : (X.ops.map (·.1)).Nodup) : (W5.finO X id o).opSt id = none := by
  simp [W5.finO, opSt, lookupFirst_eraseFirst_self _ _ hn]

/-- a poll of a waiting operation: nothing has arrived and it keeps waiting; or its oneshot is settled and it completes,
    or (a QoS 2 publish whose PUBREC was good) goes on to wait for the PUBCOMP on its second oneshot -/
theorem pollOp_wait_cases (w : World) (id s : Nat) (k : Wait) (hn : (w.ops.map (·.1)).Nodup)
    (hop : w.opSt id = some (.wait s k)) :
    ((w.slot s = some .empty ∨ w.slot s = none) ∧ (w.pollOp id).opSt id = some (.wait s k)) ∨
    (((∃ v, w.slot s = some (.full v)) ∨ w.slot s = some .closed) ∧
      ((w.pollOp id).opSt id = none ∨ (w.pollOp id).opSt id = some (.wait (s + 1) .pubcomp))) := by
  cases hs : w.slot s with
  | none =>
    left
    have e : w.pollOp id = { w with slotReg := if s ∈ w.slotReg then w.slotReg else w.slotReg ++ [s] } := by
      simp [pollOp, hop, hs]
    exact ⟨Or.inr rfl, by rw [e]; exact hop⟩
  | some v =>
    cases v with
    | empty =>
      left
      have e : w.pollOp id = { w with slotReg := if s ∈ w.slotReg then w.slotReg else w.slotReg ++ [s] } := by
        simp [pollOp, hop, hs]
      exact ⟨Or.inl rfl, by rw [e]; exact hop⟩
    | closed =>
      right
      refine ⟨Or.inr rfl, Or.inl ?_⟩
      have e : w.pollOp id = (w.clearSlot s).finishOp id (.err .contextExited) := by simp [pollOp, hop, hs]
      rw [e]
      simp [opSt, lookupFirst_eraseFirst_self _ _ hn]
    | full v =>
      right
      refine ⟨Or.inl ⟨v, rfl⟩, ?_⟩
      have e : w.pollOp id = w.resumeOp id s k v := by simp [pollOp, hop, hs]
      rw [e]
      have hn1 : ((w.clearSlot s).ops.map (·.1)).Nodup := by simpa using hn
      rcases W5.resumeOp_shape w id s k v with ⟨o, e1⟩ | ⟨o, e1⟩ | ⟨_, m, e1⟩
      · rw [e1]; exact Or.inl (finO_opSt _ _ _ hn1)
      · rw [e1]; exact Or.inl (finO_opSt _ _ _ (by simpa using hn))
      · rw [e1]
        by_cases hc : (w.clearSlot s).hasCtx = true
        · obtain ⟨wk, qr, e2⟩ := User.sendAwait_ctx (w.clearSlot s) m id (s + 1) .pubcomp hc
          rw [e2]; right
          simp [opSt, lookupFirst_setAssoc_self]
        · rw [User.sendAwait_no_ctx _ _ _ _ _ (by simpa using hc)]
          left
          simp [opSt, lookupFirst_eraseFirst_self _ _ hn]

/-! ### `Settled`: the operation does not hang on its oneshot -/

/-- operation `id`, which waited with kind `k` on the oneshot `s`: it has completed, or still waits there but the
    oneshot is no longer `empty` (so the operation is flagged: `OwnInv.waitDone`), or it has moved on to a later
    oneshot -/
def Settled (id s : Nat) (k : Wait) (w : World) : Prop :=
  w.opSt id = none ∨ (w.opSt id = some (.wait s k) ∧ w.slot s ≠ some .empty) ∨
  (∃ s' k', w.opSt id = some (.wait s' k') ∧ s < s')

theorem settled_pollTask (id s : Nat) (k : Wait) (w : World) (t : Task) (ho : OwnInv w)
    (h : Settled id s k w) : Settled id s k (w.pollTask t) := by
  by_cases ht : t = .op id
  · subst ht
    have hu : ((w.unwake (.op id)).ops.map (·.1)).Nodup := by simpa using ho.nodup
    show Settled id s k ((w.unwake (.op id)).pollOp id)
    rcases h with h | ⟨h1, h2⟩ | ⟨s', k', h1, h2⟩
    · left
      have : (w.unwake (.op id)).pollOp id = w.unwake (.op id) := by
        have : (w.unwake (.op id)).opSt id = none := h
        simp [pollOp, this]
      rw [this]; exact h
    · rcases pollOp_wait_cases (w.unwake (.op id)) id s k hu h1 with ⟨hs, _⟩ | ⟨_, hr | hr⟩
      · exfalso
        rcases hs with hs | hs
        · exact h2 hs
        · exact ho.slotSome id s k h1 hs
      · exact Or.inl hr
      · exact Or.inr (Or.inr ⟨_, _, hr, Nat.lt_succ_self s⟩)
    · rcases pollOp_wait_cases (w.unwake (.op id)) id s' k' hu h1 with ⟨_, hr⟩ | ⟨_, hr | hr⟩
      · exact Or.inr (Or.inr ⟨_, _, hr, h2⟩)
      · exact Or.inl hr
      · exact Or.inr (Or.inr ⟨_, _, hr, Nat.lt_succ_of_lt h2⟩)
  · have e1 := pollTask_opSt_other w t ho id ht
    rcases h with h | ⟨h1, h2⟩ | ⟨s', k', h1, h2⟩
    · exact Or.inl (by rw [e1]; exact h)
    · refine Or.inr (Or.inl ⟨by rw [e1]; exact h1, ?_⟩)
      rw [pollTask_slot_other w t ho s (by rw [(ho.slotOf id s k h1).half]; exact ht) h2]
      exact h2
    · exact Or.inr (Or.inr ⟨s', k', by rw [e1]; exact h1, h2⟩)

theorem settled_polls (id s : Nat) (k : Wait) {a b : World} (h : Polls a b) (ho : OwnInv a)
    (hs : Settled id s k a) : OwnInv b ∧ Settled id s k b :=
  polls_induct (Settled id s k) (fun w t ho' h' => settled_pollTask id s k w t ho' h') h ho hs

/-- a settled operation that is still listed as waiting on `s` is flagged; with an idle executor it is held -/
theorem settled_idle (id s : Nat) (k : Wait) (w : World) (ho : OwnInv w) (h : Settled id s k w)
    (hm : (id, OpSt.wait s k) ∈ w.ops) (hq : w.pick = none) : Task.op id ∈ w.held := by
  have hop := ho.opSt_of_mem hm
  have hne : w.slot s ≠ some .empty := by
    rcases h with h | ⟨_, h⟩ | ⟨s', k', h1, h2⟩
    · rw [hop] at h; cases h
    · exact h
    · rw [hop] at h1; cases h1; exact absurd h2 (Nat.lt_irrefl _)
  exact pick_none_held w _ hq (ho.waitDone id s k hop hne) (by simp [taskLive, hop])

/-! ### `Failed`: the operation fails with `ContextExited` -/

/-- operation `id` waits on the CLOSED oneshot `s`, or `DONE id Err(ContextExited)` has been logged after position `n0` -/
def Failed (id s : Nat) (k : Wait) (n0 : Nat) (w : World) : Prop :=
  n0 ≤ w.out.length ∧
  ((w.opSt id = some (.wait s k) ∧ w.slot s = some .closed) ∨
   ∃ pre post, w.out = pre ++ Obs.done id (.err .contextExited) :: post ∧ n0 ≤ pre.length)

theorem failed_pollTask (id s : Nat) (k : Wait) (n0 : Nat) (w : World) (t : Task) (ho : OwnInv w)
    (h : Failed id s k n0 w) : Failed id s k n0 (w.pollTask t) := by
  obtain ⟨added, eo⟩ := pollTask_out_prefix w t
  obtain ⟨hn0, h⟩ := h
  refine ⟨by rw [eo, List.length_append]; omega, ?_⟩
  rcases h with ⟨h1, h2⟩ | ⟨pre, post, e, hp⟩
  · by_cases ht : t = .op id
    · subst ht
      right
      have hop : (w.unwake (.op id)).opSt id = some (.wait s k) := h1
      have hsl : (w.unwake (.op id)).slot s = some .closed := h2
      have e : (w.pollTask (.op id)).out = w.out ++ [.done id (.err .contextExited)] := by
        show ((w.unwake (.op id)).pollOp id).out = _
        simp [pollOp, hop, hsl]
      exact ⟨w.out, [], e, hn0⟩
    · left
      refine ⟨by rw [pollTask_opSt_other w t ho id ht]; exact h1, ?_⟩
      rw [pollTask_slot_other w t ho s (by rw [(ho.slotOf id s k h1).half]; exact ht) (by rw [h2]; simp)]
      exact h2
  · exact Or.inr ⟨pre, post ++ added, by rw [eo, e]; simp, hp⟩

theorem failed_polls (id s : Nat) (k : Wait) (n0 : Nat) {a b : World} (h : Polls a b) (ho : OwnInv a)
    (hs : Failed id s k n0 a) : OwnInv b ∧ Failed id s k n0 b :=
  polls_induct (Failed id s k n0) (fun w t ho' h' => failed_pollTask id s k n0 w t ho' h') h ho hs

/-- with an idle executor, a failed operation the script does not hold has logged its `DONE` -/
theorem failed_idle (id s : Nat) (k : Wait) (n0 : Nat) (w : World) (ho : OwnInv w) (h : Failed id s k n0 w)
    (hq : w.pick = none) (hh : Task.op id ∉ w.held) :
    ∃ pre post, w.out = pre ++ Obs.done id (.err .contextExited) :: post ∧ n0 ≤ pre.length := by
  rcases h.2 with ⟨h1, h2⟩ | h
  · exfalso
    exact hh (pick_none_held w _ hq (ho.waitDone id s k h1 (by rw [h2]; simp)) (by simp [taskLive, h1]))
  · exact h

/-! ### `Shut`: the stream's channel has lost its sender -/

theorem txGone_pollStream (w : World) (n ch : Nat) (hn : (w.chans.map (·.1)).Nodup) (h : TxGone w ch) :
    TxGone (w.pollStream n) ch := by
  unfold pollStream
  split
  · exact h
  · split
    · exact h
    · rename_i c0 hc0
      have hset : ∀ (c1 : Chan), c1.txAlive = c0.txAlive → TxGone (w.setChan n c1) ch := by
        intro c1 e1 c2 hc2
        simp only [chan, setChan_chans', lookupFirst_setAssoc] at hc2
        split at hc2
        · rename_i e; subst e
          simp only [Option.some.injEq] at hc2; subst hc2
          rw [e1]; exact h c0 hc0
        · exact h c2 hc2
      split
      · rename_i p rest hb
        intro c2 hc2
        simp only [chan, wake_chans, emit_chans] at hc2
        exact hset { c0 with buf := rest } rfl c2 hc2
      · split
        · exact hset { c0 with reg := true } rfl
        · intro c2 hc2
          simp only [chan, emit_chans, dropChanRx_chans'] at hc2
          by_cases e : ch = n
          · subst e
            rw [lookupFirst_eraseFirst_self _ _ hn] at hc2
            cases hc2
          · rw [lookupFirst_eraseFirst_ne _ _ _ e] at hc2
            exact h c2 hc2

/-- the stream `ch`, if it is still there, reads from a channel without a sender -/
def Shut (ch : Nat) (w : World) : Prop := ch ∈ w.streams → TxGone w ch

theorem pollStream_streams_sub (w : World) (n ch : Nat) (h : ch ∈ (w.pollStream n).streams) : ch ∈ w.streams := by
  unfold pollStream at h
  split at h
  · exact h
  · split at h
    · exact h
    · split at h
      · simpa using h
      · split at h
        · simpa using h
        · simp only [emit_streams, dropChanRx_streams, List.mem_filter] at h
          exact h.1

theorem shut_pollTask (ch : Nat) (w : World) (t : Task) (hb : Both w) (h : Shut ch w) : Shut ch (w.pollTask t) := by
  intro hin
  cases t with
  | ctx =>
    have a := (hand_pollCtx (w.unwake .ctx)).act
    have hin' : ch ∈ w.streams := by
      have : (w.unwake .ctx).pollCtx.streams = w.streams := by rw [a.streams_eq]; rfl
      rw [← this]; exact hin
    exact a.txGone ch (h hin')
  | op id' =>
    have f := (own_pollOp_task w id' hb.own).frame
    have hin' : ch ∈ w.streams := by rw [← f.streams_eq]; exact hin
    by_cases e : ch = id'
    · subst e
      have hnone : w.opSt ch = none := hb.str.disjS ch hin'
      have e1 : w.pollTask (.op ch) = w.unwake (.op ch) := by
        show (w.unwake (.op ch)).pollOp ch = _
        have : (w.unwake (.op ch)).opSt ch = none := hnone
        simp [pollOp, this]
      rw [e1]; exact h hin'
    · intro c1 hc1
      have hc1' : ((w.unwake (.op id')).pollOp id').chan ch = some c1 := hc1
      rw [f.chan ch e] at hc1'
      exact h hin' c1 hc1'
  | st n =>
    have hin' : ch ∈ w.streams := by
      have := pollStream_streams_sub (w.unwake (.st n)) n ch hin
      simpa using this
    exact txGone_pollStream (w.unwake (.st n)) n ch (by simpa using hb.own.chanNodup) (h hin')

theorem shut_polls (ch : Nat) {a b : World} (h : Polls a b) (hb : Both a) (hs : Shut ch a) : Both b ∧ Shut ch b :=
  polls_induct_both (Shut ch) (fun w t hb' h' => shut_pollTask ch w t hb' h') h hb hs

/-- with an idle executor, a stream whose channel has no sender is held by the script (otherwise it would have been
    polled to its end) -/
theorem shut_idle (ch : Nat) (w : World) (hb : Both w) (h : Shut ch w) (hin : ch ∈ w.streams) (hq : w.pick = none) :
    Task.st ch ∈ w.held := by
  obtain ⟨c0, hc0, hfl⟩ := hb.str.strOk ch hin
  have hw : Task.st ch ∈ w.woken := by
    rcases hfl with hfl | ⟨_, _, hta⟩
    · exact hfl
    · rw [h hin c0 hc0] at hta; cases hta
  exact pick_none_held w _ hq hw (by simp [taskLive, hin])

/-! ## a script step, seen as polls -/

/-- the world after the drain(s) of a step that starts, after the event was applied, in `w1` -/
def afterDrains (w1 : World) : World :=
  if (drain w1.drainFuel w1).cfg.sweep then
    drain (drain w1.drainFuel w1).sweep.drainFuel (drain w1.drainFuel w1).sweep
  else drain w1.drainFuel w1

theorem step_eq_afterDrains (w : World) (e : Ev) (hb : w.bad = false)
    (hb1 : ((w.emit (.ev e)).apply e).bad = false) :
    w.step e = afterDrains ((w.emit (.ev e)).apply e) ∨
    w.step e = (afterDrains ((w.emit (.ev e)).apply e)).emit .stall := by
  unfold step afterDrains
  simp only [hb, Bool.false_eq_true, ↓reduceIte, hb1]
  split
  · split
    · exact Or.inr rfl
    · exact Or.inl rfl
  · split
    · exact Or.inr rfl
    · exact Or.inl rfl

theorem polls_afterDrains (w1 : World) : Polls w1 (afterDrains w1) := by
  unfold afterDrains
  split
  · exact polls_trans (polls_trans (polls_drain _ _) (polls_sweep _)) (polls_drain _ _)
  · exact polls_drain _ _

theorem drainFuel_succ (w : World) : ∃ f, w.drainFuel = f + 1 :=
  ⟨4 * (w.ops.length + w.streams.length + w.queue.length + evBytes w.reader + w.reader.length + w.rx.valid.length
        + (w.chans.map fun c => c.2.buf.length).sum) + 63, rfl⟩

/-- if the executor's first choice is `t`, the rest of the step is polls from the world after that poll -/
theorem polls_afterDrains_pick (w1 : World) (t : Task) (h : w1.pick = some t) :
    Polls (w1.pollTask t) (afterDrains w1) := by
  obtain ⟨f, hf⟩ := drainFuel_succ w1
  have e : drain w1.drainFuel w1 = drain f (w1.pollTask t) := by rw [hf]; simp [drain, h]
  unfold afterDrains
  rw [e]
  split
  · exact polls_trans (polls_trans (polls_drain _ _) (polls_sweep _)) (polls_drain _ _)
  · exact polls_drain _ _

/-- both drains of a step from a reachable idle world end idle -/
theorem afterDrains_idle (w : World) (e : Ev) (ho : OwnInv w) (hr : RegInv w) (hq : w.pick = none) :
    (afterDrains ((w.emit (.ev e)).apply e)).pick = none := by
  obtain ⟨h1, h2⟩ := W5.step_drains_quiet w e ho hr hq
  unfold afterDrains
  split
  · exact h2
  · exact h1

/-- **an expired session, the first poll of `run()` and the rest of the step**: in a world `w0` (satisfying the
    ownership invariant) in which `run()` has not been polled yet and the session has expired, poll the context and then
    let the executor poll whatever it likes until it is idle (`w2`). Every operation that waited on a oneshot whose
    sender the session owned is then gone, or has moved on, or is held by the script; if its oneshot was `empty` and the
    script does not hold it, `DONE id Err(ContextExited)` was logged after the moment of `w0`. -/
theorem expired_then_polls (w0 w2 : World) (ho : OwnInv w0) (el : Nat) (ht : w0.task = .running false)
    (hd : w0.c.disc = some el) (hx : w0.c.sessionExpired el = true) (hp : Polls (w0.pollTask .ctx) w2)
    (hq : w2.pick = none) (id s : Nat) (k : Wait) (aid : Nat) (hm : (id, OpSt.wait s k) ∈ w0.ops)
    (ha : (aid, s) ∈ w0.c.awaiting) :
    OwnInv w2 ∧ ((id, OpSt.wait s k) ∈ w2.ops → Task.op id ∈ w2.held) ∧
    (w0.slot s = some .empty → Task.op id ∉ w2.held →
      ∃ pre post, w2.out = pre ++ Obs.done id (.err .contextExited) :: post ∧ w0.out.length ≤ pre.length) := by
  have hop := ho.opSt_of_mem hm
  have ht' : (w0.unwake .ctx).task = .running false := ht
  have hd' : (w0.unwake .ctx).c.disc = some el := hd
  have hx' : (w0.unwake .ctx).c.sessionExpired el = true := hx
  obtain ⟨s1, s2, s3⟩ := expired_poll_slot (w0.unwake .ctx) el ht' hd' hx' aid s ha
  have e0 : w0.pollTask .ctx = (w0.unwake .ctx).pollCtx := rfl
  have ho1 : OwnInv (w0.pollTask .ctx) := own_pollTask w0 .ctx ho
  have hop1 : (w0.pollTask .ctx).opSt id = some (.wait s k) := by
    rw [pollTask_opSt_other w0 .ctx ho id (by simp)]; exact hop
  have hset : Settled id s k (w0.pollTask .ctx) := Or.inr (Or.inl ⟨hop1, s3⟩)
  obtain ⟨ho2, hs2⟩ := settled_polls id s k hp ho1 hset
  refine ⟨ho2, fun hm2 => settled_idle id s k w2 ho2 hs2 hm2 hq, fun he hh => ?_⟩
  obtain ⟨added, eo⟩ := pollTask_out_prefix w0 .ctx
  have hf : Failed id s k w0.out.length (w0.pollTask .ctx) :=
    ⟨by rw [eo, List.length_append]; omega, Or.inl ⟨hop1, s1 he⟩⟩
  obtain ⟨_, hf2⟩ := failed_polls id s k _ hp ho1 hf
  exact failed_idle id s k _ w2 ho2 hf2 hq hh

/-- … and every stream that read from a subscription the expired session owned is gone or held by the script -/
theorem expired_then_polls_stream (w0 w2 : World) (hb : Both w0) (el : Nat) (ht : w0.task = .running false)
    (hd : w0.c.disc = some el) (hx : w0.c.sessionExpired el = true) (hp : Polls (w0.pollTask .ctx) w2)
    (hq : w2.pick = none) (sid ch : Nat) (ha : (sid, ch) ∈ w0.c.subs) :
    Both w2 ∧ (ch ∈ w2.streams → Task.st ch ∈ w2.held ∧ TxGone w2 ch) := by
  have ht' : (w0.unwake .ctx).task = .running false := ht
  have hd' : (w0.unwake .ctx).c.disc = some el := hd
  have hx' : (w0.unwake .ctx).c.sessionExpired el = true := hx
  obtain ⟨g, _, _⟩ := expired_poll_chan (w0.unwake .ctx) el ht' hd' hx' sid ch ha
  have hb1 : Both (w0.pollTask .ctx) := both_pollTask w0 .ctx hb
  have hs1 : Shut ch (w0.pollTask .ctx) := fun _ => g
  obtain ⟨hb2, hs2⟩ := shut_polls ch hp hb1 hs1
  exact ⟨hb2, fun hin => ⟨shut_idle ch w2 hb2 hs2 hin hq, hs2 hin⟩⟩

/-- **the step in which `run()` is first polled on an expired session** (operations): from a reachable idle world `w`,
    an event `e` after which the executor's first choice is the context task, whose `run()` has not been polled yet
    and whose session has expired. At the end of the step every operation that waited on a oneshot owned by the session
    is gone, has moved on, or is held by the script; and if its oneshot was `empty` and the script does not hold it, its
    `DONE id Err(ContextExited)` was logged in this step. -/
theorem step_expired_ops (w : World) (e : Ev) (ho : OwnInv w) (hr : RegInv w) (hq : w.pick = none)
    (hb : w.bad = false) (el : Nat) (hb1 : ((w.emit (.ev e)).apply e).bad = false)
    (hp : ((w.emit (.ev e)).apply e).pick = some .ctx)
    (ht : ((w.emit (.ev e)).apply e).task = .running false)
    (hd : ((w.emit (.ev e)).apply e).c.disc = some el)
    (hx : ((w.emit (.ev e)).apply e).c.sessionExpired el = true)
    (id s : Nat) (k : Wait) (aid : Nat) (hm : (id, OpSt.wait s k) ∈ ((w.emit (.ev e)).apply e).ops)
    (ha : (aid, s) ∈ ((w.emit (.ev e)).apply e).c.awaiting) :
    ((id, OpSt.wait s k) ∈ (w.step e).ops → Task.op id ∈ (w.step e).held) ∧
    (((w.emit (.ev e)).apply e).slot s = some .empty → Task.op id ∉ ((w.emit (.ev e)).apply e).held →
      ∃ pre post, (w.step e).out = pre ++ Obs.done id (.err .contextExited) :: post ∧
        ((w.emit (.ev e)).apply e).out.length ≤ pre.length) := by
  generalize hw0 : (w.emit (.ev e)).apply e = w0 at *
  have ho0 : OwnInv w0 := by rw [← hw0]; exact own_apply _ e (own_emit w _ ho)
  have hidle : (afterDrains w0).pick = none := by rw [← hw0]; exact afterDrains_idle w e ho hr hq
  have hpolls := polls_afterDrains_pick w0 .ctx hp
  obtain ⟨_, h1, h2⟩ := expired_then_polls w0 (afterDrains w0) ho0 el ht hd hx hpolls hidle id s k aid hm ha
  have hheld : (afterDrains w0).held = w0.held := by
    rw [polls_held hpolls]
    exact (hand_pollCtx (w0.unwake .ctx)).act.held_eq
  have hstep : w.step e = afterDrains w0 ∨ w.step e = (afterDrains w0).emit .stall := by
    rw [← hw0]; exact step_eq_afterDrains w e hb (by rw [hw0]; exact hb1)
  rcases hstep with hs | hs
  · rw [hs]
    exact ⟨h1, fun he hh => h2 he (by rw [hheld]; exact hh)⟩
  · rw [hs]
    refine ⟨fun hm2 => h1 hm2, fun he hh => ?_⟩
    obtain ⟨pre, post, e1, e2⟩ := h2 he (by rw [hheld]; exact hh)
    exact ⟨pre, post ++ [.stall], by simp [emit, e1], e2⟩

/-- … and streams: every stream reading from a subscription the expired session owned has ended by the end of the
    step, unless the script holds it; in any case its channel has no sender any more -/
theorem step_expired_streams (w : World) (e : Ev) (hbo : Both w) (hf : opFresh w e) (hr : RegInv w)
    (hq : w.pick = none) (hb : w.bad = false) (el : Nat) (hb1 : ((w.emit (.ev e)).apply e).bad = false)
    (hp : ((w.emit (.ev e)).apply e).pick = some .ctx)
    (ht : ((w.emit (.ev e)).apply e).task = .running false)
    (hd : ((w.emit (.ev e)).apply e).c.disc = some el)
    (hx : ((w.emit (.ev e)).apply e).c.sessionExpired el = true)
    (sid ch : Nat) (ha : (sid, ch) ∈ ((w.emit (.ev e)).apply e).c.subs) :
    ch ∈ (w.step e).streams → Task.st ch ∈ (w.step e).held ∧ TxGone (w.step e) ch := by
  have hbo0 : Both ((w.emit (.ev e)).apply e) := both_apply _ e (both_emit w _ hbo) (opFresh_emit w _ e hf)
  have hidle := afterDrains_idle w e hbo.own hr hq
  have hstep := step_eq_afterDrains w e hb hb1
  generalize hw0 : (w.emit (.ev e)).apply e = w0 at *
  have hpolls := polls_afterDrains_pick w0 .ctx hp
  obtain ⟨_, h1⟩ := expired_then_polls_stream w0 (afterDrains w0) hbo0 el ht hd hx hpolls hidle sid ch ha
  rcases hstep with hs | hs
  · rw [hs]; exact h1
  · rw [hs]
    intro hin
    obtain ⟨a, b⟩ := h1 hin
    exact ⟨a, b⟩

/-- the same when the script itself polls the context task (`POLL ctx`, e.g. while the task is held back): the poll of the
    event is that first poll of `run()` -/
theorem step_expired_ops_poll (w : World) (ho : OwnInv w) (hr : RegInv w) (hq : w.pick = none)
    (hb : w.bad = false) (el : Nat) (ht : w.task = .running false) (hd : w.c.disc = some el)
    (hx : w.c.sessionExpired el = true)
    (id s : Nat) (k : Wait) (aid : Nat) (hm : (id, OpSt.wait s k) ∈ w.ops) (ha : (aid, s) ∈ w.c.awaiting) :
    ((id, OpSt.wait s k) ∈ (w.step (.poll .ctx)).ops → Task.op id ∈ (w.step (.poll .ctx)).held) ∧
    (w.slot s = some .empty → Task.op id ∉ w.held →
      ∃ pre post, (w.step (.poll .ctx)).out = pre ++ Obs.done id (.err .contextExited) :: post ∧
        w.out.length + 1 ≤ pre.length) := by
  have hlive : (w.emit (.ev (.poll .ctx))).taskLive .ctx = true := by simp [taskLive, ht]
  have happ : (w.emit (.ev (.poll .ctx))).apply (.poll .ctx) = (w.emit (.ev (.poll .ctx))).pollTask .ctx := by
    simp [apply, hlive]
  have ho0 : OwnInv (w.emit (.ev (.poll .ctx))) := own_emit w _ ho
  have hb1 : ((w.emit (.ev (.poll .ctx))).apply (.poll .ctx)).bad = false := by
    rw [happ, pollTask_bad _ _ ho0]; exact hb
  have hidle := afterDrains_idle w (.poll .ctx) ho hr hq
  have hstep := step_eq_afterDrains w (.poll .ctx) hb hb1
  have hpolls := polls_afterDrains ((w.emit (.ev (.poll .ctx))).apply (.poll .ctx))
  rw [happ] at hidle hstep hpolls
  generalize hw2 : afterDrains ((w.emit (.ev (.poll .ctx))).pollTask .ctx) = w2 at *
  obtain ⟨_, h1, h2⟩ := expired_then_polls (w.emit (.ev (.poll .ctx))) w2 ho0 el ht hd hx hpolls hidle id s k aid hm ha
  have hheld : w2.held = w.held := by
    rw [polls_held hpolls]
    exact (hand_pollCtx ((w.emit (.ev (.poll .ctx))).unwake .ctx)).act.held_eq
  have hlen : (w.emit (.ev (.poll .ctx))).out.length = w.out.length + 1 := by simp [emit]
  rcases hstep with hs | hs
  · rw [hs]
    refine ⟨h1, fun he hh => ?_⟩
    obtain ⟨pre, post, e1, e2⟩ := h2 he (by rw [hheld]; exact hh)
    exact ⟨pre, post, e1, by rw [← hlen]; exact e2⟩
  · rw [hs]
    refine ⟨fun hm2 => h1 hm2, fun he hh => ?_⟩
    obtain ⟨pre, post, e1, e2⟩ := h2 he (by rw [hheld]; exact hh)
    exact ⟨pre, post ++ [.stall], by simp [emit, e1], by rw [← hlen]; exact e2⟩

theorem goodFrom_append (a b : List Ev) (w : World) :
    GoodFrom w (a ++ b) ↔ GoodFrom w a ∧ GoodFrom (a.foldl step w) b := by
  induction a generalizing w with
  | nil => simp [GoodFrom]
  | cons e t ih => simp only [List.cons_append, GoodFrom, List.foldl_cons, ih, and_assoc]

/-! ## a session that has not expired: the waiters are kept and an acknowledgement completes the original future -/

/-- the prelude of `run()` on a session that has not expired, spelled out -/
theorem resume_alive_eq (c : Ctx) (e : Nat) (hd : c.disc = some e) (hx : c.sessionExpired e = false) :
    c.resume = ({ c with disc := none }, [], c.retx.map (·.2)) := by
  simp [Ctx.resume, hd, hx]

theorem foldl_writeBytes_keeps (pkts : List Bytes) (w : World) :
    (pkts.foldl (fun w p => w.writeBytes p) w).c = w.c ∧ (pkts.foldl (fun w p => w.writeBytes p) w).ops = w.ops ∧
    (pkts.foldl (fun w p => w.writeBytes p) w).slots = w.slots ∧
    (pkts.foldl (fun w p => w.writeBytes p) w).slotReg = w.slotReg ∧
    (pkts.foldl (fun w p => w.writeBytes p) w).queue = w.queue ∧
    (pkts.foldl (fun w p => w.writeBytes p) w).reader = w.reader ∧
    (pkts.foldl (fun w p => w.writeBytes p) w).rx = w.rx ∧
    (pkts.foldl (fun w p => w.writeBytes p) w).handles = w.handles ∧
    (pkts.foldl (fun w p => w.writeBytes p) w).chans = w.chans ∧
    (pkts.foldl (fun w p => w.writeBytes p) w).task = w.task ∧
    (pkts.foldl (fun w p => w.writeBytes p) w).woken = w.woken := by
  induction pkts generalizing w with
  | nil => simp
  | cons p t ih =>
    simp only [List.foldl_cons]
    obtain ⟨a1, a2, a3, a4, a5, a6, a7, a8, a9, a10, a11⟩ := ih (w.writeBytes p)
    refine ⟨?_, ?_, ?_, ?_, ?_, ?_, ?_, ?_, ?_, ?_, ?_⟩
    · rw [a1]; simp
    · rw [a2]; simp
    · rw [a3]; simp
    · rw [a4]; simp
    · rw [a5]; simp
    · rw [a6]; simp
    · rw [a7]; simp
    · rw [a8]; simp
    · rw [a9]; simp
    · rw [a10]; simp
    · rw [a11]; simp

/-- **after the prelude on a live session everything the callers wait for is still registered**: the world in which
    the loop of the first poll starts (`w.resent`: prelude done, unfinished handshakes re-sent) has the context of `w`
    with only the recorded disconnection cleared — same waiters, subscriptions, retransmit queue, quota —, and the
    operations, oneshots, registered wakers, message queue, transport input and flags of `w` -/
theorem resent_alive (w : World) (e : Nat) (hd : w.c.disc = some e) (hx : w.c.sessionExpired e = false) :
    w.resent.c = { w.c with disc := none } ∧ w.resent.ops = w.ops ∧ w.resent.slots = w.slots ∧
    w.resent.slotReg = w.slotReg ∧ w.resent.queue = w.queue ∧ w.resent.reader = w.reader ∧ w.resent.rx = w.rx ∧
    w.resent.handles = w.handles ∧ w.resent.chans = w.chans ∧ w.resent.task = .running true ∧
    w.resent.woken = w.woken := by
  have hr := resume_alive_eq w.c e hd hx
  have h0 : w.resumed = { w with c := { w.c with disc := none }, task := .running true } := by
    unfold resumed; rw [hr]; rfl
  obtain ⟨a1, a2, a3, a4, a5, a6, a7, a8, a9, a10, a11⟩ := foldl_writeBytes_keeps w.c.resume.2.2 w.resumed
  unfold resent
  rw [a1, a2, a3, a4, a5, a6, a7, a8, a9, a10, a11, h0]
  exact ⟨rfl, rfl, rfl, rfl, rfl, rfl, rfl, rfl, rfl, rfl, rfl⟩

/-- the first poll of `run()` on a live session: the loop runs from `w.resent` (if the transport takes the re-sent
    packets) -/
theorem pollCtx_alive_eq (w : World) (ht : w.task = .running false)
    (hw : w.resumed.canWrite ((w.c.resume.2.2.map List.length).sum) = true) :
    w.pollCtx = runLoop w.resent.loopFuel w.resent := by
  have h1 : w.pollCtx = w.pollRun false := by simp [pollCtx, ht]
  rw [h1, pollRun_first_eq, if_pos hw]

/-- `handle_packet` on an acknowledgement whose action identifier has a registered waiter: exactly that waiter (the
    first one registered under the identifier) is sent the packet, nothing is written, the loop goes on -/
theorem handlePkt_ack (c : Ctx) (alive : Nat → Bool) (p : RxPacket) (wok : Bool) (aid s : Nat)
    (haid : rxActionId p = some aid) (hrel : ∀ a, p ≠ .pubrel a) (hl : lookupFirst aid c.awaiting = some s) :
    (c.handlePkt alive p wok).2.1 = [.send s (.pkt p)] ∧ (c.handlePkt alive p wok).2.2 = .cont ∧
    (c.handlePkt alive p wok).1.awaiting = eraseFirst aid c.awaiting := by
  have key : ∀ (c1 : Ctx) (r : Ctx × List Eff × Flow), c1.awaiting = c.awaiting →
      r = ((c1.complete aid p).1, (c1.complete aid p).2, Flow.cont) →
      r.2.1 = [.send s (.pkt p)] ∧ r.2.2 = .cont ∧ r.1.awaiting = eraseFirst aid c.awaiting := by
    intro c1 r h1 hr
    subst hr
    refine ⟨?_, rfl, ?_⟩
    · show (c1.complete aid p).2 = _
      rw [Ctx.complete_snd, h1, hl]
    · show (c1.complete aid p).1.awaiting = _
      rw [Ctx.complete_fst, h1]
  cases p with
  | publish pb => simp [rxActionId] at haid
  | connack k => simp [rxActionId] at haid
  | auth a => simp [rxActionId] at haid
  | disconnect d => simp [rxActionId] at haid
  | pubrel a => exact absurd rfl (hrel a)
  | puback a =>
    simp only [rxActionId, Option.some.injEq] at haid; subst haid
    exact key { c.bump with retx := eraseFirst (actionId 4 a.packetId) c.retx } _ (by simp) rfl
  | pubrec a =>
    simp only [rxActionId, Option.some.injEq] at haid; subst haid
    exact key { (if a.reason ≥ 128 then c.bump else c) with
                retx := eraseFirst (actionId 5 a.packetId) (if a.reason ≥ 128 then c.bump else c).retx } _
      (by simp only []; split <;> simp) rfl
  | pubcomp a =>
    simp only [rxActionId, Option.some.injEq] at haid; subst haid
    exact key { c.bump with retx := eraseFirst (actionId 7 a.packetId) c.retx } _ (by simp) rfl
  | suback a =>
    simp only [rxActionId, Option.some.injEq] at haid; subst haid
    exact key c _ rfl rfl
  | unsuback a =>
    simp only [rxActionId, Option.some.injEq] at haid; subst haid
    exact key c _ rfl rfl
  | pingresp =>
    simp only [rxActionId, Option.some.injEq] at haid; subst haid
    exact key c _ rfl rfl

/-- **one turn of the loop on an acknowledgement**: with nothing queued, a live handle and the next frame decoding
    to the acknowledgement `p` whose action identifier `aid` has `s` as its first registered waiter, the loop sends `p`
    to the oneshot `s` and goes on -/
theorem runLoop_ack (f : Nat) (w : World) (rx' : Rx) (rd' : List ReadEv) (fr : Bytes) (p : RxPacket) (aid s : Nat)
    (hq : w.queue = []) (hsn : w.senders ≠ 0) (hp : pollNext w.rx w.reader = (rx', rd', .item fr))
    (hdec : decodeRx fr = .ok p) (haid : rxActionId p = some aid) (hrel : ∀ a, p ≠ .pubrel a)
    (hl : lookupFirst aid w.c.awaiting = some s) :
    runLoop (f + 1) w =
      runLoop f (({ w with rx := rx', reader := rd', c := (w.c.handlePkt w.chanRxAlive p true).1 } : World).sendSlot s
        (.pkt p)) := by
  have hh : ∀ wok, w.c.handlePkt w.chanRxAlive p wok = w.c.handlePkt w.chanRxAlive p true := by
    intro wok
    obtain ⟨a1, a2, a3⟩ := handlePkt_ack w.c w.chanRxAlive p wok aid s haid hrel hl
    cases p <;> first
      | (simp [rxActionId] at haid; done)
      | (exact absurd rfl (hrel _))
      | rfl
  obtain ⟨a1, a2, _⟩ := handlePkt_ack w.c w.chanRxAlive p true aid s haid hrel hl
  have hr : (({ w with rx := rx', reader := rd' } : World).runHandler (fun wok => w.c.handlePkt w.chanRxAlive p wok)) =
      ((({ w with rx := rx', reader := rd', c := (w.c.handlePkt w.chanRxAlive p true).1 } : World).sendSlot s (.pkt p)),
        Flow.cont) := by
    rw [runHandler_eq]
    simp only [hh, a1, a2]
    rfl
  have hs0 : ¬ (w.senders = 0) := hsn
  have hi : runIter w = .inl (({ w with rx := rx', reader := rd', c := (w.c.handlePkt w.chanRxAlive p true).1 } :
      World).sendSlot s (.pkt p)) := by
    rcases runIter_spec w with ⟨w1, h1, hc⟩ | ⟨r, h1, he⟩
    · rw [h1]
      cases hc with
      | msg m q w1 hq' _ => rw [hq] at hq'; cases hq'
      | pkt rx2 rd2 fr2 p2 w1 _ _ hp2 hd2 hr2 =>
        rw [hp] at hp2
        simp only [Prod.mk.injEq, Out.item.injEq] at hp2
        obtain ⟨rfl, rfl, rfl⟩ := hp2
        rw [hdec] at hd2
        simp only [Res.ok.injEq] at hd2
        subst hd2
        rw [hr] at hr2
        simp only [Prod.mk.injEq, and_true] at hr2
        rw [hr2]
    · exfalso
      cases he with
      | msgExit m q w1 fl hq' _ _ => rw [hq] at hq'; cases hq'
      | closed _ hs' => exact hsn hs'
      | pktExit rx2 rd2 fr2 p2 w1 fl _ _ hp2 hd2 hr2 hne =>
        rw [hp] at hp2
        simp only [Prod.mk.injEq, Out.item.injEq] at hp2
        obtain ⟨rfl, rfl, rfl⟩ := hp2
        rw [hdec] at hd2
        simp only [Res.ok.injEq] at hd2
        subst hd2
        rw [hr] at hr2
        simp only [Prod.mk.injEq] at hr2
        exact hne hr2.2.symm
      | codec rx2 rd2 fr2 _ _ hp2 hd2 =>
        rw [hp] at hp2
        simp only [Prod.mk.injEq, Out.item.injEq] at hp2
        obtain ⟨rfl, rfl, rfl⟩ := hp2
        rw [hdec] at hd2; cases hd2
      | panic rx2 rd2 fr2 _ _ hp2 hd2 =>
        rw [hp] at hp2
        simp only [Prod.mk.injEq, Out.item.injEq] at hp2
        obtain ⟨rfl, rfl, rfl⟩ := hp2
        rw [hdec] at hd2; cases hd2
      | sock rx2 rd2 _ _ hp2 => rw [hp] at hp2; simp at hp2
      | pending rx2 rd2 _ _ hp2 => rw [hp] at hp2; simp at hp2
  rw [runLoop_succ, hi]

/-- … after which the oneshot holds `p` for the rest of the poll, the operation waiting on it is untouched and — its
    waker being registered — flagged for the executor -/
theorem runLoop_ack_result (f : Nat) (w : World) (rx' : Rx) (rd' : List ReadEv) (fr : Bytes) (p : RxPacket)
    (aid s : Nat) (hq : w.queue = []) (hsn : w.senders ≠ 0) (hp : pollNext w.rx w.reader = (rx', rd', .item fr))
    (hdec : decodeRx fr = .ok p) (haid : rxActionId p = some aid) (hrel : ∀ a, p ≠ .pubrel a)
    (hl : lookupFirst aid w.c.awaiting = some s) (hs : w.slot s = some .empty) :
    (runLoop (f + 1) w).slot s = some (.full (.pkt p)) ∧ (runLoop (f + 1) w).ops = w.ops ∧
    (s ∈ w.slotReg → Task.op (s / 2) ∈ (runLoop (f + 1) w).woken) := by
  rw [runLoop_ack f w rx' rd' fr p aid s hq hsn hp hdec haid hrel hl]
  generalize hw0 : ({ w with rx := rx', reader := rd', c := (w.c.handlePkt w.chanRxAlive p true).1 } : World) = w0
  have hs0 : w0.slot s = some .empty := by rw [← hw0]; exact hs
  have hact := (hand_runLoop f (w0.sendSlot s (.pkt p))).act
  have h1 : (w0.sendSlot s (.pkt p)).slot s = some (.full (.pkt p)) := by
    rw [sendSlot_eq, if_pos hs0]; simp [slot, lookupFirst_setAssoc_self]
  refine ⟨hact.slotFull s _ h1, ?_, fun hr => ?_⟩
  · rw [hact.ops_eq, (actInv_sendSlot w0 s (.pkt p)).ops_eq, ← hw0]
  · apply hact.wokenMono
    rcases (actInv_sendSlot w0 s (.pkt p)).slotEmpty s hs0 with ⟨e, _⟩ | ⟨_, _, wk⟩
    · rw [h1] at e; cases e
    · exact wk (by rw [← hw0]; exact hr)

/-! ## what a future returns for the acknowledgement found in its oneshot -/

/-- the result with which a future waiting for `k` completes when resumed with the packet `p` (`none`: it does not
    complete in that poll — a QoS 2 publish whose PUBREC is good goes on with the PUBREL — or `p` is not the
    acknowledgement `k` waits for) -/
def doneOf : Wait → RxPacket → Option DoneRes
  | .puback, .puback a =>
    some (if a.reason ≥ 128 then .errAck .pubackError a.reason a.reasonString a.userProps else .ok)
  | .pubrec, .pubrec a =>
    if a.reason ≥ 128 then some (.errAck .pubrecError a.reason a.reasonString a.userProps) else none
  | .pubcomp, .pubcomp a =>
    some (if a.reason ≥ 128 then .errAck .pubcompError a.reason a.reasonString a.userProps else .ok)
  | .suback, .suback a => some (.okAck false a.reasonString a.userProps a.payload)
  | .unsuback, .unsuback a => some (.okAck true a.reasonString a.userProps a.payload)
  | .pingresp, .pingresp => some .ok
  | _, _ => none

/-- a future whose oneshot holds the acknowledgement it waits for completes, at its next poll, with exactly the result
    built from that packet, and leaves the table -/
theorem pollOp_done (w : World) (id s : Nat) (k : Wait) (p : RxPacket) (r : DoneRes)
    (hop : w.opSt id = some (.wait s k)) (hs : w.slot s = some (.full (.pkt p))) (hr : doneOf k p = some r) :
    w.pollOp id = w.resumeOp id s k (.pkt p) ∧ (w.pollOp id).out = w.out ++ [.done id r] ∧
    (w.pollOp id).ops = eraseFirst id w.ops := by
  have e : w.pollOp id = w.resumeOp id s k (.pkt p) := by simp [pollOp, hop, hs]
  refine ⟨e, ?_⟩
  rw [e]
  cases k <;> cases p <;> simp only [doneOf] at hr <;> try (cases hr; done)
  · rename_i a
    simp only [Option.some.injEq] at hr; subst hr
    simp only [resumeOp, ackErr]; split <;> simp [clearSlot, *]
  · rename_i a
    split at hr
    · rename_i h128
      simp only [Option.some.injEq] at hr; subst hr
      simp [resumeOp, ackErr, h128, clearSlot]
    · cases hr
  · rename_i a
    simp only [Option.some.injEq] at hr; subst hr
    simp only [resumeOp, ackErr]; split <;> simp [clearSlot, *]
  · rename_i a
    simp only [Option.some.injEq] at hr; subst hr
    simp [resumeOp, clearSlot]
  · rename_i a
    simp only [Option.some.injEq] at hr; subst hr
    simp [resumeOp, clearSlot]
  · simp only [Option.some.injEq] at hr; subst hr
    simp [resumeOp, clearSlot]

/-- a QoS 2 publish resumed with a good PUBREC goes on: it queues the PUBREL, registered under the PUBCOMP's action
    identifier, and waits on its second oneshot (nothing is logged) -/
theorem pollOp_pubrec_goes_on (w : World) (id s : Nat) (a : AckRx) (hop : w.opSt id = some (.wait s .pubrec))
    (hs : w.slot s = some (.full (.pkt (.pubrec a)))) (ha : a.reason < 128) (hc : w.hasCtx = true) :
    (w.pollOp id).opSt id = some (.wait (s + 1) .pubcomp) ∧ (w.pollOp id).out = w.out ∧
    (w.pollOp id).queue = w.queue ++ [.awaitAck (actionId 7 a.packetId) (ackBytes 0x62 a.packetId) (s + 1)] := by
  have e : w.pollOp id = (w.clearSlot s).sendAwait
      (.awaitAck (actionId 7 a.packetId) (ackBytes 0x62 a.packetId) (s + 1)) id (s + 1) .pubcomp := by
    have : ¬ a.reason ≥ 128 := by omega
    simp [pollOp, hop, hs, resumeOp, this, sendAwait]
    rfl
  obtain ⟨wk, qr, e2⟩ := User.sendAwait_ctx (w.clearSlot s)
    (.awaitAck (actionId 7 a.packetId) (ackBytes 0x62 a.packetId) (s + 1)) id (s + 1) .pubcomp (by simpa using hc)
  rw [e, e2]
  refine ⟨by simp [opSt, lookupFirst_setAssoc_self], rfl, rfl⟩

/-! ## a concrete resumed world (non-vacuity of the theorems on a live session) -/

/-- PUBACK for packet identifier 1, short form -/
def puback1 : Bytes := [0x40, 2, 0, 1]

/-- reconnected within the session (60 s, disconnection recorded 5 s ago): the QoS 1 PUBLISH 1 of operation 1 is still
    unacknowledged (its future waits, registered, on oneshot 2; the DUP-marked packet is in the retransmit queue), `run()`
    has been called and not polled yet, and the broker's PUBACK 1 is already readable on the new connection -/
def wAck : World :=
  { hasCtx := true, handles := [0], task := .running false,
    c := { awaiting := [(actionId 4 1, 2)], retx := [(actionId 4 1, [0x3A, 6, 0, 1, 0x61, 0, 1, 0])], quota := 65534,
           sei := 60, disc := some 5 },
    ops := [(1, .wait 2 .puback)], slots := [(2, .empty)], slotReg := [2], reader := [.data puback1] }

theorem wAck_own : OwnInv wAck where
  dropped := by decide
  nodup := by decide
  chanNodup := by decide
  freshWoken := fun id hd req hop => by
    simp only [wAck, opSt, lookupFirst] at hop
    split at hop <;> cases hop
  slotOf := fun id s k hop => by
    simp only [wAck, opSt, lookupFirst] at hop
    split at hop
    · rename_i e; cases hop; left; omega
    · cases hop
  slotSome := fun id s k hop => by
    simp only [wAck, opSt, lookupFirst] at hop
    split at hop
    · cases hop; decide
    · cases hop
  waitReg := fun id s k hop _ => by
    simp only [wAck, opSt, lookupFirst] at hop
    split at hop
    · cases hop; decide
    · cases hop
  waitOwn := fun id s k hop _ => by
    simp only [wAck, opSt, lookupFirst] at hop
    split at hop
    · cases hop; exact ⟨rfl, Or.inr ⟨(actionId 4 1, 2), by simp [wAck], rfl⟩⟩
    · cases hop
  waitDone := fun id s k hop hne => by
    simp only [wAck, opSt, lookupFirst] at hop
    split at hop
    · cases hop; exact absurd (by decide) hne
    · cases hop
  chanOwn := fun ch c0 hc _ => by simp [wAck, chan, lookupFirst] at hc
  noTask := fun h => by simp [wAck] at h

theorem pn_puback1 : pollNext {} [.data puback1] = ({}, [], .item puback1) :=
  Ex.pollNext_whole _ (by decide) (by decide) (by decide)

theorem dec_puback1 : decodeRx puback1 = .ok (.puback { packetId := 1 }) := by decide

/-! ## a concrete expired session (non-vacuity of the theorems on an expired session) -/

/-- `HistEx.scrA` (a QoS 1 PUBLISH and a DISCONNECT are requested, a first `run()` serves both and returns), then the
    disconnection is recorded. No session expiry was ever negotiated (interval 0): the session has expired. -/
def scrExp : List Ev := HistEx.scrA ++ [.markDisc 5]

/-- the world `scrExp` reaches: operation 1 still waits, registered, for its PUBACK on the empty oneshot 2, whose sender
    sits in `awaiting_ack` -/
def wExp : World :=
  { hasCtx := true, handles := [0],
    c := { awaiting := [(actionId 4 1, 2)], retx := [(actionId 4 1, [0x3A, 6, 0, 1, 0x61, 0, 1, 0])], quota := 65534,
           disc := some 5 },
    ops := [(1, .wait 2 .puback)], slots := [(2, .empty)], slotReg := [2], pidCtr := 2, written := 12,
    out := [.ev .setup, .ev (.op 1 0 HistEx.pubQ1), .ev (.op 2 0 (.disconnect {})), .ev .run,
            .wire [0x32, 6, 0, 1, 0x61, 0, 1, 0], .wire [0xE0, 2, 0, 0], .ret .run .ok, .done 2 .ok,
            .ev (.markDisc 5)] }

theorem scrExp_foldl : scrExp.foldl World.step {} = wExp := by decide

/-- … and after the next event, `run`, has been applied: the executor is about to poll the context for the first time -/
def wExp0 : World := { wExp with task := .running false, woken := [.ctx], out := wExp.out ++ [.ev .run] }

theorem wExp_run : (wExp.emit (.ev .run)).apply .run = wExp0 := by decide

/-- `scrExp`, then the context task is held back and `run()` is called: the executor does not poll it -/
def scrExpH : List Ev := scrExp ++ [.hold .ctx, .run]

def wExpH : World :=
  { wExp with task := .running false, woken := [.ctx], held := [.ctx],
              out := wExp.out ++ [.ev (.hold .ctx), .ev .run] }

theorem scrExpH_foldl : scrExpH.foldl World.step {} = wExpH := by
  simp only [scrExpH, List.foldl_append, scrExp_foldl]
  decide

/-- `Ex.wSub` (stream 1 asleep on its subscription) after `run()` was cancelled, the disconnection recorded and `run()`
    called again: the session (interval 0) has expired, the first poll is about to happen -/
def wSubExp : World := { Ex.wSub with task := .running false, c := { subs := [(1, 1)], disc := some 5 } }

/-- `Ex.wSub` after `run()` was cancelled and the disconnection recorded (before `run()` is called again) -/
def wSubD : World := { Ex.wSub with task := .none, c := { subs := [(1, 1)], disc := some 5 } }

theorem wSubD_both : Both wSubD :=
  ⟨own_congr Ex.wSub_both.own rfl rfl rfl rfl rfl rfl rfl rfl rfl (fun _ h => h) (fun h => by simp [wSubD, Ex.wSub] at h),
   str_congr Ex.wSub_both.str rfl rfl rfl rfl (fun _ h => h)⟩

theorem wSubD_reg : RegInv wSubD := by
  intro s hs
  simp [wSubD, Ex.wSub] at hs

theorem wSubExp_both : Both wSubExp :=
  ⟨own_congr Ex.wSub_both.own rfl rfl rfl rfl rfl rfl rfl rfl rfl (fun _ h => h) (fun h => by simp [wSubExp, Ex.wSub] at h),
   str_congr Ex.wSub_both.str rfl rfl rfl rfl (fun _ h => h)⟩

/-! ## C02 at the World level: the loop reads a frame -/

/-- **the `run()` loop is about to read the frame `fr`, and operation `id` waits for it**: `run()` has been polled
    before, nothing is queued, a handle is alive, the next frame the transport yields is `fr`; operation `id` waits with
    kind `k` on the empty oneshot `s`, which is the first waiter registered under the action identifier `aid` -/
structure Awaits (w : World) (fr : Bytes) (aid s id : Nat) (k : Wait) : Prop where
  own : OwnInv w
  task : w.task = .running true
  queue : w.queue = []
  senders : w.senders ≠ 0
  frame : ∃ rx' rd', pollNext w.rx w.reader = (rx', rd', .item fr)
  first : lookupFirst aid w.c.awaiting = some s
  op : w.opSt id = some (.wait s k)
  empty : w.slot s = some .empty

/-- one turn of the loop on a packet whose handler ends `run()` -/
theorem runLoop_pkt_exit (f : Nat) (w : World) (rx' : Rx) (rd' : List ReadEv) (fr : Bytes) (p : RxPacket)
    (w1 : World) (fl : Flow) (hq : w.queue = []) (hsn : w.senders ≠ 0)
    (hp : pollNext w.rx w.reader = (rx', rd', .item fr)) (hdec : decodeRx fr = .ok p)
    (hr : ({ w with rx := rx', reader := rd' } : World).runHandler (fun wok => w.c.handlePkt w.chanRxAlive p wok) =
      (w1, fl)) (hne : fl ≠ .cont) :
    runLoop (f + 1) w = w1.finish .run (flowRet fl) := by
  have hi : runIter w = .inr (w1.finish .run (flowRet fl)) := by
    rcases runIter_spec w with ⟨w2, h1, hc⟩ | ⟨r, h1, he⟩
    · exfalso
      cases hc with
      | msg m q w1 hq' _ => rw [hq] at hq'; cases hq'
      | pkt rx2 rd2 fr2 p2 w1 _ _ hp2 hd2 hr2 =>
        rw [hp] at hp2
        simp only [Prod.mk.injEq, Out.item.injEq] at hp2
        obtain ⟨rfl, rfl, rfl⟩ := hp2
        rw [hdec] at hd2
        simp only [Res.ok.injEq] at hd2
        subst hd2
        rw [hr] at hr2
        simp only [Prod.mk.injEq] at hr2
        exact hne hr2.2
    · rw [h1]
      cases he with
      | msgExit m q w1 fl hq' _ _ => rw [hq] at hq'; cases hq'
      | closed _ hs' => exact absurd hs' hsn
      | pktExit rx2 rd2 fr2 p2 w2 fl2 _ _ hp2 hd2 hr2 hne2 =>
        rw [hp] at hp2
        simp only [Prod.mk.injEq, Out.item.injEq] at hp2
        obtain ⟨rfl, rfl, rfl⟩ := hp2
        rw [hdec] at hd2
        simp only [Res.ok.injEq] at hd2
        subst hd2
        rw [hr] at hr2
        simp only [Prod.mk.injEq] at hr2
        obtain ⟨rfl, rfl⟩ := hr2
        rfl
      | codec rx2 rd2 fr2 _ _ hp2 hd2 =>
        rw [hp] at hp2
        simp only [Prod.mk.injEq, Out.item.injEq] at hp2
        obtain ⟨rfl, rfl, rfl⟩ := hp2
        rw [hdec] at hd2; cases hd2
      | panic rx2 rd2 fr2 _ _ hp2 hd2 =>
        rw [hp] at hp2
        simp only [Prod.mk.injEq, Out.item.injEq] at hp2
        obtain ⟨rfl, rfl, rfl⟩ := hp2
        rw [hdec] at hd2; cases hd2
      | sock rx2 rd2 _ _ hp2 => rw [hp] at hp2; simp at hp2
      | pending rx2 rd2 _ _ hp2 => rw [hp] at hp2; simp at hp2
  rw [runLoop_succ, hi]

theorem loopFuel_succ (w : World) : ∃ f, w.loopFuel = f + 1 :=
  ⟨w.queue.length + 2 * (evBytes w.reader + w.reader.length + w.rx.valid.length) + 3, rfl⟩

theorem pollCtx_running (w : World) (ht : w.task = .running true) : w.pollCtx = runLoop w.loopFuel w := by
  simp [pollCtx, ht, pollRun]

/-- **a server DISCONNECT ends `run()`**: the call returns `Ok` for the reason code 0 and `Disconnected` carrying the
    decoded packet otherwise; nothing else is logged, the session is untouched -/
theorem pollCtx_disconnect (w : World) (rx' : Rx) (rd' : List ReadEv) (fr : Bytes) (d : DisconnectRx)
    (ht : w.task = .running true) (hq : w.queue = []) (hsn : w.senders ≠ 0)
    (hp : pollNext w.rx w.reader = (rx', rd', .item fr)) (hdec : decodeRx fr = .ok (.disconnect d)) :
    w.pollCtx = ({ w with rx := rx', reader := rd' } : World).finish .run
      (if d.reason = 0 then .ok else .disconnected d) := by
  obtain ⟨f, hf⟩ := loopFuel_succ w
  rw [pollCtx_running w ht, hf]
  have hr : ({ w with rx := rx', reader := rd' } : World).runHandler
      (fun wok => w.c.handlePkt w.chanRxAlive (.disconnect d) wok) =
      (({ w with rx := rx', reader := rd' } : World), if d.reason = 0 then Flow.exitOk else Flow.exitDisconnected d) := by
    rw [runHandler_eq]
    rfl
  rw [runLoop_pkt_exit f w rx' rd' fr (.disconnect d) _ _ hq hsn hp hdec hr (by split <;> simp)]
  split <;> rfl

/-! ### absent properties -/

theorem find_none_of_legal (legal multi : List Nat) (id : Nat) (hid : id ∉ legal) (ps : List Property)
    (h : Spec.propsOk legal multi ps = true) : Spec.find id ps = none := by
  simp only [Spec.propsOk, Bool.and_eq_true, List.all_eq_true, List.contains_iff_mem] at h
  obtain ⟨hall, hu⟩ := h
  clear hu
  induction ps with
  | nil => rfl
  | cons q t ih =>
    have hq := (hall q List.mem_cons_self).1
    have hne : q.id ≠ id := by intro e; rw [e] at hq; exact hid (by simpa using hq)
    simp only [Spec.find, hne, ↓reduceIte]
    exact ih (fun x hx => hall x (List.mem_cons_of_mem _ hx))

theorem getNum_none_of_find {id : Nat} {ps : List Property} (h : Spec.find id ps = none) : Spec.getNum id ps = none := by
  simp [Spec.getNum, h]
theorem getBytes_none_of_find {id : Nat} {ps : List Property} (h : Spec.find id ps = none) :
    Spec.getBytes id ps = none := by
  simp [Spec.getBytes, h]
theorem getBool_none_of_find {id : Nat} {ps : List Property} (h : Spec.find id ps = none) :
    Spec.getBool id ps = none := by
  simp [Spec.getBool, h]

/-- a property that is not in the list reads as absent -/
theorem find_absent (id : Nat) (ps : List Property) (h : ∀ q ∈ ps, q.id ≠ id) : Spec.find id ps = none := by
  induction ps with
  | nil => rfl
  | cons q t ih =>
    simp only [Spec.find, h q List.mem_cons_self, ↓reduceIte]
    exact ih (fun x hx => h x (List.mem_cons_of_mem _ hx))

/-- without User Properties the accessor returns the empty list -/
theorem users_absent (ps : List Property) (h : ∀ q ∈ ps, q.id ≠ 38) : Spec.users ps = [] := by
  induction ps with
  | nil => rfl
  | cons q t ih =>
    have hq := h q List.mem_cons_self
    have ht := ih (fun x hx => h x (List.mem_cons_of_mem _ hx))
    simp only [Spec.users]
    split
    · simp [hq, ht]
    · exact ht

/-- without Subscription Identifiers the accessor returns the empty list -/
theorem subIds_absent (ps : List Property) (h : ∀ q ∈ ps, q.id ≠ 11) : Spec.subIds ps = [] := by
  induction ps with
  | nil => rfl
  | cons q t ih =>
    have hq := h q List.mem_cons_self
    have ht := ih (fun x hx => h x (List.mem_cons_of_mem _ hx))
    simp only [Spec.subIds]
    split
    · simp [hq, ht]
    · exact ht

/-! ### an inbound PUBLISH and the subscription channels -/

/-- one turn of the loop on a decoded packet, whatever its handler says -/
theorem runIter_pkt (w : World) (rx' : Rx) (rd' : List ReadEv) (fr : Bytes) (p : RxPacket)
    (w1 : World) (fl : Flow) (hq : w.queue = []) (hsn : w.senders ≠ 0)
    (hp : pollNext w.rx w.reader = (rx', rd', .item fr)) (hdec : decodeRx fr = .ok p)
    (hr : ({ w with rx := rx', reader := rd' } : World).runHandler (fun wok => w.c.handlePkt w.chanRxAlive p wok) =
      (w1, fl)) :
    runIter w = if fl = .cont then .inl w1 else .inr (w1.finish .run (flowRet fl)) := by
  rcases runIter_spec w with ⟨w2, h1, hc⟩ | ⟨r, h1, he⟩
  · rw [h1]
    cases hc with
    | msg m q w1 hq' _ => rw [hq] at hq'; cases hq'
    | pkt rx2 rd2 fr2 p2 w1 _ _ hp2 hd2 hr2 =>
      rw [hp] at hp2
      simp only [Prod.mk.injEq, Out.item.injEq] at hp2
      obtain ⟨rfl, rfl, rfl⟩ := hp2
      rw [hdec] at hd2
      simp only [Res.ok.injEq] at hd2
      subst hd2
      rw [hr] at hr2
      simp only [Prod.mk.injEq] at hr2
      obtain ⟨rfl, rfl⟩ := hr2
      simp
  · rw [h1]
    cases he with
    | msgExit m q w1 fl hq' _ _ => rw [hq] at hq'; cases hq'
    | closed _ hs' => exact absurd hs' hsn
    | pktExit rx2 rd2 fr2 p2 w2 fl2 _ _ hp2 hd2 hr2 hne2 =>
      rw [hp] at hp2
      simp only [Prod.mk.injEq, Out.item.injEq] at hp2
      obtain ⟨rfl, rfl, rfl⟩ := hp2
      rw [hdec] at hd2
      simp only [Res.ok.injEq] at hd2
      subst hd2
      rw [hr] at hr2
      simp only [Prod.mk.injEq] at hr2
      obtain ⟨rfl, rfl⟩ := hr2
      rw [if_neg hne2]
    | codec rx2 rd2 fr2 _ _ hp2 hd2 =>
      rw [hp] at hp2
      simp only [Prod.mk.injEq, Out.item.injEq] at hp2
      obtain ⟨rfl, rfl, rfl⟩ := hp2
      rw [hdec] at hd2; cases hd2
    | panic rx2 rd2 fr2 _ _ hp2 hd2 =>
      rw [hp] at hp2
      simp only [Prod.mk.injEq, Out.item.injEq] at hp2
      obtain ⟨rfl, rfl, rfl⟩ := hp2
      rw [hdec] at hd2; cases hd2
    | sock rx2 rd2 _ _ hp2 => rw [hp] at hp2; simp at hp2
    | pending rx2 rd2 _ _ hp2 => rw [hp] at hp2; simp at hp2

/-- a poll of the context task logs no stream line -/
theorem pollCtx_items (w : World) (ch : Nat) : itemsOf ch w.pollCtx.out = itemsOf ch w.out := by
  have hq : ∀ pre : List Obs, _root_.Poster.World.Quiet pre → itemsOf ch pre = [] := by
    intro pre hpre
    apply itemsOf_streamQuiet
    intro o ho
    obtain ⟨bs, h | h⟩ := hpre o ho
    · rw [h]; exact (streamQuiet_wire bs).1
    · rw [h]; exact (streamQuiet_wire bs).2
  rcases W7.pollCtx_shape w with ⟨_, pre, hpre, e⟩ | ⟨_, pre, last, hpre, e, hl⟩
  · rw [e, itemsOf_append, hq pre hpre]; simp
  · rw [e, itemsOf_append, itemsOf_append, hq pre hpre]
    rcases hl with ⟨c, r, rfl, _⟩ | ⟨cls, rfl⟩ <;> simp [itemsOf]

/-- **the poll in which the loop first handles the decoded packet `p`**: every existing subscription channel holds,
    afterwards, what it held, then the messages this handler call delivers into it, then whatever later handler calls of
    the same poll deliver; nothing is yielded meanwhile -/
theorem pollCtx_pkt_buffer (w : World) (wf : ChanWf w) (rx' : Rx) (rd' : List ReadEv) (fr : Bytes) (p : RxPacket)
    (ht : w.task = .running true) (hq : w.queue = []) (hsn : w.senders ≠ 0)
    (hp : pollNext w.rx w.reader = (rx', rd', .item fr)) (hdec : decodeRx fr = .ok p)
    (ch : Nat) (c0 : Chan) (hc : w.chan ch = some c0) :
    ∃ c1 rest, w.pollCtx.chan ch = some c1 ∧
      c1.buf = c0.buf ++ deliversTo ch (w.c.stepIn (w.inPkt p)).2.effs ++ rest ∧
      itemsOf ch w.pollCtx.out = itemsOf ch w.out := by
  obtain ⟨f, hf⟩ := loopFuel_succ w
  have e0 : w.pollCtx = runLoop (f + 1) w := by rw [pollCtx_running w ht, hf]
  generalize hw1 : (({ w with rx := rx', reader := rd', c := (w.c.stepIn (w.inPkt p)).1 } : World).applyEffs
    (w.c.stepIn (w.inPkt p)).2.effs) = w1
  have hm : SMove (.ctx (.handler w.c (w.inPkt p))) w w1 := by
    rw [← hw1]; exact smove_handler_pkt w rx' rd' fr p hq hp hdec
  have hr := runHandler_eq_stepIn_pkt w rx' rd' p
  rw [hw1] at hr
  have hi := runIter_pkt w rx' rd' fr p w1 _ hq hsn hp hdec hr
  have hdec' : Dec CtxLab w1 w.pollCtx := by
    rw [e0, runLoop_succ, hi]
    by_cases hfl : (w.c.stepIn (w.inPkt p)).2.flow = Flow.cont
    · rw [if_pos hfl]; exact runLoop_dec f w1
    · rw [if_neg hfl]; exact .one (smove_finish _ _ _) ctxLab_tau
  obtain ⟨tr, htr, hlab⟩ := hdec'
  obtain ⟨c1, hc1, _, _⟩ := (hand_pollCtx w).act.chanSome ch c0 hc
  have hnew : SLab.new ch ∉ (SLab.ctx (.handler w.c (w.inPkt p)) :: tr) := by
    intro hmem
    simp only [List.mem_cons] at hmem
    rcases hmem with h | h
    · cases h
    · rcases hlab _ h with h1 | ⟨src, h1⟩ <;> cases h1
  have hcons := (STrace.cons hm htr).hist_alive wf ch c0 c1 hc hc1 hnew
  have hit := pollCtx_items w ch
  rw [hit] at hcons
  rw [List.append_assoc] at hcons
  have hb := List.append_cancel_left hcons
  refine ⟨c1, delivered ch tr, hc1, ?_, hit⟩
  rw [hb]
  simp [delivered, SLab.effs, CtxSrc.effs, List.append_assoc]

/-! ### concrete worlds for the C02 theorems -/

/-- `run()` serving; operation 1 waits with kind `k` on the empty, registered oneshot 2, the only waiter, registered
    under `aid`; the transport has the frame `fr` ready -/
def wWait (aid : Nat) (k : Wait) (fr : Bytes) : World :=
  { hasCtx := true, handles := [0], task := .running true, c := { awaiting := [(aid, 2)] },
    ops := [(1, .wait 2 k)], slots := [(2, .empty)], slotReg := [2], reader := [.data fr] }

theorem wWait_own (aid : Nat) (k : Wait) (fr : Bytes) : OwnInv (wWait aid k fr) where
  dropped := by simp [wWait]
  nodup := by simp [wWait]
  chanNodup := by simp [wWait]
  freshWoken := fun id hd req hop => by
    simp only [wWait, opSt, lookupFirst] at hop
    split at hop <;> cases hop
  slotOf := fun id s k' hop => by
    simp only [wWait, opSt, lookupFirst] at hop
    split at hop
    · rename_i e; cases hop; left; omega
    · cases hop
  slotSome := fun id s k' hop => by
    simp only [wWait, opSt, lookupFirst] at hop
    split at hop
    · cases hop; simp [wWait, slot, lookupFirst]
    · cases hop
  waitReg := fun id s k' hop _ => by
    simp only [wWait, opSt, lookupFirst] at hop
    split at hop
    · cases hop; simp [wWait]
    · cases hop
  waitOwn := fun id s k' hop _ => by
    simp only [wWait, opSt, lookupFirst] at hop
    split at hop
    · cases hop; exact ⟨rfl, Or.inr ⟨(aid, 2), by simp [wWait], rfl⟩⟩
    · cases hop
  waitDone := fun id s k' hop hne => by
    simp only [wWait, opSt, lookupFirst] at hop
    split at hop
    · cases hop; exact absurd (by simp [wWait, slot, lookupFirst]) hne
    · cases hop
  chanOwn := fun ch c0 hc _ => by simp [wWait, chan, lookupFirst] at hc
  noTask := fun h => by simp [wWait] at h

theorem wWait_awaits (aid : Nat) (k : Wait) (fr : Bytes) (h2 : 2 ≤ fr.length) (h512 : fr.length ≤ 512)
    (hf : frameLen fr = .ok fr.length 1) : Awaits (wWait aid k fr) fr aid 2 1 k where
  own := wWait_own aid k fr
  task := rfl
  queue := rfl
  senders := by simp [wWait, senders]
  frame := ⟨{}, [], Ex.pollNext_whole fr h2 h512 hf⟩
  first := by simp [wWait, lookupFirst]
  op := by simp [wWait, opSt, lookupFirst]
  empty := by simp [wWait, slot, lookupFirst]

/-! ## a whole script: reconnect within the session, then the PUBACK of the old PUBLISH arrives -/

/-- the transport takes 12 bytes per connection (so that the CONNECT of `scrRe8` fails without a byte being read) -/
def cfgRe : Cfg := { wlimit := some 12 }

/-- `HistEx.scrA` (QoS 1 PUBLISH 1 and a DISCONNECT served by a first `run()`), the disconnection is recorded, a new
    transport, `connect()` asks for a 60 s session (its write fails, the interval is recorded), another transport -/
def scrRe8 : List Ev :=
  HistEx.scrA ++ [.markDisc 5, .setup, .connect { clientId := [0x63], sessionExpiry := some 60 }, .setup]

/-- … then `run()` is called again and the broker's PUBACK 1 arrives on the new connection -/
def scrRe : List Ev := scrRe8 ++ [.run, .feed [puback1]]

/-- the context `scrRe8` leaves: PUBLISH 1 unacknowledged, 60 s session, disconnection recorded 5 s ago -/
def cRe0 : Ctx :=
  { awaiting := [(actionId 4 1, 2)], retx := [(actionId 4 1, [0x3A, 6, 0, 1, 0x61, 0, 1, 0])], quota := 65534, sei := 60,
    disc := some 5 }

/-- the world `scrRe8` reaches -/
def wReA : World :=
  { cfg := cfgRe, hasCtx := true, handles := [0], c := cRe0, ops := [(1, .wait 2 .puback)], slots := [(2, .empty)],
    slotReg := [2], pidCtr := 2, out := (scrRe8.foldl World.step { cfg := cfgRe }).out }

theorem scrRe8_foldl : scrRe8.foldl World.step { cfg := cfgRe } = wReA := by decide

/-- after `run`: the session was resumed, PUBLISH 1 re-sent with DUP, both wakers armed -/
def wReB : World :=
  { wReA with task := .running true, c := { cRe0 with disc := none }, readerReg := true, queueReg := true, written := 8,
              out := wReA.out ++ [.ev .run, .wire [0x3A, 6, 0, 1, 0x61, 0, 1, 0]] }

theorem wReA_run : wReA.step .run = wReB := by
  refine step_eq wReA .run wReB (by decide) (by decide) ?_ (by decide) (by decide)
  rw [drain_pick _ _ .ctx (by decide) (by decide)]
  have e1 : ∀ X : World, X.pollTask .ctx = (X.unwake .ctx).pollCtx := fun _ => rfl
  rw [e1, pollCtx_alive_eq _ (by decide) (by decide),
    runLoop_idle _ _ (by decide) (by decide) (by decide) (by decide) (by decide)]
  rw [drain_none _ _ (by decide)]
  decide

/-- after the PUBACK was fed: the ORIGINAL publish future has completed with `Ok`, the session is clean -/
def wReC : World :=
  { wReB with c := { sei := 60 }, ops := [], slots := [], slotReg := [],
              out := wReB.out ++ [.ev (.feed [puback1]), .done 1 .ok] }

theorem wReB_feed : wReB.step (.feed [puback1]) = wReC := by
  refine step_eq wReB _ wReC (by decide) (by decide) ?_ (by decide) (by decide)
  rw [drain_pick _ _ .ctx (by decide) (by decide), pollTask_ctx_running _ (by decide),
    runLoop_pkt _ _ puback1 (.puback { packetId := 1 }) (by decide) (by decide) (by decide) pn_puback1 dec_puback1
      (by decide),
    runLoop_idle _ _ (by decide) (by decide) (by decide) (by decide) (by decide)]
  rw [drain_pick _ _ (.op 1) (by decide) (by decide), drain_none _ _ (by decide)]
  decide

theorem scrRe_foldl : scrRe.foldl World.step { cfg := cfgRe } = wReC := by
  simp only [scrRe, List.foldl_append, scrRe8_foldl, List.foldl_cons, List.foldl_nil, wReA_run, wReB_feed]

/-- the handler call of that last step: the PUBACK, handled in the resumed context -/
theorem wReB_feed_evs :
    wReB.stepEvs (.feed [puback1]) = [.handler { cRe0 with disc := none } (.pkt (.puback { packetId := 1 }) [] true)] := by
  refine stepEvs_eq wReB _ _ (by decide) (by decide) (by decide) ?_
  rw [drainEvs_pick _ _ .ctx (by decide) (by decide), taskEvs_ctx_running _ (by decide),
    w9_loopHist_fuel_one_frame _ puback1 (.puback { packetId := 1 }) (by decide) (by decide) pn_puback1
      dec_puback1,
    pollTask_ctx_running _ (by decide),
    runLoop_pkt _ _ puback1 (.puback { packetId := 1 }) (by decide) (by decide) (by decide) pn_puback1 dec_puback1
      (by decide),
    runLoop_idle _ _ (by decide) (by decide) (by decide) (by decide) (by decide),
    drainEvs_pick _ _ (.op 1) (by decide) (by decide), drainEvs_none _ _ (by decide)]
  decide

/-- the history of `scrRe` ends with that handler call -/
theorem scrRe_history :
    World.history cfgRe scrRe = World.history cfgRe (scrRe8 ++ [.run]) ++
      [.handler { cRe0 with disc := none } (.pkt (.puback { packetId := 1 }) [] true)] := by
  have e : scrRe = (scrRe8 ++ [.run]) ++ [.feed [puback1]] := by simp [scrRe]
  rw [e]
  unfold World.history
  rw [scriptEvs_append]
  have hf : (scrRe8 ++ [Ev.run]).foldl World.step { cfg := cfgRe } = wReB := by
    simp only [List.foldl_append, scrRe8_foldl, List.foldl_cons, List.foldl_nil, wReA_run]
  rw [hf]
  simp only [scriptEvs, wReB_feed_evs, List.append_nil]

end W13
end World
end Poster
