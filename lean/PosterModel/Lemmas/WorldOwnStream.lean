/-
  Lemmas/WorldOwnStream.lean — the subscription side of C14: a stream that exists has its channel, and is
  either flagged for the executor or asleep on an empty channel whose sender is alive, with its waker registered.
  `StrInv` holds along every script that never starts an operation under the identifier of a response or stream
  that is still alive (`GoodFrom`) — the model names the response channel of `subscribe` after the operation's
  identifier, so re-using such an identifier would replace a live stream's channel, which no real client can do.
-/
import PosterModel.Lemmas.WorldOwnFuel

set_option linter.unusedVariables false
set_option linter.unusedSimpArgs false

namespace Poster
open Framing
namespace World

/-- **the stream invariant** -/
structure StrInv (w : World) : Prop where
  /-- a response handed to the caller belongs to a completed operation and is not yet a stream -/
  disjR : ∀ id, id ∈ w.rsps → w.opSt id = none ∧ id ∉ w.streams
  /-- a stream belongs to a completed operation -/
  disjS : ∀ id, id ∈ w.streams → w.opSt id = none
  /-- a response, and a `subscribe` waiting for its SUBACK, has its channel -/
  chanEx : ∀ id, (id ∈ w.rsps ∨ ∃ s, w.opSt id = some (.wait s .suback)) → w.chan id ≠ none
  /-- a stream has its channel, and is flagged or asleep (registered) on an empty channel with a live sender -/
  strOk : ∀ id, id ∈ w.streams → ∃ ch, w.chan id = some ch ∧
    (Task.st id ∈ w.woken ∨ (ch.buf = [] ∧ ch.reg = true ∧ ch.txAlive = true))

theorem strInv_init (cfg : Cfg) : StrInv { cfg := cfg } where
  disjR := by simp
  disjS := by simp
  chanEx := by simp [opSt, lookupFirst]
  strOk := by simp

/-- the invariant only reads these fields (and only the flags of stream tasks) -/
theorem str_congr {w w' : World} (h : StrInv w) (h1 : w'.ops = w.ops) (h2 : w'.rsps = w.rsps)
    (h3 : w'.streams = w.streams) (h4 : w'.chans = w.chans)
    (h5 : ∀ n, Task.st n ∈ w.woken → Task.st n ∈ w'.woken) : StrInv w' := by
  have ho : ∀ i, w'.opSt i = w.opSt i := fun i => by simp [opSt, h1]
  have hc : ∀ c, w'.chan c = w.chan c := fun c => by simp [chan, h4]
  exact {
    disjR := fun id hi => by rw [ho, h3]; exact h.disjR id (by rw [← h2]; exact hi)
    disjS := fun id hi => by rw [ho]; exact h.disjS id (by rw [← h3]; exact hi)
    chanEx := fun id hi => by
      rw [hc]; apply h.chanEx
      rcases hi with hi | ⟨s, hi⟩
      · exact Or.inl (by rw [← h2]; exact hi)
      · exact Or.inr ⟨s, by rw [← ho]; exact hi⟩
    strOk := fun id hi => by
      obtain ⟨ch, a, b⟩ := h.strOk id (by rw [← h3]; exact hi)
      refine ⟨ch, by rw [hc]; exact a, ?_⟩
      rcases b with b | b
      · exact Or.inl (h5 _ b)
      · exact Or.inr b }

macro "str_eq" h:ident : tactic =>
  `(tactic| (refine str_congr $h ?_ ?_ ?_ ?_ ?_ <;>
      first | rfl | (simp; done) | (intro n hn; simp [mem_wake_iff, hn]; done)))

/-- **the context side** keeps the stream invariant: a delivery or a dropped sender wakes the registered stream -/
theorem str_of_act {w w' : World} (h : StrInv w) (a : ActInv w w') : StrInv w' := by
  have ho : ∀ i, w'.opSt i = w.opSt i := fun i => by simp [opSt, a.ops_eq]
  have hsome : ∀ c, w.chan c ≠ none → w'.chan c ≠ none := by
    intro c hc
    cases hv : w.chan c with
    | none => exact absurd hv hc
    | some c0 => obtain ⟨c1, e, _⟩ := a.chanSome c c0 hv; rw [e]; simp
  exact {
    disjR := fun id hi => by rw [ho, a.streams_eq]; exact h.disjR id (by rw [← a.rsps_eq]; exact hi)
    disjS := fun id hi => by rw [ho]; exact h.disjS id (by rw [← a.streams_eq]; exact hi)
    chanEx := fun id hi => by
      apply hsome; apply h.chanEx
      rcases hi with hi | ⟨s, hi⟩
      · exact Or.inl (by rw [← a.rsps_eq]; exact hi)
      · exact Or.inr ⟨s, by rw [← ho]; exact hi⟩
    strOk := fun id hi => by
      obtain ⟨c0, e0, b⟩ := h.strOk id (by rw [← a.streams_eq]; exact hi)
      obtain ⟨c1, e1, _, k⟩ := a.chanSome id c0 e0
      refine ⟨c1, e1, ?_⟩
      rcases b with b | ⟨b1, b2, b3⟩
      · exact Or.inl (a.wokenMono _ b)
      · rcases k with k | k
        · subst k; exact Or.inr ⟨b1, b2, b3⟩
        · exact Or.inl (k b2) }

theorem str_pollCtx (w : World) (h : StrInv w) : StrInv w.pollCtx := str_of_act h (hand_pollCtx w).act

/-! ## a step of a handle future -/

/-- what the step of operation `id` did to its own subscription bookkeeping: a `subscribe` still waiting has its
    channel; the identifier enters the responses only together with the operation's completion, channel in hand -/
structure SubOk (id : Nat) (w' : World) : Prop where
  waiting : ∀ s, w'.opSt id = some (.wait s .suback) → w'.chan id ≠ none
  response : id ∈ w'.rsps → w'.opSt id = none ∧ w'.chan id ≠ none

/-- a step of an existing operation keeps the stream invariant -/
theorem str_of_opFrame {id : Nat} {w w' : World} (h : StrInv w) (hex : w.opSt id ≠ none) (f : OpFrame id w w')
    (hsub : SubOk id w') : StrInv w' := by
  have hnr : id ∉ w.rsps := fun hi => hex (h.disjR id hi).1
  have hns : id ∉ w.streams := fun hi => hex (h.disjS id hi)
  exact {
    disjR := fun n hn => by
      by_cases e : n = id
      · subst e; exact ⟨(hsub.response hn).1, by rw [f.streams_eq]; exact hns⟩
      · rcases f.rspsSub n hn with hn' | hn'
        · rw [f.ops n e, f.streams_eq]; exact h.disjR n hn'
        · exact absurd hn' e
    disjS := fun n hn => by
      rw [f.streams_eq] at hn
      have e : n ≠ id := by intro e; subst e; exact hns hn
      rw [f.ops n e]; exact h.disjS n hn
    chanEx := fun n hn => by
      by_cases e : n = id
      · subst e
        rcases hn with hn | ⟨s, hn⟩
        · exact (hsub.response hn).2
        · exact hsub.waiting s hn
      · rw [f.chan n e]; apply h.chanEx
        rcases hn with hn | ⟨s, hn⟩
        · rcases f.rspsSub n hn with hn' | hn'
          · exact Or.inl hn'
          · exact absurd hn' e
        · exact Or.inr ⟨s, by rw [← f.ops n e]; exact hn⟩
    strOk := fun n hn => by
      rw [f.streams_eq] at hn
      have e : n ≠ id := by intro e; subst e; exact hns hn
      obtain ⟨ch, a, b⟩ := h.strOk n hn
      refine ⟨ch, by rw [f.chan n e]; exact a, ?_⟩
      rcases b with b | b
      · exact Or.inl (f.woken _ b (by intro e'; cases e'))
      · exact Or.inr b }

/-! ### closed forms: what a handle method does to `rsps`, to its own entry and to its channel -/

theorem sendAwait_rsps (w : World) (m : Msg) (id s : Nat) (k : Wait) : (w.sendAwait m id s k).rsps = w.rsps := by
  obtain ⟨_, _, _, _, _, _, _, e⟩ := User.sendAwait_frame w m id s k; rw [e]

theorem sendAwait_opSt (w : World) (m : Msg) (id s : Nat) (k : Wait) (hn : (w.ops.map (·.1)).Nodup) :
    (w.sendAwait m id s k).opSt id = none ∨ (w.sendAwait m id s k).opSt id = some (.wait s k) := by
  unfold sendAwait
  cases hsm : w.sendMsg m with
  | none => left; simp [opSt, lookupFirst_eraseFirst_self _ _ hn]
  | some w2 => right; simp [opSt, lookupFirst_setAssoc_self]

theorem opSt_finishOp_none (w : World) (id : Nat) (r : DoneRes) (hn : (w.ops.map (·.1)).Nodup) :
    (w.finishOp id r).opSt id = none := by
  simp [opSt, lookupFirst_eraseFirst_self _ _ hn]

/-- a finished step: the operation is gone and nothing was added to the responses -/
theorem subOk_of_none {id : Nat} {w' : World} (h1 : w'.opSt id = none) (h2 : id ∉ w'.rsps) : SubOk id w' :=
  { waiting := fun s hs => by rw [h1] at hs; cases hs
    response := fun hr => absurd hr h2 }

/-- a step that ends waiting for something other than a SUBACK, nothing added to the responses -/
theorem subOk_of_wait {id s : Nat} {k : Wait} {w' : World} (h1 : w'.opSt id = none ∨ w'.opSt id = some (.wait s k))
    (hk : k ≠ .suback) (h2 : id ∉ w'.rsps) : SubOk id w' :=
  { waiting := fun s' hs => by
      rcases h1 with h1 | h1
      · rw [h1] at hs; cases hs
      · rw [h1] at hs; simp only [Option.some.injEq, OpSt.wait.injEq] at hs; exact absurd hs.2 hk
    response := fun hr => absurd hr h2 }

theorem subOk_startOp (w : World) (id : Nat) (req : Req) (hn : (w.ops.map (·.1)).Nodup) (hr : id ∉ w.rsps) :
    SubOk id (w.startOp id req) := by
  cases req with
  | publish t =>
    by_cases hq : t.qos = 0
    · rw [User.startOp_publish0 w id t hq]
      split
      · exact subOk_of_none (opSt_finishOp_none _ _ _ hn) (by simpa using hr)
      · exact subOk_of_wait (sendAwait_opSt _ _ _ _ _ hn) (by intro e; cases e) (by rw [sendAwait_rsps]; exact hr)
    · rw [User.startOp_publish12 w id t hq]
      split
      · exact subOk_of_none (opSt_finishOp_none _ _ _ (by simpa using hn)) (by simpa using hr)
      · refine subOk_of_wait (sendAwait_opSt _ _ _ _ _ (by simpa using hn)) ?_ (by rw [sendAwait_rsps]; simpa using hr)
        split <;> (intro e; cases e)
  | subscribe t =>
    rw [User.startOp_subscribe]
    simp only
    split
    · exact subOk_of_none (opSt_finishOp_none _ _ _ (by simpa using hn)) (by simpa using hr)
    · split
      · exact subOk_of_none (opSt_finishOp_none _ _ _ (by simpa using hn)) (by simpa using hr)
      · rename_i w2 hsm
        obtain ⟨_, _, a3, _⟩ := sendMsg_some hsm
        have hrs : w2.rsps = w.rsps := by
          rw [sendMsg_eq] at hsm
          split at hsm
          · simp only [Option.some.injEq] at hsm; subst hsm; rfl
          · cases hsm
        refine ⟨fun s _ => ?_, fun hr' => absurd (by simpa [hrs] using hr') hr⟩
        simp [chan, a3, lookupFirst_setAssoc_self]
  | unsubscribe t =>
    rw [User.startOp_unsubscribe]
    split
    · exact subOk_of_none (opSt_finishOp_none _ _ _ (by simpa using hn)) (by simpa using hr)
    · exact subOk_of_wait (sendAwait_opSt _ _ _ _ _ (by simpa using hn)) (by intro e; cases e)
        (by rw [sendAwait_rsps]; simpa using hr)
  | ping =>
    rw [User.startOp_ping]
    exact subOk_of_wait (sendAwait_opSt _ _ _ _ _ hn) (by intro e; cases e) (by rw [sendAwait_rsps]; exact hr)
  | disconnect t =>
    rw [User.startOp_disconnect]
    exact subOk_of_wait (sendAwait_opSt _ _ _ _ _ hn) (by intro e; cases e) (by rw [sendAwait_rsps]; exact hr)

theorem subOk_resumeOp (w : World) (id s : Nat) (k : Wait) (v : SlotVal) (hn : (w.ops.map (·.1)).Nodup)
    (hr : id ∉ w.rsps) (hch : k = .suback → w.chan id ≠ none) : SubOk id (w.resumeOp id s k v) := by
  have hfin : ∀ (w1 : World) (r : DoneRes), w1.ops = w.ops → w1.rsps = w.rsps → SubOk id (w1.finishOp id r) := by
    intro w1 r h1 h2
    exact subOk_of_none (opSt_finishOp_none _ _ _ (by rw [h1]; exact hn)) (by simpa [h2] using hr)
  cases v with
  | errSize => simp only [resumeOp]; exact hfin _ _ rfl rfl
  | errQuota => simp only [resumeOp]; exact hfin _ _ rfl rfl
  | unit => simp only [resumeOp]; split <;> exact hfin _ _ rfl rfl
  | pkt p =>
    cases k <;> cases p <;> simp only [resumeOp] <;>
      first
      | (refine subOk_of_none ?_ ?_ <;>
          first | (simp [opSt, lookupFirst_eraseFirst_self _ _ hn]; done) | (simpa using hr))
      | (split <;> first | exact hfin _ _ rfl rfl | skip)
      | exact hfin _ _ rfl rfl
      | skip
    · -- PUBREC: the second phase waits for PUBCOMP
      rename_i a _
      show SubOk id ((w.clearSlot s).sendAwait (.awaitAck (actionId 7 a.packetId) (ackBytes 0x62 a.packetId) (s + 1))
        id (s + 1) .pubcomp)
      exact subOk_of_wait (sendAwait_opSt (w.clearSlot s) _ id (s + 1) .pubcomp (by simpa using hn))
        (by intro e; cases e) (by rw [sendAwait_rsps]; simpa using hr)
    · -- SUBACK: the response is handed over together with the channel
      refine ⟨fun s' hs => ?_, fun _ => ⟨?_, ?_⟩⟩
      · rw [opSt_finishOp_none _ _ _ (by simpa using hn)] at hs; cases hs
      · exact opSt_finishOp_none _ _ _ (by simpa using hn)
      · have := hch rfl
        simpa [chan] using this

/-! ### `pollOp`, `dropOp` -/

theorem str_pollOp_task (w : World) (id : Nat) (ho : OwnInv w) (h : StrInv w) :
    StrInv ((w.unwake (.op id)).pollOp id) := by
  have f := (own_pollOp_task w id ho).frame
  have hn : ((w.unwake (.op id)).ops.map (·.1)).Nodup := by simpa using ho.nodup
  cases hop : w.opSt id with
  | none =>
    have e : (w.unwake (.op id)).pollOp id = w.unwake (.op id) := by simp [pollOp, hop]
    rw [e]
    exact str_congr h rfl rfl rfl rfl (fun n hn => by simp [unwake, hn])
  | some st =>
    have hr : id ∉ w.rsps := fun hi => by have := (h.disjR id hi).1; rw [hop] at this; cases this
    refine str_of_opFrame h (by rw [hop]; simp) f ?_
    cases st with
    | fresh hd req =>
      have e : (w.unwake (.op id)).pollOp id = (w.unwake (.op id)).startOp id req := by simp [pollOp, hop]
      rw [e]; exact subOk_startOp _ id req hn (by simpa using hr)
    | wait s k =>
      have hreg : SubOk id { (w.unwake (.op id)) with
          slotReg := if s ∈ (w.unwake (.op id)).slotReg then (w.unwake (.op id)).slotReg
            else (w.unwake (.op id)).slotReg ++ [s] } := by
        refine ⟨fun s' hs => ?_, fun hr' => absurd hr' hr⟩
        have hs' : w.opSt id = some (.wait s' .suback) := hs
        exact h.chanEx id (Or.inr ⟨s', hs'⟩)
      cases hsl : w.slot s with
      | none =>
        simp only [pollOp, unwake_opSt, hop, unwake_slot, hsl]; exact hreg
      | some x =>
        cases x with
        | empty =>
          simp only [pollOp, unwake_opSt, hop, unwake_slot, hsl]; exact hreg
        | full v =>
          have e : (w.unwake (.op id)).pollOp id = (w.unwake (.op id)).resumeOp id s k v := by
            simp only [pollOp, unwake_opSt, hop, unwake_slot, hsl]
          rw [e]
          refine subOk_resumeOp _ id s k v hn (by simpa using hr) (fun hk => ?_)
          subst hk
          have := h.chanEx id (Or.inr ⟨s, hop⟩)
          simpa using this
        | closed =>
          have e : (w.unwake (.op id)).pollOp id = ((w.unwake (.op id)).clearSlot s).finishOp id
              (.err .contextExited) := by
            simp only [pollOp, unwake_opSt, hop, unwake_slot, hsl]
          rw [e]
          exact subOk_of_none (opSt_finishOp_none _ _ _ (by simpa using ho.nodup)) (by simpa using hr)

theorem dropOp_ops_rsps (w : World) (id : Nat) (st : OpSt) (hop : w.opSt id = some st) :
    (w.dropOp id).rsps = w.rsps ∧ (w.dropOp id).ops = eraseFirst id w.ops := by
  cases st with
  | fresh hd req => simp [dropOp, hop]
  | wait s k => cases k <;> simp [dropOp, hop, clearSlot, dropChanRx]

theorem str_dropOp (w : World) (id : Nat) (ho : OwnInv w) (h : StrInv w) : StrInv (w.dropOp id) := by
  have f := (own_dropOp w id ho).frame
  cases hop : w.opSt id with
  | none => simp only [dropOp, hop]; exact h
  | some st =>
    have hr : id ∉ w.rsps := fun hi => by have := (h.disjR id hi).1; rw [hop] at this; cases this
    obtain ⟨e1, e2⟩ := dropOp_ops_rsps w id st hop
    refine str_of_opFrame h (by rw [hop]; simp) f (subOk_of_none ?_ (by rw [e1]; exact hr))
    simp only [opSt, e2]
    exact lookupFirst_eraseFirst_self _ _ ho.nodup

/-! ## streams and responses -/

/-- the flag of a task that is not a live stream does not matter -/
theorem str_unwake_other (w : World) (t : Task) (h : StrInv w) (ht : ∀ n, t = .st n → n ∉ w.streams) :
    StrInv (w.unwake t) := by
  refine { disjR := h.disjR, disjS := h.disjS, chanEx := h.chanEx, strOk := fun n hn => ?_ }
  obtain ⟨ch, a, b⟩ := h.strOk n hn
  refine ⟨ch, a, ?_⟩
  rcases b with b | b
  · left
    simp only [unwake, List.mem_filter, b, true_and, decide_eq_true_eq]
    intro e; exact ht n e.symm hn
  · exact Or.inr b

/-- a stream is gone (ended, or dropped by its owner) together with its channel -/
theorem str_endStream {w w' : World} (id : Nat) (h : StrInv w) (hid : id ∈ w.streams)
    (h1 : w'.ops = w.ops) (h2 : w'.rsps = w.rsps) (h3 : w'.streams = w.streams.filter (· ≠ id))
    (h4 : w'.chans = eraseFirst id w.chans)
    (h5 : ∀ n, n ≠ id → Task.st n ∈ w.woken → Task.st n ∈ w'.woken) : StrInv w' := by
  have ho : ∀ i, w'.opSt i = w.opSt i := fun i => by simp [opSt, h1]
  have hc : ∀ c, c ≠ id → w'.chan c = w.chan c := fun c hne => by
    simp [chan, h4, lookupFirst_eraseFirst_ne _ _ _ hne]
  have hmem : ∀ n, n ∈ w'.streams → n ∈ w.streams ∧ n ≠ id := by
    intro n hn; rw [h3] at hn; simpa using hn
  exact {
    disjR := fun n hn => by
      rw [ho]
      obtain ⟨a, b⟩ := h.disjR n (by rw [← h2]; exact hn)
      exact ⟨a, fun hm => b (hmem n hm).1⟩
    disjS := fun n hn => by rw [ho]; exact h.disjS n (hmem n hn).1
    chanEx := fun n hn => by
      have hne : n ≠ id := by
        intro e; subst e
        rcases hn with hn | ⟨s, hn⟩
        · exact (h.disjR n (by rw [← h2]; exact hn)).2 hid
        · rw [ho, h.disjS n hid] at hn; cases hn
      rw [hc n hne]; apply h.chanEx
      rcases hn with hn | ⟨s, hn⟩
      · exact Or.inl (by rw [← h2]; exact hn)
      · exact Or.inr ⟨s, by rw [← ho]; exact hn⟩
    strOk := fun n hn => by
      obtain ⟨a, b⟩ := hmem n hn
      obtain ⟨ch, c, d⟩ := h.strOk n a
      refine ⟨ch, by rw [hc n b]; exact c, ?_⟩
      rcases d with d | d
      · exact Or.inl (h5 n b d)
      · exact Or.inr d }

/-- the entry of a live stream's channel is replaced by the stream itself -/
theorem str_setChan {w w' : World} (id : Nat) (c1 : Chan) (h : StrInv w)
    (h1 : w'.ops = w.ops) (h2 : w'.rsps = w.rsps) (h3 : w'.streams = w.streams)
    (h4 : w'.chans = setAssoc id c1 w.chans)
    (h5 : ∀ n, n ≠ id → Task.st n ∈ w.woken → Task.st n ∈ w'.woken)
    (h6 : Task.st id ∈ w'.woken ∨ (c1.buf = [] ∧ c1.reg = true ∧ c1.txAlive = true)) : StrInv w' := by
  have ho : ∀ i, w'.opSt i = w.opSt i := fun i => by simp [opSt, h1]
  have hc : ∀ c, w'.chan c = if c = id then some c1 else w.chan c := fun c => by
    simp [chan, h4, lookupFirst_setAssoc]
  exact {
    disjR := fun n hn => by rw [ho, h3]; exact h.disjR n (by rw [← h2]; exact hn)
    disjS := fun n hn => by rw [ho]; exact h.disjS n (by rw [← h3]; exact hn)
    chanEx := fun n hn => by
      rw [hc]
      split
      · simp
      · apply h.chanEx
        rcases hn with hn | ⟨s, hn⟩
        · exact Or.inl (by rw [← h2]; exact hn)
        · exact Or.inr ⟨s, by rw [← ho]; exact hn⟩
    strOk := fun n hn => by
      rw [h3] at hn
      by_cases e : n = id
      · subst e; exact ⟨c1, by rw [hc]; simp, h6⟩
      · obtain ⟨ch, c, d⟩ := h.strOk n hn
        refine ⟨ch, by rw [hc]; simp [e, c], ?_⟩
        rcases d with d | d
        · exact Or.inl (h5 n e d)
        · exact Or.inr d }

theorem mem_unwake_st_ne (w : World) (id n : Nat) (hne : n ≠ id) (h : Task.st n ∈ w.woken) :
    Task.st n ∈ (w.unwake (.st id)).woken := by
  simp only [unwake, List.mem_filter, h, true_and, decide_eq_true_eq]
  intro e; cases e; exact hne rfl

/-- **one poll of a subscription stream** -/
theorem str_pollStream (w : World) (id : Nat) (h : StrInv w) : StrInv ((w.unwake (.st id)).pollStream id) := by
  by_cases hs : id ∈ w.streams
  · obtain ⟨ch, hch, _⟩ := h.strOk id hs
    have hs1 : id ∈ (w.unwake (.st id)).streams := by simpa using hs
    have hch1 : (w.unwake (.st id)).chan id = some ch := by simpa using hch
    cases hb : ch.buf with
    | cons p rest =>
      have e : (w.unwake (.st id)).pollStream id =
          (((w.unwake (.st id)).setChan id { ch with buf := rest }).emit (.item id p)).wake (.st id) := by
        simp [pollStream, hs, hs1, hch1, hb]
      rw [e]
      exact str_setChan id { ch with buf := rest } h (by simp) (by simp) (by simp) (by simp)
        (fun n hne hn => mem_wake_of_mem _ _ _ (by simpa using mem_unwake_st_ne w id n hne hn))
        (Or.inl (mem_wake_self _ _))
    | nil =>
      cases ht : ch.txAlive with
      | true =>
        have e : (w.unwake (.st id)).pollStream id = (w.unwake (.st id)).setChan id { ch with reg := true } := by
          simp [pollStream, hs, hs1, hch1, hb, ht]
        rw [e]
        exact str_setChan id { ch with reg := true } h (by simp) (by simp) (by simp) (by simp)
          (fun n hne hn => by simpa using mem_unwake_st_ne w id n hne hn) (Or.inr ⟨hb, rfl, ht⟩)
      | false =>
        have e : (w.unwake (.st id)).pollStream id =
            (({ (w.unwake (.st id)) with streams := (w.unwake (.st id)).streams.filter (· ≠ id) }).dropChanRx
              id).emit (.endStream id) := by
          simp [pollStream, hs, hs1, hch1, hb, ht]
        rw [e]
        exact str_endStream id h hs (by simp) (by simp) (by simp) (by simp)
          (fun n hne hn => by simpa using mem_unwake_st_ne w id n hne hn)
  · have e : (w.unwake (.st id)).pollStream id = w.unwake (.st id) :=
      User.pollStream_noop _ _ (Or.inl (by simpa using hs))
    rw [e]
    exact str_unwake_other w _ h (fun n e => by cases e; exact hs)

/-- both invariants together -/
structure Both (w : World) : Prop where
  own : OwnInv w
  str : StrInv w

theorem both_pollTask (w : World) (t : Task) (h : Both w) : Both (w.pollTask t) := by
  refine ⟨own_pollTask w t h.own, ?_⟩
  cases t with
  | ctx => exact str_pollCtx _ (str_unwake_other w _ h.str (fun n e => by cases e))
  | op id => exact str_pollOp_task w id h.own h.str
  | st id => exact str_pollStream w id h.str

/-! ## script events -/

/-- the script does not start an operation under the identifier of a response or stream that is still alive -/
def opFresh (w : World) : Ev → Prop
  | .op id _ _ => id ∉ w.rsps ∧ id ∉ w.streams
  | _ => True

theorem str_badScript (w : World) (h : StrInv w) : StrInv w.badScript := by
  unfold badScript; str_eq h

theorem str_feedEvents (w : World) (evs : List ReadEv) (h : StrInv w) : StrInv (w.feedEvents evs) := by
  unfold feedEvents
  simp only
  split
  · str_eq h
  · str_eq h

theorem str_flushRaw (w : World) (h : StrInv w) : StrInv w.flushRaw := by
  unfold flushRaw
  split
  · exact h
  · str_eq h

theorem str_senderGone (w : World) (h : StrInv w) : StrInv w.senderGone :=
  str_congr h (by simp) (by simp) (by simp) (by simp) (fun n hn => mem_senderGone_of_mem _ _ hn)

theorem str_apply (w : World) (e : Ev) (h : Both w) (hf : opFresh w e) : StrInv (w.apply e) := by
  have hs := h.str
  cases e with
  | setup =>
    simp only [apply]
    split
    · exact str_badScript w hs
    · split
      · split
        · exact str_badScript w hs
        · str_eq hs
      · have h1 := str_flushRaw w hs
        str_eq h1
  | connect t =>
    simp only [apply]; split
    · exact str_badScript w hs
    · str_eq hs
  | authorize a =>
    simp only [apply]; split
    · exact str_badScript w hs
    · str_eq hs
  | run =>
    simp only [apply]; split
    · exact str_badScript w hs
    · str_eq hs
  | dropFut => simp only [apply]; str_eq hs
  | dropCtx =>
    cases hc : w.hasCtx with
    | false =>
      have e : w.apply .dropCtx = { w with task := .none } := by simp [apply, hc]
      rw [e]; str_eq hs
    | true =>
      rw [apply_dropCtx w hc]
      have h0 : StrInv (dropCtxStart w) := by unfold dropCtxStart; str_eq hs
      have h1 := str_of_act h0 (actInv_closes (closes_dropCtxClosed w))
      str_eq h1
  | markDisc secs =>
    simp only [apply]; split
    · exact str_badScript w hs
    · str_eq hs
  | snap =>
    simp only [apply]; split
    · exact str_badScript w hs
    · str_eq hs
  | feed chunks =>
    simp only [apply]; split
    · exact str_badScript w hs
    · exact str_feedEvents w _ hs
  | feedEof =>
    simp only [apply]; split
    · exact str_badScript w hs
    · exact str_feedEvents w _ hs
  | feedErr =>
    simp only [apply]; split
    · exact str_badScript w hs
    · exact str_feedEvents w _ hs
  | op id hd req =>
    simp only [apply]; split
    · exact str_badScript w hs
    · rename_i hcond
      obtain ⟨f1, f2⟩ := hf
      have hnone : w.opSt id = none := by
        cases hop : w.opSt id with
        | none => rfl
        | some v => exact absurd (Or.inr (by simp [hop])) hcond
      have ho : ∀ i, i ≠ id → (({ w with ops := w.ops ++ [(id, OpSt.fresh hd req)] } : World).wake (.op id)).opSt i
          = w.opSt i := by
        intro i hi
        simp only [opSt, wake_ops, lookupFirst_append]
        cases lookupFirst i w.ops with
        | none => simp [lookupFirst, Ne.symm hi]
        | some v => rfl
      have hoid : (({ w with ops := w.ops ++ [(id, OpSt.fresh hd req)] } : World).wake (.op id)).opSt id
          = some (.fresh hd req) := by
        simp only [opSt, wake_ops, lookupFirst_append]
        rw [show lookupFirst id w.ops = none from hnone]
        simp [lookupFirst]
      exact {
        disjR := fun n hn => by
          have hn' : n ∈ w.rsps := by simpa using hn
          have hne : n ≠ id := by intro e; subst e; exact f1 hn'
          rw [ho n hne]; simpa using hs.disjR n hn'
        disjS := fun n hn => by
          have hn' : n ∈ w.streams := by simpa using hn
          have hne : n ≠ id := by intro e; subst e; exact f2 hn'
          rw [ho n hne]; exact hs.disjS n hn'
        chanEx := fun n hn => by
          have : w.chan n ≠ none := by
            apply hs.chanEx
            rcases hn with hn | ⟨s, hn⟩
            · exact Or.inl (by simpa using hn)
            · by_cases hne : n = id
              · subst hne; rw [hoid] at hn; cases hn
              · exact Or.inr ⟨s, by rw [← ho n hne]; exact hn⟩
          simpa [chan] using this
        strOk := fun n hn => by
          obtain ⟨ch, a, b⟩ := hs.strOk n (by simpa using hn)
          refine ⟨ch, by simpa [chan] using a, ?_⟩
          rcases b with b | b
          · exact Or.inl (mem_wake_of_mem _ _ _ b)
          · exact Or.inr b }
  | poll t =>
    simp only [apply]; split
    · exact (both_pollTask w t h).str
    · exact hs
  | hold t =>
    simp only [apply]; split
    · exact hs
    · str_eq hs
  | release t => simp only [apply]; str_eq hs
  | drop t =>
    cases t with
    | ctx => exact hs
    | op id => exact str_dropOp w id h.own hs
    | st id =>
      simp only [apply]; split
      · rename_i hid
        exact str_endStream id hs hid (by simp) (by simp) (by simp) (by simp) (fun n _ hn => by simpa using hn)
      · exact hs
  | dropRsp id =>
    simp only [apply]; split
    · rename_i hid
      -- the response (with its stream) is dropped before it was turned into a stream
      have hnone := (hs.disjR id hid).1
      have hnst := (hs.disjR id hid).2
      have hc : ∀ c, c ≠ id → (({ w with rsps := w.rsps.filter (· ≠ id) } : World).dropChanRx id).chan c = w.chan c :=
        fun c hne => by simp [chan, dropChanRx, lookupFirst_eraseFirst_ne _ _ _ hne]
      exact {
        disjR := fun n hn => by
          have hn' : n ∈ w.rsps := by
            have : n ∈ w.rsps.filter (· ≠ id) := hn
            exact (List.mem_filter.mp this).1
          exact hs.disjR n hn'
        disjS := fun n hn => hs.disjS n hn
        chanEx := fun n hn => by
          have hne : n ≠ id := by
            intro e; subst e
            rcases hn with hn | ⟨s, hn⟩
            · have : n ∈ w.rsps.filter (· ≠ n) := hn
              simp at this
            · have hn' : w.opSt n = some (.wait s .suback) := hn
              rw [hnone] at hn'; cases hn'
          rw [hc n hne]; apply hs.chanEx
          rcases hn with hn | ⟨s, hn⟩
          · have : n ∈ w.rsps.filter (· ≠ id) := hn
            exact Or.inl (List.mem_filter.mp this).1
          · exact Or.inr ⟨s, hn⟩
        strOk := fun n hn => by
          have hn' : n ∈ w.streams := hn
          have hne : n ≠ id := by intro e; subst e; exact hnst hn'
          obtain ⟨ch, a, b⟩ := hs.strOk n hn'
          exact ⟨ch, by rw [hc n hne]; exact a, b⟩ }
    · exact hs
  | stream id =>
    simp only [apply]; split
    · exact str_badScript w hs
    · rename_i hid
      have hid' : id ∈ w.rsps := by simpa using hid
      have hnone := (hs.disjR id hid').1
      have hnst := (hs.disjR id hid').2
      exact {
        disjR := fun n hn => by
          have hn1 : n ∈ w.rsps.filter (· ≠ id) := by simpa using hn
          obtain ⟨hn2, hn3⟩ := List.mem_filter.mp hn1
          have hne : n ≠ id := by simpa using hn3
          obtain ⟨a, b⟩ := hs.disjR n hn2
          refine ⟨by simpa [opSt] using a, ?_⟩
          simp only [wake_streams, List.mem_append, List.mem_singleton, not_or]
          exact ⟨b, hne⟩
        disjS := fun n hn => by
          simp only [wake_streams, List.mem_append, List.mem_singleton] at hn
          rcases hn with hn | hn
          · simpa [opSt] using hs.disjS n hn
          · subst hn; simpa [opSt] using hnone
        chanEx := fun n hn => by
          have : w.chan n ≠ none := by
            apply hs.chanEx
            rcases hn with hn | ⟨s, hn⟩
            · have hn1 : n ∈ w.rsps.filter (· ≠ id) := by simpa using hn
              exact Or.inl (List.mem_filter.mp hn1).1
            · exact Or.inr ⟨s, by simpa [opSt] using hn⟩
          simpa [chan] using this
        strOk := fun n hn => by
          simp only [wake_streams, List.mem_append, List.mem_singleton] at hn
          rcases hn with hn | hn
          · obtain ⟨ch, a, b⟩ := hs.strOk n hn
            refine ⟨ch, by simpa [chan] using a, ?_⟩
            rcases b with b | b
            · exact Or.inl (mem_wake_of_mem _ _ _ b)
            · exact Or.inr b
          · subst hn
            have hex := hs.chanEx n (Or.inl hid')
            cases hv : w.chan n with
            | none => exact absurd hv hex
            | some ch => exact ⟨ch, by simpa [chan] using hv, Or.inl (mem_wake_self _ _)⟩ }
  | clone hd h2 =>
    simp only [apply]; split
    · exact str_badScript w hs
    · str_eq hs
  | dropHandle hd =>
    simp only [apply]; split
    · exact str_badScript w hs
    · exact str_senderGone _ (by str_eq hs)

theorem both_apply (w : World) (e : Ev) (h : Both w) (hf : opFresh w e) : Both (w.apply e) :=
  ⟨own_apply w e h.own, str_apply w e h hf⟩

/-! ## the executor, whole scripts -/

theorem both_drain (f : Nat) (w : World) (h : Both w) : Both (drain f w) := by
  induction f generalizing w with
  | zero => exact h
  | succ f ih =>
    simp only [drain]
    split
    · exact h
    · exact ih _ (both_pollTask w _ h)

theorem both_sweep (w : World) (h : Both w) : Both w.sweep := by
  unfold sweep
  simp only
  generalize ([Task.ctx] ++ List.map Task.op (sortNat (List.map (fun x => x.1) w.ops)) ++
    List.map Task.st (sortNat w.streams)) = tasks
  suffices hh : ∀ (l : List Task) (w0 : World), Both w0 →
      Both (l.foldl (fun w t => if w.taskLive t ∧ t ∉ w.woken ∧ t ∉ w.held then w.pollTask t else w) w0) from
    hh tasks w h
  intro l
  induction l with
  | nil => intro w0 h0; exact h0
  | cons t rest ih =>
    intro w0 h0
    simp only [List.foldl_cons]
    split
    · exact ih _ (both_pollTask w0 t h0)
    · exact ih _ h0

theorem both_emit (w : World) (o : Obs) (h : Both w) : Both (w.emit o) :=
  ⟨own_emit w o h.own, by have hs := h.str; str_eq hs⟩

theorem opFresh_emit (w : World) (o : Obs) (e : Ev) (h : opFresh w e) : opFresh (w.emit o) e := by
  cases e with
  | op id hd req => simpa [opFresh] using h
  | _ => trivial

theorem both_step (w : World) (e : Ev) (h : Both w) (hf : opFresh w e) : Both (w.step e) := by
  unfold step
  split
  · exact h
  · have h1 : Both ((w.emit (.ev e)).apply e) := both_apply _ e (both_emit w _ h) (opFresh_emit w _ e hf)
    generalize (w.emit (.ev e)).apply e = w1 at h1 ⊢
    simp only
    split
    · exact h1
    · have h2 : Both (drain w1.drainFuel w1) := both_drain _ _ h1
      generalize drain w1.drainFuel w1 = w2 at h2 ⊢
      have h3 : Both (if w2.cfg.sweep = true then drain w2.sweep.drainFuel w2.sweep else w2) := by
        split
        · exact both_drain _ _ (both_sweep w2 h2)
        · exact h2
      generalize (if w2.cfg.sweep = true then drain w2.sweep.drainFuel w2.sweep else w2) = w3 at h3 ⊢
      split
      · exact both_emit _ _ h3
      · exact h3

/-- along the script, no operation is started under the identifier of a response or stream that is still alive -/
def GoodFrom (w : World) : List Ev → Prop
  | [] => True
  | e :: t => opFresh w e ∧ GoodFrom (w.step e) t

theorem both_steps (evs : List Ev) (w : World) (h : Both w) (hg : GoodFrom w evs) : Both (evs.foldl step w) := by
  induction evs generalizing w with
  | nil => exact h
  | cons e t ih => exact ih _ (both_step w e h hg.1) hg.2

/-- **`StrInv` holds in every world reachable by a script that does not re-use live stream identifiers** -/
theorem strInv_script (cfg : Cfg) (evs : List Ev) (hg : GoodFrom { cfg := cfg } evs) :
    StrInv (evs.foldl step { cfg := cfg }) :=
  (both_steps evs _ ⟨ownInv_init cfg, strInv_init cfg⟩ hg).str

end World
end Poster
