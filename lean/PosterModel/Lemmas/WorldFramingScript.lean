/-
  Lemmas/WorldFramingScript.lean — the ghost bookkeeping of Properties/C03World.lean carried through whole scripts
  (work package W12, namespace `Poster.World.W12`).

  * `FLog`: the ghost — the read events fed since the last `setup` (`fed`), the frames the context task handed to
    `decodeRx` since then (`dec`), and the length of the transcript at that `setup` (`mark`);
  * `FLog.poll`, `FLog.apply`, `drainG`, `sweepG`, `stepG`, `stepsG`, `flog`: the ghost updated alongside `pollTask`,
    `apply`, `drain`, `sweep`, `step`, a whole script (same recursion as the machine, which they do not influence);
  * `FInv w g`: the invariant; `GInv = OwnInv ∧ FInv`; `ginv_script`: it holds after every script.
-/
import PosterModel.Lemmas.WorldFraming

set_option linter.unusedVariables false
set_option linter.unusedSimpArgs false

namespace Poster
open Framing
namespace World
namespace W12

/-! ## the ghost -/

/-- the ghost bookkeeping of one connection -/
structure FLog where
  /-- the read events the script fed since the last `setup`, as the script states them (before `cfg.rdp` / `cfg.fill`
      re-chunk them) -/
  fed : List ReadEv := []
  /-- the frames the context task handed to `decodeRx` since the last `setup`, in order -/
  dec : List Bytes := []
  /-- the length of the transcript right after the last `setup` -/
  mark : Nat := 0

/-- the ghost after `w.pollTask t`: a poll of the context task appends the frames it hands to the decoder -/
def FLog.poll (g : FLog) (w : World) (t : Task) : FLog :=
  match t with
  | .ctx => { g with dec := g.dec ++ ctxFrames (w.unwake .ctx) }
  | _ => g

/-- the ghost after `w.apply e`: an accepted `setup` starts a new connection, an accepted `feed` / `feedEof` / `feedErr`
    appends its read events, a `poll` is a poll -/
def FLog.apply (g : FLog) (w : World) (e : Ev) : FLog :=
  match e with
  | .setup =>
    if w.task ≠ .none ∨ w.ctxDropped then g else
    if !w.hasCtx then
      if w.handles ≠ [] ∨ w.ops ≠ [] then g else { mark := w.out.length }
    else { mark := w.flushRaw.out.length }
  | .feed chunks => if !w.hasCtx then g else { g with fed := g.fed ++ chunks.map ReadEv.data }
  | .feedEof => if !w.hasCtx then g else { g with fed := g.fed ++ [.eof] }
  | .feedErr => if !w.hasCtx then g else { g with fed := g.fed ++ [.err] }
  | .poll t => if w.taskLive t then g.poll w t else g
  | _ => g

/-- the ghost after `drain f w` -/
def drainG : Nat → World → FLog → FLog
  | 0, _, g => g
  | f+1, w, g =>
    match w.pick with
    | none => g
    | some t => drainG f (w.pollTask t) (g.poll w t)

/-- the ghost after the sweep over the tasks `l` -/
def sweepListG : List Task → World → FLog → FLog
  | [], _, g => g
  | t :: l, w, g =>
    if w.taskLive t ∧ t ∉ w.woken ∧ t ∉ w.held then sweepListG l (w.pollTask t) (g.poll w t) else sweepListG l w g

/-- the ghost after `w.sweep` -/
def sweepG (w : World) (g : FLog) : FLog :=
  sweepListG ([Task.ctx] ++ (sortNat (w.ops.map (·.1))).map Task.op ++ (sortNat w.streams).map Task.st) w g

/-- the ghost after `w.step e` -/
def stepG (w : World) (e : Ev) (g : FLog) : FLog :=
  if w.bad then g else
  let g1 := g.apply (w.emit (.ev e)) e
  let w1 := (w.emit (.ev e)).apply e
  if w1.bad then g1 else
  let g2 := drainG w1.drainFuel w1 g1
  let w2 := drain w1.drainFuel w1
  if w2.cfg.sweep then drainG w2.sweep.drainFuel w2.sweep (sweepG w2 g2) else g2

/-- the ghost after the script `evs` from `w` -/
def stepsG : List Ev → World → FLog → FLog
  | [], _, g => g
  | e :: t, w, g => stepsG t (w.step e) (stepG w e g)

/-- **the ghost of a script**: what was fed and what was handed to the decoder since the last `setup` -/
def flog (cfg : Cfg) (evs : List Ev) : FLog := stepsG evs { cfg := cfg } {}

/-! ## steps that concern neither the receive side nor the context task -/

/-- an alive context future that is not flagged left the framing machine in `Idle` -/
def IdleP (w : World) : Prop := w.task ≠ .none → Task.ctx ∉ w.woken → w.rx.st = .idle

/-- `w'` is `w` after something that touches neither the receive side of the transport nor the context, takes no flag
    from the context task, and logs no `RET … SocketClosed` -/
structure Same (w w' : World) : Prop where
  rx_eq : w'.rx = w.rx
  reader_eq : w'.reader = w.reader
  cfg_eq : w'.cfg = w.cfg
  dropped_eq : w'.ctxDropped = w.ctxDropped
  idle : IdleP w → IdleP w'
  out : OutExtP NoSock w w'

theorem Same.refl (w : World) : Same w w := ⟨rfl, rfl, rfl, rfl, id, outExtP_refl _ _⟩

theorem Same.trans {a b c : World} (h1 : Same a b) (h2 : Same b c) : Same a c :=
  ⟨h2.rx_eq.trans h1.rx_eq, h2.reader_eq.trans h1.reader_eq, h2.cfg_eq.trans h1.cfg_eq,
    h2.dropped_eq.trans h1.dropped_eq, fun h => h2.idle (h1.idle h), outExtP_trans h1.out h2.out⟩

theorem idleP_of_sframe {w w' : World} (sf : W5.SFrame w w') (h1 : w'.rx = w.rx) (hi : IdleP w) : IdleP w' := by
  intro hne hnw
  rw [h1]
  exact hi (by rw [← sf.task_eq]; exact hne) (fun x => hnw (sf.wk x))

theorem idleP_of_none {w : World} (h : w.task = .none) : IdleP w := fun hne _ => absurd h hne
theorem idleP_of_woken {w : World} (h : Task.ctx ∈ w.woken) : IdleP w := fun _ hnw => absurd h hnw

theorem Same.of_frames {w w' : World} (sf : W5.SFrame w w') (uf : W7.UFrame w w') (ho : OutExtP NoSock w w') :
    Same w w' :=
  ⟨uf.rx, sf.reader_eq, uf.cfg, uf.ctxDropped, idleP_of_sframe sf uf.rx, ho⟩

theorem noSock_of_userObs {o : Obs} (h : W7.UserObs o) : NoSock o :=
  noSock_of_noRet (W7.noRet_of_plain (W7.plain_of_userObs h))
theorem noSock_of_dull {o : Obs} (h : W7.Dull o) : NoSock o :=
  noSock_of_noRet (W7.noRet_of_plain (W7.plain_of_dull h))

theorem same_emit (w : World) (o : Obs) (ho : NoSock o) : Same w (w.emit o) :=
  ⟨rfl, rfl, rfl, rfl, id, outExtP_one o rfl ho⟩

/-- a poll of a handle future or of a stream -/
theorem same_pollUser (w : World) (t : Task) (ht : t ≠ .ctx) : Same w (w.pollTask t) := by
  obtain ⟨uf, hout⟩ := W7.pollTask_user w t ht
  refine Same.of_frames ?_ uf (outExtP_mono hout (fun _ => noSock_of_userObs))
  cases t with
  | ctx => exact absurd rfl ht
  | op id => exact W5.w5s_uf_trans (W5.w5s_uf_unwake w _ (by intro e; cases e)) (W5.w5s_uf_pollOp _ _)
  | st id => exact W5.w5s_uf_trans (W5.w5s_uf_unwake w _ (by intro e; cases e)) (W5.w5s_uf_pollStream _ _)

/-- what a script event other than `poll` logs -/
theorem apply_noSock (w : World) (e : Ev) (hp : ∀ t, e ≠ .poll t) : OutExtP NoSock w (w.apply e) := by
  rcases W7.apply_cases w e with ⟨t, rfl, _⟩ | ⟨tk, _, _, _, h4⟩ | hpas
  · exact absurd rfl (hp t)
  · rw [h4]; exact outExtP_of_eq (by simp)
  · exact outExtP_mono hpas.out (fun o ho => noSock_of_dull ho)

/-! ## the invariant -/

/-- **the invariant of the ghost bookkeeping** -/
structure FInv (w : World) (g : FLog) : Prop where
  /-- the framing state satisfies its invariant -/
  ok : w.rx.Ok
  /-- every frame handed to the decoder is exactly one whole frame -/
  whole : ∀ fr ∈ g.dec, OneFrame fr
  /-- the frames handed to the decoder, concatenated, are a prefix of the bytes fed; while the context exists what
      remains is exactly what is in flight on the receive side -/
  pre : ∃ rest, g.dec.flatten ++ rest = dataOf g.fed ∧ (w.ctxDropped = false → rest = inbound w)
  /-- the transport's script ends iff an end event was fed -/
  ends : w.ctxDropped = false → hasEnd w.reader = hasEnd g.fed
  /-- under `cfg.fill` no zero-length read is pending -/
  noEmpty : w.cfg.fill = true → NoEmpty w.reader
  idle : IdleP w
  mark : g.mark ≤ w.out.length
  /-- `RET … SocketClosed` was logged in this connection only for a cause -/
  sock : ∀ c, Obs.ret c (.err .socketClosed) ∈ w.out.drop g.mark →
    w.cfg.wlimit ≠ none ∨ hasEnd g.fed = true ∨ frames (dataOf g.fed) = none

theorem finv_init (cfg : Cfg) : FInv { cfg := cfg } {} where
  ok := ok_init
  whole := by intro fr h; cases h
  pre := ⟨[], rfl, fun _ => rfl⟩
  ends := fun _ => rfl
  noEmpty := fun _ => noEmpty_nil
  idle := idleP_of_none rfl
  mark := Nat.le_refl _
  sock := by intro c h; cases h

theorem FInv.same {w w' : World} {g : FLog} (h : FInv w g) (s : Same w w') : FInv w' g where
  ok := by rw [s.rx_eq]; exact h.ok
  whole := h.whole
  pre := by
    obtain ⟨rest, e, hr⟩ := h.pre
    refine ⟨rest, e, fun hd => ?_⟩
    rw [hr (by rw [← s.dropped_eq]; exact hd)]
    simp [inbound, s.rx_eq, s.reader_eq]
  ends := fun hd => by rw [s.reader_eq]; exact h.ends (by rw [← s.dropped_eq]; exact hd)
  noEmpty := fun hf => by rw [s.reader_eq]; exact h.noEmpty (by rw [← s.cfg_eq]; exact hf)
  idle := s.idle h.idle
  mark := by
    obtain ⟨added, e, _⟩ := s.out
    rw [e]; simp only [List.length_append]; have := h.mark; omega
  sock := by
    obtain ⟨added, e, hn⟩ := s.out
    intro c hc
    rw [e, List.drop_append_of_le_length h.mark] at hc
    rcases List.mem_append.mp hc with hc | hc
    · rw [s.cfg_eq]; exact h.sock c hc
    · exact absurd rfl (hn _ hc c)

theorem pollCtx_out_ext (w : World) : ∃ added, w.pollCtx.out = w.out ++ added := by
  rcases W7.pollCtx_shape w with ⟨_, pre, _, hp⟩ | ⟨_, pre, last, _, hp, _⟩
  · exact ⟨pre, hp⟩
  · exact ⟨pre ++ [last], by rw [hp, List.append_assoc]⟩

/-- **a poll of the context task** -/
theorem FInv.pollCtx {w : World} {g : FLog} (h : FInv w g) (ho : OwnInv w) :
    FInv (w.pollTask .ctx) (g.poll w .ctx) := by
  show FInv (w.unwake .ctx).pollCtx { g with dec := g.dec ++ ctxFrames (w.unwake .ctx) }
  cases hd : w.ctxDropped with
  | true =>
    have ht' : w.task = .none := ho.noTask (ho.dropped hd)
    have ht : (w.unwake .ctx).task = .none := ht'
    have e1 : (w.unwake .ctx).pollCtx = w.unwake .ctx := by simp [World.pollCtx, ht']
    have e2 : ctxFrames (w.unwake .ctx) = [] := by simp [ctxFrames, ht']
    rw [e1, e2, List.append_nil]
    exact h.same ⟨rfl, rfl, rfl, rfl, fun _ => idleP_of_none ht, outExtP_of_eq rfl⟩
  | false =>
    have hstep := pollCtx_wstep (w.unwake .ctx)
    have hok : (w.unwake .ctx).rx.Ok := h.ok
    have hcfg : (w.unwake .ctx).pollCtx.cfg = w.cfg := pollCtx_cfg _
    have hdr : (w.unwake .ctx).pollCtx.ctxDropped = w.ctxDropped := hstep.dropped
    obtain ⟨rest, e, hr⟩ := h.pre
    have hrest : rest = inbound w := hr hd
    have hinb : inbound w = (ctxFrames (w.unwake .ctx)).flatten ++ inbound (w.unwake .ctx).pollCtx :=
      hstep.fs.inb hok
    obtain ⟨added, hout⟩ := pollCtx_out_ext (w.unwake .ctx)
    have hout' : (w.unwake .ctx).pollCtx.out = w.out ++ added := hout
    refine ⟨hstep.fs.ok hok, ?_, ?_, ?_, ?_, ?_, ?_, ?_⟩
    · intro fr hfr
      rcases List.mem_append.mp hfr with m | m
      · exact h.whole fr m
      · exact hstep.fs.whole hok fr m
    · refine ⟨inbound (w.unwake .ctx).pollCtx, ?_, fun _ => rfl⟩
      rw [← e, hrest, hinb]
      simp [List.flatten_append]
    · intro _
      exact hstep.fs.ends.trans (h.ends hd)
    · intro hf
      exact hstep.fs.noEmpty (h.noEmpty (by rw [← hcfg]; exact hf))
    · intro hne _
      exact pollCtx_idle _ hok hne
    · rw [hout']; simp only [List.length_append]; have := h.mark; omega
    · intro c hc
      rw [hout', List.drop_append_of_le_length h.mark] at hc
      rw [hcfg]
      rcases List.mem_append.mp hc with hc | hc
      · exact h.sock c hc
      · rcases pollCtx_sock (w.unwake .ctx) hok added hout c hc with hs | hs | hs
        · exact Or.inl hs
        · exact Or.inr (Or.inl (by rw [← h.ends hd]; exact hs))
        · refine Or.inr (Or.inr ?_)
          have hs' : frames (inbound w) = none := hs
          rw [← e, hrest, frames_whole_prefix _ _ h.whole, hs']; rfl

/-- **a poll of any task** -/
theorem FInv.pollTask {w : World} {g : FLog} (h : FInv w g) (ho : OwnInv w) (t : Task) :
    FInv (w.pollTask t) (g.poll w t) := by
  cases t with
  | ctx => exact h.pollCtx ho
  | op id => exact h.same (same_pollUser w _ (by intro e; cases e))
  | st id => exact h.same (same_pollUser w _ (by intro e; cases e))

/-! ## script events -/

/-- the transport's script after `feedEvents evs`: `cfg.rdp` puts a spurious `Pending` in front of every event,
    `cfg.fill` merges adjacent reads -/
def fedReader (w : World) (evs : List ReadEv) : List ReadEv :=
  if w.cfg.fill then mergeRuns (w.reader ++ (if w.cfg.rdp then evs.flatMap fun e => [ReadEv.pending, e] else evs))
  else w.reader ++ (if w.cfg.rdp then evs.flatMap fun e => [ReadEv.pending, e] else evs)

theorem feedEvents_recv (w : World) (evs : List ReadEv) :
    (w.feedEvents evs).reader = fedReader w evs ∧ (w.feedEvents evs).rx = w.rx ∧ (w.feedEvents evs).cfg = w.cfg ∧
    (w.feedEvents evs).ctxDropped = w.ctxDropped ∧ (w.feedEvents evs).task = w.task ∧
    (w.feedEvents evs).out = w.out ∧ (Task.ctx ∈ w.woken → Task.ctx ∈ (w.feedEvents evs).woken) := by
  unfold feedEvents fedReader
  simp only
  split
  · refine ⟨by simp, by simp, by simp, by simp, by simp, by simp, fun h => ?_⟩
    exact mem_wake_of_mem _ .ctx .ctx h
  · exact ⟨rfl, rfl, rfl, rfl, rfl, rfl, id⟩

/-- re-chunking delivers the same bytes -/
theorem fedReader_facts (w : World) (evs : List ReadEv) (hne : w.cfg.fill = true → NoEmpty w.reader ∧ NoEmpty evs) :
    dataOf (fedReader w evs) = dataOf (w.reader ++ evs) ∧
    hasEnd (fedReader w evs) = (hasEnd w.reader || hasEnd evs) ∧
    (w.cfg.fill = true → NoEmpty (fedReader w evs)) := by
  have hE : ∃ E, (if w.cfg.rdp then evs.flatMap fun e => [ReadEv.pending, e] else evs) = E ∧
      dataOf E = dataOf evs ∧ hasEnd E = hasEnd evs ∧ (NoEmpty evs → NoEmpty E) := by
    cases w.cfg.rdp with
    | false => exact ⟨evs, by simp, rfl, rfl, id⟩
    | true => exact ⟨_, by simp, interleave_facts evs⟩
  obtain ⟨E, eE, d1, d2, d3⟩ := hE
  have hd : dataOf (w.reader ++ E) = dataOf (w.reader ++ evs) := by
    rw [dataOf_append_gen, dataOf_append_gen, d1]
  have he : hasEnd (w.reader ++ E) = (hasEnd w.reader || hasEnd evs) := by rw [hasEnd_append, d2]
  unfold fedReader
  rw [eE]
  cases hf : w.cfg.fill with
  | false => exact ⟨by simpa using hd, by simpa using he, fun h => by cases h⟩
  | true =>
    obtain ⟨n1, n2⟩ := hne hf
    obtain ⟨m1, m2, m3⟩ := mergeRuns_facts (w.reader ++ E) (noEmpty_append n1 (d3 n2))
    exact ⟨by simpa using m1.trans hd, by simpa using m2.trans he, fun _ => by simpa using m3⟩

/-- **read events are fed** -/
theorem FInv.feed {w : World} {g : FLog} (h : FInv w g) (evs : List ReadEv)
    (hne : w.cfg.fill = true → NoEmpty evs) : FInv (w.feedEvents evs) { g with fed := g.fed ++ evs } := by
  obtain ⟨r1, r2, r3, r4, r5, r6, r7⟩ := feedEvents_recv w evs
  obtain ⟨f1, f2, f3⟩ := fedReader_facts w evs (fun hf => ⟨h.noEmpty hf, hne hf⟩)
  refine ⟨by rw [r2]; exact h.ok, h.whole, ?_, ?_, ?_, ?_, by rw [r6]; exact h.mark, ?_⟩
  · obtain ⟨rest, e, hr⟩ := h.pre
    refine ⟨rest ++ (if hasEnd g.fed then [] else dataOf evs), ?_, fun hd => ?_⟩
    · show g.dec.flatten ++ _ = dataOf (g.fed ++ evs)
      rw [dataOf_append_gen, ← List.append_assoc, e]
      split <;> simp
    · have hd' : w.ctxDropped = false := by rw [← r4]; exact hd
      rw [hr hd']
      unfold inbound
      rw [r1, r2, f1, dataOf_append_gen, h.ends hd']
      split <;> simp
  · intro hd
    have hd' : w.ctxDropped = false := by rw [← r4]; exact hd
    show hasEnd (w.feedEvents evs).reader = hasEnd (g.fed ++ evs)
    rw [r1, f2, hasEnd_append, h.ends hd']
  · intro hf
    rw [r1]; exact f3 (by rw [← r3]; exact hf)
  · intro hne' hnw
    rw [r2]
    exact h.idle (by rw [← r5]; exact hne') (fun x => hnw (r7 x))
  · intro c hc
    rw [r6] at hc
    rw [r3]
    show _ ∨ hasEnd (g.fed ++ evs) = true ∨ frames (dataOf (g.fed ++ evs)) = none
    rcases h.sock c hc with hs | hs | hs
    · exact Or.inl hs
    · exact Or.inr (Or.inl (by rw [hasEnd_append, hs]; rfl))
    · refine Or.inr (Or.inr ?_)
      rw [dataOf_append_gen]
      split
      · exact hs
      · exact frames_none_append _ _ hs

theorem same_badScript (w : World) : Same w w.badScript :=
  ⟨rfl, rfl, rfl, rfl, id, outExtP_one .badscript rfl (by intro c e; cases e)⟩

/-- a new connection -/
theorem finv_fresh (w' : World) (h1 : w'.rx = {}) (h2 : w'.reader = []) (h3 : w'.task = .none) :
    FInv w' { mark := w'.out.length } where
  ok := by rw [h1]; exact ok_init
  whole := by intro fr h; cases h
  pre := ⟨[], rfl, fun _ => by simp [inbound, h1, h2, dataOf]⟩
  ends := fun _ => by rw [h2]
  noEmpty := fun _ => by rw [h2]; exact noEmpty_nil
  idle := idleP_of_none h3
  mark := Nat.le_refl _
  sock := by intro c h; simp at h

/-- the context is dropped -/
theorem FInv.dropped {w w' : World} {g : FLog} (h : FInv w g) (h1 : w'.rx = w.rx) (h2 : w'.ctxDropped = true)
    (h3 : w'.task = .none) (h4 : w'.reader = []) (h5 : w'.out = w.out) (h6 : w'.cfg = w.cfg) : FInv w' g where
  ok := by rw [h1]; exact h.ok
  whole := h.whole
  pre := by
    obtain ⟨rest, e, _⟩ := h.pre
    exact ⟨rest, e, fun hd => by rw [h2] at hd; cases hd⟩
  ends := fun hd => by rw [h2] at hd; cases hd
  noEmpty := fun _ => by rw [h4]; exact noEmpty_nil
  idle := idleP_of_none h3
  mark := by rw [h5]; exact h.mark
  sock := by rw [h5, h6]; exact h.sock

/-- under `cfg.fill` a `feed` event must not contain an empty chunk (adjacent reads are merged, which would swallow the
    zero-length read that stands for end-of-stream) -/
def feedOk : Ev → Prop
  | .feed chunks => ∀ c ∈ chunks, c ≠ []
  | _ => True

local macro "uf_rfl" : term => `(W5.w5s_uf_of_eq rfl rfl rfl rfl)

/-- **one script event** (before the executor runs) -/
theorem FInv.apply {w : World} {g : FLog} (h : FInv w g) (ho : OwnInv w) (e : Ev)
    (hf : w.cfg.fill = true → feedOk e) : FInv (w.apply e) (g.apply w e) := by
  have hb : FInv w.badScript g := h.same (same_badScript w)
  cases e with
  | setup =>
    simp only [World.apply, FLog.apply]
    by_cases h1 : w.task ≠ .none ∨ w.ctxDropped = true
    · rw [if_pos h1, if_pos h1]; exact hb
    · rw [if_neg h1, if_neg h1]
      have ht : w.task = .none := Classical.byContradiction (fun x => h1 (Or.inl x))
      cases hc : w.hasCtx with
      | false =>
        simp only [Bool.not_false, ↓reduceIte]
        by_cases h2 : w.handles ≠ [] ∨ w.ops ≠ []
        · rw [if_pos h2, if_pos h2]; exact hb
        · rw [if_neg h2, if_neg h2]
          exact finv_fresh _ rfl rfl ht
      | true =>
        simp only [Bool.not_true, Bool.false_eq_true, ↓reduceIte]
        exact finv_fresh _ rfl rfl (by show w.flushRaw.task = .none; rw [flushRaw_task]; exact ht)
  | connect t =>
    simp only [World.apply, FLog.apply]
    split
    · exact hb
    · exact h.same ⟨by simp, by simp, by simp, by simp, fun _ => idleP_of_woken (mem_wake_self _ _),
        outExtP_of_eq (by simp)⟩
  | authorize a =>
    simp only [World.apply, FLog.apply]
    split
    · exact hb
    · exact h.same ⟨by simp, by simp, by simp, by simp, fun _ => idleP_of_woken (mem_wake_self _ _),
        outExtP_of_eq (by simp)⟩
  | run =>
    simp only [World.apply, FLog.apply]
    split
    · exact hb
    · exact h.same ⟨by simp, by simp, by simp, by simp, fun _ => idleP_of_woken (mem_wake_self _ _),
        outExtP_of_eq (by simp)⟩
  | dropFut => exact h.same ⟨rfl, rfl, rfl, rfl, fun _ => idleP_of_none rfl, outExtP_of_eq rfl⟩
  | dropCtx =>
    simp only [FLog.apply]
    cases hc : w.hasCtx with
    | false =>
      have e : w.apply .dropCtx = { w with task := .none } := by simp [World.apply, hc]
      rw [e]
      exact h.same ⟨rfl, rfl, rfl, rfl, fun _ => idleP_of_none rfl, outExtP_of_eq rfl⟩
    | true =>
      rw [apply_dropCtx w hc]
      have inv := closes_inv (closes_dropCtxClosed w)
      refine h.dropped ?_ ?_ ?_ ?_ ?_ ?_
      · show (dropCtxClosed w).rx = w.rx; rw [inv.rx_eq]; rfl
      · show (dropCtxClosed w).ctxDropped = true; rw [inv.ctxDropped_eq]; rfl
      · show (dropCtxClosed w).task = .none; rw [inv.task_eq]; rfl
      · show (dropCtxClosed w).reader = []; rw [inv.reader_eq]; rfl
      · show (dropCtxClosed w).out = w.out; rw [inv.out_eq]; rfl
      · show (dropCtxClosed w).cfg = w.cfg; rw [inv.cfg_eq]; rfl
  | markDisc secs =>
    simp only [World.apply, FLog.apply]
    split
    · exact hb
    · exact h.same ⟨rfl, rfl, rfl, rfl, id, outExtP_of_eq rfl⟩
  | snap =>
    simp only [World.apply, FLog.apply]
    split
    · exact hb
    · exact h.same (same_emit w _ (by intro c e; cases e))
  | feed chunks =>
    simp only [World.apply, FLog.apply]
    split
    · exact hb
    · refine h.feed _ (fun hfl => ?_)
      intro bs hbs
      simp only [List.mem_map, ReadEv.data.injEq] at hbs
      obtain ⟨a, ha, rfl⟩ := hbs
      exact hf hfl a ha
  | feedEof =>
    simp only [World.apply, FLog.apply]
    split
    · exact hb
    · exact h.feed _ (fun _ => by intro bs hbs; simp at hbs)
  | feedErr =>
    simp only [World.apply, FLog.apply]
    split
    · exact hb
    · exact h.feed _ (fun _ => by intro bs hbs; simp at hbs)
  | op id hd req =>
    simp only [World.apply, FLog.apply]
    split
    · exact hb
    · exact h.same ⟨by simp, by simp, by simp, by simp,
        idleP_of_sframe (W5.w5s_uf_then (W5.w5s_uf_wake _ _) uf_rfl) (by simp), outExtP_of_eq (by simp)⟩
  | poll t =>
    simp only [World.apply, FLog.apply]
    by_cases hl : w.taskLive t = true
    · rw [if_pos hl, if_pos hl]; exact h.pollTask ho t
    · rw [if_neg hl, if_neg hl]; exact h
  | hold t =>
    simp only [World.apply, FLog.apply]
    split
    · exact h
    · exact h.same ⟨rfl, rfl, rfl, rfl, id, outExtP_of_eq rfl⟩
  | release t => exact h.same ⟨rfl, rfl, rfl, rfl, id, outExtP_of_eq rfl⟩
  | drop t =>
    cases t with
    | ctx => exact h
    | op id =>
      exact h.same (Same.of_frames (W5.w5s_uf_dropOp w id) (W7.uframe_dropOp w id)
        (outExtP_of_eq (dropOp_rx_out w id).2))
    | st id =>
      simp only [World.apply, FLog.apply]
      split
      · exact h.same ⟨rfl, rfl, rfl, rfl, fun x => x, outExtP_of_eq rfl⟩
      · exact h
  | dropRsp id =>
    simp only [World.apply, FLog.apply]
    split
    · exact h.same ⟨rfl, rfl, rfl, rfl, fun x => x, outExtP_of_eq rfl⟩
    · exact h
  | stream id =>
    simp only [World.apply, FLog.apply]
    split
    · exact hb
    · exact h.same ⟨by simp, by simp, by simp, by simp,
        idleP_of_sframe (W5.w5s_uf_then (W5.w5s_uf_wake _ _) uf_rfl) (by simp), outExtP_of_eq (by simp)⟩
  | clone hd h2 =>
    simp only [World.apply, FLog.apply]
    split
    · exact hb
    · exact h.same ⟨rfl, rfl, rfl, rfl, id, outExtP_of_eq rfl⟩
  | dropHandle hd =>
    simp only [World.apply, FLog.apply]
    split
    · exact hb
    · exact h.same ⟨by simp, by simp, by simp, by simp,
        idleP_of_sframe (W5.w5s_uf_then (W5.w5s_uf_senderGone _) uf_rfl) (by simp), outExtP_of_eq (by simp)⟩

/-! ## the executor, whole steps, whole scripts -/

/-- what the script-level induction carries: the sender-ownership invariant (a dropped context has no task) and the
    invariant of the ghost -/
structure GInv (w : World) (g : FLog) : Prop where
  own : OwnInv w
  inv : FInv w g

theorem ginv_init (cfg : Cfg) : GInv { cfg := cfg } {} := ⟨ownInv_init cfg, finv_init cfg⟩

theorem GInv.pollTask {w : World} {g : FLog} (h : GInv w g) (t : Task) : GInv (w.pollTask t) (g.poll w t) :=
  ⟨own_pollTask w t h.own, h.inv.pollTask h.own t⟩

theorem GInv.drain (f : Nat) {w : World} {g : FLog} (h : GInv w g) : GInv (drain f w) (drainG f w g) := by
  induction f generalizing w g with
  | zero => exact h
  | succ f ih =>
    simp only [World.drain, drainG]
    cases hp : w.pick with
    | none => exact h
    | some t => exact ih (h.pollTask t)

theorem GInv.sweepList (l : List Task) {w : World} {g : FLog} (h : GInv w g) :
    GInv (l.foldl (fun w t => if w.taskLive t ∧ t ∉ w.woken ∧ t ∉ w.held then w.pollTask t else w) w)
      (sweepListG l w g) := by
  induction l generalizing w g with
  | nil => exact h
  | cons t rest ih =>
    simp only [List.foldl_cons, sweepListG]
    by_cases hc : w.taskLive t = true ∧ t ∉ w.woken ∧ t ∉ w.held
    · rw [if_pos hc, if_pos hc]; exact ih (h.pollTask t)
    · rw [if_neg hc, if_neg hc]; exact ih h

theorem GInv.sweep {w : World} {g : FLog} (h : GInv w g) : GInv w.sweep (sweepG w g) := by
  unfold World.sweep sweepG
  exact h.sweepList _

/-- **one script step** -/
theorem GInv.step {w : World} {g : FLog} (h : GInv w g) (e : Ev) (hf : w.cfg.fill = true → feedOk e) :
    GInv (w.step e) (stepG w e g) := by
  unfold World.step stepG
  cases hb : w.bad with
  | true => simpa using h
  | false =>
    simp only [Bool.false_eq_true, ↓reduceIte]
    have h0 : GInv (w.emit (.ev e)) g :=
      ⟨own_emit w _ h.own, h.inv.same (same_emit w _ (by intro c x; cases x))⟩
    have h1 : GInv ((w.emit (.ev e)).apply e) (g.apply (w.emit (.ev e)) e) :=
      ⟨own_apply _ e h0.own, h0.inv.apply h0.own e hf⟩
    generalize (w.emit (.ev e)).apply e = w1 at h1 ⊢
    generalize g.apply (w.emit (.ev e)) e = g1 at h1 ⊢
    cases hb1 : w1.bad with
    | true => simpa using h1
    | false =>
      simp only [Bool.false_eq_true, ↓reduceIte]
      have h2 := h1.drain w1.drainFuel
      generalize World.drain w1.drainFuel w1 = w2 at h2 ⊢
      generalize drainG w1.drainFuel w1 g1 = g2 at h2 ⊢
      have h3 : GInv (if w2.cfg.sweep = true then World.drain w2.sweep.drainFuel w2.sweep else w2)
          (if w2.cfg.sweep = true then drainG w2.sweep.drainFuel w2.sweep (sweepG w2 g2) else g2) := by
        cases w2.cfg.sweep with
        | true => simpa using h2.sweep.drain _
        | false => simpa using h2
      generalize (if w2.cfg.sweep = true then World.drain w2.sweep.drainFuel w2.sweep else w2) = w3 at h3 ⊢
      generalize (if w2.cfg.sweep = true then drainG w2.sweep.drainFuel w2.sweep (sweepG w2 g2) else g2) = g3
        at h3 ⊢
      split
      · exact ⟨own_emit _ _ h3.own, h3.inv.same (same_emit _ _ (by intro c x; cases x))⟩
      · exact h3

/-- **whole scripts** -/
theorem GInv.steps (evs : List Ev) {w : World} {g : FLog} (h : GInv w g)
    (hf : w.cfg.fill = true → ∀ e ∈ evs, feedOk e) : GInv (evs.foldl World.step w) (stepsG evs w g) := by
  induction evs generalizing w g with
  | nil => exact h
  | cons e t ih =>
    simp only [List.foldl_cons, stepsG]
    refine ih (h.step e (fun hfl => hf hfl e (by simp))) (fun hfl e' he' => ?_)
    rw [step_cfg] at hfl
    exact hf hfl e' (by simp [he'])

/-- **the invariant holds after every script** (under `cfg.fill`, provided no `feed` event contains an empty chunk) -/
theorem ginv_script (cfg : Cfg) (evs : List Ev) (hf : cfg.fill = true → ∀ e ∈ evs, feedOk e) :
    GInv (evs.foldl World.step { cfg := cfg }) (flog cfg evs) :=
  (ginv_init cfg).steps evs hf

/-! ## the ghost in terms of the script -/

/-- the read events a script event feeds -/
def evReads : Ev → List ReadEv
  | .feed chunks => chunks.map ReadEv.data
  | .feedEof => [.eof]
  | .feedErr => [.err]
  | _ => []

/-- `setup` starts a new connection, every other event appends what it feeds -/
def fedStep (acc : List ReadEv) (e : Ev) : List ReadEv := if e = .setup then [] else acc ++ evReads e

/-- **the read events a script feeds since its last `setup`** (a function of the script alone) -/
def scriptFed (evs : List Ev) : List ReadEv := evs.foldl fedStep []

theorem fedStep_of_ne {e : Ev} (h : e ≠ .setup) (acc : List ReadEv) : fedStep acc e = acc ++ evReads e := by
  simp [fedStep, h]

/-- without a `setup` in between, what is fed is appended -/
theorem foldl_fedStep_noSetup (post : List Ev) (hns : ∀ e ∈ post, e ≠ .setup) (acc : List ReadEv) :
    post.foldl fedStep acc = acc ++ post.flatMap evReads := by
  induction post generalizing acc with
  | nil => simp
  | cons e t ih =>
    simp only [List.foldl_cons, List.flatMap_cons]
    rw [fedStep_of_ne (hns e (by simp)), ih (fun e' he' => hns e' (by simp [he'])), List.append_assoc]

theorem scriptFed_split (pre post : List Ev) (hns : ∀ e ∈ post, e ≠ .setup) :
    scriptFed (pre ++ .setup :: post) = post.flatMap evReads := by
  unfold scriptFed
  rw [List.foldl_append, List.foldl_cons]
  have : fedStep (pre.foldl fedStep []) .setup = [] := by simp [fedStep]
  rw [this, foldl_fedStep_noSetup post hns]; rfl

theorem poll_fed (g : FLog) (w : World) (t : Task) : (g.poll w t).fed = g.fed ∧ (g.poll w t).mark = g.mark := by
  cases t <;> exact ⟨rfl, rfl⟩

theorem drainG_fed (f : Nat) (w : World) (g : FLog) :
    (drainG f w g).fed = g.fed ∧ (drainG f w g).mark = g.mark := by
  induction f generalizing w g with
  | zero => exact ⟨rfl, rfl⟩
  | succ f ih =>
    simp only [drainG]
    cases w.pick with
    | none => exact ⟨rfl, rfl⟩
    | some t =>
      obtain ⟨a, b⟩ := ih (w.pollTask t) (g.poll w t)
      obtain ⟨c, d⟩ := poll_fed g w t
      exact ⟨a.trans c, b.trans d⟩

theorem sweepListG_fed (l : List Task) (w : World) (g : FLog) :
    (sweepListG l w g).fed = g.fed ∧ (sweepListG l w g).mark = g.mark := by
  induction l generalizing w g with
  | nil => exact ⟨rfl, rfl⟩
  | cons t rest ih =>
    simp only [sweepListG]
    split
    · obtain ⟨a, b⟩ := ih (w.pollTask t) (g.poll w t)
      obtain ⟨c, d⟩ := poll_fed g w t
      exact ⟨a.trans c, b.trans d⟩
    · exact ih w g

/-- an accepted script event feeds exactly what it says -/
theorem apply_fed (g : FLog) (w : World) (e : Ev) (hb : w.bad = false) (hb' : (w.apply e).bad = false) :
    (g.apply w e).fed = fedStep g.fed e := by
  have hbs : w.badScript.bad = true := rfl
  cases e with
  | setup =>
    simp only [World.apply] at hb'
    simp only [FLog.apply, fedStep, ↓reduceIte]
    by_cases h1 : w.task ≠ .none ∨ w.ctxDropped = true
    · rw [if_pos h1, hbs] at hb'; cases hb'
    · rw [if_neg h1] at hb' ⊢
      cases hc : w.hasCtx with
      | false =>
        simp only [hc, Bool.not_false, ↓reduceIte] at hb' ⊢
        by_cases h2 : w.handles ≠ [] ∨ w.ops ≠ []
        · rw [if_pos h2, hbs] at hb'; cases hb'
        · rw [if_neg h2]
      | true => simp only [Bool.not_true, Bool.false_eq_true, ↓reduceIte]
  | feed chunks =>
    simp only [World.apply] at hb'
    simp only [FLog.apply]
    split at hb'
    · rw [hbs] at hb'; cases hb'
    · rename_i hc
      rw [if_neg hc, fedStep_of_ne (by intro x; cases x)]; rfl
  | feedEof =>
    simp only [World.apply] at hb'
    simp only [FLog.apply]
    split at hb'
    · rw [hbs] at hb'; cases hb'
    · rename_i hc
      rw [if_neg hc, fedStep_of_ne (by intro x; cases x)]; rfl
  | feedErr =>
    simp only [World.apply] at hb'
    simp only [FLog.apply]
    split at hb'
    · rw [hbs] at hb'; cases hb'
    · rename_i hc
      rw [if_neg hc, fedStep_of_ne (by intro x; cases x)]; rfl
  | poll t =>
    simp only [FLog.apply]
    rw [fedStep_of_ne (by intro x; cases x)]
    split
    · rw [(poll_fed g w t).1]; simp [evReads]
    · simp [evReads]
  | _ => simp [FLog.apply, fedStep, evReads]

/-- an event other than `setup` does not move the mark -/
theorem apply_mark (g : FLog) (w : World) (e : Ev) (he : e ≠ .setup) : (g.apply w e).mark = g.mark := by
  cases e with
  | setup => exact absurd rfl he
  | feed chunks => simp only [FLog.apply]; split <;> rfl
  | feedEof => simp only [FLog.apply]; split <;> rfl
  | feedErr => simp only [FLog.apply]; split <;> rfl
  | poll t => simp only [FLog.apply]; split; exact (poll_fed g w t).2; rfl
  | _ => rfl

theorem stepG_tail (w1 : World) (g1 : FLog) :
    (if w1.bad = true then g1 else
      if (drain w1.drainFuel w1).cfg.sweep = true then
        drainG (drain w1.drainFuel w1).sweep.drainFuel (drain w1.drainFuel w1).sweep
          (sweepG (drain w1.drainFuel w1) (drainG w1.drainFuel w1 g1))
      else drainG w1.drainFuel w1 g1).fed = g1.fed ∧
    (if w1.bad = true then g1 else
      if (drain w1.drainFuel w1).cfg.sweep = true then
        drainG (drain w1.drainFuel w1).sweep.drainFuel (drain w1.drainFuel w1).sweep
          (sweepG (drain w1.drainFuel w1) (drainG w1.drainFuel w1 g1))
      else drainG w1.drainFuel w1 g1).mark = g1.mark := by
  split
  · exact ⟨rfl, rfl⟩
  · obtain ⟨a, b⟩ := drainG_fed w1.drainFuel w1 g1
    split
    · obtain ⟨c, d⟩ := drainG_fed (drain w1.drainFuel w1).sweep.drainFuel (drain w1.drainFuel w1).sweep
        (sweepG (drain w1.drainFuel w1) (drainG w1.drainFuel w1 g1))
      obtain ⟨e, f⟩ := sweepListG_fed ([Task.ctx] ++ (sortNat ((drain w1.drainFuel w1).ops.map (·.1))).map Task.op ++
        (sortNat (drain w1.drainFuel w1).streams).map Task.st) (drain w1.drainFuel w1) (drainG w1.drainFuel w1 g1)
      exact ⟨c.trans (e.trans a), d.trans (f.trans b)⟩
    · exact ⟨a, b⟩

theorem step_bad_of_apply_bad (w : World) (e : Ev) (hb : w.bad = false)
    (h : ((w.emit (.ev e)).apply e).bad = true) : (w.step e).bad = true := by
  unfold World.step
  simp only [hb, Bool.false_eq_true, ↓reduceIte, h]

/-- **one accepted step** feeds exactly what its event says -/
theorem stepG_fed (w : World) (e : Ev) (g : FLog) (hb : w.bad = false) (hb' : (w.step e).bad = false) :
    (stepG w e g).fed = fedStep g.fed e := by
  have h1 : ((w.emit (.ev e)).apply e).bad = false := by
    cases h : ((w.emit (.ev e)).apply e).bad with
    | false => rfl
    | true => rw [step_bad_of_apply_bad w e hb h] at hb'; cases hb'
  unfold stepG
  simp only [hb, Bool.false_eq_true, ↓reduceIte]
  rw [(stepG_tail _ _).1]
  exact apply_fed g (w.emit (.ev e)) e hb h1

theorem stepG_mark (w : World) (e : Ev) (g : FLog) (he : e ≠ .setup) : (stepG w e g).mark = g.mark := by
  unfold stepG
  split
  · rfl
  · simp only
    rw [(stepG_tail _ _).2]
    exact apply_mark g _ e he

theorem step_of_bad (w : World) (e : Ev) (hb : w.bad = true) : w.step e = w := by
  unfold World.step; simp [hb]

theorem steps_of_bad (evs : List Ev) (w : World) (hb : w.bad = true) : evs.foldl World.step w = w := by
  induction evs with
  | nil => rfl
  | cons e t ih => rw [List.foldl_cons, step_of_bad w e hb]; exact ih

/-- a script that was not refused was not refused at any point -/
theorem bad_false_of_steps (evs : List Ev) (w : World) (h : (evs.foldl World.step w).bad = false) : w.bad = false := by
  cases hb : w.bad with
  | false => rfl
  | true => rw [steps_of_bad evs w hb, hb] at h; cases h

/-- **the ghost's `fed` is what the script says it feeds** (for a script that is not refused as malformed) -/
theorem stepsG_fed (evs : List Ev) (w : World) (g : FLog) (h : (evs.foldl World.step w).bad = false) :
    (stepsG evs w g).fed = evs.foldl fedStep g.fed := by
  induction evs generalizing w g with
  | nil => rfl
  | cons e t ih =>
    simp only [List.foldl_cons, stepsG] at h ⊢
    have h1 : (w.step e).bad = false := bad_false_of_steps t _ h
    have h0 : w.bad = false := by
      cases hb : w.bad with
      | false => rfl
      | true => rw [step_of_bad w e hb, hb] at h1; cases h1
    rw [ih _ _ h, stepG_fed w e g h0 h1]

theorem flog_fed (cfg : Cfg) (evs : List Ev) (h : (evs.foldl World.step { cfg := cfg }).bad = false) :
    (flog cfg evs).fed = scriptFed evs := stepsG_fed evs _ _ h

theorem stepsG_mark (post : List Ev) (w : World) (g : FLog) (hns : ∀ e ∈ post, e ≠ .setup) :
    (stepsG post w g).mark = g.mark := by
  induction post generalizing w g with
  | nil => rfl
  | cons e t ih =>
    simp only [stepsG]
    rw [ih _ _ (fun e' he' => hns e' (by simp [he'])), stepG_mark w e g (hns e (by simp))]

theorem stepsG_append (a b : List Ev) (w : World) (g : FLog) :
    stepsG (a ++ b) w g = stepsG b (a.foldl World.step w) (stepsG a w g) := by
  induction a generalizing w g with
  | nil => rfl
  | cons e t ih => simp only [List.cons_append, stepsG, List.foldl_cons]; exact ih _ _

theorem steps_out_prefix (evs : List Ev) (w : World) : ∃ added, (evs.foldl World.step w).out = w.out ++ added := by
  induction evs generalizing w with
  | nil => exact ⟨[], by simp⟩
  | cons e t ih =>
    obtain ⟨a2, h2⟩ := ih (w.step e)
    rcases W7.step_out_shape w e with h1 | ⟨rest, h1, _⟩
    · exact ⟨a2, by rw [List.foldl_cons, h2, h1]⟩
    · exact ⟨.ev e :: rest ++ a2, by rw [List.foldl_cons, h2, h1]; simp⟩

theorem steps_cfg (evs : List Ev) (w : World) : (evs.foldl World.step w).cfg = w.cfg := by
  induction evs generalizing w with
  | nil => rfl
  | cons e t ih => rw [List.foldl_cons, ih, step_cfg]

/-! ## within one connection the decoded frames only grow -/

theorem poll_dec (g : FLog) (w : World) (t : Task) : g.dec <+: (g.poll w t).dec := by
  cases t with
  | ctx => exact List.prefix_append _ _
  | op id => exact List.prefix_refl _
  | st id => exact List.prefix_refl _

theorem drainG_dec (f : Nat) (w : World) (g : FLog) : g.dec <+: (drainG f w g).dec := by
  induction f generalizing w g with
  | zero => exact List.prefix_refl _
  | succ f ih =>
    simp only [drainG]
    cases w.pick with
    | none => exact List.prefix_refl _
    | some t => exact (poll_dec g w t).trans (ih _ _)

theorem sweepListG_dec (l : List Task) (w : World) (g : FLog) : g.dec <+: (sweepListG l w g).dec := by
  induction l generalizing w g with
  | nil => exact List.prefix_refl _
  | cons t rest ih =>
    simp only [sweepListG]
    split
    · exact (poll_dec g w t).trans (ih _ _)
    · exact ih w g

theorem apply_dec (g : FLog) (w : World) (e : Ev) (he : e ≠ .setup) : g.dec <+: (g.apply w e).dec := by
  cases e with
  | setup => exact absurd rfl he
  | feed chunks => simp only [FLog.apply]; split <;> exact List.prefix_refl _
  | feedEof => simp only [FLog.apply]; split <;> exact List.prefix_refl _
  | feedErr => simp only [FLog.apply]; split <;> exact List.prefix_refl _
  | poll t => simp only [FLog.apply]; split; exact poll_dec g w t; exact List.prefix_refl _
  | _ => exact List.prefix_refl _

theorem stepG_dec (w : World) (e : Ev) (g : FLog) (he : e ≠ .setup) : g.dec <+: (stepG w e g).dec := by
  unfold stepG
  split
  · exact List.prefix_refl _
  · simp only
    refine (apply_dec g (w.emit (.ev e)) e he).trans ?_
    split
    · exact List.prefix_refl _
    · split
      · exact (drainG_dec _ _ _).trans ((sweepListG_dec _ _ _).trans (drainG_dec _ _ _))
      · exact drainG_dec _ _ _

theorem stepsG_dec (post : List Ev) (w : World) (g : FLog) (hns : ∀ e ∈ post, e ≠ .setup) :
    g.dec <+: (stepsG post w g).dec := by
  induction post generalizing w g with
  | nil => exact List.prefix_refl _
  | cons e t ih =>
    simp only [stepsG]
    exact (stepG_dec w e g (hns e (by simp))).trans (ih _ _ (fun e' he' => hns e' (by simp [he'])))

/-! ## a script is refused only by the event itself -/

theorem drain_bad (f : Nat) (w : World) (h : OwnInv w) : (drain f w).bad = w.bad := by
  induction f generalizing w with
  | zero => rfl
  | succ f ih =>
    simp only [World.drain]
    split
    · rfl
    · rename_i t _
      rw [ih _ (own_pollTask w t h), pollTask_bad w t h]

theorem sweep_bad (w : World) (h : OwnInv w) : w.sweep.bad = w.bad := by
  unfold World.sweep
  simp only
  generalize ([Task.ctx] ++ List.map Task.op (sortNat (List.map (fun x => x.1) w.ops)) ++
    List.map Task.st (sortNat w.streams)) = tasks
  suffices hh : ∀ (l : List Task) (w0 : World), OwnInv w0 →
      (l.foldl (fun w t => if w.taskLive t ∧ t ∉ w.woken ∧ t ∉ w.held then w.pollTask t else w) w0).bad = w0.bad from
    hh tasks w h
  intro l
  induction l with
  | nil => intro w0 _; rfl
  | cons t rest ih =>
    intro w0 h0
    simp only [List.foldl_cons]
    split
    · rw [ih _ (own_pollTask w0 t h0), pollTask_bad w0 t h0]
    · exact ih _ h0

/-- whether a step is refused is decided by its event alone (the executor never refuses anything) -/
theorem step_bad_eq (w : World) (e : Ev) (h : OwnInv w) (hb : w.bad = false) :
    (w.step e).bad = ((w.emit (.ev e)).apply e).bad := by
  have h1 : OwnInv ((w.emit (.ev e)).apply e) := own_apply _ e (own_emit w _ h)
  unfold World.step
  simp only [hb, Bool.false_eq_true, ↓reduceIte]
  generalize (w.emit (.ev e)).apply e = w1 at h1 ⊢
  cases hb1 : w1.bad with
  | true => simp [hb1]
  | false =>
    simp only [Bool.false_eq_true, ↓reduceIte]
    have h2 : OwnInv (drain w1.drainFuel w1) := own_drain _ _ h1
    have e2 : (drain w1.drainFuel w1).bad = false := by rw [drain_bad _ _ h1, hb1]
    generalize drain w1.drainFuel w1 = w2 at h2 e2 ⊢
    have e3 : (if w2.cfg.sweep = true then drain w2.sweep.drainFuel w2.sweep else w2).bad = false := by
      split
      · rw [drain_bad _ _ (own_sweep w2 h2), sweep_bad w2 h2, e2]
      · exact e2
    generalize (if w2.cfg.sweep = true then drain w2.sweep.drainFuel w2.sweep else w2) = w3 at e3 ⊢
    split
    · simpa using e3
    · exact e3

/-! ## which script events feed an end-of-stream event -/

/-- the script events that make the transport report end-of-stream: `feedEof`, `feedErr`, and a `feed` with an empty
    chunk (a zero-length read) -/
def feedsEnd : Ev → Prop
  | .feedEof => True
  | .feedErr => True
  | .feed chunks => [] ∈ chunks
  | _ => False

theorem hasEnd_chunks (chunks : List Bytes) (h : hasEnd (chunks.map ReadEv.data) = true) : [] ∈ chunks := by
  induction chunks with
  | nil => simp [hasEnd] at h
  | cons c t ih =>
    simp only [List.map_cons, hasEnd, ReadEv.isEnd, Bool.or_eq_true, decide_eq_true_eq] at h
    rcases h with h | h
    · have : c = [] := List.eq_nil_of_length_eq_zero h
      simp [this]
    · exact List.mem_cons_of_mem _ (ih h)

theorem hasEnd_evReads (e : Ev) (h : hasEnd (evReads e) = true) : feedsEnd e := by
  cases e with
  | feed chunks => exact hasEnd_chunks chunks h
  | feedEof => trivial
  | feedErr => trivial
  | _ => simp [evReads, hasEnd] at h

theorem hasEnd_flatMap_evReads (post : List Ev) (h : hasEnd (post.flatMap evReads) = true) :
    ∃ e ∈ post, feedsEnd e := by
  induction post with
  | nil => simp [hasEnd] at h
  | cons e t ih =>
    rw [List.flatMap_cons, hasEnd_append, Bool.or_eq_true] at h
    rcases h with h | h
    · exact ⟨e, by simp, hasEnd_evReads e h⟩
    · obtain ⟨e', he', hf⟩ := ih h
      exact ⟨e', List.mem_cons_of_mem _ he', hf⟩

end W12
end World
end Poster
