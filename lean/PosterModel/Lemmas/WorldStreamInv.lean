/-
  Lemmas/WorldStreamInv.lean — what every move (`SMove`) and every trace (`STrace`) preserves:
  well-formedness of the channel table, the conservation law for one channel, identifier bookkeeping, and the
  provenance of a closed channel.
-/
import PosterModel.Lemmas.WorldStream

set_option linter.unusedVariables false
set_option linter.unusedSimpArgs false

namespace Poster
open Framing
namespace World

/-! ## the channel view of a move -/

theorem chan_of_chans {w w' : World} (h : w'.chans = w.chans) (j : Nat) : w'.chan j = w.chan j := by
  simp [chan, h]

theorem chan_setAssoc {w w' : World} {k : Nat} {v : Chan} (h : w'.chans = setAssoc k v w.chans) (j : Nat) :
    w'.chan j = if j = k then some v else w.chan j := by
  simp only [chan, h]; exact lookup_setAssoc k j v w.chans

theorem chan_erase_ne {w w' : World} {k : Nat} (h : w'.chans = eraseFirst k w.chans) (j : Nat) (hj : j ≠ k) :
    w'.chan j = w.chan j := by
  simp only [chan, h]; exact Poster.lookupFirst_eraseFirst_ne j k w.chans hj

theorem chan_erase_self {w w' : World} {k : Nat} (h : w'.chans = eraseFirst k w.chans)
    (hn : (w.chans.map (·.1)).Nodup) : w'.chan k = none := by
  simp only [chan, h]; exact Poster.lookupFirst_eraseFirst_self k w.chans hn

/-- the channel table has one entry per channel, and every entry has its receiving half -/
structure ChanWf (w : World) : Prop where
  nodup : (w.chans.map (·.1)).Nodup
  rx : ∀ id ch, w.chan id = some ch → ch.rxAlive = true

theorem chanWf_init (cfg : Cfg) : ChanWf { cfg := cfg } := ⟨by simp, by simp [chan, lookupFirst]⟩

theorem chanWf_of_eq {w w' : World} (h : ChanWf w) (e : w'.chans = w.chans) : ChanWf w' :=
  ⟨by rw [e]; exact h.nodup, fun id ch hc => h.rx id ch (by rw [← chan_of_chans e]; exact hc)⟩

theorem chanWf_setAssoc {w w' : World} {k : Nat} {v : Chan} (h : ChanWf w) (e : w'.chans = setAssoc k v w.chans)
    (hv : v.rxAlive = true) : ChanWf w' := by
  constructor
  · rw [e]
    cases hl : lookupFirst k w.chans with
    | none =>
      rw [setAssoc_keys_new k v _ hl]
      refine List.nodup_append.mpr ⟨h.nodup, by simp, ?_⟩
      intro a ha b hb
      simp only [List.mem_singleton] at hb
      subst hb
      intro hab; subst hab
      exact (User.lookupFirst_none_iff a w.chans).mp hl ha
    | some v0 => rw [setAssoc_keys_same k v v0 _ hl]; exact h.nodup
  · intro id ch hc
    rw [chan_setAssoc e] at hc
    split at hc
    · cases hc; exact hv
    · exact h.rx id ch hc

theorem chanWf_erase {w w' : World} {k : Nat} (h : ChanWf w) (e : w'.chans = eraseFirst k w.chans) : ChanWf w' := by
  constructor
  · rw [e]; exact eraseFirst_keys_nodup k _ h.nodup
  · intro id ch hc
    by_cases hid : id = k
    · subst hid; rw [chan_erase_self e h.nodup] at hc; cases hc
    · rw [chan_erase_ne e id hid] at hc; exact h.rx id ch hc

theorem chanWf_effs {w w' : World} {es : List Eff} (h : ChanWf w) (e : w'.chans = chEffs w.chans es) : ChanWf w' := by
  constructor
  · rw [e, chEffs_keys]; exact h.nodup
  · intro id ch hc
    obtain ⟨h1, h2⟩ := lookup_chEffs w.chans es id
    have hc' : lookupFirst id (chEffs w.chans es) = some ch := by simpa [chan, e] using hc
    cases hv : lookupFirst id w.chans with
    | none => rw [h1 hv] at hc'; cases hc'
    | some c0 =>
      obtain ⟨c1, a, _, b, _⟩ := h2 c0 hv
      rw [a] at hc'; cases hc'
      rw [b]; exact h.rx id c0 hv

theorem ChanWf.move {l : SLab} {w w' : World} (h : ChanWf w) (m : SMove l w w') : ChanWf w' := by
  cases m with
  | tau chans => exact chanWf_of_eq h chans
  | ctx src ok chans => exact chanWf_effs h chans
  | addOp id hd req absent ops chans => exact chanWf_of_eq h chans
  | alloc id hd req fresh notFresh ops chans => exact chanWf_of_eq h chans
  | new id hd req fresh notFresh ops chans => exact chanWf_setAssoc h chans rfl
  | dropRx id chans => exact chanWf_erase h chans
  | pop id p ch rest hch hbuf chans => exact chanWf_setAssoc h chans (h.rx id ch hch)
  | park id ch hch hbuf htx chans => exact chanWf_setAssoc h chans (h.rx id ch hch)
  | endS id ch hch hbuf htx chans => exact chanWf_erase h chans

theorem ChanWf.trace {tr : List SLab} {w w' : World} (h : ChanWf w) (t : STrace w tr w') : ChanWf w' := by
  induction t with
  | refl => exact h
  | cons m _ ih => exact ih (h.move m)

/-- with a well-formed table, "the receiver of `ch` is alive" means "the channel exists" -/
theorem ChanWf.rxAlive_iff {w : World} (h : ChanWf w) (ch : Nat) : w.chanRxAlive ch = true ↔ w.chan ch ≠ none := by
  unfold chanRxAlive
  cases hv : w.chan ch with
  | none => simp
  | some c0 => simp [h.rx ch c0 hv]

/-! ## one channel under one move -/

/-- the observations a move appends are not `ITEM id` lines unless it is `pop id` -/
def SLab.yield (id : Nat) : SLab → List PublishRx
  | .pop c p => if c = id then [p] else []
  | _ => []

theorem SMove.items {l : SLab} {w w' : World} (m : SMove l w w') (id : Nat) :
    itemsOf id w'.out = itemsOf id w.out ++ l.yield id := by
  cases m with
  | tau chans subs ops out =>
    obtain ⟨added, e, hq⟩ := out
    rw [e, itemsOf_append, itemsOf_streamQuiet id added hq]; simp [SLab.yield]
  | ctx src ok chans c_eq ops out =>
    obtain ⟨added, e, hq⟩ := out
    rw [e, itemsOf_append, itemsOf_streamQuiet id added hq]; simp [SLab.yield]
  | addOp id' hd req absent ops chans c_eq out => rw [out]; simp [SLab.yield]
  | alloc id' hd req fresh notFresh ops chans c_eq out =>
    obtain ⟨added, e, hq⟩ := out
    rw [e, itemsOf_append, itemsOf_streamQuiet id added hq]; simp [SLab.yield]
  | new id' hd req fresh notFresh ops chans c_eq out => rw [out]; simp [SLab.yield]
  | dropRx id' chans c_eq ops out => rw [out]; simp [SLab.yield]
  | pop c p ch rest hch hbuf chans c_eq ops out =>
    rw [out, itemsOf_append]
    by_cases hc : c = id
    · subst hc; simp [SLab.yield]
    · simp [hc, itemsOf_item_ne id c p hc, SLab.yield]
  | park id' ch hch hbuf htx chans c_eq ops out => rw [out]; simp [SLab.yield]
  | endS id' ch hch hbuf htx chans c_eq ops out => rw [out, itemsOf_append]; simp [itemsOf, SLab.yield]

/-- a channel that does not exist is created only by `new` -/
theorem SMove.chan_none {l : SLab} {w w' : World} (m : SMove l w w') (id : Nat) (h : w.chan id = none)
    (hn : l ≠ .new id) : w'.chan id = none := by
  cases m with
  | tau chans => rw [chan_of_chans chans]; exact h
  | ctx src ok chans =>
    simp only [chan, chans]; exact (lookup_chEffs w.chans src.effs id).1 h
  | addOp id' hd req absent ops chans => rw [chan_of_chans chans]; exact h
  | alloc id' hd req fresh notFresh ops chans => rw [chan_of_chans chans]; exact h
  | new id' hd req fresh notFresh ops chans =>
    rw [chan_setAssoc chans]
    have : id ≠ id' := fun e => hn (by rw [e])
    simp [this, h]
  | dropRx id' chans =>
    by_cases hid : id = id'
    · subst hid
      simp only [chan, chans]
      rw [User.eraseFirst_absent id w.chans h]; exact h
    · rw [chan_erase_ne chans id hid]; exact h
  | pop c p ch rest hch hbuf chans =>
    rw [chan_setAssoc chans]
    have : id ≠ c := by intro e; subst e; rw [h] at hch; cases hch
    simp [this, h]
  | park c ch hch hbuf htx chans =>
    rw [chan_setAssoc chans]
    have : id ≠ c := by intro e; subst e; rw [h] at hch; cases hch
    simp [this, h]
  | endS id' ch hch hbuf htx chans =>
    have hid : id ≠ id' := by intro e; subst e; rw [h] at hch; cases hch
    rw [chan_erase_ne chans id hid]; exact h

/-- while a channel does not exist its stream yields nothing and the context delivers nothing into it -/
theorem SMove.none_quiet {l : SLab} {w w' : World} (m : SMove l w w') (id : Nat) (h : w.chan id = none) :
    itemsOf id w'.out = itemsOf id w.out ∧ deliversTo id l.effs = [] := by
  constructor
  · rw [m.items id]
    cases m with
    | pop c p ch rest hch =>
      have : c ≠ id := by intro e; subst e; rw [h] at hch; cases hch
      simp [this, SLab.yield]
    | _ => simp [SLab.yield]
  · cases m with
    | ctx src ok chans c_eq ops out live =>
      simp only [SLab.effs]
      rw [deliversTo_eq]
      apply List.filterMap_eq_nil_iff.mpr
      intro d hd
      have := live d.1 d.2 hd
      by_cases hid : d.1 = id
      · rw [hid] at this; exact absurd h this
      · simp [hid]
    | _ => rfl

/-- **the conservation law for one move.** For a channel that exists before and after a move that is not its own
    creation: what its stream has yielded so far, followed by what is buffered, is afterwards what it was before,
    followed by the messages the move's effects deliver into it — nothing lost, duplicated or reordered. -/
theorem SMove.hist_alive {l : SLab} {w w' : World} (m : SMove l w w') (wf : ChanWf w) (id : Nat) (ch ch' : Chan)
    (h : w.chan id = some ch) (h' : w'.chan id = some ch') (hn : l ≠ .new id) :
    itemsOf id w'.out ++ ch'.buf = itemsOf id w.out ++ ch.buf ++ deliversTo id l.effs := by
  rw [m.items id]
  cases m with
  | tau chans =>
    rw [chan_of_chans chans, h] at h'; cases h'; simp [SLab.effs, SLab.yield]
  | ctx src ok chans =>
    obtain ⟨c1, a, b, _, _⟩ := (lookup_chEffs w.chans src.effs id).2 ch h
    have : w'.chan id = some c1 := by simpa [chan, chans] using a
    rw [this] at h'; cases h'
    simp [SLab.effs, SLab.yield, b]
  | addOp id' hd req absent ops chans =>
    rw [chan_of_chans chans, h] at h'; cases h'; simp [SLab.effs, SLab.yield]
  | alloc id' hd req fresh notFresh ops chans =>
    rw [chan_of_chans chans, h] at h'; cases h'; simp [SLab.effs, SLab.yield]
  | new id' hd req fresh notFresh ops chans =>
    have hid : id ≠ id' := fun e => hn (by rw [e])
    rw [chan_setAssoc chans] at h'
    simp only [hid, if_false] at h'
    rw [h] at h'; cases h'; simp [SLab.effs, SLab.yield]
  | dropRx id' chans =>
    by_cases hid : id = id'
    · subst hid; rw [chan_erase_self chans wf.nodup] at h'; cases h'
    · rw [chan_erase_ne chans id hid, h] at h'; cases h'; simp [SLab.effs, SLab.yield]
  | pop c p c0 rest hch hbuf chans =>
    rw [chan_setAssoc chans] at h'
    by_cases hid : id = c
    · subst hid
      simp only [if_true] at h'; cases h'
      rw [h] at hch; cases hch
      simp [SLab.effs, SLab.yield, hbuf]
    · simp only [hid, if_false] at h'
      rw [h] at h'; cases h'
      have : ¬ c = id := fun e => hid e.symm
      simp [SLab.effs, SLab.yield, this]
  | park c c0 hch hbuf htx chans =>
    rw [chan_setAssoc chans] at h'
    by_cases hid : id = c
    · subst hid
      simp only [if_true] at h'; cases h'
      rw [h] at hch; cases hch
      simp [SLab.effs, SLab.yield]
    · simp only [hid, if_false] at h'
      rw [h] at h'; cases h'; simp [SLab.effs, SLab.yield]
  | endS id' c0 hch hbuf htx chans =>
    by_cases hid : id = id'
    · subst hid; rw [chan_erase_self chans wf.nodup] at h'; cases h'
    · rw [chan_erase_ne chans id hid, h] at h'; cases h'; simp [SLab.effs, SLab.yield]

/-- when the receiver goes, the stream has yielded what it had yielded -/
theorem SMove.gone {l : SLab} {w w' : World} (m : SMove l w w') (id : Nat) (h' : w'.chan id = none) :
    itemsOf id w'.out = itemsOf id w.out := by
  rw [m.items id]
  cases m with
  | pop c p c0 rest hch hbuf chans =>
    have : c ≠ id := by
      intro e; subst e
      rw [chan_setAssoc chans] at h'; simp at h'
    simp [this, SLab.yield]
  | _ => simp [SLab.yield]

/-! ## one channel along a trace -/

/-- a channel that does not exist stays away, silent and undelivered-to, until its `new` -/
theorem STrace.none_quiet {tr : List SLab} {w w' : World} (t : STrace w tr w') (id : Nat) (h : w.chan id = none)
    (hn : .new id ∉ tr) :
    w'.chan id = none ∧ itemsOf id w'.out = itemsOf id w.out ∧ delivered id tr = [] := by
  induction t with
  | refl => exact ⟨h, rfl, rfl⟩
  | @cons a b c l tr' m _ ih =>
    have hl : l ≠ .new id := fun e => hn (by rw [e]; simp)
    have hb := m.chan_none id h hl
    obtain ⟨x, y, z⟩ := ih hb (fun hm => hn (List.mem_cons_of_mem _ hm))
    obtain ⟨u, v⟩ := m.none_quiet id h
    exact ⟨x, by rw [y, u], by rw [delivered_cons, v, z]; rfl⟩

/-- **the conservation law along a trace, channel alive at both ends** (and not re-created in between) -/
theorem STrace.hist_alive {tr : List SLab} {w w' : World} (t : STrace w tr w') (wf : ChanWf w) (id : Nat)
    (ch ch' : Chan) (h : w.chan id = some ch) (h' : w'.chan id = some ch') (hn : .new id ∉ tr) :
    itemsOf id w'.out ++ ch'.buf = itemsOf id w.out ++ ch.buf ++ delivered id tr := by
  induction t generalizing ch with
  | refl => rw [h] at h'; cases h'; simp
  | @cons a b c l tr' m t' ih =>
    have hl : l ≠ .new id := fun e => hn (by rw [e]; simp)
    have hn' : .new id ∉ tr' := fun hm => hn (List.mem_cons_of_mem _ hm)
    cases hb : b.chan id with
    | none =>
      have := (t'.none_quiet id hb hn').1
      rw [this] at h'; cases h'
    | some cb =>
      rw [ih (wf.move m) cb hb h' hn', m.hist_alive wf id ch cb h hb hl, delivered_cons]
      simp [List.append_assoc]

/-- **the conservation law along a trace, in general**: what the stream has yielded at the end is a prefix of what it
    had yielded plus what was buffered plus what was delivered since (the rest was still buffered when the receiver
    was dropped, or is still buffered) -/
theorem STrace.hist_prefix {tr : List SLab} {w w' : World} (t : STrace w tr w') (wf : ChanWf w) (id : Nat)
    (ch : Chan) (h : w.chan id = some ch) (hn : .new id ∉ tr) :
    ∃ rest, itemsOf id w'.out ++ rest = itemsOf id w.out ++ ch.buf ++ delivered id tr := by
  cases h' : w'.chan id with
  | some ch' => exact ⟨ch'.buf, t.hist_alive wf id ch ch' h h' hn⟩
  | none =>
    induction t generalizing ch with
    | refl => rw [h] at h'; cases h'
    | @cons a b c l tr' m t' ih =>
      have hl : l ≠ .new id := fun e => hn (by rw [e]; simp)
      have hn' : .new id ∉ tr' := fun hm => hn (List.mem_cons_of_mem _ hm)
      cases hb : b.chan id with
      | none =>
        obtain ⟨_, y, _⟩ := t'.none_quiet id hb hn'
        exact ⟨ch.buf ++ delivered id (l :: tr'), by rw [y, m.gone id hb]; simp [List.append_assoc]⟩
      | some cb =>
        obtain ⟨rest, e⟩ := ih (wf.move m) cb hb hn' h'
        refine ⟨rest, ?_⟩
        rw [e, m.hist_alive wf id ch cb h hb hl, delivered_cons]
        simp [List.append_assoc]

/-! ## identifiers -/

/-- every operation in the table was issued (`U`) -/
def OpsU (U : Nat → Prop) (w : World) : Prop := ∀ n, w.opSt n ≠ none → U n

/-- the future of operation `id` is not "not yet polled" -/
def NotFresh (id : Nat) (w : World) : Prop := ∀ h r, w.opSt id ≠ some (.fresh h r)

theorem opSt_append_fresh (w w' : World) (id hd : Nat) (req : Req) (h : w'.ops = w.ops ++ [(id, .fresh hd req)])
    (n : Nat) : w'.opSt n = match w.opSt n with
      | some st => some st
      | none => if id = n then some (.fresh hd req) else none := by
  simp only [opSt, h]
  generalize w.ops = l
  induction l with
  | nil => simp [lookupFirst]
  | cons x t ih =>
    obtain ⟨a, b⟩ := x
    by_cases ha : a = n
    · simp [lookupFirst, ha]
    · simp [lookupFirst, ha, ih]

theorem SMove.opsKeep {l : SLab} {w w' : World} (m : SMove l w w') (hl : l.issued = none) : OpsKeep w w' := by
  cases m with
  | tau chans subs ops => exact ops
  | ctx src ok chans c_eq ops => exact opsKeep_of_eq ops
  | addOp id' => simp [SLab.issued] at hl
  | alloc id' hd req fresh notFresh ops => exact ops
  | new id' hd req fresh notFresh ops => exact ops
  | dropRx id' chans c_eq ops => exact ops
  | pop c p c0 rest hch hbuf chans c_eq ops => exact ops
  | park c c0 hch hbuf htx chans c_eq ops => exact ops
  | endS id' c0 hch hbuf htx chans c_eq ops => exact ops

theorem OpsU.move {U : Nat → Prop} {l : SLab} {w w' : World} (h : OpsU U w) (m : SMove l w w') :
    OpsU (fun x => U x ∨ l.issued = some x) w' := by
  intro n hn
  cases hl : l.issued with
  | none =>
    left
    rcases m.opsKeep hl n with e | ⟨e, _⟩
    · exact h n (by rw [← e]; exact hn)
    · exact h n e
  | some id =>
    cases m with
    | addOp id' hd req absent ops =>
      simp only [SLab.issued, Option.some.injEq] at hl
      subst hl
      rw [opSt_append_fresh w w' id' hd req ops n] at hn
      cases hv : w.opSt n with
      | some st => exact Or.inl (h n (by rw [hv]; simp))
      | none =>
        rw [hv] at hn
        by_cases hid : id' = n
        · exact Or.inr (by rw [hid])
        · simp [hid] at hn
    | _ => simp [SLab.issued] at hl

theorem NotFresh.move {l : SLab} {w w' : World} {id : Nat} (h : NotFresh id w) (m : SMove l w w')
    (hl : l.issued ≠ some id) : NotFresh id w' := by
  cases hi : l.issued with
  | none =>
    intro hd r
    rcases m.opsKeep hi id with e | ⟨_, e⟩
    · rw [e]; exact h hd r
    · exact e hd r
  | some id' =>
    cases m with
    | addOp id'' hd req absent ops =>
      simp only [SLab.issued, Option.some.injEq] at hi
      subst hi
      intro hd' r
      rw [opSt_append_fresh w w' id'' hd req ops id]
      cases hv : w.opSt id with
      | some st => simp only; rw [← hv]; exact h hd' r
      | none =>
        have : id'' ≠ id := fun e => hl (by simp [SLab.issued, e])
        simp [this]
    | _ => simp [SLab.issued] at hi

/-- once the future of `id` has been polled, its channel is never created again unless the script issues `id` again -/
theorem STrace.no_new {tr : List SLab} {w w' : World} (t : STrace w tr w') (id : Nat) (h : NotFresh id w)
    (hi : id ∉ issuedOf tr) : .new id ∉ tr := by
  induction t with
  | refl => simp
  | @cons a b c l tr' m _ ih =>
    rw [issuedOf_cons] at hi
    have hl : l.issued ≠ some id := by
      intro e; apply hi; rw [e]; simp
    intro hm
    rcases List.mem_cons.mp hm with e | e
    · subst e
      cases m with
      | new _ hd req fresh => exact h hd req fresh
    · exact ih (h.move m hl) (fun x => hi (List.mem_append_right _ x)) e

/-! ## the conservation law from a world in which the channel has never existed -/

/-- **Conservation, whole life of a channel.** Start in a world in which channel `id` does not exist and its stream has
    yielded nothing, every pending operation was issued (`U`), and follow any trace that issues pairwise distinct, new
    identifiers. Then at the end: if the channel exists, what its stream has yielded followed by what is buffered is
    exactly what the context delivered into it along the trace, in order; and in any case what the stream has yielded
    is a prefix of it. -/
theorem STrace.conservation {tr : List SLab} {w w' : World} (t : STrace w tr w') (U : Nat → Prop) (id : Nat)
    (wf : ChanWf w) (hu : OpsU U w) (h0 : w.chan id = none) (hi : itemsOf id w.out = [])
    (hnd : (issuedOf tr).Nodup) (hnew : ∀ n ∈ issuedOf tr, ¬ U n) :
    (∀ ch, w'.chan id = some ch → itemsOf id w'.out ++ ch.buf = delivered id tr) ∧
    (∃ rest, itemsOf id w'.out ++ rest = delivered id tr) := by
  induction t generalizing U with
  | refl =>
    exact ⟨fun ch hc => (by rw [h0] at hc; cases hc), ⟨[], by simp [hi]⟩⟩
  | @cons a b c l tr' m t' ih =>
    rw [issuedOf_cons] at hnd hnew
    have hnd' : (issuedOf tr').Nodup := (List.nodup_append.mp hnd).2.1
    by_cases hl : l = .new id
    · -- the channel is created now; it is never created again
      subst hl
      cases m with
      | new _ hd req fresh notFresh ops chans c_eq out =>
        have hU : U id := hu id (by rw [fresh]; simp)
        have hnot : id ∉ issuedOf tr' := fun hm => hnew id (List.mem_append_right _ hm) hU
        have hn' : .new id ∉ tr' := t'.no_new id notFresh hnot
        have hb : b.chan id = some {} := by rw [chan_setAssoc chans]; simp
        have wfb : ChanWf b := chanWf_setAssoc wf chans rfl
        have hib : itemsOf id b.out = [] := by rw [out]; exact hi
        constructor
        · intro ch hc
          have := t'.hist_alive wfb id {} ch hb hc hn'
          rw [this, hib]; simp [SLab.effs, SLab.yield]
        · obtain ⟨rest, e⟩ := t'.hist_prefix wfb id {} hb hn'
          exact ⟨rest, by rw [e, hib]; simp [SLab.effs, SLab.yield]⟩
    · have hb := m.chan_none id h0 hl
      obtain ⟨u, v⟩ := m.none_quiet id h0
      have := ih (fun x => U x ∨ l.issued = some x) (wf.move m) (hu.move m) hb (by rw [u]; exact hi) hnd' (by
        intro n hn hx
        rcases hx with hx | hx
        · exact hnew n (List.mem_append_right _ hn) hx
        · have := (List.nodup_append.mp hnd).2.2 n (by rw [hx]; simp) n hn
          exact this rfl)
      rw [delivered_cons, v]
      simpa using this

/-! ## a channel loses its sender only through a `dropChan` effect -/

/-- the effects of a batch close channel `id` -/
def Closes' (src : CtxSrc) (id : Nat) : Prop := Eff.dropChan id ∈ src.effs

/-- a channel found without sender after a move was without sender before, or the move is a batch of context
    effects containing `dropChan id` applied while the channel existed with its sender -/
theorem SMove.closed {l : SLab} {w w' : World} (m : SMove l w w') (wf : ChanWf w) (id : Nat) (ch' : Chan)
    (h' : w'.chan id = some ch') (ht : ch'.txAlive = false) :
    (∃ ch, w.chan id = some ch ∧ ch.txAlive = false) ∨
    (∃ src ch, l = .ctx src ∧ w.chan id = some ch ∧ ch.txAlive = true ∧ Eff.dropChan id ∈ src.effs) := by
  cases m with
  | tau chans => left; rw [chan_of_chans chans] at h'; exact ⟨ch', h', ht⟩
  | ctx src ok chans =>
    have hc' : lookupFirst id (chEffs w.chans src.effs) = some ch' := by simpa [chan, chans] using h'
    cases hv : w.chan id with
    | none => rw [(lookup_chEffs w.chans src.effs id).1 hv] at hc'; cases hc'
    | some c0 =>
      obtain ⟨c1, a, _, _, d⟩ := (lookup_chEffs w.chans src.effs id).2 c0 hv
      rw [a] at hc'; cases hc'
      rw [ht] at d
      cases htx : c0.txAlive with
      | false => exact Or.inl ⟨c0, rfl, htx⟩
      | true =>
        right
        refine ⟨src, c0, rfl, rfl, htx, ?_⟩
        rw [htx] at d
        simpa using d
  | addOp id' hd req absent ops chans => left; rw [chan_of_chans chans] at h'; exact ⟨ch', h', ht⟩
  | alloc id' hd req fresh notFresh ops chans => left; rw [chan_of_chans chans] at h'; exact ⟨ch', h', ht⟩
  | new id' hd req fresh notFresh ops chans =>
    rw [chan_setAssoc chans] at h'
    split at h'
    · cases h'; cases ht
    · exact Or.inl ⟨ch', h', ht⟩
  | dropRx id' chans =>
    left
    by_cases hid : id = id'
    · subst hid; rw [chan_erase_self chans wf.nodup] at h'; cases h'
    · rw [chan_erase_ne chans id hid] at h'; exact ⟨ch', h', ht⟩
  | pop c p c0 rest hch hbuf chans =>
    left
    rw [chan_setAssoc chans] at h'
    split at h'
    · rename_i e; subst e; cases h'; exact ⟨c0, hch, ht⟩
    · exact ⟨ch', h', ht⟩
  | park c c0 hch hbuf htx chans =>
    left
    rw [chan_setAssoc chans] at h'
    split at h'
    · rename_i e; subst e; cases h'; exact ⟨c0, hch, ht⟩
    · exact ⟨ch', h', ht⟩
  | endS id' c0 hch hbuf htx chans =>
    left
    by_cases hid : id = id'
    · subst hid; rw [chan_erase_self chans wf.nodup] at h'; cases h'
    · rw [chan_erase_ne chans id hid] at h'; exact ⟨ch', h', ht⟩

/-- **along a trace**: a channel found without sender at the end was without sender at the start, or some batch of
    context effects in the trace contains `dropChan id` and was applied while the channel existed with its sender -/
theorem STrace.closed {tr : List SLab} {w w' : World} (t : STrace w tr w') (wf : ChanWf w) (id : Nat) (ch' : Chan)
    (h' : w'.chan id = some ch') (ht : ch'.txAlive = false) :
    (∃ ch, w.chan id = some ch ∧ ch.txAlive = false) ∨
    (∃ t1 src t2 a b ch, tr = t1 ++ .ctx src :: t2 ∧ STrace w t1 a ∧ SMove (.ctx src) a b ∧ STrace b t2 w' ∧
      a.chan id = some ch ∧ ch.txAlive = true ∧ Eff.dropChan id ∈ src.effs) := by
  induction t with
  | refl => exact Or.inl ⟨ch', h', ht⟩
  | @cons a b c l tr' m t' ih =>
    rcases ih (wf.move m) h' with ⟨cb, hb, hbt⟩ | ⟨t1, src, t2, x, y, ch, e, s1, mv, s2, hx, hxt, hmem⟩
    · rcases m.closed wf id cb hb hbt with hl | ⟨src, ch, rfl, ha, hat, hmem⟩
      · exact Or.inl hl
      · exact Or.inr ⟨[], src, tr', a, b, ch, rfl, .refl a, m, t', ha, hat, hmem⟩
    · exact Or.inr ⟨l :: t1, src, t2, x, y, ch, by rw [e]; rfl, .cons m s1, mv, s2, hx, hxt, hmem⟩

/-- an `END` line in the log comes from an `endS` move -/
theorem STrace.end_logged {tr : List SLab} {w w' : World} (t : STrace w tr w') (id : Nat)
    (h : Obs.endStream id ∈ w'.out) : Obs.endStream id ∈ w.out ∨ SLab.endS id ∈ tr := by
  induction t with
  | refl => exact Or.inl h
  | @cons a b c l tr' m t' ih =>
    rcases ih h with hb | hb
    · cases m with
      | tau chans subs ops out =>
        obtain ⟨added, e, hq⟩ := out
        rw [e] at hb
        rcases List.mem_append.mp hb with hb | hb
        · exact Or.inl hb
        · exact absurd rfl ((hq _ hb).2 id)
      | ctx src ok chans c_eq ops out =>
        obtain ⟨added, e, hq⟩ := out
        rw [e] at hb
        rcases List.mem_append.mp hb with hb | hb
        · exact Or.inl hb
        · exact absurd rfl ((hq _ hb).2 id)
      | addOp id' hd req absent ops chans c_eq out => rw [out] at hb; exact Or.inl hb
      | alloc id' hd req fresh notFresh ops chans c_eq out =>
        obtain ⟨added, e, hq⟩ := out
        rw [e] at hb
        rcases List.mem_append.mp hb with hb | hb
        · exact Or.inl hb
        · exact absurd rfl ((hq _ hb).2 id)
      | new id' hd req fresh notFresh ops chans c_eq out => rw [out] at hb; exact Or.inl hb
      | dropRx id' chans c_eq ops out => rw [out] at hb; exact Or.inl hb
      | pop c p c0 rest hch hbuf chans c_eq ops out =>
        rw [out] at hb; simp at hb; exact Or.inl hb
      | park c c0 hch hbuf htx chans c_eq ops out => rw [out] at hb; exact Or.inl hb
      | endS id' c0 hch hbuf htx chans c_eq ops out =>
        rw [out] at hb
        simp only [List.mem_append, List.mem_singleton, Obs.endStream.injEq] at hb
        rcases hb with hb | hb
        · exact Or.inl hb
        · subst hb; exact Or.inr (by simp)
    · exact Or.inr (List.mem_cons_of_mem _ hb)

end World
end Poster
